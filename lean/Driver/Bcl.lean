import J5V.Go.Hex
import J5V.Bcl.Fmt
import J5V.Bcl.Diff
import J5V.Bcl.ErrPrint
import J5V.Bcl.UnicodeTbl
/-! Line-protocol driver for the BCL models (core only); protocol: `harness/PROTOCOL-bcl.md`. -/
open J5V.Go J5V.Bcl

/-! ## Rendering of results -/

def hexB (bs : List Nat) : String := toHexW bs
def hexR (rs : List Rune) : String := toHexW (encodeRunes rs)

def pt (p : Pos) : String := toString p.line ++ ":" ++ toString p.col
def posStr (s e : Pos) : String := pt s ++ "-" ++ pt e

def kindName : TokenType → String
  | .invalid => "INVALID" | .eof => "EOF" | .eol => "EOL" | .space => "SPACE"
  | .ident => "IDENT" | .string => "STRING" | .regex => "REGEX" | .int => "INT"
  | .decimal => "DECIMAL" | .bool => "BOOL" | .comment => "COMMENT"
  | .blockComment => "BLOCK_COMMENT" | .description => "DESCRIPTION"
  | .assign => "ASSIGN" | .lbrace => "LBRACE" | .rbrace => "RBRACE" | .lbrack => "LBRACK"
  | .rbrack => "RBRACK" | .dot => "DOT" | .comma => "COMMA" | .colon => "COLON" | .plus => "PLUS"
  | .bang => "BANG" | .question => "QUESTION" | .anyLiteral => "T38"

def tokStr (t : Token) : String := kindName t.ty ++ "@" ++ posStr t.start t.end_ ++ "=" ++ hexR t.lit

def lexCls : LexErrKind → String
  | .unexpectedEOF => "Leof" | .unexpectedChar => "Lchr" | .secondDot => "Ldot"
  | .eolInString => "Lseol" | .eolInRegex => "Lreol" | .invalidEscape => "Lesc"

def diagStr (d : Diag) : String :=
  (match d.kind with
   | .lex k => lexCls k
   | .unexpectedToken got _ => "U:" ++ kindName got
   | .unexpectedClose => "Xclose"
   | .unclosedBlock => "Xopen") ++ "@" ++ posStr d.start d.end_

def commaJoin (l : List String) : String := ",".intercalate l

def spanStr (s : Span) : String := posStr s.start s.end_

def identStr (i : Ident) : String := "i@" ++ spanStr i.span ++ "=" ++ hexR i.value ++ "~" ++ tokStr i.token
def refStr (r : Reference) : String := "r@" ++ spanStr r.span ++ "[" ++ commaJoin (r.idents.map identStr) ++ "]"

mutual
partial def valueStr : Value → String
  | .scalar tok s => "v@" ++ spanStr s ++ "~" ++ tokStr tok
  | .array vs s => "a@" ++ spanStr s ++ "[" ++ commaJoin (vs.map valueStr) ++ "]"
end

def tagStr (t : TagValue) : String :=
  let mark := match t.mark with
    | .none => "n"
    | .bang => "!~" ++ tokStr t.markToken
    | .question => "?~" ++ tokStr t.markToken
  let target := match t.reference, t.value with
    | some r, _ => refStr r
    | none, some v => valueStr v
    | none, none => "nil"
  "t@" ++ spanStr t.span ++ "{" ++ mark ++ ";" ++ target ++ "}"

def descBody (d : Description) : String :=
  "{" ++ hexR d.value ++ ";[" ++ commaJoin (d.tokens.map tokStr) ++ "]}"

def cmtStr : Option CommentNode → String
  | none => "-"
  | some c => "c@" ++ spanStr c.span ++ "=" ++ hexR c.value

mutual
partial def stmtStr : Statement → String
  | .block h body =>
    "B@" ++ posStr h.src.start h.src.end_ ++ "{" ++ refStr h.type ++ ";[" ++
      commaJoin (h.tags.map tagStr) ++ "];[" ++ commaJoin (h.qualifiers.map tagStr) ++ "];" ++
      (match h.description with
       | none => "-"
       | some d => "d@" ++ spanStr d.span ++ descBody d) ++ ";" ++
      (if h.isOpen then "1" else "0") ++ ";" ++ cmtStr h.src.comment ++ ";" ++ bodyStr body ++ "}"
  | .assign a =>
    "A@" ++ posStr a.src.start a.src.end_ ++ "{" ++ refStr a.key ++ ";" ++
      (if a.append then "+=" else "=") ++ ";" ++ valueStr a.value ++ ";" ++ cmtStr a.src.comment ++ "}"
  | .desc d => "D@" ++ spanStr d.span ++ descBody d
partial def bodyStr (b : List Statement) : String := "[" ++ commaJoin (b.map stmtStr) ++ "]"
end

def parseOutStr : ParseOut → String
  | .tree f => "tree(" ++ bodyStr f.body ++ ")"
  | .errors es => "errs(" ++ commaJoin (es.map diagStr) ++ ")"
  | .panic _ => "panic"

def fragStr : Fragment → String
  | .header h => "H@" ++ posStr h.src.start h.src.end_
  | .close c => "X@" ++ spanStr c.span
  | .assign a => "A@" ++ posStr a.src.start a.src.end_
  | .desc d => "D@" ++ spanStr d.span
  | .comment c => "C@" ++ spanStr c.span ++ "=" ++ hexR c.value ++ "~" ++ tokStr c.token

/-- the `lex=` section: `NextToken` until the EOF token has been emitted -/
def lexSection (cls : Cls) (src : List Rune) : String :=
  let rec go : Nat → Cur → List Rune → List String → List String
    | 0, _, _, acc => acc ++ ["nofuel"]
    | fuel + 1, c, rest, acc =>
      let s := nextToken cls c rest
      match s.err with
      | some e => go fuel s.cur s.rest (acc ++ ["!" ++ lexCls e.kind ++ "@" ++ posStr e.pos e.pos])
      | none =>
        if s.tok.ty = .eof then acc ++ [tokStr s.tok]
        else go fuel s.cur s.rest (acc ++ [tokStr s.tok])
  commaJoin (go (src.length + 2) Cur.init src [])

def toIPos (d : Diag) : Option IPosition :=
  some ⟨⟨d.start.line, d.start.col⟩, ⟨d.end_.line, d.end_.col⟩⟩

def opParse (cls : Cls) (bytes : List Nat) : String :=
  let src := decodeRunes bytes
  let p0 := parseFile cls src false
  let p1 := parseFile cls src true
  let s0 := parseOutStr p0
  let s1 := parseOutStr p1
  let fr := match collectFragments cls src with
    | .ok frags => "[" ++ commaJoin (frags.map fragStr) ++ "]"
    | .err => "err"
    | .panic _ => "panic"
  let hs := match p0 with
    | .errors es =>
      (match humanStringAll (es.map toIPos) (splitLines bytes) 2 with
       | .ok out => hexB out
       | _ => "panic")
    | _ => "-"
  "lex=" ++ lexSection cls src ++ " p0=" ++ s0 ++ " p1=" ++ (if s1 == s0 then "=" else s1) ++
    " fr=" ++ fr ++ " hs=" ++ hs

def opRender (l1 c1 l2 c2 ctx : Int) (bytes : List Nat) : String :=
  match humanStringAll [some ⟨⟨l1, c1⟩, ⟨l2, c2⟩⟩] (splitLines bytes) ctx with
  | .ok out => "ok " ++ hexB out
  | _ => "panic"

def opFmt (cls : Cls) (bytes : List Nat) : String :=
  match fmt cls (decodeRunes bytes) with
  | .ok text => "ok " ++ hexR text
  | .err => "err"
  | .panic _ => "panic"

def opDiff (cls : Cls) (bytes : List Nat) : String :=
  match collectFragments cls (decodeRunes bytes) with
  | .panic _ => "panic"
  | .err => "err"
  | .ok frags =>
    let all := (diffFile cls 0 frags).map fun d => (⟨d.fromLine, d.toLine, encodeRunes d.newText⟩ : Edit)
    match fmtDiffs (splitLines bytes) all with
    | .ok [] => "ok -"
    | .ok es =>
      "ok " ++ ";".intercalate (es.map fun e =>
        toString e.fromLine ++ ":" ++ toString e.toLine ++ ":" ++ hexB e.newText)
    | .err _ => "err"
    | .panic _ => "panic"

def step (cls : Cls) (line : String) : String :=
  match line.trimAscii.toString.splitOn " " with
  | ["parse", h] => match fromHex h with
    | some bs => opParse cls bs
    | none => "bad-op"
  | ["fmt", h] => match fromHex h with
    | some bs => opFmt cls bs
    | none => "bad-op"
  | ["diff", h] => match fromHex h with
    | some bs => opDiff cls bs
    | none => "bad-op"
  | ["render", l1, c1, l2, c2, ctx, h] =>
    match l1.toInt?, c1.toInt?, l2.toInt?, c2.toInt?, ctx.toInt?, fromHex h with
    | some a, some b, some c, some d, some e, some bs => opRender a b c d e bs
    | _, _, _, _, _, _ => "bad-op"
  | _ => "bad-op"

partial def loop (f : String → String) (h : IO.FS.Stream) (out : IO.FS.Stream) : IO Unit := do
  let line ← h.getLine
  if line.isEmpty then return ()
  out.putStrLn (f line)
  loop f h out

def main : IO Unit := do
  let out ← IO.getStdout
  let tbl ← loadTbl
  match tbl with
  | none => loop (fun _ => "bad-table") (← IO.getStdin) out
  | some t => loop (step t.cls) (← IO.getStdin) out
  out.flush
