import J5V.Go.Hex
import J5V.Bcl.Parser
import J5V.Bcl.Utf8
import J5V.Bcl.UnicodeTbl
/-! Line-protocol driver for the schema-driven BCL walker model (core only); protocol:
`harness/PROTOCOL-walker.md`. STUB: answers `bad-op` until the model lands. -/
open J5V.Go J5V.Bcl

def step (_cls : Cls) (_line : String) : String := "bad-op"

partial def loop (f : String → String) (h : IO.FS.Stream) (out : IO.FS.Stream) : IO Unit := do
  let line ← h.getLine
  if line.isEmpty then return ()
  out.putStrLn (f line)
  loop f h out

def main : IO Unit := do
  let out ← IO.getStdout
  match (← loadTbl) with
  | none => loop (fun _ => "bad-table") (← IO.getStdin) out
  | some t => loop (step t.cls) (← IO.getStdin) out
  out.flush
