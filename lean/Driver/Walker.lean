import J5V.Go.Hex
import J5V.Bcl.Parser
import J5V.Bcl.Utf8
import J5V.Bcl.UnicodeTbl
import J5V.Walker.Facts
import J5V.Walker.Walk
import J5V.Walker.Stub
import J5V.Walker.Dump
import J5V.Walker.Print
import J5V.Walker.PrintErase
import J5V.Walker.PrintText
import J5V.Compile.Sexp
/-! Line-protocol driver for the schema-driven BCL walker model (core only); protocol:
`harness/PROTOCOL-walker.md`.

`walk HEX(filename) HEX(source)` → `perr` | `ok DUMP` | `err POS` | `panic` | `bad-op`:
decode the source (`decodeRunes`), `parseFile cls runes true` (`.errors` → `perr`, `.panic` →
`panic`), then `walkSchema j5Env f.body (stub j5Env filename)`.
`WALKER_DEBUG=1` appends the model's error site / panic reason to `err` / `panic` lines.

`print HEX(filename) HEX(source) SEXP` (PROTOCOL-walker.md §8; SEXP = one `(j5s …)` file of
PROTOCOL-compile.md §2 with its `(decl …)`) → `unsupported` | `tree=<t> walk=<w> msg=<m> same=<s> text=<x>`:
`t` = the model's parse of the source, positions erased, IS `toBcl ast` (compared through the
canonical rendering of `Driver/Bcl.lean`, copied below); `w` = the protocol result of
`walkSchema j5Env (toBcl ast) (stub j5Env filename)` with `:` for the space; `m` = `dump j5Env (toMsg
filename ast)`; `s` = the walk is `ok` and its tree EQUALS `toMsg filename ast` (`nodeBeq`: the reflection
layer's touched flags included; this implies equal dumps, and both dumps are on the line). With
`WALKER_PRINT_DUMPONLY=1` only the dumps are compared (development). `x` = the UTF-8 bytes of the model's
text `printJ5s ast` (`J5V/Walker/PrintText.lean`) ARE the source bytes of the op. -/
open J5V.Go J5V.Bcl J5V.Walker

def pt (p : Pos) : String := toString p.line ++ ":" ++ toString p.col

def posStr : Option Span → String
  | none => "nopos"
  | some s => pt s.start ++ "-" ++ pt s.end_

def opWalk (cls : Cls) (debug : Bool) (filename source : List Nat) : String :=
  match parseFile cls (decodeRunes source) true with
  | .errors _ => "perr"
  | .panic w => if debug then "panic " ++ w else "panic"
  | .tree f =>
    match walkSchema j5Env f.body (stub j5Env filename) with
    | .ok tree => "ok " ++ dump j5Env tree
    | .err e => "err " ++ posStr e.pos ++ (if debug then " " ++ e.what else "")
    | .panic w => if debug then "panic " ++ w else "panic"

/-! ## op `print`: canonical rendering of a tree (as `Driver/Bcl.lean`, with positions) -/

def tHexR (rs : List Rune) : String := toHexW (encodeRunes rs)
def tPos (s e : Pos) : String := pt s ++ "-" ++ pt e
def tSpan (s : Span) : String := tPos s.start s.end_
def tTok (t : Token) : String := t.ty.name ++ "@" ++ tPos t.start t.end_ ++ "=" ++ tHexR t.lit
def tJoin (l : List String) : String := ",".intercalate l
def tIdent (i : Ident) : String := "i@" ++ tSpan i.span ++ "=" ++ tHexR i.value ++ "~" ++ tTok i.token
def tRef (r : Reference) : String := "r@" ++ tSpan r.span ++ "[" ++ tJoin (r.idents.map tIdent) ++ "]"

mutual
partial def tValue : Value → String
  | .scalar tok s => "v@" ++ tSpan s ++ "~" ++ tTok tok
  | .array vs s => "a@" ++ tSpan s ++ "[" ++ tJoin (vs.map tValue) ++ "]"
end

def tTag (t : TagValue) : String :=
  let mark := match t.mark with
    | .none => "n~" ++ tTok t.markToken
    | .bang => "!~" ++ tTok t.markToken
    | .question => "?~" ++ tTok t.markToken
  let target := (match t.reference with | some r => tRef r | none => "nil") ++ "/" ++
    (match t.value with | some v => tValue v | none => "nil")
  "t@" ++ tSpan t.span ++ "{" ++ mark ++ ";" ++ target ++ "}"

def tDescBody (d : Description) : String := "{" ++ tHexR d.value ++ ";[" ++ tJoin (d.tokens.map tTok) ++ "]}"

def tCmt : Option CommentNode → String
  | none => "-"
  | some c => "c@" ++ tSpan c.span ++ "=" ++ tHexR c.value

mutual
partial def tStmt : Statement → String
  | .block h body =>
    "B@" ++ tPos h.src.start h.src.end_ ++ "{" ++ tRef h.type ++ ";[" ++
      tJoin (h.tags.map tTag) ++ "];[" ++ tJoin (h.qualifiers.map tTag) ++ "];" ++
      (match h.description with
       | none => "-"
       | some d => "d@" ++ tSpan d.span ++ tDescBody d) ++ ";" ++
      (if h.isOpen then "1" else "0") ++ ";" ++ tCmt h.src.comment ++ ";" ++ tBody body ++ "}"
  | .assign a =>
    "A@" ++ tPos a.src.start a.src.end_ ++ "{" ++ tRef a.key ++ ";" ++
      (if a.append then "+=" else "=") ++ ";" ++ tValue a.value ++ ";" ++ tCmt a.src.comment ++ "}"
  | .desc d => "D@" ++ tSpan d.span ++ tDescBody d
partial def tBody (b : List Statement) : String := "[" ++ tJoin (b.map tStmt) ++ "]"
end

/-- equality of message trees, touched flags included -/
partial def nodeBeq : Node → Node → Bool
  | .absent, .absent => true
  | .scalar a, .scalar b => a == b
  | .msg t1 p1, .msg t2 p2 => t1 == t2 && p1.length == p2.length && (p1.zip p2).all fun (a, b) => nodeBeq a b
  | .list a, .list b => a.length == b.length && (a.zip b).all fun (x, y) => nodeBeq x y
  | .map k1 v1, .map k2 v2 => k1 == k2 && v1.length == v2.length && (v1.zip v2).all fun (x, y) => nodeBeq x y
  | _, _ => false

def opPrint (cls : Cls) (debug exact : Bool) (filename source : List Nat) (ast : J5V.Compile.SrcFile) : String :=
  if !supported ast then "unsupported"
  else
    let want := toBcl ast
    let tree :=
      match parseFile cls (decodeRunes source) true with
      | .tree f => if tBody (eraseStmts f.body) == tBody want then "1" else "0"
      | _ => "0"
    let msg := toMsg filename ast
    let m := dump j5Env msg
    let (w, same) :=
      match walkSchema j5Env want (stub j5Env filename) with
      | .ok t =>
        let d := dump j5Env t
        ("ok:" ++ d, if d == m && (!exact || nodeBeq t msg) then "1" else "0")
      | .err e => ("err:" ++ posStr e.pos ++ (if debug then ":" ++ e.what.replace " " "_" else ""), "0")
      | .panic why => ("panic" ++ (if debug then ":" ++ why.replace " " "_" else ""), "0")
    let text := if encodeRunes (printJ5s ast) == source then "1" else "0"
    "tree=" ++ tree ++ " walk=" ++ w ++ " msg=" ++ m ++ " same=" ++ same ++ " text=" ++ text

/-- `print HEX HEX SEXP…`: the s-expression is the rest of the line -/
def stepPrint (cls : Cls) (debug exact : Bool) (rest : String) : String :=
  match rest.splitOn " " with
  | hn :: hs :: sx =>
    match fromHex hn, fromHex hs, J5V.Compile.parseLine ("print " ++ " ".intercalate sx) with
    | some name, some src, some (_, [sexp]) =>
      match J5V.Compile.dFile [] sexp with
      | some ast => opPrint cls debug exact name src ast
      | none => "bad-op"
    | _, _, _ => "bad-op"
  | _ => "bad-op"

def step (cls : Cls) (debug exact : Bool) (line : String) : String :=
  let l := line.trimAscii.toString
  if l.startsWith "print " then stepPrint cls debug exact (l.drop 6).toString
  else
    match l.splitOn " " with
    | ["walk", hn, hs] =>
      match fromHex hn, fromHex hs with
      | some name, some src => opWalk cls debug name src
      | _, _ => "bad-op"
    | _ => "bad-op"

partial def loop (f : String → String) (h : IO.FS.Stream) (out : IO.FS.Stream) : IO Unit := do
  let line ← h.getLine
  if line.isEmpty then return ()
  out.putStrLn (f line)
  loop f h out

def main : IO Unit := do
  let out ← IO.getStdout
  let debug := (← IO.getEnv "WALKER_DEBUG").isSome
  let exact := (← IO.getEnv "WALKER_PRINT_DUMPONLY").isNone
  match (← loadTbl) with
  | none => loop (fun _ => "bad-table") (← IO.getStdin) out
  | some t => loop (step t.cls debug exact) (← IO.getStdin) out
  out.flush
