import J5V.Go.Hex
import J5V.Bcl.Parser
import J5V.Bcl.Utf8
import J5V.Bcl.UnicodeTbl
import J5V.Walker.Facts
import J5V.Walker.Walk
import J5V.Walker.Stub
import J5V.Walker.Dump
/-! Line-protocol driver for the schema-driven BCL walker model (core only); protocol:
`harness/PROTOCOL-walker.md`.

`walk HEX(filename) HEX(source)` → `perr` | `ok DUMP` | `err POS` | `panic` | `bad-op`:
decode the source (`decodeRunes`), `parseFile cls runes true` (`.errors` → `perr`, `.panic` →
`panic`), then `walkSchema j5Env f.body (stub j5Env filename)`.
`WALKER_DEBUG=1` appends the model's error site / panic reason to `err` / `panic` lines. -/
open J5V.Go J5V.Bcl J5V.Walker

def pt (p : Pos) : String := toString p.line ++ ":" ++ toString p.col

def posStr : Option Span → String
  | none => "nopos"
  | some s => pt s.start ++ "-" ++ pt s.end_

def opWalk (cls : Cls) (debug : Bool) (filename source : List Nat) : String :=
  match parseFile cls (decodeRunes source) true with
  | .errors _ => "perr"
  | .panic w => if debug then "panic " ++ w else "panic"
  | .tree f =>
    match walkSchema j5Env f.body (stub j5Env filename) with
    | .ok tree => "ok " ++ dump j5Env tree
    | .err e => "err " ++ posStr e.pos ++ (if debug then " " ++ e.what else "")
    | .panic w => if debug then "panic " ++ w else "panic"

def step (cls : Cls) (debug : Bool) (line : String) : String :=
  match line.trimAscii.toString.splitOn " " with
  | ["walk", hn, hs] =>
    match fromHex hn, fromHex hs with
    | some name, some src => opWalk cls debug name src
    | _, _ => "bad-op"
  | _ => "bad-op"

partial def loop (f : String → String) (h : IO.FS.Stream) (out : IO.FS.Stream) : IO Unit := do
  let line ← h.getLine
  if line.isEmpty then return ()
  out.putStrLn (f line)
  loop f h out

def main : IO Unit := do
  let out ← IO.getStdout
  let debug := (← IO.getEnv "WALKER_DEBUG").isSome
  match (← loadTbl) with
  | none => loop (fun _ => "bad-table") (← IO.getStdin) out
  | some t => loop (step t.cls debug) (← IO.getStdin) out
  out.flush
