import J5V.Go.Hex
import J5V.Pipe.Service
import J5V.Pipe.Walk
import J5V.Pipe.List
import J5V.Pipe.Swagger
import J5V.Pipe.Flatten
import J5V.Pipe.ListRequest
import J5V.Pipe.Client
import J5V.Pipe.Entity
import J5V.Pipe.SwaggerDoc
/-! Line-protocol driver for the pipe cluster (C16), core only. One op per input line, one result
per output line; see `/verif/harness/PROTOCOL-pipe.md`.

The driver parses the structured package of a `chain` op and hands
* the declared services and the services entities generate (`J5V.Pipe.entityServiceDecls` over the
  compile cluster's `J5V.Compile.Entity`) to the composed service model (`J5V.Pipe.chainService`),
* the request properties to `J5V.Pipe.fillRequestFlat` (flattened body properties),
* the schemas to the graph models: `J5V.Pipe.clientGraph` (flattening), `J5V.Pipe.buildListRequest`
  (list fields), `J5V.Pipe.clientSchemas` (schemas present),
* enum default filters to `J5V.Pipe.enumDefaultsChain`,
and prints the canonical summary the Go harness prints for the client API the real pipeline
produced. The translation *op → model input* (token parsing, hoisting of inline schemas into named
graph nodes, the schema shapes of an entity's State / Event / EventType, the two built-in
`j5.state.v1` metadata schemas) is glue, validated by the stream only. -/
open J5V.Go J5V.Pipe
open J5V.Compile (Str toCamel toSnake toLowerCamel toScreamingSnake splitOnByte joinWith)

abbrev S := String

def strOf (s : S) : Str := s.toUTF8.toList.map (·.toNat)
def ofStr (s : Str) : S := J5V.Compile.Str.toString s

/-! ## the structured package -/

inductive TType where
  | scalar (k : S)
  | ref (sub : S) (name : S)
  | ext (pkg : S) (name : S)
  | arr (e : TType)
  | map (e : TType)
  | iobj (props : List (S × S × TType))
  | ione (props : List (S × S × TType))
  | ienum (opts : List S)
  deriving Inhabited

abbrev TProp := S × S × TType   -- name, flags, type

structure TSchema where
  kind : S
  name : S
  props : List TProp
  opts : List S

structure TMethod where
  name : S
  verb : S
  path : Str
  req : List TProp
  hasResp : Bool
  resp : List TProp
  list : Bool

structure TService where
  name : S                  -- "" = unnamed (entity command service)
  base : Option Str
  methods : List TMethod

structure TTopic where
  kind : S
  name : S
  msgs : List (S × List TProp)

structure TEntity where
  name : S
  keys : List TProp
  data : List TProp
  statuses : List S
  events : List (S × List TProp)
  commands : List TService

structure TSpec where
  pkg : S
  schemas : List TSchema
  services : List TService
  topics : List TTopic
  entities : List TEntity

/-! ## token parser (prefix notation with counts) -/

abbrev P := StateT (List S) Option

def tok : P S := do
  match (← get) with
  | [] => failure
  | t :: ts => set ts; pure t

def num : P Nat := do
  match (← tok).toNat? with
  | some n => if n > 10000 then failure else pure n
  | none => failure

def rep {α} (n : Nat) (p : P α) : P (List α) := do
  let mut out := #[]
  for _ in [0:n] do
    out := out.push (← p)
  pure out.toList

def scalarKinds : List S :=
  ["str", "i32", "i64", "u32", "u64", "f32", "f64", "bool", "bytes", "dec", "date", "ts", "id62", "uuid", "key", "any"]

mutual
  partial def pType : P TType := do
    let k ← tok
    match k with
    | "R" => do let sub ← tok; let n ← tok; pure (.ref sub n)
    | "X" => do let p ← tok; let n ← tok; pure (.ext p n)
    | "A" => do pure (.arr (← pType))
    | "M" => do pure (.map (← pType))
    | "IO" => do pure (.iobj (← pProps))
    | "IU" => do pure (.ione (← pProps))
    | "IE" => do let n ← num; pure (.ienum (← rep n tok))
    | _ => if scalarKinds.contains k then pure (.scalar k) else failure
  partial def pProps : P (List TProp) := do
    let n ← num
    rep n (do let name ← tok; let fl ← tok; let t ← pType; pure (name, fl, t))
end

def hexTok : P Str := do
  match fromHex (← tok) with
  | some b => pure b
  | none => failure

def pMsgs : P (List (S × List TProp)) := do
  let n ← num
  rep n (do let name ← tok; let ps ← pProps; pure (name, ps))

def pService : P TService := do
  let name0 ← tok
  let name := if name0 == "~" then "" else name0
  let b ← tok
  let base ← if b == "~" then pure none else match fromHex b with
    | some x => pure (some x)
    | none => failure
  let nM ← num
  let methods ← rep nM (do
    let name ← tok; let verb ← tok; let path ← hexTok
    let req ← pProps
    let hr ← tok
    let resp ← pProps
    let l ← tok
    pure { name, verb, path, req, hasResp := hr == "1", resp, list := l == "1" : TMethod })
  pure { name, base, methods : TService }

def pSpec : P TSpec := do
  -- "<pkg>" or "<pkg>+<n>" (n schemas live in a second source file: irrelevant for the model)
  let pkg := ((← tok).splitOn "+").headD ""
  let nS ← num
  let schemas ← rep nS (do
    let kind ← tok; let name ← tok
    if kind == "E" then do let n ← num; let opts ← rep n tok; pure { kind, name, props := [], opts : TSchema }
    else if kind == "O" || kind == "U" then do pure { kind, name, props := (← pProps), opts := [] : TSchema }
    else failure)
  let nV ← num
  let services ← rep nV pService
  let nT ← num
  let topics ← rep nT (do
    let kind ← tok; let name ← tok
    if kind == "W" || kind == "V" then do let _ ← tok; pure ()
    let msgs ← pMsgs
    pure { kind, name, msgs : TTopic })
  let nE ← num
  let entities ← rep nE (do
    let name ← tok
    let keys ← pProps; let data ← pProps
    let n ← num; let statuses ← rep n tok
    let events ← pMsgs
    let nC ← num
    let commands ← rep nC pService
    pure { name, keys, data, statuses, events, commands : TEntity })
  if (← get).isEmpty then pure { pkg, schemas, services, topics, entities } else failure

def hasFlag (fl : S) (c : Char) : Bool := fl.toList.contains c
def camel (s : S) : S := ofStr (toCamel (strOf s))
def lowerCamel (s : S) : S := ofStr (toLowerCamel (strOf s))
def snake (s : S) : S := ofStr (toSnake (strOf s))

/-! ## entities: the compile cluster's model gives the services; the schemas are glue

`toEntity` builds the `J5V.Compile.Entity` value of a declared entity (what j5parse hands to
`sourcewalk/entity.go`), as far as the generated services depend on it: name, keys (name, primary /
shard), command services (name, base path, methods: name, verb, path, request property names,
presence of a response). -/

def sourceVerb (v : S) : J5V.Compile.Verb :=
  match v with
  | "GET" => .get | "POST" => .post | "PUT" => .put | "DELETE" => .delete | "PATCH" => .patch
  | _ => .unspecified

/-- only the name of a property matters to the service model: every property is a string field -/
def nameProp (p : TProp) : J5V.Compile.Property := .mk (strOf p.1) false false (.string [] false)

def keyProp (p : TProp) : J5V.Compile.EntityKeyDecl :=
  { prop := .mk (strOf p.1) (hasFlag p.2.1 'p') false
      (.key .none (if hasFlag p.2.1 'p' then .ek (.primary true) none else .nokey) [] false),
    shard := hasFlag p.2.1 'h' }

def sourceService (sv : TService) : J5V.Compile.Service :=
  { name := if sv.name == "" then none else some (strOf sv.name),
    basePath := sv.base,
    methods := sv.methods.map fun m =>
      { name := strOf m.name, verb := sourceVerb m.verb, path := m.path,
        request := some (m.req.map nameProp),
        response := if m.hasResp then some (m.resp.map nameProp) else none } }

def toEntity (e : TEntity) : J5V.Compile.Entity :=
  { name := strOf e.name, baseUrl := [], keys := e.keys.map keyProp, data := [], statuses := e.statuses.map strOf,
    events := [], commands := e.commands.map sourceService, summaries := [], query := none, nested := [] }

/-- component name of an entity (`FooKeys`, `FooState`, …): `J5V.Compile.Entity.componentName` -/
def comp (e : TEntity) (suffix : S) : S := ofStr (J5V.Compile.Entity.componentName (toEntity e) (strOf suffix))

def getKeyProps (e : TEntity) : List TProp := e.keys.filter fun k => hasFlag k.2.1 'p' || hasFlag k.2.1 'h'
def listKeyProps (e : TEntity) : List TProp := e.keys.filter fun k => hasFlag k.2.1 'h'

/-- the schemas an entity expands to (`sourcewalk/entity.go`: Keys, Data, Status, State, EventType
with one nested object per event, Event), at the level of the op's own schema description -/
def entitySchemas (e : TEntity) : List TSchema :=
  let c := comp e
  [ { kind := "O", name := c "Keys", props := e.keys, opts := [] },
    { kind := "O", name := c "Data", props := e.data, opts := [] },
    { kind := "E", name := c "Status", props := [], opts := e.statuses },
    { kind := "O", name := c "State", opts := [], props :=
        [("metadata", "r", .ext "j5.state.v1" "StateMetadata"), ("keys", "rF", .ref "o" (c "Keys")),
         ("data", "r", .ref "o" (c "Data")), ("status", "rf", .ref "e" (c "Status"))] },
    { kind := "U", name := c "EventType", opts := [], props :=
        e.events.map fun ev => (lowerCamel ev.1, "-", .ref "o" (c "EventType" ++ "_" ++ ev.1)) } ] ++
  e.events.map (fun ev => { kind := "O", name := c "EventType" ++ "_" ++ ev.1, props := ev.2, opts := [] }) ++
  [ { kind := "O", name := c "Event", opts := [], props :=
        [("metadata", "r", .ext "j5.state.v1" "EventMetadata"), ("keys", "rF", .ref "o" (c "Keys")),
         ("event", "rf", .ref "u" (c "EventType"))] } ]

def pageReqT : TProp := ("page", "-", .ext "j5.list.v1" "PageRequest")
def queryReqT : TProp := ("query", "-", .ext "j5.list.v1" "QueryRequest")
def pageResT : TProp := ("page", "-", .ext "j5.list.v1" "PageResponse")

/-- the property types of the query service's methods (names, verbs and paths come from the model) -/
def queryMethodsT (e : TEntity) : List TMethod :=
  let n := camel e.name
  let st := lowerCamel (snake e.name)
  [ { name := n ++ "Get", verb := "GET", path := [], req := getKeyProps e, hasResp := true,
      resp := [(st, "r", .ref "o" (comp e "State"))], list := false },
    { name := n ++ "List", verb := "GET", path := [], req := listKeyProps e ++ [pageReqT, queryReqT], hasResp := true,
      resp := [(st, "r", .arr (.ref "o" (comp e "State"))), pageResT], list := true },
    { name := n ++ "Events", verb := "GET", path := [], req := getKeyProps e ++ [pageReqT, queryReqT], hasResp := true,
      resp := [("events", "-", .arr (.ref "o" (comp e "Event"))), pageResT], list := true } ]

/-- built-in schemas the entity schemas refer to; `Cause` and what is below it carry no list rules
(assumption, confirmed by the stream) and are left out -/
def builtinSchemas : List TSchema :=
  [ { kind := "O", name := "@j5.state.v1.StateMetadata", opts := [], props :=
        [("createdAt", "s", .scalar "ts"), ("updatedAt", "s", .scalar "ts"), ("lastSequence", "-", .scalar "u64")] },
    { kind := "O", name := "@j5.state.v1.EventMetadata", opts := [], props :=
        [("eventId", "-", .scalar "str"), ("sequence", "-", .scalar "u64"), ("timestamp", "fs", .scalar "ts"),
         ("cause", "-", .scalar "any")] } ]

/-! ## graph of named schemas (inline schemas hoisted as `<Parent>_<Camel(field)>`) -/

structure NamedNode where
  key : S                  -- key in the package's schema map ("Name" or "service.Name"; "@pkg.Name" = built-in)
  kind : RootKind
  props : List TProp       -- for object / oneof
  parent : S               -- message name used for naming inline children
  pfx : S                  -- "" or "service."

/-- all inline schemas below a list of properties of the message `parent` -/
partial def hoist (pfx parent : S) (props : List TProp) : List NamedNode :=
  props.foldl (fun acc (name, _, t) => acc ++ hoistType pfx parent name t) []
where
  hoistType (pfx parent field : S) : TType → List NamedNode
    | .arr e => hoistType pfx parent field e
    | .map e => hoistType pfx parent field e
    | .iobj ps =>
      let n := parent ++ "_" ++ camel field
      { key := pfx ++ n, kind := .object, props := ps, parent := n, pfx } :: hoist pfx n ps
    | .ione ps =>
      let n := parent ++ "_" ++ camel field
      { key := pfx ++ n, kind := .oneof, props := ps, parent := n, pfx } :: hoist pfx n ps
    | .ienum _ =>
      let n := parent ++ "_" ++ camel field
      [{ key := pfx ++ n, kind := .enum, props := [], parent := n, pfx }]
    | _ => []

/-- every service of the package with its sub-package messages: declared, entity query, entity command -/
def allServicesT (sp : TSpec) : List TService :=
  sp.services ++ sp.entities.foldl (fun acc e =>
    acc ++ [{ name := camel e.name ++ "Query", base := none, methods := queryMethodsT e }] ++ e.commands) []

def allSchemasT (sp : TSpec) : List TSchema :=
  sp.schemas ++ sp.entities.foldl (fun acc e => acc ++ entitySchemas e) [] ++ builtinSchemas

def allNodes (sp : TSpec) : List NamedNode :=
  let top := (allSchemasT sp).foldl (fun acc sc =>
    let kind := if sc.kind == "O" then RootKind.object else if sc.kind == "U" then .oneof else .enum
    acc ++ ({ key := sc.name, kind, props := sc.props, parent := sc.name, pfx := "" } :: hoist "" sc.name sc.props)) []
  let meth := (allServicesT sp).foldl (fun acc sv => sv.methods.foldl (fun acc m =>
    acc ++ hoist "service." (m.name ++ "Request") m.req ++ hoist "service." (m.name ++ "Response") m.resp) acc) []
  top ++ meth

def unlinked : Nat := 1000000000

def indexOf (nodes : List NamedNode) (key : S) : Nat :=
  match nodes.findIdx? (·.key == key) with
  | some i => i
  | none => unlinked

def lkindOf (t : TType) : LKind :=
  match t with
  | .scalar k =>
    if k == "bool" then .bool
    else if k == "id62" || k == "uuid" || k == "key" then .key
    else if k == "f32" || k == "f64" then .float
    else if k == "i32" || k == "i64" || k == "u32" || k == "u64" then .integer
    else if k == "ts" then .timestamp
    else if k == "str" then .string
    else .other
  | .ref sub _ => if sub == "e" then .enum else if sub == "u" then .oneof else .other
  | .ienum _ => .enum
  | .ione _ => .oneof
  | _ => .other

partial def fieldOf (nodes : List NamedNode) (pfx parent field : S) : TType → Field
  | .scalar _ => .scalar
  | .ref sub n =>
    let i := indexOf nodes n
    if sub == "o" then .object i else if sub == "u" then .oneof i else .enum i
  | .ext p n => .object (indexOf nodes ("@" ++ p ++ "." ++ n))
  | .arr e => .array (fieldOf nodes pfx parent field e)
  | .map e => .map (fieldOf nodes pfx parent field e)
  | .iobj _ => .object (indexOf nodes (pfx ++ parent ++ "_" ++ camel field))
  | .ione _ => .oneof (indexOf nodes (pfx ++ parent ++ "_" ++ camel field))
  | .ienum _ => .enum (indexOf nodes (pfx ++ parent ++ "_" ++ camel field))

def enumPrefix (name : S) : Str := toScreamingSnake (strOf name) ++ b!"_"

/-- (prefix, declared options) of the enum a property's type refers to: a declared enum `N` has
prefix `SCREAMING_SNAKE(N)_`, an inline enum of field `f` is hoisted as `Camel(f)` -/
def enumInfo (schemas : List TSchema) (field : S) : TType → Option (Str × List Str)
  | .ienum opts => some (enumPrefix (camel field), opts.map strOf)
  | .ref "e" n => (schemas.find? (·.name == n)).map fun sc => (enumPrefix n, sc.opts.map strOf)
  | _ => none

/-- flags d / P / D: default filter = first declared option / the same with the enum's prefix /
a name that is no option -/
def defaultsOf (fl : S) (pfx : Str) (opts : List Str) : Option (List Str) :=
  if hasFlag fl 'D' then some [b!"BOGUS"]
  else if hasFlag fl 'P' then some ((opts.take 1).map (pfx ++ ·))
  else if hasFlag fl 'd' then some (opts.take 1)
  else none

/-- producer's and consumer's verdict on the default filters of one property
(`J5V.Pipe.enumDefaultsChain`); `some true` when there is nothing to check -/
def defaultsVerdict (schemas : List TSchema) (p : TProp) : Option Bool :=
  let (name, fl, t) := p
  match enumInfo schemas name t with
  | some (pfx, opts) =>
    match defaultsOf fl pfx opts with
    | some ds => enumDefaultsChain pfx opts ds
    | none => some true
  | none => some true

/-- every property of the package, inline schemas included -/
partial def allPropsBelow (ps : List TProp) : List TProp :=
  ps.foldl (fun acc p => acc ++ [p] ++ below p.2.2) []
where
  below : TType → List TProp
    | .arr e => below e
    | .map e => below e
    | .iobj ps => allPropsBelow ps
    | .ione ps => allPropsBelow ps
    | _ => []

/-- `flatten` exists on a direct reference to a declared object only -/
def isFlatProp (p : TProp) : Bool :=
  hasFlag p.2.1 'F' && match p.2.2 with
    | .ref "o" _ => true
    | _ => false

def propOf (nodes : List NamedNode) (pfx parent : S) (p : TProp) : Prop' :=
  let (name, fl, t) := p
  let rules : LRules := { filter := hasFlag fl 'f', sort := hasFlag fl 's', search := hasFlag fl 'q' }
  { name := strOf name, field := fieldOf nodes pfx parent name t,
    tag := (listEffect (lkindOf t) rules).toTag, flat := isFlatProp p }

def graphOf (nodes : List NamedNode) : Graph :=
  nodes.map fun n => { kind := n.kind, props := n.props.map (propOf nodes n.pfx n.parent) }

/-! ## summary -/

def csv (xs : List S) (empty : S) : S := if xs.isEmpty then empty else ",".intercalate xs

def verbOf (v : S) : Option Verb :=
  match v with
  | "GET" => some .get | "POST" => some .post | "PUT" => some .put
  | "DELETE" => some .delete | "PATCH" => some .patch | _ => none

def verbStr : Verb → S
  | .get => "GET" | .post => "POST" | .put => "PUT" | .delete => "DELETE" | .patch => "PATCH"

def names (xs : List Str) : List S := xs.map ofStr

/-- `fillRequest`'s test for a list method: an object field referring to `j5.list.v1.QueryRequest` -/
def isQueryProp (p : TProp) : Bool :=
  match p.2.2 with
  | .ext "j5.list.v1" "QueryRequest" => true
  | _ => false

/-- outcome of a method: its summary text, or the stage that fails -/
inductive MOut where
  | line (s : S)
  | fail (stage : S)

/-- one method: request split with flattening (`fillRequestFlat`), response, list request
(`buildListRequest`) -/
def methodOut (nodes : List NamedNode) (g : Graph) (tm : TMethod) (cm : CMethod) : MOut :=
  let reqName := tm.name ++ "Request"
  let reqProps : List ReqProp := tm.req.map fun p =>
    let pr := propOf nodes "service." reqName p
    let flat : Option (List Str) :=
      if pr.flat then
        match clientMessageProps g [pr] with
        | some (.ok cs) => some (cs.map (·.name))
        | _ => some [b!"?flatten-failed"]
      else none
    { name := pr.name, flat }
  let r := fillRequestFlat cm.verb.hasBody cm.path reqProps
  let body := match r.body with
    | none => "~"
    | some b => csv (names b) "-"
  let resp := match cm.response with
    | none => "~"
    | some x => ofStr x
  let listPart : Option S :=
    if !tm.req.any isQueryProp then some "~" else
    let respProps : Option (List Prop') :=
      if tm.hasResp then some (tm.resp.map (propOf nodes "service." (tm.name ++ "Response"))) else none
    match buildListRequest g respProps with
    | some (.ok lr) =>
      let sel (ps : List (List Str)) : S :=
        if ps.isEmpty then "-" else ";".intercalate (ps.map fun p => ".".intercalate (names p))
      some ("f=" ++ sel lr.filter ++ "|s=" ++ sel lr.sort ++ "|q=" ++ sel lr.search)
    | _ => none
  match listPart with
  | none => .fail "client"
  | some l =>
    .line (ofStr cm.name ++ " " ++ verbStr cm.verb ++ " " ++ toHexW cm.path ++ " P:" ++ csv (names r.path) "-"
      ++ " Q:" ++ csv (names r.query) "-" ++ " B:" ++ body ++ " R:" ++ resp ++ " L:" ++ l)

def declOf (sv : TService) : Option ServiceDecl := do
  let ms ← sv.methods.mapM fun m => do
    let v ← verbOf m.verb
    pure { name := strOf m.name, verb := v, path := m.path, req := m.req.map (fun p => strOf p.1), hasResp := m.hasResp : MethodDecl }
  pure { name := strOf sv.name, base := sv.base, methods := ms }

/-- one service through the chain; `tms` carries the property types of its methods -/
def serviceOut (nodes : List NamedNode) (g : Graph) (pkgSub : Str) (d : ServiceDecl) (tms : List TMethod) : MOut :=
  match chainService pkgSub d with
  | .ok cs =>
    let outs := (tms.zip cs.methods).map fun (tm, cm) => methodOut nodes g tm cm
    match outs.findSome? (fun o => match o with | MOut.fail st => some st | _ => none) with
    | some st => .fail st
    | none =>
      .line ("[" ++ ofStr cs.name ++ " " ++ toString cs.methods.length
        ++ String.join (outs.map fun o => match o with | .line l => " [" ++ l ++ "]" | .fail _ => "") ++ "]")
  | .err e => .line ("[model-err:" ++ e ++ "]")
  | .panic w => .line ("[model-panic:" ++ w ++ "]")

def sortStrings (xs : List S) : List S := (xs.toArray.qsort (· < ·)).toList

/-- every property anywhere in the package (schemas, requests, responses, topic messages, entities) -/
def specProps (sp : TSpec) : List TProp :=
  allPropsBelow (sp.schemas.foldl (fun acc sc => acc ++ sc.props) []
    ++ sp.services.foldl (fun acc sv => sv.methods.foldl (fun acc m => acc ++ m.req ++ m.resp) acc) []
    ++ sp.topics.foldl (fun acc t => t.msgs.foldl (fun acc m => acc ++ m.2) acc) []
    ++ sp.entities.foldl (fun acc e =>
        e.commands.foldl (fun acc sv => sv.methods.foldl (fun acc m => acc ++ m.req ++ m.resp) acc)
          (e.events.foldl (fun acc m => acc ++ m.2) (acc ++ e.keys ++ e.data))) [])

def methodRoots (nodes : List NamedNode) (m : TMethod) : MethodRoots :=
  { request := m.req.map fun p => (propOf nodes "service." (m.name ++ "Request") p).field,
    response := if m.hasResp then some (m.resp.map fun p => (propOf nodes "service." (m.name ++ "Response") p).field) else none }

def first? (outs : List MOut) : Option S :=
  outs.findSome? fun o => match o with | .fail st => some st | _ => none

def chainLine (sp : TSpec) : S :=
  -- enum default filters: the compiler refuses the package when one names no option (`fix:` b6c593a);
  -- "accepted by the compiler, refused by the client" cannot happen (`C16_list_defaults_chain`)
  let verdicts := (specProps sp).map (defaultsVerdict sp.schemas)
  if verdicts.any (·.isNone) then "compile-err" else
  -- list methods: the compiler refuses a `QueryRequest` method whose response is not exactly one
  -- array of objects (`fix:` 57821b0, `compileListShapeOk`); the entity query service passes by construction
  let nodes0 := allNodes sp
  let badList := (allServicesT sp).any fun sv => sv.methods.any fun m =>
    m.req.any isQueryProp && !compileListShapeOk
      (if m.hasResp then some (m.resp.map (propOf nodes0 "service." (m.name ++ "Response"))) else none)
  if badList then "compile-err" else
  -- open finding at the image -> API stage: an entity without events (empty event oneof, C17's finding)
  if sp.entities.any (·.events.isEmpty) then "fail api" else
  if verdicts.any (· == some false) then "fail client" else
  let nodes := allNodes sp
  let g := graphOf nodes
  let pkgSub := strOf (sp.pkg ++ ".service")
  let pkg := strOf sp.pkg
  let svcOuts := sp.services.map fun sv =>
    match declOf sv with
    | none => MOut.line "[bad-verb]"
    | some d => serviceOut nodes g pkgSub d sv.methods
  -- entities: the services come from the compile cluster's entity model
  let entOuts : List (List MOut × S × S) := sp.entities.map fun e =>
    let ce := toEntity e
    let q : MOut := match entityQueryDecl pkg ce with
      | some d => serviceOut nodes g pkgSub d (queryMethodsT e)
      | none => .line "[no-query-service]"
    let cmds : List MOut := ((entityCommandDecls pkg ce).zip e.commands).map fun (d?, sv) =>
      match d? with
      | some d => serviceOut nodes g pkgSub d sv.methods
      | none => .line "[bad-command-service]"
    let pk := csv ((e.keys.filter fun k => hasFlag k.2.1 'p').map (·.1)) "-"
    let evs := csv (e.events.map fun ev => lowerCamel ev.1) "-"
    (q :: cmds, snake e.name ++ " PK:" ++ pk, "EV:" ++ evs)
  match first? (svcOuts ++ entOuts.foldl (fun acc x => acc ++ x.1) []) with
  | some st => "fail " ++ st
  | none =>
  let lineOf (o : MOut) : S := match o with | .line l => l | .fail _ => ""
  let entText : S :=
    if sp.entities.isEmpty then "" else
    " E" ++ toString sp.entities.length ++ String.join (entOuts.map fun (outs, headTxt, evTxt) =>
      match outs with
      | q :: cmds =>
        " [" ++ headTxt ++ " " ++ lineOf q ++ " C" ++ toString cmds.length
          ++ String.join (cmds.map fun c => " " ++ lineOf c) ++ " " ++ evTxt ++ "]"
      | [] => " [?]")
  -- schemas present: `collectPackageRefs` over the client view
  let roots : PackageRoots :=
    { entities := sp.entities.map fun e =>
        let fieldsOfSchema (n : S) : List Field :=
          match nodes.find? (·.key == n) with
          | some nd => nd.props.map fun p => (propOf nodes nd.pfx nd.parent p).field
          | none => []
        { keys := fieldsOfSchema (comp e "Keys"), state := fieldsOfSchema (comp e "State"),
          event := fieldsOfSchema (comp e "Event"),
          query := (queryMethodsT e).map (methodRoots nodes),
          commands := e.commands.map fun sv => sv.methods.map (methodRoots nodes) },
      services := sp.services.map fun sv => sv.methods.map (methodRoots nodes) }
  let keys := match clientSchemas g roots with
    | some (.ok is) =>
      csv (sortStrings ((is.filterMap fun i => (nodes[i]?).map (·.key)).filter fun k => !k.startsWith "@")) "-"
    | some (.err e) => "schemas-err:" ++ e
    | some (.panic w) => "schemas-panic:" ++ w
    | none => "collect-fuel"
  -- topics: `acceptTopic` / `acceptMultiReqResTopic` naming; entities publish `<Entity>Publish`
  let tname (n : S) : S := ofStr (topicName (strOf n))
  let mname (n : S) : S := ofStr (messageName (strOf n))
  let topics : List S := sp.topics.foldl (fun acc t =>
    if t.kind == "P" then acc ++ [tname t.name ++ "=" ++ "+".intercalate (t.msgs.map (mname ·.1))]
    else if t.kind == "Q" then
      acc ++ [tname (t.name ++ "Request") ++ "=" ++ mname (t.name ++ "Request"),
              tname (t.name ++ "Reply") ++ "=" ++ mname (t.name ++ "Reply")]
    else acc ++ [tname t.name ++ "=" ++ mname t.name]) []
  let entTopics : List S := sp.entities.map fun e =>
    tname (camel e.name ++ "Publish") ++ "=" ++ mname (camel e.name ++ "Event")
  -- the OpenAPI document (`Pipe/SwaggerDoc.lean`): the model's client API of the declared services
  -- (+ the entities' roots for the schema map) through `buildSwagger`
  let svcIns : List ServiceIn := sp.services.filterMap fun sv =>
    match declOf sv with
    | none => none
    | some d =>
      match chainService pkgSub d with
      | .ok cs =>
        some { name := cs.name, methods := (sv.methods.zip cs.methods).map fun (tm, cm) =>
          { name := cm.name, verb := cm.verb, path := cm.path,
            req := tm.req.map (propOf nodes "service." (tm.name ++ "Request")),
            resp := if tm.hasResp then some (tm.resp.map (propOf nodes "service." (tm.name ++ "Response"))) else none } }
      | _ => none
  let keyOf (i : Nat) : Option S := (nodes[i]?).bind fun n => if n.key.startsWith "@" then none else some n.key
  let refText (rs : List Nat) : S := csv (sortStrings (rs.filterMap keyOf).eraseDups) "-"
  let wText : S :=
    match buildClient g svcIns roots.entities with
    | some (.ok api) =>
      match buildSwagger api with
      | .ok doc =>
        let opText (o : DOperation) : S :=
          o.verb.lower ++ ":" ++ toHexW o.path
            ++ ":P=" ++ csv (o.params.map fun p => ofStr p.name ++ "@" ++ (match p.loc with | .path => "path" | .query => "query")) "-"
            ++ ":B=" ++ (match o.body with
                | none => "~"
                | some b => csv (sortStrings (b.map fun x => ofStr x.1).eraseDups) "-")
            ++ ":R=" ++ (if o.response.isSome then "1" else "0") ++ ":F=" ++ refText o.refs
        "W:" ++ (if doc.paths.isEmpty then "-" else "|".intercalate (doc.paths.map fun item => ";".intercalate (item.map opText)))
          ++ " X:" ++ refText ((doc.components.filter fun c => (keyOf c.1).isSome).flatMap fun c => propRefs c.2)
      | _ => "W:model-err"
    | _ => "W:client-model-err"
  "ok S" ++ toString sp.services.length ++ String.join (svcOuts.map fun o => " " ++ lineOf o) ++ entText
    ++ " K:" ++ keys ++ " T:" ++ csv (topics ++ entTopics) "-" ++ " " ++ wText

/-! ## kernel ops -/

def hexAll (xs : List S) : Option (List Str) := xs.mapM fromHex

def showPath (o : Outcome Str) : S :=
  match o with
  | .ok p => "ok " ++ toHexW p
  | .err _ => "err"
  | .panic _ => "panic"

def hexList (xs : List Str) : S := if xs.isEmpty then "-" else ",".intercalate (xs.map toHexW)

def pairs : List Str → List PField
  | a :: b :: rest => { name := a, json := b } :: pairs rest
  | _ => []

def nameOp (svc method inp out : Str) : S :=
  let pkg := b!"k.v1.service"
  let input : MsgRef := { pkg, name := inp }
  let output : MsgRef :=
    if out = httpBodyFull then { pkg := b!"google.api", name := b!"HttpBody" }
    else if out = emptyFull then { pkg := b!"google.protobuf", name := b!"Empty" }
    else { pkg, name := out }
  match classify svc with
  | .service => if acceptMethod pkg method input output then "service " ++ toHexW output.name else "err"
  | .topic => if acceptTopicMethod pkg method input output then "topic " ++ toHexW input.name else "err"
  | .ignored => "ignored"
  | .unsupported => "err"

/-- graph op: `<root> <n> (<Name> <o|u|e> <k> (<prop> <d|a|m|s> <target|->)*)*` -/
def pGraph : P (S × List (S × S × List (S × S × S))) := do
  let root ← tok
  let n ← num
  let nodes ← rep n (do
    let name ← tok; let kind ← tok; let k ← num
    let props ← rep k (do let p ← tok; let how ← tok; let t ← tok; pure (p, how, t))
    pure (name, kind, props))
  if (← get).isEmpty then pure (root, nodes) else failure

def graphOp (toks : List S) : S :=
  match (pGraph.run toks) with
  | none => "bad-op"
  | some ((root, nodes), _) =>
    let idx (n : S) : Nat := match nodes.findIdx? (·.1 == n) with | some i => i | none => unlinked
    let kindOf (n : S) : S := match nodes.find? (·.1 == n) with | some x => x.2.1 | none => "?"
    if kindOf root != "o" then "bad-op" else
    let g : Graph := nodes.map fun (_, kind, props) =>
      { kind := if kind == "o" then .object else if kind == "u" then .oneof else .enum,
        props := props.map fun (p, how, t) =>
          let base : Field := if how == "s" then .scalar
            else if kindOf t == "u" then .oneof (idx t) else if kindOf t == "e" then .enum (idx t) else .object (idx t)
          let f := if how == "a" then Field.array base else if how == "m" then Field.map base else base
          -- `f`: a flattened object field (flatten exists on object fields only)
          { name := strOf p, field := f, tag := if how == "s" then 4 else 0, flat := how == "f" && kindOf t == "o" } }
    -- the schema set is refused when any reference is unresolved (`assertRefsLink`)
    let linked := match linkAll g with
      | some (.ok _) => true
      | _ => false
    if !linked then "err" else
    -- the list method `L`: request { query: QueryRequest (another package) }, response { items: array of root }
    let l := match buildListRequest g (some [{ name := b!"items", field := .array (.object (idx root)) }]) with
      | some (.ok lr) => some (csv (lr.search.map fun p => ".".intercalate (names p)) "-")
      | _ => none
    let mroots : MethodRoots := { request := [.object unlinked], response := some [.array (.object (idx root))] }
    let proots : PackageRoots := { entities := [], services := [[mroots]] }
    let k := match clientSchemas g proots with
      | some (.ok is) => some (csv (sortStrings (is.filterMap fun i => (nodes[i]?).map (·.1))) "-")
      | _ => none
    match l, k with
    | some l, some k => "ok L:" ++ l ++ " K:" ++ k
    | _, _ => "err"

/-- swag op: prefix tree of field kinds -/
partial def pSField : P SField := do
  match (← tok) with
  | "any" => pure .any | "str" => pure .str | "int" => pure .int | "float" => pure .float
  | "bool" => pure .bool | "bytes" => pure .bytes | "dec" => pure .decimal | "date" => pure .date
  | "ts" => pure .timestamp | "key" => pure .key
  | "eref" => pure .enumRef | "einl" => pure .enumInline | "eunset" => pure .enumUnset
  | "oref" => pure .objRef | "ounset" => pure .objUnset
  | "uref" => pure .oneofRef | "uunset" => pure .oneofUnset
  | "unset" => pure .unset | "nil" => pure .nil
  | "arr" => do pure (.array (← pSField))
  | "map" => do pure (.map (← pSField))
  | "oinl" => do let n ← num; pure (.objInline (← rep n pSField))
  | "uinl" => do let n ← num; pure (.oneofInline (← rep n pSField))
  | _ => failure

def swagOp (toks : List S) : S :=
  match pSField.run toks with
  | some (f, []) =>
    match convertSchema f with
    | .ok t => "ok " ++ t
    | .err _ => "err"
    | .panic _ => "panic"
  | _ => "bad-op"

/-- paths op: `<n> (<VERB> <pathHex>)*` → the `paths` object of the OpenAPI document, in order -/
def pathsOp (toks : List S) : S :=
  let p : P (List SOp) := do
    let n ← num
    let ops ← rep n (do
      let v ← tok
      let path ← hexTok
      match verbOf v with
      | some _ => pure { verb := v.toLower, path : SOp }
      | none => failure)
    if (← get).isEmpty then pure ops else failure
  match p.run toks with
  | some (ops0, _) =>
    -- the harness puts the methods alternately into two services; `BuildSwagger` goes service by service
    let idx := ops0.zipIdx
    let ops := (idx.filter (·.2 % 2 == 0)).map (·.1) ++ (idx.filter (·.2 % 2 == 1)).map (·.1)
    let items := groupOps ops
    "ok " ++ csv (items.map fun item => toHexW (PathItem.key item) ++ "=" ++ "+".intercalate (item.map (·.verb))) "-"
  | none => "bad-op"

def step (line : S) : S :=
  match line.trimAscii.toString.splitOn " " with
  | "chain" :: rest =>
    match pSpec.run rest with
    | some (sp, _) => chainLine sp
    | none => "bad-op"
  | "rw" :: rest =>
    match hexAll rest with
    | some (path :: props) => showPath (rewrite props path)
    | _ => "bad-op"
  | "pp" :: rest =>
    match hexAll rest with
    | some (path :: props) =>
      match rewrite props path with
      | .ok pat =>
        match unrewrite (fieldsOf props) pat with
        | .ok p => "ok " ++ toHexW p
        | .err _ => "err-consumer"
        | .panic _ => "panic-consumer"
      | .err _ => "err-producer"
      | .panic _ => "panic-producer"
    | _ => "bad-op"
  | "unrw" :: rest =>
    match hexAll rest with
    | some (path :: fs) => if fs.length % 2 != 0 then "bad-op" else showPath (unrewrite (pairs fs) path)
    | _ => "bad-op"
  | "split" :: verb :: rest =>
    match verbOf verb, hexAll rest with
    | some v, some (path :: props) =>
      let r := fillRequest v.hasBody path props
      "ok P:" ++ hexList r.path ++ " Q:" ++ hexList r.query ++ " B:" ++ (match r.body with | none => "~" | some b => hexList b)
    | _, _ => "bad-op"
  | ["name", a, b, c, d] =>
    match fromHex a, fromHex b, fromHex c, fromHex d with
    | some svc, some m, some i, some o => nameOp svc m i o
    | _, _, _, _ => "bad-op"
  | "graph" :: rest => graphOp rest
  | "swag" :: rest => swagOp rest
  | "paths" :: rest => pathsOp rest
  | _ => "bad-op"

partial def loop (h : IO.FS.Stream) (out : IO.FS.Stream) : IO Unit := do
  let line ← h.getLine
  if line.isEmpty then return ()
  out.putStrLn (step line)
  loop h out

def main : IO Unit := do
  let out ← IO.getStdout
  loop (← IO.getStdin) out
  out.flush
