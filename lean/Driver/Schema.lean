import J5V.Go.Hex
import J5V.Schema.Wire
import J5V.Schema.ReaderWire
import J5V.Schema.PropSetModel
import J5V.Schema.ReaderLinks
import J5V.Schema.EnvModel
/-!
Line-protocol driver of the schema cluster (core only). One op per input line, one result per
output line; see /verif/harness/PROTOCOL-schema.md.

* `loop <mode> <src> <S1 dump…>`   — export, import, link, export again on the dumped schema set
* `reflect <hex> <summary…>`       — the Reader model on the descriptor summary
-/
open J5V.Go J5V.Schema J5V.Schema.Wire J5V.Schema.Reader J5V.Schema.ReaderWire

def dropEmpty (api : Api) : Api := api.filter fun (_, ss) => !ss.isEmpty

def stepLoop (toks : List String) : String :=
  match toks with
  | ["nolink"] => "nolink"
  | ["reflect-err"] => "reflect-err"
  | _ =>
    match parseSet toks with
    | none => "bad-op"
    | some env1 =>
      let e1 := exportEnv env1
      let e1dump := prApi e1
      match packageSetFromSourceAPI e1 with
      | .panic _ => "panic"
      | .err _ => "ok " ++ e1dump ++ " | import-err"
      | .ok env2 =>
        let e2dump := prApi (exportEnv env2)
        let tail := if e2dump == e1dump then "same" else "diff " ++ e2dump
        "ok " ++ e1dump ++ " | " ++ prSet env2 ++ " | " ++ tail

/-- `import <hex> <API dump>`: `PackageSetFromSourceAPI` on an arbitrary (mutated) source API -/
def stepImport (toks : List String) : String :=
  match parseApi toks with
  | none => "bad-op"
  | some api =>
    match packageSetFromSourceAPI api with
    | .panic _ => "panic"
    | .err _ => "err"
    | .ok env => "ok " ++ prSet env ++ " | " ++ prApi (exportEnv env)

def cls {α} : Outcome α → String
  | .ok _ => "ok"
  | .err _ => "err"
  | .panic _ => "panic"

/-- `hexName/1.2.3,…` (`~` = empty path, `-` = no client properties) -/
def prClientProps (cps : List RProp) : String :=
  if cps.isEmpty then "-"
  else ",".intercalate (cps.map fun p =>
    Wire.encStr p.json ++ "/" ++
      (if p.path.isEmpty then "~" else ".".intercalate (p.path.map fun n => toString n)))

/-! the codec model's view of one root (`Bridge.entryRoot`), compact and without spaces -/

def prScalarKind : J5V.Codec.ScalarKind → String
  | .string => "string" | .key => "key" | .bool => "bool" | .int32 => "int32" | .int64 => "int64"
  | .uint32 => "uint32" | .uint64 => "uint64" | .float32 => "float32" | .float64 => "float64"
  | .bytes => "bytes" | .timestamp => "timestamp" | .date => "date" | .decimal => "decimal"

def prCField : J5V.Codec.Field → String
  | .scalar k => prScalarKind k
  | .enum r => "enum:" ++ r
  | .object r => "object:" ++ r
  | .oneof r => "oneof:" ++ r
  | .any pb => if pb then "any:pb" else "any:j5"
  | .array i => "array(" ++ prCField i ++ ")"
  | .map i => "map(" ++ prCField i ++ ")"

def prPres : J5V.Codec.Pres → String
  | .imp => "imp" | .opt => "opt" | .msg => "msg" | .list => "list" | .map => "map" | .none => "none"

def prCProp (p : J5V.Codec.PropDef) : String :=
  toHexW (p.jsonName.map (·.toNat)) ++ "/" ++
  (if p.path.isEmpty then "~" else ".".intercalate (p.path.map toString)) ++ "/" ++ prPres p.pres ++ "/" ++
  prCField p.field ++ "/" ++ (match p.group with | some g => toString g | none => "~")

def prCRoot : J5V.Codec.Root → String
  | .object ps => "obj[" ++ ";".intercalate (ps.map prCProp) ++ "]"
  | .oneof ps => "oneof[" ++ ";".intercalate (ps.map prCProp) ++ "]"
  | _ => "-"

/-- the `SchemaCache.Schema` calls over every message of the set, on one cache -/
def cacheLoop (ds : DescSet) : Reg → List String → List String
  | _, [] => []
  | reg, full :: rest =>
    match ds.msg? full with
    | none => ["?:panic"]
    | some m =>
      let (res, reg') := cacheSchema ds reg m
      -- Reflector.NewRoot on the same cache: the schema error, or the property-set checks
      let root := match res with
        | .ok _ => cls (newRoot ds reg' m)
        | .err _ => "err"
        | .panic _ => "panic"
      -- ObjectSchema.ClientProperties() of the schema just returned: names and proto paths
      let cp := match res with
        | .ok _ =>
          match reg'.find m.pkg m.split with
          | some e =>
            match e.to with
            | some (.object _ _ _ _ ps) =>
              match clientProps reg' [⟨m.pkg, m.split⟩] ps with
              | .ok cps => prClientProps cps
              | _ => "!"
            | _ => "-"
          | none => "-"
        | _ => "-"
      -- the env def of this root as the codec model gets it (`Bridge.toEnv`)
      let env := match res with
        | .ok _ =>
          match reg'.find m.pkg m.split with
          | some e => prCRoot (J5V.Schema.Bridge.entryRoot ds reg' e)
          | none => "-"
        | _ => "-"
      (Wire.encStr m.split ++ ":" ++ cls res ++ ":" ++ root ++ ":cp=" ++ cp ++ ":env=" ++ env) ::
        cacheLoop ds reg' rest

def stepReflect (toks : List String) : String :=
  match toks with
  | ["nolink"] => "nolink"
  | _ =>
    match parseSummary toks with
    | none => "bad-op"
    | some ds =>
      let setRes := schemaSetFromFiles ds
      let setStr :=
        match setRes with
        | .ok reg => "ok " ++ prShape reg
        | .err _ => "err"
        | .panic _ => "panic"
      -- `linked ds`: the hypothesis of the C18 theorems, evaluated on every generated set (the
      -- harness answers `linked=1` for every set protodesc links)
      "linked=" ++ (if linked ds then "1" else "0") ++
        " set=" ++ setStr ++ " cache=[ " ++ " ".intercalate (cacheLoop ds [] ds.allMsgs) ++ " ]"

def step (line : String) : String :=
  match (line.trimAscii.toString.splitOn " ") with
  | "loop" :: _mode :: _src :: rest => stepLoop rest
  | "reflect" :: _hex :: rest => stepReflect rest
  | "import" :: _hex :: rest => stepImport rest
  | _ => "bad-op"

partial def loop (h : IO.FS.Stream) (out : IO.FS.Stream) : IO Unit := do
  let line ← h.getLine
  if line.isEmpty then return ()
  out.putStrLn (step line)
  loop h out

def main : IO Unit := do
  let out ← IO.getStdout
  loop (← IO.getStdin) out
  out.flush
