import J5V.Conc.Cache
import J5V.Conc.Clash
/-! Line-protocol driver for the conc cluster (core only): stream `conc.seq`.
See /verif/harness/PROTOCOL-conc.md.

    seq  <graph> <reqs>
    real <names> <graph> <reqs>      (names are ignored by the model)

graph  = node (';' node)*          node = kind ok ':' [field (',' field)*]
kind   = 'o' | 'n' | 'e'           ok = '0' | '1'
field  = num '.' wrap '.' base     wrap = '-' | [am]+       base = 's' | 'x' | 'r' idx
reqs   = idx (',' idx)*
-/
open J5V.Conc.Cache

def parseField (s : String) : Option Field :=
  match s.splitOn "." with
  | [num, wrap, base] =>
    match num.toNat? with
    | none => none
    | some n =>
      -- 'f' (flattened message field) is not part of the schema the cache builds: it only changes
      -- the client property list, which the harness compares with a fresh cache
      let w0 := if wrap == "-" then "" else wrap
      let w := String.ofList (w0.toList.filter (· != 'f'))
      if !(w0.toList.all (fun c => c == 'a' || c == 'm' || c == 'f')) then none
      else if base == "s" then some ⟨n, w, .scalar⟩
      else if base == "x" then some ⟨n, w, .bad⟩
      else if base.startsWith "r" then (base.drop 1).toString.toNat?.map (fun r => ⟨n, w, .ref r⟩)
      else none
  | _ => none

def parseNode (s : String) : Option Node :=
  match s.splitOn ":" with
  | [head, body] =>
    match head.toList with
    | [k, o] =>
      let kind? : Option Kind := if k == 'o' then some .obj else if k == 'n' then some .oneof else if k == 'e' then some .enm else none
      let ok? : Option Bool := if o == '1' then some true else if o == '0' then some false else none
      match kind?, ok? with
      | some kind, some ok =>
        if body.isEmpty then some ⟨kind, ok, []⟩
        else (body.splitOn ",").mapM parseField |>.map (fun fs => ⟨kind, ok, fs⟩)
      | _, _ => none
    | _ => none
  | _ => none

def parseGraph (s : String) : Option Graph := (s.splitOn ";").mapM parseNode

def parseReqs (s : String) : Option (List Nat) := (s.splitOn ",").mapM (·.toNat?)

def runLine (g reqs : String) : String :=
  match parseGraph g, parseReqs reqs with
  | some G, some rs =>
    -- the harness only requests message nodes that exist
    if rs.all (fun r => match G[r]? with | some nd => nd.kind != .enm | none => false) then runOp G rs else "bad-op"
  | _, _ => "bad-op"

def step (line : String) : String :=
  match (line.trimAscii.toString.splitOn " ") with
  | ["seq", g, reqs] => runLine g reqs
  | ["real", _, g, reqs] => runLine g reqs
  | ["clash", v, reqs] =>
    match parseReqs reqs with
    | some rs =>
      if (v == "m" || v == "e") && rs.all (fun r => r < 6 && !(v == "e" && r == 1)) then J5V.Conc.Clash.runOp rs
      else "bad-op"
    | none => "bad-op"
  | _ => "bad-op"

partial def loop (h : IO.FS.Stream) (out : IO.FS.Stream) : IO Unit := do
  let line ← h.getLine
  if line.isEmpty then return ()
  out.putStrLn (step line)
  loop h out

def main : IO Unit := do
  let out ← IO.getStdout
  loop (← IO.getStdin) out
  out.flush
