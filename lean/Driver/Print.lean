/-! Line-protocol driver stub for the print cluster (to be written by the cluster owner). -/
def main : IO Unit := IO.println "bad-op"
