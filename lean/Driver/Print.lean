import J5V.Go.Hex
import J5V.Print.TextString
import J5V.Print.RefName
import J5V.Print.OptionText
import J5V.Print.Order
import J5V.Print.Layout
import J5V.Print.Wire
import J5V.Print.Scalar
import J5V.Print.Cover
import J5V.Print.CoverLead
/-! Line-protocol driver for the print cluster (C05), core only.
One op per input line, one result per output line; see /verif/harness/PROTOCOL-print.md. -/
open J5V.Go J5V.Print

def hexOrErr (o : Option (List Nat)) : String :=
  match o with
  | some bs => toHexW bs
  | none => "err"

def dotted (s : String) : List String := if s == "-" then [] else s.splitOn "."
def undot (p : List String) : String := if p.isEmpty then "-" else ".".intercalate p
def commaList (s : String) : List String := if s == "-" then [] else s.splitOn ","

def parseKind (s : String) : Option RefName.Kind :=
  match s with
  | "m" => some .msg | "e" => some .enum | "s" => some .svc | "l" => some .leaf | _ => none

def parseSym (s : String) : Option RefName.Sym :=
  match s.splitOn ":" with
  | [k, p] => (parseKind k).map fun kk => ⟨dotted p, kk⟩
  | _ => none

def bytesToString (bs : List Nat) : String := String.ofList (bs.map Char.ofNat)
def stringToBytes (s : String) : List Nat := s.toUTF8.toList.map (·.toNat)

def hexStr (s : String) : Option String := (fromHex s).map bytesToString

/-- prefix-notation option trees: `S key val` | `M key n kids…` | `A key n kids…` -/
partial def parseTree : List String → Option (OptionText.Opt × List String)
  | "S" :: k :: v :: rest => do
    let k ← hexStr k; let v ← hexStr v
    pure (.scalar k v, rest)
  | tag :: k :: n :: rest => do
    let k ← hexStr k
    let n ← n.toNat?
    let rec kids (i : Nat) (toks : List String) (acc : List OptionText.Opt) : Option (List OptionText.Opt × List String) :=
      if i = 0 then some (acc.reverse, toks) else
      match parseTree toks with
      | some (o, toks') => kids (i - 1) toks' (o :: acc)
      | none => none
    let (ks, rest') ← kids n rest []
    if tag == "M" then pure (.msg k ks, rest')
    else if tag == "A" then pure (.arr k ks, rest')
    else none
  | _ => none

partial def treeDepth : OptionText.Opt → Nat
  | .scalar _ _ => 1
  | .msg _ ks | .arr _ ks => 1 + (ks.map treeDepth).foldl max 0

def joinLines (ls : List String) : String := toHexW (stringToBytes ("\n".intercalate ls ++ "\n"))

/-- Tokeniser for the text the option printer emits (used to tie `OptionText.valueToks`, the
subject of `C05_option_inv`, to the rendered lines on every op of the `print.opt` stream). -/
partial def tokenize (cs : List Char) (acc : List OptionText.Tok) : List OptionText.Tok :=
  match cs with
  | [] => acc.reverse
  | c :: rest =>
    if c == ' ' || c == '\n' then tokenize rest acc
    else if c == '{' then tokenize rest (.lbrace :: acc)
    else if c == '}' then tokenize rest (.rbrace :: acc)
    else if c == '[' then tokenize rest (.lbrack :: acc)
    else if c == ']' then tokenize rest (.rbrack :: acc)
    else if c == ',' then tokenize rest (.comma :: acc)
    else if c == ':' then tokenize rest (.colon :: acc)
    else if c == '"' then
      let rec str (cs : List Char) (w : List Char) : List Char × List Char :=
        match cs with
        | [] => (w.reverse, [])
        | '\\' :: x :: t => str t (x :: '\\' :: w)
        | '"' :: t => (('"' :: w).reverse, t)
        | x :: t => str t (x :: w)
      let (w, t) := str rest ['"']
      tokenize t (.scalar (String.ofList w) :: acc)
    else
      let isDelim (x : Char) : Bool := x == ' ' || x == '\n' || x == '{' || x == '}' || x == '[' || x == ']' || x == ',' || x == ':'
      let w := (c :: rest).takeWhile (fun x => !isDelim x)
      let t := (c :: rest).dropWhile (fun x => !isDelim x)
      match t with
      | ':' :: _ => tokenize t (.ident (String.ofList w) :: acc)
      | _ => tokenize t (.scalar (String.ofList w) :: acc)

/-- the rendered statement carries exactly the tokens of `valueToks` -/
def stmtTokensOk (name : String) (lines : List String) (root : OptionText.Opt) : Bool :=
  let text := "\n".intercalate (lines.map fun l => l.trimAscii.toString)
  let pre := "option " ++ name ++ " = "
  if text.startsWith pre && text.endsWith ";" then
    let body := ((text.drop pre.length).toString.dropEnd 1).toString
    tokenize body.toList [] == OptionText.valueToks root
  else false

def parseElem (s : String) : Option Order.Elem :=
  match (s.splitOn ",").map String.toNat? with
  | [some t, some l, some i] => some ⟨t, l, i⟩
  | _ => none

def parseLoc (s : String) : Option Order.OptLoc :=
  match s.splitOn "," with
  | [h, l, i, n] => match h.toNat?, l.toNat?, i.toNat?, fromHex n with
    | some h, some l, some i, some n => some ⟨h != 0, l, i, n⟩
    | _, _, _, _ => none
  | _ => none

def indexList (xs : List Nat) : String := ",".intercalate (xs.map toString)

def sortIdx {α} (lt : α → α → Bool) (xs : List α) : String :=
  let tagged := (List.range xs.length).zip xs
  if Order.noTies lt xs then indexList ((Order.isort (fun a b => lt a.2 b.2) tagged).map (·.1))
  else "unspecified"

partial def parsePOpts (n : Nat) (toks : List String) (acc : List OptionText.POpt) : Option (List OptionText.POpt) :=
  if n = 0 then (if toks.isEmpty then some acc.reverse else none) else
  match toks with
  | full :: rel :: rest => do
    let full ← hexStr full; let rel ← hexStr rel
    let (tree, rest') ← parseTree rest
    let (sub, root) := OptionText.simplified full tree (treeDepth tree)
    -- no source info in the kernel stream: single line, in line with the parent
    let ps : List OptionText.POpt := (OptionText.statements root).map fun v =>
      ⟨OptionText.optionName rel sub, v, OptionText.inlineString true v, true⟩
    parsePOpts (n - 1) rest' (ps.reverse ++ acc)
  | _ => none

/-- `file <k> <input op …> @ <summary>`: the text the model prints for the summarised descriptor -/
def stepFile (toks : List String) : String :=
  match (toks.dropWhile (· != "@")).drop 1 with
  | [] => "bad-op"
  | sum =>
    match Wire.pFile sum with
    | none => "bad-op"
    | some (gen, f) =>
      if !f.determined then "unspecified"
      else
        let text := Layout.printText gen f
        -- the reader: the grammar model on the model's own text
        let (second, fix) := match Grammar.parseFile text with
          | some d' =>
            -- the second print: the printer model on what the grammar model read
            (Wire.encFile2 d',
              if d'.determined then
                (let text2 := Layout.printText gen d'
                 if text2 == text then "same" else "differs:" ++ toHexW (Wire.strToBytes text2))
              else "na")
          | none => ("unread", "na")
        toHexW (Wire.strToBytes text) ++ " " ++ second ++ " second-print=" ++ fix

def intClass (o : Option Int) : String :=
  match o with
  | some n => "int:" ++ toString n
  | none => "other"

/-- how the grammar model tokenises a scalar text: `num`, `- num`, `ident`, `- ident` -/
def tokenShape (text : String) : String :=
  let kinds := (Grammar.lex text).filterMap fun t =>
    match t.tok with
    | .num _ => some "num"
    | .ident _ => some "ident"
    | .sym c => some (String.singleton c)
    | .str _ => some "str"
    | .eof => none
  " ".intercalate kinds

/-- `cover <k> <input op …> @ <summary>`: is the summarised descriptor (arranged) in the shape the grammar
theorem `C05_reparse` covers? `<origin> 1` or `<origin> 0 <reasons>` (evidence only, see checks/C05.py) -/
def stepCover (toks : List String) : String :=
  let origin := (toks.drop 1).headD "?"
  match (toks.dropWhile (· != "@")).drop 1 with
  | [] => "bad-op"
  | sum =>
    match Wire.pFile sum with
    | none => "bad-op"
    | some (gen, f) =>
      if Cover.simpleFileB gen f.arranged then origin ++ " 1"
      else origin ++ " 0 " ++ ",".intercalate (Cover.whyNot gen f.arranged)

/-- `cover2 <k> <input op …> @ <summary>`: do the hypotheses of the layout theorem `C05_reprint_fixed_leading` hold of
the summarised descriptor `d` and of what the grammar model reads from the model's text (`d'`)? Evaluates the
decidable `Cover.quietLFileB d.arranged` and `Cover.relaidFileLB d.arranged d'` (both proved sound): `<origin> 1`
or `<origin> 0 <reason>` (evidence only, see checks/C05.py) -/
def stepCover2 (toks : List String) : String :=
  let origin := (toks.drop 1).headD "?"
  match (toks.dropWhile (· != "@")).drop 1 with
  | [] => "bad-op"
  | sum =>
    match Wire.pFile sum with
    | none => "bad-op"
    | some (gen, f) =>
      if !f.determined then origin ++ " 0 unspecified"
      else
        let t := f.arranged
        let d' := Grammar.parseFile (Layout.printText gen f)
        let ok := Cover.quietLFileB t && (match d' with | some d' => Cover.relaidFileLB t d' | none => false)
        if ok then origin ++ " 1" ++ (if Cover.locNoneAllB t then "" else " lead")
        else origin ++ " 0 " ++ Cover.whyNotReprint t d'

def step (line : String) : String :=
  match line.trimAscii.toString.splitOn " " with
  | "file" :: rest => stepFile rest
  | "cover" :: rest => stepCover rest
  | "cover2" :: rest => stepCover2 rest
  | ["int", v] => match v.toInt? with
    | some n =>
      let text := Scalar.formatInt n
      toHexW (stringToBytes text) ++ " " ++ intClass (Scalar.readIntLit text.toList)
    | none => "bad-op"
  | ["uint", v] => match v.toNat? with
    | some n =>
      let text := Scalar.formatUint n
      toHexW (stringToBytes text) ++ " " ++ intClass (Scalar.readIntLit text.toList)
    | none => "bad-op"
  | ["numlit", h] => match hexStr h with
    | some text => intClass (Scalar.readIntLit text.toList)
    | none => "bad-op"
  | ["flt", _, _, h] => match hexStr h with
    | some text => h ++ " " ++ tokenShape text      -- floats by oracle text: only the token shape is the model's
    | none => "bad-op"
  | ["str", h] => match fromHex h with
    | some bs =>
      let lit := TextString.textString bs
      toHexW lit ++ " " ++ hexOrErr (TextString.unescape lit)
    | none => "bad-op"
  | ["lit", h] => match fromHex h with
    | some bs => hexOrErr (TextString.unescape bs)
    | none => "bad-op"
  | ["ref", only, cp, c, tp, t, pkgs, syms] =>
    match (commaList syms).mapM parseSym with
    | some ss =>
      let tab : RefName.Tab := ⟨ss, (commaList pkgs).map dotted⟩
      let name := RefName.refName tab (dotted cp) (dotted c) (dotted tp) (dotted t)
      let res := RefName.resolveName tab (dotted cp) (dotted c) (only == "1") name
      "name=" ++ (if name.abs then "." else "") ++ undot name.parts ++ " res=" ++
        (match res with | some p => undot p | none => "err")
    | none => "bad-op"
  | ["less", a, b] => match parseElem a, parseElem b with
    | some x, some y => toString (Order.less x y)
    | _, _ => "bad-op"
  | ["locless", a, b] => match parseLoc a, parseLoc b with
    | some x, some y => toString (Order.locLess x y)
    | _, _ => "bad-op"
  | "sort" :: es => match es.mapM parseElem with
    | some xs => if Order.uniformLines xs then sortIdx Order.less xs else "unspecified"
    | none => "bad-op"
  | "namesort" :: ns => match ns.mapM fromHex with
    | some xs => sortIdx Order.nameLess xs
    | none => "bad-op"
  | "optstmt" :: single :: full :: _bytes :: rel :: tree =>
    match hexStr full, hexStr rel, parseTree tree with
    | some full, some rel, some (t, []) =>
      let (sub, root) := OptionText.simplified full t (treeDepth t)
      let name := OptionText.optionName rel sub
      let lines := OptionText.optionStmt 0 name (single == "1") root
      -- every statement (one per element of a repeated option) carries the tokens of its value
      let ok := (OptionText.statements root).all fun v =>
        stmtTokensOk name (OptionText.optionStmt1 0 name (single == "1") v) v
      if ok then joinLines lines else "model-inconsistent-tokens"
    | _, _, _ => "bad-op"
  | "optfield" :: head :: number :: _bytes :: fname :: json :: n :: rest =>
    match hexStr head, hexStr fname, fromHex json, n.toNat? with
    | some head, some fname, some json, some n =>
      match parsePOpts n rest [] with
      | some opts =>
        let sorted := OptionText.sortByName opts
        let withJson :=
          if bytesToString json != String.ofList (OptionText.defaultJSONName fname.toList) then
            sorted ++ [⟨"json_name", .scalar "" "", some (bytesToString (TextString.textString json)), true⟩]
          else sorted
        joinLines (OptionText.fieldStyle 0 head number withJson)
      | none => "bad-op"
    | _, _, _, _ => "bad-op"
  | _ => "bad-op"

partial def loop (h : IO.FS.Stream) (out : IO.FS.Stream) : IO Unit := do
  let line ← h.getLine
  if line.isEmpty then return ()
  out.putStrLn (step line)
  loop h out

def main : IO Unit := do
  let out ← IO.getStdout
  loop (← IO.getStdin) out
  out.flush
