import J5V.Rules.Wire
/-! Line-protocol driver of the rules cluster (core only). Protocol: /verif/harness/PROTOCOL-rules.md

    rules <spec tokens> | <value> <value> ...     ->  <emitted constraint> pres=<0|1> | <verdicts>   |  err
    schema <objdesc> ;; <spec> ;; <spec> ...       ->  obj name=.. desc=.. ;; <flat> ;; <flat> ...     |  err | reader-error | reader-panic
-/
open J5V.Go J5V.Rules J5V.Rules.Wire

def verdictChar : Verdict → Char
  | .accept => 'A'
  | .reject => 'R'
  | .error => 'E'

def definedOf (p : Property) : List Int :=
  match p.schema.item with
  | .enum decl _ _ => decl.defined
  | _ => []

def stepRules (body : String) : String :=
  match body.splitOn " | " with
  | [specS, valsS] =>
    match decodeSpec 2 (specS.splitOn " " |>.filter (· ≠ "")) with
    | none => "bad-op"
    | some p =>
      -- the measured compiler fact: does `? type` give the field presence?
      let optPres := (specS.splitOn " ").contains "optpres=1"
      if (patternsOf p).any (fun pat => (parseSmallRe pat).isNone) then "skip"
      else
        match compileRules p with
        | .err _ => "err"
        | .panic _ => "panic"
        | .ok c =>
          let toks := valsS.splitOn " " |>.filter (· ≠ "")
          let vs := toks.map fun t =>
            match parseVal optPres p t with
            | none => '?'
            | some v => verdictChar (pvField smallMatcher (definedOf p) c (p.hasPresence optPres) v)
          showFC c ++ " pres=" ++ b01 (p.hasPresence optPres) ++ " | " ++ String.ofList vs
  | _ => "bad-op"

def stepSchema (body : String) : String :=
  match body.splitOn " ;; " with
  | [] | [_] => "bad-op"
  | objDesc :: specs =>
    let rec decodeAll (i : Nat) : List String → Option (List Property)
      | [] => some []
      | s :: rest =>
        match decodeSpec i (s.splitOn " " |>.filter (· ≠ "")), decodeAll (i + 1) rest with
        | some p, some ps => some (p :: ps)
        | _, _ => none
    match decodeRoot objDesc with
    | none => "bad-op"
    | some seg =>
    -- an object root has the helper field z = 1 in front of the fields under test
    match decodeAll (if seg.decl.kind == .oneof then 1 else 2) specs with
    | none => "bad-op"
    | some props =>
      let env : RefPsm := fun ref =>
        if ref == "foo.v1.Bar" then seg.barEntity.map fun e => { entityName := e, entityPart := some 1 } else none
      match writeRoot env { seg.decl with properties := props } with
      | .panic _ => "panic"
      | .err _ => "err"
      | .ok a =>
        match readRoot a with
        | .panic _ => "reader-panic"
        | .err _ => "reader-error"
        | .ok r =>
          let flats := (a.fields.zip r.properties).map fun (an, p) => showFlat an.protoName p
          String.intercalate " ;; " (showRoot r :: flats)

def step (line : String) : String :=
  let l := line.trimAscii.toString
  if l.startsWith "rules " then stepRules (l.drop 6).toString
  else if l.startsWith "schema " then stepSchema (l.drop 7).toString
  else "bad-op"

partial def loop (h : IO.FS.Stream) (out : IO.FS.Stream) : IO Unit := do
  let line ← h.getLine
  if line.isEmpty then return ()
  out.putStrLn (step line)
  loop h out

def main : IO Unit := do
  let out ← IO.getStdout
  loop (← IO.getStdin) out
  out.flush
