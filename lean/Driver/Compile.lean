import J5V.Go.Hex
import J5V.Compile.Sexp
/-!
Line-protocol driver of the compile cluster (core only): `harness/PROTOCOL-compile.md`.
One op per input line, one result per output line.
-/
open J5V.Go J5V.Compile

def outcomeSkel (o : Outcome (List FileSkel)) : String :=
  match o with
  | .ok fs => let s := skelStr fs; if s.isEmpty then "ok" else "ok " ++ s
  | .err _ => "err"
  | .panic _ => "panic"

def step (line : String) : String :=
  -- raw source text is outside the model: nothing of the line is needed (it carries whole files in hex)
  if line.startsWith "total.src " then "skip" else
  match parseLine line with
  | none => "bad-op"
  | some (op, args) =>
    match op, args with
    | "skel", b :: p :: _ | "entity", b :: p :: _ =>
      match dBundle b, dStr p with
      | some b, some p => outcomeSkel (compileLinked b p)
      | _, _ => "bad-op"
    | "total.neg", _ :: b :: p :: _ | "total.ast", b :: p :: _ =>
      match dBundle b, dStr p with
      | some b, some p => (compileLinked b p).cls
      | _, _ => "bad-op"
    | "total.src", _ => "skip"
    | "strcase", [.atom fn, s] =>
      match dStr s with
      | some s =>
        match fn with
        | "camel" => "ok " ++ toHexW (toCamel s)
        | "lowercamel" => "ok " ++ toHexW (toLowerCamel s)
        | "snake" => "ok " ++ toHexW (toSnake s)
        | "screamingsnake" => "ok " ++ toHexW (toScreamingSnake s)
        | _ => "bad-op"
      | none => "bad-op"
    | "evolve", b :: p :: e :: _ =>
      match dBundle b, dStr p, dEdits e with
      | some b, some p, some es =>
        match evolve b p es with
        | none => "bad-op"
        | some (.ok (k, fs)) =>
          let s := skelStr fs
          s!"ok changed={k}" ++ (if s.isEmpty then "" else " " ++ s)
        | some (.err _) => "err"
        | some (.panic _) => "panic"
      | _, _, _ => "bad-op"
    | "det", b :: v :: _ =>
      match dBundle b with
      | some b =>
        if b.pkgs.isEmpty then "bad-op" else
        match dVariant b v with
        | some v =>
          let parts := (detRun b v.pkgs v.files v.calls v.reuse).map fun (_, r) =>
            match r with
            | .ok fs => skelStr fs
            | .err _ => "err"
            | .panic _ => "panic"
          "ok " ++ " ; ".intercalate parts
        | none => "bad-op"
      | none => "bad-op"
    | _, _ => "bad-op"

partial def loop (h : IO.FS.Stream) (out : IO.FS.Stream) : IO Unit := do
  let line ← h.getLine
  if line.isEmpty then return ()
  out.putStrLn (step line)
  out.flush
  loop h out

def main : IO Unit := do
  let out ← IO.getStdout
  loop (← IO.getStdin) out
  out.flush
