import J5V.Go.Hex
import J5V.Id62.Model
/-! Line-protocol driver for the id62 model (core only). One op per input line, one result per
output line. Strings are hex of their bytes, `-` for the empty string. -/
open J5V.Go J5V.Id62

def showOut (o : Outcome (List Nat)) : String :=
  match o with
  | .ok bs => "ok " ++ toHexW bs
  | .err _ => "err"
  | .panic _ => "panic"

def step (line : String) : String :=
  match (line.trimAscii.toString.splitOn " ") with
  | ["render", h] => match fromHex h with
    | some bs => if bs.length == 16 then showOut (render bs) else "bad-op"
    | none => "bad-op"
  | ["parse", h] => match fromHex h with
    | some bs => showOut (parse bs)
    | none => "bad-op"
  | ["match", h] => match fromHex h with
    | some bs => toString (matchesPattern bs)
    | none => "bad-op"
  | "hashpair" :: da :: db :: na :: ps =>
    match fromHex da, fromHex db, na.toNat?, ps.mapM fromHex with
    | some dA, some dB, some n, some parts =>
      if n < 1 ∨ parts.length < n + 1 then "bad-op" else
      let a := parts.take n
      let b := parts.drop n
      -- the uninterpreted sha1 is given by its graph on the two byte streams of this op
      let sha := fun (bs : List Nat) => if bs == a.flatten then dA else dB
      let call := fun (p : List (List Nat)) => newHash sha (p.headD []) (p.drop 1)
      "ok " ++ toHexW (call a) ++ " " ++ toHexW (call b) ++ " " ++ toHexW (call a)
    | _, _, _, _ => "bad-op"
  | "hash" :: d :: ns :: ins => match fromHex d, fromHex ns, ins.mapM fromHex with
    | some digest, some nsb, some inb => "ok " ++ toHexW (newHash (fun _ => digest) nsb inb)
    | _, _, _ => "bad-op"
  | _ => "bad-op"

partial def loop (h : IO.FS.Stream) (out : IO.FS.Stream) : IO Unit := do
  let line ← h.getLine
  if line.isEmpty then return ()
  out.putStrLn (step line)
  loop h out

def main : IO Unit := do
  let out ← IO.getStdout
  loop (← IO.getStdin) out
  out.flush
