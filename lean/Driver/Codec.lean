import J5V.Go.Hex
import J5V.Codec.Encode
import J5V.Codec.Query
/-! Line-protocol driver for the codec models (core only), `harness/PROTOCOL-codec.md` v1.
Stateless: one self-contained op per input line, one result per output line. -/
open J5V.Go J5V.Json J5V.Codec

/-! ## s-expressions -/

inductive Sx where
  | atom (s : String)
  | list (xs : List Sx)
  deriving Inhabited

/-- parses a sequence of s-expressions up to a closing paren or the end; returns the items and the
rest (after the closing paren, if any) and whether a closing paren was seen -/
partial def parseSeq (cs : List Char) (acc : List Sx) : Option (List Sx × List Char × Bool) :=
  match cs with
  | [] => some (acc.reverse, [], false)
  | ' ' :: rest => parseSeq rest acc
  | '\n' :: rest => parseSeq rest acc
  | '\r' :: rest => parseSeq rest acc
  | ')' :: rest => some (acc.reverse, rest, true)
  | '(' :: rest =>
    match parseSeq rest [] with
    | some (xs, rest', true) => parseSeq rest' (.list xs :: acc)
    | _ => none
  | _ =>
    let a := cs.takeWhile fun c => c != ' ' && c != '(' && c != ')' && c != '\n' && c != '\r'
    parseSeq (cs.drop a.length) (.atom (String.ofList a) :: acc)

def parseLine (line : String) : Option (List Sx) :=
  match parseSeq line.toList [] with
  | some (xs, _, false) => some xs
  | _ => none

/-! ## atoms -/

def hexBytes (s : String) : Option Bytes :=
  (fromHex s).map fun l => l.map UInt8.ofNat

def bytesHex (b : Bytes) : String := toHexW (b.map (·.toNat))

def sxHex : Sx → Option Bytes
  | .atom s => hexBytes s
  | _ => none

def sxNat : Sx → Option Nat
  | .atom s => s.toNat?
  | _ => none

def sxInt : Sx → Option Int
  | .atom s => s.toInt?
  | _ => none

/-- fixed-width hex number (B16 / B8) -/
def hexNum (s : String) : Option Nat :=
  s.toList.foldl (fun acc c =>
    match acc, J5V.Go.hexVal c with
    | some n, some d => some (n * 16 + d)
    | _, _ => none) (some 0)

def sxHexNum : Sx → Option Nat
  | .atom s => hexNum s
  | _ => none

def natHexW (n : Nat) (w : Nat) : String :=
  String.ofList ((List.range w).reverse.map fun i => hexDigit (n / 16 ^ i % 16))

/-! ## env -/

def scalarKindOf : String → Option ScalarKind
  | "string" => some .string | "key" => some .key | "bool" => some .bool
  | "int32" => some .int32 | "int64" => some .int64 | "uint32" => some .uint32
  | "uint64" => some .uint64 | "float32" => some .float32 | "float64" => some .float64
  | "bytes" => some .bytes | "timestamp" => some .timestamp | "date" => some .date
  | "decimal" => some .decimal
  | _ => none

partial def parseField : Sx → Option Field
  | .list [.atom "enum", .atom n] => some (.enum n)
  | .list [.atom "object", .atom n] => some (.object n)
  | .list [.atom "oneof", .atom n] => some (.oneof n)
  | .list [.atom "any", .atom "j5"] => some (.any false)
  | .list [.atom "any", .atom "pb"] => some (.any true)
  | .list [.atom "array", f] => (parseField f).map .array
  | .list [.atom "map", f] => (parseField f).map .map
  | .list [.atom k] => (scalarKindOf k).map .scalar
  | _ => none

def parsePres : Sx → Option Pres
  | .atom "imp" => some .imp | .atom "opt" => some .opt | .atom "msg" => some .msg
  | .atom "list" => some .list | .atom "map" => some .map | .atom "none" => some .none
  | _ => none

def parseProp : Sx → Option PropDef
  | .list (.atom "prop" :: name :: .list (.atom "path" :: path) :: pres :: field :: tail) => do
    let n ← sxHex name
    let p ← path.mapM sxNat
    let pr ← parsePres pres
    let f ← parseField field
    let g ← match tail with
      | [] => some none
      | [.list [.atom "in", k]] => (sxNat k).map some
      | _ => none
    some { jsonName := n, path := p, pres := pr, field := f, group := g }
  | _ => none

def parseRootDef : Sx → Option Root
  | .list (.atom "object" :: props) => (props.mapM parseProp).map .object
  | .list (.atom "oneof" :: props) => (props.mapM parseProp).map .oneof
  | .list [.atom "noschema"] => some .noschema
  | .list (.atom "enum" :: pfx :: opts) => do
    let p ← sxHex pfx
    let os ← opts.mapM fun
      | .list [.atom "opt", n, v] => do some ((← sxHex n), (← sxInt v))
      | _ => none
    some (.enum p os)
  | _ => none

def parseEnv : Sx → Option Env
  | .list (.atom "env" :: entries) =>
    entries.foldlM (fun (env : Env) e =>
      match e with
      | .list [.atom "def", .atom name, rd] =>
        (parseRootDef rd).map fun r => { env with defs := env.defs ++ [(name, r)] }
      | .list [.atom "res", pn, .atom name] =>
        (sxHex pn).map fun b => { env with res := env.res ++ [(b, name)] }
      | _ => none) { defs := [], res := [] }
  | _ => none

/-! ## values -/

mutual
partial def parseVal : Sx → Option PVal
  | .list [.atom "b", .atom "0"] => some (.bool false)
  | .list [.atom "b", .atom "1"] => some (.bool true)
  | .list [.atom "i", v] => (sxInt v).map .int
  | .list [.atom "u", v] => (sxNat v).map .uint
  | .list [.atom "f32", b, _] => (sxHexNum b).map .f32
  | .list [.atom "f64", b, _] => (sxHexNum b).map .f64
  | .list [.atom "s", h] => (sxHex h).map .str
  | .list [.atom "y", h] => (sxHex h).map .bytes
  | .list [.atom "e", v] => (sxInt v).map .enum
  | .list [.atom "ts", s, n, _] => do some (.ts (← sxInt s) (← sxInt n))
  | .list [.atom "date", y, m, d] => do some (.date (← sxInt y) (← sxInt m) (← sxInt d))
  | .list [.atom "dec", h] => (sxHex h).map .dec
  | .list [.atom "any", .atom "j5", tn, proto, j5, inner] => do
    let (ik, ir, iv) ← parseInner inner
    some (.anyJ5 (← sxHex tn) (← sxHex proto) (← sxHex j5) ik ir iv)
  | .list [.atom "any", .atom "pb", url, value, inner] => do
    let (ik, ir, iv) ← parseInner inner
    some (.anyPb (← sxHex url) (← sxHex value) ik ir iv)
  | .list (.atom "list" :: xs) => (xs.mapM parseVal).map .list
  | .list (.atom "map" :: kvs) =>
    (kvs.mapM fun (e : Sx) =>
      match e with
      | Sx.list [k, v] => do some ((← sxHex k), (← parseVal v))
      | _ => none).map .map
  | .list (.atom "msg" :: fs) =>
    (fs.mapM fun (e : Sx) =>
      match e with
      | Sx.list [n, v] => do some ((← sxNat n), (← parseVal v))
      | _ => none).map .msg
  | _ => none
partial def parseInner : Sx → Option (InnerKind × String × PVal)
  | .atom "none" => some (.none, "", .msg [])
  | .atom "bad" => some (.bad, "", .msg [])
  | .list [.atom "in", .atom name, m] => (parseVal m).map fun v => (.inn, name, v)
  | _ => none
end

/-- oracle texts shipped inside a MSG: `(f32 B8 HEX)`, `(f64 B16 HEX)`, `(ts s n HEX)` -/
structure FmtTab where
  f32 : List (Nat × Bytes) := []
  f64 : List (Nat × Bytes) := []
  ts : List ((Int × Int) × Bytes) := []

partial def collectFmt (t : FmtTab) : Sx → FmtTab
  | .list [.atom "f32", b, h] =>
    match sxHexNum b, sxHex h with
    | some n, some x => { t with f32 := (n, x) :: t.f32 }
    | _, _ => t
  | .list [.atom "f64", b, h] =>
    match sxHexNum b, sxHex h with
    | some n, some x => { t with f64 := (n, x) :: t.f64 }
    | _, _ => t
  | .list [.atom "ts", s, n, h] =>
    match sxInt s, sxInt n, sxHex h with
    | some a, some b, some x => { t with ts := ((a, b), x) :: t.ts }
    | _, _, _ => t
  | .list xs => xs.foldl collectFmt t
  | .atom _ => t

structure OraTab where
  f : List (Bytes × (Nat × Option Nat)) := []
  t : List (Bytes × (Int × Int)) := []
  d : List (Bytes × Bytes) := []

def parseOra : Sx → Option OraTab
  | .list (.atom "ora" :: ents) =>
    ents.foldlM (fun (tab : OraTab) e =>
      match e with
      | .list [.atom "f", h, b, .atom "range"] => do
        some { tab with f := ((← sxHex h), ((← sxHexNum b), none)) :: tab.f }
      | .list [.atom "f", h, b, b32] => do
        some { tab with f := ((← sxHex h), ((← sxHexNum b), some (← sxHexNum b32))) :: tab.f }
      | .list [.atom "t", h, s, n] => do
        some { tab with t := ((← sxHex h), ((← sxInt s), (← sxInt n))) :: tab.t }
      | .list [.atom "d", h, n] => do
        some { tab with d := ((← sxHex h), (← sxHex n)) :: tab.d }
      | _ => none) {}
  | _ => none

def lookupBy {α β} [BEq α] (k : α) (l : List (α × β)) : Option β :=
  (l.find? fun e => e.1 == k).map (·.2)

def mkOracle (ft : FmtTab) (ot : OraTab) : Oracle where
  fmtF64 b := (lookupBy b ft.f64).getD (ascii "?f64")
  fmtF32 b := (lookupBy b ft.f32).getD (ascii "?f32")
  parseFloat x := lookupBy x ot.f
  fmtTime s n := (lookupBy (s, n) ft.ts).getD (ascii "?ts")
  parseTime x := lookupBy x ot.t
  parseDec x := lookupBy x ot.d

/-! ## printing -/

def bytesLt : Bytes → Bytes → Bool
  | [], [] => false
  | [], _ :: _ => true
  | _ :: _, [] => false
  | a :: as, b :: bs => if a < b then true else if b < a then false else bytesLt as bs

def insertSorted {α} (lt : α → α → Bool) (x : α) : List α → List α
  | [] => [x]
  | y :: ys => if lt x y then x :: y :: ys else y :: insertSorted lt x ys

def sortBy {α} (lt : α → α → Bool) (l : List α) : List α := l.foldr (insertSorted lt) []

mutual
partial def showVal : PVal → String
  | .bool b => if b then "(b 1)" else "(b 0)"
  | .int v => s!"(i {v})"
  | .uint v => s!"(u {v})"
  | .f32 b => s!"(f32 {natHexW b 8})"
  | .f64 b => s!"(f64 {natHexW b 16})"
  | .str s => s!"(s {bytesHex s})"
  | .bytes s => s!"(y {bytesHex s})"
  | .enum n => s!"(e {n})"
  | .ts s n => s!"(ts {s} {n})"
  | .date y m d => s!"(date {y} {m} {d})"
  | .dec s => s!"(dec {bytesHex s})"
  | .anyJ5 tn _ j5 ik ir iv => s!"(any j5 {bytesHex tn} {bytesHex j5} {showInner ik ir iv})"
  | .anyPb url _ ik ir iv => s!"(any pb {bytesHex url} {showInner ik ir iv})"
  | .msg fs => showMsg fs
  | .list xs => "(list" ++ String.join (xs.map fun x => " " ++ showVal x) ++ ")"
  | .map kvs =>
    "(map" ++ String.join ((sortBy (fun a b => bytesLt a.1 b.1) kvs).map fun kv =>
      s!" ({bytesHex kv.1} {showVal kv.2})") ++ ")"
partial def showMsg (fs : List (Nat × PVal)) : String :=
  "(msg" ++ String.join (fs.map fun f => s!" ({f.1} {showVal f.2})") ++ ")"
partial def showInner (ik : InnerKind) (ir : String) (iv : PVal) : String :=
  match ik with
  | .none => "none"
  | .bad => "bad"
  | .inn => s!"(in {ir} {showVal iv})"
end

def showTok : Tok → String
  | .lb => "lk" | .rb => "rk" | .lk => "lb" | .rk => "rb"
  | .str s _ => s!"(s {bytesHex s})"
  | .num t => s!"(n {bytesHex t})"
  | .tru => "t" | .fls => "f" | .null => "z"

/-! ## ops -/

def modeOf : Sx → Option Bool
  | .atom "n" => some false
  | .atom "p" => some true
  | _ => none

def runTok (bs : Bytes) : String :=
  let its := tokenize bs
  let toks := its.filterMap fun | .tok t => some t | _ => none
  let failed := its.any fun | .tok _ => false | _ => true
  let body := "(" ++ " ".intercalate (toks.map showTok) ++ ")"
  if !failed then "ok " ++ body else s!"err {toks.length} {body}"

def step (line : String) : String :=
  match parseLine line with
  | some (.atom "tok" :: h :: _) =>
    match sxHex h with
    | some bs => runTok bs
    | none => "bad-op"
  | some (.atom "enc" :: mode :: env :: .atom root :: msg :: _) =>
    match modeOf mode, parseEnv env, parseVal msg with
    | some _, some e, some v =>
      let O := mkOracle (collectFmt {} msg) {}
      match encodeBytes e O root v with
      | .ok bs => "ok " ++ bytesHex bs
      | .err _ => "err"
      | .panic _ => "panic"
    | _, _, _ => "bad-op"
  | some (.atom "dec" :: mode :: env :: .atom root :: h :: ora :: _) =>
    match modeOf mode, parseEnv env, sxHex h, parseOra ora with
    | some p, some e, some bs, some ot =>
      let c : Cfg := { env := e, O := mkOracle {} ot, protoToAny := p }
      match decodeBytes c root bs with
      | .ok fs => "ok " ++ showMsg fs
      | .err _ => "err"
      | .panic _ => "panic"
    | _, _, _, _ => "bad-op"
  | some (.atom "query" :: mode :: env :: .atom root :: .list (.atom "q" :: kvs) :: ora :: _) =>
    let kvs' : Option (List (Bytes × List Bytes)) := kvs.mapM fun
      | .list (k :: vs) => do some ((← sxHex k), (← vs.mapM sxHex))
      | _ => none
    match modeOf mode, parseEnv env, kvs', parseOra ora with
    | some p, some e, some q, some ot =>
      let c : Cfg := { env := e, O := mkOracle {} ot, protoToAny := p }
      match decodeQuery c root q with
      | .ok fs => "ok " ++ showMsg fs
      | .err _ => "err"
      | .panic _ => "panic"
    | _, _, _, _ => "bad-op"
  | _ => "bad-op"

partial def loop (h : IO.FS.Stream) (out : IO.FS.Stream) : IO Unit := do
  let line ← h.getLine
  if line.isEmpty then return ()
  out.putStrLn (step line)
  loop h out

def main : IO Unit := do
  let out ← IO.getStdout
  loop (← IO.getStdin) out
  out.flush
