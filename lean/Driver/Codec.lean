/-! Line-protocol driver stub for the codec cluster (to be written by the cluster owner). -/
def main : IO Unit := IO.println "bad-op"
