import J5V.Go.Outcome
import J5V.Go.Hex
import J5V.Id62.Model
