import J5V.Go.Outcome
/-!
# Model of `lib/id62/uuid62.go`

Strings and identifiers are lists of byte values (`Nat`, each `< 256`): Go strings are byte
sequences and `big.Int.SetString` reads them byte by byte.

Mirrors:
* `base62String`  — `big.Int.SetBytes`, `Text(62)`, `%022s` left padding, `panic` above 22 digits
* `parseBase62`   — `big.Int.SetString(s, 62)` (optional sign, ≥ 1 digit of `0-9a-zA-Z`, whole
  string consumed), `Bytes()` (big-endian magnitude, no leading zeros), right alignment into the
  16-byte array, rejection of longer values
* `NewHash`       — first 16 bytes of `sha1(namespace ++ inputs…)` with `sha1` a parameter
-/
namespace J5V.Id62
open J5V.Go

/-- `big.Int.SetBytes`: big-endian bytes to a natural number. -/
def bytesToNat (bs : List Nat) : Nat := bs.foldl (fun acc b => acc * 256 + b) 0

/-- little-endian digits of `n` in base `b` (`b ≥ 2` at every call site); `0 ↦ []`. -/
def digitsLE (b : Nat) (n : Nat) : List Nat :=
  if _h : n = 0 ∨ b < 2 then [] else (n % b) :: digitsLE b (n / b)
termination_by n
decreasing_by
  have h1 : n ≠ 0 := fun e => _h (Or.inl e)
  have h2 : 2 ≤ b := by omega
  exact Nat.div_lt_self (by omega) h2

/-- the alphabet of `big.Int.Text(62)`: `0-9`, `a-z`, `A-Z` (byte values). -/
def digitByte (d : Nat) : Nat :=
  if d < 10 then 48 + d else if d < 36 then 97 + (d - 10) else 65 + (d - 36)

/-- digit value of a byte in base 62 as `math/big` `nat.scan` reads it. -/
def byteDigit (c : Nat) : Option Nat :=
  if 48 ≤ c ∧ c ≤ 57 then some (c - 48)
  else if 97 ≤ c ∧ c ≤ 122 then some (c - 97 + 10)
  else if 65 ≤ c ∧ c ≤ 90 then some (c - 65 + 36)
  else none

/-- `big.Int.Text(62)`: `"0"` for zero, otherwise most significant digit first, no leading zeros. -/
def text62 (n : Nat) : List Nat :=
  if n = 0 then [48] else (digitsLE 62 n).reverse.map digitByte

/-- `base62String(id)`. -/
def render (id : List Nat) : Outcome (List Nat) :=
  let str := text62 (bytesToNat id)
  if str.length < 22 then .ok (List.replicate (22 - str.length) 48 ++ str)
  else if str.length > 22 then .panic "base62 value is too large"
  else .ok str

/-- all bytes are base-62 digits; returns the big-endian value. -/
def scanDigits : List Nat → Nat → Option Nat
  | [], acc => some acc
  | c :: cs, acc =>
    match byteDigit c with
    | some d => scanDigits cs (acc * 62 + d)
    | none => none

/-- `scanSign`: one optional leading `+` (43) or `-` (45). -/
def stripSign : List Nat → List Nat
  | 43 :: rest => rest
  | 45 :: rest => rest
  | s => s

/-- `big.Int.SetString(s, 62)`: magnitude of the parsed value (the sign is dropped later by
`Bytes()`), or `none` when `ok == false`. -/
def setString62 (s : List Nat) : Option Nat :=
  let body := stripSign s
  if body.isEmpty then none else scanDigits body 0

/-- `big.Int.Bytes()`: big-endian magnitude, empty for zero. -/
def natBytes (n : Nat) : List Nat := (digitsLE 256 n).reverse

/-- `parseBase62(s, into)` with `len(into) = 16`, returning the filled array. The slice
expression `into[len(into)-len(valBytes):]` is reached only under `len(valBytes) < len(into)`. -/
def parse (s : List Nat) : Outcome (List Nat) :=
  match setString62 s with
  | none => .err "cannot parse base62"
  | some n =>
    let vb := natBytes n
    if vb.length > 16 then .err "base62 value is too large"
    else if vb.length < 16 then .ok (List.replicate (16 - vb.length) 0 ++ vb)
    else .ok vb

/-- `id62.Pattern` = `^[0-9A-Za-z]{22}$` (Go regexp, `$` without `m` flag = end of text). -/
def matchesPattern (s : List Nat) : Bool :=
  s.length == 22 && s.all fun c => (48 ≤ c && c ≤ 57) || (65 ≤ c && c ≤ 90) || (97 ≤ c && c ≤ 122)

/-- `NewHash(namespace, inputs…)` over an uninterpreted `sha1`. `copy(uuid[:], s)` copies
`min(16, len s)` bytes; the remaining bytes stay zero. -/
def newHash (sha1 : List Nat → List Nat) (ns : List Nat) (inputs : List (List Nat)) : List Nat :=
  let s := sha1 (ns ++ inputs.flatten)
  let t := s.take 16
  t ++ List.replicate (16 - t.length) 0

/-- A 16-byte identifier. -/
def IsId (id : List Nat) : Prop := id.length = 16 ∧ ∀ b ∈ id, b < 256

instance (id : List Nat) : Decidable (IsId id) := by unfold IsId; infer_instance

end J5V.Id62
