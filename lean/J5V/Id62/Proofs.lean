import J5V.Id62.Model
import Mathlib.Data.Nat.Digits.Lemmas
/-!
# Lemmas about the id62 model (Mathlib's `Nat.digits` carries the arithmetic)
-/
namespace J5V.Id62
open J5V.Go

theorem digitsLE_eq (b : Nat) (hb : 2 ≤ b) (n : Nat) : digitsLE b n = Nat.digits b n := by
  induction n using Nat.strong_induction_on with
  | _ n ih =>
    rw [digitsLE]
    by_cases h0 : n = 0
    · subst h0; simp
    · have : ¬ (n = 0 ∨ b < 2) := by omega
      simp only [this, dite_false]
      rw [ih (n / b) (Nat.div_lt_self (Nat.pos_of_ne_zero h0) (by omega))]
      rw [Nat.digits_def' (by omega) (Nat.pos_of_ne_zero h0)]

theorem bytesToNat_eq (bs : List Nat) : bytesToNat bs = Nat.ofDigits 256 bs.reverse := by
  unfold bytesToNat
  suffices h : ∀ acc, List.foldl (fun acc b => acc * 256 + b) acc bs
      = acc * 256 ^ bs.length + Nat.ofDigits 256 bs.reverse by simpa using h 0
  induction bs with
  | nil => intro acc; simp
  | cons b bs ih =>
    intro acc
    simp only [List.foldl_cons, List.reverse_cons, List.length_cons]
    rw [ih, Nat.ofDigits_append, Nat.ofDigits_singleton]
    simp only [List.length_reverse]
    ring

theorem scanDigits_eq (cs : List Nat) (ds : List Nat) (acc : Nat)
    (h : cs.map byteDigit = ds.map some) :
    scanDigits cs acc = some (acc * 62 ^ ds.length + Nat.ofDigits 62 ds.reverse) := by
  induction cs generalizing ds acc with
  | nil =>
    cases ds with
    | nil => simp [scanDigits]
    | cons d ds => simp at h
  | cons c cs ih =>
    cases ds with
    | nil => simp at h
    | cons d ds =>
      simp only [List.map_cons, List.cons.injEq] at h
      simp only [scanDigits, h.1]
      rw [ih ds _ h.2]
      simp only [List.reverse_cons, List.length_cons, Nat.ofDigits_append, Nat.ofDigits_singleton,
        List.length_reverse]
      congr 1
      ring

theorem byteDigit_digitByte : ∀ d, d < 62 → byteDigit (digitByte d) = some d := by
  decide

theorem digitByte_alnum : ∀ d, d < 62 →
    let c := digitByte d
    ((48 ≤ c && c ≤ 57) || (65 ≤ c && c ≤ 90) || (97 ≤ c && c ≤ 122)) = true := by
  decide

theorem digitByte_not_sign : ∀ d, d < 62 → digitByte d ≠ 43 ∧ digitByte d ≠ 45 := by
  decide

theorem two_pow_128_lt : 2 ^ 128 < 62 ^ 22 := by norm_num

theorem bytesToNat_lt (id : List Nat) (h : IsId id) : bytesToNat id < 2 ^ 128 := by
  rw [bytesToNat_eq]
  have := Nat.ofDigits_lt_base_pow_length (b := 256) (l := id.reverse) (by norm_num)
    (by intro x hx; exact h.2 x (List.mem_reverse.mp hx))
  rw [List.length_reverse, h.1] at this
  calc _ < 256 ^ 16 := this
    _ = 2 ^ 128 := by norm_num

theorem digits_length_le {b n k : Nat} (hb : 1 < b) (h : n < b ^ k) :
    (Nat.digits b n).length ≤ k := by
  by_cases h0 : n = 0
  · subst h0; simp
  · have h1 := Nat.base_pow_length_digits_le b n hb h0
    have h2 : b ^ (Nat.digits b n).length < b ^ (k + 1) := by
      calc _ ≤ b * n := h1
        _ < b * b ^ k := Nat.mul_lt_mul_of_pos_left h (by omega)
        _ = b ^ (k + 1) := by ring
    have := (Nat.pow_lt_pow_iff_right hb).mp h2
    omega

theorem digits_length_gt {b n k : Nat} (hb : 1 < b) (h : b ^ k ≤ n) :
    k < (Nat.digits b n).length := by
  have := Nat.lt_base_pow_length_digits (b := b) (m := n) hb
  exact (Nat.pow_lt_pow_iff_right hb).mp (lt_of_le_of_lt h this)

/-- the digit list of `text62 n`, as numbers -/
def textDigits (n : Nat) : List Nat := if n = 0 then [0] else (Nat.digits 62 n).reverse

theorem text62_eq (n : Nat) : text62 n = (textDigits n).map digitByte := by
  unfold text62 textDigits
  split
  · simp [digitByte]
  · rw [digitsLE_eq 62 (by norm_num)]

theorem textDigits_lt (n : Nat) : ∀ d ∈ textDigits n, d < 62 := by
  unfold textDigits
  split
  · simp
  · intro d hd
    exact Nat.digits_lt_base (by norm_num) (List.mem_reverse.mp hd)

theorem textDigits_value (n : Nat) : Nat.ofDigits 62 (textDigits n).reverse = n := by
  unfold textDigits
  split
  · subst_vars; simp
  · simp [Nat.ofDigits_digits]

theorem textDigits_length_le (n : Nat) (h : n < 62 ^ 22) : (textDigits n).length ≤ 22 := by
  unfold textDigits
  split
  · simp
  · simpa using digits_length_le (by norm_num) h

theorem textDigits_ne_nil (n : Nat) : textDigits n ≠ [] := by
  unfold textDigits
  split
  · simp
  · simpa [Nat.digits_eq_nil_iff_eq_zero]

/-- digit list of the rendering -/
def renderDigits (n : Nat) : List Nat :=
  List.replicate (22 - (textDigits n).length) 0 ++ textDigits n

theorem render_eq (id : List Nat) (h : IsId id) :
    render id = .ok ((renderDigits (bytesToNat id)).map digitByte) := by
  have hlt := lt_trans (bytesToNat_lt id h) two_pow_128_lt
  have hlen := textDigits_length_le _ hlt
  unfold render renderDigits
  simp only [text62_eq, List.length_map]
  by_cases h22 : (textDigits (bytesToNat id)).length < 22
  · simp [h22, digitByte]
  · have : (textDigits (bytesToNat id)).length = 22 := by omega
    simp [this]

theorem renderDigits_length (n : Nat) (h : n < 62 ^ 22) : (renderDigits n).length = 22 := by
  have := textDigits_length_le n h
  simp [renderDigits]; omega

theorem renderDigits_lt (n : Nat) : ∀ d ∈ renderDigits n, d < 62 := by
  intro d hd
  simp only [renderDigits, List.mem_append, List.mem_replicate] at hd
  rcases hd with ⟨_, rfl⟩ | hd
  · norm_num
  · exact textDigits_lt n d hd

theorem renderDigits_value (n : Nat) : Nat.ofDigits 62 (renderDigits n).reverse = n := by
  simp [renderDigits, Nat.ofDigits_append, Nat.ofDigits_replicate_zero, textDigits_value]

theorem renderDigits_ne_nil (n : Nat) : renderDigits n ≠ [] := by
  simp [renderDigits, textDigits_ne_nil]

theorem map_byteDigit_digitByte (ds : List Nat) (h : ∀ d ∈ ds, d < 62) :
    (ds.map digitByte).map byteDigit = ds.map some := by
  induction ds with
  | nil => rfl
  | cons d ds ih =>
    simp only [List.map_cons, List.cons.injEq]
    exact ⟨byteDigit_digitByte d (h d (by simp)), ih (fun x hx => h x (by simp [hx]))⟩

theorem setString62_render (ds : List Nat) (hne : ds ≠ []) (h : ∀ d ∈ ds, d < 62) :
    setString62 (ds.map digitByte) = some (Nat.ofDigits 62 ds.reverse) := by
  unfold setString62
  cases ds with
  | nil => exact absurd rfl hne
  | cons d ds =>
    have hd := digitByte_not_sign d (h d (by simp))
    have hbody : stripSign ((d :: ds).map digitByte) = (d :: ds).map digitByte := by
      simp only [List.map_cons]
      unfold stripSign
      split
      · rename_i heq; simp only [List.cons.injEq] at heq; exact absurd heq.1 hd.1
      · rename_i heq; simp only [List.cons.injEq] at heq; exact absurd heq.1 hd.2
      · rfl
    simp only [hbody]
    rw [scanDigits_eq _ (d :: ds) 0 (map_byteDigit_digitByte _ h)]
    simp

theorem natBytes_eq (n : Nat) : natBytes n = (Nat.digits 256 n).reverse := by
  unfold natBytes; rw [digitsLE_eq 256 (by norm_num)]

theorem parse_of_value (s : List Nat) (n : Nat) (hs : setString62 s = some n) (hn : n < 2 ^ 128) :
    ∃ bs, parse s = .ok bs ∧ IsId bs ∧ bytesToNat bs = n := by
  have hlen : (natBytes n).length ≤ 16 := by
    rw [natBytes_eq, List.length_reverse]
    exact digits_length_le (by norm_num) (by calc n < 2 ^ 128 := hn
      _ = 256 ^ 16 := by norm_num)
  have hb : ∀ b ∈ natBytes n, b < 256 := by
    intro b hb
    rw [natBytes_eq] at hb
    exact Nat.digits_lt_base (by norm_num) (List.mem_reverse.mp hb)
  have hv : bytesToNat (natBytes n) = n := by
    rw [bytesToNat_eq, natBytes_eq, List.reverse_reverse, Nat.ofDigits_digits]
  unfold parse
  simp only [hs]
  by_cases h16 : (natBytes n).length < 16
  · refine ⟨List.replicate (16 - (natBytes n).length) 0 ++ natBytes n, ?_, ⟨?_, ?_⟩, ?_⟩
    · simp [h16, Nat.not_lt.mpr hlen]
    · simp; omega
    · intro b hb'
      simp only [List.mem_append, List.mem_replicate] at hb'
      rcases hb' with ⟨_, rfl⟩ | hb'
      · norm_num
      · exact hb b hb'
    · rw [bytesToNat_eq, List.reverse_append, Nat.ofDigits_append, List.reverse_replicate,
        Nat.ofDigits_replicate_zero, ← bytesToNat_eq, hv]; simp
  · have : (natBytes n).length = 16 := by omega
    refine ⟨natBytes n, ?_, ⟨this, hb⟩, hv⟩
    simp [this]

theorem isId_ext (a b : List Nat) (ha : IsId a) (hb : IsId b) (h : bytesToNat a = bytesToNat b) :
    a = b := by
  rw [bytesToNat_eq, bytesToNat_eq] at h
  have := Nat.ofDigits_inj_of_len_eq (b := 256) (by norm_num)
    (L1 := a.reverse) (L2 := b.reverse) (by simp [ha.1, hb.1])
    (fun l hl => ha.2 l (List.mem_reverse.mp hl)) (fun l hl => hb.2 l (List.mem_reverse.mp hl)) h
  simpa using congrArg List.reverse this

theorem parse_wide (s : List Nat) (n : Nat) (hs : setString62 s = some n) (hn : 2 ^ 128 ≤ n) :
    parse s = .err "base62 value is too large" := by
  have : 16 < (natBytes n).length := by
    rw [natBytes_eq, List.length_reverse]
    exact digits_length_gt (by norm_num) (by calc 256 ^ 16 = 2 ^ 128 := by norm_num
      _ ≤ n := hn)
  unfold parse
  simp [hs, this]

end J5V.Id62
