import J5V.Print.ReparseTheorem
/-!
# `parseFile (printText gen t) = some (rdFile t)` for simple files (core only)
-/
namespace J5V.Print.Reparse
open J5V.Print J5V.Print.Grammar J5V.Print.Layout J5V.Print.OptionText J5V.Print.Scalar

def syntaxLine : String := "syntax = \"proto3\";"
def packageLine (t : FileD) : String := "package " ++ t.pkg ++ ";"

/-- the commands of the imports -/
def importCmds (t : FileD) : List Cmd :=
  if t.imports.isEmpty then [] else (sortImports t.imports).map (fun d => Cmd.line (importLine d)) ++ [Cmd.gap]

/-- everything after the two lines of the generator comment -/
def restCmds (t : FileD) : List Cmd :=
  [Cmd.line syntaxLine, Cmd.line "", Cmd.line (packageLine t), Cmd.gap] ++
    (importCmds t ++ ([Cmd.gap] ++ elemsCmds 0 t.items true 0 0))

theorem fileCmds_simple (gen : String) (t : FileD) (h : SimpleFile gen t) :
    fileCmds gen t = [Cmd.line ("// " ++ gen), Cmd.line ""] ++ restCmds t := by
  unfold fileCmds restCmds importCmds
  rw [leadingCmds_noComments 0 h.loc.noComments, h.opts, h.exts]
  simp only [sortOpts, Order.isort, List.map_nil, List.flatten_nil, groupExts, List.append_nil, List.nil_append,
    List.append_assoc, List.cons_append, syntaxLine, packageLine]
  rfl

/-! ## the lines and tokens of `restCmds` -/

theorem exec_importLines : ∀ (I : List (String × String)) (g : Bool),
    exec (I.map (fun d => Cmd.line (importLine d))) g =
      ((if g && !I.isEmpty then [""] else []) ++ I.map importLine, if I.isEmpty then g else false)
  | [], g => by simp [exec]
  | d :: r, g => by
    simp only [List.map_cons, exec, exec_importLines r false]
    cases g <;> simp

theorem exec_importCmds (t : FileD) :
    exec (importCmds t) true =
      (if t.imports.isEmpty then [] else "" :: (sortImports t.imports).map importLine, true) := by
  unfold importCmds
  have hlen : (sortImports t.imports).isEmpty = t.imports.isEmpty := by
    have := (sortImports_perm t.imports).length_eq
    cases h1 : sortImports t.imports <;> cases h2 : t.imports <;> simp_all
  split
  · rfl
  · rename_i hne
    have hne' : (sortImports t.imports).isEmpty = false := by rw [hlen]; simpa using hne
    rw [exec_append, exec_importLines]
    simp [hne', exec]

theorem toksOf_restCmds (t : FileD) :
    toksOf (restCmds t) false 2 =
      lineToks syntaxLine 2 ++ (lineToks (packageLine t) 4 ++
        (lexLines ((sortImports t.imports).map importLine) 6 ++
          toksOf (elemsCmds 0 t.items true 0 0) true (itemsStart t))) := by
  unfold restCmds
  have hlen : (sortImports t.imports).length = t.imports.length := (sortImports_perm t.imports).length_eq
  rw [toksOf_append, toksOf_append, toksOf_append]
  have h1 : toksOf [Cmd.line syntaxLine, Cmd.line "", Cmd.line (packageLine t), Cmd.gap] false 2 =
      lineToks syntaxLine 2 ++ lineToks (packageLine t) 4 := by
    simp [toksOf, exec, lexLines, lineToks_blank]
  have h2 : exec [Cmd.line syntaxLine, Cmd.line "", Cmd.line (packageLine t), Cmd.gap] false =
      ([syntaxLine, "", packageLine t], true) := by simp [exec]
  have h3 : nLines [Cmd.line syntaxLine, Cmd.line "", Cmd.line (packageLine t), Cmd.gap] false = 3 := by
    simp [nLines, exec]
  rw [h1, h2, h3, exec_importCmds]
  simp only [toksOf_gap, List.nil_append, exec, List.append_assoc]
  unfold itemsStart
  by_cases hempty : t.imports.isEmpty = true
  · have hnil : t.imports = [] := by simpa using hempty
    have hs : sortImports t.imports = [] := by rw [hnil]; rfl
    simp [toksOf, nLines, exec_importCmds, hempty, hs, lexLines]
  · have hne : t.imports.isEmpty = false := by simpa using hempty
    simp only [toksOf, nLines, exec_importCmds, hne, Bool.false_eq_true, if_false, lexLines, lineToks_blank,
      List.nil_append, List.length_cons, List.length_map, hlen]
    congr 3
    omega

/-- every line `restCmds` writes satisfies `P` if the empty line and the texts of its commands do -/
theorem restCmds_lines (t : FileD) (P : String → Prop) (h0 : P "") (hs : P syntaxLine) (hp : P (packageLine t))
    (hi : ∀ d ∈ sortImports t.imports, P (importLine d))
    (he : ∀ c ∈ elemsCmds 0 t.items true 0 0, match c with | .line s => P s | .endl s => P s | .gap => True) :
    ∀ s ∈ (exec (restCmds t) false).1, P s := by
  apply exec_lines _ _ P h0
  intro c hc
  unfold restCmds importCmds at hc
  simp only [List.mem_append, List.mem_cons, List.mem_singleton, List.not_mem_nil, or_false] at hc
  rcases hc with (rfl | rfl | rfl | rfl) | hc | rfl | hc
  · exact hs
  · exact h0
  · exact hp
  · trivial
  · split at hc
    · simp at hc
    · simp only [List.mem_append, List.mem_map, List.mem_singleton] at hc
      rcases hc with ⟨d, hd, rfl⟩ | rfl
      · exact hi d hd
      · trivial
  · trivial
  · exact he c hc

end J5V.Print.Reparse
