import J5V.Print.ReparseTheorem
/-!
# `parseFile (printText gen t) = some (rdFile t)` for simple files (core only)
-/
namespace J5V.Print.Reparse
open J5V.Print J5V.Print.Grammar J5V.Print.Layout J5V.Print.OptionText J5V.Print.Scalar

def syntaxLine : String := "syntax = \"proto3\";"
def packageLine (t : FileD) : String := "package " ++ t.pkg ++ ";"

/-- the commands of the imports -/
def importCmds (t : FileD) : List Cmd :=
  if t.imports.isEmpty then [] else (sortImports t.imports).map (fun d => Cmd.line (importLine d)) ++ [Cmd.gap]

/-- everything after the two lines of the generator comment -/
def restCmds (t : FileD) : List Cmd :=
  [Cmd.line syntaxLine, Cmd.line "", Cmd.line (packageLine t), Cmd.gap] ++
    (importCmds t ++ ([Cmd.gap] ++ elemsCmds 0 t.items true 0 0))

theorem fileCmds_simple (gen : String) (t : FileD) (h : SimpleFile gen t) :
    fileCmds gen t = [Cmd.line ("// " ++ gen), Cmd.line ""] ++ restCmds t := by
  unfold fileCmds restCmds importCmds
  rw [leadingCmds_noComments 0 h.loc, h.opts, h.exts]
  simp only [sortOpts, Order.isort, List.map_nil, List.flatten_nil, groupExts, List.append_nil, List.nil_append,
    List.append_assoc, List.cons_append, syntaxLine, packageLine]
  rfl

/-! ## the lines and tokens of `restCmds` -/

theorem exec_importLines : ∀ (I : List (String × String)) (g : Bool),
    exec (I.map (fun d => Cmd.line (importLine d))) g =
      ((if g && !I.isEmpty then [""] else []) ++ I.map importLine, if I.isEmpty then g else false)
  | [], g => by simp [exec]
  | d :: r, g => by
    simp only [List.map_cons, exec, exec_importLines r false]
    cases g <;> simp

theorem exec_importCmds (t : FileD) :
    exec (importCmds t) true =
      (if t.imports.isEmpty then [] else "" :: (sortImports t.imports).map importLine, true) := by
  unfold importCmds
  have hlen : (sortImports t.imports).isEmpty = t.imports.isEmpty := by
    have := (sortImports_perm t.imports).length_eq
    cases h1 : sortImports t.imports <;> cases h2 : t.imports <;> simp_all
  split
  · rfl
  · rename_i hne
    have hne' : (sortImports t.imports).isEmpty = false := by rw [hlen]; simpa using hne
    rw [exec_append, exec_importLines]
    simp [hne', exec]

theorem toksOf_restCmds (t : FileD) :
    toksOf (restCmds t) false 2 =
      lineToks syntaxLine 2 ++ (lineToks (packageLine t) 4 ++
        (lexLines ((sortImports t.imports).map importLine) 6 ++
          kT 0 t.items true 0 0 true (itemsStart t))) := by
  unfold restCmds
  have hlen : (sortImports t.imports).length = t.imports.length := (sortImports_perm t.imports).length_eq
  rw [toksOf_append, toksOf_append, toksOf_append]
  have h1 : toksOf [Cmd.line syntaxLine, Cmd.line "", Cmd.line (packageLine t), Cmd.gap] false 2 =
      lineToks syntaxLine 2 ++ lineToks (packageLine t) 4 := by
    simp [toksOf, exec, lexLines, lineToks_blank]
  have h2 : exec [Cmd.line syntaxLine, Cmd.line "", Cmd.line (packageLine t), Cmd.gap] false =
      ([syntaxLine, "", packageLine t], true) := by simp [exec]
  have h3 : nLines [Cmd.line syntaxLine, Cmd.line "", Cmd.line (packageLine t), Cmd.gap] false = 3 := by
    simp [nLines, exec]
  rw [h1, h2, h3, exec_importCmds]
  simp only [toksOf_gap, List.nil_append, exec, List.append_assoc]
  unfold itemsStart
  by_cases hempty : t.imports.isEmpty = true
  · have hnil : t.imports = [] := by simpa using hempty
    have hs : sortImports t.imports = [] := by rw [hnil]; rfl
    simp [toksOf, nLines, exec_importCmds, hempty, hs, lexLines, exec]
  · have hne : t.imports.isEmpty = false := by simpa using hempty
    simp only [toksOf, nLines, exec_importCmds, hne, Bool.false_eq_true, if_false, lexLines, lineToks_blank,
      List.nil_append, List.length_cons, List.length_map, hlen]
    have e1 : (exec [Cmd.gap] true).1.length = 0 := rfl
    have e2 : 2 + 3 + (t.imports.length + 1) + 0 = 6 + t.imports.length := by omega
    rw [e1, e2]

/-- every line `restCmds` writes satisfies `P` if the empty line and the texts of its commands do -/
theorem restCmds_lines (t : FileD) (P : String → Prop) (h0 : P "") (hs : P syntaxLine) (hp : P (packageLine t))
    (hi : ∀ d ∈ sortImports t.imports, P (importLine d))
    (he : ∀ c ∈ elemsCmds 0 t.items true 0 0, match c with | .line s => P s | .endl s => P s | .gap => True) :
    ∀ s ∈ (exec (restCmds t) false).1, P s := by
  apply exec_lines _ _ P h0
  intro c hc
  unfold restCmds importCmds at hc
  simp only [List.mem_append, List.mem_cons, List.mem_singleton, List.not_mem_nil, or_false] at hc
  rcases hc with (rfl | rfl | rfl | rfl) | hc | rfl | hc
  · exact hs
  · exact h0
  · exact hp
  · trivial
  · split at hc
    · simp at hc
    · simp only [List.mem_append, List.mem_map, List.mem_singleton] at hc
      rcases hc with ⟨d, hd, rfl⟩ | rfl
      · exact hi d hd
      · trivial
  · trivial
  · exact he c hc


/-! ## from the text to the tokens -/

theorem lexL_syntaxLine (l : Nat) :
    lexL syntaxLine.toList l =
      [.tok (.ident "syntax") l, .tok (.sym '=') l, .tok (.str "\"proto3\"") l, .tok (.sym ';') l] := by
  have h : (syntaxLine.toList : List Char) =
      "syntax".toList ++ ' ' :: '=' :: ' ' :: ('"' :: "proto3".toList ++ '"' :: [';']) := by decide
  rw [h, lexL_ident "syntax" isIdent_syntax _ (stopsI_space _), lexL_space, lexL_sym '=' (by decide), lexL_space,
    lexL_str "proto3".toList [';'] (by intro c hc; revert c; decide), lexL_sym ';' (by decide), lexL_nil]
  have : String.ofList ('"' :: "proto3".toList ++ ['"']) = "\"proto3\"" := by decide
  rw [this]

theorem tokLine_of_noSlash (s : String) (h : NoCh '/' s.toList) : TokLine s :=
  fun L r hr => lexL_tokens _ s.toList rfl h L r hr

theorem rawLines_tokens : ∀ (ls : List String) (L : Nat), (∀ s ∈ ls, TokLine s) →
    ∀ r ∈ rawLines ls L, ∃ t ln, r = Raw.tok t ln
  | [], _, _, r, hr => by simp [rawLines] at hr
  | s :: rest, L, h, r, hr => by
    simp only [rawLines, List.mem_append] at hr
    rcases hr with hr | hr
    · exact h s (by simp) L r hr
    · exact rawLines_tokens rest (L + 1) (fun x hx => h x (by simp [hx])) r hr

theorem noNL_of_all (s : String) (h : s.toList.all (· != '\n') = true) : NoNL s.toList := by
  intro c hc he
  subst he
  simp only [List.all_eq_true] at h
  have := h _ hc
  simp at this

theorem noNL_importLine (d : String × String) (hb : PlainBody d.1.toList)
    (hm : d.2 = "" ∨ d.2 = "public " ∨ d.2 = "weak ") : NoNL (importLine d).toList := by
  unfold importLine
  simp only [String.toList_append]
  have h2 : NoNL d.2.toList := by
    rcases hm with h | h | h <;> rw [h] <;> exact noNL_of_all _ (by decide)
  have hbn : NoNL d.1.toList := fun c hc => (hb c hc).2.2
  have app : ∀ {a b : List Char}, NoNL a → NoNL b → NoNL (a ++ b) := by
    intro a b ha hb' c hc
    rcases List.mem_append.mp hc with h | h
    · exact ha c h
    · exact hb' c h
  exact app (app (app (app (noNL_of_all "import " (by decide)) h2) (noNL_of_all "\"" (by decide))) hbn)
    (noNL_of_all "\";" (by decide))

theorem tokLine_importLine (d : String × String) (hb : PlainBody d.1.toList)
    (hm : d.2 = "" ∨ d.2 = "public " ∨ d.2 = "weak ") : TokLine (importLine d) := by
  intro L r hr
  rw [lexL_importLine d L hb hm] at hr
  simp only [List.mem_cons, List.mem_append, List.not_mem_nil, or_false] at hr
  rcases hr with rfl | hr | rfl | rfl
  · exact ⟨_, _, rfl⟩
  · unfold modRaws at hr
    split at hr
    · simp only [List.mem_singleton] at hr; exact ⟨_, _, hr⟩
    · split at hr
      · simp only [List.mem_singleton] at hr; exact ⟨_, _, hr⟩
      · simp at hr
  · exact ⟨_, _, rfl⟩
  · exact ⟨_, _, rfl⟩


/-- the lines of the file -/
theorem lines_simple (gen : String) (t : FileD) (h : SimpleFile gen t) :
    run (fileCmds gen t) false = ("// " ++ gen) :: "" :: (exec (restCmds t) false).1 := by
  rw [run_eq_exec, fileCmds_simple gen t h, exec_append]
  simp [exec]

theorem cmds_P_of_noCh {x : Char} (P : String → Prop) (hP : ∀ s, LineOk x s → P s) (cmds : List Cmd)
    (h : CmdsNoCh x cmds) : ∀ c ∈ cmds, match c with | .line s => P s | .endl s => P s | .gap => True := by
  intro c hc
  have := h c hc
  cases c with
  | line s => exact hP s this
  | endl s => exact hP s this
  | gap => trivial

theorem sortImports_mem (t : FileD) (d : String × String) (hd : d ∈ sortImports t.imports) : d ∈ t.imports :=
  (sortImports_perm t.imports).subset hd

theorem noCh_packageLine {x : Char} (hx : Safe x) (hp : NoCh x "package ".toList) (t : FileD) (gen : String)
    (h : SimpleFile gen t) : NoCh x (packageLine t).toList := by
  obtain ⟨first, rest, hf, hr, hpkg⟩ := h.pkg
  unfold packageLine
  rw [hpkg]
  simp only [String.toList_append]
  exact NoCh.append hx (NoCh.append hx hp (noCh_tyStr hx false first rest hf hr)) (noCh_lit hx ";" (by simp))

theorem lex_text (gen : String) (t : FileD) (h : SimpleFile gen t) :
    ∃ (cm0 : Cm) (N : Nat), lex (String.join ((run (fileCmds gen t) false).map (· ++ "\n"))) =
      ⟨.ident "syntax", 2, cm0⟩ :: ((toksOf (restCmds t) false 2).drop 1 ++ [T .eof N]) := by
  have hpk : ∀ x : Char, Safe x → NoCh x "package ".toList → NoCh x (packageLine t).toList :=
    fun x hx hp => noCh_packageLine hx hp t gen h
  -- no line holds a line break
  have hnl1 : ∀ s ∈ (exec (restCmds t) false).1, NoNL s.toList := by
    apply restCmds_lines t (fun s => NoNL s.toList) (noNL_of_all "" (by decide)) (noNL_of_all _ (by decide))
      (hpk '\n' safe_nl (noNL_of_all "package " (by decide)))
    · intro d hd
      obtain ⟨hb, hm⟩ := h.imports d (sortImports_mem t d hd)
      exact noNL_importLine d hb hm
    · exact cmds_P_of_noCh (x := '\n') _ (fun s hs => hs.elim id (fun h2 => absurd h2.1 (by decide))) _
        (simpleTops_noCh safe_nl t.items true 0 0 h.items)
  -- every line after the first holds tokens only
  have htok1 : ∀ s ∈ (exec (restCmds t) false).1, TokLine s := by
    apply restCmds_lines t TokLine
    · exact tokLine_of_noSlash "" (by intro c hc; simp at hc)
    · exact tokLine_of_noSlash _ (by intro c hc; revert c; decide)
    · exact tokLine_of_noSlash _ (hpk '/' safe_slash (by intro c hc; revert c; decide))
    · intro d hd
      obtain ⟨hb, hm⟩ := h.imports d (sortImports_mem t d hd)
      exact tokLine_importLine d hb hm
    · exact cmds_P_of_noCh (x := '/') _ (fun s hs => hs.elim (tokLine_of_noSlash s) (fun h2 => h2.2)) _
        (simpleTops_noCh safe_slash t.items true 0 0 h.items)
  have hgen : NoNL ("// " ++ gen).toList := by
    simp only [String.toList_append]
    intro c hc
    rcases List.mem_append.mp hc with h1 | h1
    · exact noNL_of_all "// " (by decide) c h1
    · exact h.gen c h1
  have hall : ∀ s ∈ run (fileCmds gen t) false, NoNL s.toList := by
    rw [lines_simple gen t h]
    intro s hs
    simp only [List.mem_cons] at hs
    rcases hs with rfl | rfl | hs
    · exact hgen
    · exact noNL_of_all "" (by decide)
    · exact hnl1 s hs
  -- the raw items
  unfold lex
  rw [lexAux_eq_lexL _ _ _ (by omega), text_toList, lexL_text _ 0 hall, lines_simple gen t h]
  -- the first two lines
  have hfirst : lexL ("// " ++ gen).toList 0 = [.comment (String.ofList (' ' :: gen.toList)) 0] := by
    have : ("// " ++ gen).toList = '/' :: '/' :: (' ' :: gen.toList) := by
      simp only [String.toList_append]; rfl
    rw [this]
    apply lexL_comment
    intro c hc
    rcases List.mem_cons.mp hc with h1 | h1
    · rw [h1]; decide
    · exact h.gen c h1
  have hblank : lexL "".toList 1 = [] := by
    have : ("".toList : List Char) = [] := by decide
    rw [this, lexL_nil]
  -- the lines of `restCmds` start with the syntax line
  have hL1 : ∃ tl, (exec (restCmds t) false).1 = syntaxLine :: tl := by
    unfold restCmds
    simp only [List.cons_append, exec]
    exact ⟨_, rfl⟩
  obtain ⟨tl, htl⟩ := hL1
  have hraws : rawLines ((exec (restCmds t) false).1) 2 =
      .tok (.ident "syntax") 2 :: ([.tok (.sym '=') 2, .tok (.str "\"proto3\"") 2, .tok (.sym ';') 2] ++ rawLines tl 3) := by
    rw [htl]
    simp only [rawLines, lexL_syntaxLine, List.cons_append, List.nil_append]
  have htoks := rawLines_tokens _ 2 htok1
  rw [hraws] at htoks
  simp only [rawLines, hfirst, hblank, List.nil_append, List.cons_append, hraws, attach]
  refine ⟨attributeCm none [(String.ofList (' ' :: gen.toList), 0)] (Grammar.Tok.ident "syntax") 2,
    lastLineOf (rawLines tl 3) 2 + 1, ?_⟩
  rw [attach_tokens _ 2 2 (fun r hr => htoks r (by simp [hr]))]
  simp only [attributeCm_nil]
  -- the tokens after `syntax` are those of `restCmds` without the first
  have hdrop : (toksOf (restCmds t) false 2).drop 1 =
      T (.sym '=') 2 :: T (.str "\"proto3\"") 2 :: T (.sym ';') 2 :: (rawLines tl 3).filterMap toP := by
    unfold toksOf
    rw [← rawLines_toP, hraws]
    simp [toP]
  rw [hdrop]
  rfl


/-! ## the theorem -/

theorem lexLines_imports_length : ∀ (I : List (String × String)) (L : Nat),
    (∀ i ∈ I, PlainBody i.1.toList ∧ (i.2 = "" ∨ i.2 = "public " ∨ i.2 = "weak ")) →
    I.length ≤ (lexLines (I.map importLine) L).length
  | [], _, _ => by simp [lexLines]
  | d :: r, L, h => by
    obtain ⟨hb, hm⟩ := h d (by simp)
    have ih := lexLines_imports_length r (L + 1) (fun i hi => h i (by simp [hi]))
    simp only [List.map_cons, lexLines, List.length_append, List.length_cons, lineToks_import d L hb hm, importToks]
    omega

/-- **The grammar model reads the printed text of a simple file back as that file**, with the
source lines of the text. -/
theorem parse_print (gen : String) (t : FileD) (h : SimpleFile gen t) :
    parseFile (String.join ((run (fileCmds gen t) false).map (· ++ "\n"))) = some (rdFile t) := by
  obtain ⟨cm0, N, hlex⟩ := lex_text gen t h
  obtain ⟨first, rest, hf, hr, hpkg⟩ := h.pkg
  have hI : ∀ i ∈ sortImports t.imports, PlainBody i.1.toList ∧ (i.2 = "" ∨ i.2 = "public " ∨ i.2 = "weak ") :=
    fun i hi => h.imports i (sortImports_mem t i hi)
  -- the tokens
  have hX := toksOf_restCmds t
  have hsyn : lineToks syntaxLine 2 =
      [T (.ident "syntax") 2, T (.sym '=') 2, T (.str "\"proto3\"") 2, T (.sym ';') 2] := lineToks_syntax 2
  have hpk : lineToks (packageLine t) 4 = T (.ident "package") 4 :: (tyToks false first rest 4 ++ [T (.sym ';') 4]) := by
    unfold packageLine; rw [hpkg]; exact lineToks_package first rest 4 hf hr
  rw [hsyn, hpk] at hX
  have hdrop : (toksOf (restCmds t) false 2).drop 1 ++ [T .eof N] =
      T (.sym '=') 2 :: T (.str "\"proto3\"") 2 :: T (.sym ';') 2 ::
        (T (.ident "package") 4 :: (tyToks false first rest 4 ++ T (.sym ';') 4 ::
          (lexLines ((sortImports t.imports).map importLine) 6 ++
            (kT 0 t.items true 0 0 true (itemsStart t) ++ [T .eof N])))) := by
    rw [hX]; simp
  -- fuel
  have hc1 := count_tops t.items h.items 0 true 0 0 (itemsStart t) true
  have hc2 := lexLines_imports_length (sortImports t.imports) 6 hI
  have hlenI : (sortImports t.imports).length = t.imports.length := (sortImports_perm t.imports).length_eq
  unfold parseFile
  simp only [hlex, hdrop]
  have hlen : t.items.length + needAll t.items + (sortImports t.imports).length + 3 ≤
      (⟨Grammar.Tok.ident "syntax", 2, cm0⟩ :: T (.sym '=') 2 :: T (.str "\"proto3\"") 2 :: T (.sym ';') 2 ::
        (T (.ident "package") 4 :: (tyToks false first rest 4 ++ T (.sym ';') 4 ::
          (lexLines ((sortImports t.imports).map importLine) 6 ++
            (kT 0 t.items true 0 0 true (itemsStart t) ++ [T .eof N]))))).length := by
    simp only [List.length_cons, List.length_append]
    omega
  generalize hL : (⟨Grammar.Tok.ident "syntax", 2, cm0⟩ :: T (.sym '=') 2 :: T (.str "\"proto3\"") 2 :: T (.sym ';') 2 ::
        (T (.ident "package") 4 :: (tyToks false first rest 4 ++ T (.sym ';') 4 ::
          (lexLines ((sortImports t.imports).map importLine) 6 ++
            (kT 0 t.items true 0 0 true (itemsStart t) ++ [T .eof N]))))).length = len at hlen
  obtain ⟨F5, hF5, hb⟩ : ∃ F5, len + 1 = ((((F5 + 1) + t.items.length) + (sortImports t.imports).length) + 1) + 1 ∧
      needAll t.items ≤ F5 + 1 :=
    ⟨len - t.items.length - (sortImports t.imports).length - 2, by omega, by omega⟩
  rw [hF5, topLevel_syntax, topLevel_package _ first rest 4 _ _ hf,
    top_imports (sortImports t.imports) 6 _ _ _ hI,
    top_tops t.items h.items true 0 0 (itemsStart t) true (F5 + 1) _ _ rfl hb, topLevel_eof]
  simp only [List.nil_append, rdFile, mkOpts, groupOpts, unlocateShared, List.map_nil, hpkg, if_true]

/-- … and printing what was read reproduces the text. -/
theorem reprint_simple (gen : String) (t : FileD) (h : SimpleFile gen t) :
    printFile gen (rdFile t) = run (fileCmds gen t) false :=
  printFile_relaid gen t (rdFile t) (simple_quiet gen t h) (relaid_rdFile gen t h)

end J5V.Print.Reparse
