import J5V.Print.ReparseBridge
/-!
# `parseFile (printText gen t) = some (rdFile t)` for simple files (core only)
-/
namespace J5V.Print.Reparse
open J5V.Print J5V.Print.Grammar J5V.Print.Layout J5V.Print.OptionText J5V.Print.Scalar

def syntaxLine : String := "syntax = \"proto3\";"
def packageLine (t : FileD) : String := "package " ++ t.pkg ++ ";"

/-- the commands of the imports -/
def importCmds (t : FileD) : List Cmd :=
  if t.imports.isEmpty then [] else (sortImports t.imports).map (fun d => Cmd.line (importLine d)) ++ [Cmd.gap]

/-- everything after the two lines of the generator comment -/
def restCmds (t : FileD) : List Cmd :=
  [Cmd.line syntaxLine, Cmd.line "", Cmd.line (packageLine t), Cmd.gap] ++
    (importCmds t ++ ([Cmd.gap] ++ elemsCmds 0 t.items true 0 0))

/-- … before the elements -/
def hdCmds (t : FileD) : List Cmd :=
  [Cmd.line syntaxLine, Cmd.line "", Cmd.line (packageLine t), Cmd.gap] ++ (importCmds t ++ [Cmd.gap])

theorem restCmds_eq (t : FileD) : restCmds t = hdCmds t ++ elemsCmds 0 t.items true 0 0 := by
  simp [restCmds, hdCmds, List.append_assoc]

theorem fileCmds_simple (gen : String) (t : FileD) (h : SimpleFile gen t) :
    fileCmds gen t = [Cmd.line ("// " ++ gen), Cmd.line ""] ++ restCmds t := by
  unfold fileCmds restCmds importCmds
  rw [leadingCmds_noComments 0 h.loc, h.opts, h.exts]
  simp only [sortOpts, Order.isort, List.map_nil, List.flatten_nil, groupExts, List.append_nil, List.nil_append,
    List.append_assoc, List.cons_append, syntaxLine, packageLine]
  rfl

/-! ## the lines and tokens of `restCmds` -/

theorem exec_importLines : ∀ (I : List (String × String)) (g : Bool),
    exec (I.map (fun d => Cmd.line (importLine d))) g =
      ((if g && !I.isEmpty then [""] else []) ++ I.map importLine, if I.isEmpty then g else false)
  | [], g => by simp [exec]
  | d :: r, g => by
    simp only [List.map_cons, exec, exec_importLines r false]
    cases g <;> simp

theorem exec_importCmds (t : FileD) :
    exec (importCmds t) true =
      (if t.imports.isEmpty then [] else "" :: (sortImports t.imports).map importLine, true) := by
  unfold importCmds
  have hlen : (sortImports t.imports).isEmpty = t.imports.isEmpty := by
    have := (sortImports_perm t.imports).length_eq
    cases h1 : sortImports t.imports <;> cases h2 : t.imports <;> simp_all
  split
  · rfl
  · rename_i hne
    have hne' : (sortImports t.imports).isEmpty = false := by rw [hlen]; simpa using hne
    rw [exec_append, exec_importLines]
    simp [hne', exec]

theorem exec_hdCmds (t : FileD) :
    (exec (hdCmds t) false).2 = true ∧ 2 + nLines (hdCmds t) false = itemsStart t := by
  unfold hdCmds
  have hlen : (sortImports t.imports).length = t.imports.length := (sortImports_perm t.imports).length_eq
  have h2 : exec [Cmd.line syntaxLine, Cmd.line "", Cmd.line (packageLine t), Cmd.gap] false =
      ([syntaxLine, "", packageLine t], true) := by simp [exec]
  constructor
  · rw [exec_append_snd, h2, exec_append_snd]
    rfl
  · unfold nLines itemsStart
    rw [exec_append, h2, exec_append, exec_importCmds]
    by_cases hempty : t.imports.isEmpty = true
    · simp [hempty, exec]
    · have hne : t.imports.isEmpty = false := by simpa using hempty
      simp [hne, exec, hlen]
      omega

theorem toksOf_hdCmds (t : FileD) :
    toksOf (hdCmds t) false 2 =
      lineToks syntaxLine 2 ++ (lineToks (packageLine t) 4 ++ lexLines ((sortImports t.imports).map importLine) 6) := by
  unfold hdCmds
  have hlen : (sortImports t.imports).length = t.imports.length := (sortImports_perm t.imports).length_eq
  rw [toksOf_append, toksOf_append]
  have h1 : toksOf [Cmd.line syntaxLine, Cmd.line "", Cmd.line (packageLine t), Cmd.gap] false 2 =
      lineToks syntaxLine 2 ++ lineToks (packageLine t) 4 := by
    simp [toksOf, exec, lexLines, lineToks_blank]
  have h2 : exec [Cmd.line syntaxLine, Cmd.line "", Cmd.line (packageLine t), Cmd.gap] false =
      ([syntaxLine, "", packageLine t], true) := by simp [exec]
  have h3 : nLines [Cmd.line syntaxLine, Cmd.line "", Cmd.line (packageLine t), Cmd.gap] false = 3 := by
    simp [nLines, exec]
  rw [h1, h2, h3]
  simp only [toksOf_gap, List.append_nil, List.append_assoc]
  congr 2
  by_cases hempty : t.imports.isEmpty = true
  · have hnil : t.imports = [] := by simpa using hempty
    have hs : sortImports t.imports = [] := by rw [hnil]; rfl
    simp [toksOf, exec_importCmds, hempty, hs, lexLines]
  · have hne : t.imports.isEmpty = false := by simpa using hempty
    simp only [toksOf, exec_importCmds, hne, Bool.false_eq_true, if_false, lexLines, lineToks_blank,
      List.nil_append]

/-- every line `restCmds` writes satisfies `P` if the empty line and the texts of its commands do -/
theorem restCmds_lines (t : FileD) (P : String → Prop) (h0 : P "") (hs : P syntaxLine) (hp : P (packageLine t))
    (hi : ∀ d ∈ sortImports t.imports, P (importLine d))
    (he : ∀ c ∈ elemsCmds 0 t.items true 0 0, match c with | .line s => P s | .endl s => P s | .gap => True) :
    ∀ s ∈ (exec (restCmds t) false).1, P s := by
  apply exec_lines _ _ P h0
  intro c hc
  unfold restCmds importCmds at hc
  simp only [List.mem_append, List.mem_cons, List.mem_singleton, List.not_mem_nil, or_false] at hc
  rcases hc with (rfl | rfl | rfl | rfl) | hc | rfl | hc
  · exact hs
  · exact h0
  · exact hp
  · trivial
  · split at hc
    · simp at hc
    · simp only [List.mem_append, List.mem_map, List.mem_singleton] at hc
      rcases hc with ⟨d, hd, rfl⟩ | rfl
      · exact hi d hd
      · trivial
  · trivial
  · exact he c hc


/-! ## from the text to the tokens -/

theorem lexL_syntaxLine (l : Nat) :
    lexL syntaxLine.toList l =
      [.tok (.ident "syntax") l, .tok (.sym '=') l, .tok (.str "\"proto3\"") l, .tok (.sym ';') l] := by
  have h : (syntaxLine.toList : List Char) =
      "syntax".toList ++ ' ' :: '=' :: ' ' :: ('"' :: "proto3".toList ++ '"' :: [';']) := by decide
  rw [h, lexL_ident "syntax" isIdent_syntax _ (stopsI_space _), lexL_space, lexL_sym '=' (by decide), lexL_space,
    lexL_str "proto3".toList [';'] (by intro c hc; revert c; decide), lexL_sym ';' (by decide), lexL_nil]
  have : String.ofList ('"' :: "proto3".toList ++ ['"']) = "\"proto3\"" := by decide
  rw [this]

theorem rawLines_tokens : ∀ (ls : List String) (L : Nat), (∀ s ∈ ls, TokLine s) →
    ∀ r ∈ rawLines ls L, ∃ t ln, r = Raw.tok t ln
  | [], _, _, r, hr => by simp [rawLines] at hr
  | s :: rest, L, h, r, hr => by
    simp only [rawLines, List.mem_append] at hr
    rcases hr with hr | hr
    · exact h s (by simp) L r hr
    · exact rawLines_tokens rest (L + 1) (fun x hx => h x (by simp [hx])) r hr

theorem noNL_of_all (s : String) (h : s.toList.all (· != '\n') = true) : NoNL s.toList := by
  intro c hc he
  subst he
  simp only [List.all_eq_true] at h
  have := h _ hc
  simp at this

theorem noNL_importLine (d : String × String) (hb : PlainBody d.1.toList)
    (hm : d.2 = "" ∨ d.2 = "public " ∨ d.2 = "weak ") : NoNL (importLine d).toList := by
  unfold importLine
  simp only [String.toList_append]
  have h2 : NoNL d.2.toList := by
    rcases hm with h | h | h <;> rw [h] <;> exact noNL_of_all _ (by decide)
  have hbn : NoNL d.1.toList := fun c hc => (hb c hc).2.2
  have app : ∀ {a b : List Char}, NoNL a → NoNL b → NoNL (a ++ b) := by
    intro a b ha hb' c hc
    rcases List.mem_append.mp hc with h | h
    · exact ha c h
    · exact hb' c h
  exact app (app (app (app (noNL_of_all "import " (by decide)) h2) (noNL_of_all "\"" (by decide))) hbn)
    (noNL_of_all "\";" (by decide))

theorem tokLine_importLine (d : String × String) (hb : PlainBody d.1.toList)
    (hm : d.2 = "" ∨ d.2 = "public " ∨ d.2 = "weak ") : TokLine (importLine d) := by
  intro L r hr
  rw [lexL_importLine d L hb hm] at hr
  simp only [List.mem_cons, List.mem_append, List.not_mem_nil, or_false] at hr
  rcases hr with rfl | hr | rfl | rfl
  · exact ⟨_, _, rfl⟩
  · unfold modRaws at hr
    split at hr
    · simp only [List.mem_singleton] at hr; exact ⟨_, _, hr⟩
    · split at hr
      · simp only [List.mem_singleton] at hr; exact ⟨_, _, hr⟩
      · simp at hr
  · exact ⟨_, _, rfl⟩
  · exact ⟨_, _, rfl⟩


/-- the lines of the file -/
theorem lines_simple (gen : String) (t : FileD) (h : SimpleFile gen t) :
    run (fileCmds gen t) false = ("// " ++ gen) :: "" :: (exec (restCmds t) false).1 := by
  rw [run_eq_exec, fileCmds_simple gen t h, exec_append]
  simp [exec]

theorem cmds_P_of_noCh {x : Char} (P : String → Prop) (hP : ∀ s, LineOk x s → P s) (cmds : List Cmd)
    (h : CmdsNoCh x cmds) : ∀ c ∈ cmds, match c with | .line s => P s | .endl s => P s | .gap => True := by
  intro c hc
  have := h c hc
  cases c with
  | line s => exact hP s this
  | endl s => exact hP s this
  | gap => trivial

theorem sortImports_mem (t : FileD) (d : String × String) (hd : d ∈ sortImports t.imports) : d ∈ t.imports :=
  (sortImports_perm t.imports).subset hd

theorem noCh_packageLine {x : Char} (hx : Safe x) (hp : NoCh x "package ".toList) (t : FileD) (gen : String)
    (h : SimpleFile gen t) : NoCh x (packageLine t).toList := by
  obtain ⟨first, rest, hf, hr, hpkg⟩ := h.pkg
  unfold packageLine
  rw [hpkg]
  simp only [String.toList_append]
  exact NoCh.append hx (NoCh.append hx hp (noCh_tyStr hx false first rest hf hr)) (noCh_lit hx ";" (by simp))

/-- the header lines hold tokens only -/
theorem hdCmds_tok (gen : String) (t : FileD) (h : SimpleFile gen t) : TokCmds (hdCmds t) := by
  have hpk : ∀ x : Char, Safe x → NoCh x "package ".toList → NoCh x (packageLine t).toList :=
    fun x hx hp => noCh_packageLine hx hp t gen h
  intro c hc
  unfold hdCmds importCmds at hc
  simp only [List.mem_append, List.mem_cons, List.mem_singleton, List.not_mem_nil, or_false] at hc
  rcases hc with (rfl | rfl | rfl | rfl) | hc | rfl
  · exact ⟨tokLine_of_noSlash _ (by intro c hc; revert c; decide), noNL_of_all _ (by decide)⟩
  · exact ⟨tokLine_blank, noNL_of_all "" (by decide)⟩
  · exact ⟨tokLine_of_noSlash _ (hpk '/' safe_slash (by intro c hc; revert c; decide)),
      hpk '\n' safe_nl (noNL_of_all "package " (by decide))⟩
  · trivial
  · split at hc
    · simp at hc
    · simp only [List.mem_append, List.mem_map, List.mem_singleton] at hc
      rcases hc with ⟨d, hd, rfl⟩ | rfl
      · obtain ⟨hb, hm⟩ := h.imports d (sortImports_mem t d hd)
        exact ⟨tokLine_importLine d hb hm, noNL_importLine d hb hm⟩
      · trivial
  · trivial

theorem lex_text (gen : String) (t : FileD) (h : SimpleFile gen t) :
    ∃ (cm0 : Cm) (N : Nat), lex (String.join ((run (fileCmds gen t) false).map (· ++ "\n"))) =
      ⟨.ident "syntax", 2, cm0⟩ :: ((toksOf (hdCmds t) false 2).drop 1 ++
        (kT 0 t.items true 0 0 true (itemsStart t) ++ [T .eof N])) := by
  have hplain := SimpleTops.plain _ h.items
  have hownl := SimpleTops.own _ h.items
  have htokH := hdCmds_tok gen t h
  -- no line holds a line break
  have hnl1 : ∀ s ∈ (exec (restCmds t) false).1, NoNL s.toList := by
    rw [restCmds_eq]
    apply exec_lines _ _ (fun s => NoNL s.toList) (noNL_of_all "" (by decide))
    have := CmdsNoNL.append htokH.noNL (elems_noNL t.items hplain hownl 0 true 0 0)
    intro c hc
    have h1 := this c hc
    cases c with
    | line s => exact h1
    | endl s => exact h1
    | gap => trivial
  have hgen : NoNL ("// " ++ gen).toList := by
    simp only [String.toList_append]
    intro c hc
    rcases List.mem_append.mp hc with h1 | h1
    · exact noNL_of_all "// " (by decide) c h1
    · exact h.gen c h1
  have hall : ∀ s ∈ run (fileCmds gen t) false, NoNL s.toList := by
    rw [lines_simple gen t h]
    intro s hs
    simp only [List.mem_cons] at hs
    rcases hs with rfl | rfl | hs
    · exact hgen
    · exact noNL_of_all "" (by decide)
    · exact hnl1 s hs
  -- the raw items
  unfold lex
  rw [lexAux_eq_lexL _ _ _ (by omega), text_toList, lexL_text _ 0 hall, lines_simple gen t h]
  have hfirst : lexL ("// " ++ gen).toList 0 = [.comment (String.ofList (' ' :: gen.toList)) 0] := by
    have : ("// " ++ gen).toList = '/' :: '/' :: (' ' :: gen.toList) := by
      simp only [String.toList_append]; rfl
    rw [this]
    apply lexL_comment
    intro c hc
    rcases List.mem_cons.mp hc with h1 | h1
    · rw [h1]; decide
    · exact h.gen c h1
  have hblank : lexL "".toList 1 = [] := by
    have : ("".toList : List Char) = [] := by decide
    rw [this, lexL_nil]
  -- the raw items of everything below the generator comment
  have hrest : rawLines (exec (restCmds t) false).1 2 =
      rawsC (hdCmds t) false 2 ++ rawsC (elemsCmds 0 t.items true 0 0) true (itemsStart t) := by
    have := rawsC_append (hdCmds t) (elemsCmds 0 t.items true 0 0) false 2
    rw [(exec_hdCmds t).1, (exec_hdCmds t).2, ← restCmds_eq] at this
    exact this
  -- the header starts with `syntax`
  obtain ⟨Hd', hHd⟩ : ∃ Hd', hdCmds t = Cmd.line syntaxLine :: Hd' := ⟨_, rfl⟩
  have hsyn : rawsC (hdCmds t) false 2 =
      .tok (.ident "syntax") 2 :: ([.tok (.sym '=') 2, .tok (.str "\"proto3\"") 2, .tok (.sym ';') 2] ++ rawsC Hd' false 3) := by
    rw [hHd, rawsC_line, lexL_syntaxLine]
    rfl
  -- the header through `attach`, then the elements
  obtain ⟨pl1, ll1, hb1, heq1⟩ := attach_piece (hdCmds t) htokH false 2 0 0
    (rawsC (elemsCmds 0 t.items true 0 0) true (itemsStart t) ++ []) (by omega)
  rw [(exec_hdCmds t).2] at hb1
  obtain ⟨pl2, ll2, _, heq2⟩ := bridge_kids t.items hplain hownl 0 true 0 0 true (itemsStart t) pl1 ll1 [] hb1
  rw [heq2] at heq1
  have htoksH : toksOf (hdCmds t) false 2 = T (.ident "syntax") 2 :: (toksOf (hdCmds t) false 2).drop 1 := by
    rw [toksOf_hdCmds]
    unfold syntaxLine
    rw [lineToks_syntax]
    rfl
  rw [hsyn, htoksH] at heq1
  simp only [List.cons_append, List.nil_append, List.append_assoc, List.append_nil, attach, attributeCm_nil] at heq1
  have heq3 := (List.cons.inj heq1).2
  simp only [rawLines, hfirst, hblank, List.nil_append, List.cons_append, hrest, hsyn, attach, List.append_assoc,
    List.append_nil, attributeCm_nil]
  refine ⟨attributeCm none [(String.ofList (' ' :: gen.toList), 0)] (Grammar.Tok.ident "syntax") 2, ll2 + 1, ?_⟩
  congr 1

/-! ## the theorem -/

theorem lexLines_imports_length : ∀ (I : List (String × String)) (L : Nat),
    (∀ i ∈ I, PlainBody i.1.toList ∧ (i.2 = "" ∨ i.2 = "public " ∨ i.2 = "weak ")) →
    I.length ≤ (lexLines (I.map importLine) L).length
  | [], _, _ => by simp [lexLines]
  | d :: r, L, h => by
    obtain ⟨hb, hm⟩ := h d (by simp)
    have ih := lexLines_imports_length r (L + 1) (fun i hi => h i (by simp [hi]))
    simp only [List.map_cons, lexLines, List.length_append, List.length_cons, lineToks_import d L hb hm, importToks]
    omega

/-- **The grammar model reads the printed text of a simple file back as that file**, with the
source lines of the text. -/
theorem parse_print (gen : String) (t : FileD) (h : SimpleFile gen t) :
    parseFile (String.join ((run (fileCmds gen t) false).map (· ++ "\n"))) = some (rdFile t) := by
  obtain ⟨cm0, N, hlex⟩ := lex_text gen t h
  obtain ⟨first, rest, hf, hr, hpkg⟩ := h.pkg
  have hI : ∀ i ∈ sortImports t.imports, PlainBody i.1.toList ∧ (i.2 = "" ∨ i.2 = "public " ∨ i.2 = "weak ") :=
    fun i hi => h.imports i (sortImports_mem t i hi)
  -- the tokens
  have hX := toksOf_hdCmds t
  have hsyn : lineToks syntaxLine 2 =
      [T (.ident "syntax") 2, T (.sym '=') 2, T (.str "\"proto3\"") 2, T (.sym ';') 2] := lineToks_syntax 2
  have hpk : lineToks (packageLine t) 4 = T (.ident "package") 4 :: (tyToks false first rest 4 ++ [T (.sym ';') 4]) := by
    unfold packageLine; rw [hpkg]; exact lineToks_package first rest 4 hf hr
  rw [hsyn, hpk] at hX
  have hdrop : (toksOf (hdCmds t) false 2).drop 1 ++ (kT 0 t.items true 0 0 true (itemsStart t) ++ [T .eof N]) =
      T (.sym '=') 2 :: T (.str "\"proto3\"") 2 :: T (.sym ';') 2 ::
        (T (.ident "package") 4 :: (tyToks false first rest 4 ++ T (.sym ';') 4 ::
          (lexLines ((sortImports t.imports).map importLine) 6 ++
            (kT 0 t.items true 0 0 true (itemsStart t) ++ [T .eof N])))) := by
    rw [hX]; simp
  -- fuel
  have hc1 := count_tops t.items h.items 0 true 0 0 (itemsStart t) true
  have hc2 := lexLines_imports_length (sortImports t.imports) 6 hI
  have hlenI : (sortImports t.imports).length = t.imports.length := (sortImports_perm t.imports).length_eq
  unfold parseFile
  simp only [hlex, hdrop]
  have hlen : t.items.length + needAll t.items + (sortImports t.imports).length + 3 ≤
      (⟨Grammar.Tok.ident "syntax", 2, cm0⟩ :: T (.sym '=') 2 :: T (.str "\"proto3\"") 2 :: T (.sym ';') 2 ::
        (T (.ident "package") 4 :: (tyToks false first rest 4 ++ T (.sym ';') 4 ::
          (lexLines ((sortImports t.imports).map importLine) 6 ++
            (kT 0 t.items true 0 0 true (itemsStart t) ++ [T .eof N]))))).length := by
    simp only [List.length_cons, List.length_append]
    omega
  generalize hL : (⟨Grammar.Tok.ident "syntax", 2, cm0⟩ :: T (.sym '=') 2 :: T (.str "\"proto3\"") 2 :: T (.sym ';') 2 ::
        (T (.ident "package") 4 :: (tyToks false first rest 4 ++ T (.sym ';') 4 ::
          (lexLines ((sortImports t.imports).map importLine) 6 ++
            (kT 0 t.items true 0 0 true (itemsStart t) ++ [T .eof N]))))).length = len at hlen
  obtain ⟨F5, hF5, hb⟩ : ∃ F5, len + 1 = ((((F5 + 1) + t.items.length) + (sortImports t.imports).length) + 1) + 1 ∧
      needAll t.items ≤ F5 + 1 :=
    ⟨len - t.items.length - (sortImports t.imports).length - 2, by omega, by omega⟩
  rw [hF5, topLevel_syntax, topLevel_package _ first rest 4 _ _ hf,
    top_imports (sortImports t.imports) 6 _ _ _ hI,
    top_tops t.items h.items true 0 0 (itemsStart t) true (F5 + 1) _ _ rfl hb, topLevel_eof]
  simp only [List.nil_append, rdFile, mkOpts, groupOpts, unlocateShared, List.map_nil, hpkg, if_true]

/-- … and printing what was read reproduces the text. -/
theorem reprint_simple (gen : String) (t : FileD) (h : SimpleFile gen t) :
    printFile gen (rdFile t) = run (fileCmds gen t) false :=
  printFile_relaidL gen t (rdFile t) (simple_quiet gen t h) (relaid_rdFile gen t h)

end J5V.Print.Reparse
