import J5V.Print.TextString
/-! Lemmas about `J5V.Print.TextString` (core only). -/
namespace J5V.Print.TextString

theorem hexVal_hexDigit (d : Nat) (h : d < 16) : hexVal (hexDigit d) = some d := by
  unfold hexDigit hexVal
  split
  · have h1 : 48 ≤ 48 + d ∧ 48 + d ≤ 57 := by omega
    simp [h1]
  · have h1 : ¬ (48 ≤ 87 + d ∧ 87 + d ≤ 57) := by omega
    have h2 : 97 ≤ 87 + d ∧ 87 + d ≤ 102 := by omega
    simp [h1, h2]

theorem hexDigit_ne (d : Nat) (h : d < 16) : hexDigit d ≠ 34 ∧ hexDigit d ≠ 92 := by
  unfold hexDigit; split <;> omega

theorem goHexPad2 (r : Nat) (h : r < 256) :
    goHexPad 2 r = [hexDigit (r / 16), hexDigit (r % 16)] := by
  unfold goHexPad hexWidth
  split
  · have h1 : r / 16 = 0 := by omega
    have h2 : r % 16 = r := by omega
    simp [hexFixed, h1, h2, hexDigit, List.replicate]
  · have : r < 0x100 := h
    have h1 : r / 16 % 16 = r / 16 := by omega
    simp [this, hexFixed, h1, List.replicate]

theorem goHexPad4 (r : Nat) (h : r < 65536) :
    goHexPad 4 r = [hexDigit (r / 4096 % 16), hexDigit (r / 256 % 16), hexDigit (r / 16 % 16), hexDigit (r % 16)] := by
  unfold goHexPad hexWidth
  split
  · have h1 : r / 4096 % 16 = 0 := by omega
    have h2 : r / 256 % 16 = 0 := by omega
    have h3 : r / 16 % 16 = 0 := by omega
    simp [hexFixed, h1, h2, h3, hexDigit, List.replicate]
  · split
    · have h1 : r / 4096 % 16 = 0 := by omega
      have h2 : r / 256 % 16 = 0 := by omega
      simp [hexFixed, h1, h2, hexDigit, List.replicate]
    · split
      · have h1 : r / 4096 % 16 = 0 := by omega
        simp [hexFixed, h1, hexDigit, List.replicate]
      · have : r < 0x10000 := h
        simp [this, hexFixed, List.replicate]

theorem goHexPad8 (r : Nat) (h : r < 0x110000) :
    goHexPad 8 r = [hexDigit (r / 268435456 % 16), hexDigit (r / 16777216 % 16), hexDigit (r / 1048576 % 16),
      hexDigit (r / 65536 % 16), hexDigit (r / 4096 % 16), hexDigit (r / 256 % 16), hexDigit (r / 16 % 16),
      hexDigit (r % 16)] := by
  have h7 : r / 268435456 % 16 = 0 := by omega
  have h6 : r / 16777216 % 16 = 0 := by omega
  unfold goHexPad hexWidth
  split
  · have h5 : r / 1048576 % 16 = 0 := by omega
    have h4 : r / 65536 % 16 = 0 := by omega
    have h3 : r / 4096 % 16 = 0 := by omega
    have h2 : r / 256 % 16 = 0 := by omega
    have h1 : r / 16 % 16 = 0 := by omega
    simp [hexFixed, h1, h2, h3, h4, h5, h6, h7, hexDigit, List.replicate]
  · split
    · have h5 : r / 1048576 % 16 = 0 := by omega
      have h4 : r / 65536 % 16 = 0 := by omega
      have h3 : r / 4096 % 16 = 0 := by omega
      have h2 : r / 256 % 16 = 0 := by omega
      simp [hexFixed, h2, h3, h4, h5, h6, h7, hexDigit, List.replicate]
    · split
      · have h5 : r / 1048576 % 16 = 0 := by omega
        have h4 : r / 65536 % 16 = 0 := by omega
        have h3 : r / 4096 % 16 = 0 := by omega
        simp [hexFixed, h3, h4, h5, h6, h7, hexDigit, List.replicate]
      · split
        · have h5 : r / 1048576 % 16 = 0 := by omega
          have h4 : r / 65536 % 16 = 0 := by omega
          simp [hexFixed, h4, h5, h6, h7, hexDigit, List.replicate]
        · split
          · have h5 : r / 1048576 % 16 = 0 := by omega
            simp [hexFixed, h5, h6, h7, hexDigit, List.replicate]
          · split
            · simp [hexFixed, h6, h7, hexDigit, List.replicate]
            · omega

/-! ## UTF-8: what `decodeRune` accepts, `encodeRune` writes back -/

theorem isCont_iff (b : Nat) : isCont b = true ↔ 0x80 ≤ b ∧ b ≤ 0xBF := by
  unfold isCont; simp

/-- a well-formed multi-byte sequence: the rune is a scalar value ≥ 0x80 and encodes to the same bytes -/
theorem decode_encode (l : List Nat) (r n : Nat) (h : decodeRune l = some (r, n)) (hr : 0x80 ≤ r) :
    encodeRune r = l.take n ∧ r ≤ 0x10FFFF ∧ ¬ (0xD800 ≤ r ∧ r ≤ 0xDFFF) := by
  unfold decodeRune at h
  split at h
  · simp at h
  · rename_i b0 t
    split at h
    · simp at h; omega
    · split at h
      · rename_i hb0
        split at h
        · rename_i b1 t'
          split at h
          · rename_i hc
            rw [isCont_iff] at hc
            simp only [Option.some.injEq, Prod.mk.injEq] at h
            obtain ⟨rfl, rfl⟩ := h
            unfold encodeRune
            have h1 : ¬ (b0 % 32 * 64 + b1 % 64 < 128) := by omega
            have h2 : b0 % 32 * 64 + b1 % 64 < 2048 := by omega
            simp only [h1, h2, if_false, if_true]
            refine ⟨?_, by omega, by omega⟩
            simp only [List.take_succ_cons, List.take_zero]
            congr 1
            · omega
            · congr 1; omega
          · simp at h
        · simp at h
      · split at h
        · rename_i hb0
          split at h
          · rename_i b1 b2 t'
            split at h
            · rename_i hc
              obtain ⟨hlo, hhi, hc2⟩ := hc
              rw [isCont_iff] at hc2
              simp only [Option.some.injEq, Prod.mk.injEq] at h
              obtain ⟨rfl, rfl⟩ := h
              have hlo' : (if b0 = 0xE0 then 0xA0 else 0x80) ≤ b1 := hlo
              have hhi' : b1 ≤ (if b0 = 0xED then 0x9F else 0xBF) := hhi
              clear hlo hhi
              have hb1 : 0x80 ≤ b1 ∧ b1 ≤ 0xBF := by
                constructor
                · split at hlo' <;> omega
                · split at hhi' <;> omega
              have hE0 : b0 = 0xE0 → 0xA0 ≤ b1 := by intro e; simp [e] at hlo'; exact hlo'
              have hED : b0 = 0xED → b1 ≤ 0x9F := by intro e; simp [e] at hhi'; exact hhi'
              unfold encodeRune
              have h1 : ¬ (b0 % 16 * 4096 + b1 % 64 * 64 + b2 % 64 < 128) := by omega
              have h2 : ¬ (b0 % 16 * 4096 + b1 % 64 * 64 + b2 % 64 < 2048) := by
                by_cases e : b0 = 0xE0
                · have := hE0 e; omega
                · omega
              have h3 : ¬ ((0xD800 ≤ b0 % 16 * 4096 + b1 % 64 * 64 + b2 % 64 ∧
                  b0 % 16 * 4096 + b1 % 64 * 64 + b2 % 64 ≤ 0xDFFF) ∨
                  0x10FFFF < b0 % 16 * 4096 + b1 % 64 * 64 + b2 % 64) := by
                by_cases e : b0 = 0xED
                · have := hED e; omega
                · omega
              have h4 : b0 % 16 * 4096 + b1 % 64 * 64 + b2 % 64 < 65536 := by omega
              simp only [h1, h2, h3, h4, if_false, if_true]
              refine ⟨?_, by omega, by omega⟩
              simp only [List.take_succ_cons, List.take_zero]
              congr 1
              · omega
              · congr 1
                · omega
                · congr 1; omega
            · simp at h
          · simp at h
        · split at h
          · rename_i hb0
            split at h
            · rename_i b1 b2 b3 t'
              split at h
              · rename_i hc
                obtain ⟨hlo, hhi, hc2, hc3⟩ := hc
                rw [isCont_iff] at hc2 hc3
                simp only [Option.some.injEq, Prod.mk.injEq] at h
                obtain ⟨rfl, rfl⟩ := h
                have hlo' : (if b0 = 0xF0 then 0x90 else 0x80) ≤ b1 := hlo
                have hhi' : b1 ≤ (if b0 = 0xF4 then 0x8F else 0xBF) := hhi
                clear hlo hhi
                have hb1 : 0x80 ≤ b1 ∧ b1 ≤ 0xBF := by
                  constructor
                  · split at hlo' <;> omega
                  · split at hhi' <;> omega
                have hF0 : b0 = 0xF0 → 0x90 ≤ b1 := by intro e; simp [e] at hlo'; exact hlo'
                have hF4 : b0 = 0xF4 → b1 ≤ 0x8F := by intro e; simp [e] at hhi'; exact hhi'
                unfold encodeRune
                have hge : 65536 ≤ b0 % 8 * 262144 + b1 % 64 * 4096 + b2 % 64 * 64 + b3 % 64 := by
                  by_cases e : b0 = 0xF0
                  · have := hF0 e; omega
                  · omega
                have hle : b0 % 8 * 262144 + b1 % 64 * 4096 + b2 % 64 * 64 + b3 % 64 ≤ 0x10FFFF := by
                  by_cases e : b0 = 0xF4
                  · have := hF4 e; omega
                  · omega
                have h1 : ¬ (b0 % 8 * 262144 + b1 % 64 * 4096 + b2 % 64 * 64 + b3 % 64 < 128) := by omega
                have h2 : ¬ (b0 % 8 * 262144 + b1 % 64 * 4096 + b2 % 64 * 64 + b3 % 64 < 2048) := by omega
                have h3 : ¬ ((0xD800 ≤ b0 % 8 * 262144 + b1 % 64 * 4096 + b2 % 64 * 64 + b3 % 64 ∧
                    b0 % 8 * 262144 + b1 % 64 * 4096 + b2 % 64 * 64 + b3 % 64 ≤ 0xDFFF) ∨
                    0x10FFFF < b0 % 8 * 262144 + b1 % 64 * 4096 + b2 % 64 * 64 + b3 % 64) := by omega
                have h4 : ¬ (b0 % 8 * 262144 + b1 % 64 * 4096 + b2 % 64 * 64 + b3 % 64 < 65536) := by omega
                simp only [h1, h2, h3, h4, if_false]
                refine ⟨?_, by omega, by omega⟩
                simp only [List.take_succ_cons, List.take_zero]
                congr 1
                · omega
                · congr 1
                  · omega
                  · congr 1
                    · omega
                    · congr 1; omega
              · simp at h
            · simp at h
          · simp at h

/-! ## the reader on each piece the encoder emits -/

theorem unesc_ascii (c : Nat) (X : List Nat) (h1 : 32 ≤ c) (h2 : c < 127) (h3 : c ≠ 34) (h4 : c ≠ 92) :
    unescBody (c :: X) = (unescBody X).map (c :: ·) := by
  rw [unescBody.eq_def]
  split
  · simp at *
  · rename_i heq; simp at heq; omega
  · rename_i heq; simp at heq; omega
  · rename_i heq; simp at heq; omega
  · rename_i heq; simp at heq; omega
  · rename_i b t _ _ _ _ heq
    simp only [List.cons.injEq] at heq
    obtain ⟨rfl, rfl⟩ := heq
    have hd : decodeRune (c :: X) = some (c, 1) := by
      unfold decodeRune
      have : c < 0x80 := by omega
      simp [this]
    split
    · rename_i r n hd'
      rw [hd] at hd'
      simp only [Option.some.injEq, Prod.mk.injEq] at hd'
      obtain ⟨rfl, rfl⟩ := hd'
      have : c < 0x80 := by omega
      simp [encodeRune, this]
    · rename_i hd'
      rw [hd] at hd'
      simp at hd'

theorem unesc_simple (c v : Nat) (X : List Nat)
    (hc : (c = 34 ∧ v = 34) ∨ (c = 92 ∧ v = 92) ∨ (c = 110 ∧ v = 10) ∨ (c = 114 ∧ v = 13) ∨ (c = 116 ∧ v = 9)) :
    unescBody (92 :: c :: X) = (unescBody X).map (v :: ·) := by
  rw [unescBody.eq_def]
  rcases hc with ⟨rfl, rfl⟩ | ⟨rfl, rfl⟩ | ⟨rfl, rfl⟩ | ⟨rfl, rfl⟩ | ⟨rfl, rfl⟩ <;> simp [isOct]

theorem unesc_x (a b : Nat) (X : List Nat) (ha : a < 16) (hb : b < 16) :
    unescBody (92 :: 120 :: hexDigit a :: hexDigit b :: X) = (unescBody X).map ((a * 16 + b) :: ·) := by
  rw [unescBody.eq_def]
  have h1 := hexDigit_ne a ha
  simp [hexVal_hexDigit a ha, hexVal_hexDigit b hb, h1.1, h1.2]

theorem hexVals4 (a b c d : Nat) (ha : a < 16) (hb : b < 16) (hc : c < 16) (hd : d < 16) :
    hexVals [hexDigit a, hexDigit b, hexDigit c, hexDigit d] = some (a * 4096 + b * 256 + c * 16 + d) := by
  simp only [hexVals, hexVal_hexDigit a ha, hexVal_hexDigit b hb, hexVal_hexDigit c hc, hexVal_hexDigit d hd,
    List.length_cons, List.length_nil, Nat.zero_add, Nat.reduceAdd, Nat.reducePow, Option.some.injEq]
  omega

theorem hexVals8 (a b c d e f g h : Nat) (ha : a < 16) (hb : b < 16) (hc : c < 16) (hd : d < 16)
    (he : e < 16) (hf : f < 16) (hg : g < 16) (hh : h < 16) :
    hexVals [hexDigit a, hexDigit b, hexDigit c, hexDigit d, hexDigit e, hexDigit f, hexDigit g, hexDigit h] =
      some (a * 268435456 + b * 16777216 + c * 1048576 + d * 65536 + e * 4096 + f * 256 + g * 16 + h) := by
  simp only [hexVals, hexVal_hexDigit a ha, hexVal_hexDigit b hb, hexVal_hexDigit c hc, hexVal_hexDigit d hd,
    hexVal_hexDigit e he, hexVal_hexDigit f hf, hexVal_hexDigit g hg, hexVal_hexDigit h hh,
    List.length_cons, List.length_nil, Nat.zero_add, Nat.reduceAdd, Nat.reducePow, Option.some.injEq]
  omega

theorem unesc_u (a b c d : Nat) (X : List Nat) (ha : a < 16) (hb : b < 16) (hc : c < 16) (hd : d < 16) :
    unescBody (92 :: 117 :: hexDigit a :: hexDigit b :: hexDigit c :: hexDigit d :: X) =
      (unescBody X).map (encodeRune (a * 4096 + b * 256 + c * 16 + d) ++ ·) := by
  rw [unescBody.eq_def]
  have h1 := hexDigit_ne a ha
  have h2 := hexDigit_ne b hb
  have h3 := hexDigit_ne c hc
  have h4 := hexDigit_ne d hd
  simp [hexVals4 a b c d ha hb hc hd, h1.1, h1.2, h2.1, h2.2, h3.1, h3.2, h4.1, h4.2, isOct]

theorem unesc_U (a b c d e f g h : Nat) (X : List Nat) (ha : a < 16) (hb : b < 16) (hc : c < 16) (hd : d < 16)
    (he : e < 16) (hf : f < 16) (hg : g < 16) (hh : h < 16)
    (hv : a * 268435456 + b * 16777216 + c * 1048576 + d * 65536 + e * 4096 + f * 256 + g * 16 + h ≤ 0x10ffff) :
    unescBody (92 :: 85 :: hexDigit a :: hexDigit b :: hexDigit c :: hexDigit d :: hexDigit e :: hexDigit f ::
        hexDigit g :: hexDigit h :: X) =
      (unescBody X).map (encodeRune
        (a * 268435456 + b * 16777216 + c * 1048576 + d * 65536 + e * 4096 + f * 256 + g * 16 + h) ++ ·) := by
  rw [unescBody.eq_def]
  have h1 := hexDigit_ne a ha
  have h2 := hexDigit_ne b hb
  have h3 := hexDigit_ne c hc
  have h4 := hexDigit_ne d hd
  have h5 := hexDigit_ne e he
  have h6 := hexDigit_ne f hf
  have h7 := hexDigit_ne g hg
  have h8 := hexDigit_ne h hh
  have hv' : ¬ (a * 268435456 + b * 16777216 + c * 1048576 + d * 65536 + e * 4096 + f * 256 + g * 16 + h > 0x10ffff) := by
    omega
  simp [hexVals8 a b c d e f g h ha hb hc hd he hf hg hh, h1.1, h1.2, h2.1, h2.2, h3.1, h3.2, h4.1, h4.2,
    h5.1, h5.2, h6.1, h6.2, h7.1, h7.2, h8.1, h8.2, isOct, hv']

/-- a decoded rune is either the single ASCII byte or at least 0x80 -/
theorem decode_ascii_or_big' (l : List Nat) (r n : Nat) (h : decodeRune l = some (r, n)) :
    (∃ t, l = r :: t ∧ n = 1 ∧ r < 0x80) ∨ 0x80 ≤ r := by
  unfold decodeRune at h
  split at h
  · simp at h
  · rename_i b0 t
    split at h
    · rename_i hb
      simp only [Option.some.injEq, Prod.mk.injEq] at h
      obtain ⟨rfl, rfl⟩ := h
      exact Or.inl ⟨t, rfl, rfl, hb⟩
    · right
      split at h
      · split at h
        · split at h
          · simp only [Option.some.injEq, Prod.mk.injEq] at h
            omega
          · simp at h
        · simp at h
      · split at h
        · split at h
          · rename_i b1 b2 t'
            split at h
            · rename_i hc
              simp only [Option.some.injEq, Prod.mk.injEq] at h
              have hlo : lo3 b0 ≤ b1 := hc.1
              have hhi : b1 ≤ hi3 b0 := hc.2.1
              unfold lo3 at hlo
              unfold hi3 at hhi
              split at hlo <;> split at hhi <;> omega
            · simp at h
          · simp at h
        · split at h
          · split at h
            · rename_i b1 b2 b3 t'
              split at h
              · rename_i hc
                simp only [Option.some.injEq, Prod.mk.injEq] at h
                have hlo : lo4 b0 ≤ b1 := hc.1
                have hhi : b1 ≤ hi4 b0 := hc.2.1
                unfold lo4 at hlo
                unfold hi4 at hhi
                split at hlo <;> split at hhi <;> omega
              · simp at h
            · simp at h
          · simp at h

theorem decode_ascii_or_big (b0 : Nat) (t : List Nat) (r n : Nat) (h : decodeRune (b0 :: t) = some (r, n)) :
    (r = b0 ∧ n = 1 ∧ b0 < 0x80) ∨ 0x80 ≤ r := by
  rcases decode_ascii_or_big' _ r n h with ⟨t', hl, hn, hr⟩ | hbig
  · simp only [List.cons.injEq] at hl
    exact Or.inl ⟨hl.1.symm, hn, hl.1 ▸ hr⟩
  · exact Or.inr hbig

/-- one loop iteration of the encoder is undone by the reader, whatever follows -/
theorem unesc_escStep (b0 : Nat) (t X : List Nat) (hb : b0 < 256) :
    unescBody ((escStep (b0 :: t)).1 ++ X) =
      (unescBody X).map ((b0 :: t).take (escStep (b0 :: t)).2 ++ ·) := by
  unfold escStep
  simp only []
  split
  · -- ill-formed byte: \xHH
    rw [goHexPad2 b0 hb]
    simp only [List.cons_append, List.nil_append]
    rw [unesc_x (b0 / 16) (b0 % 16) X (by omega) (by omega)]
    have : b0 / 16 * 16 + b0 % 16 = b0 := by omega
    simp [this]
  · rename_i r n hd
    rcases decode_ascii_or_big b0 t r n hd with ⟨rfl, rfl, hlt⟩ | hbig
    · -- ASCII
      split
      · rename_i hesc
        split
        · rename_i hq
          simp only [List.cons_append, List.nil_append]
          rw [unesc_simple r r X (by omega)]
          simp
        · split
          · rename_i h10; subst h10
            simp only [List.cons_append, List.nil_append]
            rw [unesc_simple 110 10 X (by omega)]; simp
          · split
            · rename_i h13; subst h13
              simp only [List.cons_append, List.nil_append]
              rw [unesc_simple 114 13 X (by omega)]; simp
            · split
              · rename_i h9; subst h9
                simp only [List.cons_append, List.nil_append]
                rw [unesc_simple 116 9 X (by omega)]; simp
              · rw [goHexPad2 r hb]
                simp only [List.cons_append, List.nil_append]
                rw [unesc_x (r / 16) (r % 16) X (by omega) (by omega)]
                have : r / 16 * 16 + r % 16 = r := by omega
                simp [this]
      · rename_i hesc
        have hnb : ¬ (0x80 ≤ r) := by omega
        simp only [hnb, if_false, List.cons_append, List.nil_append]
        rw [unesc_ascii r X (by omega) (by omega) (by omega) (by omega)]
        simp
    · -- multi-byte
      obtain ⟨henc, hmax, hsur⟩ := decode_encode (b0 :: t) r n hd hbig
      have hne : ¬ (r < 32 ∨ r = 34 ∨ r = 92 ∨ r = 0x7f) := by omega
      simp only [hne, if_false, hbig, if_true]
      split
      · rename_i h16
        rw [goHexPad4 r (by omega)]
        simp only [List.cons_append, List.nil_append]
        rw [unesc_u (r / 4096 % 16) (r / 256 % 16) (r / 16 % 16) (r % 16) X (by omega) (by omega) (by omega) (by omega)]
        have : r / 4096 % 16 * 4096 + r / 256 % 16 * 256 + r / 16 % 16 * 16 + r % 16 = r := by omega
        rw [this, henc]
      · rw [goHexPad8 r (by omega)]
        simp only [List.cons_append, List.nil_append]
        have hv : r / 268435456 % 16 * 268435456 + r / 16777216 % 16 * 16777216 + r / 1048576 % 16 * 1048576 +
            r / 65536 % 16 * 65536 + r / 4096 % 16 * 4096 + r / 256 % 16 * 256 + r / 16 % 16 * 16 + r % 16 = r := by
          omega
        rw [unesc_U (r / 268435456 % 16) (r / 16777216 % 16) (r / 1048576 % 16) (r / 65536 % 16) (r / 4096 % 16)
          (r / 256 % 16) (r / 16 % 16) (r % 16) X (by omega) (by omega) (by omega) (by omega) (by omega) (by omega)
          (by omega) (by omega) (by omega)]
        rw [hv, henc]

theorem escStep_le (b0 : Nat) (t : List Nat) : (escStep (b0 :: t)).2 ≤ (b0 :: t).length := by
  unfold escStep
  simp only []
  split
  · simp
  · rename_i r n hd
    have := (decodeRune_bounds hd).2
    repeat' split
    all_goals simpa using this

/-- the body of the literal, closed by its quote, reads back as the bytes it was made from -/
theorem unesc_escBody : ∀ (n : Nat) (s : List Nat), s.length = n → IsBytes s →
    unescBody (escBody s ++ [34]) = some s := by
  intro n
  induction n using Nat.strongRecOn with
  | _ n ih =>
    intro s hlen hb
    match s with
    | [] =>
      rw [escBody]
      rw [unescBody.eq_def]
      simp
    | b0 :: t =>
      rw [escBody]
      rw [List.append_assoc]
      have hb0 : b0 < 256 := hb b0 (by simp)
      rw [unesc_escStep b0 t _ hb0]
      have hpos := escStep_pos (b0 :: t)
      have hle := escStep_le b0 t
      have hdrop : IsBytes ((b0 :: t).drop (escStep (b0 :: t)).2) := by
        intro b hbm
        exact hb b (List.mem_of_mem_drop hbm)
      have hlt : ((b0 :: t).drop (escStep (b0 :: t)).2).length < n := by
        rw [List.length_drop, hlen]
        have : 0 < n := by rw [← hlen]; simp
        omega
      rw [ih _ hlt _ rfl hdrop]
      simp

end J5V.Print.TextString
