import J5V.Print.Layout
import J5V.Print.OrderProofs
import J5V.Print.OptionTextProofs
/-!
# Lemmas about `J5V.Print.Layout` (core only): printing is a fixed point

`relaidFile t d'` says that `d'` is the arranged, location-free file `t` read back from its own
printed text: the same elements in the printed order, every element with a source location and no
comments, the locations consistent with the printed layout. The main lemma: the printer writes the
same text for `d'` as for `t`.
-/
namespace J5V.Print.Layout
open J5V.Print.OptionText J5V.Print.Order

/-! ## the buffer, with its final state -/

/-- `run` together with the final state of the `addGap` flag -/
def exec : List Cmd → Bool → List String × Bool
  | [], g => ([], g)
  | .gap :: r, _ => exec r true
  | .line s :: r, g => ((if g then ["", s] else [s]) ++ (exec r false).1, (exec r false).2)
  | .endl s :: r, _ => (s :: (exec r false).1, (exec r false).2)

theorem run_eq_exec : ∀ (c : List Cmd) (g : Bool), run c g = (exec c g).1
  | [], _ => rfl
  | .gap :: r, _ => by simp [run, exec, run_eq_exec r]
  | .line s :: r, g => by simp [run, exec, run_eq_exec r]
  | .endl s :: r, _ => by simp [run, exec, run_eq_exec r]

theorem exec_append : ∀ (a b : List Cmd) (g : Bool),
    exec (a ++ b) g = ((exec a g).1 ++ (exec b (exec a g).2).1, (exec b (exec a g).2).2)
  | [], b, g => by simp [exec]
  | .gap :: r, b, g => by simp [exec, exec_append r b]
  | .line s :: r, b, g => by simp [exec, exec_append r b]
  | .endl s :: r, b, g => by simp [exec, exec_append r b]

/-- two command lists that no context can tell apart -/
def Equiv (a b : List Cmd) : Prop := ∀ g, exec a g = exec b g

theorem Equiv.refl (a : List Cmd) : Equiv a a := fun _ => rfl
theorem Equiv.of_eq {a b : List Cmd} (h : a = b) : Equiv a b := h ▸ Equiv.refl a
theorem Equiv.trans {a b c : List Cmd} (h₁ : Equiv a b) (h₂ : Equiv b c) : Equiv a c :=
  fun g => (h₁ g).trans (h₂ g)
theorem Equiv.symm {a b : List Cmd} (h : Equiv a b) : Equiv b a := fun g => (h g).symm

theorem Equiv.append {a a' b b' : List Cmd} (h₁ : Equiv a a') (h₂ : Equiv b b') : Equiv (a ++ b) (a' ++ b') := by
  intro g
  rw [exec_append, exec_append, h₁ g, h₂]

theorem Equiv.gap_gap : Equiv [Cmd.gap, Cmd.gap] [Cmd.gap] := fun _ => rfl

theorem Equiv.run_eq {a b : List Cmd} (h : Equiv a b) (g : Bool) : run a g = run b g := by
  rw [run_eq_exec, run_eq_exec, h g]

/-! ## files without source information, and files read back from their printed text -/

def Loc.isNone (l : Loc) : Prop :=
  l.startLine = 0 ∧ l.endLine = 0 ∧ l.detached = [] ∧ l.leading = "" ∧ l.trailing = ""

def Loc.noComments (l : Loc) : Prop := l.detached = [] ∧ l.leading = "" ∧ l.trailing = ""

/-- no comments, no option with a source location of its own; the element itself may have a location (lines) -/
def FieldD.quiet (f : FieldD) : Prop := f.loc.noComments ∧ ∀ o ∈ f.opts, o.hasLoc = false

mutual
/-- no comment anywhere and no located option (what `j5convert` produces for a schema without descriptions, and
any descriptor built without `SourceCodeInfo`); the elements may carry source lines -/
def Item.quiet : Item → Prop
  | .field f => f.quiet
  | .rpc l _ _ _ _ os => l.noComments ∧ ∀ o ∈ os, o.hasLoc = false
  | .block _ _ l _ _ os ks => l.noComments ∧ (∀ o ∈ os, o.hasLoc = false) ∧ quietList ks
def quietList : List Item → Prop
  | [] => True
  | x :: r => x.quiet ∧ quietList r
end

def FileD.quiet (f : FileD) : Prop :=
  f.loc.noComments ∧ (∀ o ∈ f.opts, o.hasLoc = false) ∧ (∀ e ∈ f.exts, e.2.quiet) ∧ quietList f.items

/-- the same option (name, values of the statements up to the keys the text does not carry) with a
source location under which the printer decides as without one: a statement that can be written on
one line was on one line -/
def optOk (o o' : SOpt) : Prop :=
  o'.name = o.name ∧ o'.stmts.map eraseKeys = o.stmts.map eraseKeys ∧
  (∀ v ∈ o.stmts, inlineString true v ≠ none → o'.single = true)

/-- the same options (in the same wire order) whose locations keep the order of the statements -/
def optsOk (os os' : List SOpt) : Prop :=
  os.length = os'.length ∧ (∀ p ∈ os.zip os', optOk p.1 p.2) ∧
  (∀ p ∈ os.zip os', ∀ q ∈ os.zip os', locLess p.2.loc q.2.loc = locLess p.1.loc q.1.loc)

def fieldOk (f f' : FieldD) : Prop :=
  f'.kind = f.kind ∧ f'.label = f.label ∧ f'.type = f.type ∧ f'.name = f.name ∧ f'.number = f.number ∧
  f'.json = f.json ∧ f'.loc.noComments ∧
  f.opts.length = f'.opts.length ∧ (∀ p ∈ f.opts.zip f'.opts, optOk p.1 p.2) ∧
  -- a single option written in line with the field was in line with the field
  (∀ p, f.popts = [p] → p.inl ≠ none → ∀ o' ∈ f'.opts, o'.inl = true)

/-- `printElements` adds a gap after these -/
def Item.gapEnder : Item → Bool
  | .field _ => false
  | _ => true

mutual
/-- `relaid e e'`: `e'` is `e` with locations as in the printed text -/
def relaid : Item → Item → Prop
  | .field f, .field f' => fieldOk f f'
  | .rpc _ _ nm a b os, .rpc l' _ nm' a' b' os' => nm' = nm ∧ a' = a ∧ b' = b ∧ l'.noComments ∧ optsOk os os'
  | .block kw t _ _ nm os ks, .block kw' t' l' _ nm' os' ks' =>
    kw' = kw ∧ t' = t ∧ nm' = nm ∧ l'.noComments ∧ optsOk os os' ∧ relaidKids true false 0 0 0 0 ks ks'
  | _, _ => False
/-- the children in printed order: start lines increase, and `printElements` asks for a gap before an
element of the reading exactly where it asks for one before the element it was printed from — or a gap
is pending anyway (after a block or a method: `pg`). `lastEnd` is the end of the previous element of
the reading, `lastEnd0` that of the previous element of the original (0 without source location). -/
def relaidKids (first pg : Bool) (prevStart lastEnd lastEnd0 lastType : Nat) : List Item → List Item → Prop
  | [], [] => True
  | e :: r, e' :: r' =>
    relaid e e' ∧ prevStart < e'.loc.startLine ∧
    (gapCond first lastEnd e'.loc.startLine e.typeOrder lastType = true →
      pg = true ∨ gapCond first lastEnd0 e.loc.startLine e.typeOrder lastType = true) ∧
    (gapCond first lastEnd0 e.loc.startLine e.typeOrder lastType = true →
      pg = true ∨ gapCond first lastEnd e'.loc.startLine e.typeOrder lastType = true) ∧
    relaidKids false e.gapEnder e'.loc.startLine e'.loc.endLine e.loc.endLine e.typeOrder r r'
  | _, _ => False
end

/-- the file `d'` is the arranged location-free file `t` with locations as in the printed text -/
def relaidFile (t d' : FileD) : Prop :=
  d'.pkg = t.pkg ∧ d'.imports = sortImports t.imports ∧ sortImports d'.imports = d'.imports ∧ d'.loc.noComments ∧
  optsOk t.opts d'.opts ∧
  t.exts.length = d'.exts.length ∧ (∀ p ∈ t.exts.zip d'.exts, p.2.1 = p.1.1 ∧ fieldOk p.1.2 p.2.2) ∧
  relaidKids true false 0 0 0 0 t.items d'.items

/-! ## no comments: the comment helpers write nothing -/

theorem Loc.isNone.noComments {l : Loc} (h : l.isNone) : l.noComments := ⟨h.2.2.1, h.2.2.2.1, h.2.2.2.2⟩

theorem leadingCmds_noComments (n : Nat) {l : Loc} (h : l.noComments) : leadingCmds n l = [] := by
  unfold leadingCmds
  simp [h.1, h.2.1]

theorem trailingCmds_noComments (n : Nat) {l : Loc} (h : l.noComments) : trailingCmds n l = [] := by
  unfold trailingCmds commentBody
  simp [h.2.2]

theorem inlineComment_noComments {l : Loc} (h : l.noComments) : inlineComment l = "" := by
  unfold inlineComment commentBody
  simp [h.2.2, String.join]

/-! ## sorting related lists -/

section sorting
variable {α β : Type}

theorem insertBy_map (f : β → α) (lt : α → α → Bool) (x : β) :
    ∀ l : List β, insertBy lt (f x) (l.map f) = (insertBy (fun a b => lt (f a) (f b)) x l).map f
  | [] => rfl
  | y :: ys => by
    simp only [List.map_cons, insertBy]
    split
    · simp
    · simp [insertBy_map f lt x ys]

theorem isort_map (f : β → α) (lt : α → α → Bool) :
    ∀ l : List β, isort lt (l.map f) = (isort (fun a b => lt (f a) (f b)) l).map f
  | [] => rfl
  | x :: xs => by
    simp only [List.map_cons, isort]
    rw [isort_map f lt xs, insertBy_map]

theorem mem_insertBy (lt : α → α → Bool) (x y : α) : ∀ l : List α, y ∈ insertBy lt x l ↔ y = x ∨ y ∈ l
  | [] => by simp [insertBy]
  | z :: zs => by
    simp only [insertBy]
    split
    · simp
    · simp only [List.mem_cons, mem_insertBy lt x y zs]
      constructor
      · rintro (h | h | h)
        · exact Or.inr (Or.inl h)
        · exact Or.inl h
        · exact Or.inr (Or.inr h)
      · rintro (h | h | h)
        · exact Or.inr (Or.inl h)
        · exact Or.inl h
        · exact Or.inr (Or.inr h)

theorem mem_isort (lt : α → α → Bool) (y : α) : ∀ l : List α, y ∈ isort lt l ↔ y ∈ l
  | [] => by simp [isort]
  | x :: xs => by simp [isort, mem_insertBy, mem_isort lt y xs]

theorem insertBy_congr (r r' : α → α → Bool) (x : α) :
    ∀ l : List α, (∀ y ∈ l, r x y = r' x y) → insertBy r x l = insertBy r' x l
  | [], _ => rfl
  | y :: ys, h => by
    simp only [insertBy]
    rw [h y (by simp), insertBy_congr r r' x ys (fun z hz => h z (by simp [hz]))]

theorem isort_congr (r r' : α → α → Bool) :
    ∀ l : List α, (∀ a ∈ l, ∀ b ∈ l, r a b = r' a b) → isort r l = isort r' l
  | [], _ => rfl
  | x :: xs, h => by
    simp only [isort]
    rw [isort_congr r r' xs (fun a ha b hb => h a (by simp [ha]) b (by simp [hb]))]
    apply insertBy_congr
    intro y hy
    exact h x (by simp) y (by simp [(mem_isort r' y xs).mp hy])

theorem foldl_insertBy_map (f : β → α) (lt : α → α → Bool) :
    ∀ (l acc : List β), (l.map f).foldl (fun a x => insertBy lt x a) (acc.map f) =
      (l.foldl (fun a x => insertBy (fun a b => lt (f a) (f b)) x a) acc).map f
  | [], _ => rfl
  | x :: xs, acc => by
    simp only [List.map_cons, List.foldl_cons]
    rw [insertBy_map, foldl_insertBy_map f lt xs]

/-- a stable sort commutes with a map that the comparison does not see -/
theorem stableSort_map (f : β → α) (lt : α → α → Bool) (l : List β) :
    stableSort lt (l.map f) = (stableSort (fun a b => lt (f a) (f b)) l).map f := by
  unfold stableSort
  exact foldl_insertBy_map f lt l []

theorem mem_foldl_insertBy (lt : α → α → Bool) (y : α) :
    ∀ (l acc : List α), y ∈ l.foldl (fun a x => insertBy lt x a) acc ↔ y ∈ l ∨ y ∈ acc
  | [], _ => by simp
  | x :: xs, acc => by
    simp only [List.foldl_cons, mem_foldl_insertBy lt y xs, mem_insertBy, List.mem_cons]
    constructor
    · rintro (h | h | h)
      · exact Or.inl (Or.inr h)
      · exact Or.inl (Or.inl h)
      · exact Or.inr h
    · rintro ((h | h) | h)
      · exact Or.inr (Or.inl h)
      · exact Or.inl h
      · exact Or.inr (Or.inr h)

theorem mem_stableSort (lt : α → α → Bool) (y : α) (l : List α) : y ∈ stableSort lt l ↔ y ∈ l := by
  unfold stableSort
  simp [mem_foldl_insertBy]

/-- two lists of the same length, element by element -/
theorem map_eq_of_zip {γ : Type} (G : β → γ) (H : α → γ) :
    ∀ (l : List α) (l' : List β), l.length = l'.length → (∀ p ∈ l.zip l', G p.2 = H p.1) → l'.map G = l.map H
  | [], [], _, _ => rfl
  | [], _ :: _, h, _ => by simp at h
  | _ :: _, [], h, _ => by simp at h
  | a :: as, b :: bs, h, hz => by
    simp only [List.map_cons]
    rw [hz (a, b) (by simp), map_eq_of_zip G H as bs (by simpa using h) (fun p hp => hz p (by simp [hp]))]

theorem map_fst_zip_eq : ∀ (l : List α) (l' : List β), l.length = l'.length → (l.zip l').map Prod.fst = l
  | [], [], _ => rfl
  | [], _ :: _, h => by simp at h
  | _ :: _, [], h => by simp at h
  | a :: as, b :: bs, h => by simp [map_fst_zip_eq as bs (by simpa using h)]

theorem map_snd_zip_eq : ∀ (l : List α) (l' : List β), l.length = l'.length → (l.zip l').map Prod.snd = l'
  | [], [], _ => rfl
  | [], _ :: _, h => by simp at h
  | _ :: _, [], h => by simp at h
  | a :: as, b :: bs, h => by simp [map_snd_zip_eq as bs (by simpa using h)]

end sorting

/-! ## options -/

theorem inlineString_of_none (s : Bool) (v : Opt) (h : inlineString true v = none) : inlineString s v = none := by
  cases s with
  | true => exact h
  | false => simp [inlineString]

theorem SOpt.single_unloc {o : SOpt} (h : o.hasLoc = false) : o.single = true := by simp [SOpt.single, h]
theorem SOpt.inl_unloc {o : SOpt} (h : o.hasLoc = false) : o.inl = true := by simp [SOpt.inl, h]

theorem map_erase_factor {γ : Type} (G : Opt → γ) (hG : ∀ v, G (eraseKeys v) = G v) (l : List Opt) :
    (l.map eraseKeys).map G = l.map G := by
  rw [List.map_map]
  exact List.map_congr_left (fun v _ => hG v)

/-- the statements of the located option are written like those of the original -/
theorem optOk.stmts_eq {γ : Type} {o o' : SOpt} (h : optOk o o') (G G' : Opt → γ)
    (hG : ∀ v, G (eraseKeys v) = G v) (hG' : ∀ v, G' (eraseKeys v) = G' v)
    (hGG : ∀ v ∈ o.stmts, G' v = G v) : o'.stmts.map G' = o.stmts.map G := by
  rw [← map_erase_factor G' hG', h.2.1, map_erase_factor G' hG']
  exact List.map_congr_left hGG

theorem optOk.inline_eq {o o' : SOpt} (h : optOk o o') (v : Opt) (hv : v ∈ o.stmts) :
    inlineString o'.single v = inlineString true v := by
  cases hn : inlineString true v with
  | none => exact inlineString_of_none _ v hn
  | some s => rw [h.2.2 v hv (by simp [hn]), hn]

theorem optionCmds_ok (n : Nat) {o o' : SOpt} (h : optOk o o') (hu : o.hasLoc = false) :
    optionCmds n o' = optionCmds n o := by
  unfold optionCmds
  rw [h.1, SOpt.single_unloc hu]
  congr 2
  apply h.stmts_eq _ _ (optionStmt1_erase n o.name true) (optionStmt1_erase n o.name o'.single)
  intro v hv
  unfold optionStmt1
  rw [h.inline_eq v hv]

/-- the statement options of an element are written in the same order and the same way -/
theorem sortOpts_map_ok {γ : Type} (F : SOpt → γ) (os os' : List SOpt) (h : optsOk os os')
    (hu : ∀ o ∈ os, o.hasLoc = false) (hF : ∀ o o', optOk o o' → o.hasLoc = false → F o' = F o) :
    (sortOpts os').map F = (sortOpts os).map F := by
  obtain ⟨hl, hok, hord⟩ := h
  have e1 : os = (os.zip os').map Prod.fst := (map_fst_zip_eq os os' hl).symm
  have e2 : os' = (os.zip os').map Prod.snd := (map_snd_zip_eq os os' hl).symm
  unfold sortOpts
  conv => lhs; rw [e2, isort_map]
  conv => rhs; rw [e1, isort_map]
  rw [isort_congr _ (fun p q => locLess p.1.loc q.1.loc) _ (fun a ha b hb => hord a ha b hb)]
  simp only [List.map_map]
  apply List.map_congr_left
  intro p hp
  have hp' := (mem_isort _ p _).mp hp
  have hm : p.1 ∈ os := (List.of_mem_zip hp').1
  exact hF p.1 p.2 (hok p hp') (hu p.1 hm)

/-! ## fields -/

/-- forget whether the option is in line with its parent, and the keys the text does not carry -/
def strip (p : POpt) : POpt := { p with root := eraseKeys p.root, inlineWithParent := true }

theorem fieldBody_strip (n : Nat) : ∀ ps : List POpt, fieldBody n (ps.map strip) = fieldBody n ps
  | [] => rfl
  | p :: r => by
    obtain ⟨name, root, inl, flag⟩ := p
    simp only [List.map_cons, fieldBody, fieldBody_strip n r, strip, List.isEmpty_map]
    cases inl with
    | some s => rfl
    | none =>
      cases root with
      | scalar k v => simp [eraseKeys]
      | arr k ks => simp [eraseKeys]
      | msg k ks => simp [eraseKeys, msgFields_erase]

theorem fieldStyle_strip (n : Nat) (head number ic : String) (ps : List POpt)
    (h : ∀ p, ps = [p] → p.inl ≠ none → p.inlineWithParent = true) :
    fieldStyle n head number (ps.map strip) ic = fieldStyle n head number ps ic := by
  match ps with
  | [] => rfl
  | [p] =>
    obtain ⟨name, root, inl, flag⟩ := p
    cases inl with
    | none =>
      have hb := fieldBody_strip n [⟨name, root, none, flag⟩]
      simp only [List.map_cons, List.map_nil, strip] at hb
      cases flag <;> simp [fieldStyle, strip, hb]
    | some s =>
      have := h _ rfl (by simp)
      simp only at this
      subst this
      simp [strip, fieldStyle]
  | p :: q :: r =>
    have hb := fieldBody_strip n (p :: q :: r)
    simp only [List.map_cons] at hb
    simp only [fieldStyle, List.map_cons, hb]
    split
    · rename_i h1; simp at h1
    · rfl

theorem sortByName_strip (l : List POpt) : (sortByName l).map strip = sortByName (l.map strip) := by
  unfold sortByName
  rw [stableSort_map strip]
  rfl

theorem parsed_flag {o : SOpt} (p : POpt) (hp : p ∈ o.parsed) : p.inlineWithParent = o.inl := by
  unfold SOpt.parsed at hp
  simp only [List.mem_map] at hp
  obtain ⟨v, _, rfl⟩ := hp
  rfl

/-- every option of `printFieldStyle` comes from one of the element's options or is `json_name` -/
theorem popts_flag (f : FieldD) (h : ∀ o ∈ f.opts, o.inl = true) :
    ∀ p ∈ f.popts, p.inlineWithParent = true := by
  intro p hp
  have hsorted : ∀ q ∈ sortByName (f.opts.map SOpt.parsed).flatten, q.inlineWithParent = true := by
    intro q hq
    unfold sortByName at hq
    rw [mem_stableSort] at hq
    simp only [List.mem_flatten, List.mem_map] at hq
    obtain ⟨l, ⟨o, ho, rfl⟩, hql⟩ := hq
    rw [parsed_flag q hql, h o ho]
  unfold FieldD.popts at hp
  split at hp
  · split at hp
    · simp only [List.mem_append, List.mem_singleton] at hp
      rcases hp with hp | rfl
      · exact hsorted p hp
      · rfl
    · exact hsorted p hp
  · exact hsorted p hp

theorem parsed_strip_ok {o o' : SOpt} (h : optOk o o') (hu : o.hasLoc = false) :
    o'.parsed.map strip = o.parsed.map strip := by
  unfold SOpt.parsed
  rw [h.1, SOpt.single_unloc hu, SOpt.inl_unloc hu, List.map_map, List.map_map]
  apply h.stmts_eq
  · intro v; simp only [Function.comp, strip, inlineString_erase]
    congr 1
    cases v <;> simp [eraseKeys, eraseKids_idem, eraseElems_idem]
  · intro v; simp only [Function.comp, strip, inlineString_erase]
    congr 1
    cases v <;> simp [eraseKeys, eraseKids_idem, eraseElems_idem]
  · intro v hv
    simp only [Function.comp, strip]
    rw [h.inline_eq v hv]

theorem flatten_map_strip (ls : List (List POpt)) : ls.flatten.map strip = (ls.map (List.map strip)).flatten := by
  induction ls with
  | nil => rfl
  | cons l r ih => simp [ih]

theorem popts_strip_ok {f f' : FieldD} (h : fieldOk f f') (hu : f.quiet) : f'.popts.map strip = f.popts.map strip := by
  obtain ⟨_, _, _, hname, _, hjson, _, hl, hok, _⟩ := h
  have hparsed : (f'.opts.map SOpt.parsed).flatten.map strip = (f.opts.map SOpt.parsed).flatten.map strip := by
    rw [flatten_map_strip, flatten_map_strip, List.map_map, List.map_map]
    congr 1
    apply map_eq_of_zip _ _ f.opts f'.opts hl
    intro p hp
    exact parsed_strip_ok (hok p hp) (hu.2 p.1 (List.of_mem_zip hp).1)
  unfold FieldD.popts
  rw [hjson, hname]
  cases f.json with
  | none => simp only []; rw [sortByName_strip, sortByName_strip, hparsed]
  | some j =>
    simp only []
    split
    · rw [List.map_append, List.map_append, sortByName_strip, sortByName_strip, hparsed]
    · rw [sortByName_strip, sortByName_strip, hparsed]

theorem fieldCmds_ok (n : Nat) {f f' : FieldD} (h : fieldOk f f') (hu : f.quiet) :
    fieldCmds n f' = fieldCmds n f := by
  have hstrip := popts_strip_ok h hu
  obtain ⟨hk, hlab, hty, hname, hnum, hjson, hnc, hl, hok, hinl⟩ := h
  have hnc0 := hu.1
  unfold fieldCmds
  rw [leadingCmds_noComments n hnc, leadingCmds_noComments n hnc0, trailingCmds_noComments n hnc,
    trailingCmds_noComments n hnc0, inlineComment_noComments hnc, inlineComment_noComments hnc0]
  have hhead : f'.head = f.head := by unfold FieldD.head; rw [hk, hlab, hty, hname]
  rw [hhead, hnum]
  congr 2
  -- the options
  have hflag0 : ∀ p ∈ f.popts, p.inlineWithParent = true :=
    popts_flag f (fun o ho => SOpt.inl_unloc (hu.2 o ho))
  rw [← fieldStyle_strip n f.head (Scalar.formatInt f.number) "" f'.popts, hstrip,
    fieldStyle_strip n f.head (Scalar.formatInt f.number) "" f.popts]
  · intro p hp _; exact hflag0 p (by rw [hp]; simp)
  · intro p' hp' hne
    have hlen : f.popts.length = 1 := by
      have := congrArg List.length hstrip
      simp only [List.length_map, hp', List.length_singleton] at this
      exact this.symm
    match hf : f.popts, hlen with
    | [p], _ =>
      have hinl' : p.inl ≠ none := by
        rw [hp', hf] at hstrip
        simp only [List.map_cons, List.map_nil, List.cons.injEq, and_true] at hstrip
        have : p'.inl = p.inl := by
          have := congrArg POpt.inl hstrip
          simpa [strip] using this
        rw [← this]; exact hne
      exact popts_flag f' (hinl p hf hinl') p' (by rw [hp']; simp)

/-! ## elements -/

/-- the pending gap left by the previous element -/
def pgC (pg : Bool) : List Cmd := if pg then [Cmd.gap] else []

theorem Item.quiet_loc : ∀ (e : Item), e.quiet → e.loc.noComments
  | .field _, h => h.1
  | .rpc _ _ _ _ _ _, h => h.1
  | .block _ _ _ _ _ _ _, h => h.1

theorem relaid_typeOrder : ∀ (e e' : Item), relaid e e' → e'.typeOrder = e.typeOrder
  | .field _, .field _, _ => rfl
  | .rpc _ _ _ _ _ _, .rpc _ _ _ _ _ _, _ => rfl
  | .block _ _ _ _ _ _ _, .block _ _ _ _ _ _ _, h => by
    simp only [relaid] at h
    exact h.2.1
  | .field _, .rpc _ _ _ _ _ _, h => by simp [relaid] at h
  | .field _, .block _ _ _ _ _ _ _, h => by simp [relaid] at h
  | .rpc _ _ _ _ _ _, .field _, h => by simp [relaid] at h
  | .rpc _ _ _ _ _ _, .block _ _ _ _ _ _ _, h => by simp [relaid] at h
  | .block _ _ _ _ _ _ _, .field _, h => by simp [relaid] at h
  | .block _ _ _ _ _ _ _, .rpc _ _ _ _ _ _, h => by simp [relaid] at h

theorem relaidKids_isEmpty (first pg : Bool) (ps le le0 lt : Nat) :
    ∀ (es es' : List Item), relaidKids first pg ps le le0 lt es es' → es'.isEmpty = es.isEmpty
  | [], [], _ => rfl
  | [], _ :: _, h => by simp [relaidKids] at h
  | _ :: _, [], h => by simp [relaidKids] at h
  | _ :: _, _ :: _, _ => rfl

theorem optsOk_isEmpty {os os' : List SOpt} (h : optsOk os os') : os'.isEmpty = os.isEmpty := by
  have := h.1
  cases os <;> cases os' <;> simp_all

/-- every element ends with the gap `printElements` adds after it, if it adds one -/
theorem itemCmds_split (n : Nat) : ∀ e : Item, ∃ body, itemCmds n e = body ++ pgC e.gapEnder
  | .field f => ⟨fieldCmds n f, by simp [itemCmds, pgC, Item.gapEnder]⟩
  | .rpc _ _ _ _ _ _ => ⟨_, by simp only [itemCmds, pgC, Item.gapEnder, if_true]; rfl⟩
  | .block _ _ _ _ _ _ _ => ⟨_, by simp only [itemCmds, pgC, Item.gapEnder, if_true]; rfl⟩

/-- the gap before an element: the two runs may ask for it under different conditions, as long as
they differ only where a gap is pending anyway -/
theorem gap_prefix_ok (pg a b : Bool) (h1 : a = true → pg = true ∨ b = true) (h2 : b = true → pg = true ∨ a = true) :
    Equiv (pgC pg ++ (if a = true then [Cmd.gap] else [])) (pgC pg ++ (if b = true then [Cmd.gap] else [])) := by
  cases pg <;> cases a <;> cases b <;> simp_all [pgC]
  all_goals first | exact Equiv.refl _ | exact Equiv.gap_gap | exact Equiv.gap_gap.symm

theorem flatten_congr {γ : Type} {l l' : List (List γ)} (h : l = l') : l.flatten = l'.flatten := by rw [h]

mutual
theorem itemCmds_ok : ∀ (n : Nat) (e e' : Item), relaid e e' → e.quiet → Equiv (itemCmds n e') (itemCmds n e)
  | n, .field f, .field f', h, hu => by
    simp only [relaid] at h
    simp only [Item.quiet] at hu
    simp only [itemCmds]
    exact Equiv.of_eq (fieldCmds_ok n h hu)
  | n, .rpc l _ nm a b os, .rpc l' _ nm' a' b' os', h, hu => by
    simp only [relaid] at h
    simp only [Item.quiet] at hu
    obtain ⟨hnm, ha, hb, hnc, hos⟩ := h
    have hnc0 := hu.1
    simp only [itemCmds]
    rw [leadingCmds_noComments n hnc, leadingCmds_noComments n hnc0, trailingCmds_noComments n hnc,
      trailingCmds_noComments n hnc0, inlineComment_noComments hnc, inlineComment_noComments hnc0,
      hnm, ha, hb, optsOk_isEmpty hos,
      sortOpts_map_ok (optionCmds (n + 1)) os os' hos hu.2 (fun o o' hk hh => optionCmds_ok (n + 1) hk hh)]
    exact Equiv.refl _
  | n, .block kw t l _ nm os ks, .block kw' t' l' _ nm' os' ks', h, hu => by
    simp only [relaid] at h
    simp only [Item.quiet] at hu
    obtain ⟨hkw, ht, hnm, hnc, hos, hks⟩ := h
    have hnc0 := hu.1
    have hkids := elemsCmds_ok (n + 1) ks ks' true false 0 0 0 0 hks hu.2.2
    simp only [pgC, Bool.false_eq_true, if_false, List.nil_append] at hkids
    simp only [itemCmds]
    rw [leadingCmds_noComments n hnc, leadingCmds_noComments n hnc0, trailingCmds_noComments (n + 1) hnc,
      trailingCmds_noComments (n + 1) hnc0, inlineComment_noComments hnc, inlineComment_noComments hnc0,
      hkw, hnm, optsOk_isEmpty hos, relaidKids_isEmpty _ _ _ _ _ _ ks ks' hks, hnc.2.2, hnc0.2.2,
      sortOpts_map_ok (fun o => optionCmds (n + 1) o ++ [Cmd.gap]) os os' hos hu.2.1
        (fun o o' hk hh => by rw [optionCmds_ok (n + 1) hk hh])]
    apply Equiv.append _ (Equiv.refl _)
    apply Equiv.append (Equiv.refl _)
    split
    · exact Equiv.refl _
    · apply Equiv.append _ (Equiv.refl _)
      apply Equiv.append (Equiv.refl _)
      exact hkids
  | _, .field _, .rpc _ _ _ _ _ _, h, _ => by simp [relaid] at h
  | _, .field _, .block _ _ _ _ _ _ _, h, _ => by simp [relaid] at h
  | _, .rpc _ _ _ _ _ _, .field _, h, _ => by simp [relaid] at h
  | _, .rpc _ _ _ _ _ _, .block _ _ _ _ _ _ _, h, _ => by simp [relaid] at h
  | _, .block _ _ _ _ _ _ _, .field _, h, _ => by simp [relaid] at h
  | _, .block _ _ _ _ _ _ _, .rpc _ _ _ _ _ _, h, _ => by simp [relaid] at h
theorem elemsCmds_ok : ∀ (n : Nat) (es es' : List Item) (first pg : Bool) (ps le le0 lt : Nat),
    relaidKids first pg ps le le0 lt es es' → quietList es →
    Equiv (pgC pg ++ elemsCmds n es' first le lt) (pgC pg ++ elemsCmds n es first le0 lt)
  | _, [], [], _, _, _, _, _, _, _, _ => Equiv.refl _
  | _, [], _ :: _, _, _, _, _, _, _, h, _ => by simp [relaidKids] at h
  | _, _ :: _, [], _, _, _, _, _, _, h, _ => by simp [relaidKids] at h
  | n, e :: r, e' :: r', first, pg, ps, le, le0, lt, h, hu => by
    simp only [relaidKids] at h
    simp only [quietList] at hu
    obtain ⟨hre, _, hgap1, hgap2, hkids⟩ := h
    have hitem := itemCmds_ok n e e' hre hu.1
    have hrest := elemsCmds_ok n r r' false e.gapEnder e'.loc.startLine e'.loc.endLine e.loc.endLine e.typeOrder hkids hu.2
    obtain ⟨body, hbody⟩ := itemCmds_split n e
    simp only [elemsCmds]
    rw [relaid_typeOrder e e' hre]
    -- the gap before the element
    have hg := gap_prefix_ok pg _ _ hgap1 hgap2
    rw [← List.append_assoc, ← List.append_assoc, ← List.append_assoc, ← List.append_assoc]
    rw [List.append_assoc (pgC pg ++ _) (itemCmds n e'), List.append_assoc (pgC pg ++ _) (itemCmds n e)]
    apply Equiv.append hg
    -- the element and what follows
    refine Equiv.trans (Equiv.append hitem (Equiv.refl _)) ?_
    rw [hbody, List.append_assoc, List.append_assoc]
    exact Equiv.append (Equiv.refl _) hrest
end

/-! ## arranging a file that is already in printed order changes nothing -/

section gosort
variable {α : Type}

theorem mem_insStep (lt : α → α → Bool) (acc : List α) (x y : α) : y ∈ insStep lt acc x ↔ y = x ∨ y ∈ acc := by
  unfold insStep
  constructor
  · intro h
    rcases List.mem_append.mp h with h | h
    · exact Or.inr (List.Sublist.mem h (List.takeWhile_sublist _))
    · rcases List.mem_cons.mp h with h | h
      · exact Or.inl h
      · exact Or.inr (List.Sublist.mem h (List.dropWhile_sublist _))
  · intro h
    rcases h with rfl | h
    · simp
    · have : y ∈ acc.takeWhile (lt x ·) ++ acc.dropWhile (lt x ·) := by rw [List.takeWhile_append_dropWhile]; exact h
      rcases List.mem_append.mp this with h | h
      · exact List.mem_append_left _ h
      · exact List.mem_append_right _ (List.mem_cons_of_mem _ h)

theorem mem_foldl_insStep (lt : α → α → Bool) (y : α) :
    ∀ (l acc : List α), y ∈ l.foldl (insStep lt) acc ↔ y ∈ l ∨ y ∈ acc
  | [], _ => by simp
  | x :: xs, acc => by
    simp only [List.foldl_cons, mem_foldl_insStep lt y xs, mem_insStep, List.mem_cons]
    constructor
    · rintro (h | h | h)
      · exact Or.inl (Or.inr h)
      · exact Or.inl (Or.inl h)
      · exact Or.inr h
    · rintro ((h | h) | h)
      · exact Or.inr (Or.inl h)
      · exact Or.inl h
      · exact Or.inr (Or.inr h)

theorem mem_goSort (lt : α → α → Bool) (y : α) (l : List α) : y ∈ goSort lt l ↔ y ∈ l := by
  unfold goSort
  simp [mem_foldl_insStep]

end gosort

/-- start lines increase strictly from `ps` on -/
def incStarts : Nat → List Item → Prop
  | _, [] => True
  | ps, e :: r => ps < e.loc.startLine ∧ incStarts e.loc.startLine r

theorem foldl_insStep_inc : ∀ (l acc : List Item) (ps : Nat), incStarts ps l →
    (∀ p, acc.head? = some p → p.loc.startLine = ps ∧ 0 < ps) →
    l.foldl (insStep (fun a b => less a.elem b.elem)) acc = l.reverse ++ acc
  | [], _, _, _, _ => by simp
  | x :: r, acc, ps, h, hacc => by
    obtain ⟨hx, hr⟩ := h
    have hstep : insStep (fun a b => less a.elem b.elem) acc x = x :: acc := by
      cases acc with
      | nil => rfl
      | cons p t =>
        obtain ⟨hp, hpos⟩ := hacc p rfl
        have : less x.elem p.elem = false := by
          unfold less Item.elem
          simp only []
          rw [hp]
          have h1 : ¬ (x.loc.startLine = 0 ∨ ps = 0) := by omega
          simp only [h1, if_false, decide_eq_false_iff_not]
          omega
        simp [insStep, this]
    simp only [List.foldl_cons, hstep]
    rw [foldl_insStep_inc r (x :: acc) x.loc.startLine hr (by
      intro p hp
      simp only [List.head?_cons, Option.some.injEq] at hp
      subst hp
      exact ⟨rfl, by omega⟩)]
    simp

theorem sortItems_inc (l : List Item) (ps : Nat) (h : incStarts ps l) : sortItems l = l := by
  unfold sortItems goSort
  rw [foldl_insStep_inc l [] ps h (by simp)]
  simp

theorem relaidKids_inc (first pg : Bool) (ps le le0 lt : Nat) :
    ∀ (es es' : List Item), relaidKids first pg ps le le0 lt es es' → incStarts ps es'
  | [], [], _ => trivial
  | [], _ :: _, h => by simp [relaidKids] at h
  | _ :: _, [], h => by simp [relaidKids] at h
  | e :: r, e' :: r', h => by
    simp only [relaidKids] at h
    exact ⟨h.2.1, relaidKids_inc false e.gapEnder _ _ _ _ r r' h.2.2.2.2⟩

mutual
theorem arrange_relaid : ∀ (e e' : Item), relaid e e' → arrange e' = e'
  | .field _, .field _, _ => rfl
  | .rpc _ _ _ _ _ _, .rpc _ _ _ _ _ _, _ => rfl
  | .block _ _ _ _ _ _ ks, .block _ _ _ _ _ _ ks', h => by
    simp only [relaid] at h
    have hks := h.2.2.2.2.2
    simp only [arrange]
    rw [arrangeList_relaid ks ks' true false 0 0 0 0 hks, sortItems_inc ks' 0 (relaidKids_inc _ _ _ _ _ _ ks ks' hks)]
  | .field _, .rpc _ _ _ _ _ _, h => by simp [relaid] at h
  | .field _, .block _ _ _ _ _ _ _, h => by simp [relaid] at h
  | .rpc _ _ _ _ _ _, .field _, h => by simp [relaid] at h
  | .rpc _ _ _ _ _ _, .block _ _ _ _ _ _ _, h => by simp [relaid] at h
  | .block _ _ _ _ _ _ _, .field _, h => by simp [relaid] at h
  | .block _ _ _ _ _ _ _, .rpc _ _ _ _ _ _, h => by simp [relaid] at h
theorem arrangeList_relaid : ∀ (es es' : List Item) (first pg : Bool) (ps le le0 lt : Nat),
    relaidKids first pg ps le le0 lt es es' → arrangeList es' = es'
  | [], [], _, _, _, _, _, _, _ => rfl
  | [], _ :: _, _, _, _, _, _, _, h => by simp [relaidKids] at h
  | _ :: _, [], _, _, _, _, _, _, h => by simp [relaidKids] at h
  | e :: r, e' :: r', _, _, _, _, _, _, h => by
    simp only [relaidKids] at h
    simp only [arrangeList]
    rw [arrange_relaid e e' h.1, arrangeList_relaid r r' _ _ _ _ _ _ h.2.2.2.2]
end

/-! ## the whole file -/

/-- **Printing is a fixed point.** `t`: an arranged file without source information; `d'`: the same
file with the locations (and without the comments) of its own printed text. The printer writes the
same lines for both. -/
theorem printFile_relaid (gen : String) (t d' : FileD) (hu : t.quiet) (hr : relaidFile t d') :
    printFile gen d' = run (fileCmds gen t) false := by
  obtain ⟨hpkg, himp, himps, hnc, hopts, hel, hexts, hitems⟩ := hr
  obtain ⟨huloc, huopts, huexts, huitems⟩ := hu
  have harr : d'.arranged = d' := by
    unfold FileD.arranged
    rw [arrangeList_relaid t.items d'.items true false 0 0 0 0 hitems,
      sortItems_inc d'.items 0 (relaidKids_inc _ _ _ _ _ _ t.items d'.items hitems)]
  unfold printFile
  rw [harr]
  apply Equiv.run_eq
  have hkids := elemsCmds_ok 0 t.items d'.items true false 0 0 0 0 hitems huitems
  simp only [pgC, Bool.false_eq_true, if_false, List.nil_append] at hkids
  have hextsEq : d'.exts.map (fun e => (e.1, fieldCmds 1 e.2)) = t.exts.map (fun e => (e.1, fieldCmds 1 e.2)) := by
    apply map_eq_of_zip _ _ t.exts d'.exts hel
    intro p hp
    obtain ⟨h1, h2⟩ := hexts p hp
    have hm : p.1 ∈ t.exts := (List.of_mem_zip hp).1
    rw [h1, fieldCmds_ok 1 h2 (huexts p.1 hm)]
  have hempty : d'.imports.isEmpty = t.imports.isEmpty := by
    rw [himp]
    unfold sortImports
    cases t.imports with
    | nil => rfl
    | cons x xs =>
      simp only [isort, List.isEmpty_cons]
      generalize isort _ xs = l
      cases l <;> simp [insertBy] <;> split <;> simp
  unfold fileCmds
  rw [hempty, himps, hpkg, himp, leadingCmds_noComments 0 hnc, leadingCmds_noComments 0 huloc, hextsEq,
    sortOpts_map_ok (optionCmds 0) t.opts d'.opts hopts huopts (fun o o' hk hh => optionCmds_ok 0 hk hh)]
  exact Equiv.append (Equiv.refl _) hkids

/-! ## arranging keeps a file free of locations -/

theorem quietList_iff : ∀ l : List Item, quietList l ↔ ∀ x ∈ l, x.quiet
  | [] => by simp [quietList]
  | x :: r => by simp [quietList, quietList_iff r]

mutual
theorem arrange_quiet : ∀ e : Item, e.quiet → (arrange e).quiet
  | .field _, h => h
  | .rpc _ _ _ _ _ _, h => h
  | .block _ _ _ _ _ _ ks, h => by
    simp only [Item.quiet] at h
    simp only [arrange, Item.quiet]
    refine ⟨h.1, h.2.1, ?_⟩
    rw [quietList_iff]
    intro x hx
    unfold sortItems at hx
    rw [mem_goSort] at hx
    exact (quietList_iff _).mp (arrangeList_quiet ks h.2.2) x hx
theorem arrangeList_quiet : ∀ l : List Item, quietList l → quietList (arrangeList l)
  | [], _ => trivial
  | x :: r, h => by
    simp only [quietList] at h
    simp only [arrangeList, quietList]
    exact ⟨arrange_quiet x h.1, arrangeList_quiet r h.2⟩
end

theorem FileD.arranged_quiet (d : FileD) (h : d.quiet) : d.arranged.quiet := by
  obtain ⟨h1, h2, h3, h4⟩ := h
  refine ⟨h1, h2, h3, ?_⟩
  unfold FileD.arranged
  simp only []
  rw [quietList_iff]
  intro x hx
  unfold sortItems at hx
  rw [mem_goSort] at hx
  exact (quietList_iff _).mp (arrangeList_quiet d.items h4) x hx

theorem printFile_reprint (gen : String) (d d' : FileD) (hu : d.quiet) (hr : relaidFile d.arranged d') :
    printFile gen d' = printFile gen d :=
  printFile_relaid gen d.arranged d' (FileD.arranged_quiet d hu) hr

end J5V.Print.Layout
