import J5V.Print.LayoutProofs
/-!
# Printing is a fixed point — with leading comments (core only)

`LayoutProofs.printFile_reprint` is about files without comments. Here the elements (messages, enums, services,
oneofs, fields, enum values, methods, extension fields) may carry a **leading comment**: the reading `d'` has
the same leading comment on the same element (and, as before, no detached and no trailing comment). The printer
writes a gap before a leading comment whatever the source lines say, so the gap clause of `relaidKids` is not asked
of an element with a leading comment (third escape `e.loc.leading ≠ ""`): the start line of such an element in the
reading is the line of the element itself, below its comment, and the distance to the previous element is irrelevant.

Detached and trailing comments stay outside: with them the second print can really differ (see notes/print.md).
-/
namespace J5V.Print.Layout
open J5V.Print.OptionText J5V.Print.Order

/-- at most a leading comment -/
def Loc.leadOnly (l : Loc) : Prop := l.detached = [] ∧ l.trailing = ""

/-- the reading's location of an element: at most a leading comment, the one of the original -/
def Loc.sameLead (l l' : Loc) : Prop := l'.detached = [] ∧ l'.trailing = "" ∧ l'.leading = l.leading

def FieldD.quietL (f : FieldD) : Prop := f.loc.leadOnly ∧ ∀ o ∈ f.opts, o.hasLoc = false

mutual
/-- no detached / trailing comment anywhere and no located option; leading comments and source lines allowed -/
def Item.quietL : Item → Prop
  | .field f => f.quietL
  | .rpc l _ _ _ _ os => l.leadOnly ∧ ∀ o ∈ os, o.hasLoc = false
  | .block _ _ l _ _ os ks => l.leadOnly ∧ (∀ o ∈ os, o.hasLoc = false) ∧ quietListL ks
def quietListL : List Item → Prop
  | [] => True
  | x :: r => x.quietL ∧ quietListL r
end

/-- the file itself (the location of the whole file) has no comment; its elements may have leading comments -/
def FileD.quietL (f : FileD) : Prop :=
  f.loc.noComments ∧ (∀ o ∈ f.opts, o.hasLoc = false) ∧ (∀ e ∈ f.exts, e.2.quietL) ∧ quietListL f.items

/-- `fieldOk` with the leading comment kept -/
def fieldOkL (f f' : FieldD) : Prop :=
  f'.kind = f.kind ∧ f'.label = f.label ∧ f'.type = f.type ∧ f'.name = f.name ∧ f'.number = f.number ∧
  f'.json = f.json ∧ Loc.sameLead f.loc f'.loc ∧
  f.opts.length = f'.opts.length ∧ (∀ p ∈ f.opts.zip f'.opts, optOk p.1 p.2) ∧
  (∀ p, f.popts = [p] → p.inl ≠ none → ∀ o' ∈ f'.opts, o'.inl = true)

mutual
/-- `relaid` with leading comments: `e'` is `e` with locations as in the printed text and the same leading comment -/
def relaidL : Item → Item → Prop
  | .field f, .field f' => fieldOkL f f'
  | .rpc l _ nm a b os, .rpc l' _ nm' a' b' os' => nm' = nm ∧ a' = a ∧ b' = b ∧ Loc.sameLead l l' ∧ optsOk os os'
  | .block kw t l _ nm os ks, .block kw' t' l' _ nm' os' ks' =>
    kw' = kw ∧ t' = t ∧ nm' = nm ∧ Loc.sameLead l l' ∧ optsOk os os' ∧ relaidKidsL true false 0 0 0 0 ks ks'
  | _, _ => False
/-- `relaidKids`; the gap clause is asked only of elements without a leading comment (the printer writes a gap
before a leading comment unconditionally) -/
def relaidKidsL (first pg : Bool) (prevStart lastEnd lastEnd0 lastType : Nat) : List Item → List Item → Prop
  | [], [] => True
  | e :: r, e' :: r' =>
    relaidL e e' ∧ prevStart < e'.loc.startLine ∧
    (gapCond first lastEnd e'.loc.startLine e.typeOrder lastType = true →
      pg = true ∨ gapCond first lastEnd0 e.loc.startLine e.typeOrder lastType = true ∨ e.loc.leading ≠ "") ∧
    (gapCond first lastEnd0 e.loc.startLine e.typeOrder lastType = true →
      pg = true ∨ gapCond first lastEnd e'.loc.startLine e.typeOrder lastType = true ∨ e.loc.leading ≠ "") ∧
    relaidKidsL false e.gapEnder e'.loc.startLine e'.loc.endLine e.loc.endLine e.typeOrder r r'
  | _, _ => False
end

def relaidFileL (t d' : FileD) : Prop :=
  d'.pkg = t.pkg ∧ d'.imports = sortImports t.imports ∧ sortImports d'.imports = d'.imports ∧ d'.loc.noComments ∧
  optsOk t.opts d'.opts ∧
  t.exts.length = d'.exts.length ∧ (∀ p ∈ t.exts.zip d'.exts, p.2.1 = p.1.1 ∧ fieldOkL p.1.2 p.2.2) ∧
  relaidKidsL true false 0 0 0 0 t.items d'.items

/-! ## the comment helpers -/

theorem leadingCmds_sameLead (n : Nat) {l l' : Loc} (h0 : l.leadOnly) (h : Loc.sameLead l l') :
    leadingCmds n l' = leadingCmds n l := by
  unfold leadingCmds
  rw [h.1, h.2.2, h0.1]

theorem trailingCmds_nt (n : Nat) {l : Loc} (h : l.trailing = "") : trailingCmds n l = [] := by
  unfold trailingCmds commentBody
  simp [h]

theorem inlineComment_nt {l : Loc} (h : l.trailing = "") : inlineComment l = "" := by
  unfold inlineComment commentBody
  simp [h, String.join]

/-- an element with a leading comment (and no detached one) starts with a gap -/
theorem leadingCmds_gap (n : Nat) {l : Loc} (h0 : l.detached = []) (h : l.leading ≠ "") :
    ∃ tl, leadingCmds n l = Cmd.gap :: tl := by
  unfold leadingCmds
  simp [h0, h]

theorem Item.quietL_loc : ∀ (e : Item), e.quietL → e.loc.leadOnly
  | .field _, h => h.1
  | .rpc _ _ _ _ _ _, h => h.1
  | .block _ _ _ _ _ _ _, h => h.1

theorem itemCmds_gap (n : Nat) : ∀ (e : Item), e.loc.detached = [] → e.loc.leading ≠ "" →
    ∃ tl, itemCmds n e = Cmd.gap :: tl
  | .field f, h0, h => by
    obtain ⟨tl, htl⟩ := leadingCmds_gap n (l := f.loc) h0 h
    exact ⟨_, by simp only [itemCmds, fieldCmds]; rw [htl]; rfl⟩
  | .rpc l _ _ _ _ _, h0, h => by
    obtain ⟨tl, htl⟩ := leadingCmds_gap n (l := l) h0 h
    exact ⟨_, by simp only [itemCmds]; rw [htl]; rfl⟩
  | .block _ _ l _ _ _ _, h0, h => by
    obtain ⟨tl, htl⟩ := leadingCmds_gap n (l := l) h0 h
    exact ⟨_, by simp only [itemCmds]; rw [htl]; rfl⟩

/-! ## fields -/

theorem popts_strip_okL {f f' : FieldD} (h : fieldOkL f f') (hu : f.quietL) : f'.popts.map strip = f.popts.map strip := by
  obtain ⟨_, _, _, hname, _, hjson, _, hl, hok, _⟩ := h
  have hparsed : (f'.opts.map SOpt.parsed).flatten.map strip = (f.opts.map SOpt.parsed).flatten.map strip := by
    rw [flatten_map_strip, flatten_map_strip, List.map_map, List.map_map]
    congr 1
    apply map_eq_of_zip _ _ f.opts f'.opts hl
    intro p hp
    exact parsed_strip_ok (hok p hp) (hu.2 p.1 (List.of_mem_zip hp).1)
  unfold FieldD.popts
  rw [hjson, hname]
  cases f.json with
  | none => simp only []; rw [sortByName_strip, sortByName_strip, hparsed]
  | some j =>
    simp only []
    split
    · rw [List.map_append, List.map_append, sortByName_strip, sortByName_strip, hparsed]
    · rw [sortByName_strip, sortByName_strip, hparsed]

theorem fieldCmds_okL (n : Nat) {f f' : FieldD} (h : fieldOkL f f') (hu : f.quietL) :
    fieldCmds n f' = fieldCmds n f := by
  have hstrip := popts_strip_okL h hu
  obtain ⟨hk, hlab, hty, hname, hnum, hjson, hnc, hl, hok, hinl⟩ := h
  have hnc0 := hu.1
  unfold fieldCmds
  rw [leadingCmds_sameLead n hnc0 hnc, trailingCmds_nt n hnc.2.1, trailingCmds_nt n hnc0.2,
    inlineComment_nt hnc.2.1, inlineComment_nt hnc0.2]
  have hhead : f'.head = f.head := by unfold FieldD.head; rw [hk, hlab, hty, hname]
  rw [hhead, hnum]
  congr 2
  congr 1
  have hflag0 : ∀ p ∈ f.popts, p.inlineWithParent = true :=
    popts_flag f (fun o ho => SOpt.inl_unloc (hu.2 o ho))
  rw [← fieldStyle_strip n f.head (Scalar.formatInt f.number) "" f'.popts, hstrip,
    fieldStyle_strip n f.head (Scalar.formatInt f.number) "" f.popts]
  · intro p hp _; exact hflag0 p (by rw [hp]; simp)
  · intro p' hp' hne
    have hlen : f.popts.length = 1 := by
      have := congrArg List.length hstrip
      simp only [List.length_map, hp', List.length_singleton] at this
      exact this.symm
    match hf : f.popts, hlen with
    | [p], _ =>
      have hinl' : p.inl ≠ none := by
        rw [hp', hf] at hstrip
        simp only [List.map_cons, List.map_nil, List.cons.injEq, and_true] at hstrip
        have : p'.inl = p.inl := by
          have := congrArg POpt.inl hstrip
          simpa [strip] using this
        rw [← this]; exact hne
      exact popts_flag f' (hinl p hf hinl') p' (by rw [hp']; simp)

/-! ## elements -/

theorem relaidL_typeOrder : ∀ (e e' : Item), relaidL e e' → e'.typeOrder = e.typeOrder
  | .field _, .field _, _ => rfl
  | .rpc _ _ _ _ _ _, .rpc _ _ _ _ _ _, _ => rfl
  | .block _ _ _ _ _ _ _, .block _ _ _ _ _ _ _, h => by
    simp only [relaidL] at h
    exact h.2.1
  | .field _, .rpc _ _ _ _ _ _, h => by simp [relaidL] at h
  | .field _, .block _ _ _ _ _ _ _, h => by simp [relaidL] at h
  | .rpc _ _ _ _ _ _, .field _, h => by simp [relaidL] at h
  | .rpc _ _ _ _ _ _, .block _ _ _ _ _ _ _, h => by simp [relaidL] at h
  | .block _ _ _ _ _ _ _, .field _, h => by simp [relaidL] at h
  | .block _ _ _ _ _ _ _, .rpc _ _ _ _ _ _, h => by simp [relaidL] at h

theorem relaidKidsL_isEmpty (first pg : Bool) (ps le le0 lt : Nat) :
    ∀ (es es' : List Item), relaidKidsL first pg ps le le0 lt es es' → es'.isEmpty = es.isEmpty
  | [], [], _ => rfl
  | [], _ :: _, h => by simp [relaidKidsL] at h
  | _ :: _, [], h => by simp [relaidKidsL] at h
  | _ :: _, _ :: _, _ => rfl

/-- before an element that starts with a gap of its own, neither a pending gap nor the gap of `printElements` matters -/
theorem lead_gap (pg a b : Bool) (tl : List Cmd) :
    Equiv (pgC pg ++ ((if a = true then [Cmd.gap] else []) ++ Cmd.gap :: tl))
      (pgC pg ++ ((if b = true then [Cmd.gap] else []) ++ Cmd.gap :: tl)) := by
  intro g
  cases pg <;> cases a <;> cases b <;> simp [pgC, exec]

/-- the gap before an element, in front of the element -/
theorem gap_prefix_okL (pg a b : Bool) (c : List Cmd)
    (h1 : a = true → pg = true ∨ b = true ∨ ∃ tl, c = Cmd.gap :: tl)
    (h2 : b = true → pg = true ∨ a = true ∨ ∃ tl, c = Cmd.gap :: tl) :
    Equiv (pgC pg ++ ((if a = true then [Cmd.gap] else []) ++ c))
      (pgC pg ++ ((if b = true then [Cmd.gap] else []) ++ c)) := by
  by_cases hc : ∃ tl, c = Cmd.gap :: tl
  · obtain ⟨tl, rfl⟩ := hc
    exact lead_gap pg a b tl
  · have h1' : a = true → pg = true ∨ b = true := fun h => by
      rcases h1 h with h | h | h
      · exact Or.inl h
      · exact Or.inr h
      · exact absurd h hc
    have h2' : b = true → pg = true ∨ a = true := fun h => by
      rcases h2 h with h | h | h
      · exact Or.inl h
      · exact Or.inr h
      · exact absurd h hc
    have := Equiv.append (gap_prefix_ok pg a b h1' h2') (Equiv.refl c)
    simpa only [List.append_assoc] using this

mutual
theorem itemCmds_okL : ∀ (n : Nat) (e e' : Item), relaidL e e' → e.quietL → Equiv (itemCmds n e') (itemCmds n e)
  | n, .field f, .field f', h, hu => by
    simp only [relaidL] at h
    simp only [Item.quietL] at hu
    simp only [itemCmds]
    exact Equiv.of_eq (fieldCmds_okL n h hu)
  | n, .rpc l _ nm a b os, .rpc l' _ nm' a' b' os', h, hu => by
    simp only [relaidL] at h
    simp only [Item.quietL] at hu
    obtain ⟨hnm, ha, hb, hnc, hos⟩ := h
    have hnc0 := hu.1
    simp only [itemCmds]
    rw [leadingCmds_sameLead n hnc0 hnc, trailingCmds_nt n hnc.2.1, trailingCmds_nt n hnc0.2,
      inlineComment_nt hnc.2.1, inlineComment_nt hnc0.2,
      hnm, ha, hb, optsOk_isEmpty hos,
      sortOpts_map_ok (optionCmds (n + 1)) os os' hos hu.2 (fun o o' hk hh => optionCmds_ok (n + 1) hk hh)]
    exact Equiv.refl _
  | n, .block kw t l _ nm os ks, .block kw' t' l' _ nm' os' ks', h, hu => by
    simp only [relaidL] at h
    simp only [Item.quietL] at hu
    obtain ⟨hkw, ht, hnm, hnc, hos, hks⟩ := h
    have hnc0 := hu.1
    have hkids := elemsCmds_okL (n + 1) ks ks' true false 0 0 0 0 hks hu.2.2
    simp only [pgC, Bool.false_eq_true, if_false, List.nil_append] at hkids
    simp only [itemCmds]
    rw [leadingCmds_sameLead n hnc0 hnc, trailingCmds_nt (n + 1) hnc.2.1, trailingCmds_nt (n + 1) hnc0.2,
      inlineComment_nt hnc.2.1, inlineComment_nt hnc0.2,
      hkw, hnm, optsOk_isEmpty hos, relaidKidsL_isEmpty _ _ _ _ _ _ ks ks' hks, hnc.2.1, hnc0.2,
      sortOpts_map_ok (fun o => optionCmds (n + 1) o ++ [Cmd.gap]) os os' hos hu.2.1
        (fun o o' hk hh => by rw [optionCmds_ok (n + 1) hk hh])]
    apply Equiv.append _ (Equiv.refl _)
    apply Equiv.append (Equiv.refl _)
    split
    · exact Equiv.refl _
    · apply Equiv.append _ (Equiv.refl _)
      apply Equiv.append (Equiv.refl _)
      exact hkids
  | _, .field _, .rpc _ _ _ _ _ _, h, _ => by simp [relaidL] at h
  | _, .field _, .block _ _ _ _ _ _ _, h, _ => by simp [relaidL] at h
  | _, .rpc _ _ _ _ _ _, .field _, h, _ => by simp [relaidL] at h
  | _, .rpc _ _ _ _ _ _, .block _ _ _ _ _ _ _, h, _ => by simp [relaidL] at h
  | _, .block _ _ _ _ _ _ _, .field _, h, _ => by simp [relaidL] at h
  | _, .block _ _ _ _ _ _ _, .rpc _ _ _ _ _ _, h, _ => by simp [relaidL] at h
theorem elemsCmds_okL : ∀ (n : Nat) (es es' : List Item) (first pg : Bool) (ps le le0 lt : Nat),
    relaidKidsL first pg ps le le0 lt es es' → quietListL es →
    Equiv (pgC pg ++ elemsCmds n es' first le lt) (pgC pg ++ elemsCmds n es first le0 lt)
  | _, [], [], _, _, _, _, _, _, _, _ => Equiv.refl _
  | _, [], _ :: _, _, _, _, _, _, _, h, _ => by simp [relaidKidsL] at h
  | _, _ :: _, [], _, _, _, _, _, _, h, _ => by simp [relaidKidsL] at h
  | n, e :: r, e' :: r', first, pg, ps, le, le0, lt, h, hu => by
    simp only [relaidKidsL] at h
    simp only [quietListL] at hu
    obtain ⟨hre, _, hgap1, hgap2, hkids⟩ := h
    have hitem := itemCmds_okL n e e' hre hu.1
    have hrest := elemsCmds_okL n r r' false e.gapEnder e'.loc.startLine e'.loc.endLine e.loc.endLine e.typeOrder hkids hu.2
    obtain ⟨body, hbody⟩ := itemCmds_split n e
    have hdet := (Item.quietL_loc e hu.1).1
    have hlead : e.loc.leading ≠ "" → ∃ tl, itemCmds n e = Cmd.gap :: tl := itemCmds_gap n e hdet
    simp only [elemsCmds]
    rw [relaidL_typeOrder e e' hre]
    -- the gap before the element, together with the element
    have hg := gap_prefix_okL pg _ _ (itemCmds n e)
      (fun h => by
        rcases hgap1 h with h | h | h
        · exact Or.inl h
        · exact Or.inr (Or.inl h)
        · exact Or.inr (Or.inr (hlead h)))
      (fun h => by
        rcases hgap2 h with h | h | h
        · exact Or.inl h
        · exact Or.inr (Or.inl h)
        · exact Or.inr (Or.inr (hlead h)))
    -- replace the element of the reading by the original
    refine Equiv.trans (b := pgC pg ++ ((if gapCond first le e'.loc.startLine e.typeOrder lt = true then [Cmd.gap] else []) ++
        itemCmds n e ++ elemsCmds n r' false e'.loc.endLine e.typeOrder)) ?_ ?_
    · apply Equiv.append (Equiv.refl _)
      apply Equiv.append _ (Equiv.refl _)
      exact Equiv.append (Equiv.refl _) hitem
    -- the gap
    refine Equiv.trans (b := pgC pg ++ ((if gapCond first le0 e.loc.startLine e.typeOrder lt = true then [Cmd.gap] else []) ++
        itemCmds n e ++ elemsCmds n r' false e'.loc.endLine e.typeOrder)) ?_ ?_
    · have := Equiv.append hg (Equiv.refl (elemsCmds n r' false e'.loc.endLine e.typeOrder))
      simpa only [List.append_assoc] using this
    -- what follows
    rw [hbody]
    have := Equiv.append (Equiv.refl (pgC pg ++ ((if gapCond first le0 e.loc.startLine e.typeOrder lt = true then [Cmd.gap] else []) ++ body))) hrest
    simpa only [List.append_assoc] using this
end

/-! ## arranging a reading changes nothing -/

theorem relaidKidsL_inc (first pg : Bool) (ps le le0 lt : Nat) :
    ∀ (es es' : List Item), relaidKidsL first pg ps le le0 lt es es' → incStarts ps es'
  | [], [], _ => trivial
  | [], _ :: _, h => by simp [relaidKidsL] at h
  | _ :: _, [], h => by simp [relaidKidsL] at h
  | e :: r, e' :: r', h => by
    simp only [relaidKidsL] at h
    exact ⟨h.2.1, relaidKidsL_inc false e.gapEnder _ _ _ _ r r' h.2.2.2.2⟩

mutual
theorem arrange_relaidL : ∀ (e e' : Item), relaidL e e' → arrange e' = e'
  | .field _, .field _, _ => rfl
  | .rpc _ _ _ _ _ _, .rpc _ _ _ _ _ _, _ => rfl
  | .block _ _ _ _ _ _ ks, .block _ _ _ _ _ _ ks', h => by
    simp only [relaidL] at h
    have hks := h.2.2.2.2.2
    simp only [arrange]
    rw [arrangeList_relaidL ks ks' true false 0 0 0 0 hks, sortItems_inc ks' 0 (relaidKidsL_inc _ _ _ _ _ _ ks ks' hks)]
  | .field _, .rpc _ _ _ _ _ _, h => by simp [relaidL] at h
  | .field _, .block _ _ _ _ _ _ _, h => by simp [relaidL] at h
  | .rpc _ _ _ _ _ _, .field _, h => by simp [relaidL] at h
  | .rpc _ _ _ _ _ _, .block _ _ _ _ _ _ _, h => by simp [relaidL] at h
  | .block _ _ _ _ _ _ _, .field _, h => by simp [relaidL] at h
  | .block _ _ _ _ _ _ _, .rpc _ _ _ _ _ _, h => by simp [relaidL] at h
theorem arrangeList_relaidL : ∀ (es es' : List Item) (first pg : Bool) (ps le le0 lt : Nat),
    relaidKidsL first pg ps le le0 lt es es' → arrangeList es' = es'
  | [], [], _, _, _, _, _, _, _ => rfl
  | [], _ :: _, _, _, _, _, _, _, h => by simp [relaidKidsL] at h
  | _ :: _, [], _, _, _, _, _, _, h => by simp [relaidKidsL] at h
  | e :: r, e' :: r', _, _, _, _, _, _, h => by
    simp only [relaidKidsL] at h
    simp only [arrangeList]
    rw [arrange_relaidL e e' h.1, arrangeList_relaidL r r' _ _ _ _ _ _ h.2.2.2.2]
end

/-! ## the whole file -/

theorem printFile_relaidL (gen : String) (t d' : FileD) (hu : t.quietL) (hr : relaidFileL t d') :
    printFile gen d' = run (fileCmds gen t) false := by
  obtain ⟨hpkg, himp, himps, hnc, hopts, hel, hexts, hitems⟩ := hr
  obtain ⟨huloc, huopts, huexts, huitems⟩ := hu
  have harr : d'.arranged = d' := by
    unfold FileD.arranged
    rw [arrangeList_relaidL t.items d'.items true false 0 0 0 0 hitems,
      sortItems_inc d'.items 0 (relaidKidsL_inc _ _ _ _ _ _ t.items d'.items hitems)]
  unfold printFile
  rw [harr]
  apply Equiv.run_eq
  have hkids := elemsCmds_okL 0 t.items d'.items true false 0 0 0 0 hitems huitems
  simp only [pgC, Bool.false_eq_true, if_false, List.nil_append] at hkids
  have hextsEq : d'.exts.map (fun e => (e.1, fieldCmds 1 e.2)) = t.exts.map (fun e => (e.1, fieldCmds 1 e.2)) := by
    apply map_eq_of_zip _ _ t.exts d'.exts hel
    intro p hp
    obtain ⟨h1, h2⟩ := hexts p hp
    have hm : p.1 ∈ t.exts := (List.of_mem_zip hp).1
    rw [h1, fieldCmds_okL 1 h2 (huexts p.1 hm)]
  have hempty : d'.imports.isEmpty = t.imports.isEmpty := by
    rw [himp]
    unfold sortImports
    cases t.imports with
    | nil => rfl
    | cons x xs =>
      simp only [isort, List.isEmpty_cons]
      generalize isort _ xs = l
      cases l <;> simp [insertBy] <;> split <;> simp
  unfold fileCmds
  rw [hempty, himps, hpkg, himp, leadingCmds_noComments 0 hnc, leadingCmds_noComments 0 huloc, hextsEq,
    sortOpts_map_ok (optionCmds 0) t.opts d'.opts hopts huopts (fun o o' hk hh => optionCmds_ok 0 hk hh)]
  exact Equiv.append (Equiv.refl _) hkids

/-! ## arranging keeps the shape -/

theorem quietListL_iff : ∀ l : List Item, quietListL l ↔ ∀ x ∈ l, x.quietL
  | [] => by simp [quietListL]
  | x :: r => by simp [quietListL, quietListL_iff r]

mutual
theorem arrange_quietL : ∀ e : Item, e.quietL → (arrange e).quietL
  | .field _, h => h
  | .rpc _ _ _ _ _ _, h => h
  | .block _ _ _ _ _ _ ks, h => by
    simp only [Item.quietL] at h
    simp only [arrange, Item.quietL]
    refine ⟨h.1, h.2.1, ?_⟩
    rw [quietListL_iff]
    intro x hx
    unfold sortItems at hx
    rw [mem_goSort] at hx
    exact (quietListL_iff _).mp (arrangeList_quietL ks h.2.2) x hx
theorem arrangeList_quietL : ∀ l : List Item, quietListL l → quietListL (arrangeList l)
  | [], _ => trivial
  | x :: r, h => by
    simp only [quietListL] at h
    simp only [arrangeList, quietListL]
    exact ⟨arrange_quietL x h.1, arrangeList_quietL r h.2⟩
end

theorem FileD.arranged_quietL (d : FileD) (h : d.quietL) : d.arranged.quietL := by
  obtain ⟨h1, h2, h3, h4⟩ := h
  refine ⟨h1, h2, h3, ?_⟩
  unfold FileD.arranged
  simp only []
  rw [quietListL_iff]
  intro x hx
  unfold sortItems at hx
  rw [mem_goSort] at hx
  exact (quietListL_iff _).mp (arrangeList_quietL d.items h4) x hx

/-- **Printing is a fixed point, leading comments included.** -/
theorem printFile_reprintL (gen : String) (d d' : FileD) (hu : d.quietL) (hr : relaidFileL d.arranged d') :
    printFile gen d' = printFile gen d :=
  printFile_relaidL gen d.arranged d' (FileD.arranged_quietL d hu) hr

/-! ## the comment-free theorem is the special case -/

theorem Loc.noComments.leadOnly {l : Loc} (h : l.noComments) : l.leadOnly := ⟨h.1, h.2.2⟩

theorem sameLead_of_noComments {l l' : Loc} (h : l.noComments) (h' : l'.noComments) : Loc.sameLead l l' :=
  ⟨h'.1, h'.2.2, by rw [h'.2.1, h.2.1]⟩

theorem FieldD.quiet.toL {f : FieldD} (h : f.quiet) : f.quietL := ⟨h.1.leadOnly, h.2⟩

mutual
theorem Item.quiet_toL : ∀ e : Item, e.quiet → e.quietL
  | .field _, h => FieldD.quiet.toL h
  | .rpc _ _ _ _ _ _, h => ⟨h.1.leadOnly, h.2⟩
  | .block _ _ _ _ _ _ ks, h => by
    simp only [Item.quiet] at h
    simp only [Item.quietL]
    exact ⟨h.1.leadOnly, h.2.1, quietList_toL ks h.2.2⟩
theorem quietList_toL : ∀ l : List Item, quietList l → quietListL l
  | [], _ => trivial
  | x :: r, h => by
    simp only [quietList] at h
    simp only [quietListL]
    exact ⟨Item.quiet_toL x h.1, quietList_toL r h.2⟩
end

theorem FileD.quiet.toL {f : FileD} (h : f.quiet) : f.quietL :=
  ⟨h.1, h.2.1, fun e he => (h.2.2.1 e he).toL, quietList_toL f.items h.2.2.2⟩

theorem fieldOk.toL {f f' : FieldD} (h : fieldOk f f') (hu : f.quiet) : fieldOkL f f' := by
  obtain ⟨a, b, c, d, e, g, hnc, i, j, k⟩ := h
  exact ⟨a, b, c, d, e, g, sameLead_of_noComments hu.1 hnc, i, j, k⟩

mutual
theorem relaid_toL : ∀ (e e' : Item), relaid e e' → e.quiet → relaidL e e'
  | .field _, .field _, h, hu => by
    simp only [relaid] at h
    simp only [Item.quiet] at hu
    simp only [relaidL]
    exact h.toL hu
  | .rpc _ _ _ _ _ _, .rpc _ _ _ _ _ _, h, hu => by
    simp only [relaid] at h
    simp only [Item.quiet] at hu
    simp only [relaidL]
    exact ⟨h.1, h.2.1, h.2.2.1, sameLead_of_noComments hu.1 h.2.2.2.1, h.2.2.2.2⟩
  | .block _ _ _ _ _ _ ks, .block _ _ _ _ _ _ ks', h, hu => by
    simp only [relaid] at h
    simp only [Item.quiet] at hu
    simp only [relaidL]
    exact ⟨h.1, h.2.1, h.2.2.1, sameLead_of_noComments hu.1 h.2.2.2.1, h.2.2.2.2.1,
      relaidKids_toL ks ks' _ _ _ _ _ _ h.2.2.2.2.2 hu.2.2⟩
  | .field _, .rpc _ _ _ _ _ _, h, _ => by simp [relaid] at h
  | .field _, .block _ _ _ _ _ _ _, h, _ => by simp [relaid] at h
  | .rpc _ _ _ _ _ _, .field _, h, _ => by simp [relaid] at h
  | .rpc _ _ _ _ _ _, .block _ _ _ _ _ _ _, h, _ => by simp [relaid] at h
  | .block _ _ _ _ _ _ _, .field _, h, _ => by simp [relaid] at h
  | .block _ _ _ _ _ _ _, .rpc _ _ _ _ _ _, h, _ => by simp [relaid] at h
theorem relaidKids_toL : ∀ (es es' : List Item) (first pg : Bool) (ps le le0 lt : Nat),
    relaidKids first pg ps le le0 lt es es' → quietList es → relaidKidsL first pg ps le le0 lt es es'
  | [], [], _, _, _, _, _, _, _, _ => by simp [relaidKidsL]
  | [], _ :: _, _, _, _, _, _, _, h, _ => by simp [relaidKids] at h
  | _ :: _, [], _, _, _, _, _, _, h, _ => by simp [relaidKids] at h
  | e :: r, e' :: r', _, _, _, _, _, _, h, hu => by
    simp only [relaidKids] at h
    simp only [quietList] at hu
    simp only [relaidKidsL]
    refine ⟨relaid_toL e e' h.1 hu.1, h.2.1, ?_, ?_, relaidKids_toL r r' _ _ _ _ _ _ h.2.2.2.2 hu.2⟩
    · intro hg
      rcases h.2.2.1 hg with h | h
      · exact Or.inl h
      · exact Or.inr (Or.inl h)
    · intro hg
      rcases h.2.2.2.1 hg with h | h
      · exact Or.inl h
      · exact Or.inr (Or.inl h)
end

/-- every instance of the comment-free hypothesis is an instance of the one with leading comments -/
theorem relaidFile.toL {t d' : FileD} (h : relaidFile t d') (hu : t.quiet) : relaidFileL t d' := by
  obtain ⟨a, b, c, d, e, f, g, k⟩ := h
  refine ⟨a, b, c, d, e, f, ?_, relaidKids_toL _ _ _ _ _ _ _ _ k hu.2.2.2⟩
  intro p hp
  exact ⟨(g p hp).1, (g p hp).2.toL (hu.2.2.1 p.1 (List.of_mem_zip hp).1)⟩

end J5V.Print.Layout
