import J5V.Print.ReparseFile
/-!
# Services: methods without options (core only)

`rpc Name(In) returns (Out) {}` — with or without `stream` — as the scanner and `serviceBody` read it.
-/
namespace J5V.Print.Reparse
open J5V.Print J5V.Print.Grammar J5V.Print.Layout J5V.Print.OptionText J5V.Print.Scalar

/-- a request / response type as the printer writes it: `[stream ]type` -/
def rpcTyStr (st abs : Bool) (first : String) (rest : List String) : String :=
  (if st then "stream " else "") ++ tyStr abs first rest

/-- its tokens -/
def rpcTyToks (st abs : Bool) (first : String) (rest : List String) (l : Nat) : List PTok :=
  (if st then [T (.ident "stream") l] else []) ++ tyToks abs first rest l

theorem isIdent_rpc : IsIdent "rpc" := ⟨'r', ['p', 'c'], by decide, by decide, by decide⟩
theorem isIdent_returns : IsIdent "returns" := ⟨'r', ['e', 't', 'u', 'r', 'n', 's'], by decide, by decide, by decide⟩
theorem isIdent_stream : IsIdent "stream" := ⟨'s', ['t', 'r', 'e', 'a', 'm'], by decide, by decide, by decide⟩
theorem isIdent_service : IsIdent "service" := ⟨'s', ['e', 'r', 'v', 'i', 'c', 'e'], by decide, by decide, by decide⟩

theorem stopsI_paren (cs : List Char) : StopsI ('(' :: cs) := by
  intro c r h; simp only [List.cons.injEq] at h; rw [← h.1]; decide
theorem stopsI_cparen (cs : List Char) : StopsI (')' :: cs) := by
  intro c r h; simp only [List.cons.injEq] at h; rw [← h.1]; decide

/-- `[stream ]type)` … -/
theorem lexL_rpcTy (st abs : Bool) (first : String) (rest : List String) (more : List Char) (l : Nat)
    (hf : IsIdent first) (hr : ∀ r ∈ rest, IsIdent r) :
    (lexL ((rpcTyStr st abs first rest).toList ++ ')' :: more) l).filterMap toP =
      rpcTyToks st abs first rest l ++ T (.sym ')') l :: (lexL more l).filterMap toP := by
  unfold rpcTyStr rpcTyToks
  simp only [String.toList_append, List.append_assoc]
  cases st with
  | false =>
    have : ("".toList : List Char) = [] := by decide
    simp only [Bool.false_eq_true, if_false, this, List.nil_append]
    rw [lexL_tyStr abs first rest _ l hf hr (stopsI_cparen _), lexL_sym ')' (by decide)]
    simp [toP]
  | true =>
    have : ("stream ".toList : List Char) = "stream".toList ++ [' '] := by decide
    simp only [if_true, this, List.append_assoc, List.cons_append, List.nil_append]
    rw [lexL_ident "stream" isIdent_stream _ (stopsI_space _), lexL_space]
    simp only [List.filterMap_cons, toP]
    rw [lexL_tyStr abs first rest _ l hf hr (stopsI_cparen _), lexL_sym ')' (by decide)]
    simp [toP]

/-- the tokens of a method line -/
def rpcToks (name : String) (sI aI : Bool) (fI : String) (rI : List String) (sO aO : Bool) (fO : String)
    (rO : List String) (l : Nat) : List PTok :=
  T (.ident "rpc") l :: T (.ident name) l :: T (.sym '(') l ::
    (rpcTyToks sI aI fI rI l ++ T (.sym ')') l :: T (.ident "returns") l :: T (.sym '(') l ::
      (rpcTyToks sO aO fO rO l ++ [T (.sym ')') l, T (.sym '{') l, T (.sym '}') l]))

theorem lineToks_rpc (n : Nat) (name : String) (sI aI : Bool) (fI : String) (rI : List String) (sO aO : Bool)
    (fO : String) (rO : List String) (l : Nat) (hn : IsIdent name) (hfI : IsIdent fI) (hrI : ∀ r ∈ rI, IsIdent r)
    (hfO : IsIdent fO) (hrO : ∀ r ∈ rO, IsIdent r) :
    lineToks (rpcLine n name (rpcTyStr sI aI fI rI) (rpcTyStr sO aO fO rO)) l =
      rpcToks name sI aI fI rI sO aO fO rO l := by
  unfold lineToks rpcLine ind rpcToks
  simp only [String.toList_append, String.toList_ofList, List.append_assoc]
  rw [lexL_spaces]
  have h1 : ("rpc ".toList : List Char) = "rpc".toList ++ [' '] := by decide
  have h2 : ("(".toList : List Char) = ['('] := by decide
  have h3 : (") returns (".toList : List Char) = ')' :: ' ' :: ("returns".toList ++ [' ', '(']) := by decide
  have h4 : (")".toList : List Char) = [')'] := by decide
  have h5 : (" {}".toList : List Char) = [' ', '{', '}'] := by decide
  have h6 : ("".toList : List Char) = [] := by decide
  rw [h1, h2, h3, h4, h5, h6]
  simp only [List.append_assoc, List.cons_append, List.nil_append, List.append_nil]
  rw [lexL_ident "rpc" isIdent_rpc _ (stopsI_space _), lexL_space, lexL_ident name hn _ (stopsI_paren _),
    lexL_sym '(' (by decide)]
  simp only [List.filterMap_cons, toP]
  rw [lexL_rpcTy sI aI fI rI _ l hfI hrI, lexL_space, lexL_ident "returns" isIdent_returns _ (stopsI_space _), lexL_space,
    lexL_sym '(' (by decide)]
  simp only [List.filterMap_cons, toP]
  rw [lexL_rpcTy sO aO fO rO _ l hfO hrO, lexL_space, lexL_sym '{' (by decide), lexL_sym '}' (by decide), lexL_nil]
  simp [toP]

/-- the tokens of the first line of a method with options -/
def rpcOpenToks (name : String) (sI aI : Bool) (fI : String) (rI : List String) (sO aO : Bool) (fO : String)
    (rO : List String) (l : Nat) : List PTok :=
  T (.ident "rpc") l :: T (.ident name) l :: T (.sym '(') l ::
    (rpcTyToks sI aI fI rI l ++ T (.sym ')') l :: T (.ident "returns") l :: T (.sym '(') l ::
      (rpcTyToks sO aO fO rO l ++ [T (.sym ')') l, T (.sym '{') l]))

theorem lineToks_rpcOpen (n : Nat) (name : String) (sI aI : Bool) (fI : String) (rI : List String) (sO aO : Bool)
    (fO : String) (rO : List String) (l : Nat) (hn : IsIdent name) (hfI : IsIdent fI) (hrI : ∀ r ∈ rI, IsIdent r)
    (hfO : IsIdent fO) (hrO : ∀ r ∈ rO, IsIdent r) :
    lineToks (rpcOpenLine n name (rpcTyStr sI aI fI rI) (rpcTyStr sO aO fO rO)) l =
      rpcOpenToks name sI aI fI rI sO aO fO rO l := by
  unfold lineToks rpcOpenLine ind rpcOpenToks
  simp only [String.toList_append, String.toList_ofList, List.append_assoc]
  rw [lexL_spaces]
  have h1 : ("rpc ".toList : List Char) = "rpc".toList ++ [' '] := by decide
  have h2 : ("(".toList : List Char) = ['('] := by decide
  have h3 : (") returns (".toList : List Char) = ')' :: ' ' :: ("returns".toList ++ [' ', '(']) := by decide
  have h4 : (")".toList : List Char) = [')'] := by decide
  have h5 : (" {".toList : List Char) = [' ', '{'] := by decide
  have h6 : ("".toList : List Char) = [] := by decide
  rw [h1, h2, h3, h4, h5, h6]
  simp only [List.append_assoc, List.cons_append, List.nil_append, List.append_nil]
  rw [lexL_ident "rpc" isIdent_rpc _ (stopsI_space _), lexL_space, lexL_ident name hn _ (stopsI_paren _),
    lexL_sym '(' (by decide)]
  simp only [List.filterMap_cons, toP]
  rw [lexL_rpcTy sI aI fI rI _ l hfI hrI, lexL_space, lexL_ident "returns" isIdent_returns _ (stopsI_space _), lexL_space,
    lexL_sym '(' (by decide)]
  simp only [List.filterMap_cons, toP]
  rw [lexL_rpcTy sO aO fO rO _ l hfO hrO, lexL_space, lexL_sym '{' (by decide), lexL_nil]
  simp [toP]

/-! ## the parser on a method -/

theorem rpcType_toks (st abs : Bool) (first : String) (rest : List String) (l : Nat) (more : List PTok)
    (hf : IsIdent first) (hkw : st = false → abs = false → first ≠ "stream") :
    rpcType (T (.sym '(') l :: (rpcTyToks st abs first rest l ++ T (.sym ')') l :: more)) =
      some (rpcTyStr st abs first rest, more) := by
  have hty := typeName_toks abs first rest l (T (.sym ')') l :: more) hf.ne_empty
    (by intro t r h; simp only [List.cons.injEq] at h; rw [← h.1]; simp [T])
  unfold rpcTyToks rpcTyStr
  cases st with
  | true =>
    simp only [if_true, List.cons_append, List.nil_append, T] at hty ⊢
    simp only [rpcType, hty]
  | false =>
    simp only [Bool.false_eq_true, if_false, List.nil_append, String.empty_append]
    cases abs with
    | true =>
      simp only [tyToks, if_true, List.cons_append, List.nil_append, T] at hty ⊢
      simp only [rpcType, hty]
    | false =>
      have hne := hkw rfl rfl
      simp only [tyToks, Bool.false_eq_true, if_false, List.cons_append, List.nil_append, T] at hty ⊢
      rw [rpcType]
      · rw [hty]
        rfl
      · intro l1 c1 r heq
        simp only [List.cons.injEq, PTok.mk.injEq, Grammar.Tok.ident.injEq] at heq
        exact hne heq.1.1

theorem rpcBody_close (F l : Nat) (more : List PTok) : rpcBody (F + 1) (T (.sym '}') l :: more) [] = some ([], l, more) := by
  simp [rpcBody, T]

/-- a method in a service body -/
theorem serviceBody_rpc (F : Nat) (name : String) (sI aI : Bool) (fI : String) (rI : List String) (sO aO : Bool)
    (fO : String) (rO : List String) (l : Nat) (more : List PTok) (os : List RawOpt) (ms : List Item)
    (hfI : IsIdent fI) (hfO : IsIdent fO)
    (hkI : sI = false → aI = false → fI ≠ "stream") (hkO : sO = false → aO = false → fO ≠ "stream") (c : String) :
    serviceBody (F + 2) (hd c (rpcToks name sI aI fI rI sO aO fO rO l) ++ more) os ms =
      serviceBody (F + 1) more os
        (ms ++ [.rpc ((lineLoc l l).withLead c) 0 name (rpcTyStr sI aI fI rI) (rpcTyStr sO aO fO rO) []]) := by
  unfold rpcToks
  simp only [List.cons_append, List.append_assoc, List.nil_append, hd_T]
  have h1 := rpcType_toks sI aI fI rI l
    (T (.ident "returns") l :: T (.sym '(') l :: (rpcTyToks sO aO fO rO l ++
      (T (.sym ')') l :: T (.sym '{') l :: T (.sym '}') l :: more))) hfI hkI
  have h2 := rpcType_toks sO aO fO rO l (T (.sym '{') l :: T (.sym '}') l :: more) hfO hkO
  simp only [T] at h1 h2 ⊢
  rw [serviceBody, h1]
  simp only []
  rw [h2]
  simp only []
  have := rpcBody_close F l more
  simp only [T] at this
  rw [this]
  simp [mkLoc, Cm.none, leadCm, Loc.withLead, trailOf, mkOpts, groupOpts, unlocateShared, lineLoc]


theorem rpcBody_close' (F l : Nat) (more : List PTok) (os : List RawOpt) :
    rpcBody (F + 1) (T (.sym '}') l :: more) os = some (os, l, more) := by
  simp [rpcBody, T]

theorem rb_opts (s : Nat) : ∀ (chunks : List (List PTok)), ChunksOk chunks → ∀ (F : Nat) (more : List PTok)
    (os0 : List RawOpt),
    rpcBody (F + chunks.length) (sh s chunks.flatten ++ more) os0 =
      rpcBody F more (os0 ++ (rawsOf chunks).map (RawOpt.shift s))
  | [], _, F, more, os0 => by simp [rawsOf]
  | c :: cs, h, F, more, os0 => by
    obtain ⟨r, hr⟩ := h c (by simp)
    obtain ⟨l, cm, tl, rfl⟩ := chunk_head hr
    have hfr := optionStmt_frame s (sh s cs.flatten ++ more) _ _ _ hr
    simp only [sh_nil, List.nil_append] at hfr
    simp only [List.flatten_cons, sh_append, List.append_assoc, List.length_cons]
    rw [← Nat.add_assoc]
    simp only [sh_cons, PTok.shift, List.cons_append] at hfr ⊢
    simp only [rpcBody, hfr]
    rw [rb_opts s cs (fun c' hc' => h c' (by simp [hc'])) F more _, rawsOf_cons hr, List.map_cons, List.append_assoc]
    rfl

/-- a method with a body in a service body -/
theorem serviceBody_rpcOpen (F : Nat) (name : String) (sI aI : Bool) (fI : String) (rI : List String) (sO aO : Bool)
    (fO : String) (rO : List String) (l : Nat) (r3 : List PTok) (os : List RawOpt) (ms : List Item)
    (hfI : IsIdent fI) (hfO : IsIdent fO)
    (hkI : sI = false → aI = false → fI ≠ "stream") (hkO : sO = false → aO = false → fO ≠ "stream")
    (ros : List RawOpt) (le : Nat) (r4 : List PTok) (hb : rpcBody (F + 1) r3 [] = some (ros, le, r4)) (c : String) :
    serviceBody (F + 2) (hd c (rpcOpenToks name sI aI fI rI sO aO fO rO l) ++ r3) os ms =
      serviceBody (F + 1) r4 os
        (ms ++ [.rpc (mkLoc l le (leadCm c) (trailOf r3)) 0 name (rpcTyStr sI aI fI rI) (rpcTyStr sO aO fO rO) (mkOpts l ros)]) := by
  unfold rpcOpenToks
  simp only [List.cons_append, List.append_assoc, List.nil_append, hd_T]
  have h1 := rpcType_toks sI aI fI rI l
    (T (.ident "returns") l :: T (.sym '(') l :: (rpcTyToks sO aO fO rO l ++
      (T (.sym ')') l :: T (.sym '{') l :: r3))) hfI hkI
  have h2 := rpcType_toks sO aO fO rO l (T (.sym '{') l :: r3) hfO hkO
  simp only [T] at h1 h2 ⊢
  rw [serviceBody, h1]
  simp only []
  rw [h2]
  simp only []
  rw [hb]

/-! ## services in the files of the theorem -/

/-- a method (statement options allowed; a leading comment allowed, asked `CommentOk` by the list) -/
def SimpleRpc : Item → Prop
  | .rpc l _ name inT outT os =>
    l.leadOnly ∧ RpcOpts os ∧ IsIdent name ∧
    (∃ (st abs : Bool) (first : String) (rest : List String), IsIdent first ∧ (∀ r ∈ rest, IsIdent r) ∧
      inT = rpcTyStr st abs first rest ∧ (st = false → abs = false → first ≠ "stream")) ∧
    (∃ (st abs : Bool) (first : String) (rest : List String), IsIdent first ∧ (∀ r ∈ rest, IsIdent r) ∧
      outT = rpcTyStr st abs first rest ∧ (st = false → abs = false → first ≠ "stream"))
  | _ => False

def SimpleRpcs : List Item → Prop
  | [] => True
  | e :: r => SimpleRpc e ∧ CommentOk e.loc.leading ∧ SimpleRpcs r

/-- a service without comments (statement options allowed, methods without options) -/
def SimpleService : Item → Prop
  | .block kw t l _ name os ks => l.leadOnly ∧ BlockOpts os ∧ IsIdent name ∧ kw = "service" ∧ t = 0 ∧ SimpleRpcs ks
  | _ => False

theorem SimpleRpc.plain : ∀ e, SimpleRpc e → Plain e
  | .rpc _ _ _ _ _ _, h => ⟨h.1, h.2.1⟩
  | .field _, h => h.elim
  | .block _ _ _ _ _ _ _, h => h.elim

theorem SimpleRpcs.plain : ∀ es, SimpleRpcs es → PlainList es
  | [], _ => trivial
  | e :: r, h => ⟨SimpleRpc.plain e h.1, h.2.1, SimpleRpcs.plain r h.2.2⟩

theorem SimpleService.plain : ∀ e, SimpleService e → Plain e
  | .block _ _ _ _ _ _ ks, h => ⟨h.1, h.2.1, SimpleRpcs.plain ks h.2.2.2.2.2⟩
  | .field _, h => h.elim
  | .rpc _ _ _ _ _ _, h => h.elim

theorem serviceBody_close (F l : Nat) (more : List PTok) (os : List RawOpt) (ms : List Item) :
    serviceBody (F + 1) (T (.sym '}') l :: more) os ms = some (os, ms, l, more) := by
  simp [serviceBody, T]

theorem sb_opts (s : Nat) : ∀ (chunks : List (List PTok)), ChunksOk chunks → ∀ (F : Nat) (more : List PTok)
    (os0 : List RawOpt) (ms : List Item),
    serviceBody (F + chunks.length) (sh s chunks.flatten ++ more) os0 ms =
      serviceBody F more (os0 ++ (rawsOf chunks).map (RawOpt.shift s)) ms
  | [], _, F, more, os0, ms => by simp [rawsOf]
  | c :: cs, h, F, more, os0, ms => by
    obtain ⟨r, hr⟩ := h c (by simp)
    obtain ⟨l, cm, tl, rfl⟩ := chunk_head hr
    have hfr := optionStmt_frame s (sh s cs.flatten ++ more) _ _ _ hr
    simp only [sh_nil, List.nil_append] at hfr
    simp only [List.flatten_cons, sh_append, List.append_assoc, List.length_cons]
    rw [← Nat.add_assoc]
    simp only [sh_cons, PTok.shift, List.cons_append] at hfr ⊢
    rw [serviceBody]
    simp only [hfr]
    rw [sb_opts s cs (fun c' hc' => h c' (by simp [hc'])) F more _ ms, rawsOf_cons hr, List.map_cons, List.append_assoc]
    rfl

theorem trailOf_rpcOpts (os : List SOpt) (s : Nat) (rest : List PTok) (hr : trailOf rest = "") :
    trailOf (sh s (rpcToks0 os) ++ rest) = "" := by
  have : toksOf (rpcCmds0 os) false (1 + s) = sh s (rpcToks0 os) := toksOf_shift (rpcCmds0 os) false 1 s
  rw [← this]
  exact trailOf_toksOf _ _ _ _ hr

theorem mkOpts_rpc (os : List SOpt) (s : Nat) :
    mkOpts s ((rawsOf (rpcChunks os)).map (RawOpt.shift s)) = rdRpcOpts os s := by
  have := mkOpts_shift 0 s (rpcRaws0 os)
  rw [Nat.zero_add] at this
  exact this

theorem sb_rpcs : ∀ (es : List Item), SimpleRpcs es → ∀ (n : Nat) (first : Bool) (le0 lt L : Nat) (g : Bool) (F : Nat)
    (os : List RawOpt) (ms : List Item) (rest : List PTok), trailOf rest = "" → (∀ e ∈ es, need1 e ≤ F) →
    serviceBody ((F + 1) + es.length) (kT n es first le0 lt g L ++ rest) os ms =
      serviceBody (F + 1) rest os (ms ++ (rdKids es first le0 lt L g).1)
  | [], _, n, first, le0, lt, L, g, F, os, ms, rest, _, _ => by simp [kT_nil, rdKids]
  | .rpc l i name inT outT opts :: r, h, n, first, le0, lt, L, g, F, os, ms, rest, hrest, hF => by
    obtain ⟨⟨hl, ho, hname, ⟨sI, aI, fI, rI, hfI, hrI, hin, hkI⟩, ⟨sO, aO, fO, rO, hfO, hrO, hout, hkO⟩⟩, hcm, hr⟩ := h
    subst hin hout
    have hF' : ∀ e ∈ r, need1 e ≤ F := fun e he => hF e (by simp [he])
    have hF0 := hF _ (List.mem_cons_self)
    simp only [need1] at hF0
    rw [kT_cons, rdKids_cons]
    generalize kidS (Item.rpc l i name (rpcTyStr sI aI fI rI) (rpcTyStr sO aO fO rO) opts) first le0 lt L g = st
    by_cases hemp : opts.isEmpty = true
    · have hnil : opts = [] := by simpa using hemp
      subst hnil
      simp only [itemToks, List.isEmpty_nil, if_true, List.length_cons, List.append_assoc]
      rw [lineToks_rpc n name sI aI fI rI sO aO fO rO _ hname hfI hrI hfO hrO]
      have e : F + 1 + (r.length + 1) = (F + r.length) + 2 := by omega
      rw [e, serviceBody_rpc (F + r.length) name sI aI fI rI sO aO fO rO _ _ os ms hfI hfO hkI hkO]
      have e2 : F + r.length + 1 = (F + 1) + r.length := by omega
      rw [e2, sb_rpcs r hr n false _ _ _ _ F os _ rest hrest hF']
      simp only [rdItem, List.isEmpty_nil, if_true, List.append_assoc, List.cons_append, List.nil_append,
        Item.withLead, Item.loc]
    · have hne : opts.isEmpty = false := by simpa using hemp
      simp only [itemToks, hne, Bool.false_eq_true, if_false, List.length_cons, List.append_assoc]
      rw [lineToks_rpcOpen n name sI aI fI rI sO aO fO rO _ hname hfI hrI hfO hrO, lineToks_close]
      have e : F + 1 + (r.length + 1) = (F + r.length) + 2 := by omega
      obtain ⟨F1, hF1⟩ : ∃ F1, F + r.length + 1 = (F1 + 1) + (rpcChunks opts).length :=
        ⟨F + r.length - (rpcChunks opts).length, by omega⟩
      generalize hmore : kT n r false (Item.rpc l i name (rpcTyStr sI aI fI rI) (rpcTyStr sO aO fO rO) opts).loc.endLine
        (Item.rpc l i name (rpcTyStr sI aI fI rI) (rpcTyStr sO aO fO rO) opts).typeOrder
        (Item.rpc l i name (rpcTyStr sI aI fI rI) (rpcTyStr sO aO fO rO) opts).gapEnder
        (rdItem (Item.rpc l i name (rpcTyStr sI aI fI rI) (rpcTyStr sO aO fO rO) opts) st).2 ++ rest = more
      have hmoreT : trailOf more = "" := by rw [← hmore]; exact trailOf_kT _ _ _ _ _ _ _ _ hrest
      have hb0 := rb_opts st (rpcChunks opts) ho.chunks (F1 + 1) (T (.sym '}') (st + 1 + rpcSpan opts) :: more) []
      rw [ho.whole, rpcBody_close', ← hF1] at hb0
      have hassoc : hd (Item.rpc l i name (rpcTyStr sI aI fI rI) (rpcTyStr sO aO fO rO) opts).loc.leading
            (rpcOpenToks name sI aI fI rI sO aO fO rO st ++ (sh st (rpcToks0 opts) ++ [T (Tok.sym '}') (st + 1 + rpcSpan opts)])) ++ more =
          hd (Item.rpc l i name (rpcTyStr sI aI fI rI) (rpcTyStr sO aO fO rO) opts).loc.leading
            (rpcOpenToks name sI aI fI rI sO aO fO rO st) ++ (sh st (rpcToks0 opts) ++ T (Tok.sym '}') (st + 1 + rpcSpan opts) :: more) := by
        simp [rpcOpenToks, hd_T, List.append_assoc]
      rw [hassoc, e, serviceBody_rpcOpen (F + r.length) name sI aI fI rI sO aO fO rO _ _ os ms hfI hfO hkI hkO _ _ _ hb0]
      have e2 : F + r.length + 1 = (F + 1) + r.length := by omega
      rw [← hmore, e2, sb_rpcs r hr n false _ _ _ _ F os _ rest hrest hF']
      have htr := trailOf_rpcOpts opts st (T (.sym '}') (st + 1 + rpcSpan opts) :: more) rfl
      rw [hmore]
      simp only [List.nil_append, htr, mkLoc_leadPlain, mkOpts_rpc]
      simp only [rdItem, hne, Bool.false_eq_true, if_false, List.append_assoc, List.cons_append, List.nil_append,
        Item.typeOrder, Item.gapEnder, Item.withLead, Item.loc]
  | .field _ :: _, h, _, _, _, _, _, _, _, _, _, _, _, _ => h.1.elim
  | .block _ _ _ _ _ _ _ :: _, h, _, _, _, _, _, _, _, _, _, _, _, _ => h.1.elim

section
variable {x : Char} (hx : Safe x)
include hx

theorem noCh_rpcTyStr (st abs : Bool) (first : String) (rest : List String) (hf : IsIdent first)
    (hr : ∀ r ∈ rest, IsIdent r) : NoCh x (rpcTyStr st abs first rest).toList := by
  unfold rpcTyStr
  simp only [String.toList_append]
  refine NoCh.append hx ?_ (noCh_tyStr hx abs first rest hf hr)
  cases st
  · exact noCh_lit hx "" (by simp)
  · exact noCh_lit hx "stream " (by simp)

theorem simpleRpc_own : ∀ (e : Item) (n : Nat), SimpleRpc e → CmdsNoCh x (ownCmds n e)
  | .rpc l i name inT outT opts, n, h => by
    obtain ⟨hl, ho, hname, ⟨sI, aI, fI, rI, hfI, hrI, hin, _⟩, ⟨sO, aO, fO, rO, hfO, hrO, hout, _⟩⟩ := h
    subst hin hout
    have hhead : ∀ tail : String, tail ∈ [" {}", " {"] → NoCh x (ind n ("rpc " ++ name ++ "(" ++ rpcTyStr sI aI fI rI ++
        ") returns (" ++ rpcTyStr sO aO fO rO ++ ")" ++ tail ++ "")).toList := by
      intro tail ht
      apply noCh_ind hx
      simp only [String.toList_append]
      have htail : NoCh x tail.toList := by
        simp only [List.mem_cons, List.not_mem_nil, or_false] at ht
        rcases ht with rfl | rfl
        · exact noCh_lit hx " {}" (by simp)
        · exact noCh_lit hx " {" (by simp)
      exact NoCh.append hx (NoCh.append hx (NoCh.append hx (NoCh.append hx (NoCh.append hx (NoCh.append hx (NoCh.append hx
        (NoCh.append hx (noCh_lit hx "rpc " (by simp)) (noCh_ident hx hname)) (noCh_lit hx "(" (by simp)))
        (noCh_rpcTyStr hx sI aI fI rI hfI hrI)) (noCh_lit hx ") returns (" (by simp)))
        (noCh_rpcTyStr hx sO aO fO rO hfO hrO)) (noCh_lit hx ")" (by simp))) htail)
        (noCh_lit hx "" (by simp))
    simp only [ownCmds]
    by_cases hemp : opts.isEmpty = true
    · have hnil : opts = [] := by simpa using hemp
      subst hnil
      rw [rpcCmds_plain n l i name _ _ hl]
      refine CmdsNoCh.append ?_ (cmdsNoCh_gap x)
      apply cmdsNoCh_line
      exact hhead " {}" (by simp)
    · have hne : opts.isEmpty = false := by simpa using hemp
      rw [rpcCmds_opts n l i name _ _ opts hl hne]
      refine CmdsNoCh.append (cmdsNoCh_line x _ (hhead " {" (by simp))) (CmdsNoCh.append ?_
        (CmdsNoCh.append (cmdsNoCh_endl x _ (noCh_ind hx n "}" (noCh_lit hx "}" (by simp)))) (cmdsNoCh_gap x)))
      rw [rpcOptCmds_indent]
      intro c hc
      simp only [List.mem_map] at hc
      obtain ⟨c0, hc0, rfl⟩ := hc
      simp only [rpcCmds0, List.mem_flatten, List.mem_map] at hc0
      obtain ⟨cs, ⟨o, ho', rfl⟩, hmem⟩ := hc0
      simp only [optionCmds, List.mem_map] at hmem
      obtain ⟨ln, hln, rfl⟩ := hmem
      simp only [Cmd.indent]
      have hl' : ln ∈ optLines0 opts := by
        simp only [optLines0, List.mem_flatten, List.mem_map]
        exact ⟨_, ⟨o, ho', rfl⟩, hln⟩
      have := ho.noch ln hl'
      rcases hx.only with h2 | h2
      · left
        apply noCh_ind hx
        intro ch hch hcx
        exact this.1 ch hch (hcx.trans h2)
      · exact Or.inr ⟨h2, tokLine_ind_of_ok _ ln this.2⟩
  | .field _, _, h => h.elim
  | .block _ _ _ _ _ _ _, _, h => h.elim

theorem simpleService_own : ∀ (e : Item) (n : Nat), SimpleService e → CmdsNoCh x (ownCmds n e)
  | .block kw t l i name os kids, n, h => by
    obtain ⟨hl, ho, hname, hkw, _, hk⟩ := h
    subst hkw
    exact block_own hx n "service" t l i name os kids (noCh_lit hx "service" (by simp)) hname ho
  | .field _, _, h => h.elim
  | .rpc _ _ _ _ _ _, _, h => h.elim

end


/-! ## the top level: messages, enums and services -/

theorem topLevel_service_step (F : Nat) (name : String) (s : Nat) (cm : Cm) (r : List PTok) (a : Acc) :
    topLevel (F + 1) (⟨.ident "service", s, cm⟩ :: T (.ident name) s :: T (.sym '{') s :: r) a =
      match serviceBody F r [] [] with
      | some (sos, ms, le, r') =>
        topLevel F r' { a with items := a.items ++ [.block "service" 0 (mkLoc s le cm (trailOf r)) 0 name (mkOpts s sos) ms] }
      | none => none := by
  simp only [T]
  rw [topLevel]
  rfl

theorem need1_le_needAll (e : Item) : ∀ (es : List Item), e ∈ es → need1 e ≤ needAll es
  | [], h => by simp at h
  | x :: r, h => by
    simp only [needAll]
    rcases List.mem_cons.mp h with rfl | h
    · omega
    · have := need1_le_needAll e r h
      omega

theorem top_service : ∀ (e : Item), SimpleService e → ∀ (s G : Nat) (c : String) (a : Acc) (more : List PTok),
    trailOf more = "" → need1 e ≤ G →
    topLevel (G + 1) (hd c (itemToks 0 e s) ++ more) a =
      topLevel G more { a with items := a.items ++ [(rdItem e s).1.withLead c] }
  | .field _, h, _, _, _, _, _, _, _ => h.elim
  | .rpc _ _ _ _ _ _, h, _, _, _, _, _, _, _ => h.elim
  | .block kw t l i name opts kids, h, s, G, c, a, more, hm, hG => by
    obtain ⟨hl, ho, hname, hkw, ht, hk⟩ := h
    subst hkw ht
    simp only [need1] at hG
    have htr : trailOf (sh s (optToks0 opts) ++ (kT (0 + 1) kids true 0 0 (!opts.isEmpty) (s + 1 + optSpan opts) ++
        T (.sym '}') (rdKids kids true 0 0 (s + 1 + optSpan opts) (!opts.isEmpty)).2 :: more)) = "" :=
      trailOf_opts _ _ _ (trailOf_kT _ _ _ _ _ _ _ _ rfl)
    have htr0 : trailOf (T (.sym '}') s :: more) = "" := rfl
    by_cases hempty : (kids.isEmpty && opts.isEmpty) = true
    · simp only [Bool.and_eq_true, List.isEmpty_iff] at hempty
      obtain ⟨rfl, rfl⟩ := hempty
      simp only [itemToks, rdItem, List.isEmpty_nil, Bool.and_self, if_true]
      rw [lineToks_empty 0 "service" name s isIdent_service hname]
      simp only [List.cons_append, List.nil_append, hd_T]
      rw [topLevel_service_step]
      obtain ⟨G', rfl⟩ : ∃ G', G = G' + 1 := ⟨G - 1, by omega⟩
      rw [serviceBody_close]
      simp only [mkOpts, groupOpts, unlocateShared, List.map_nil, htr0, mkLoc_leadPlain]
      rfl
    · have hne : (kids.isEmpty && opts.isEmpty) = false := by simpa using hempty
      simp only [itemToks, rdItem, hne, Bool.false_eq_true, if_false]
      rw [lineToks_open 0 "service" name s isIdent_service hname, lineToks_close]
      simp only [List.cons_append, List.nil_append, List.append_assoc, hd_T]
      rw [topLevel_service_step]
      obtain ⟨F', hGe⟩ : ∃ F', G = ((F' + 1) + kids.length) + (optChunks opts).length :=
        ⟨G - kids.length - (optChunks opts).length - 1, by omega⟩
      have hopts := sb_opts s (optChunks opts) ho.chunks ((F' + 1) + kids.length)
        (kT (0 + 1) kids true 0 0 (!opts.isEmpty) (s + 1 + optSpan opts) ++
          T (.sym '}') (rdKids kids true 0 0 (s + 1 + optSpan opts) (!opts.isEmpty)).2 :: more) [] []
      rw [ho.whole] at hopts
      rw [hGe, hopts, sb_rpcs kids hk 1 true 0 0 (s + 1 + optSpan opts) (!opts.isEmpty) F' _ [] _ rfl
        (fun e he => by have := need1_le_needAll e kids he; omega), serviceBody_close]
      have hmk := mkOpts_block opts s
      unfold optRaws0 at hmk
      simp only [List.nil_append, htr, mkLoc_leadPlain, hmk]
      rfl

/-- what a file holds at its top level -/
def SimpleTop (e : Item) : Prop := (SimpleItem e ∧ IsBlock e) ∨ SimpleService e

def SimpleTops : List Item → Prop
  | [] => True
  | e :: r => SimpleTop e ∧ CommentOk e.loc.leading ∧ SimpleTops r

theorem SimpleTop.plain (e : Item) (h : SimpleTop e) : Plain e := by
  rcases h with h | h
  · exact SimpleItem.plain e h.1
  · exact SimpleService.plain e h

theorem SimpleTops.plain : ∀ es, SimpleTops es → PlainList es
  | [], _ => trivial
  | e :: r, h => ⟨SimpleTop.plain e h.1, h.2.1, SimpleTops.plain r h.2.2⟩

theorem top_tops : ∀ (es : List Item), SimpleTops es →
    ∀ (first : Bool) (le0 lt L : Nat) (g : Bool) (F : Nat) (a : Acc) (rest : List PTok), trailOf rest = "" → needAll es ≤ F →
    topLevel (F + es.length) (kT 0 es first le0 lt g L ++ rest) a =
      topLevel F rest { a with items := a.items ++ (rdKids es first le0 lt L g).1 }
  | [], _, first, le0, lt, L, g, F, a, rest, _, _ => by
    simp [kT_nil, rdKids]
  | e :: r, h, first, le0, lt, L, g, F, a, rest, hr, hF => by
    simp only [SimpleTops] at h
    simp only [needAll] at hF
    rw [kT_cons, rdKids_cons]
    simp only [List.length_cons, List.append_assoc]
    have hstep : topLevel (F + r.length + 1)
        (hd e.loc.leading (itemToks 0 e (kidS e first le0 lt L g)) ++
          (kT 0 r false e.loc.endLine e.typeOrder e.gapEnder (rdItem e (kidS e first le0 lt L g)).2 ++ rest)) a =
        topLevel (F + r.length) (kT 0 r false e.loc.endLine e.typeOrder e.gapEnder
          (rdItem e (kidS e first le0 lt L g)).2 ++ rest)
          { a with items := a.items ++ [(rdItem e (kidS e first le0 lt L g)).1.withLead e.loc.leading] } := by
      rcases h.1 with hs | hs
      · exact top_item e hs.1 hs.2 _ (F + r.length) _ a _ (trailOf_kT _ _ _ _ _ _ _ _ hr) (by omega)
      · exact top_service e hs _ (F + r.length) _ a _ (trailOf_kT _ _ _ _ _ _ _ _ hr) (by omega)
    rw [← Nat.add_assoc, hstep, top_tops r h.2.2 false _ _ _ _ F _ rest hr (by omega)]
    simp only [List.append_assoc, List.cons_append, List.nil_append]

end J5V.Print.Reparse
