import J5V.Print.ReparseMain
import J5V.Print.ReparseComments
/-!
# Which files the grammar theorem covers — a decidable test (core only)

`simpleFileB gen t = true → SimpleFile gen t` (`simpleFileB_sound`): the driver evaluates the test on
every op of `print.file` (`cover` ops, see `checks/C05.py`) and the check reports the fraction of the
generated / compiled files the theorem `C05_reparse` speaks about, together with the reasons a file is
outside (`whyNot`, informative only).
-/
namespace J5V.Print.Cover
open J5V.Print J5V.Print.Grammar J5V.Print.Layout J5V.Print.OptionText J5V.Print.Reparse

/-! ## identifiers and dotted names -/

def isIdentB (s : String) : Bool :=
  match s.toList with
  | c :: cs => isLetter c && cs.all isIdentChar
  | [] => false

theorem isIdentB_sound {s : String} (h : isIdentB s = true) : IsIdent s := by
  unfold isIdentB at h
  split at h
  · rename_i c cs hcs
    simp only [Bool.and_eq_true, List.all_eq_true] at h
    exact ⟨c, cs, hcs, h.1, h.2⟩
  · simp at h

/-- the pieces between dots -/
def splitDots : List Char → List Char → List (List Char)
  | [], cur => [cur.reverse]
  | c :: cs, cur => if c = '.' then cur.reverse :: splitDots cs [] else splitDots cs (c :: cur)

/-- … and back -/
def joinDots : List (List Char) → List Char
  | [] => []
  | [a] => a
  | a :: b :: r => a ++ '.' :: joinDots (b :: r)

theorem splitDots_ne_nil : ∀ (cs cur : List Char), splitDots cs cur ≠ []
  | [], _ => by simp [splitDots]
  | c :: cs, cur => by
    unfold splitDots
    split
    · simp
    · exact splitDots_ne_nil cs _

theorem joinDots_cons_ne (a : List Char) (l : List (List Char)) (hl : l ≠ []) :
    joinDots (a :: l) = a ++ '.' :: joinDots l := by
  cases l with
  | nil => exact absurd rfl hl
  | cons b r => rfl

theorem join_split : ∀ (cs cur : List Char), joinDots (splitDots cs cur) = cur.reverse ++ cs
  | [], cur => by simp [splitDots, joinDots]
  | c :: cs, cur => by
    unfold splitDots
    split
    · rename_i hc
      rw [joinDots_cons_ne _ _ (splitDots_ne_nil cs []), join_split cs [], hc]
      simp
    · rw [join_split cs (c :: cur)]
      simp

theorem joinDots_eq (f : List Char) (r : List (List Char)) :
    joinDots (f :: r) = f ++ (r.map fun x => '.' :: x).flatten := by
  induction r generalizing f with
  | nil => simp [joinDots]
  | cons b r ih => rw [joinDots_cons_ne _ _ (by simp), ih b]; simp

def partsOf (abs : Bool) (body : List Char) : Option (Bool × String × List String) :=
  match splitDots body [] with
  | f :: r => some (abs, String.ofList f, r.map String.ofList)
  | [] => none

/-- a dotted name, with or without a leading dot: `(abs, first, rest)` -/
def tyParts (cs : List Char) : Option (Bool × String × List String) :=
  match cs with
  | '.' :: r => partsOf true r
  | _ => partsOf false cs

theorem tyStr_toList (abs : Bool) (first : String) (rest : List String) :
    (tyStr abs first rest).toList =
      (if abs then ['.'] else []) ++ first.toList ++ (rest.map fun r => '.' :: r.toList).flatten := by
  unfold tyStr
  rw [dotted_toList]
  cases abs <;> simp [String.toList_append]

theorem partsOf_sound (a : Bool) (body : List Char) (abs : Bool) (first : String) (rest : List String)
    (h : partsOf a body = some (abs, first, rest)) :
    (if a then ['.'] else []) ++ body =
      (if abs then ['.'] else []) ++ first.toList ++ (rest.map fun r => '.' :: r.toList).flatten := by
  unfold partsOf at h
  have hj := join_split body []
  split at h
  · rename_i f r hsp
    simp only [Option.some.injEq, Prod.mk.injEq] at h
    obtain ⟨rfl, rfl, rfl⟩ := h
    rw [hsp, joinDots_eq] at hj
    simp only [List.reverse_nil, List.nil_append] at hj
    rw [← hj]
    simp only [String.toList_ofList, List.map_map, List.append_assoc]
    congr 3
    apply List.map_congr_left
    intro x _
    simp [Function.comp]
  · simp at h

theorem tyParts_sound (s : String) (abs : Bool) (first : String) (rest : List String)
    (h : tyParts s.toList = some (abs, first, rest)) : s = tyStr abs first rest := by
  apply String.ext
  rw [tyStr_toList]
  unfold tyParts at h
  split at h
  · rename_i r hcs
    rw [hcs, ← partsOf_sound true r abs first rest h]
    rfl
  · rw [← partsOf_sound false s.toList abs first rest h]
    rfl

/-! ## the test -/

def labelOkB (l : String) : Bool := l == "" || l == "repeated " || l == "optional "

def kwOkB (s : String) : Bool :=
  s != "repeated" && s != "optional" && s != "option" && s != "message" && s != "enum" && s != "oneof"

/-- no comments (the element may have source lines) -/
def locNoneB (l : Loc) : Bool :=
  l.detached.isEmpty && l.leading == "" && l.trailing == ""

theorem locNoneB_sound {l : Loc} (h : locNoneB l = true) : l.noComments := by
  unfold locNoneB at h
  simp only [Bool.and_eq_true, beq_iff_eq, List.isEmpty_iff] at h
  exact ⟨h.1.1, h.1.2, h.2⟩

/-- at most a leading comment -/
def leadOnlyB (l : Loc) : Bool := l.detached.isEmpty && l.trailing == ""

theorem leadOnlyB_sound {l : Loc} (h : leadOnlyB l = true) : l.leadOnly := by
  simp only [leadOnlyB, Bool.and_eq_true, beq_iff_eq, List.isEmpty_iff] at h
  exact ⟨h.1, h.2⟩

/-- the leading comment is one the printer splits into lines and the reader joins again -/
def commentOkB (c : String) : Bool :=
  c == "" || (!(commentBody c).isEmpty && (commentBody c).all (fun x => x.toList.all (· != '\n')) &&
    String.join ((commentBody c).map (· ++ "\n")) == c)

theorem commentOkB_sound {c : String} (h : commentOkB c = true) : CommentOk c := by
  simp only [commentOkB, Bool.or_eq_true, beq_iff_eq, Bool.and_eq_true, Bool.not_eq_true', List.all_eq_true,
    bne_iff_ne, ne_eq] at h
  rcases h with h | ⟨⟨h1, h2⟩, h3⟩
  · exact Or.inl h
  · refine Or.inr ⟨?_, ?_, h3⟩
    · intro h0; rw [h0] at h1; simp at h1
    · intro x hx ch hch he
      exact h2 x hx ch hch he

def simpleFieldB (f : FieldD) : Bool :=
  (match f.kind with | .field => true | .value => false) && leadOnlyB f.loc && f.opts.isEmpty && labelOkB f.label &&
  isIdentB f.name && (f.json == some (String.ofList (defaultJSONName f.name.toList))) &&
  (match tyParts f.type.toList with
   | some (abs, first, rest) =>
     isIdentB first && rest.all isIdentB && (abs || first != "map") && (!(f.label == "") || abs || kwOkB first)
   | none => false)

theorem simpleFieldB_sound {f : FieldD} (h : simpleFieldB f = true) : SimpleField f := by
  unfold simpleFieldB at h
  simp only [Bool.and_eq_true] at h
  obtain ⟨⟨⟨⟨⟨⟨hk, hl⟩, ho⟩, hlab⟩, hn⟩, hj⟩, hty⟩ := h
  have hkind : f.kind = .field := by cases hk' : f.kind <;> simp_all
  split at hty
  · rename_i abs first rest hparts
    simp only [Bool.and_eq_true, Bool.or_eq_true, List.all_eq_true, bne_iff_ne, ne_eq, Bool.not_eq_true',
      beq_eq_false_iff_ne] at hty
    obtain ⟨⟨⟨hf, hr⟩, hmap⟩, hkw⟩ := hty
    refine ⟨hkind, leadOnlyB_sound hl, by simpa using ho, ?_, isIdentB_sound hn, by simpa using hj,
      abs, first, rest, isIdentB_sound hf, fun r hr' => isIdentB_sound (hr r hr'),
      tyParts_sound f.type abs first rest hparts, ?_, ?_⟩
    · unfold labelOkB at hlab
      simp only [Bool.or_eq_true, beq_iff_eq] at hlab
      rcases hlab with (h | h) | h
      · exact Or.inl h
      · exact Or.inr (Or.inl h)
      · exact Or.inr (Or.inr h)
    · intro ha
      rcases hmap with h | h
      · rw [ha] at h; cases h
      · exact h
    · intro hl' ha
      rcases hkw with (h | h) | h
      · exact absurd hl' h
      · rw [ha] at h; cases h
      · unfold kwOkB at h
        simp only [Bool.and_eq_true, bne_iff_ne, ne_eq] at h
        exact ⟨h.1.1.1.1.1, h.1.1.1.1.2, h.1.1.1.2, h.1.1.2, h.1.2, h.2⟩
  · simp at hty

/-- key and value type of `map<k, v>` (candidates; `mapFieldB` compares the assembled text) -/
def mapParts (cs : List Char) : Option (String × Bool × String × List String) :=
  match cs with
  | 'm' :: 'a' :: 'p' :: '<' :: r =>
    match r.dropWhile (· != ',') with
    | ',' :: ' ' :: v =>
      match tyParts v.dropLast with
      | some (abs, first, rest) => some (String.ofList (r.takeWhile (· != ',')), abs, first, rest)
      | none => none
    | _ => none
  | _ => none

def mapFieldB (f : FieldD) : Bool :=
  (match f.kind with | .field => true | .value => false) && leadOnlyB f.loc && f.opts.isEmpty && f.label == "" &&
  isIdentB f.name && (f.json == some (String.ofList (defaultJSONName f.name.toList))) &&
  (match mapParts f.type.toList with
   | some (k, abs, first, rest) =>
     isIdentB k && isIdentB first && rest.all isIdentB && f.type == mapTy k abs first rest
   | none => false)

theorem mapFieldB_sound {f : FieldD} (h : mapFieldB f = true) : MapField f := by
  unfold mapFieldB at h
  simp only [Bool.and_eq_true] at h
  obtain ⟨⟨⟨⟨⟨⟨hk, hl⟩, ho⟩, hlab⟩, hn⟩, hj⟩, hty⟩ := h
  have hkind : f.kind = .field := by cases hk' : f.kind <;> simp_all
  split at hty
  · rename_i k abs first rest _
    simp only [Bool.and_eq_true, List.all_eq_true, beq_iff_eq] at hty
    obtain ⟨⟨⟨hki, hf⟩, hr⟩, heq⟩ := hty
    exact ⟨hkind, leadOnlyB_sound hl, by simpa using ho, by simpa using hlab, isIdentB_sound hn, by simpa using hj,
      k, abs, first, rest, isIdentB_sound hki, isIdentB_sound hf, fun r hr' => isIdentB_sound (hr r hr'), heq⟩
  · simp at hty

/-- the scanner finds only tokens on the line -/
def tokOkB (l : String) : Bool := (lexL l.toList 0).all (fun r => match r with | .tok _ _ => true | .comment _ _ => false)

theorem tokOkB_sound {l : String} (h : tokOkB l = true) : TokOk l := by
  intro r hr
  simp only [tokOkB, List.all_eq_true] at h
  have := h r hr
  cases r with
  | tok t ln => exact ⟨t, ln, rfl⟩
  | comment _ _ => simp at this

/-! ## fields with options: the evaluation `OptField` asks for -/

mutual
def optEq : Opt → Opt → Bool
  | .scalar k v, .scalar k' v' => k == k' && v == v'
  | .msg k ks, .msg k' ks' => k == k' && optsEq ks ks'
  | .arr k ks, .arr k' ks' => k == k' && optsEq ks ks'
  | _, _ => false
def optsEq : List Opt → List Opt → Bool
  | [], [] => true
  | a :: r, b :: r' => optEq a b && optsEq r r'
  | _, _ => false
end

mutual
theorem optEq_sound : ∀ (a b : Opt), optEq a b = true → a = b
  | .scalar k v, .scalar k' v', h => by
    simp only [optEq, Bool.and_eq_true, beq_iff_eq] at h
    rw [h.1, h.2]
  | .msg k ks, .msg k' ks', h => by
    simp only [optEq, Bool.and_eq_true, beq_iff_eq] at h
    rw [h.1, optsEq_sound ks ks' h.2]
  | .arr k ks, .arr k' ks', h => by
    simp only [optEq, Bool.and_eq_true, beq_iff_eq] at h
    rw [h.1, optsEq_sound ks ks' h.2]
  | .scalar _ _, .msg _ _, h => by simp [optEq] at h
  | .scalar _ _, .arr _ _, h => by simp [optEq] at h
  | .msg _ _, .scalar _ _, h => by simp [optEq] at h
  | .msg _ _, .arr _ _, h => by simp [optEq] at h
  | .arr _ _, .scalar _ _, h => by simp [optEq] at h
  | .arr _ _, .msg _ _, h => by simp [optEq] at h
theorem optsEq_sound : ∀ (a b : List Opt), optsEq a b = true → a = b
  | [], [], _ => rfl
  | x :: r, y :: r', h => by
    simp only [optsEq, Bool.and_eq_true] at h
    rw [optEq_sound x y h.1, optsEq_sound r r' h.2]
  | [], _ :: _, h => by simp [optsEq] at h
  | _ :: _, [], h => by simp [optsEq] at h
end

def optOkB (o o' : SOpt) : Bool :=
  o'.name == o.name && optsEq (o'.stmts.map eraseKeys) (o.stmts.map eraseKeys) &&
  (o.stmts.all (fun v => (inlineString true v).isNone) || o'.single)

theorem optOkB_sound {o o' : SOpt} (h : optOkB o o' = true) : optOk o o' := by
  simp only [optOkB, Bool.and_eq_true, beq_iff_eq, Bool.or_eq_true, List.all_eq_true] at h
  refine ⟨h.1.1, optsEq_sound _ _ h.1.2, ?_⟩
  intro v hv hne
  rcases h.2 with h2 | h2
  · have := h2 v hv
    cases hi : inlineString true v with
    | none => exact absurd hi hne
    | some x => simp [hi] at this
  · exact h2

def fieldOkB (f f' : FieldD) : Bool :=
  decide (f'.kind = f.kind) && f'.label == f.label && f'.type == f.type && f'.name == f.name && f'.number == f.number &&
  f'.json == f.json && locNoneB f'.loc && f.opts.length == f'.opts.length &&
  (f.opts.zip f'.opts).all (fun p => optOkB p.1 p.2) &&
  (match f.popts with
   | [p] => p.inl.isNone || f'.opts.all (·.inl)
   | _ => true)

theorem fieldOkB_sound {f f' : FieldD} (h : fieldOkB f f' = true) : fieldOk f f' := by
  simp only [fieldOkB, Bool.and_eq_true, beq_iff_eq, decide_eq_true_eq, List.all_eq_true] at h
  obtain ⟨⟨⟨⟨⟨⟨⟨⟨⟨h1, h2⟩, h3⟩, h4⟩, h5⟩, h6⟩, h7⟩, h8⟩, h9⟩, h10⟩ := h
  refine ⟨h1, h2, h3, h4, h5, h6, locNoneB_sound h7, h8, fun p hp => optOkB_sound (h9 p hp), ?_⟩
  intro p hp hne o' ho'
  rw [hp] at h10
  simp only [Bool.or_eq_true, List.all_eq_true] at h10
  rcases h10 with h | h
  · cases hi : p.inl with
    | none => exact absurd hi hne
    | some x => simp [hi] at h
  · exact h o' ho'

/-- the way the type is written, if it is one the theorem knows -/
def tyW (label : String) (ty : String) : Option TyW :=
  match tyParts ty.toList with
  | some (abs, first, rest) =>
    if isIdentB first && rest.all isIdentB && (abs || first != "map") && (!(label == "") || abs || kwOkB first) &&
        ty == tyStr abs first rest then some (.plain abs first rest)
    else
      match mapParts ty.toList with
      | some (k, a, fi, r) =>
        if label == "" && isIdentB k && isIdentB fi && r.all isIdentB && ty == mapTy k a fi r then some (.map k a fi r) else none
      | none => none
  | none =>
    match mapParts ty.toList with
    | some (k, a, fi, r) =>
      if label == "" && isIdentB k && isIdentB fi && r.all isIdentB && ty == mapTy k a fi r then some (.map k a fi r) else none
    | none => none

theorem kwOkB_sound {s : String} (h : kwOkB s = true) : kwOk s := by
  unfold kwOkB at h
  simp only [Bool.and_eq_true, bne_iff_ne, ne_eq] at h
  exact ⟨h.1.1.1.1.1, h.1.1.1.1.2, h.1.1.1.2, h.1.1.2, h.1.2, h.2⟩

theorem mapW_sound {label ty k : String} {a : Bool} {fi : String} {r : List String}
    (h : (label == "" && isIdentB k && isIdentB fi && r.all isIdentB && ty == mapTy k a fi r) = true) :
    (TyW.map k a fi r).ok label ∧ ty = (TyW.map k a fi r).str := by
  simp only [Bool.and_eq_true, beq_iff_eq, List.all_eq_true] at h
  obtain ⟨⟨⟨⟨h1, h2⟩, h3⟩, h4⟩, h5⟩ := h
  exact ⟨⟨h1, isIdentB_sound h2, isIdentB_sound h3, fun x hx => isIdentB_sound (h4 x hx)⟩, h5⟩

theorem tyW_sound {label ty : String} {w : TyW} (h : tyW label ty = some w) : w.ok label ∧ ty = w.str := by
  unfold tyW at h
  split at h
  · rename_i abs first rest _
    split at h
    · rename_i hc
      simp only [Option.some.injEq] at h
      subst h
      simp only [Bool.and_eq_true, Bool.or_eq_true, List.all_eq_true, bne_iff_ne, ne_eq, Bool.not_eq_true',
        beq_eq_false_iff_ne, beq_iff_eq] at hc
      obtain ⟨⟨⟨⟨hf, hr⟩, hmap⟩, hkw⟩, hty⟩ := hc
      refine ⟨⟨isIdentB_sound hf, fun x hx => isIdentB_sound (hr x hx), ?_, ?_⟩, hty⟩
      · intro ha
        rcases hmap with h | h
        · rw [ha] at h; cases h
        · exact h
      · intro hl ha
        rcases hkw with (h | h) | h
        · exact absurd hl h
        · rw [ha] at h; cases h
        · exact kwOkB_sound h
    · split at h
      · split at h
        · rename_i hc
          simp only [Option.some.injEq] at h
          subst h
          exact mapW_sound hc
        · simp at h
      · simp at h
  · split at h
    · split at h
      · rename_i hc
        simp only [Option.some.injEq] at h
        subst h
        exact mapW_sound hc
      · simp at h
    · simp at h

def optFieldB (f : FieldD) : Bool :=
  (match f.kind with | .field => true | .value => false) && leadOnlyB f.loc && f.opts.all (fun o => !o.hasLoc) &&
  labelOkB f.label && isIdentB f.name && !f.popts.isEmpty &&
  (fieldLines 0 f).all (fun l => l.toList.all (fun c => c != '\n') && tokOkB l) &&
  (match tyW f.label f.type with
   | some w =>
     decide (fieldToks0 f = headToks f w 0 ++ rdBody f) &&
     (match bracketOpts ((rdBody f).length + 1) (rdBody f) with
      | some (_, [⟨.sym ';', e, _⟩]) => e + 1 == (fieldLines 0 f).length
      | _ => false)
   | none => false) &&
  fieldOkB f (rdField0 f)

theorem optFieldB_sound {f : FieldD} (h : optFieldB f = true) : OptField f := by
  unfold optFieldB at h
  simp only [Bool.and_eq_true] at h
  obtain ⟨⟨⟨⟨⟨⟨⟨⟨hk, hl⟩, hu⟩, hlab⟩, hn⟩, hne⟩, hnoch⟩, hread⟩, hok⟩ := h
  have hkind : f.kind = .field := by cases hk' : f.kind <;> simp_all
  refine ⟨hkind, leadOnlyB_sound hl, ?_, ?_, isIdentB_sound hn, ?_, ?_, ?_, fieldOkB_sound hok⟩
  · intro o ho
    simp only [List.all_eq_true, Bool.not_eq_true'] at hu
    exact hu o ho
  · unfold labelOkB at hlab
    simp only [Bool.or_eq_true, beq_iff_eq] at hlab
    rcases hlab with (h | h) | h
    · exact Or.inl h
    · exact Or.inr (Or.inl h)
    · exact Or.inr (Or.inr h)
  · intro he; simp [he] at hne
  · intro l hl
    simp only [List.all_eq_true, Bool.and_eq_true, bne_iff_ne, ne_eq] at hnoch
    exact ⟨fun c hc => (hnoch l hl).1 c hc, tokOkB_sound (hnoch l hl).2⟩
  · split at hread
    · rename_i w hw
      obtain ⟨hwok, hty⟩ := tyW_sound hw
      simp only [Bool.and_eq_true, decide_eq_true_eq] at hread
      obtain ⟨htoks, hbr⟩ := hread
      split at hbr
      · rename_i raws e c hb
        exact ⟨w, raws, e, c, hwok, hty, htoks, hb, by simpa using hbr⟩
      · simp at hbr
    · simp at hread

def simpleValueB (f : FieldD) : Bool :=
  (match f.kind with | .value => true | .field => false) && leadOnlyB f.loc && f.opts.isEmpty && f.label == "" &&
  f.type == "" && isIdentB f.name && f.name != "option" && f.json.isNone

theorem simpleValueB_sound {f : FieldD} (h : simpleValueB f = true) : SimpleValue f := by
  unfold simpleValueB at h
  simp only [Bool.and_eq_true, beq_iff_eq, bne_iff_ne, ne_eq] at h
  obtain ⟨⟨⟨⟨⟨⟨⟨hk, hl⟩, ho⟩, hlab⟩, hty⟩, hn⟩, hno⟩, hj⟩ := h
  have hkind : f.kind = .value := by cases hk' : f.kind <;> simp_all
  exact ⟨hkind, leadOnlyB_sound hl, by simpa using ho, hlab, hty, isIdentB_sound hn, hno, by simpa using hj⟩

def simpleValuesB : List Item → Bool
  | [] => true
  | .field f :: r => simpleValueB f && commentOkB f.loc.leading && simpleValuesB r
  | _ :: _ => false

theorem simpleValuesB_sound : ∀ es, simpleValuesB es = true → SimpleValues es
  | [], _ => trivial
  | .field f :: r, h => by
    simp only [simpleValuesB, Bool.and_eq_true] at h
    exact ⟨simpleValueB_sound h.1.1, commentOkB_sound h.1.2, simpleValuesB_sound r h.2⟩
  | .rpc _ _ _ _ _ _ :: _, h => by simp [simpleValuesB] at h
  | .block _ _ _ _ _ _ _ :: _, h => by simp [simpleValuesB] at h

/-! ## statement options of a block: the evaluation `BlockOpts` asks for -/

def optsOkB (os os' : List SOpt) : Bool :=
  os.length == os'.length && (os.zip os').all (fun p => optOkB p.1 p.2) &&
  (os.zip os').all (fun p => (os.zip os').all (fun q =>
    Order.locLess p.2.loc q.2.loc == Order.locLess p.1.loc q.1.loc))

theorem optsOkB_sound {os os' : List SOpt} (h : optsOkB os os' = true) : optsOk os os' := by
  simp only [optsOkB, Bool.and_eq_true, beq_iff_eq, List.all_eq_true] at h
  exact ⟨h.1.1, fun p hp => optOkB_sound (h.1.2 p hp), fun p hp q hq => h.2 p hp q hq⟩

def blockOptsB (os : List SOpt) : Bool :=
  os.all (fun o => !o.hasLoc) &&
  (optLines0 os).all (fun l => l.toList.all (fun c => c != '\n') && tokOkB l) &&
  decide ((optChunks os).flatten = optToks0 os) &&
  (optChunks os).all (fun c => match Grammar.optionStmt c with | some (_, []) => true | _ => false) &&
  optsOkB os (mkOpts 0 (optRaws0 os)) &&
  (mkOpts 0 (optRaws0 os)).all (fun o => !o.hasLoc || decide (0 < o.startLine))

theorem blockOptsB_sound {os : List SOpt} (h : blockOptsB os = true) : BlockOpts os := by
  unfold blockOptsB at h
  simp only [Bool.and_eq_true, decide_eq_true_eq] at h
  obtain ⟨⟨⟨⟨⟨hu, hnoch⟩, hwhole⟩, hchunks⟩, hok⟩, hpos⟩ := h
  refine ⟨?_, ?_, hwhole, ?_, optsOkB_sound hok, ?_⟩
  · intro o ho
    simp only [List.all_eq_true, Bool.not_eq_true'] at hu
    exact hu o ho
  · intro l hl
    simp only [List.all_eq_true, Bool.and_eq_true, bne_iff_ne, ne_eq] at hnoch
    exact ⟨fun c hc => (hnoch l hl).1 c hc, tokOkB_sound (hnoch l hl).2⟩
  · intro c hc
    simp only [List.all_eq_true] at hchunks
    have := hchunks c hc
    split at this
    · rename_i r heq
      exact ⟨r, heq⟩
    · simp at this
  · intro o ho hl
    simp only [List.all_eq_true, Bool.or_eq_true, Bool.not_eq_true', decide_eq_true_eq] at hpos
    rcases hpos o ho with h | h
    · rw [hl] at h; cases h
    · exact h

def simpleMembersB : List Item → Bool
  | [] => true
  | .field f :: r => (simpleFieldB f || optFieldB f) && f.label == "" && commentOkB f.loc.leading && simpleMembersB r
  | _ :: _ => false

theorem simpleMembersB_sound : ∀ es, simpleMembersB es = true → SimpleMembers es
  | [], _ => trivial
  | .field f :: r, h => by
    simp only [simpleMembersB, Bool.and_eq_true, Bool.or_eq_true, beq_iff_eq] at h
    refine ⟨⟨?_, h.1.1.2⟩, commentOkB_sound h.1.2, simpleMembersB_sound r h.2⟩
    rcases h.1.1.1 with h1 | h1
    · exact Or.inl (simpleFieldB_sound h1)
    · exact Or.inr (optFieldB_sound h1)
  | .rpc _ _ _ _ _ _ :: _, h => by simp [simpleMembersB] at h
  | .block _ _ _ _ _ _ _ :: _, h => by simp [simpleMembersB] at h

mutual
def simpleItemB : Item → Bool
  | .field f => simpleFieldB f || mapFieldB f || optFieldB f
  | .rpc _ _ _ _ _ _ => false
  | .block kw t l _ name os ks =>
    leadOnlyB l && blockOptsB os && isIdentB name &&
    ((kw == "message" && t == 1 && simpleKidsB ks) || (kw == "enum" && t == 2 && simpleValuesB ks) ||
      (kw == "oneof" && t == 0 && !ks.isEmpty && simpleMembersB ks && os.isEmpty))
def simpleKidsB : List Item → Bool
  | [] => true
  | e :: r => simpleItemB e && commentOkB e.loc.leading && simpleKidsB r
end

mutual
theorem simpleItemB_sound : ∀ e, simpleItemB e = true → SimpleItem e
  | .field f, h => by
    simp only [simpleItemB, Bool.or_eq_true] at h
    simp only [SimpleItem]
    rcases h with (h | h) | h
    · exact Or.inl (simpleFieldB_sound h)
    · exact Or.inr (Or.inl (mapFieldB_sound h))
    · exact Or.inr (Or.inr (optFieldB_sound h))
  | .rpc _ _ _ _ _ _, h => by simp [simpleItemB] at h
  | .block kw t l _ name os ks, h => by
    simp only [simpleItemB, Bool.and_eq_true, Bool.or_eq_true, beq_iff_eq] at h
    obtain ⟨⟨⟨hl, ho⟩, hn⟩, hc⟩ := h
    simp only [SimpleItem]
    refine ⟨leadOnlyB_sound hl, blockOptsB_sound ho, isIdentB_sound hn, ?_⟩
    rcases hc with (⟨⟨h1, h2⟩, h3⟩ | ⟨⟨h1, h2⟩, h3⟩) | ⟨⟨⟨⟨h1, h2⟩, h4⟩, h3⟩, h5⟩
    · exact Or.inl ⟨h1, h2, simpleKidsB_sound ks h3⟩
    · exact Or.inr (Or.inl ⟨h1, h2, simpleValuesB_sound ks h3⟩)
    · exact Or.inr (Or.inr ⟨h1, h2, by intro h; simp [h] at h4, simpleMembersB_sound ks h3, by simpa using h5⟩)
theorem simpleKidsB_sound : ∀ es, simpleKidsB es = true → SimpleKids es
  | [], _ => trivial
  | e :: r, h => by
    simp only [simpleKidsB, Bool.and_eq_true] at h
    exact ⟨simpleItemB_sound e h.1.1, commentOkB_sound h.1.2, simpleKidsB_sound r h.2⟩
end

def rpcTyBody (st : Bool) (body : List Char) : Bool :=
  match tyParts body with
  | some (abs, first, rest) => isIdentB first && rest.all isIdentB && (st || abs || first != "stream")
  | none => false

/-- `[stream ]type` of a method -/
def rpcTyB (s : String) : Bool :=
  match s.toList with
  | 's' :: 't' :: 'r' :: 'e' :: 'a' :: 'm' :: ' ' :: r => rpcTyBody true r
  | cs => rpcTyBody false cs

theorem rpcTyBody_sound (s : String) (st : Bool) (body : List Char)
    (hs : s.toList = (if st then "stream ".toList else []) ++ body) (hm : rpcTyBody st body = true) :
    ∃ (st abs : Bool) (first : String) (rest : List String), IsIdent first ∧ (∀ r ∈ rest, IsIdent r) ∧
      s = rpcTyStr st abs first rest ∧ (st = false → abs = false → first ≠ "stream") := by
  unfold rpcTyBody at hm
  split at hm
  · rename_i abs first rest hparts
    simp only [Bool.and_eq_true, Bool.or_eq_true, List.all_eq_true, bne_iff_ne, ne_eq] at hm
    obtain ⟨⟨hf, hr⟩, hk⟩ := hm
    have hb : String.ofList body = tyStr abs first rest := by
      apply tyParts_sound; rw [String.toList_ofList]; exact hparts
    refine ⟨st, abs, first, rest, isIdentB_sound hf, fun r hr' => isIdentB_sound (hr r hr'), ?_, ?_⟩
    · apply String.ext
      unfold rpcTyStr
      rw [String.toList_append, ← hb, String.toList_ofList, hs]
      cases st <;> rfl
    · intro h1 h2
      rcases hk with (h | h) | h
      · rw [h1] at h; cases h
      · rw [h2] at h; cases h
      · exact h
  · simp at hm

theorem rpcTyB_sound {s : String} (h : rpcTyB s = true) :
    ∃ (st abs : Bool) (first : String) (rest : List String), IsIdent first ∧ (∀ r ∈ rest, IsIdent r) ∧
      s = rpcTyStr st abs first rest ∧ (st = false → abs = false → first ≠ "stream") := by
  unfold rpcTyB at h
  split at h
  · rename_i r hcs
    exact rpcTyBody_sound s true r (by rw [hcs]; rfl) h
  · exact rpcTyBody_sound s false s.toList (by simp) h

def rpcOptsB (os : List SOpt) : Bool :=
  os.all (fun o => !o.hasLoc) &&
  (optLines0 os).all (fun l => l.toList.all (fun c => c != '\n') && tokOkB l) &&
  decide ((rpcChunks os).flatten = rpcToks0 os) &&
  (rpcChunks os).all (fun c => match Grammar.optionStmt c with | some (_, []) => true | _ => false) &&
  optsOkB os (mkOpts 0 (rpcRaws0 os)) &&
  (mkOpts 0 (rpcRaws0 os)).all (fun o => !o.hasLoc || decide (0 < o.startLine))

theorem rpcOptsB_sound {os : List SOpt} (h : rpcOptsB os = true) : RpcOpts os := by
  unfold rpcOptsB at h
  simp only [Bool.and_eq_true, decide_eq_true_eq] at h
  obtain ⟨⟨⟨⟨⟨hu, hnoch⟩, hwhole⟩, hchunks⟩, hok⟩, hpos⟩ := h
  refine ⟨?_, ?_, hwhole, ?_, optsOkB_sound hok, ?_⟩
  · intro o ho
    simp only [List.all_eq_true, Bool.not_eq_true'] at hu
    exact hu o ho
  · intro l hl
    simp only [List.all_eq_true, Bool.and_eq_true, bne_iff_ne, ne_eq] at hnoch
    exact ⟨fun c hc => (hnoch l hl).1 c hc, tokOkB_sound (hnoch l hl).2⟩
  · intro c hc
    simp only [List.all_eq_true] at hchunks
    have := hchunks c hc
    split at this
    · rename_i r heq
      exact ⟨r, heq⟩
    · simp at this
  · intro o ho hl
    simp only [List.all_eq_true, Bool.or_eq_true, Bool.not_eq_true', decide_eq_true_eq] at hpos
    rcases hpos o ho with h | h
    · rw [hl] at h; cases h
    · exact h

def simpleRpcB : Item → Bool
  | .rpc l _ name inT outT os => leadOnlyB l && rpcOptsB os && isIdentB name && rpcTyB inT && rpcTyB outT
  | _ => false

theorem simpleRpcB_sound : ∀ e, simpleRpcB e = true → SimpleRpc e
  | .rpc l _ name inT outT os, h => by
    simp only [simpleRpcB, Bool.and_eq_true] at h
    obtain ⟨⟨⟨⟨hl, ho⟩, hn⟩, hi⟩, hou⟩ := h
    exact ⟨leadOnlyB_sound hl, rpcOptsB_sound ho, isIdentB_sound hn, rpcTyB_sound hi, rpcTyB_sound hou⟩
  | .field _, h => by simp [simpleRpcB] at h
  | .block _ _ _ _ _ _ _, h => by simp [simpleRpcB] at h

def simpleRpcsB : List Item → Bool
  | [] => true
  | e :: r => simpleRpcB e && commentOkB e.loc.leading && simpleRpcsB r

theorem simpleRpcsB_sound : ∀ es, simpleRpcsB es = true → SimpleRpcs es
  | [], _ => trivial
  | e :: r, h => by
    simp only [simpleRpcsB, Bool.and_eq_true] at h
    exact ⟨simpleRpcB_sound e h.1.1, commentOkB_sound h.1.2, simpleRpcsB_sound r h.2⟩

def simpleTopB : Item → Bool
  | .block kw t l i name os ks =>
    if kw == "service" then leadOnlyB l && blockOptsB os && isIdentB name && t == 0 && simpleRpcsB ks
    else t != 0 && simpleItemB (.block kw t l i name os ks)
  | _ => false

theorem simpleTopB_sound : ∀ e, simpleTopB e = true → SimpleTop e
  | .block kw t l i name os ks, h => by
    simp only [simpleTopB] at h
    split at h
    · rename_i hkw
      simp only [Bool.and_eq_true, beq_iff_eq] at h hkw
      obtain ⟨⟨⟨⟨hl, ho⟩, hn⟩, ht⟩, hk⟩ := h
      exact Or.inr ⟨leadOnlyB_sound hl, blockOptsB_sound ho, isIdentB_sound hn, hkw, ht, simpleRpcsB_sound ks hk⟩
    · simp only [Bool.and_eq_true, bne_iff_ne, ne_eq] at h
      exact Or.inl ⟨simpleItemB_sound _ h.2, h.1⟩
  | .field _, h => by simp [simpleTopB] at h
  | .rpc _ _ _ _ _ _, h => by simp [simpleTopB] at h

def simpleTopsB : List Item → Bool
  | [] => true
  | e :: r => simpleTopB e && commentOkB e.loc.leading && simpleTopsB r

theorem simpleTopsB_sound : ∀ es, simpleTopsB es = true → SimpleTops es
  | [], _ => trivial
  | e :: r, h => by
    simp only [simpleTopsB, Bool.and_eq_true] at h
    exact ⟨simpleTopB_sound e h.1.1, commentOkB_sound h.1.2, simpleTopsB_sound r h.2⟩

def plainBodyB (cs : List Char) : Bool := cs.all fun c => c != '"' && c != '\\' && c != '\n'

def distinctB : List (String × String) → Bool
  | [] => true
  | a :: r => r.all (fun b => strBytes a.1 != strBytes b.1) && distinctB r

theorem distinctB_sound : ∀ l, distinctB l = true → l.Pairwise (fun a b => strBytes a.1 ≠ strBytes b.1)
  | [], _ => List.Pairwise.nil
  | a :: r, h => by
    simp only [distinctB, Bool.and_eq_true, List.all_eq_true, bne_iff_ne, ne_eq] at h
    exact List.pairwise_cons.mpr ⟨fun b hb => h.1 b hb, distinctB_sound r h.2⟩

/-- the decidable test for `SimpleFile` -/
def simpleFileB (gen : String) (t : FileD) : Bool :=
  gen.toList.all (· != '\n') && locNoneB t.loc &&
  (match tyParts t.pkg.toList with
   | some (abs, first, rest) => !abs && isIdentB first && rest.all isIdentB
   | none => false) &&
  t.imports.all (fun i => plainBodyB i.1.toList && (i.2 == "" || i.2 == "public " || i.2 == "weak ")) &&
  distinctB t.imports && t.opts.isEmpty && t.exts.isEmpty && simpleTopsB t.items

theorem simpleFileB_sound (gen : String) (t : FileD) (h : simpleFileB gen t = true) : SimpleFile gen t := by
  unfold simpleFileB at h
  simp only [Bool.and_eq_true] at h
  obtain ⟨⟨⟨⟨⟨⟨⟨hg, hl⟩, hp⟩, hi⟩, hd⟩, ho⟩, he⟩, ht⟩ := h
  refine ⟨?_, locNoneB_sound hl, ?_, ?_, distinctB_sound _ hd, by simpa using ho, by simpa using he,
    simpleTopsB_sound _ ht⟩
  · intro c hc he'
    simp only [List.all_eq_true] at hg
    have := hg c hc
    simp [he'] at this
  · split at hp
    · rename_i abs first rest hparts
      simp only [Bool.and_eq_true, Bool.not_eq_true', List.all_eq_true] at hp
      obtain ⟨⟨ha, hf⟩, hr⟩ := hp
      subst ha
      exact ⟨first, rest, isIdentB_sound hf, fun r hr' => isIdentB_sound (hr r hr'), tyParts_sound _ _ _ _ hparts⟩
    · simp at hp
  · intro i hi'
    simp only [List.all_eq_true, Bool.and_eq_true, Bool.or_eq_true, beq_iff_eq] at hi
    obtain ⟨hb, hm⟩ := hi i hi'
    refine ⟨?_, ?_⟩
    · intro c hc
      unfold plainBodyB at hb
      simp only [List.all_eq_true, Bool.and_eq_true, bne_iff_ne, ne_eq] at hb
      exact ⟨(hb c hc).1.1, (hb c hc).1.2, (hb c hc).2⟩
    · rcases hm with (h | h) | h
      · exact Or.inl h
      · exact Or.inr (Or.inl h)
      · exact Or.inr (Or.inr h)

/-! ## why a file is outside (informative, for the evidence) -/

def locTags (l : Loc) : List String :=
  (if !l.detached.isEmpty || l.trailing != "" then ["comments"] else []) ++
  (if !commentOkB l.leading then ["leading-comment-shape"] else [])

def fieldTags (f : FieldD) : List String :=
  if optFieldB f then [] else
  locTags f.loc ++ (if f.opts.isEmpty then [] else ["options"]) ++
  (match f.kind, f.json with
   | .field, some j => if j.toList != defaultJSONName f.name.toList then ["json_name"] else []
   | _, _ => []) ++
  (if f.type.startsWith "map<" then ["map"] else [])

mutual
def itemTags : Item → List String
  | .field f => fieldTags f
  | .rpc l _ _ _ _ os => locTags l ++ (if rpcOptsB os then [] else ["options"])
  | .block kw _ l _ _ os ks =>
    locTags l ++ (if (kw == "message" || kw == "enum" || kw == "service") && blockOptsB os then [] else if os.isEmpty then [] else ["options"]) ++ (if kw == "oneof" then ["oneof"] else []) ++ itemsTags ks
def itemsTags : List Item → List String
  | [] => []
  | e :: r => itemTags e ++ itemsTags r
end

/-- the reasons (each once, sorted) a file is not a `SimpleFile`; `other` when none of the known ones applies -/
def whyNot (gen : String) (t : FileD) : List String :=
  if simpleFileB gen t then [] else
  let tags := locTags t.loc ++ (if t.opts.isEmpty then [] else ["options"]) ++ (if t.exts.isEmpty then [] else ["extend"]) ++
    itemsTags t.items
  let known := ["comments", "extend", "json_name", "leading-comment-shape", "options"].filter (tags.contains ·)
  if known.isEmpty then ["other"] else known

end J5V.Print.Cover
