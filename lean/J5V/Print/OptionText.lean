import J5V.Print.Order
/-!
# C05 kernel 3 — option values as text (core only)

Mirrors the option part of `/repo/internal/j5s/protoprint/options.go` (`parseOption`,
`printOption`, `printOptionArray`, `printOptionMessageFields`, `printFieldStyle`,
`optionFullName`, `defaultJSONName`) and `optionreflect.OptionDefinition.Simplify`
(`optionreflect/option.go`) over the value tree `optionreflect.OptionField`
(`optionreflect/walk.go`). Scalars are opaque texts produced by `marshalSingular`
(strings through the `TextString` kernel, numbers by `strconv`, enum value names).

The reader side (`parseTokens`) is a parser for the text-format message-literal subset the
printer emits, over tokens; the lexer is protocompile's and is not modelled.
-/
namespace J5V.Print.OptionText
open J5V.Print.Order

/-- `optionreflect.OptionField` -/
inductive Opt where
  | scalar (key : String) (v : String)
  | msg (key : String) (kids : List Opt)
  | arr (key : String) (kids : List Opt)
  deriving Repr, Inhabited

def Opt.key : Opt → String
  | .scalar k _ | .msg k _ | .arr k _ => k

/-- `fileBuffer.p` with indentation `n` -/
def ind (n : Nat) (s : String) : String := String.ofList (List.replicate (2 * n) ' ') ++ s

/-! ## Simplify: hoist single-field messages into the option name -/

/-- `OptionDefinition.Simplify(maxDepth)` on the walked tree: returns the sub-path and the new
root. A message with exactly one set field that is neither a list nor a map is replaced by that
field. (`fuel` bounds the recursion; the depth of the tree is a bound.) -/
def simplify (maxDepth : Nat) : Nat → List String → Opt → List String × Opt
  | 0, sub, o => (sub, o)
  | fuel + 1, sub, o =>
    if sub.length > maxDepth then (sub, o) else
    match o with
    | .msg _ [.scalar k v] => simplify maxDepth fuel (sub ++ [k]) (.scalar k v)
    | .msg _ [.msg k kids] => simplify maxDepth fuel (sub ++ [k]) (.msg k kids)
    | _ => (sub, o)

/-- `optionFullName` for an extension whose name (already relative to the context) is `ext` -/
def optionName (ext : String) (sub : List String) : String :=
  if sub = [] then "(" ++ ext ++ ")" else "(" ++ ext ++ ")." ++ ".".intercalate sub

/-- `maxExtDepth` / the `google.api.http` special case of `parseOption` -/
def simplified (extFull : String) (root : Opt) (depth : Nat) : List String × Opt :=
  if extFull = "google.api.http" then ([], root) else simplify 5 depth [] root

/-! ## rendering -/

mutual
/-- `printOptionMessageFields` called on a builder with indentation `n` -/
def msgFields (n : Nat) : List Opt → List String
  | [] => []
  | .scalar k v :: rest => ind (n + 1) (k ++ ": " ++ v) :: msgFields n rest
  | .msg k kids :: rest =>
    (ind (n + 1) (k ++ ": {") :: msgFields (n + 1) kids) ++ (ind (n + 1) "}" :: msgFields n rest)
  | .arr k kids :: rest => arrLines (n + 1) (k ++ ": ") kids "" ++ msgFields n rest

/-- the `[{ … }, { … }]` body of `printOptionArray`; `first` = no separator before this child -/
def arrMsgs (n : Nat) (first : Bool) : List Opt → List String
  | [] => []
  | .msg _ kids :: rest =>
    (if first then [] else [ind n "}, {"]) ++ msgFields n kids ++ arrMsgs n false rest
  | _ :: rest => (if first then [] else [ind n "}, {"]) ++ arrMsgs n false rest

/-- `printOptionArray` on a builder with indentation `n` -/
def arrLines (n : Nat) (opener : String) (kids : List Opt) (trailer : String) : List String :=
  match kids with
  | [] => [ind n (opener ++ "[]" ++ trailer)]
  | [.scalar _ v] => [ind n (opener ++ "[" ++ v ++ "]" ++ trailer)]
  | .msg k ks :: rest =>
    (ind n (opener ++ "[{") :: arrMsgs n true (.msg k ks :: rest)) ++ [ind n ("}]" ++ trailer)]
  | kids => (ind n (opener ++ "[") :: arrScalars (n + 1) kids) ++ [ind n ("]" ++ trailer)]

/-- the scalar lines of a multi-line array -/
def arrScalars (n : Nat) : List Opt → List String
  | [] => []
  | [.scalar _ v] => [ind n v]
  | [_] => [ind n ""]
  | .scalar _ v :: rest => ind n (v ++ ",") :: arrScalars n rest
  | _ :: rest => ind n "," :: arrScalars n rest
end

/-- `inlineValue` (`nil` = `none`); a list never gets here (see `statements`) -/
def inlineString (singleLine : Bool) (root : Opt) : Option String :=
  if !singleLine then none else
  match root with
  | .msg _ [] => some "{}"
  | .msg _ [.scalar k v] => some ("{" ++ k ++ ": " ++ v ++ "}")
  | .msg _ _ => none
  | .arr _ _ => none
  | .scalar _ v => some v

/-- `parseOption`: the values an option is written as — one statement, or one per element for a
repeated option (fix: the list syntax `[a, b]` only exists inside a message literal) -/
def statements : Opt → List Opt
  | .arr _ kids => kids
  | o => [o]

/-- `printOptionStatement` on a builder with indentation `n` -/
def optionStmt1 (n : Nat) (name : String) (singleLine : Bool) (root : Opt) : List String :=
  match inlineString singleLine root with
  | some s => [ind n ("option " ++ name ++ " = " ++ s ++ ";")]
  | none =>
    match root with
    | .msg _ [] => [ind n ("option " ++ name ++ " = {};")]
    | .msg _ kids => (ind n ("option " ++ name ++ " = {") :: msgFields n kids) ++ [ind n "};"]
    | .arr _ _ => []     -- no case in the Go switch
    | .scalar _ v => [ind n ("option " ++ name ++ " = " ++ v ++ ";")]

/-- `printOption` (statement form, `option name = …;`) on a builder with indentation `n` -/
def optionStmt (n : Nat) (name : String) (singleLine : Bool) (root : Opt) : List String :=
  ((statements root).map (optionStmt1 n name singleLine)).flatten

/-- one parsed option of a field / enum value -/
structure POpt where
  name : String
  root : Opt
  inl : Option String   -- inlineString
  inlineWithParent : Bool
  deriving Repr

/-- `defaultJSONName` -/
def defaultJSONName (name : List Char) : List Char :=
  let rec go : List Char → Bool → List Char
    | [], _ => []
    | c :: cs, up =>
      if c = '_' then go cs true
      else (if up ∧ 'a' ≤ c ∧ c ≤ 'z' then Char.ofNat (c.toNat - 32) else c) :: go cs false
  go name false

/-- the option lines of the multi-line form of `printFieldStyle` on a builder with indentation `n` -/
def fieldBody (n : Nat) : List POpt → List String
  | [] => []
  | o :: rest =>
    let trailer := if rest.isEmpty then "" else ","
    (match o.inl with
     | some s => [ind (n + 1) (o.name ++ " = " ++ s ++ trailer)]
     | none =>
       match o.root with
       | .msg _ kids => (ind (n + 1) (o.name ++ " = {") :: msgFields (n + 1) kids) ++ [ind (n + 1) ("}" ++ trailer)]
       | .arr _ _ => []     -- no case in the Go switch (`statements` leaves no list at the root)
       | .scalar _ v => [ind (n + 1) (o.name ++ " = " ++ v ++ trailer)]) ++ fieldBody n rest

/-- the lines of `printFieldStyle` between the comments: `head` is `"<label><type> <name>"`,
`ic` the inline comment (written after the first and — in the multi-line form — the last line). -/
def fieldStyle (n : Nat) (head : String) (number : String) (opts : List POpt) (ic : String := "") : List String :=
  match opts with
  | [] => [ind n (head ++ " = " ++ number ++ ";" ++ ic)]
  | _ =>
    match opts with
    | [⟨name, _, some s, true⟩] => [ind n (head ++ " = " ++ number ++ " [" ++ name ++ " = " ++ s ++ "];" ++ ic)]
    | _ => (ind n (head ++ " = " ++ number ++ " [" ++ ic) :: fieldBody n opts) ++ [ind n ("];" ++ ic)]

/-- a stable sort (`slices.SortStableFunc`): elements are inserted from the left, each before the
first greater one, so equal elements keep their order -/
def stableSort {α} (lt : α → α → Bool) (l : List α) : List α :=
  l.foldl (fun acc x => insertBy lt x acc) []

/-- `optionsFor`: parse every option, then sort by qualified name; stable, so that the statements of
one repeated option keep the order of the elements -/
def sortByName (opts : List POpt) : List POpt :=
  stableSort (fun a b => nameLess (a.name.toUTF8.toList.map (·.toNat)) (b.name.toUTF8.toList.map (·.toNat))) opts

/-! ## the value literal as tokens, and a parser for it -/

inductive Tok where
  | lbrace | rbrace | lbrack | rbrack | comma | colon
  | ident (s : String)
  | scalar (s : String)
  deriving DecidableEq, Repr

mutual
/-- the token sequence of a message body (`k: v k: {…} k: […]`) -/
def msgToks : List Opt → List Tok
  | [] => []
  | .scalar k v :: rest => .ident k :: .colon :: .scalar v :: msgToks rest
  | .msg k kids :: rest => (.ident k :: .colon :: .lbrace :: msgToks kids) ++ (.rbrace :: msgToks rest)
  | .arr k kids :: rest => (.ident k :: .colon :: .lbrack :: arrToks kids) ++ (.rbrack :: msgToks rest)

/-- the token sequence between `[` and `]` -/
def arrToks : List Opt → List Tok
  | [] => []
  | [.scalar _ v] => [.scalar v]
  | [.msg _ kids] => (.lbrace :: msgToks kids) ++ [.rbrace]
  | [.arr _ _] => []
  | .scalar _ v :: rest => .scalar v :: .comma :: arrToks rest
  | .msg _ kids :: rest => (.lbrace :: msgToks kids) ++ (.rbrace :: .comma :: arrToks rest)
  | .arr _ _ :: rest => arrToks rest
end

/-- the tokens of an option value -/
def valueToks : Opt → List Tok
  | .scalar _ v => [.scalar v]
  | .msg _ kids => (.lbrace :: msgToks kids) ++ [.rbrace]
  | .arr _ kids => (.lbrack :: arrToks kids) ++ [.rbrack]

/-! ### the reader: a parser for the message-literal subset (over tokens)

Written from the text-format grammar (`{ name: value … }`, `[ value, … ]`). Fields of a message
carry their name; elements of a list do not. -/

mutual
/-- fields up to (not including) the first token that cannot start a field -/
def pFields : Nat → List Tok → Option (List Opt × List Tok)
  | 0, _ => none
  | f + 1, toks =>
    match toks with
    | .ident k :: .colon :: .scalar v :: rest =>
      (pFields f rest).map (fun p => (.scalar k v :: p.1, p.2))
    | .ident k :: .colon :: .lbrace :: rest =>
      (match pFields f rest with
       | some (kids, .rbrace :: r2) => (pFields f r2).map (fun p => (.msg k kids :: p.1, p.2))
       | _ => none)
    | .ident k :: .colon :: .lbrack :: rest =>
      (match pElems f rest with
       | some (kids, .rbrack :: r2) => (pFields f r2).map (fun p => (.arr k kids :: p.1, p.2))
       | _ => none)
    | _ => some ([], toks)

/-- list elements up to (not including) the closing bracket -/
def pElems : Nat → List Tok → Option (List Opt × List Tok)
  | 0, _ => none
  | f + 1, toks =>
    match toks with
    | .scalar v :: .comma :: rest => (pElems f rest).map (fun p => (.scalar "" v :: p.1, p.2))
    | .scalar v :: rest => some ([.scalar "" v], rest)
    | .lbrace :: rest =>
      (match pFields f rest with
       | some (kids, .rbrace :: .comma :: r2) => (pElems f r2).map (fun p => (.msg "" kids :: p.1, p.2))
       | some (kids, .rbrace :: r2) => some ([.msg "" kids], r2)
       | _ => none)
    | _ => some ([], toks)
end

/-- a whole option value -/
def pValue (fuel : Nat) : List Tok → Option Opt
  | [.scalar v] => some (.scalar "" v)
  | .lbrace :: rest =>
    (match pFields fuel rest with
     | some (kids, [.rbrace]) => some (.msg "" kids)
     | _ => none)
  | .lbrack :: rest =>
    (match pElems fuel rest with
     | some (kids, [.rbrack]) => some (.arr "" kids)
     | _ => none)
  | _ => none

/-! what the text can carry: list elements lose their (redundant) key, the root loses its name -/
mutual
def normKids : List Opt → List Opt
  | [] => []
  | .scalar k v :: r => .scalar k v :: normKids r
  | .msg k ks :: r => .msg k (normKids ks) :: normKids r
  | .arr k ks :: r => .arr k (normElems ks) :: normKids r
def normElems : List Opt → List Opt
  | [] => []
  | .scalar _ v :: r => .scalar "" v :: normElems r
  | .msg _ ks :: r => .msg "" (normKids ks) :: normElems r
  | .arr _ _ :: r => normElems r
end

def norm : Opt → Opt
  | .scalar _ v => .scalar "" v
  | .msg _ ks => .msg "" (normKids ks)
  | .arr _ ks => .arr "" (normElems ks)

/-! the same without dropping anything (a list inside a list keeps its place) -/
mutual
/-- blank the keys the text does not carry: of list elements (and, in `eraseKeys`, of the root) -/
def eraseKids : List Opt → List Opt
  | [] => []
  | .scalar k v :: r => .scalar k v :: eraseKids r
  | .msg k ks :: r => .msg k (eraseKids ks) :: eraseKids r
  | .arr k ks :: r => .arr k (eraseElems ks) :: eraseKids r
def eraseElems : List Opt → List Opt
  | [] => []
  | .scalar _ v :: r => .scalar "" v :: eraseElems r
  | .msg _ ks :: r => .msg "" (eraseKids ks) :: eraseElems r
  | .arr _ ks :: r => .arr "" (eraseElems ks) :: eraseElems r
end

def eraseKeys : Opt → Opt
  | .scalar _ v => .scalar "" v
  | .msg _ ks => .msg "" (eraseKids ks)
  | .arr _ ks => .arr "" (eraseElems ks)

/-! the trees `WalkOptionField` produces: no list directly inside a list -/
mutual
def wfKids : List Opt → Bool
  | [] => true
  | .scalar _ _ :: r => wfKids r
  | .msg _ ks :: r => wfKids ks && wfKids r
  | .arr _ ks :: r => wfElems ks && wfKids r
def wfElems : List Opt → Bool
  | [] => true
  | .scalar _ _ :: r => wfElems r
  | .msg _ ks :: r => wfKids ks && wfElems r
  | .arr _ _ :: _ => false
end

def wf : Opt → Bool
  | .scalar _ _ => true
  | .msg _ ks => wfKids ks
  | .arr _ ks => wfElems ks

/-! fuel that suffices -/
mutual
def szKids : List Opt → Nat
  | [] => 1
  | .scalar _ _ :: r => 1 + szKids r
  | .msg _ ks :: r => 1 + szKids ks + szKids r
  | .arr _ ks :: r => 1 + szElems ks + szKids r
def szElems : List Opt → Nat
  | [] => 1
  | .scalar _ _ :: r => 1 + szElems r
  | .msg _ ks :: r => 1 + szKids ks + szElems r
  | .arr _ ks :: r => 1 + szElems ks + szElems r
end

def sz : Opt → Nat
  | .scalar _ _ => 1
  | .msg _ ks => szKids ks
  | .arr _ ks => szElems ks

end J5V.Print.OptionText
