import J5V.Print.ReparseMain
import J5V.Print.RefName
/-!
# The reading keeps every type name the printer wrote (core only)

`C05_reparse` is an identity on the rendered syntax tree. Here: the type names in the parsed file are, position by
position (fields in printed order, nested elements in place, request / response types of methods), the texts the printer
wrote — so a name produced by the `RefName` kernel is read back verbatim and `C05_refname_resolves` applies to it.
-/
namespace J5V.Print.Reparse
open J5V.Print J5V.Print.Grammar J5V.Print.Layout J5V.Print.OptionText

mutual
/-- the type-name texts of an element, in order: the type of a field (an enum value has `""`), request and response
type of a method, the texts of the children of a block -/
def typeTexts : Item → List String
  | .field f => [f.type]
  | .rpc _ _ _ inT outT _ => [inT, outT]
  | .block _ _ _ _ _ _ ks => typeTextsL ks
def typeTextsL : List Item → List String
  | [] => []
  | e :: r => typeTexts e ++ typeTextsL r
end

theorem typeTexts_withLead (c : String) : ∀ e : Item, typeTexts (e.withLead c) = typeTexts e
  | .field _ => rfl
  | .rpc _ _ _ _ _ _ => by simp [Item.withLead, typeTexts]
  | .block _ _ _ _ _ _ _ => by simp [Item.withLead, typeTexts]

theorem rdField_type (f : FieldD) (s : Nat) : (rdField f s).type = f.type := by
  simp [rdField, shF, rdField0, mkField]

mutual
theorem rdItem_typeTexts : ∀ (e : Item) (s : Nat), typeTexts (rdItem e s).1 = typeTexts e
  | .field f, s => by
    simp only [rdItem]
    split
    · rfl
    · simp only [typeTexts, rdField_type]
  | .rpc _ _ _ _ _ _, s => by
    simp only [rdItem]
    split <;> rfl
  | .block kw t l i name os kids, s => by
    simp only [rdItem]
    split
    · rename_i he
      simp only [Bool.and_eq_true, List.isEmpty_iff] at he
      rw [he.1]
      simp [typeTexts, typeTextsL]
    · simp only [typeTexts]
      exact rdKids_typeTexts kids _ _ _ _ _
theorem rdKids_typeTexts : ∀ (es : List Item) (first : Bool) (le0 lt L : Nat) (g : Bool),
    typeTextsL (rdKids es first le0 lt L g).1 = typeTextsL es
  | [], _, _, _, _, _ => by simp [rdKids]
  | e :: r, first, le0, lt, L, g => by
    rw [rdKids_cons]
    simp only [typeTextsL, typeTexts_withLead, rdItem_typeTexts, rdKids_typeTexts r]
end

theorem rdFile_typeTexts (t : FileD) : typeTextsL (rdFile t).items = typeTextsL t.items := by
  simp only [rdFile]
  exact rdKids_typeTexts _ _ _ _ _ _

end J5V.Print.Reparse
