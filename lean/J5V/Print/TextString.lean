/-!
# C05 kernel 1 — proto string literals (core only)

`textString` mirrors `prototextString` of
`/repo/internal/j5s/protoprint/optionreflect/walk.go` (a copy of prototext's string encoder with
`outputASCII = true`): byte string ↦ double-quoted literal.

`unescape` is the reader side, written from the protobuf language specification of string literals
as implemented by protocompile's lexer (`parser/lexer.go readStringLiteral`, third party, **not**
under test): literal ↦ byte string, or `none` when the literal is rejected.
Both are compared with the Go functions by the `print.str` correspondence stream.

Bytes are `Nat`s below 256 (`IsBytes`).
-/
namespace J5V.Print.TextString

def IsBytes (s : List Nat) : Prop := ∀ b ∈ s, b < 256

instance (s : List Nat) : Decidable (IsBytes s) := by unfold IsBytes; infer_instance

/-! ## UTF-8 as Go's `unicode/utf8` implements it -/

def isCont (b : Nat) : Bool := 0x80 ≤ b && b ≤ 0xBF

/-- accepted range of the second byte (Go's `acceptRanges`) -/
def lo3 (b0 : Nat) : Nat := if b0 = 0xE0 then 0xA0 else 0x80
def hi3 (b0 : Nat) : Nat := if b0 = 0xED then 0x9F else 0xBF
def lo4 (b0 : Nat) : Nat := if b0 = 0xF0 then 0x90 else 0x80
def hi4 (b0 : Nat) : Nat := if b0 = 0xF4 then 0x8F else 0xBF

/-- `utf8.DecodeRuneInString`: `some (r, n)` for a well-formed sequence of `n` bytes at the head,
`none` for `(RuneError, 1)` (ill-formed) and for the empty string. -/
def decodeRune : List Nat → Option (Nat × Nat)
  | [] => none
  | b0 :: t =>
    if b0 < 0x80 then some (b0, 1)
    else if 0xC2 ≤ b0 ∧ b0 ≤ 0xDF then
      match t with
      | b1 :: _ => if isCont b1 then some ((b0 % 32) * 64 + b1 % 64, 2) else none
      | _ => none
    else if 0xE0 ≤ b0 ∧ b0 ≤ 0xEF then
      match t with
      | b1 :: b2 :: _ =>
        if lo3 b0 ≤ b1 ∧ b1 ≤ hi3 b0 ∧ isCont b2 then some ((b0 % 16) * 4096 + (b1 % 64) * 64 + b2 % 64, 3) else none
      | _ => none
    else if 0xF0 ≤ b0 ∧ b0 ≤ 0xF4 then
      match t with
      | b1 :: b2 :: b3 :: _ =>
        if lo4 b0 ≤ b1 ∧ b1 ≤ hi4 b0 ∧ isCont b2 ∧ isCont b3 then
          some ((b0 % 8) * 262144 + (b1 % 64) * 4096 + (b2 % 64) * 64 + b3 % 64, 4)
        else none
      | _ => none
    else none

/-- `utf8.AppendRune` / `bytes.Buffer.WriteRune`: surrogates and values above U+10FFFF are written
as U+FFFD. -/
def encodeRune (r : Nat) : List Nat :=
  if r < 0x80 then [r]
  else if r < 0x800 then [0xC0 + r / 64, 0x80 + r % 64]
  else if (0xD800 ≤ r ∧ r ≤ 0xDFFF) ∨ 0x10FFFF < r then [0xEF, 0xBF, 0xBD]
  else if r < 0x10000 then [0xE0 + r / 4096, 0x80 + r / 64 % 64, 0x80 + r % 64]
  else [0xF0 + r / 262144, 0x80 + r / 4096 % 64, 0x80 + r / 64 % 64, 0x80 + r % 64]

/-! ## hexadecimal -/

/-- lower-case hex digit, as `strconv.AppendUint(_, _, 16)` writes it -/
def hexDigit (d : Nat) : Nat := if d < 10 then 48 + d else 87 + d

def hexVal (c : Nat) : Option Nat :=
  if 48 ≤ c ∧ c ≤ 57 then some (c - 48)
  else if 97 ≤ c ∧ c ≤ 102 then some (c - 87)
  else if 65 ≤ c ∧ c ≤ 70 then some (c - 55)
  else none

/-- the `w` low hex digits of `r`, most significant first -/
def hexFixed (r : Nat) : Nat → List Nat
  | 0 => []
  | w + 1 => hexDigit (r / 16 ^ w % 16) :: hexFixed r w

/-- number of hex digits `strconv.AppendUint(r, 16)` writes; equals `1 + (bits.Len32(r)-1)/4`
(Go's integer division truncates toward zero, so `r = 0` gives 1 as well) -/
def hexWidth (r : Nat) : Nat :=
  if r < 0x10 then 1 else if r < 0x100 then 2 else if r < 0x1000 then 3 else if r < 0x10000 then 4
  else if r < 0x100000 then 5 else if r < 0x1000000 then 6 else if r < 0x10000000 then 7 else 8

/-- `"00…0"[1+(bits.Len32(r)-1)/4:]` followed by `strconv.AppendUint(r, 16)` for a pad string of
`W` zeros. -/
def goHexPad (W r : Nat) : List Nat :=
  List.replicate (W - hexWidth r) 48 ++ hexFixed r (hexWidth r)

/-! ## the encoder -/

/-- one loop iteration of `prototextString`: the bytes appended to `out` and the number of input
bytes consumed. `l` is non-empty. -/
def escStep (l : List Nat) : List Nat × Nat :=
  match l with
  | [] => ([], 1)
  | b0 :: _ =>
    match decodeRune l with
    | none =>
      -- `r == utf8.RuneError && n == 1`: r = rune(in[0]), fallthrough into the escape branch
      (92 :: 120 :: goHexPad 2 b0, 1)
    | some (r, n) =>
      if r < 32 ∨ r = 34 ∨ r = 92 ∨ r = 0x7f then
        if r = 34 ∨ r = 92 then ([92, r], n)
        else if r = 10 then ([92, 110], n)
        else if r = 13 then ([92, 114], n)
        else if r = 9 then ([92, 116], n)
        else (92 :: 120 :: goHexPad 2 r, n)
      else if 0x80 ≤ r then
        -- outputASCII is the constant true
        if r ≤ 0xFFFF then (92 :: 117 :: goHexPad 4 r, n)
        else (92 :: 85 :: goHexPad 8 r, n)
      else
        -- printable ASCII (the Go code copies the whole run up to the next byte that needs
        -- escaping; byte by byte is the same thing)
        ([r], n)

theorem decodeRune_bounds {l : List Nat} {r n : Nat} (h : decodeRune l = some (r, n)) :
    1 ≤ n ∧ n ≤ l.length := by
  unfold decodeRune at h
  repeat' split at h
  all_goals simp_all
  all_goals omega

theorem escStep_pos (l : List Nat) : 1 ≤ (escStep l).2 := by
  unfold escStep
  split
  · simp
  · split
    · simp
    · rename_i r n h
      have hn := (decodeRune_bounds h).1
      repeat' split
      all_goals simpa using hn

def escBody (l : List Nat) : List Nat :=
  match h : l with
  | [] => []
  | b0 :: t =>
    (escStep l).1 ++ escBody (l.drop (escStep l).2)
termination_by l.length
decreasing_by
  have := escStep_pos (b0 :: t)
  subst h
  simp only [List.length_drop, List.length_cons]
  omega

/-- `prototextString` -/
def textString (s : List Nat) : List Nat := 34 :: (escBody s ++ [34])

/-! ## the reader (protobuf language spec, as protocompile's lexer implements it) -/

def isOct (c : Nat) : Bool := 48 ≤ c && c ≤ 55

def hexVals : List Nat → Option Nat
  | [] => some 0
  | c :: t => match hexVal c, hexVals t with
    | some d, some v => some (d * 16 ^ t.length + v)
    | _, _ => none

/-- Reads the literal after its opening quote. `none` = rejected: end of input or a raw newline
before the closing quote, a raw NUL, a malformed escape, or anything after the closing quote. -/
def unescBody (l : List Nat) : Option (List Nat) :=
  match l with
  | [] => none
  | 34 :: t => if t = [] then some [] else none
  | 10 :: _ => none
  | 0 :: _ => none
  | 92 :: t =>
    match t with
    | [] => none
    | c :: t1 =>
      if c = 120 ∨ c = 88 then
        match t1 with
        | [] => none
        | c1 :: t2 =>
          if c1 = 34 ∨ c1 = 92 then none else
          match t2 with
          | [] => none
          | c2 :: t3 =>
            match hexVal c2 with
            | some d2 =>
              (match hexVal c1 with
               | some d1 => (unescBody t3).map ((d1 * 16 + d2) :: ·)
               | none => none)
            | none =>
              (match hexVal c1 with
               | some d1 => (unescBody (c2 :: t3)).map (d1 :: ·)
               | none => none)
      else if isOct c then
        match t1 with
        | [] => none
        | c2 :: t2 =>
          if !isOct c2 then (unescBody (c2 :: t2)).map ((c - 48) :: ·) else
          match t2 with
          | [] => none
          | c3 :: t3 =>
            if !isOct c3 then (unescBody (c3 :: t3)).map (((c - 48) * 8 + (c2 - 48)) :: ·)
            else
              let v := (c - 48) * 64 + (c2 - 48) * 8 + (c3 - 48)
              if v > 0xff then none else (unescBody t3).map (v :: ·)
      else if c = 117 then
        match t1 with
        | a :: b :: c' :: d :: t5 =>
          if [a, b, c', d].any (fun x => x = 34 ∨ x = 92) then none else
          (match hexVals [a, b, c', d] with
           | some v => (unescBody t5).map (encodeRune v ++ ·)
           | none => none)
        | _ => none
      else if c = 85 then
        match t1 with
        | a :: b :: c' :: d :: e :: f :: g :: h :: t9 =>
          if [a, b, c', d, e, f, g, h].any (fun x => x = 34 ∨ x = 92) then none else
          (match hexVals [a, b, c', d, e, f, g, h] with
           | some v => if v > 0x10ffff then none else (unescBody t9).map (encodeRune v ++ ·)
           | none => none)
        | _ => none
      else
        let simple : Option Nat :=
          if c = 97 then some 7 else if c = 98 then some 8 else if c = 102 then some 12
          else if c = 110 then some 10 else if c = 114 then some 13 else if c = 116 then some 9
          else if c = 118 then some 11 else if c = 92 then some 92 else if c = 39 then some 39
          else if c = 34 then some 34 else if c = 63 then some 63 else none
        match simple with
        | some v => (unescBody t1).map (v :: ·)
        | none => none
  | b :: t =>
    -- a raw character: the lexer reads a rune and writes it back (an ill-formed byte becomes U+FFFD)
    match hd : decodeRune (b :: t) with
    | some (r, n) => (unescBody ((b :: t).drop n)).map (encodeRune r ++ ·)
    | none => (unescBody t).map ([0xEF, 0xBF, 0xBD] ++ ·)
termination_by l.length
decreasing_by
  all_goals simp_wf
  all_goals try omega
  all_goals (have := (decodeRune_bounds hd).1; omega)

/-- the whole literal: opening quote, body, closing quote, nothing else -/
def unescape (l : List Nat) : Option (List Nat) :=
  match l with
  | 34 :: t => unescBody t
  | _ => none

end J5V.Print.TextString
