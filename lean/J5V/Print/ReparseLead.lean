import J5V.Print.ReparseComments
import J5V.Print.ReparseOpts
/-!
# Leading comments: the generic lemmas (core only)

* `hd c ts`: the token list `ts` whose first token carries the leading comment `c` (what `attach` produces for an
  element written below its comment), `withLead`: an element with that leading comment;
* the parser reads the comment of the first token into the location of the element it starts: `parseField_hd`;
* `attach` over the raw items of token-only lines and over a comment block followed by a token line.
-/
namespace J5V.Print.Layout

def Loc.withLead (c : String) (l : Loc) : Loc := { l with leading := c }

def FieldD.withLead (c : String) (f : FieldD) : FieldD := { f with loc := f.loc.withLead c }

/-- the element with the leading comment `c` -/
def Item.withLead (c : String) : Item → Item
  | .field f => .field (f.withLead c)
  | .rpc l i a b d os => .rpc (l.withLead c) i a b d os
  | .block kw t l i nm os ks => .block kw t (l.withLead c) i nm os ks

theorem Item.withLead_typeOrder (c : String) : ∀ e : Item, (e.withLead c).typeOrder = e.typeOrder
  | .field _ => rfl
  | .rpc _ _ _ _ _ _ => rfl
  | .block _ _ _ _ _ _ _ => rfl

theorem Item.withLead_loc (c : String) : ∀ e : Item, (e.withLead c).loc = e.loc.withLead c
  | .field _ => rfl
  | .rpc _ _ _ _ _ _ => rfl
  | .block _ _ _ _ _ _ _ => rfl

end J5V.Print.Layout

namespace J5V.Print.Grammar
open J5V.Print J5V.Print.Layout

/-- the comments of a token below a leading comment `c` -/
def leadCm (c : String) : Cm := ⟨"", [], c⟩

theorem leadCm_empty : leadCm "" = Cm.none := rfl

/-- the first token carries the leading comment `c` -/
def hd (c : String) : List PTok → List PTok
  | [] => []
  | t :: r => { t with cm := leadCm c } :: r

theorem hd_cons (c : String) (t : Tok) (l : Nat) (cm : Cm) (r : List PTok) : hd c (⟨t, l, cm⟩ :: r) = ⟨t, l, leadCm c⟩ :: r := rfl

theorem hd_T_empty (t : Tok) (l : Nat) (r : List PTok) : hd "" (T t l :: r) = T t l :: r := rfl

theorem hd_length (c : String) : ∀ ts : List PTok, (hd c ts).length = ts.length
  | [] => rfl
  | _ :: _ => rfl

theorem mkLoc_lead (s e : Nat) (c : String) (tr : String) : mkLoc s e (leadCm c) tr = (mkLoc s e Cm.none tr).withLead c := rfl

/-! ## the parser reads the comment of the first token of a field into its location -/

theorem mkField_hd (k : FieldKind) (l : Nat) (c : String) (label ty name : String) (tail : Int × List RawOpt × Nat × List PTok) :
    mkField k l (leadCm c) label ty name tail =
      ((mkField k l Cm.none label ty name tail).1.withLead c, (mkField k l Cm.none label ty name tail).2) := by
  obtain ⟨num, raws, e, r⟩ := tail
  rfl

/-- what `parseField_hd` does to a result -/
def leadRes (c : String) (p : FieldD × List PTok) : FieldD × List PTok := (p.1.withLead c, p.2)

theorem mkField_hd' (k : FieldKind) (l : Nat) (c : String) (label ty name : String) :
    mkField k l (leadCm c) label ty name = fun tail => leadRes c (mkField k l Cm.none label ty name tail) := by
  funext tail
  exact mkField_hd k l c label ty name tail

theorem typeName_cm (tok : Tok) (l : Nat) (cm cm' : Cm) (tl : List PTok) :
    typeName (⟨tok, l, cm⟩ :: tl) = typeName (⟨tok, l, cm'⟩ :: tl) := by
  cases tok with
  | ident s => simp [typeName]
  | sym ch =>
    by_cases h : ch = '.'
    · subst h
      cases tl with
      | nil => simp [typeName]
      | cons t2 r =>
        obtain ⟨tok2, l2, c2⟩ := t2
        cases tok2 <;> simp [typeName]
    · unfold typeName
      split
      · rename_i heq; simp at heq
      · rename_i heq
        simp only [List.cons.injEq, PTok.mk.injEq, Tok.sym.injEq] at heq
        exact absurd heq.1.1 h
      · split
        · rename_i heq; simp at heq
        · rename_i heq
          simp only [List.cons.injEq, PTok.mk.injEq, Tok.sym.injEq] at heq
          exact absurd heq.1.1 h
        · rfl
  | num s => simp [typeName]
  | str s => simp [typeName]
  | eof => simp [typeName]

theorem plainField_first (tok : Tok) (l : Nat) (c : String) (label : String) (ts : List PTok) :
    plainField ⟨tok, l, leadCm c⟩ label ts = (plainField ⟨tok, l, Cm.none⟩ label ts).map (leadRes c) := by
  unfold plainField
  split
  · simp only [mkField_hd', Option.map_map]
    rfl
  · rfl

theorem mapField_first (tok : Tok) (l : Nat) (c : String) (label : String) (ts : List PTok) :
    mapField ⟨tok, l, leadCm c⟩ label ts = (mapField ⟨tok, l, Cm.none⟩ label ts).map (leadRes c) := by
  unfold mapField
  split
  · split
    · simp only [mkField_hd', Option.map_map]
      rfl
    · rfl
  · rfl

theorem fieldAfterLabel_first (tok : Tok) (l : Nat) (c : String) (label : String) (ts : List PTok) :
    fieldAfterLabel ⟨tok, l, leadCm c⟩ label ts = (fieldAfterLabel ⟨tok, l, Cm.none⟩ label ts).map (leadRes c) := by
  unfold fieldAfterLabel
  split
  · split
    · exact mapField_first tok l c label _
    · exact plainField_first tok l c label _
  · exact plainField_first tok l c label _

theorem plainField_rest (first : PTok) (label : String) (tok : Tok) (l : Nat) (cm cm' : Cm) (tl : List PTok) :
    plainField first label (⟨tok, l, cm⟩ :: tl) = plainField first label (⟨tok, l, cm'⟩ :: tl) := by
  unfold plainField
  rw [typeName_cm tok l cm cm' tl]

theorem fieldAfterLabel_rest (first : PTok) (label : String) (tok : Tok) (l : Nat) (cm cm' : Cm) (tl : List PTok) :
    fieldAfterLabel first label (⟨tok, l, cm⟩ :: tl) = fieldAfterLabel first label (⟨tok, l, cm'⟩ :: tl) := by
  cases tl with
  | nil =>
    simp only [fieldAfterLabel]
    exact plainField_rest first label tok l cm cm' []
  | cons t2 r =>
    obtain ⟨tok2, l2, c2⟩ := t2
    cases tok with
    | ident s =>
      cases tok2 with
      | sym ch =>
        simp only [fieldAfterLabel]
        split
        · rfl
        · exact plainField_rest first label _ l cm cm' _
      | ident _ => simp only [fieldAfterLabel]; exact plainField_rest first label _ l cm cm' _
      | num _ => simp only [fieldAfterLabel]; exact plainField_rest first label _ l cm cm' _
      | str _ => simp only [fieldAfterLabel]; exact plainField_rest first label _ l cm cm' _
      | eof => simp only [fieldAfterLabel]; exact plainField_rest first label _ l cm cm' _
    | sym _ => simp only [fieldAfterLabel]; exact plainField_rest first label _ l cm cm' _
    | num _ => simp only [fieldAfterLabel]; exact plainField_rest first label _ l cm cm' _
    | str _ => simp only [fieldAfterLabel]; exact plainField_rest first label _ l cm cm' _
    | eof => simp only [fieldAfterLabel]; exact plainField_rest first label _ l cm cm' _

/-- **the comment of the first token goes to the field** -/
theorem parseField_hd (tok : Tok) (l : Nat) (c : String) (tl : List PTok) :
    parseField (⟨tok, l, leadCm c⟩ :: tl) = (parseField (⟨tok, l, Cm.none⟩ :: tl)).map (leadRes c) := by
  simp only [parseField]
  cases tok with
  | ident s =>
    simp only [splitLabel]
    split
    · exact fieldAfterLabel_first _ l c _ _
    · split
      · exact fieldAfterLabel_first _ l c _ _
      · rw [fieldAfterLabel_first, fieldAfterLabel_rest _ _ _ l (leadCm c) Cm.none tl]
  | sym ch =>
    simp only [splitLabel]
    rw [fieldAfterLabel_first, fieldAfterLabel_rest _ _ _ l (leadCm c) Cm.none tl]
  | num s =>
    simp only [splitLabel]
    rw [fieldAfterLabel_first, fieldAfterLabel_rest _ _ _ l (leadCm c) Cm.none tl]
  | str s =>
    simp only [splitLabel]
    rw [fieldAfterLabel_first, fieldAfterLabel_rest _ _ _ l (leadCm c) Cm.none tl]
  | eof =>
    simp only [splitLabel]
    rw [fieldAfterLabel_first, fieldAfterLabel_rest _ _ _ l (leadCm c) Cm.none tl]

theorem parseField_hd_some (tok : Tok) (l : Nat) (c : String) (tl : List PTok) (fd : FieldD) (r : List PTok)
    (h : parseField (⟨tok, l, Cm.none⟩ :: tl) = some (fd, r)) :
    parseField (⟨tok, l, leadCm c⟩ :: tl) = some (fd.withLead c, r) := by
  rw [parseField_hd, h]
  rfl

end J5V.Print.Grammar
