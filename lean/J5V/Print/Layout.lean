import J5V.Print.OptionText
import J5V.Print.TextString
import J5V.Print.Scalar
/-!
# C05 kernel 5 — the element walk and the layout of a whole file (core only)

A model of **everything** `protoprint.PrintFile` does above the four kernels:
`printFile`, `printSection`, `printElements` (sorting, gaps / blank lines), `printMessage` /
`printEnum` / `printService` / `printOneof` / `printMethod` / `printField` / `printFieldStyle`
(with comments), `printExtension`, `leadingComments` / `trailingComments` / `inlineComment`,
`fileBuffer.p` / `addGap` / `endElem`, the option enumeration order of `OptionsFor`
(`/repo/internal/j5s/protoprint/{protoprint,types,options,elements}.go`,
`optionreflect/builder.go`).

Input: an abstract element tree (`FileD` → `Item` → `FieldD` / `OptD`) holding what the printer
reads from a descriptor: names, numbers, printed type names (outputs of the `RefName` kernel),
option value trees (outputs of `WalkOptionField`), source locations (lines, comments). The
harness stream `print.file` summarises real descriptors into this tree and compares the text
`printFile` gives with the text the real `PrintFile` gives.

The printer works in two phases: `arrange` (sort the children of every block — `sort.Sort`
with `sourceElements.Less`) and `emit` (walk the arranged tree and write lines).
-/
namespace J5V.Print.Layout
open J5V.Print.OptionText J5V.Print.Order

/-! ## the output buffer: `fileBuffer.p`, `addGap`, `endElem` -/

/-- what the walk asks of the buffer; texts are already indented -/
inductive Cmd where
  | line (s : String)   -- `p`: a pending gap is written first (as an empty line)
  | gap                 -- `addGap`
  | endl (s : String)   -- `endElem`: a pending gap is dropped
  deriving Repr, DecidableEq

/-- the lines written, given the state of the `addGap` flag -/
def run : List Cmd → Bool → List String
  | [], _ => []
  | .gap :: r, _ => run r true
  | .line s :: r, g => (if g then ["", s] else [s]) ++ run r false
  | .endl s :: r, _ => s :: run r false

/-! ## source locations and comments -/

/-- `protoreflect.SourceLocation`, as far as the printer reads it (`startLine = 0`: none) -/
structure Loc where
  startLine : Nat
  endLine : Nat
  detached : List String
  leading : String
  trailing : String
  deriving Repr, DecidableEq, Inhabited

def Loc.none : Loc := ⟨0, 0, [], "", ""⟩

/-- `strings.Split(c, "\n")` without its last element (comment strings end with a newline) -/
def commentBody (c : String) : List String :=
  if c = "" then [] else (c.splitOn "\n").dropLast

/-- `commentLines` -/
def commentLines (c : String) : List String := (commentBody c).map ("//" ++ ·)

/-- `inlineComment` (joined: the printer writes the elements one after the other) -/
def inlineComment (l : Loc) : String :=
  let ls := commentBody l.trailing
  if ls.length > 1 then "" else String.join (ls.map (" //" ++ ·))

/-- `trailingComments` on a builder with indentation `n` -/
def trailingCmds (n : Nat) (l : Loc) : List Cmd :=
  let ls := commentBody l.trailing
  if ls.length ≤ 1 then [] else ls.map (fun x => Cmd.line (ind n ("//" ++ x))) ++ [.gap]

/-- `leadingComments` on a builder with indentation `n` -/
def leadingCmds (n : Nat) (l : Loc) : List Cmd :=
  (l.detached.map (fun c => (commentLines c).map (fun x => Cmd.line (ind n x)) ++ [Cmd.gap])).flatten ++
  (if l.leading = "" then [] else Cmd.gap :: (commentLines l.leading).map (fun x => Cmd.line (ind n x)))

/-! ## options -/

mutual
def depthKids : List Opt → Nat
  | [] => 0
  | o :: r => max (depth o) (depthKids r)
/-- depth of a value tree: enough fuel for `simplify` -/
def depth : Opt → Nat
  | .scalar _ _ => 1
  | .msg _ ks => 1 + depthKids ks
  | .arr _ ks => 1 + depthKids ks
end

/-- one `optionreflect.OptionDefinition` as `OptionsFor` returns it -/
structure OptD where
  extFull : String       -- `Desc.FullName()` of the option field
  isExt : Bool           -- `RootType.IsExtension()`
  rel : String           -- extension: `contextRefName(Context, RootType)`; built-in: the field name
  tree : Opt             -- `WalkOptionField(Desc, Value)` before `Simplify`
  hasLoc : Bool          -- `SourceLocation != nil`
  singleLine : Bool
  inlineParent : Bool
  startLine : Nat
  index : Nat            -- `Desc.Index()`
  deriving Repr, Inhabited

/-- `optionFullName` -/
def optName (isExt : Bool) (rel : String) (sub : List String) : String :=
  if isExt then optionName rel sub else ".".intercalate (rel :: sub)

def OptD.simp (o : OptD) : List String × Opt := simplified o.extFull o.tree (depth o.tree)

/-- An option as the printer writes it (`parseOption`): the printed name (after `Simplify`), the
values of its statements (one, or one per element of a repeated option), and what the printer
reads of the source location. This is also what a reader of the text gets back. -/
structure SOpt where
  name : String
  stmts : List Opt
  hasLoc : Bool
  singleLine : Bool
  inlineParent : Bool
  startLine : Nat
  index : Nat
  full : String
  deriving Repr, Inhabited

def OptD.toS (o : OptD) : SOpt :=
  ⟨optName o.isExt o.rel o.simp.1, statements o.simp.2, o.hasLoc, o.singleLine, o.inlineParent, o.startLine,
    o.index, o.extFull⟩

def SOpt.single (o : SOpt) : Bool := !o.hasLoc || o.singleLine      -- `sourceSingleLine`
def SOpt.inl (o : SOpt) : Bool := !o.hasLoc || o.inlineParent        -- `inlineWithParent`

/-- `parseOption`: the statements of one option -/
def SOpt.parsed (o : SOpt) : List POpt :=
  o.stmts.map fun v => ⟨o.name, v, inlineString o.single v, o.inl⟩

def strBytes (s : String) : List Nat := s.toUTF8.toList.map (·.toNat)

def SOpt.loc (o : SOpt) : OptLoc := ⟨o.hasLoc, o.startLine, o.index, strBytes o.full⟩

/-- `sort.Sort(optionsByLocation(options))`. The sort is unstable and its input order is the
iteration order of a Go map: the result is determined only when `locLess` is a strict weak order
without ties on these options (`optsDetermined`); then every sorting algorithm agrees with this one. -/
def sortOpts (os : List SOpt) : List SOpt := isort (fun a b => locLess a.loc b.loc) os

/-- `printOption` on a builder with indentation `n` -/
def optionCmds (n : Nat) (o : SOpt) : List Cmd :=
  ((o.stmts.map (optionStmt1 n o.name o.single)).flatten).map Cmd.line

/-! ## elements -/

inductive FieldKind where
  | field      -- message field or extension field: `<label><type> <name>`
  | value      -- enum value: `<name>`
  deriving Repr, DecidableEq, Inhabited

/-- a field, an extension field or an enum value (`printFieldStyle`) -/
structure FieldD where
  kind : FieldKind
  loc : Loc
  index : Nat
  label : String          -- "", "repeated ", "optional "
  type : String           -- the printed type name (`fieldTypeName`), `map<k, v>` for a map
  name : String
  number : Int
  json : Option String    -- `JSONName()` of a non-extension field
  opts : List SOpt
  deriving Repr, Inhabited

def FieldD.head (f : FieldD) : String :=
  match f.kind with
  | .field => f.label ++ f.type ++ " " ++ f.name
  | .value => f.name

def bytesStr (bs : List Nat) : String := String.ofList (bs.map Char.ofNat)

/-- the options of `printFieldStyle`: `optionsFor` (parsed, sorted by name) plus `json_name` -/
def FieldD.popts (f : FieldD) : List POpt :=
  let sorted := sortByName (f.opts.map SOpt.parsed).flatten
  match f.json with
  | some j =>
    if j.toList ≠ defaultJSONName f.name.toList then
      sorted ++ [⟨"json_name", .scalar "" "", some (bytesStr (TextString.textString (strBytes j))), true⟩]
    else sorted
  | none => sorted

/-- `printField` / `printEnumValue` on a builder with indentation `n` -/
def fieldCmds (n : Nat) (f : FieldD) : List Cmd :=
  leadingCmds n f.loc ++
  (fieldStyle n f.head (Scalar.formatInt f.number) f.popts (inlineComment f.loc)).map Cmd.line ++
  trailingCmds n f.loc

/-- message / enum / service / oneof (`block`), field / enum value, method -/
inductive Item where
  | field (f : FieldD)
  | rpc (loc : Loc) (index : Nat) (name inT outT : String) (opts : List SOpt)
  | block (kw : String) (typeOrder : Nat) (loc : Loc) (index : Nat) (name : String)
      (opts : List SOpt) (kids : List Item)
  deriving Repr, Inhabited

def Item.loc : Item → Loc
  | .field f => f.loc
  | .rpc l _ _ _ _ _ => l
  | .block _ _ l _ _ _ _ => l

def Item.index : Item → Nat
  | .field f => f.index
  | .rpc _ i _ _ _ _ => i
  | .block _ _ _ i _ _ _ => i

/-- `sourceElement.typeOrder`: message 1, enum 2, everything else 0 -/
def Item.typeOrder : Item → Nat
  | .block _ t _ _ _ _ _ => t
  | _ => 0

def Item.elem (i : Item) : Elem := ⟨i.typeOrder, i.loc.startLine, i.index⟩

/-! ## phase 1: arranging (`sort.Sort(elements)`) -/

/-- one step of Go's `insertionSort`: the new element moves left while it is `Less` than its left
neighbour. The accumulator is the sorted prefix, reversed. -/
def insStep {α} (lt : α → α → Bool) (racc : List α) (x : α) : List α :=
  (racc.takeWhile (lt x ·)) ++ x :: racc.dropWhile (lt x ·)

/-- `sort.Sort` for at most 12 elements (`insertionSort`, stable); for more elements pdqsort gives
the same result whenever the comparison is a strict weak order without ties. -/
def goSort {α} (lt : α → α → Bool) (l : List α) : List α := (l.foldl (insStep lt) []).reverse

def sortItems (l : List Item) : List Item := goSort (fun a b => less a.elem b.elem) l

mutual
/-- sort the children of every block -/
def arrange : Item → Item
  | .block kw t l i nm os kids => .block kw t l i nm os (sortItems (arrangeList kids))
  | it => it
def arrangeList : List Item → List Item
  | [] => []
  | x :: r => arrange x :: arrangeList r
end

/-! ## phase 2: emitting -/

/-- `printElements`: a gap before an element that is not the first when the source left at least one line free
after the previous element (`lastEnd > 0 && start > lastEnd + 1`) or the kind of element changes -/
def gapCond (first : Bool) (lastEnd start type lastType : Nat) : Bool :=
  !first && ((decide (lastEnd > 0) && decide (start > lastEnd + 1)) || type != lastType)

mutual
/-- one element on a builder with indentation `n` (`printSection`, `printMethod`, `printField`),
followed by the `addGap` of `printElements` where there is one -/
def itemCmds (n : Nat) : Item → List Cmd
  | .field f => fieldCmds n f
  | .rpc l _ name inT outT opts =>
    leadingCmds n l ++
    [Cmd.line (ind n ("rpc " ++ name ++ "(" ++ inT ++ ") returns (" ++ outT ++ ")" ++
      (if opts.isEmpty then " {}" else " {") ++ inlineComment l))] ++
    trailingCmds n l ++
    ((sortOpts opts).map (optionCmds (n + 1))).flatten ++
    (if opts.isEmpty then [] else [Cmd.endl (ind n "}")]) ++ [Cmd.gap]
  | .block kw _ l _ name opts kids =>
    leadingCmds n l ++
    (if kids.isEmpty && opts.isEmpty && l.trailing = "" then
      [Cmd.line (ind n (kw ++ " " ++ name ++ " {}"))]
    else
      [Cmd.line (ind n (kw ++ " " ++ name ++ " {" ++ inlineComment l))] ++
      trailingCmds (n + 1) l ++
      ((sortOpts opts).map (fun o => optionCmds (n + 1) o ++ [Cmd.gap])).flatten ++
      elemsCmds (n + 1) kids true 0 0 ++
      [Cmd.endl (ind n "}")]) ++ [Cmd.gap]
/-- the loop of `printElements` over the sorted elements -/
def elemsCmds (n : Nat) : List Item → Bool → Nat → Nat → List Cmd
  | [], _, _, _ => []
  | e :: rest, first, lastEnd, lastType =>
    (if gapCond first lastEnd e.loc.startLine e.typeOrder lastType then [Cmd.gap] else []) ++
    itemCmds n e ++ elemsCmds n rest false e.loc.endLine e.typeOrder
end

/-! ## the file -/

structure FileD where
  loc : Loc                       -- `SourceLocations().ByPath(nil)`
  pkg : String
  imports : List (String × String)   -- path, modifier ("", "public ", "weak ")
  opts : List SOpt
  exts : List (String × FieldD)   -- top-level extension fields with their extendee
  items : List Item               -- messages, services, enums (in this order: `printFile` adds them so)
  deriving Repr, Inhabited

/-- `extBlocks`: extension fields grouped by extendee, in order of first appearance -/
def groupExts {β : Type} : List (String × β) → List (String × List β) → List (String × List β)
  | [], acc => acc
  | (e, f) :: r, acc =>
    if acc.any (·.1 == e) then groupExts r (acc.map fun b => if b.1 == e then (b.1, b.2 ++ [f]) else b)
    else groupExts r (acc ++ [(e, [f])])

/-- `printExtension`, the fields already rendered (`printField` on a builder with indentation 1) -/
def extCmds (b : String × List (List Cmd)) : List Cmd :=
  [Cmd.line ("extend " ++ b.1 ++ " {")] ++ b.2.flatten ++ [Cmd.endl "}", Cmd.gap]

def sortStrings (l : List String) : List String := isort (fun a b => nameLess (strBytes a) (strBytes b)) l

/-- `sort.Strings(importStrings)`: the imports in the order of their paths -/
def sortImports (l : List (String × String)) : List (String × String) :=
  isort (fun a b => nameLess (strBytes a.1) (strBytes b.1)) l

/-- the walk of an arranged file -/
def fileCmds (gen : String) (f : FileD) : List Cmd :=
  [Cmd.line ("// " ++ gen), Cmd.line ""] ++
  leadingCmds 0 f.loc ++
  [Cmd.line "syntax = \"proto3\";", Cmd.line "", Cmd.line ("package " ++ f.pkg ++ ";"), Cmd.gap] ++
  (if f.imports.isEmpty then []
   else (sortImports f.imports).map (fun d => Cmd.line ("import " ++ d.2 ++ "\"" ++ d.1 ++ "\";")) ++ [Cmd.gap]) ++
  ((sortOpts f.opts).map (optionCmds 0)).flatten ++ [Cmd.gap] ++
  ((groupExts (f.exts.map fun e => (e.1, fieldCmds 1 e.2)) []).map extCmds).flatten ++
  elemsCmds 0 f.items true 0 0

def FileD.arranged (f : FileD) : FileD := { f with items := sortItems (arrangeList f.items) }

/-- `printFile`: the lines of the printed text; `gen` is the `genComment` argument of `PrintFile` -/
def printFile (gen : String) (f : FileD) : List String := run (fileCmds gen f.arranged) false

/-- the text (`fileBuffer.out`) -/
def printText (gen : String) (f : FileD) : String := String.join ((printFile gen f).map (· ++ "\n"))

/-! ## when the result of the unstable sorts is determined by the comparison -/

def strictWeakOn {α} (lt : α → α → Bool) (l : List α) : Bool :=
  l.all fun a => l.all fun b => l.all fun c =>
    (!(lt a b && lt b c) || lt a c) &&
    (!(!lt a b && !lt b a && !lt b c && !lt c b) || (!lt a c && !lt c a))

def itemsDetermined (l : List Item) : Bool :=
  l.length ≤ 12 || (strictWeakOn (fun a b => less a.elem b.elem) l && noTies (fun a b => less a.elem b.elem) l)

def optsDetermined (l : List SOpt) : Bool :=
  l.length ≤ 1 || (strictWeakOn (fun a b => locLess a.loc b.loc) l && noTies (fun a b => locLess a.loc b.loc) l)

mutual
def Item.determined : Item → Bool
  | .field _ => true
  | .rpc _ _ _ _ _ opts => optsDetermined opts
  | .block _ _ _ _ _ opts kids => optsDetermined opts && itemsDetermined kids && determinedList kids
def determinedList : List Item → Bool
  | [] => true
  | x :: r => x.determined && determinedList r
end

def FileD.determined (f : FileD) : Bool :=
  optsDetermined f.opts && itemsDetermined f.items && determinedList f.items

end J5V.Print.Layout
