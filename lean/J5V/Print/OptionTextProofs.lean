import J5V.Print.OptionText
/-! Lemmas about `J5V.Print.OptionText` (core only). -/
namespace J5V.Print.OptionText

/-- the value `(ext).k₁.k₂.… = leaf` denotes: the sub-path re-nested as single-field messages -/
def expand (rootKey : String) : List String → Opt → Opt
  | [], o => o
  | k :: ks, o => .msg rootKey [expand k ks o]

/-- hoisting into the name loses nothing: re-nesting the hoisted path gives back the tree -/
theorem simplify_expand (md : Nat) : ∀ (fuel : Nat) (sub : List String) (o : Opt),
    ∃ ext, (simplify md fuel sub o).1 = sub ++ ext ∧ expand o.key ext (simplify md fuel sub o).2 = o
  | 0, sub, o => ⟨[], by simp [simplify, expand]⟩
  | fuel + 1, sub, o => by
    unfold simplify
    split
    · exact ⟨[], by simp [expand]⟩
    · split
      · rename_i r k v
        obtain ⟨ext, h1, h2⟩ := simplify_expand md fuel (sub ++ [k]) (.scalar k v)
        refine ⟨k :: ext, ?_, ?_⟩
        · rw [h1]; simp
        · simp only [expand, Opt.key] at h2 ⊢
          rw [h2]
      · rename_i r k kids
        obtain ⟨ext, h1, h2⟩ := simplify_expand md fuel (sub ++ [k]) (.msg k kids)
        refine ⟨k :: ext, ?_, ?_⟩
        · rw [h1]; simp
        · simp only [expand, Opt.key] at h2 ⊢
          rw [h2]
      · exact ⟨[], by simp [expand]⟩

/-! ## the token reader undoes the token writer -/

/-- the next token cannot start a message field -/
def Stops (rest : List Tok) : Prop := ∀ k t, rest ≠ .ident k :: t

theorem pFields_stop (f : Nat) (rest : List Tok) (h : Stops rest) : pFields (f + 1) rest = some ([], rest) := by
  unfold pFields
  split
  · rename_i k v r; exact absurd rfl (h k _)
  · rename_i k r; exact absurd rfl (h k _)
  · rename_i k r; exact absurd rfl (h k _)
  · rfl

theorem stops_rbrace (t : List Tok) : Stops (.rbrace :: t) := by intro k t' h; cases h
theorem stops_nil : Stops [] := by intro k t' h; cases h

mutual
theorem pFields_msgToks : ∀ (kids : List Opt), wfKids kids = true → ∀ (rest : List Tok) (fuel : Nat),
    Stops rest → szKids kids ≤ fuel → pFields fuel (msgToks kids ++ rest) = some (normKids kids, rest)
  | [], _, rest, fuel, hs, hf => by
    simp only [szKids] at hf
    obtain ⟨f, rfl⟩ : ∃ f, fuel = f + 1 := ⟨fuel - 1, by omega⟩
    simp only [msgToks, List.nil_append, normKids]
    exact pFields_stop f rest hs
  | .scalar k v :: r, hw, rest, fuel, hs, hf => by
    simp only [szKids] at hf
    simp only [wfKids] at hw
    obtain ⟨f, rfl⟩ : ∃ f, fuel = f + 1 := ⟨fuel - 1, by omega⟩
    simp only [msgToks, List.cons_append, normKids]
    unfold pFields
    simp only []
    rw [pFields_msgToks r hw rest f hs (by omega)]
    rfl
  | .msg k ks :: r, hw, rest, fuel, hs, hf => by
    simp only [szKids] at hf
    simp only [wfKids, Bool.and_eq_true] at hw
    obtain ⟨f, rfl⟩ : ∃ f, fuel = f + 1 := ⟨fuel - 1, by omega⟩
    simp only [msgToks, List.cons_append, List.append_assoc, normKids]
    unfold pFields
    simp only []
    rw [pFields_msgToks ks hw.1 (.rbrace :: (msgToks r ++ rest)) f (stops_rbrace _) (by omega)]
    simp only []
    rw [pFields_msgToks r hw.2 rest f hs (by omega)]
    rfl
  | .arr k ks :: r, hw, rest, fuel, hs, hf => by
    simp only [szKids] at hf
    simp only [wfKids, Bool.and_eq_true] at hw
    obtain ⟨f, rfl⟩ : ∃ f, fuel = f + 1 := ⟨fuel - 1, by omega⟩
    simp only [msgToks, List.cons_append, List.append_assoc, normKids]
    unfold pFields
    simp only []
    rw [pElems_arrToks ks hw.1 (msgToks r ++ rest) f (by omega)]
    simp only []
    rw [pFields_msgToks r hw.2 rest f hs (by omega)]
    rfl

theorem pElems_arrToks : ∀ (kids : List Opt), wfElems kids = true → ∀ (rest : List Tok) (fuel : Nat),
    szElems kids ≤ fuel → pElems fuel (arrToks kids ++ .rbrack :: rest) = some (normElems kids, .rbrack :: rest)
  | [], _, rest, fuel, hf => by
    simp only [szElems] at hf
    obtain ⟨f, rfl⟩ : ∃ f, fuel = f + 1 := ⟨fuel - 1, by omega⟩
    simp only [arrToks, List.nil_append, normElems]
    unfold pElems
    rfl
  | [.scalar k v], _, rest, fuel, hf => by
    simp only [szElems] at hf
    obtain ⟨f, rfl⟩ : ∃ f, fuel = f + 1 := ⟨fuel - 1, by omega⟩
    simp only [arrToks, List.cons_append, List.nil_append, normElems]
    unfold pElems
    rfl
  | .scalar k v :: x :: r, hw, rest, fuel, hf => by
    simp only [szElems] at hf
    simp only [wfElems] at hw
    obtain ⟨f, rfl⟩ : ∃ f, fuel = f + 1 := ⟨fuel - 1, by omega⟩
    have ih := pElems_arrToks (x :: r) hw rest f (by omega)
    simp only [arrToks, List.cons_append, normElems] at ih ⊢
    unfold pElems
    simp only []
    rw [ih]
    rfl
  | [.msg k ks], hw, rest, fuel, hf => by
    simp only [szElems] at hf
    simp only [wfElems, Bool.and_eq_true] at hw
    obtain ⟨f, rfl⟩ : ∃ f, fuel = f + 1 := ⟨fuel - 1, by omega⟩
    simp only [arrToks, List.cons_append, List.append_assoc, List.nil_append, normElems]
    unfold pElems
    simp only []
    rw [pFields_msgToks ks hw.1 (.rbrace :: .rbrack :: rest) f (stops_rbrace _) (by omega)]
  | .msg k ks :: x :: r, hw, rest, fuel, hf => by
    simp only [szElems] at hf
    simp only [wfElems, Bool.and_eq_true] at hw
    obtain ⟨f, rfl⟩ : ∃ f, fuel = f + 1 := ⟨fuel - 1, by omega⟩
    have ih := pElems_arrToks (x :: r) hw.2 rest f (by omega)
    simp only [arrToks, List.cons_append, List.append_assoc, normElems] at ih ⊢
    unfold pElems
    simp only []
    rw [pFields_msgToks ks hw.1 _ f (stops_rbrace _) (by omega)]
    simp only []
    rw [ih]
    rfl
  | .arr _ _ :: _, hw, _, _, _ => by simp [wfElems] at hw
end

/-! ## the printed lines do not depend on the keys the text cannot carry -/

theorem arrLines_erase_of (n : Nat) (op tr : String) (ks : List Opt)
    (h1 : ∀ f, arrMsgs n f (eraseElems ks) = arrMsgs n f ks)
    (h2 : arrScalars (n + 1) (eraseElems ks) = arrScalars (n + 1) ks) :
    arrLines n op (eraseElems ks) tr = arrLines n op ks tr := by
  match ks with
  | [] => simp [eraseElems]
  | [.scalar _ v] => simp [eraseElems, arrLines]
  | .msg k ks' :: rest =>
    have := h1 true
    simp only [eraseElems] at this
    simp only [eraseElems, arrLines, this]
  | .scalar k v :: x :: rest =>
    simp only [eraseElems] at h2
    cases x with
    | scalar k2 v2 =>
      simp only [eraseElems] at h2 ⊢
      simp only [arrLines, h2]
    | msg k2 v2 =>
      simp only [eraseElems] at h2 ⊢
      simp only [arrLines, h2]
    | arr k2 v2 =>
      simp only [eraseElems] at h2 ⊢
      simp only [arrLines, h2]
  | .arr k ks' :: rest =>
    simp only [eraseElems] at h2 ⊢
    simp only [arrLines, h2]


mutual
theorem msgFields_erase : ∀ (n : Nat) (ks : List Opt), msgFields n (eraseKids ks) = msgFields n ks
  | _, [] => by simp [eraseKids]
  | n, .scalar k v :: r => by simp [eraseKids, msgFields, msgFields_erase n r]
  | n, .msg k ks :: r => by simp [eraseKids, msgFields, msgFields_erase (n + 1) ks, msgFields_erase n r]
  | n, .arr k ks :: r => by
    simp only [eraseKids, msgFields, msgFields_erase n r]
    rw [arrLines_erase_of (n + 1) _ _ ks (fun f => arrMsgs_erase (n + 1) f ks) (arrScalars_erase (n + 2) ks)]
theorem arrMsgs_erase : ∀ (n : Nat) (f : Bool) (ks : List Opt), arrMsgs n f (eraseElems ks) = arrMsgs n f ks
  | _, _, [] => by simp [eraseElems]
  | n, f, .scalar k v :: r => by simp [eraseElems, arrMsgs, arrMsgs_erase n false r]
  | n, f, .msg k ks :: r => by simp [eraseElems, arrMsgs, msgFields_erase n ks, arrMsgs_erase n false r]
  | n, f, .arr k ks :: r => by simp [eraseElems, arrMsgs, arrMsgs_erase n false r]
theorem arrScalars_erase : ∀ (n : Nat) (ks : List Opt), arrScalars n (eraseElems ks) = arrScalars n ks
  | _, [] => by simp [eraseElems]
  | n, [.scalar k v] => by simp [eraseElems, arrScalars]
  | n, [.msg k ks] => by simp [eraseElems, arrScalars]
  | n, [.arr k ks] => by simp [eraseElems, arrScalars]
  | n, .scalar k v :: x :: r => by
    have := arrScalars_erase n (x :: r)
    cases x <;> simp_all [eraseElems, arrScalars]
  | n, .msg k ks :: x :: r => by
    have := arrScalars_erase n (x :: r)
    cases x <;> simp_all [eraseElems, arrScalars]
  | n, .arr k ks :: x :: r => by
    have := arrScalars_erase n (x :: r)
    cases x <;> simp_all [eraseElems, arrScalars]
end

mutual
theorem eraseKids_idem : ∀ ks : List Opt, eraseKids (eraseKids ks) = eraseKids ks
  | [] => by simp [eraseKids]
  | .scalar k v :: r => by simp [eraseKids, eraseKids_idem r]
  | .msg k ks :: r => by simp [eraseKids, eraseKids_idem ks, eraseKids_idem r]
  | .arr k ks :: r => by simp [eraseKids, eraseElems_idem ks, eraseKids_idem r]
theorem eraseElems_idem : ∀ ks : List Opt, eraseElems (eraseElems ks) = eraseElems ks
  | [] => by simp [eraseElems]
  | .scalar k v :: r => by simp [eraseElems, eraseElems_idem r]
  | .msg k ks :: r => by simp [eraseElems, eraseKids_idem ks, eraseElems_idem r]
  | .arr k ks :: r => by simp [eraseElems, eraseElems_idem ks, eraseElems_idem r]
end

theorem inlineString_erase (s : Bool) (v : Opt) : inlineString s (eraseKeys v) = inlineString s v := by
  cases v with
  | scalar k x => simp [eraseKeys, inlineString]
  | arr k ks => simp [eraseKeys, inlineString]
  | msg k ks =>
    match ks with
    | [] => simp [eraseKeys, eraseKids, inlineString]
    | [.scalar a b] => simp [eraseKeys, eraseKids, inlineString]
    | [.msg a b] => simp [eraseKeys, eraseKids, inlineString]
    | [.arr a b] => simp [eraseKeys, eraseKids, inlineString]
    | x :: y :: r => cases x <;> cases y <;> simp [eraseKeys, eraseKids, inlineString]

theorem optionStmt1_erase (n : Nat) (name : String) (s : Bool) (v : Opt) :
    optionStmt1 n name s (eraseKeys v) = optionStmt1 n name s v := by
  unfold optionStmt1
  rw [inlineString_erase]
  cases v with
  | scalar k x => simp [eraseKeys]
  | arr k ks => simp [eraseKeys]
  | msg k ks =>
    cases ks with
    | nil => simp [eraseKeys, eraseKids]
    | cons x r =>
      have := msgFields_erase n (x :: r)
      cases x <;> simp_all [eraseKeys, eraseKids]

/-! ## indentation: the lines on a builder with indentation `m + n` are those of indentation `n`, moved right -/

theorem ind_add (n m : Nat) (s : String) : ind (n + m) s = ind n (ind m s) := by
  unfold ind
  rw [← String.append_assoc]
  congr 1
  apply String.ext
  simp only [String.toList_append, String.toList_ofList]
  rw [Nat.mul_add, List.replicate_append_replicate]

theorem ind_zero (s : String) : ind 0 s = s := by
  unfold ind
  simp

theorem ind_add1 (m n : Nat) (s : String) : ind (m + n + 1) s = ind m (ind (n + 1) s) := by
  rw [Nat.add_assoc, ind_add]

theorem ind_add2 (m n : Nat) (s : String) : ind (m + n + 2) s = ind m (ind (n + 2) s) := by
  rw [Nat.add_assoc, ind_add]

theorem arrLines_ind_of (m n : Nat) (op tr : String) (ks : List Opt)
    (h1 : ∀ f, arrMsgs (m + n) f ks = (arrMsgs n f ks).map (ind m))
    (h2 : arrScalars (m + n + 1) ks = (arrScalars (n + 1) ks).map (ind m)) :
    arrLines (m + n) op ks tr = (arrLines n op ks tr).map (ind m) := by
  match ks with
  | [] => simp [arrLines, ind_add]
  | [.scalar _ v] => simp [arrLines, ind_add]
  | .msg k ks' :: rest =>
    simp only [arrLines, h1 true, List.map_cons, List.map_append, List.map_nil, ind_add, List.cons_append]
  | .scalar k v :: x :: rest =>
    simp only [arrLines, h2, List.map_cons, List.map_append, List.map_nil, ind_add, List.cons_append]
  | .arr k ks' :: rest =>
    cases rest with
    | nil => simp only [arrLines, h2, List.map_cons, List.map_append, List.map_nil, ind_add, List.cons_append]
    | cons x xs => simp only [arrLines, h2, List.map_cons, List.map_append, List.map_nil, ind_add, List.cons_append]

mutual
theorem msgFields_ind : ∀ (m n : Nat) (ks : List Opt), msgFields (m + n) ks = (msgFields n ks).map (ind m)
  | _, _, [] => by simp [msgFields]
  | m, n, .scalar k v :: r => by simp [msgFields, msgFields_ind m n r, ind_add1]
  | m, n, .msg k ks :: r => by
    have h1 := msgFields_ind m (n + 1) ks
    rw [← Nat.add_assoc] at h1
    simp [msgFields, h1, msgFields_ind m n r, ind_add1]
  | m, n, .arr k ks :: r => by
    have h1 : ∀ f, arrMsgs (m + (n + 1)) f ks = (arrMsgs (n + 1) f ks).map (ind m) := fun f => arrMsgs_ind m (n + 1) f ks
    have h2 := arrScalars_ind m (n + 2) ks
    have := arrLines_ind_of m (n + 1) (k ++ ": ") "" ks h1 (by rw [Nat.add_assoc m (n + 1) 1]; exact h2)
    rw [← Nat.add_assoc] at this
    simp only [msgFields, this, msgFields_ind m n r, List.map_append]
theorem arrMsgs_ind : ∀ (m n : Nat) (f : Bool) (ks : List Opt), arrMsgs (m + n) f ks = (arrMsgs n f ks).map (ind m)
  | _, _, _, [] => by simp [arrMsgs]
  | m, n, f, .scalar k v :: r => by cases f <;> simp [arrMsgs, arrMsgs_ind m n false r, ind_add]
  | m, n, f, .msg k ks :: r => by cases f <;> simp [arrMsgs, msgFields_ind m n ks, arrMsgs_ind m n false r, ind_add]
  | m, n, f, .arr k ks :: r => by cases f <;> simp [arrMsgs, arrMsgs_ind m n false r, ind_add]
theorem arrScalars_ind : ∀ (m n : Nat) (ks : List Opt), arrScalars (m + n) ks = (arrScalars n ks).map (ind m)
  | _, _, [] => by simp [arrScalars]
  | m, n, [.scalar k v] => by simp [arrScalars, ind_add]
  | m, n, [.msg k ks] => by simp [arrScalars, ind_add]
  | m, n, [.arr k ks] => by simp [arrScalars, ind_add]
  | m, n, .scalar k v :: x :: r => by
    have := arrScalars_ind m n (x :: r)
    cases x <;> simp_all [arrScalars, ind_add]
  | m, n, .msg k ks :: x :: r => by
    have := arrScalars_ind m n (x :: r)
    cases x <;> simp_all [arrScalars, ind_add]
  | m, n, .arr k ks :: x :: r => by
    have := arrScalars_ind m n (x :: r)
    cases x <;> simp_all [arrScalars, ind_add]
end

theorem fieldBody_ind (m : Nat) : ∀ (ps : List POpt), fieldBody m ps = (fieldBody 0 ps).map (ind m)
  | [] => rfl
  | p :: rest => by
    have ih := fieldBody_ind m rest
    have hm := msgFields_ind m 1
    have e1 : ∀ s : String, ind (m + 1) s = ind m (ind (0 + 1) s) := fun s => ind_add m 1 s
    simp only [fieldBody, ih]
    cases p.inl with
    | some v => simp [e1]
    | none =>
      cases p.root with
      | scalar k v => simp [e1]
      | arr k ks => simp
      | msg k ks => simp [e1, hm]

theorem fieldStyle_ind (m : Nat) (head number : String) (ps : List POpt) :
    fieldStyle m head number ps "" = (fieldStyle 0 head number ps "").map (ind m) := by
  unfold fieldStyle
  split
  · simp [ind_zero]
  · split
    · simp [ind_zero]
    · simp only [List.map_append, List.map_cons, List.map_nil, ind_zero, fieldBody_ind m ps, List.cons_append]

theorem optionStmt1_ind (m : Nat) (name : String) (single : Bool) (v : Opt) :
    optionStmt1 m name single v = (optionStmt1 0 name single v).map (ind m) := by
  unfold optionStmt1
  cases inlineString single v with
  | some s => simp [ind_zero]
  | none =>
    cases v with
    | scalar k x => simp [ind_zero]
    | arr k ks => simp
    | msg k ks =>
      cases ks with
      | nil => simp [ind_zero]
      | cons a r =>
        have := msgFields_ind m 0 (a :: r)
        simp only [Nat.add_zero] at this
        simp [ind_zero, this]

end J5V.Print.OptionText
