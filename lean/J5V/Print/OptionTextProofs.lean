import J5V.Print.OptionText
/-! Lemmas about `J5V.Print.OptionText` (core only). -/
namespace J5V.Print.OptionText

/-- the value `(ext).k₁.k₂.… = leaf` denotes: the sub-path re-nested as single-field messages -/
def expand (rootKey : String) : List String → Opt → Opt
  | [], o => o
  | k :: ks, o => .msg rootKey [expand k ks o]

/-- hoisting into the name loses nothing: re-nesting the hoisted path gives back the tree -/
theorem simplify_expand (md : Nat) : ∀ (fuel : Nat) (sub : List String) (o : Opt),
    ∃ ext, (simplify md fuel sub o).1 = sub ++ ext ∧ expand o.key ext (simplify md fuel sub o).2 = o
  | 0, sub, o => ⟨[], by simp [simplify, expand]⟩
  | fuel + 1, sub, o => by
    unfold simplify
    split
    · exact ⟨[], by simp [expand]⟩
    · split
      · rename_i r k v
        obtain ⟨ext, h1, h2⟩ := simplify_expand md fuel (sub ++ [k]) (.scalar k v)
        refine ⟨k :: ext, ?_, ?_⟩
        · rw [h1]; simp
        · simp only [expand, Opt.key] at h2 ⊢
          rw [h2]
      · rename_i r k kids
        obtain ⟨ext, h1, h2⟩ := simplify_expand md fuel (sub ++ [k]) (.msg k kids)
        refine ⟨k :: ext, ?_, ?_⟩
        · rw [h1]; simp
        · simp only [expand, Opt.key] at h2 ⊢
          rw [h2]
      · exact ⟨[], by simp [expand]⟩

/-! ## the token reader undoes the token writer -/

/-- the next token cannot start a message field -/
def Stops (rest : List Tok) : Prop := ∀ k t, rest ≠ .ident k :: t

theorem pFields_stop (f : Nat) (rest : List Tok) (h : Stops rest) : pFields (f + 1) rest = some ([], rest) := by
  unfold pFields
  split
  · rename_i k v r; exact absurd rfl (h k _)
  · rename_i k r; exact absurd rfl (h k _)
  · rename_i k r; exact absurd rfl (h k _)
  · rfl

theorem stops_rbrace (t : List Tok) : Stops (.rbrace :: t) := by intro k t' h; cases h
theorem stops_nil : Stops [] := by intro k t' h; cases h

mutual
theorem pFields_msgToks : ∀ (kids : List Opt), wfKids kids = true → ∀ (rest : List Tok) (fuel : Nat),
    Stops rest → szKids kids ≤ fuel → pFields fuel (msgToks kids ++ rest) = some (normKids kids, rest)
  | [], _, rest, fuel, hs, hf => by
    simp only [szKids] at hf
    obtain ⟨f, rfl⟩ : ∃ f, fuel = f + 1 := ⟨fuel - 1, by omega⟩
    simp only [msgToks, List.nil_append, normKids]
    exact pFields_stop f rest hs
  | .scalar k v :: r, hw, rest, fuel, hs, hf => by
    simp only [szKids] at hf
    simp only [wfKids] at hw
    obtain ⟨f, rfl⟩ : ∃ f, fuel = f + 1 := ⟨fuel - 1, by omega⟩
    simp only [msgToks, List.cons_append, normKids]
    unfold pFields
    simp only []
    rw [pFields_msgToks r hw rest f hs (by omega)]
    rfl
  | .msg k ks :: r, hw, rest, fuel, hs, hf => by
    simp only [szKids] at hf
    simp only [wfKids, Bool.and_eq_true] at hw
    obtain ⟨f, rfl⟩ : ∃ f, fuel = f + 1 := ⟨fuel - 1, by omega⟩
    simp only [msgToks, List.cons_append, List.append_assoc, normKids]
    unfold pFields
    simp only []
    rw [pFields_msgToks ks hw.1 (.rbrace :: (msgToks r ++ rest)) f (stops_rbrace _) (by omega)]
    simp only []
    rw [pFields_msgToks r hw.2 rest f hs (by omega)]
    rfl
  | .arr k ks :: r, hw, rest, fuel, hs, hf => by
    simp only [szKids] at hf
    simp only [wfKids, Bool.and_eq_true] at hw
    obtain ⟨f, rfl⟩ : ∃ f, fuel = f + 1 := ⟨fuel - 1, by omega⟩
    simp only [msgToks, List.cons_append, List.append_assoc, normKids]
    unfold pFields
    simp only []
    rw [pElems_arrToks ks hw.1 (msgToks r ++ rest) f (by omega)]
    simp only []
    rw [pFields_msgToks r hw.2 rest f hs (by omega)]
    rfl

theorem pElems_arrToks : ∀ (kids : List Opt), wfElems kids = true → ∀ (rest : List Tok) (fuel : Nat),
    szElems kids ≤ fuel → pElems fuel (arrToks kids ++ .rbrack :: rest) = some (normElems kids, .rbrack :: rest)
  | [], _, rest, fuel, hf => by
    simp only [szElems] at hf
    obtain ⟨f, rfl⟩ : ∃ f, fuel = f + 1 := ⟨fuel - 1, by omega⟩
    simp only [arrToks, List.nil_append, normElems]
    unfold pElems
    rfl
  | [.scalar k v], _, rest, fuel, hf => by
    simp only [szElems] at hf
    obtain ⟨f, rfl⟩ : ∃ f, fuel = f + 1 := ⟨fuel - 1, by omega⟩
    simp only [arrToks, List.cons_append, List.nil_append, normElems]
    unfold pElems
    rfl
  | .scalar k v :: x :: r, hw, rest, fuel, hf => by
    simp only [szElems] at hf
    simp only [wfElems] at hw
    obtain ⟨f, rfl⟩ : ∃ f, fuel = f + 1 := ⟨fuel - 1, by omega⟩
    have ih := pElems_arrToks (x :: r) hw rest f (by omega)
    simp only [arrToks, List.cons_append, normElems] at ih ⊢
    unfold pElems
    simp only []
    rw [ih]
    rfl
  | [.msg k ks], hw, rest, fuel, hf => by
    simp only [szElems] at hf
    simp only [wfElems, Bool.and_eq_true] at hw
    obtain ⟨f, rfl⟩ : ∃ f, fuel = f + 1 := ⟨fuel - 1, by omega⟩
    simp only [arrToks, List.cons_append, List.append_assoc, List.nil_append, normElems]
    unfold pElems
    simp only []
    rw [pFields_msgToks ks hw.1 (.rbrace :: .rbrack :: rest) f (stops_rbrace _) (by omega)]
  | .msg k ks :: x :: r, hw, rest, fuel, hf => by
    simp only [szElems] at hf
    simp only [wfElems, Bool.and_eq_true] at hw
    obtain ⟨f, rfl⟩ : ∃ f, fuel = f + 1 := ⟨fuel - 1, by omega⟩
    have ih := pElems_arrToks (x :: r) hw.2 rest f (by omega)
    simp only [arrToks, List.cons_append, List.append_assoc, normElems] at ih ⊢
    unfold pElems
    simp only []
    rw [pFields_msgToks ks hw.1 _ f (stops_rbrace _) (by omega)]
    simp only []
    rw [ih]
    rfl
  | .arr _ _ :: _, hw, _, _, _ => by simp [wfElems] at hw
end

/-! ## the printed lines do not depend on the keys the text cannot carry -/

theorem arrLines_erase_of (n : Nat) (op tr : String) (ks : List Opt)
    (h1 : ∀ f, arrMsgs n f (eraseElems ks) = arrMsgs n f ks)
    (h2 : arrScalars (n + 1) (eraseElems ks) = arrScalars (n + 1) ks) :
    arrLines n op (eraseElems ks) tr = arrLines n op ks tr := by
  match ks with
  | [] => simp [eraseElems]
  | [.scalar _ v] => simp [eraseElems, arrLines]
  | .msg k ks' :: rest =>
    have := h1 true
    simp only [eraseElems] at this
    simp only [eraseElems, arrLines, this]
  | .scalar k v :: x :: rest =>
    simp only [eraseElems] at h2
    cases x with
    | scalar k2 v2 =>
      simp only [eraseElems] at h2 ⊢
      simp only [arrLines, h2]
    | msg k2 v2 =>
      simp only [eraseElems] at h2 ⊢
      simp only [arrLines, h2]
    | arr k2 v2 =>
      simp only [eraseElems] at h2 ⊢
      simp only [arrLines, h2]
  | .arr k ks' :: rest =>
    simp only [eraseElems] at h2 ⊢
    simp only [arrLines, h2]


mutual
theorem msgFields_erase : ∀ (n : Nat) (ks : List Opt), msgFields n (eraseKids ks) = msgFields n ks
  | _, [] => by simp [eraseKids]
  | n, .scalar k v :: r => by simp [eraseKids, msgFields, msgFields_erase n r]
  | n, .msg k ks :: r => by simp [eraseKids, msgFields, msgFields_erase (n + 1) ks, msgFields_erase n r]
  | n, .arr k ks :: r => by
    simp only [eraseKids, msgFields, msgFields_erase n r]
    rw [arrLines_erase_of (n + 1) _ _ ks (fun f => arrMsgs_erase (n + 1) f ks) (arrScalars_erase (n + 2) ks)]
theorem arrMsgs_erase : ∀ (n : Nat) (f : Bool) (ks : List Opt), arrMsgs n f (eraseElems ks) = arrMsgs n f ks
  | _, _, [] => by simp [eraseElems]
  | n, f, .scalar k v :: r => by simp [eraseElems, arrMsgs, arrMsgs_erase n false r]
  | n, f, .msg k ks :: r => by simp [eraseElems, arrMsgs, msgFields_erase n ks, arrMsgs_erase n false r]
  | n, f, .arr k ks :: r => by simp [eraseElems, arrMsgs, arrMsgs_erase n false r]
theorem arrScalars_erase : ∀ (n : Nat) (ks : List Opt), arrScalars n (eraseElems ks) = arrScalars n ks
  | _, [] => by simp [eraseElems]
  | n, [.scalar k v] => by simp [eraseElems, arrScalars]
  | n, [.msg k ks] => by simp [eraseElems, arrScalars]
  | n, [.arr k ks] => by simp [eraseElems, arrScalars]
  | n, .scalar k v :: x :: r => by
    have := arrScalars_erase n (x :: r)
    cases x <;> simp_all [eraseElems, arrScalars]
  | n, .msg k ks :: x :: r => by
    have := arrScalars_erase n (x :: r)
    cases x <;> simp_all [eraseElems, arrScalars]
  | n, .arr k ks :: x :: r => by
    have := arrScalars_erase n (x :: r)
    cases x <;> simp_all [eraseElems, arrScalars]
end

mutual
theorem eraseKids_idem : ∀ ks : List Opt, eraseKids (eraseKids ks) = eraseKids ks
  | [] => by simp [eraseKids]
  | .scalar k v :: r => by simp [eraseKids, eraseKids_idem r]
  | .msg k ks :: r => by simp [eraseKids, eraseKids_idem ks, eraseKids_idem r]
  | .arr k ks :: r => by simp [eraseKids, eraseElems_idem ks, eraseKids_idem r]
theorem eraseElems_idem : ∀ ks : List Opt, eraseElems (eraseElems ks) = eraseElems ks
  | [] => by simp [eraseElems]
  | .scalar k v :: r => by simp [eraseElems, eraseElems_idem r]
  | .msg k ks :: r => by simp [eraseElems, eraseKids_idem ks, eraseElems_idem r]
  | .arr k ks :: r => by simp [eraseElems, eraseElems_idem ks, eraseElems_idem r]
end

theorem inlineString_erase (s : Bool) (v : Opt) : inlineString s (eraseKeys v) = inlineString s v := by
  cases v with
  | scalar k x => simp [eraseKeys, inlineString]
  | arr k ks => simp [eraseKeys, inlineString]
  | msg k ks =>
    match ks with
    | [] => simp [eraseKeys, eraseKids, inlineString]
    | [.scalar a b] => simp [eraseKeys, eraseKids, inlineString]
    | [.msg a b] => simp [eraseKeys, eraseKids, inlineString]
    | [.arr a b] => simp [eraseKeys, eraseKids, inlineString]
    | x :: y :: r => cases x <;> cases y <;> simp [eraseKeys, eraseKids, inlineString]

theorem optionStmt1_erase (n : Nat) (name : String) (s : Bool) (v : Opt) :
    optionStmt1 n name s (eraseKeys v) = optionStmt1 n name s v := by
  unfold optionStmt1
  rw [inlineString_erase]
  cases v with
  | scalar k x => simp [eraseKeys]
  | arr k ks => simp [eraseKeys]
  | msg k ks =>
    cases ks with
    | nil => simp [eraseKeys, eraseKids]
    | cons x r =>
      have := msgFields_erase n (x :: r)
      cases x <;> simp_all [eraseKeys, eraseKids]

end J5V.Print.OptionText
