import J5V.Print.OptionText
/-! Lemmas about `J5V.Print.OptionText` (core only). -/
namespace J5V.Print.OptionText

/-- the value `(ext).k₁.k₂.… = leaf` denotes: the sub-path re-nested as single-field messages -/
def expand (rootKey : String) : List String → Opt → Opt
  | [], o => o
  | k :: ks, o => .msg rootKey [expand k ks o]

/-- hoisting into the name loses nothing: re-nesting the hoisted path gives back the tree -/
theorem simplify_expand (md : Nat) : ∀ (fuel : Nat) (sub : List String) (o : Opt),
    ∃ ext, (simplify md fuel sub o).1 = sub ++ ext ∧ expand o.key ext (simplify md fuel sub o).2 = o
  | 0, sub, o => ⟨[], by simp [simplify, expand]⟩
  | fuel + 1, sub, o => by
    unfold simplify
    split
    · exact ⟨[], by simp [expand]⟩
    · split
      · rename_i r k v
        obtain ⟨ext, h1, h2⟩ := simplify_expand md fuel (sub ++ [k]) (.scalar k v)
        refine ⟨k :: ext, ?_, ?_⟩
        · rw [h1]; simp
        · simp only [expand, Opt.key] at h2 ⊢
          rw [h2]
      · rename_i r k kids
        obtain ⟨ext, h1, h2⟩ := simplify_expand md fuel (sub ++ [k]) (.msg k kids)
        refine ⟨k :: ext, ?_, ?_⟩
        · rw [h1]; simp
        · simp only [expand, Opt.key] at h2 ⊢
          rw [h2]
      · exact ⟨[], by simp [expand]⟩

end J5V.Print.OptionText
