import J5V.Print.OptionText
/-! Lemmas about `J5V.Print.OptionText` (core only). -/
namespace J5V.Print.OptionText

/-- the value `(ext).k₁.k₂.… = leaf` denotes: the sub-path re-nested as single-field messages -/
def expand (rootKey : String) : List String → Opt → Opt
  | [], o => o
  | k :: ks, o => .msg rootKey [expand k ks o]

/-- hoisting into the name loses nothing: re-nesting the hoisted path gives back the tree -/
theorem simplify_expand (md : Nat) : ∀ (fuel : Nat) (sub : List String) (o : Opt),
    ∃ ext, (simplify md fuel sub o).1 = sub ++ ext ∧ expand o.key ext (simplify md fuel sub o).2 = o
  | 0, sub, o => ⟨[], by simp [simplify, expand]⟩
  | fuel + 1, sub, o => by
    unfold simplify
    split
    · exact ⟨[], by simp [expand]⟩
    · split
      · rename_i r k v
        obtain ⟨ext, h1, h2⟩ := simplify_expand md fuel (sub ++ [k]) (.scalar k v)
        refine ⟨k :: ext, ?_, ?_⟩
        · rw [h1]; simp
        · simp only [expand, Opt.key] at h2 ⊢
          rw [h2]
      · rename_i r k kids
        obtain ⟨ext, h1, h2⟩ := simplify_expand md fuel (sub ++ [k]) (.msg k kids)
        refine ⟨k :: ext, ?_, ?_⟩
        · rw [h1]; simp
        · simp only [expand, Opt.key] at h2 ⊢
          rw [h2]
      · exact ⟨[], by simp [expand]⟩

/-! ## the token reader undoes the token writer -/

/-- the next token cannot start a message field -/
def Stops (rest : List Tok) : Prop := ∀ k t, rest ≠ .ident k :: t

theorem pFields_stop (f : Nat) (rest : List Tok) (h : Stops rest) : pFields (f + 1) rest = some ([], rest) := by
  unfold pFields
  split
  · rename_i k v r; exact absurd rfl (h k _)
  · rename_i k r; exact absurd rfl (h k _)
  · rename_i k r; exact absurd rfl (h k _)
  · rfl

theorem stops_rbrace (t : List Tok) : Stops (.rbrace :: t) := by intro k t' h; cases h
theorem stops_nil : Stops [] := by intro k t' h; cases h

mutual
theorem pFields_msgToks : ∀ (kids : List Opt), wfKids kids = true → ∀ (rest : List Tok) (fuel : Nat),
    Stops rest → szKids kids ≤ fuel → pFields fuel (msgToks kids ++ rest) = some (normKids kids, rest)
  | [], _, rest, fuel, hs, hf => by
    simp only [szKids] at hf
    obtain ⟨f, rfl⟩ : ∃ f, fuel = f + 1 := ⟨fuel - 1, by omega⟩
    simp only [msgToks, List.nil_append, normKids]
    exact pFields_stop f rest hs
  | .scalar k v :: r, hw, rest, fuel, hs, hf => by
    simp only [szKids] at hf
    simp only [wfKids] at hw
    obtain ⟨f, rfl⟩ : ∃ f, fuel = f + 1 := ⟨fuel - 1, by omega⟩
    simp only [msgToks, List.cons_append, normKids]
    unfold pFields
    simp only []
    rw [pFields_msgToks r hw rest f hs (by omega)]
    rfl
  | .msg k ks :: r, hw, rest, fuel, hs, hf => by
    simp only [szKids] at hf
    simp only [wfKids, Bool.and_eq_true] at hw
    obtain ⟨f, rfl⟩ : ∃ f, fuel = f + 1 := ⟨fuel - 1, by omega⟩
    simp only [msgToks, List.cons_append, List.append_assoc, normKids]
    unfold pFields
    simp only []
    rw [pFields_msgToks ks hw.1 (.rbrace :: (msgToks r ++ rest)) f (stops_rbrace _) (by omega)]
    simp only []
    rw [pFields_msgToks r hw.2 rest f hs (by omega)]
    rfl
  | .arr k ks :: r, hw, rest, fuel, hs, hf => by
    simp only [szKids] at hf
    simp only [wfKids, Bool.and_eq_true] at hw
    obtain ⟨f, rfl⟩ : ∃ f, fuel = f + 1 := ⟨fuel - 1, by omega⟩
    simp only [msgToks, List.cons_append, List.append_assoc, normKids]
    unfold pFields
    simp only []
    rw [pElems_arrToks ks hw.1 (msgToks r ++ rest) f (by omega)]
    simp only []
    rw [pFields_msgToks r hw.2 rest f hs (by omega)]
    rfl

theorem pElems_arrToks : ∀ (kids : List Opt), wfElems kids = true → ∀ (rest : List Tok) (fuel : Nat),
    szElems kids ≤ fuel → pElems fuel (arrToks kids ++ .rbrack :: rest) = some (normElems kids, .rbrack :: rest)
  | [], _, rest, fuel, hf => by
    simp only [szElems] at hf
    obtain ⟨f, rfl⟩ : ∃ f, fuel = f + 1 := ⟨fuel - 1, by omega⟩
    simp only [arrToks, List.nil_append, normElems]
    unfold pElems
    rfl
  | [.scalar k v], _, rest, fuel, hf => by
    simp only [szElems] at hf
    obtain ⟨f, rfl⟩ : ∃ f, fuel = f + 1 := ⟨fuel - 1, by omega⟩
    simp only [arrToks, List.cons_append, List.nil_append, normElems]
    unfold pElems
    rfl
  | .scalar k v :: x :: r, hw, rest, fuel, hf => by
    simp only [szElems] at hf
    simp only [wfElems] at hw
    obtain ⟨f, rfl⟩ : ∃ f, fuel = f + 1 := ⟨fuel - 1, by omega⟩
    have ih := pElems_arrToks (x :: r) hw rest f (by omega)
    simp only [arrToks, List.cons_append, normElems] at ih ⊢
    unfold pElems
    simp only []
    rw [ih]
    rfl
  | [.msg k ks], hw, rest, fuel, hf => by
    simp only [szElems] at hf
    simp only [wfElems, Bool.and_eq_true] at hw
    obtain ⟨f, rfl⟩ : ∃ f, fuel = f + 1 := ⟨fuel - 1, by omega⟩
    simp only [arrToks, List.cons_append, List.append_assoc, List.nil_append, normElems]
    unfold pElems
    simp only []
    rw [pFields_msgToks ks hw.1 (.rbrace :: .rbrack :: rest) f (stops_rbrace _) (by omega)]
  | .msg k ks :: x :: r, hw, rest, fuel, hf => by
    simp only [szElems] at hf
    simp only [wfElems, Bool.and_eq_true] at hw
    obtain ⟨f, rfl⟩ : ∃ f, fuel = f + 1 := ⟨fuel - 1, by omega⟩
    have ih := pElems_arrToks (x :: r) hw.2 rest f (by omega)
    simp only [arrToks, List.cons_append, List.append_assoc, normElems] at ih ⊢
    unfold pElems
    simp only []
    rw [pFields_msgToks ks hw.1 _ f (stops_rbrace _) (by omega)]
    simp only []
    rw [ih]
    rfl
  | .arr _ _ :: _, hw, _, _, _ => by simp [wfElems] at hw
end

end J5V.Print.OptionText
