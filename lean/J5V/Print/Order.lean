/-!
# C05 kernel 4 — ordering of printed elements and options (core only)

`less` mirrors `sourceElements.Less` (`/repo/internal/j5s/protoprint/elements.go`), `locLess`
mirrors `optionsByLocation.Less` (`optionreflect/builder.go`), `nameLess` the comparison
function of `slices.SortFunc` in `optionsFor` (`options.go`: Go's `<` on strings = bytewise
lexicographic). `isort` is a reference sort used by the driver; the Go side sorts with
`sort.Sort` / `slices.SortFunc` (pdqsort, unstable), whose result is only determined by the
comparison when that is a strict weak order with no ties — see `J5V.Props.C05`.
-/
namespace J5V.Print.Order

structure Elem where
  typeOrder : Nat    -- 0 service / field-like, 1 message, 2 enum
  startLine : Nat    -- SourceLocation.StartLine, 0 when there is no location
  index : Nat        -- Descriptor.Index()
  deriving DecidableEq, Repr

/-- `sourceElements.Less` -/
def less (a b : Elem) : Bool :=
  if a.startLine = 0 ∨ b.startLine = 0 then
    if a.typeOrder ≠ b.typeOrder then a.typeOrder < b.typeOrder else a.index < b.index
  else a.startLine < b.startLine

/-- bytewise lexicographic `<` (Go string comparison) -/
def nameLess : List Nat → List Nat → Bool
  | [], [] => false
  | [], _ :: _ => true
  | _ :: _, [] => false
  | a :: as, b :: bs => if a < b then true else if b < a then false else nameLess as bs

structure OptLoc where
  hasLoc : Bool      -- SourceLocation != nil
  startLine : Nat
  index : Nat        -- Desc.Index()
  name : List Nat    -- Desc.FullName()
  deriving DecidableEq, Repr

/-- `optionsByLocation.lessByDeclaration` (fix 3895d68: the full name breaks index ties) -/
def declLess (a b : OptLoc) : Bool :=
  if a.index ≠ b.index then a.index < b.index else nameLess a.name b.name

/-- `optionsByLocation.Less` -/
def locLess (a b : OptLoc) : Bool :=
  if !a.hasLoc ∨ !b.hasLoc then declLess a b
  else if a.startLine = 0 ∨ b.startLine = 0 then declLess a b
  else a.startLine < b.startLine

def insertBy {α} (lt : α → α → Bool) (x : α) : List α → List α
  | [] => [x]
  | y :: ys => if lt x y then x :: y :: ys else y :: insertBy lt x ys

/-- insertion sort -/
def isort {α} (lt : α → α → Bool) : List α → List α
  | [] => []
  | x :: xs => insertBy lt x (isort lt xs)

/-- the situation in which the printer's element order is well defined: either every element has a
source line or none has -/
def uniformLines (es : List Elem) : Bool :=
  es.all (fun e => e.startLine ≠ 0) || es.all (fun e => e.startLine = 0)

/-- no two elements compare equal -/
def noTies {α} (lt : α → α → Bool) : List α → Bool
  | [] => true
  | x :: xs => xs.all (fun y => lt x y || lt y x) && noTies lt xs

end J5V.Print.Order
