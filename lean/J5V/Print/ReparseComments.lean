import J5V.Print.GrammarProofs
/-!
# Leading comments, as the reader attributes them (core only) — building blocks for step 4

`leadingCmds` writes a gap, then the comment as `//` lines on consecutive lines, then the element on the
next line. The scanner collects the `//` lines as comments; `attributeCm` (the model of protocompile's
`attributeComments` / `maybeDonate` / `maybeAttach`) gives exactly that run to the next token as its
leading comment: no trailing comment for the previous token (a blank line separates them), nothing detached.
These lemmas are not yet used by `C05_reparse` (whose shape has no comments); see notes/print.md.
-/
namespace J5V.Print.Grammar
open J5V.Print J5V.Print.Layout

/-- comments on consecutive lines, the first on line `p` -/
def runFrom : List String → Nat → List Cmt
  | [], _ => []
  | x :: r, p => (x, p) :: runFrom r (p + 1)

theorem runFrom_length : ∀ (xs : List String) (p : Nat), (runFrom xs p).length = xs.length
  | [], _ => rfl
  | _ :: r, p => by simp [runFrom, runFrom_length r (p + 1)]

/-- a run is one group -/
theorem groupComments_run : ∀ (xs : List String) (p : Nat) (c : Cmt) (cur : List Cmt), c.2 + 1 = p →
    groupComments (runFrom xs p) (c :: cur) = [(c :: cur).reverse ++ runFrom xs p]
  | [], p, c, cur, _ => by simp [runFrom, groupComments]
  | x :: r, p, c, cur, h => by
    simp only [runFrom, groupComments]
    have : ¬ (p > c.2 + 1) := by omega
    simp only [this, if_false]
    rw [groupComments_run r (p + 1) (x, p) (c :: cur) rfl]
    simp

theorem groupComments_run0 (x : String) (xs : List String) (p : Nat) :
    groupComments (runFrom (x :: xs) p) [] = [runFrom (x :: xs) p] := by
  simp only [runFrom, groupComments]
  rw [groupComments_run xs (p + 1) (x, p) [] rfl]
  simp

theorem lastLine_run (x : String) (xs : List String) (p : Nat) :
    lastLine (runFrom (x :: xs) p) = p + xs.length := by
  induction xs generalizing x p with
  | nil => simp [runFrom, lastLine]
  | cons y ys ih =>
    have := ih y (p + 1)
    simp only [runFrom, lastLine, List.getLast?_cons_cons] at this ⊢
    rw [this]
    simp only [List.length_cons]
    omega

theorem firstLine_run (x : String) (xs : List String) (p : Nat) : firstLine (runFrom (x :: xs) p) = p := by
  simp [runFrom, firstLine]

/-- **the leading comment**: a run of `//` lines that starts at least two lines below the previous token and ends
on the line above the next one belongs to the next token, whole, as its leading comment -/
theorem attributeCm_leading (pl p : Nat) (x : String) (xs : List String) (t : Tok) (hp : pl + 1 < p) :
    attributeCm (some pl) (runFrom (x :: xs) p) t (p + xs.length + 1) =
      ⟨"", [], combine (runFrom (x :: xs) p)⟩ := by
  have hpe : (p == pl) = false := by
    rw [beq_eq_false_iff_ne]; omega
  have hg := groupComments_run0 x xs p
  have hf := firstLine_run x xs p
  have hl := lastLine_run x xs p
  simp only [runFrom] at hg hf hl
  have h2 : decide (p > pl + 1) = true := by simp; omega
  unfold attributeCm
  simp only [runFrom, hpe, Bool.and_false, Bool.false_eq_true, if_false, hg, List.isEmpty_nil, Bool.not_true,
    hf, h2, if_true, List.getLast?_singleton, List.length_singleton, beq_self_eq_true, Bool.true_and, hl,
    Bool.false_and, Nat.le_refl, ge_iff_le, List.dropLast_singleton, List.map_nil]
  have hne : pl ≠ p := by omega
  simp [combine, hp, hf, hl, hne.symm, String.join]

/-- … and `attach` hands it over: the comments, then the token -/
theorem attach_run : ∀ (xs : List String) (p : Nat) (rest : List Raw) (prev : Option Nat) (cs : List Cmt) (ll : Nat),
    attach ((runFrom xs p).map (fun c => Raw.comment c.1 c.2) ++ rest) prev cs ll =
      attach rest prev (cs ++ runFrom xs p) (if xs.isEmpty then ll else p + xs.length - 1)
  | [], p, rest, prev, cs, ll => by simp [runFrom]
  | x :: r, p, rest, prev, cs, ll => by
    simp only [runFrom, List.map_cons, List.cons_append, attach]
    rw [attach_run r (p + 1) rest prev (cs ++ [(x, p)]) p]
    simp only [List.append_assoc, List.cons_append, List.nil_append, List.isEmpty_cons, Bool.false_eq_true, if_false,
      List.length_cons]
    congr 1
    cases r <;> simp <;> omega

theorem attach_leading (pl p : Nat) (x : String) (xs : List String) (t : Tok) (rest : List Raw) (ll : Nat)
    (hp : pl + 1 < p) :
    attach ((runFrom (x :: xs) p).map (fun c => Raw.comment c.1 c.2) ++ Raw.tok t (p + xs.length + 1) :: rest) (some pl) [] ll =
      ⟨t, p + xs.length + 1, ⟨"", [], combine (runFrom (x :: xs) p)⟩⟩ ::
        attach rest (some (p + xs.length + 1)) [] (p + xs.length + 1) := by
  rw [attach_run]
  simp only [List.nil_append, attach]
  rw [attributeCm_leading pl p x xs t hp]

/-- what the reader combines is the comment text the printer split into lines -/
theorem combine_run (xs : List String) (p : Nat) : combine (runFrom xs p) = String.join (xs.map (· ++ "\n")) := by
  unfold combine
  congr 1
  induction xs generalizing p with
  | nil => rfl
  | cons x r ih => simp [runFrom, ih (p + 1)]

/-- a `//` line as `leadingCmds` writes it on a builder with indentation `n` is one comment for the scanner -/
theorem lexL_commentLine (n : Nat) (x : String) (h : NoNL x.toList) (L : Nat) :
    lexL (OptionText.ind n ("//" ++ x)).toList L = [.comment x L] := by
  unfold OptionText.ind
  rw [String.toList_append, String.toList_ofList, lexL_spaces, String.toList_append]
  have : ("//".toList : List Char) = ['/', '/'] := by decide
  rw [this, List.cons_append, List.cons_append, List.nil_append, lexL_comment x.toList h L, String.ofList_toList]

end J5V.Print.Grammar
