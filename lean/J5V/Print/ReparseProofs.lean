import J5V.Print.GrammarProofs
import J5V.Print.ReparseOpts
import J5V.Print.LayoutProofs
import J5V.Print.LayoutComments
import J5V.Print.ReparseLead
/-!
# Reading back what was printed (core only)

For files made of messages, nested messages, enums, fields and enum values — no options, no
comments, no services (`Simple`) — the grammar model reads the printed text back as the printed
tree with the source lines of the text (`rdFile`), and that reading satisfies `relaidFile`.
-/
namespace J5V.Print.Reparse
open J5V.Print J5V.Print.Grammar J5V.Print.Layout J5V.Print.OptionText J5V.Print.Scalar

/-! ## more printed lines, as tokens -/

/-- an enum value line -/
theorem lineToks_value (n : Nat) (name : String) (num : Int) (l : Nat) (hn : IsIdent name) :
    lineToks (ind n (name ++ " = " ++ formatInt num ++ ";" ++ "")) l = T (.ident name) l :: tailToks num l := by
  unfold lineToks ind
  simp only [String.toList_append, String.toList_ofList, List.append_assoc]
  rw [lexL_spaces]
  have heq : (" = ".toList : List Char) = [' ', '=', ' '] := by decide
  have hsemi : (";".toList : List Char) = [';'] := by decide
  have hempty : ("".toList : List Char) = [] := by decide
  rw [heq, hsemi, hempty]
  simp only [List.append_nil, List.cons_append, List.nil_append]
  rw [lexL_ident name hn _ (stopsI_space _)]
  simp only [List.filterMap_cons, toP, lexL_tail]

/-- the keywords that open a block -/
theorem isIdent_message : IsIdent "message" :=
  ⟨'m', ['e', 's', 's', 'a', 'g', 'e'], by decide, by decide, by decide⟩
theorem isIdent_enum : IsIdent "enum" := ⟨'e', ['n', 'u', 'm'], by decide, by decide, by decide⟩

/-- `kw name {` -/
theorem lineToks_open (n : Nat) (kw name : String) (l : Nat) (hk : IsIdent kw) (hn : IsIdent name) :
    lineToks (ind n (kw ++ " " ++ name ++ " {" ++ "")) l = [T (.ident kw) l, T (.ident name) l, T (.sym '{') l] := by
  unfold lineToks ind
  simp only [String.toList_append, String.toList_ofList, List.append_assoc]
  rw [lexL_spaces]
  have hsp : (" ".toList : List Char) = [' '] := by decide
  have hbr : (" {".toList : List Char) = [' ', '{'] := by decide
  have hempty : ("".toList : List Char) = [] := by decide
  rw [hsp, hbr, hempty]
  simp only [List.append_nil, List.cons_append, List.nil_append]
  rw [lexL_ident kw hk _ (stopsI_space _), lexL_space, lexL_ident name hn _ (stopsI_space _), lexL_space,
    lexL_sym '{' (by decide), lexL_nil]
  simp [toP]

/-- `kw name {}` -/
theorem lineToks_empty (n : Nat) (kw name : String) (l : Nat) (hk : IsIdent kw) (hn : IsIdent name) :
    lineToks (ind n (kw ++ " " ++ name ++ " {}")) l =
      [T (.ident kw) l, T (.ident name) l, T (.sym '{') l, T (.sym '}') l] := by
  unfold lineToks ind
  simp only [String.toList_append, String.toList_ofList, List.append_assoc]
  rw [lexL_spaces]
  have hsp : (" ".toList : List Char) = [' '] := by decide
  have hbr : (" {}".toList : List Char) = [' ', '{', '}'] := by decide
  rw [hsp, hbr]
  simp only [List.cons_append, List.nil_append]
  rw [lexL_ident kw hk _ (stopsI_space _), lexL_space, lexL_ident name hn _ (stopsI_space _), lexL_space,
    lexL_sym '{' (by decide), lexL_sym '}' (by decide), lexL_nil]
  simp [toP]

/-- `}` -/
theorem lineToks_close (n : Nat) (l : Nat) : lineToks (ind n "}") l = [T (.sym '}') l] := by
  unfold lineToks ind
  simp only [String.toList_append, String.toList_ofList]
  rw [lexL_spaces]
  have h : ("}".toList : List Char) = ['}'] := by decide
  rw [h, lexL_sym '}' (by decide), lexL_nil]
  simp [toP]

theorem lineToks_blank (l : Nat) : lineToks "" l = [] := by
  unfold lineToks
  have h : ("".toList : List Char) = [] := by decide
  rw [h, lexL_nil]
  rfl

/-! ## the tokens of the lines a command list writes -/

/-- the tokens of consecutive lines, the first on line `l` -/
def lexLines : List String → Nat → List PTok
  | [], _ => []
  | s :: r, l => lineToks s l ++ lexLines r (l + 1)

theorem lexLines_append : ∀ (a b : List String) (l : Nat), lexLines (a ++ b) l = lexLines a l ++ lexLines b (l + a.length)
  | [], b, l => by simp [lexLines]
  | s :: r, b, l => by
    simp only [List.cons_append, lexLines, lexLines_append r b (l + 1), List.length_cons, List.append_assoc]
    congr 3
    omega

/-- the tokens of what `cmds` writes, starting on line `L` with the gap flag `g` -/
def toksOf (cmds : List Cmd) (g : Bool) (L : Nat) : List PTok := lexLines (exec cmds g).1 L

/-- the number of lines `cmds` writes -/
def nLines (cmds : List Cmd) (g : Bool) : Nat := (exec cmds g).1.length

theorem toksOf_append (a b : List Cmd) (g : Bool) (L : Nat) :
    toksOf (a ++ b) g L = toksOf a g L ++ toksOf b (exec a g).2 (L + nLines a g) := by
  unfold toksOf nLines
  rw [exec_append]
  exact lexLines_append _ _ _

theorem nLines_append (a b : List Cmd) (g : Bool) : nLines (a ++ b) g = nLines a g + nLines b (exec a g).2 := by
  unfold nLines; rw [exec_append]; simp

theorem exec_append_snd (a b : List Cmd) (g : Bool) : (exec (a ++ b) g).2 = (exec b (exec a g).2).2 := by
  rw [exec_append]

theorem toksOf_line (s : String) (g : Bool) (L : Nat) :
    toksOf [Cmd.line s] g L = lineToks s (if g then L + 1 else L) := by
  cases g <;> simp [toksOf, exec, lexLines, lineToks_blank]

theorem toksOf_endl (s : String) (g : Bool) (L : Nat) : toksOf [Cmd.endl s] g L = lineToks s L := by
  simp [toksOf, exec, lexLines]

theorem toksOf_nil (g : Bool) (L : Nat) : toksOf [] g L = [] := rfl
theorem toksOf_gap (g : Bool) (L : Nat) : toksOf [Cmd.gap] g L = [] := rfl

/-! ## the files of the theorem -/

/-- not a word the parser takes for the start of something else -/
def kwOk (first : String) : Prop :=
  first ≠ "repeated" ∧ first ≠ "optional" ∧ first ≠ "option" ∧ first ≠ "message" ∧ first ≠ "enum" ∧ first ≠ "oneof"

/-- a field without options, comments and custom JSON name, of a named or scalar type -/
def SimpleField (f : FieldD) : Prop :=
  f.kind = .field ∧ f.loc.leadOnly ∧ f.opts = [] ∧ (f.label = "" ∨ f.label = "repeated " ∨ f.label = "optional ") ∧
  IsIdent f.name ∧ f.json = some (String.ofList (defaultJSONName f.name.toList)) ∧
  ∃ (abs : Bool) (first : String) (rest : List String), IsIdent first ∧ (∀ r ∈ rest, IsIdent r) ∧
    f.type = tyStr abs first rest ∧ (abs = false → first ≠ "map") ∧ (f.label = "" → abs = false → kwOk first)

/-- a map field without options, comments and custom JSON name: a scalar key type, a named or scalar value type -/
def MapField (f : FieldD) : Prop :=
  f.kind = .field ∧ f.loc.leadOnly ∧ f.opts = [] ∧ f.label = "" ∧
  IsIdent f.name ∧ f.json = some (String.ofList (defaultJSONName f.name.toList)) ∧
  ∃ (k : String) (abs : Bool) (first : String) (rest : List String), IsIdent k ∧ IsIdent first ∧ (∀ r ∈ rest, IsIdent r) ∧
    f.type = mapTy k abs first rest

/-- an enum value without options and comments -/
def SimpleValue (f : FieldD) : Prop :=
  f.kind = .value ∧ f.loc.leadOnly ∧ f.opts = [] ∧ f.label = "" ∧ f.type = "" ∧ IsIdent f.name ∧ f.name ≠ "option" ∧
  f.json = none

/-! ## fields with bracket options (`[a = 1, json_name = "x"]`): read back by evaluation

The lines of such a field are scanned and its bracket is parsed *by evaluation* at line 0 (the checker
does it for every field); `lineToks_shift` and the frame lemmas of `ReparseOpts` carry the result to the
line the field is printed on and to whatever follows it. -/

/-- how the type of a field is written -/
inductive TyW where
  | plain (abs : Bool) (first : String) (rest : List String)
  | map (k : String) (abs : Bool) (first : String) (rest : List String)

def TyW.str : TyW → String
  | .plain a f r => tyStr a f r
  | .map k a f r => mapTy k a f r

def TyW.toks : TyW → Nat → List PTok
  | .plain a f r, l => tyToks a f r l
  | .map k a f r, l => T (.ident "map") l :: T (.sym '<') l :: (tyToks false k [] l ++ T (.sym ',') l ::
      (tyToks a f r l ++ [T (.sym '>') l]))

def TyW.ok (label : String) : TyW → Prop
  | .plain a f r => IsIdent f ∧ (∀ x ∈ r, IsIdent x) ∧ (a = false → f ≠ "map") ∧ (label = "" → a = false → kwOk f)
  | .map k _ f r => label = "" ∧ IsIdent k ∧ IsIdent f ∧ ∀ x ∈ r, IsIdent x

theorem parseField_W (label : String) (hlab : label = "" ∨ label = "repeated " ∨ label = "optional ") (w : TyW)
    (hw : w.ok label) (name : String) (l : Nat) (tl : List PTok) :
    parseField (labelToks label l ++ w.toks l ++ T (.ident name) l :: tl) =
      (fieldTail tl).map (mkField .field l Cm.none label w.str name) := by
  cases w with
  | plain a f r =>
    obtain ⟨hf, _, hmap, hkw⟩ := hw
    exact parseField_gen label hlab a f r name l tl hf hmap (fun h1 h2 => ⟨(hkw h1 h2).1, (hkw h1 h2).2.1⟩)
  | map k a f r =>
    obtain ⟨hl, hk, hf, _⟩ := hw
    subst hl
    have e : labelToks "" l = [] := by simp [labelToks]
    have := parseField_map_gen k a f r name l tl hk hf
    simp only [TyW.toks, TyW.str, e, List.nil_append, List.cons_append, List.append_assoc] at this ⊢
    exact this

/-- the tokens before the options: `label type name = number [` -/
def headToks (f : FieldD) (w : TyW) (l : Nat) : List PTok :=
  labelToks f.label l ++ w.toks l ++ T (.ident f.name) l :: T (.sym '=') l :: (numToks f.number l ++ [T (.sym '[') l])

theorem sh_T (k : Nat) (t : Grammar.Tok) (l : Nat) : PTok.shift k (T t l) = T t (l + k) := rfl

theorem sh_dotToks (k l : Nat) (r : List String) : sh k (dotToks r l) = dotToks r (l + k) := by
  induction r with
  | nil => rfl
  | cons x xs ih =>
    simp only [dotToks, List.map_cons, List.flatten_cons, sh_append] at ih ⊢
    rw [ih]; rfl

theorem sh_tyToks (k l : Nat) (a : Bool) (f : String) (r : List String) : sh k (tyToks a f r l) = tyToks a f r (l + k) := by
  unfold tyToks
  rw [sh_append]
  simp only [sh_cons, sh_T, sh_dotToks]
  cases a <;> rfl

theorem sh_labelToks (k l : Nat) (label : String) : sh k (labelToks label l) = labelToks label (l + k) := by
  unfold labelToks
  split
  · rfl
  · split <;> rfl

theorem sh_numToks (k l : Nat) (n : Int) : sh k (numToks n l) = numToks n (l + k) := by
  unfold numToks
  split <;> rfl

theorem sh_wToks (k l : Nat) (w : TyW) : sh k (w.toks l) = w.toks (l + k) := by
  cases w with
  | plain a f r => exact sh_tyToks k l a f r
  | map kk a f r =>
    simp only [TyW.toks, sh_cons, sh_T, sh_append, sh_tyToks, sh_nil]

theorem sh_headToks (k l : Nat) (f : FieldD) (w : TyW) : sh k (headToks f w l) = headToks f w (l + k) := by
  unfold headToks
  simp only [sh_append, sh_cons, sh_T, sh_labelToks, sh_wToks, sh_numToks, sh_nil]

/-- the scanner finds only tokens on this line (no `//` comment; a `/` inside a string literal is fine) -/
def TokOk (s : String) : Prop := ∀ r ∈ lexL s.toList 0, ∃ t ln, r = Raw.tok t ln

/-- the lines of a field without comments -/
def fieldLines (n : Nat) (f : FieldD) : List String := fieldStyle n f.head (formatInt f.number) f.popts ""

/-- … scanned where the checker scans them: from line 0 -/
def fieldToks0 (f : FieldD) : List PTok := lexLines (fieldLines 0 f) 0

/-- the tokens after the first `[` -/
def rdBody (f : FieldD) : List PTok := ((fieldToks0 f).dropWhile (fun t => t.tok != .sym '[')).drop 1

/-- the options between the brackets as the parser reads them, and the line of the closing `;` -/
def rdRaws (f : FieldD) : List RawOpt × Nat :=
  match bracketOpts ((rdBody f).length + 1) (rdBody f) with
  | some (raws, ⟨.sym ';', e, _⟩ :: _) => (raws, e)
  | _ => ([], 0)

/-- the field as read from line 0 -/
def rdField0 (f : FieldD) : FieldD :=
  (mkField .field 0 Cm.none f.label f.type f.name (f.number, (rdRaws f).1, (rdRaws f).2, [])).1

/-- the field as read from line `s` -/
def rdField (f : FieldD) (s : Nat) : FieldD := shF s (rdField0 f)

/-- a field with bracket options (and / or a custom JSON name), no comments;
what the scanner and the parser make of its text is part of the hypothesis (decidable: `Cover.optFieldB`) -/
structure OptField (f : FieldD) : Prop where
  kind : f.kind = .field
  loc : f.loc.leadOnly
  unl : ∀ o ∈ f.opts, o.hasLoc = false
  lab : f.label = "" ∨ f.label = "repeated " ∨ f.label = "optional "
  name : IsIdent f.name
  nonempty : f.popts ≠ []
  noch : ∀ l ∈ fieldLines 0 f, (∀ c ∈ l.toList, c ≠ '\n') ∧ TokOk l
  read : ∃ (w : TyW) (raws : List RawOpt) (e : Nat) (c : Cm), w.ok f.label ∧ f.type = w.str ∧
    fieldToks0 f = headToks f w 0 ++ rdBody f ∧
    bracketOpts ((rdBody f).length + 1) (rdBody f) = Option.some (raws, [⟨.sym ';', e, c⟩]) ∧
    e + 1 = (fieldLines 0 f).length
  ok : fieldOk f (rdField0 f)

/-- the parser on the tokens of such a field, on any line, before anything -/
theorem optField_parse (f : FieldD) (h : OptField f) (s : Nat) (more : List PTok) (hm : trailOf more = "") :
    parseField (sh s (fieldToks0 f) ++ more) = some (rdField f s, more) := by
  obtain ⟨w, raws, e, c, hw, hty, htoks, hbr, _⟩ := h.read
  rw [htoks, sh_append, sh_headToks]
  unfold headToks
  simp only [List.append_assoc, List.cons_append, List.nil_append, Nat.zero_add]
  have hp := parseField_W f.label h.lab w hw f.name s
    (T (.sym '=') s :: (numToks f.number s ++ T (.sym '[') s :: (sh s (rdBody f) ++ more)))
  simp only [List.append_assoc] at hp
  rw [hp]
  have hfr := bracketOpts_frame s more _ _ _ _ hbr ((sh s (rdBody f) ++ more).length + 1)
    (by simp only [List.length_append, sh_length]; omega)
  simp only [sh_cons, sh_nil, PTok.shift, List.cons_append, List.nil_append] at hfr
  rw [fieldTail_bracket f.number s _ _ _ _ _ hfr]
  simp only [Option.map_some]
  have hrd : rdRaws f = (raws, e) := by simp only [rdRaws, hbr]
  have := mkField_shift 0 s e f.label w.str f.name f.number raws more [] hm rfl
  simp only [Nat.zero_add] at this
  congr 1
  apply Prod.ext
  · unfold rdField rdField0
    rw [hrd, hty, ← this]
  · rfl

/-! ## statement options of a block (`option (x.y).z = {};`): read back by evaluation -/

/-- what `printSection` writes for the options of a block on a builder with indentation 0: every option
(all its statements), then a gap -/
def optCmds0 (os : List SOpt) : List Cmd :=
  ((sortOpts os).map (fun o => optionCmds 0 o ++ [Cmd.gap])).flatten

/-- the option lines (without the blank ones) -/
def optLines0 (os : List SOpt) : List String :=
  ((sortOpts os).map (fun o => (o.stmts.map (optionStmt1 0 o.name o.single)).flatten)).flatten

/-- their tokens when the block starts on line 0 -/
def optToks0 (os : List SOpt) : List PTok := toksOf (optCmds0 os) false 1

/-- the number of lines they take (blank lines between the options included) -/
def optSpan (os : List SOpt) : Nat := nLines (optCmds0 os) false

/-- cut before every `option` -/
def splitOpt : List PTok → List (List PTok)
  | [] => []
  | t :: r =>
    match splitOpt r with
    | [] => [[t]]
    | c :: cs =>
      match c with
      | ⟨.ident "option", _, _⟩ :: _ => [t] :: c :: cs
      | _ => (t :: c) :: cs

/-- the statements, each as the parser reads it alone -/
def optChunks (os : List SOpt) : List (List PTok) := splitOpt (optToks0 os)

def rawsOf (chunks : List (List PTok)) : List RawOpt := chunks.filterMap (fun c => (optionStmt c).map Prod.fst)

def optRaws0 (os : List SOpt) : List RawOpt := rawsOf (optChunks os)

/-- every piece is one whole statement -/
def ChunksOk (chunks : List (List PTok)) : Prop := ∀ c ∈ chunks, ∃ r, optionStmt c = some (r, [])

/-- the options of the block as read from a block that starts on line `s` -/
def rdBlockOpts (os : List SOpt) (s : Nat) : List SOpt := (mkOpts 0 (optRaws0 os)).map (shO s)

/-- the options of a block, as statements; what the scanner and the parser make of their text is part of the
hypothesis (decidable: `Cover.blockOptsB`) -/
structure BlockOpts (os : List SOpt) : Prop where
  unl : ∀ o ∈ os, o.hasLoc = false
  noch : ∀ l ∈ optLines0 os, (∀ c ∈ l.toList, c ≠ '\n') ∧ TokOk l
  whole : (optChunks os).flatten = optToks0 os
  chunks : ChunksOk (optChunks os)
  ok : optsOk os (mkOpts 0 (optRaws0 os))
  pos : ∀ o ∈ mkOpts 0 (optRaws0 os), o.hasLoc = true → 0 < o.startLine

/-! ## statement options of a method: as for a block, but without gaps between them -/

def rpcCmds0 (os : List SOpt) : List Cmd := ((sortOpts os).map (optionCmds 0)).flatten
def rpcToks0 (os : List SOpt) : List PTok := toksOf (rpcCmds0 os) false 1
def rpcSpan (os : List SOpt) : Nat := nLines (rpcCmds0 os) false
def rpcChunks (os : List SOpt) : List (List PTok) := splitOpt (rpcToks0 os)
def rpcRaws0 (os : List SOpt) : List RawOpt := rawsOf (rpcChunks os)
def rdRpcOpts (os : List SOpt) (s : Nat) : List SOpt := (mkOpts 0 (rpcRaws0 os)).map (shO s)

/-- the options of a method; what the scanner and the parser make of their text is part of the hypothesis
(decidable: `Cover.rpcOptsB`) -/
structure RpcOpts (os : List SOpt) : Prop where
  unl : ∀ o ∈ os, o.hasLoc = false
  noch : ∀ l ∈ optLines0 os, (∀ c ∈ l.toList, c ≠ '\n') ∧ TokOk l
  whole : (rpcChunks os).flatten = rpcToks0 os
  chunks : ChunksOk (rpcChunks os)
  ok : optsOk os (mkOpts 0 (rpcRaws0 os))
  pos : ∀ o ∈ mkOpts 0 (rpcRaws0 os), o.hasLoc = true → 0 < o.startLine

/-- a leading comment as the printer splits it into `//` lines and the reader joins them again: the text ends with
a line break (every comment protocompile attributes does), no line holds a line break (decidable: `Cover.commentOkB`) -/
def CommentOk (c : String) : Prop :=
  c = "" ∨ (commentBody c ≠ [] ∧ (∀ x ∈ commentBody c, NoNL x.toList) ∧
    String.join ((commentBody c).map (· ++ "\n")) = c)

mutual
/-- messages (nested), enums, oneofs, fields, enum values; statement / bracket options by certificate; every element may
carry a leading comment (`CommentOk`, asked by the list predicates), no detached / trailing comments -/
def SimpleItem : Item → Prop
  | .field f => SimpleField f ∨ MapField f ∨ OptField f
  | .rpc _ _ _ _ _ _ => False
  | .block kw t l _ name os ks =>
    l.leadOnly ∧ BlockOpts os ∧ IsIdent name ∧
    ((kw = "message" ∧ t = 1 ∧ SimpleKids ks) ∨ (kw = "enum" ∧ t = 2 ∧ SimpleValues ks) ∨
      (kw = "oneof" ∧ t = 0 ∧ ks ≠ [] ∧ SimpleMembers ks ∧ os = []))
def SimpleKids : List Item → Prop
  | [] => True
  | e :: r => SimpleItem e ∧ CommentOk e.loc.leading ∧ SimpleKids r
/-- the members of a `oneof`: fields without label -/
def SimpleMembers : List Item → Prop
  | [] => True
  | .field f :: r => ((SimpleField f ∨ OptField f) ∧ f.label = "") ∧ CommentOk f.loc.leading ∧ SimpleMembers r
  | _ :: _ => False
def SimpleValues : List Item → Prop
  | [] => True
  | .field f :: r => SimpleValue f ∧ CommentOk f.loc.leading ∧ SimpleValues r
  | _ :: _ => False
end

/-! ## the reading: the same tree with the lines of the printed text -/

def lineLoc (s e : Nat) : Loc := ⟨s, e, [], "", ""⟩

/-- the gap `printElements` asks for before an element without source location -/
def gapBefore (first : Bool) (le0 lt : Nat) (e : Item) : Bool := gapCond first le0 e.loc.startLine e.typeOrder lt

def startLine (g : Bool) (L : Nat) : Nat := if g then L + 1 else L

/-- the line an element starts on when the printer is on line `L` with gap flag `g`: without a leading comment the
next line (after the blank one, if a gap is pending or asked for); with a leading comment `c` of `k` lines: a blank
line, the `k` comment lines, then the element -/
def kidStart (c : String) (gb : Bool) (L : Nat) (g : Bool) : Nat :=
  if c = "" then startLine (g || gb) L else L + 1 + (commentBody c).length

def kidS (e : Item) (first : Bool) (le0 lt L : Nat) (g : Bool) : Nat :=
  kidStart e.loc.leading (gapBefore first le0 lt e) L g

mutual
/-- the element that starts on line `s`, and the line after it -/
def rdItem : Item → Nat → Item × Nat
  | .field f, s =>
    if f.popts.isEmpty then (.field { f with loc := lineLoc s s, index := 0 }, s + 1)
    else (.field (rdField f s), s + (fieldLines 0 f).length)
  | .rpc _ _ a b c os, s =>
    if os.isEmpty then (.rpc (lineLoc s s) 0 a b c [], s + 1)
    else (.rpc (lineLoc s (s + 1 + rpcSpan os)) 0 a b c (rdRpcOpts os s), s + 2 + rpcSpan os)
  | .block kw t _ _ name os kids, s =>
    if kids.isEmpty && os.isEmpty then (.block kw t (lineLoc s s) 0 name [] [], s + 1)
    else (.block kw t (lineLoc s (rdKids kids true 0 0 (s + 1 + optSpan os) (!os.isEmpty)).2) 0 name (rdBlockOpts os s)
        (rdKids kids true 0 0 (s + 1 + optSpan os) (!os.isEmpty)).1,
      (rdKids kids true 0 0 (s + 1 + optSpan os) (!os.isEmpty)).2 + 1)
/-- the elements written from line `L` on with gap flag `g` (`printElements`), and the line after them -/
def rdKids : List Item → Bool → Nat → Nat → Nat → Bool → List Item × Nat
  | [], _, _, _, L, _ => ([], L)
  | e :: r, first, le0, lt, L, g =>
    let s := kidStart e.loc.leading (gapCond first le0 e.loc.startLine e.typeOrder lt) L g
    ((rdItem e s).1.withLead e.loc.leading :: (rdKids r false e.loc.endLine e.typeOrder (rdItem e s).2 e.gapEnder).1,
      (rdKids r false e.loc.endLine e.typeOrder (rdItem e s).2 e.gapEnder).2)
end

theorem rdKids_cons (e : Item) (r : List Item) (first : Bool) (le0 lt L : Nat) (g : Bool) :
    rdKids (e :: r) first le0 lt L g =
      ((rdItem e (kidS e first le0 lt L g)).1.withLead e.loc.leading ::
          (rdKids r false e.loc.endLine e.typeOrder (rdItem e (kidS e first le0 lt L g)).2 e.gapEnder).1,
        (rdKids r false e.loc.endLine e.typeOrder (rdItem e (kidS e first le0 lt L g)).2 e.gapEnder).2) := by
  rw [rdKids]
  rfl

/-! ## what the printer writes for these files -/

/-- an element without its leading comments (`itemCmds` = `leadingCmds` ++ this) -/
def bodyCmds (n : Nat) : Item → List Cmd
  | .field f =>
    (fieldStyle n f.head (Scalar.formatInt f.number) f.popts (inlineComment f.loc)).map Cmd.line ++ trailingCmds n f.loc
  | .rpc l _ name inT outT opts =>
    [Cmd.line (ind n ("rpc " ++ name ++ "(" ++ inT ++ ") returns (" ++ outT ++ ")" ++
      (if opts.isEmpty then " {}" else " {") ++ inlineComment l))] ++
    trailingCmds n l ++
    ((sortOpts opts).map (optionCmds (n + 1))).flatten ++
    (if opts.isEmpty then [] else [Cmd.endl (ind n "}")]) ++ [Cmd.gap]
  | .block kw _ l _ name opts kids =>
    (if kids.isEmpty && opts.isEmpty && l.trailing = "" then
      [Cmd.line (ind n (kw ++ " " ++ name ++ " {}"))]
    else
      [Cmd.line (ind n (kw ++ " " ++ name ++ " {" ++ inlineComment l))] ++
      trailingCmds (n + 1) l ++
      ((sortOpts opts).map (fun o => optionCmds (n + 1) o ++ [Cmd.gap])).flatten ++
      elemsCmds (n + 1) kids true 0 0 ++
      [Cmd.endl (ind n "}")]) ++ [Cmd.gap]

theorem itemCmds_eq (n : Nat) : ∀ e : Item, itemCmds n e = leadingCmds n e.loc ++ bodyCmds n e
  | .field f => by simp [itemCmds, bodyCmds, fieldCmds, Item.loc, List.append_assoc]
  | .rpc _ _ _ _ _ _ => by simp [itemCmds, bodyCmds, Item.loc, List.append_assoc]
  | .block _ _ _ _ _ _ _ => by simp [itemCmds, bodyCmds, Item.loc, List.append_assoc]

/-- the `//` lines of a leading comment on a builder with indentation `n` -/
def leadLines (n : Nat) (c : String) : List String := (commentBody c).map (fun x => ind n ("//" ++ x))

theorem leadingCmds_lead (n : Nat) {l : Loc} (h : l.leadOnly) :
    leadingCmds n l = if l.leading = "" then [] else Cmd.gap :: (leadLines n l.leading).map Cmd.line := by
  unfold leadingCmds leadLines commentLines
  rw [h.1]
  simp only [List.map_nil, List.flatten_nil, List.nil_append, List.map_map]
  rfl

theorem popts_simple (f : FieldD) (ho : f.opts = [])
    (hj : f.json = none ∨ f.json = some (String.ofList (defaultJSONName f.name.toList))) : f.popts = [] := by
  unfold FieldD.popts
  rw [ho]
  have hs : sortByName ([].map SOpt.parsed).flatten = [] := rfl
  rcases hj with h | h
  · rw [h]; exact hs
  · rw [h]
    simp only [String.toList_ofList, ne_eq, not_true_eq_false, if_false]
    exact hs

/-- the line of a field -/
def fieldLine (n : Nat) (f : FieldD) : String :=
  ind n (f.label ++ f.type ++ " " ++ f.name ++ " = " ++ formatInt f.number ++ ";" ++ "")

/-- the line of an enum value -/
def valueLine (n : Nat) (f : FieldD) : String := ind n (f.name ++ " = " ++ formatInt f.number ++ ";" ++ "")

theorem fieldCmds_map (n : Nat) (f : FieldD) (h : MapField f) : bodyCmds n (.field f) = [Cmd.line (fieldLine n f)] := by
  obtain ⟨hk, hl, ho, _, _, hj, _⟩ := h
  simp only [bodyCmds]
  rw [trailingCmds_nt n hl.2, inlineComment_nt hl.2, popts_simple f ho (Or.inr hj)]
  simp [fieldStyle, fieldLine, FieldD.head, hk]

theorem fieldCmds_simple (n : Nat) (f : FieldD) (h : SimpleField f) : bodyCmds n (.field f) = [Cmd.line (fieldLine n f)] := by
  obtain ⟨hk, hl, ho, _, _, hj, _⟩ := h
  simp only [bodyCmds]
  rw [trailingCmds_nt n hl.2, inlineComment_nt hl.2, popts_simple f ho (Or.inr hj)]
  simp [fieldStyle, fieldLine, FieldD.head, hk]

theorem fieldCmds_value (n : Nat) (f : FieldD) (h : SimpleValue f) : bodyCmds n (.field f) = [Cmd.line (valueLine n f)] := by
  obtain ⟨hk, hl, ho, _, _, _, _, hj⟩ := h
  simp only [bodyCmds]
  rw [trailingCmds_nt n hl.2, inlineComment_nt hl.2, popts_simple f ho (Or.inl hj)]
  simp [fieldStyle, valueLine, FieldD.head, hk]

/-- a block without options and comments -/
theorem blockCmds_simple (n : Nat) (kw : String) (t : Nat) (l : Loc) (i : Nat) (name : String) (kids : List Item)
    (hl : l.leadOnly) :
    bodyCmds n (.block kw t l i name [] kids) =
      (if kids.isEmpty then [Cmd.line (ind n (kw ++ " " ++ name ++ " {}"))]
       else [Cmd.line (ind n (kw ++ " " ++ name ++ " {" ++ ""))] ++ elemsCmds (n + 1) kids true 0 0 ++
         [Cmd.endl (ind n "}")]) ++ [Cmd.gap] := by
  simp only [bodyCmds]
  rw [trailingCmds_nt (n + 1) hl.2, inlineComment_nt hl.2, hl.2]
  simp [sortOpts, Order.isort]

/-- a block without comments -/
theorem blockCmds_opts (n : Nat) (kw : String) (t : Nat) (l : Loc) (i : Nat) (name : String) (os : List SOpt)
    (kids : List Item) (hl : l.leadOnly) :
    bodyCmds n (.block kw t l i name os kids) =
      (if kids.isEmpty && os.isEmpty then [Cmd.line (ind n (kw ++ " " ++ name ++ " {}"))]
       else [Cmd.line (ind n (kw ++ " " ++ name ++ " {" ++ ""))] ++
         (((sortOpts os).map (fun o => optionCmds (n + 1) o ++ [Cmd.gap])).flatten ++
         (elemsCmds (n + 1) kids true 0 0 ++ [Cmd.endl (ind n "}")]))) ++ [Cmd.gap] := by
  simp only [bodyCmds]
  rw [trailingCmds_nt (n + 1) hl.2, inlineComment_nt hl.2, hl.2]
  simp

theorem elemsCmds_cons_unloc (n : Nat) (e : Item) (r : List Item) (first : Bool) (le0 lt : Nat) :
    elemsCmds n (e :: r) first le0 lt =
      (if gapBefore first le0 lt e then [Cmd.gap] else []) ++ leadingCmds n e.loc ++ bodyCmds n e ++
        elemsCmds n r false e.loc.endLine e.typeOrder := by
  rw [elemsCmds, itemCmds_eq]
  simp only [List.append_assoc]
  rfl

theorem exec_gapIf (c g : Bool) : exec (if c then [Cmd.gap] else []) g = ([], g || c) := by
  cases c <;> cases g <;> rfl

/-! ## where the printer puts what: lines and tokens of an element -/

mutual
/-- the shape the layout lemmas need: no options, no comments, no methods -/
def Plain : Item → Prop
  | .field f => SimpleField f ∨ SimpleValue f ∨ MapField f ∨ OptField f
  | .rpc l _ _ _ _ os => l.leadOnly ∧ RpcOpts os
  | .block _ _ l _ _ os ks => l.leadOnly ∧ BlockOpts os ∧ PlainList ks
def PlainList : List Item → Prop
  | [] => True
  | e :: r => Plain e ∧ CommentOk e.loc.leading ∧ PlainList r
end

mutual
theorem SimpleItem.plain : ∀ e, SimpleItem e → Plain e
  | .field _, h => by
    simp only [SimpleItem] at h
    rcases h with h | h | h
    · exact Or.inl h
    · exact Or.inr (Or.inr (Or.inl h))
    · exact Or.inr (Or.inr (Or.inr h))
  | .rpc _ _ _ _ _ _, h => h.elim
  | .block _ _ _ _ _ _ ks, h => by
    simp only [SimpleItem] at h
    simp only [Plain]
    refine ⟨h.1, h.2.1, ?_⟩
    rcases h.2.2.2 with hm | he | ho
    · exact SimpleKids.plain ks hm.2.2
    · exact SimpleValues.plain ks he.2.2
    · exact SimpleMembers.plain ks ho.2.2.2.1
theorem SimpleKids.plain : ∀ es, SimpleKids es → PlainList es
  | [], _ => trivial
  | e :: r, h => by
    simp only [SimpleKids] at h
    exact ⟨SimpleItem.plain e h.1, h.2.1, SimpleKids.plain r h.2.2⟩
theorem SimpleValues.plain : ∀ es, SimpleValues es → PlainList es
  | [], _ => trivial
  | .field f :: r, h => by
    simp only [SimpleValues] at h
    exact ⟨Or.inr (Or.inl h.1), h.2.1, SimpleValues.plain r h.2.2⟩
  | .rpc _ _ _ _ _ _ :: _, h => by simp [SimpleValues] at h
  | .block _ _ _ _ _ _ _ :: _, h => by simp [SimpleValues] at h
theorem SimpleMembers.plain : ∀ es, SimpleMembers es → PlainList es
  | [], _ => trivial
  | .field f :: r, h => by
    simp only [SimpleMembers] at h
    refine ⟨?_, h.2.1, SimpleMembers.plain r h.2.2⟩
    rcases h.1.1 with h1 | h1
    · exact Or.inl h1
    · exact Or.inr (Or.inr (Or.inr h1))
  | .rpc _ _ _ _ _ _ :: _, h => by simp [SimpleMembers] at h
  | .block _ _ _ _ _ _ _ :: _, h => by simp [SimpleMembers] at h
end

theorem Plain.loc : ∀ e, Plain e → e.loc.leadOnly
  | .field f, h => by
    rcases h with h | h | h | h
    · exact h.2.1
    · exact h.2.1
    · exact h.2.1
    · exact h.loc
  | .rpc _ _ _ _ _ _, h => h.1
  | .block _ _ _ _ _ _ _, h => h.1

/-- the one line of a field or an enum value -/
def leafLine (n : Nat) (f : FieldD) : String :=
  match f.kind with
  | .field => fieldLine n f
  | .value => valueLine n f

theorem fieldCmds_leaf (n : Nat) (f : FieldD) (h : SimpleField f ∨ SimpleValue f ∨ MapField f) :
    bodyCmds n (.field f) = [Cmd.line (leafLine n f)] := by
  rcases h with h | h | h
  · rw [fieldCmds_simple n f h]; simp [leafLine, h.1]
  · rw [fieldCmds_value n f h]; simp [leafLine, h.1]
  · rw [fieldCmds_map n f h]; simp [leafLine, h.1]

/-- a field on one line -/
def Leaf (f : FieldD) : Prop := SimpleField f ∨ SimpleValue f ∨ MapField f

theorem Leaf.popts {f : FieldD} (h : Leaf f) : f.popts = [] := by
  rcases h with h | h | h
  · exact popts_simple f h.2.2.1 (Or.inr h.2.2.2.2.2.1)
  · exact popts_simple f h.2.2.1 (Or.inl h.2.2.2.2.2.2.2)
  · exact popts_simple f h.2.2.1 (Or.inr h.2.2.2.2.2.1)

theorem rdItem_leaf {f : FieldD} (h : Leaf f) (s : Nat) :
    rdItem (.field f) s = (.field { f with loc := lineLoc s s, index := 0 }, s + 1) := by
  simp [rdItem, h.popts]

/-- what a field reads as, whichever way it is written -/
def rdFieldAny (f : FieldD) (s : Nat) : FieldD :=
  if f.popts.isEmpty then { f with loc := lineLoc s s, index := 0 } else rdField f s

theorem rdItem_field_fst (f : FieldD) (s : Nat) : (rdItem (.field f) s).1 = .field (rdFieldAny f s) := by
  simp only [rdItem, rdFieldAny]
  split <;> rfl

theorem member_plain {f : FieldD} (h : SimpleField f ∨ OptField f) : Plain (.field f) := by
  rcases h with h | h
  · exact Or.inl h
  · exact Or.inr (Or.inr (Or.inr h))

/-! ### the lines of a field with options -/

theorem fieldLines_ind (n : Nat) (f : FieldD) : fieldLines n f = (fieldLines 0 f).map (ind n) :=
  fieldStyle_ind n f.head (formatInt f.number) f.popts

theorem lineToks_ind (n : Nat) (s : String) (l : Nat) : lineToks (ind n s) l = lineToks s l := by
  unfold lineToks ind
  rw [String.toList_append, String.toList_ofList, lexL_spaces]

theorem lexLines_ind (n : Nat) : ∀ (ls : List String) (l : Nat), lexLines (ls.map (ind n)) l = lexLines ls l
  | [], _ => rfl
  | x :: r, l => by simp only [List.map_cons, lexLines, lineToks_ind, lexLines_ind n r]

theorem lexLines_shift (k : Nat) : ∀ (ls : List String) (l : Nat), lexLines ls (l + k) = sh k (lexLines ls l)
  | [], _ => rfl
  | x :: r, l => by
    simp only [lexLines, sh_append, lineToks_shift]
    rw [show l + k + 1 = (l + 1) + k by omega, lexLines_shift k r (l + 1)]

theorem fieldCmds_lines (n : Nat) (f : FieldD) (h : f.loc.leadOnly) :
    bodyCmds n (.field f) = (fieldLines n f).map Cmd.line := by
  simp only [bodyCmds, fieldLines]
  rw [trailingCmds_nt n h.2, inlineComment_nt h.2]
  simp

/-- what a run of `line` commands writes -/
theorem exec_lines_map : ∀ (ls : List String) (g : Bool), ls ≠ [] →
    (exec (ls.map Cmd.line) g).1 = (if g then [""] else []) ++ ls ∧ (exec (ls.map Cmd.line) g).2 = false
  | [], _, h => (h rfl).elim
  | [x], g, _ => by cases g <;> simp [exec]
  | x :: y :: r, g, _ => by
    have ih := exec_lines_map (y :: r) false (by simp)
    simp only [List.map_cons, Bool.false_eq_true, if_false, List.nil_append] at ih ⊢
    rw [exec, ih.1, ih.2]
    cases g <;> simp

theorem fieldLines_ne (n : Nat) (f : FieldD) : fieldLines n f ≠ [] := by
  unfold fieldLines fieldStyle
  split
  · simp
  · split <;> simp

/-! ### the statement options of a block: layout -/

/-- a command on a builder with indentation `n` more -/
def Cmd.indent (n : Nat) : Cmd → Cmd
  | .line s => .line (ind n s)
  | .endl s => .endl (ind n s)
  | .gap => .gap

theorem exec_indent (n : Nat) : ∀ (cs : List Cmd) (g : Bool),
    (exec (cs.map (Cmd.indent n)) g).2 = (exec cs g).2 ∧
    (exec (cs.map (Cmd.indent n)) g).1.length = (exec cs g).1.length ∧
    ∀ L, lexLines (exec (cs.map (Cmd.indent n)) g).1 L = lexLines (exec cs g).1 L
  | [], g => by simp [exec]
  | .gap :: r, g => by simpa [exec, Cmd.indent] using exec_indent n r true
  | .line x :: r, g => by
    obtain ⟨h1, h2, h3⟩ := exec_indent n r false
    simp only [List.map_cons, Cmd.indent, exec, h1, List.length_append, h2]
    refine ⟨trivial, by cases g <;> simp, ?_⟩
    intro L
    cases g
    · simp only [Bool.false_eq_true, if_false, List.cons_append, List.nil_append, lexLines, lineToks_ind, h3]
    · simp only [if_true, List.cons_append, List.nil_append, lexLines, lineToks_ind, h3]
  | .endl x :: r, g => by
    obtain ⟨h1, h2, h3⟩ := exec_indent n r false
    simp only [List.map_cons, Cmd.indent, exec, h1, List.length_cons, h2]
    refine ⟨trivial, trivial, ?_⟩
    intro L
    simp only [lexLines, lineToks_ind, h3]

theorem optionCmds_indent (n : Nat) (o : SOpt) : optionCmds n o = (optionCmds 0 o).map (Cmd.indent n) := by
  unfold optionCmds
  have : o.stmts.map (optionStmt1 n o.name o.single) = o.stmts.map (fun v => (optionStmt1 0 o.name o.single v).map (ind n)) := by
    apply List.map_congr_left
    intro v _
    exact optionStmt1_ind n o.name o.single v
  rw [this]
  simp only [List.map_flatten, List.map_map]
  congr 1
  apply List.map_congr_left
  intro v _
  simp [Function.comp, Cmd.indent]

/-- the commands `itemCmds` writes for the options of a block on a builder with indentation `n` -/
theorem optCmds_indent (n : Nat) (os : List SOpt) :
    ((sortOpts os).map (fun o => optionCmds (n + 1) o ++ [Cmd.gap])).flatten = (optCmds0 os).map (Cmd.indent (n + 1)) := by
  unfold optCmds0
  rw [List.map_flatten, List.map_map]
  congr 1
  apply List.map_congr_left
  intro o _
  simp only [Function.comp, List.map_append, List.map_cons, List.map_nil, Cmd.indent]
  rw [← optionCmds_indent]

theorem toksOf_shift (cs : List Cmd) (g : Bool) (L k : Nat) : toksOf cs g (L + k) = sh k (toksOf cs g L) := by
  unfold toksOf
  exact lexLines_shift k _ L

theorem sortOpts_isEmpty (os : List SOpt) : (sortOpts os).isEmpty = os.isEmpty := by
  cases os with
  | nil => rfl
  | cons x xs =>
    simp only [sortOpts, Order.isort, List.isEmpty_cons]
    generalize Order.isort _ xs = l
    cases l <;> simp [Order.insertBy] <;> split <;> simp

theorem exec_gapEnded : ∀ (l : List (List Cmd)) (g : Bool),
    (exec (l.map (fun c => c ++ [Cmd.gap])).flatten g).2 = (g || !l.isEmpty)
  | [], g => by simp [exec]
  | c :: r, g => by
    simp only [List.map_cons, List.flatten_cons, List.append_assoc, exec_append_snd, List.isEmpty_cons, Bool.not_false,
      Bool.or_true]
    have : (exec ([Cmd.gap] ++ (r.map (fun c => c ++ [Cmd.gap])).flatten) (exec c g).2).2 = true := by
      simp only [List.cons_append, List.nil_append, exec]
      rw [exec_gapEnded r true]; rfl
    exact this

theorem optCmds0_flag (os : List SOpt) : (exec (optCmds0 os) false).2 = !os.isEmpty := by
  unfold optCmds0
  have := exec_gapEnded ((sortOpts os).map (optionCmds 0)) false
  simp only [List.map_map, Function.comp, Bool.false_or, List.isEmpty_map, sortOpts_isEmpty] at this
  exact this

/-- the options of a block that starts on line `s`: tokens, lines, final gap flag -/
theorem lay_opts (n : Nat) (os : List SOpt) (s : Nat) :
    toksOf ((sortOpts os).map (fun o => optionCmds (n + 1) o ++ [Cmd.gap])).flatten false (s + 1) = sh s (optToks0 os) ∧
    nLines ((sortOpts os).map (fun o => optionCmds (n + 1) o ++ [Cmd.gap])).flatten false = optSpan os ∧
    (exec ((sortOpts os).map (fun o => optionCmds (n + 1) o ++ [Cmd.gap])).flatten false).2 = !os.isEmpty := by
  rw [optCmds_indent]
  obtain ⟨h1, h2, h3⟩ := exec_indent (n + 1) (optCmds0 os) false
  refine ⟨?_, ?_, ?_⟩
  · unfold toksOf optToks0
    rw [h3, Nat.add_comm s 1]
    exact toksOf_shift (optCmds0 os) false 1 s
  · unfold nLines optSpan nLines
    exact h2
  · rw [h1, optCmds0_flag]

theorem optSpan_nil : optSpan [] = 0 := by simp [optSpan, optCmds0, sortOpts, Order.isort, nLines, exec]
theorem optToks0_nil : optToks0 [] = [] := by simp [optToks0, optCmds0, sortOpts, Order.isort, toksOf, exec, lexLines]
theorem rdBlockOpts_nil (s : Nat) : rdBlockOpts [] s = [] := by
  simp [rdBlockOpts, optRaws0, optChunks, optToks0_nil, splitOpt, rawsOf, mkOpts, groupOpts, unlocateShared]

theorem BlockOpts.nil : BlockOpts [] := by
  refine ⟨by simp, by simp [optLines0, sortOpts, Order.isort], by simp [optChunks, optToks0_nil, splitOpt], ?_, ?_, ?_⟩
  · intro c hc; simp [optChunks, optToks0_nil, splitOpt] at hc
  · simp [optRaws0, optChunks, optToks0_nil, splitOpt, rawsOf, mkOpts, groupOpts, unlocateShared, optsOk]
  · intro o ho; simp [optRaws0, optChunks, optToks0_nil, splitOpt, rawsOf, mkOpts, groupOpts, unlocateShared] at ho

/-! ### … and the parser on them -/

theorem chunk_head {c : List PTok} {r : RawOpt} (h : optionStmt c = some (r, [])) :
    ∃ l cm tl, c = ⟨.ident "option", l, cm⟩ :: tl := by
  unfold Grammar.optionStmt at h
  split at h
  · exact ⟨_, _, _, rfl⟩
  · simp at h

theorem rawsOf_cons {c : List PTok} {r : RawOpt} (h : optionStmt c = some (r, [])) (cs : List (List PTok)) :
    rawsOf (c :: cs) = r :: rawsOf cs := by
  simp [rawsOf, h]

theorem mb_opts (s : Nat) : ∀ (chunks : List (List PTok)), ChunksOk chunks → ∀ (F : Nat) (more : List PTok)
    (os0 : List RawOpt) (ks : List Item),
    messageBody (F + chunks.length) (sh s chunks.flatten ++ more) os0 ks =
      messageBody F more (os0 ++ (rawsOf chunks).map (RawOpt.shift s)) ks
  | [], _, F, more, os0, ks => by simp [rawsOf]
  | c :: cs, h, F, more, os0, ks => by
    obtain ⟨r, hr⟩ := h c (by simp)
    obtain ⟨l, cm, tl, rfl⟩ := chunk_head hr
    have hfr := optionStmt_frame s (sh s cs.flatten ++ more) _ _ _ hr
    simp only [sh_nil, List.nil_append] at hfr
    simp only [List.flatten_cons, sh_append, List.append_assoc, List.length_cons]
    rw [← Nat.add_assoc]
    simp only [sh_cons, PTok.shift, List.cons_append] at hfr ⊢
    rw [messageBody]
    simp only [hfr]
    rw [mb_opts s cs (fun c' hc' => h c' (by simp [hc'])) F more _ ks, rawsOf_cons hr, List.map_cons, List.append_assoc]
    rfl

theorem eb_opts (s : Nat) : ∀ (chunks : List (List PTok)), ChunksOk chunks → ∀ (F : Nat) (more : List PTok)
    (os0 : List RawOpt) (vs : List FieldD),
    enumBody (F + chunks.length) (sh s chunks.flatten ++ more) os0 vs =
      enumBody F more (os0 ++ (rawsOf chunks).map (RawOpt.shift s)) vs
  | [], _, F, more, os0, vs => by simp [rawsOf]
  | c :: cs, h, F, more, os0, vs => by
    obtain ⟨r, hr⟩ := h c (by simp)
    obtain ⟨l, cm, tl, rfl⟩ := chunk_head hr
    have hfr := optionStmt_frame s (sh s cs.flatten ++ more) _ _ _ hr
    simp only [sh_nil, List.nil_append] at hfr
    simp only [List.flatten_cons, sh_append, List.append_assoc, List.length_cons]
    rw [← Nat.add_assoc]
    simp only [sh_cons, PTok.shift, List.cons_append] at hfr ⊢
    rw [enumBody]
    simp only [hfr]
    rw [eb_opts s cs (fun c' hc' => h c' (by simp [hc'])) F more _ vs, rawsOf_cons hr, List.map_cons, List.append_assoc]
    rfl

/-- what the parser makes of the options of a block that starts on line `s` -/
theorem mkOpts_block (os : List SOpt) (s : Nat) :
    mkOpts s ((optRaws0 os).map (RawOpt.shift s)) = rdBlockOpts os s := by
  have := mkOpts_shift 0 s (optRaws0 os)
  rw [Nat.zero_add] at this
  exact this

/-- the line of a method without options -/
def rpcLine (n : Nat) (name inT outT : String) : String :=
  ind n ("rpc " ++ name ++ "(" ++ inT ++ ") returns (" ++ outT ++ ")" ++ " {}" ++ "")

theorem rpcCmds_plain (n : Nat) (l : Loc) (i : Nat) (name inT outT : String) (hl : l.leadOnly) :
    bodyCmds n (.rpc l i name inT outT []) = [Cmd.line (rpcLine n name inT outT)] ++ [Cmd.gap] := by
  simp only [bodyCmds]
  rw [trailingCmds_nt n hl.2, inlineComment_nt hl.2]
  simp [sortOpts, Order.isort, rpcLine]

/-- the first line of a method with options -/
def rpcOpenLine (n : Nat) (name inT outT : String) : String :=
  ind n ("rpc " ++ name ++ "(" ++ inT ++ ") returns (" ++ outT ++ ")" ++ " {" ++ "")

theorem rpcCmds_opts (n : Nat) (l : Loc) (i : Nat) (name inT outT : String) (os : List SOpt) (hl : l.leadOnly)
    (hne : os.isEmpty = false) :
    bodyCmds n (.rpc l i name inT outT os) = [Cmd.line (rpcOpenLine n name inT outT)] ++
      (((sortOpts os).map (optionCmds (n + 1))).flatten ++ ([Cmd.endl (ind n "}")] ++ [Cmd.gap])) := by
  simp only [bodyCmds]
  rw [trailingCmds_nt n hl.2, inlineComment_nt hl.2]
  simp [hne, rpcOpenLine]

theorem rpcOptCmds_indent (n : Nat) (os : List SOpt) :
    ((sortOpts os).map (optionCmds (n + 1))).flatten = (rpcCmds0 os).map (Cmd.indent (n + 1)) := by
  unfold rpcCmds0
  rw [List.map_flatten, List.map_map]
  congr 1
  apply List.map_congr_left
  intro o _
  simp only [Function.comp]
  rw [← optionCmds_indent]

/-- the options of a method that starts on line `s`: tokens and lines -/
theorem lay_rpcOpts (n : Nat) (os : List SOpt) (s : Nat) :
    toksOf ((sortOpts os).map (optionCmds (n + 1))).flatten false (s + 1) = sh s (rpcToks0 os) ∧
    nLines ((sortOpts os).map (optionCmds (n + 1))).flatten false = rpcSpan os := by
  rw [rpcOptCmds_indent]
  obtain ⟨_, h2, h3⟩ := exec_indent (n + 1) (rpcCmds0 os) false
  refine ⟨?_, ?_⟩
  · unfold toksOf rpcToks0
    rw [h3, Nat.add_comm s 1]
    exact toksOf_shift (rpcCmds0 os) false 1 s
  · unfold nLines rpcSpan nLines
    exact h2

theorem rpcToks0_nil : rpcToks0 [] = [] := by simp [rpcToks0, rpcCmds0, sortOpts, Order.isort, toksOf, exec, lexLines]

theorem RpcOpts.nil : RpcOpts [] := by
  refine ⟨by simp, by simp [optLines0, sortOpts, Order.isort], by simp [rpcChunks, rpcToks0_nil, splitOpt], ?_, ?_, ?_⟩
  · intro c hc; simp [rpcChunks, rpcToks0_nil, splitOpt] at hc
  · simp [rpcRaws0, rpcChunks, rpcToks0_nil, splitOpt, rawsOf, mkOpts, groupOpts, unlocateShared, optsOk]
  · intro o ho; simp [rpcRaws0, rpcChunks, rpcToks0_nil, splitOpt, rawsOf, mkOpts, groupOpts, unlocateShared] at ho

mutual
/-- the tokens of an element that starts on line `s` (its own first token without comment; the first token of every
child carries the child's leading comment) -/
def itemToks (n : Nat) : Item → Nat → List PTok
  | .field f, s => if f.popts.isEmpty then lineToks (leafLine n f) s else sh s (fieldToks0 f)
  | .rpc _ _ name inT outT os, s =>
    if os.isEmpty then lineToks (rpcLine n name inT outT) s
    else lineToks (rpcOpenLine n name inT outT) s ++ sh s (rpcToks0 os) ++ lineToks (ind n "}") (s + 1 + rpcSpan os)
  | .block kw _ _ _ name os kids, s =>
    if kids.isEmpty && os.isEmpty then lineToks (ind n (kw ++ " " ++ name ++ " {}")) s
    else lineToks (ind n (kw ++ " " ++ name ++ " {" ++ "")) s ++ sh s (optToks0 os) ++
      kT (n + 1) kids true 0 0 (!os.isEmpty) (s + 1 + optSpan os) ++
      lineToks (ind n "}") (rdKids kids true 0 0 (s + 1 + optSpan os) (!os.isEmpty)).2
/-- the tokens of the elements written from line `L` on with gap flag `g`, as the reader finds them: the comment
lines are not tokens, the first token below a comment carries it -/
def kT (n : Nat) : List Item → Bool → Nat → Nat → Bool → Nat → List PTok
  | [], _, _, _, _, _ => []
  | e :: r, first, le0, lt, g, L =>
    hd e.loc.leading (itemToks n e (kidStart e.loc.leading (gapCond first le0 e.loc.startLine e.typeOrder lt) L g)) ++
      kT n r false e.loc.endLine e.typeOrder e.gapEnder
        (rdItem e (kidStart e.loc.leading (gapCond first le0 e.loc.startLine e.typeOrder lt) L g)).2
end

theorem kT_nil (n : Nat) (first : Bool) (le0 lt : Nat) (g : Bool) (L : Nat) : kT n [] first le0 lt g L = [] := by
  rw [kT]

theorem kT_cons (n : Nat) (e : Item) (r : List Item) (first : Bool) (le0 lt : Nat) (g : Bool) (L : Nat) :
    kT n (e :: r) first le0 lt g L =
      hd e.loc.leading (itemToks n e (kidS e first le0 lt L g)) ++
        kT n r false e.loc.endLine e.typeOrder e.gapEnder (rdItem e (kidS e first le0 lt L g)).2 := by
  rw [kT]
  rfl

theorem rdItem_block_nil (kw : String) (t : Nat) (l : Loc) (i : Nat) (name : String) (kids : List Item) (s : Nat) :
    rdItem (.block kw t l i name [] kids) s =
      if kids.isEmpty then (.block kw t (lineLoc s s) 0 name [] [], s + 1)
      else (.block kw t (lineLoc s (rdKids kids true 0 0 (s + 1) false).2) 0 name [] (rdKids kids true 0 0 (s + 1) false).1,
        (rdKids kids true 0 0 (s + 1) false).2 + 1) := by
  simp [rdItem, optSpan_nil, rdBlockOpts_nil]

theorem itemToks_block_nil (n : Nat) (kw : String) (t : Nat) (l : Loc) (i : Nat) (name : String) (kids : List Item) (s : Nat) :
    itemToks n (.block kw t l i name [] kids) s =
      if kids.isEmpty then lineToks (ind n (kw ++ " " ++ name ++ " {}")) s
      else lineToks (ind n (kw ++ " " ++ name ++ " {" ++ "")) s ++
        kT (n + 1) kids true 0 0 false (s + 1) ++
        lineToks (ind n "}") (rdKids kids true 0 0 (s + 1) false).2 := by
  simp [itemToks, optSpan_nil, optToks0_nil]

/-- where the element itself starts, after the gap of `printElements` and its leading comment -/
theorem lead_exec (n : Nat) (e : Item) (hl : e.loc.leadOnly) (hc : CommentOk e.loc.leading) (first : Bool) (le0 lt : Nat)
    (g : Bool) (L : Nat) :
    startLine (exec ((if gapBefore first le0 lt e = true then [Cmd.gap] else []) ++ leadingCmds n e.loc) g).2
      (L + nLines ((if gapBefore first le0 lt e = true then [Cmd.gap] else []) ++ leadingCmds n e.loc) g) =
        kidS e first le0 lt L g := by
  rw [leadingCmds_lead n hl]
  unfold kidS kidStart
  by_cases hlead : e.loc.leading = ""
  · simp only [hlead, if_true, List.append_nil, exec_gapIf, nLines]
    cases g <;> cases gapBefore first le0 lt e <;> rfl
  · simp only [hlead, if_false]
    have hne : leadLines n e.loc.leading ≠ [] := by
      rcases hc with hc | hc
      · exact absurd hc hlead
      · unfold leadLines
        intro h0
        exact hc.1 (List.map_eq_nil_iff.mp h0)
    obtain ⟨e1, e2⟩ := exec_lines_map (leadLines n e.loc.leading) true hne
    have hx : exec ((if gapBefore first le0 lt e = true then [Cmd.gap] else []) ++
        Cmd.gap :: (leadLines n e.loc.leading).map Cmd.line) g = ("" :: leadLines n e.loc.leading, false) := by
      rw [exec_append, exec_gapIf]
      simp only [exec, e1, e2, if_true, List.nil_append, List.cons_append]
    simp only [nLines, hx]
    simp only [startLine, Bool.false_eq_true, if_false, List.length_cons, leadLines, List.length_map]
    omega

/-- the state of the gap flag after the elements -/
def endFlag : List Item → Bool → Bool
  | [], g => g
  | e :: r, _ => endFlag r e.gapEnder

mutual
theorem lay_item : ∀ (e : Item), Plain e → ∀ (n : Nat) (g : Bool) (L : Nat),
    (match e with
     | .block _ _ _ _ _ _ _ => True
     | e' => toksOf (bodyCmds n e') g L = itemToks n e' (startLine g L)) ∧
    L + nLines (bodyCmds n e) g = (rdItem e (startLine g L)).2 ∧
    (exec (bodyCmds n e) g).2 = e.gapEnder
  | .field f, h, n, g, L => by
    simp only [Plain] at h
    by_cases hp : f.popts = []
    · have hleaf : Leaf f := by
        rcases h with h | h | h | h
        · exact Or.inl h
        · exact Or.inr (Or.inl h)
        · exact Or.inr (Or.inr h)
        · exact absurd hp h.nonempty
      have hpe : f.popts.isEmpty = true := by simp [hp]
      simp only [fieldCmds_leaf n f hleaf, itemToks, rdItem, hpe, if_true, Item.gapEnder, toksOf_line, startLine]
      refine ⟨trivial, ?_, ?_⟩
      · cases g <;> simp [nLines, exec]
      · cases g <;> simp [exec]
    · have ho : OptField f := by
        rcases h with h | h | h | h
        · exact absurd (Leaf.popts (Or.inl h)) hp
        · exact absurd (Leaf.popts (Or.inr (Or.inl h))) hp
        · exact absurd (Leaf.popts (Or.inr (Or.inr h))) hp
        · exact h
      have hpe : f.popts.isEmpty = false := by simpa using hp
      simp only [itemToks, rdItem, hpe, Bool.false_eq_true, if_false, Item.gapEnder]
      rw [fieldCmds_lines n f ho.loc, fieldLines_ind n f]
      obtain ⟨e1, e2⟩ := exec_lines_map ((fieldLines 0 f).map (ind n)) g (by simp [fieldLines_ne])
      refine ⟨?_, ?_, e2⟩
      · unfold toksOf fieldToks0
        rw [e1]
        cases g with
        | false =>
          simp only [Bool.false_eq_true, if_false, List.nil_append, startLine, lexLines_ind]
          rw [← lexLines_shift, Nat.zero_add]
        | true =>
          simp only [if_true, List.cons_append, List.nil_append, startLine, lexLines, lineToks_blank, lexLines_ind]
          rw [← lexLines_shift, Nat.zero_add]
      · unfold nLines
        rw [e1]
        cases g <;> simp [startLine] <;> omega
  | .rpc l i name inT outT os, h, n, g, L => by
    simp only [Plain] at h
    obtain ⟨hl, ho⟩ := h
    dsimp only
    by_cases hemp : os.isEmpty = true
    · have hnil : os = [] := by simpa using hemp
      subst hnil
      rw [rpcCmds_plain n l i name inT outT hl]
      simp only [itemToks, rdItem, List.isEmpty_nil, if_true, Item.gapEnder]
      refine ⟨?_, ?_, ?_⟩
      · rw [toksOf_append, toksOf_line]; simp [toksOf_gap, startLine]
      · cases g <;> simp [nLines, exec, startLine]
      · cases g <;> simp [exec]
    · have hne : os.isEmpty = false := by simpa using hemp
      rw [rpcCmds_opts n l i name inT outT os hl hne]
      obtain ⟨o1, o2⟩ := lay_rpcOpts n os (startLine g L)
      simp only [itemToks, rdItem, hne, Bool.false_eq_true, if_false, Item.gapEnder]
      have hfirst : ∀ s : String, (exec [Cmd.line s] g).2 = false := by intro s; cases g <;> rfl
      have hn1 : ∀ s : String, L + nLines [Cmd.line s] g = startLine g L + 1 := by
        intro s; cases g <;> simp [nLines, exec, startLine]
      refine ⟨?_, ?_, ?_⟩
      · rw [toksOf_append, toksOf_append, toksOf_append, toksOf_line, toksOf_gap, List.append_nil]
        simp only [exec_append_snd, hfirst, nLines_append, toksOf_endl, hn1, o1, o2, List.append_assoc]
        rfl
      · simp only [nLines_append, exec_append_snd, hfirst, o2]
        rw [← Nat.add_assoc, ← Nat.add_assoc, hn1]
        simp [nLines, exec]
        omega
      · simp [exec_append_snd, exec]
  | .block kw t l i name os kids, h, n, g, L => by
    simp only [Plain] at h
    obtain ⟨hl, ho, hk⟩ := h
    rw [blockCmds_opts n kw t l i name os kids hl]
    by_cases hempty : (kids.isEmpty && os.isEmpty) = true
    · simp only [hempty, if_true, itemToks, rdItem, Item.gapEnder]
      refine ⟨trivial, ?_, ?_⟩
      · cases g <;> simp [nLines, exec, startLine]
      · cases g <;> simp [exec]
    · have hne : (kids.isEmpty && os.isEmpty) = false := by simpa using hempty
      obtain ⟨o1, o2, o3⟩ := lay_opts n os (startLine g L)
      obtain ⟨_, k2, k3⟩ := lay_kids kids hk (n + 1) true 0 0 (!os.isEmpty) (startLine g L + 1 + optSpan os)
      simp only [hne, Bool.false_eq_true, if_false, itemToks, rdItem, Item.gapEnder]
      have hfirst : ∀ s : String, (exec [Cmd.line s] g).2 = false := by intro s; cases g <;> rfl
      have hn1 : ∀ s : String, L + nLines [Cmd.line s] g = startLine g L + 1 := by
        intro s; cases g <;> simp [nLines, exec, startLine]
      refine ⟨trivial, ?_, ?_⟩
      · simp only [nLines_append, exec_append_snd, hfirst, o2, o3]
        rw [← Nat.add_assoc, ← Nat.add_assoc, ← Nat.add_assoc, ← Nat.add_assoc, hn1, k2]
        simp [nLines, exec]
      · simp [exec_append_snd, exec]
theorem lay_kids : ∀ (es : List Item), PlainList es → ∀ (n : Nat) (first : Bool) (le0 lt : Nat) (g : Bool) (L : Nat),
    True ∧
    L + nLines (elemsCmds n es first le0 lt) g = (rdKids es first le0 lt L g).2 ∧
    (exec (elemsCmds n es first le0 lt) g).2 = endFlag es g
  | [], _, _, _, _, _, _, _ => by simp [elemsCmds, nLines, exec, rdKids, endFlag]
  | e :: r, h, n, first, le0, lt, g, L => by
    simp only [PlainList] at h
    obtain ⟨he, hc, hr⟩ := h
    have hP := lead_exec n e (Plain.loc e he) hc first le0 lt g L
    rw [elemsCmds_cons_unloc n e r first le0 lt, rdKids_cons]
    generalize (if gapBefore first le0 lt e = true then [Cmd.gap] else []) ++ leadingCmds n e.loc = P at hP ⊢
    obtain ⟨_, i2, i3⟩ := lay_item e he n (exec P g).2 (L + nLines P g)
    rw [hP] at i2
    obtain ⟨_, r2, r3⟩ := lay_kids r hr n false e.loc.endLine e.typeOrder e.gapEnder (rdItem e (kidS e first le0 lt L g)).2
    refine ⟨trivial, ?_, ?_⟩
    · simp only [nLines_append, exec_append_snd, i3]
      rw [← Nat.add_assoc, ← Nat.add_assoc, i2, r2]
    · simp only [exec_append_snd, i3, r3, endFlag]
end

/-! ## no comments anywhere: every token is followed by an empty trailing comment -/

theorem lineToks_cm (s : String) (l : Nat) : ∀ t ∈ lineToks s l, t.cm = Cm.none := by
  intro t ht
  unfold lineToks at ht
  simp only [List.mem_filterMap] at ht
  obtain ⟨r, _, hr⟩ := ht
  cases r with
  | tok tk ln => simp only [toP, Option.some.injEq] at hr; rw [← hr]; rfl
  | comment _ _ => simp [toP] at hr

theorem lexLines_cm : ∀ (ls : List String) (l : Nat), ∀ t ∈ lexLines ls l, t.cm = Cm.none
  | [], _, t, h => by simp [lexLines] at h
  | s :: r, l, t, h => by
    simp only [lexLines, List.mem_append] at h
    rcases h with h | h
    · exact lineToks_cm s l t h
    · exact lexLines_cm r (l + 1) t h

theorem trailOf_append (a rest : List PTok) (ha : ∀ t ∈ a, t.cm = Cm.none) (hr : trailOf rest = "") :
    trailOf (a ++ rest) = "" := by
  cases a with
  | nil => simpa using hr
  | cons t r =>
    have := ha t (by simp)
    simp [trailOf, this, Cm.none]

theorem trailOf_toksOf (cmds : List Cmd) (g : Bool) (L : Nat) (rest : List PTok) (hr : trailOf rest = "") :
    trailOf (toksOf cmds g L ++ rest) = "" :=
  trailOf_append _ _ (lexLines_cm _ _) hr

theorem trailOf_hd (c : String) (a rest : List PTok) (hr : trailOf rest = "") (ha : a = [] ∨ True) :
    trailOf (hd c a ++ rest) = "" := by
  cases a with
  | nil => simpa [hd] using hr
  | cons t r => simp [hd, trailOf, leadCm]

theorem trailOf_kT (n : Nat) : ∀ (es : List Item) (first : Bool) (le0 lt : Nat) (g : Bool) (L : Nat) (rest : List PTok),
    trailOf rest = "" → trailOf (kT n es first le0 lt g L ++ rest) = ""
  | [], _, _, _, _, _, rest, hr => by simpa [kT_nil] using hr
  | e :: r, first, le0, lt, g, L, rest, hr => by
    rw [kT_cons, List.append_assoc]
    exact trailOf_hd _ _ _ (trailOf_kT n r _ _ _ _ _ rest hr) (Or.inr trivial)

/-! ## the parser on the values of an enum -/

theorem trailOf_opts (os : List SOpt) (s : Nat) (rest : List PTok) (hr : trailOf rest = "") :
    trailOf (sh s (optToks0 os) ++ rest) = "" := by
  have : toksOf (optCmds0 os) false (1 + s) = sh s (optToks0 os) := toksOf_shift (optCmds0 os) false 1 s
  rw [← this]
  exact trailOf_toksOf _ _ _ _ hr

/-- the fields of a list of field items -/
def fieldsOf : List Item → List FieldD
  | [] => []
  | .field f :: r => f :: fieldsOf r
  | _ :: r => fieldsOf r

theorem enumBody_value (F : Nat) (f : FieldD) (h : SimpleValue f) (n s : Nat) (c : String) (more : List PTok)
    (hm : trailOf more = "") (os : List RawOpt) (vs : List FieldD) :
    enumBody (F + 1) (hd c (lineToks (valueLine n f) s) ++ more) os vs =
      enumBody F more os (vs ++ [({ f with loc := lineLoc s s, index := 0 } : FieldD).withLead c]) := by
  obtain ⟨hk, hl, ho, hlab, hty, hn, hno, hj⟩ := h
  unfold valueLine
  rw [lineToks_value n f.name f.number s hn]
  simp only [List.cons_append, T, hd]
  rw [enumBody]
  · rw [fieldTail_toks]
    simp only [mkField, mkLoc, Cm.none, leadCm, hm, mkOpts, groupOpts, unlocateShared, List.filter_nil, List.map_nil]
    congr 2
    obtain ⟨k, lc, ix, lb, ty, nm, num, js, op⟩ := f
    simp only at hk hlab hty hj ho
    subst hk hlab hty hj ho
    rfl
  · exact hno


theorem enumBody_values : ∀ (es : List Item), SimpleValues es →
    ∀ (n : Nat) (first : Bool) (le0 lt L : Nat) (g : Bool) (F : Nat) (os : List RawOpt) (vs : List FieldD)
      (rest : List PTok), trailOf rest = "" →
    enumBody (F + es.length) (kT n es first le0 lt g L ++ rest) os vs =
      enumBody F rest os (vs ++ fieldsOf (rdKids es first le0 lt L g).1)
  | [], _, n, first, le0, lt, L, g, F, os, vs, rest, _ => by
    simp [kT_nil, rdKids, fieldsOf]
  | .field f :: r, h, n, first, le0, lt, L, g, F, os, vs, rest, hr => by
    simp only [SimpleValues] at h
    have hpe : f.popts.isEmpty = true := by simp [Leaf.popts (Or.inr (Or.inl h.1))]
    rw [kT_cons, rdKids_cons]
    simp only [itemToks, hpe, if_true, leafLine, h.1.1, List.length_cons, List.append_assoc]
    rw [← Nat.add_assoc, enumBody_value (F + r.length) f h.1 n _ _ _ (trailOf_kT _ _ _ _ _ _ _ _ hr)]
    rw [enumBody_values r h.2.2 n false _ _ _ _ F os _ rest hr]
    simp only [rdItem, hpe, if_true, fieldsOf, List.append_assoc, List.cons_append, List.nil_append, Item.withLead, Item.loc]
  | .rpc _ _ _ _ _ _ :: _, h, _, _, _, _, _, _, _, _, _, _, _ => by simp [SimpleValues] at h
  | .block _ _ _ _ _ _ _ :: _, h, _, _, _, _, _, _, _, _, _, _, _ => by simp [SimpleValues] at h

theorem rdKids_values : ∀ (es : List Item), SimpleValues es → ∀ (first : Bool) (le0 lt L : Nat) (g : Bool),
    (rdKids es first le0 lt L g).1 = (fieldsOf (rdKids es first le0 lt L g).1).map Item.field
  | [], _, _, _, _, _, _ => by simp [rdKids, fieldsOf]
  | .field f :: r, h, first, le0, lt, L, g => by
    simp only [SimpleValues] at h
    have hpe : f.popts.isEmpty = true := by simp [Leaf.popts (Or.inr (Or.inl h.1))]
    simp only [rdKids_cons, rdItem, hpe, if_true, fieldsOf, List.map_cons, Item.withLead]
    congr 1
    exact rdKids_values r h.2.2 _ _ _ _ _
  | .rpc _ _ _ _ _ _ :: _, h, _, _, _, _, _ => by simp [SimpleValues] at h
  | .block _ _ _ _ _ _ _ :: _, h, _, _, _, _, _ => by simp [SimpleValues] at h


theorem isIdent_oneof : IsIdent "oneof" := ⟨'o', ['n', 'e', 'o', 'f'], by decide, by decide, by decide⟩

theorem oneofBody_close (F : Nat) (l : Nat) (more : List PTok) (os : List RawOpt) (fs : List FieldD) :
    oneofBody (F + 1) (T (.sym '}') l :: more) os fs = some (os, fs, l, more) := by
  simp [oneofBody, T]

theorem rdKids_members : ∀ (es : List Item), SimpleMembers es → ∀ (first : Bool) (le0 lt L : Nat) (g : Bool),
    (rdKids es first le0 lt L g).1 = (fieldsOf (rdKids es first le0 lt L g).1).map Item.field
  | [], _, _, _, _, _, _ => by simp [rdKids, fieldsOf]
  | .field f :: r, h, first, le0, lt, L, g => by
    simp only [SimpleMembers] at h
    simp only [rdKids_cons, rdItem_field_fst, fieldsOf, List.map_cons, Item.withLead]
    congr 1
    exact rdKids_members r h.2.2 _ _ _ _ _
  | .rpc _ _ _ _ _ _ :: _, h, _, _, _, _, _ => by simp [SimpleMembers] at h
  | .block _ _ _ _ _ _ _ :: _, h, _, _, _, _, _ => by simp [SimpleMembers] at h

theorem rdKids_members_ne : ∀ (es : List Item), SimpleMembers es → es ≠ [] → ∀ (first : Bool) (le0 lt L : Nat) (g : Bool),
    fieldsOf (rdKids es first le0 lt L g).1 ≠ []
  | [], _, h, _, _, _, _, _ => (h rfl).elim
  | .field f :: r, _, _, first, le0, lt, L, g => by
    simp [rdKids_cons, rdItem_field_fst, fieldsOf, Item.withLead]
  | .rpc _ _ _ _ _ _ :: _, h, _, _, _, _, _, _ => by simp [SimpleMembers] at h
  | .block _ _ _ _ _ _ _ :: _, h, _, _, _, _, _, _ => by simp [SimpleMembers] at h

theorem messageBody_close (F : Nat) (l : Nat) (more : List PTok) (os : List RawOpt) (ks : List Item) :
    messageBody (F + 1) (T (.sym '}') l :: more) os ks = some (os, ks, l, more) := by
  simp [messageBody, T]

/-- a token a field can start with (and nothing else in a message body can) -/
def FieldStart (t : Grammar.Tok) : Prop :=
  (∃ c, t = .sym c ∧ c ≠ '}') ∨
  (∃ s, t = .ident s ∧ s ≠ "option" ∧ s ≠ "message" ∧ s ≠ "enum" ∧ s ≠ "oneof")

theorem messageBody_default (F : Nat) (t : Grammar.Tok) (l : Nat) (c : Cm) (tl : List PTok) (h : FieldStart t)
    (os : List RawOpt) (ks : List Item) :
    messageBody (F + 1) (⟨t, l, c⟩ :: tl) os ks =
      match parseField (⟨t, l, c⟩ :: tl) with
      | some (fd, r) => messageBody F r os (ks ++ [.field fd])
      | none => none := by
  rw [messageBody]
  all_goals intros
  all_goals first
    | rfl
    | (rename_i heq
       simp only [List.cons.injEq, PTok.mk.injEq] at heq
       rcases h with ⟨c', hc, hne⟩ | ⟨s, hs, h1, h2, h3, h4⟩
       · subst hc
         have := heq.1.1
         first | (simp only [Grammar.Tok.sym.injEq] at this; exact hne this) | (simp at this)
       · subst hs
         have := heq.1.1
         first
           | (simp only [Grammar.Tok.ident.injEq] at this
              first | exact h1 this | exact h2 this | exact h3 this | exact h4 this)
           | (simp at this))


theorem fieldLineToks_head (label : String) (hlab : label = "" ∨ label = "repeated " ∨ label = "optional ")
    (abs : Bool) (first : String) (rest : List String) (name : String) (num : Int) (s : Nat)
    (hkw : label = "" → abs = false → kwOk first) :
    ∃ t tl, fieldLineToks label abs first rest name num s = ⟨t, s, Cm.none⟩ :: tl ∧ FieldStart t := by
  unfold fieldLineToks
  rcases hlab with h | h | h
  · subst h
    have e : labelToks "" s = [] := by simp [labelToks]
    rw [e, List.nil_append]
    cases abs with
    | true =>
      simp only [tyToks, if_true, List.cons_append, List.nil_append, T]
      exact ⟨_, _, rfl, Or.inl ⟨'.', rfl, by decide⟩⟩
    | false =>
      obtain ⟨_, _, h3, h4, h5, h6⟩ := hkw rfl rfl
      simp only [tyToks, Bool.false_eq_true, if_false, List.cons_append, List.nil_append, T]
      exact ⟨_, _, rfl, Or.inr ⟨first, rfl, h3, h4, h5, h6⟩⟩
  · subst h
    have e : labelToks "repeated " s = [T (.ident "repeated") s] := by simp [labelToks]
    rw [e]
    simp only [List.cons_append, List.nil_append, T]
    exact ⟨_, _, rfl, Or.inr ⟨"repeated", rfl, by decide, by decide, by decide, by decide⟩⟩
  · subst h
    have e : labelToks "optional " s = [T (.ident "optional") s] := by simp [labelToks]
    rw [e]
    simp only [List.cons_append, List.nil_append, T]
    exact ⟨_, _, rfl, Or.inr ⟨"optional", rfl, by decide, by decide, by decide, by decide⟩⟩

/-- a field in a message body -/
theorem messageBody_field (F : Nat) (f : FieldD) (h : SimpleField f) (n s : Nat) (c : String) (more : List PTok)
    (hm : trailOf more = "") (os : List RawOpt) (ks : List Item) :
    messageBody (F + 1) (hd c (lineToks (fieldLine n f) s) ++ more) os ks =
      messageBody F more os (ks ++ [.field (({ f with loc := lineLoc s s, index := 0 } : FieldD).withLead c)]) := by
  obtain ⟨hk, hl, ho, hlab, hn, hj, abs, first, rest, hf, hr, hty, hmap, hkw⟩ := h
  unfold fieldLine
  rw [hty, lineToks_field n f.label hlab abs first rest f.name f.number s hf hr hn]
  obtain ⟨t, tl, hhead, hstart⟩ := fieldLineToks_head f.label hlab abs first rest f.name f.number s hkw
  have hparse := parseField_toks f.label hlab abs first rest f.name f.number s more hf hmap
    (fun h1 h2 => ⟨(hkw h1 h2).1, (hkw h1 h2).2.1⟩)
  rw [hhead, List.cons_append] at hparse
  rw [hhead, hd_cons, List.cons_append]
  rw [messageBody_default F t s _ _ hstart, parseField_hd_some t s c _ _ _ hparse]
  simp only [hm]
  congr 2
  obtain ⟨k, lc, ix, lb, ty, nm, num, js, op⟩ := f
  simp only at hk hty hj ho
  subst hk hty hj ho
  rfl

/-- a map field in a message body -/
theorem messageBody_mapfield (F : Nat) (f : FieldD) (h : MapField f) (n s : Nat) (c : String) (more : List PTok)
    (hm : trailOf more = "") (os : List RawOpt) (ks : List Item) :
    messageBody (F + 1) (hd c (lineToks (fieldLine n f) s) ++ more) os ks =
      messageBody F more os (ks ++ [.field (({ f with loc := lineLoc s s, index := 0 } : FieldD).withLead c)]) := by
  obtain ⟨hk, hl, ho, hlab, hn, hj, k, abs, first, rest, hki, hf, hr, hty⟩ := h
  unfold fieldLine
  rw [hty, hlab, lineToks_map n k abs first rest f.name f.number s hki hf hr hn]
  have hparse := parseField_map k abs first rest f.name f.number s more hki hf
  have hstart : FieldStart (.ident "map") := Or.inr ⟨"map", rfl, by decide, by decide, by decide, by decide⟩
  unfold mapLineToks at hparse ⊢
  simp only [List.cons_append, T, hd] at hparse ⊢
  rw [messageBody_default F _ s _ _ hstart, parseField_hd_some _ s c _ _ _ hparse]
  simp only [hm]
  congr 2
  obtain ⟨k', lc, ix, lb, ty, nm, num, js, op⟩ := f
  simp only at hk hty hj ho hlab
  subst hk hty hj ho hlab
  rfl

theorem headToks_start (f : FieldD) (w : TyW) (hlab : f.label = "" ∨ f.label = "repeated " ∨ f.label = "optional ")
    (hw : w.ok f.label) (s : Nat) :
    ∃ t tl, headToks f w s = ⟨t, s, Cm.none⟩ :: tl ∧ FieldStart t := by
  unfold headToks
  rcases hlab with h | h | h
  · rw [h] at hw ⊢
    have e : labelToks "" s = [] := by simp [labelToks]
    rw [e, List.nil_append]
    cases w with
    | plain a fi r =>
      cases a with
      | true =>
        simp only [TyW.toks, tyToks, if_true, List.cons_append, List.nil_append, T]
        exact ⟨_, _, rfl, Or.inl ⟨'.', rfl, by decide⟩⟩
      | false =>
        obtain ⟨_, _, h3, h4, h5, h6⟩ := hw.2.2.2 rfl rfl
        simp only [TyW.toks, tyToks, Bool.false_eq_true, if_false, List.cons_append, List.nil_append, T]
        exact ⟨_, _, rfl, Or.inr ⟨fi, rfl, h3, h4, h5, h6⟩⟩
    | map k a fi r =>
      simp only [TyW.toks, List.cons_append, T]
      exact ⟨_, _, rfl, Or.inr ⟨"map", rfl, by decide, by decide, by decide, by decide⟩⟩
  · rw [h]
    have e : labelToks "repeated " s = [T (.ident "repeated") s] := by simp [labelToks]
    rw [e]
    simp only [List.cons_append, List.nil_append, T]
    exact ⟨_, _, rfl, Or.inr ⟨"repeated", rfl, by decide, by decide, by decide, by decide⟩⟩
  · rw [h]
    have e : labelToks "optional " s = [T (.ident "optional") s] := by simp [labelToks]
    rw [e]
    simp only [List.cons_append, List.nil_append, T]
    exact ⟨_, _, rfl, Or.inr ⟨"optional", rfl, by decide, by decide, by decide, by decide⟩⟩

/-- a field with options in a message body -/
theorem messageBody_optfield (F : Nat) (f : FieldD) (h : OptField f) (s : Nat) (c : String) (more : List PTok)
    (hm : trailOf more = "") (os : List RawOpt) (ks : List Item) :
    messageBody (F + 1) (hd c (sh s (fieldToks0 f)) ++ more) os ks =
      messageBody F more os (ks ++ [.field ((rdField f s).withLead c)]) := by
  have hparse := optField_parse f h s more hm
  obtain ⟨w, raws, e, c', hw, hty, htoks, hbr, _⟩ := h.read
  obtain ⟨t, tl, hhead, hstart⟩ := headToks_start f w h.lab hw s
  have hsh : sh s (fieldToks0 f) = ⟨t, s, Cm.none⟩ :: (tl ++ sh s (rdBody f)) := by
    rw [htoks, sh_append, sh_headToks, Nat.zero_add, hhead]; rfl
  rw [hsh, List.cons_append] at hparse
  rw [hsh, hd_cons, List.cons_append]
  rw [messageBody_default F t s _ _ hstart, parseField_hd_some t s c _ _ _ hparse]

theorem messageBody_msg_step (F : Nat) (name : String) (s : Nat) (cm : Cm) (r : List PTok) (os : List RawOpt) (ks : List Item) :
    messageBody (F + 1) (⟨.ident "message", s, cm⟩ :: T (.ident name) s :: T (.sym '{') s :: r) os ks =
      match messageBody F r [] [] with
      | some (mos, mks, le, r') =>
        messageBody F r' os (ks ++ [.block "message" 1 (mkLoc s le cm (trailOf r)) 0 name (mkOpts s mos) mks])
      | none => none := by
  simp only [T]
  rw [messageBody]
  rfl

theorem messageBody_enum_step (F : Nat) (name : String) (s : Nat) (cm : Cm) (r : List PTok) (os : List RawOpt) (ks : List Item) :
    messageBody (F + 1) (⟨.ident "enum", s, cm⟩ :: T (.ident name) s :: T (.sym '{') s :: r) os ks =
      match enumBody F r [] [] with
      | some (eos, vs, le, r') =>
        messageBody F r' os (ks ++ [.block "enum" 2 (mkLoc s le cm (trailOf r)) 0 name (mkOpts s eos) (vs.map .field)])
      | none => none := by
  simp only [T]
  rw [messageBody]
  rfl

theorem oneofBody_default (F : Nat) (t : Grammar.Tok) (l : Nat) (c : Cm) (tl : List PTok) (h : FieldStart t)
    (os : List RawOpt) (fs : List FieldD) :
    oneofBody (F + 1) (⟨t, l, c⟩ :: tl) os fs =
      match parseField (⟨t, l, c⟩ :: tl) with
      | some (fd, r) => oneofBody F r os (fs ++ [fd])
      | none => none := by
  rw [oneofBody]
  all_goals intros
  all_goals first
    | rfl
    | (rename_i heq
       simp only [List.cons.injEq, PTok.mk.injEq] at heq
       rcases h with ⟨c', hc, hne⟩ | ⟨s, hs, h1, h2, h3, h4⟩
       · subst hc
         have := heq.1.1
         first | (simp only [Grammar.Tok.sym.injEq] at this; exact hne this) | (simp at this)
       · subst hs
         have := heq.1.1
         first
           | (simp only [Grammar.Tok.ident.injEq] at this
              first | exact h1 this | exact h2 this | exact h3 this | exact h4 this)
           | (simp at this))

/-- a member of a oneof -/
theorem oneofBody_field (F : Nat) (f : FieldD) (h : SimpleField f) (n s : Nat) (c : String) (more : List PTok)
    (hm : trailOf more = "") (os : List RawOpt) (fs : List FieldD) :
    oneofBody (F + 1) (hd c (lineToks (fieldLine n f) s) ++ more) os fs =
      oneofBody F more os (fs ++ [({ f with loc := lineLoc s s, index := 0 } : FieldD).withLead c]) := by
  obtain ⟨hk, hl, ho, hlab, hn, hj, abs, first, rest, hf, hr, hty, hmap, hkw⟩ := h
  unfold fieldLine
  rw [hty, lineToks_field n f.label hlab abs first rest f.name f.number s hf hr hn]
  obtain ⟨t, tl, hhead, hstart⟩ := fieldLineToks_head f.label hlab abs first rest f.name f.number s hkw
  have hparse := parseField_toks f.label hlab abs first rest f.name f.number s more hf hmap
    (fun h1 h2 => ⟨(hkw h1 h2).1, (hkw h1 h2).2.1⟩)
  rw [hhead, List.cons_append] at hparse
  rw [hhead, hd_cons, List.cons_append]
  rw [oneofBody_default F t s _ _ hstart, parseField_hd_some t s c _ _ _ hparse]
  simp only [hm]
  congr 2
  obtain ⟨k, lc, ix, lb, ty, nm, num, js, op⟩ := f
  simp only at hk hty hj ho
  subst hk hty hj ho
  rfl

/-- a member of a oneof with options -/
theorem oneofBody_optfield (F : Nat) (f : FieldD) (h : OptField f) (s : Nat) (c : String) (more : List PTok)
    (hm : trailOf more = "") (os : List RawOpt) (fs : List FieldD) :
    oneofBody (F + 1) (hd c (sh s (fieldToks0 f)) ++ more) os fs = oneofBody F more os (fs ++ [(rdField f s).withLead c]) := by
  have hparse := optField_parse f h s more hm
  obtain ⟨w, raws, e, c', hw, hty, htoks, hbr, _⟩ := h.read
  obtain ⟨t, tl, hhead, hstart⟩ := headToks_start f w h.lab hw s
  have hsh : sh s (fieldToks0 f) = ⟨t, s, Cm.none⟩ :: (tl ++ sh s (rdBody f)) := by
    rw [htoks, sh_append, sh_headToks, Nat.zero_add, hhead]; rfl
  rw [hsh, List.cons_append] at hparse
  rw [hsh, hd_cons, List.cons_append]
  rw [oneofBody_default F t s _ _ hstart, parseField_hd_some t s c _ _ _ hparse]

theorem oneofBody_member (F : Nat) (f : FieldD) (h : SimpleField f ∨ OptField f) (n s : Nat) (c : String) (more : List PTok)
    (hm : trailOf more = "") (os : List RawOpt) (fs : List FieldD) :
    oneofBody (F + 1) (hd c (itemToks n (.field f) s) ++ more) os fs =
      oneofBody F more os (fs ++ [(rdFieldAny f s).withLead c]) := by
  rcases h with h | h
  · have hpe : f.popts.isEmpty = true := by simp [Leaf.popts (Or.inl h)]
    have hleaf : leafLine n f = fieldLine n f := by simp [leafLine, h.1]
    simp only [itemToks, rdFieldAny, hpe, if_true, hleaf]
    exact oneofBody_field F f h n s c more hm os fs
  · have hpe : f.popts.isEmpty = false := by simpa using h.nonempty
    simp only [itemToks, rdFieldAny, hpe, Bool.false_eq_true, if_false]
    exact oneofBody_optfield F f h s c more hm os fs

theorem oneofBody_members : ∀ (es : List Item), SimpleMembers es →
    ∀ (n : Nat) (first : Bool) (le0 lt L : Nat) (g : Bool) (F : Nat) (os : List RawOpt) (fs : List FieldD)
      (rest : List PTok), trailOf rest = "" →
    oneofBody (F + es.length) (kT n es first le0 lt g L ++ rest) os fs =
      oneofBody F rest os (fs ++ fieldsOf (rdKids es first le0 lt L g).1)
  | [], _, n, first, le0, lt, L, g, F, os, fs, rest, _ => by
    simp [kT_nil, rdKids, fieldsOf]
  | .field f :: r, h, n, first, le0, lt, L, g, F, os, fs, rest, hr => by
    simp only [SimpleMembers] at h
    rw [kT_cons, rdKids_cons]
    simp only [List.length_cons, List.append_assoc]
    rw [← Nat.add_assoc, oneofBody_member (F + r.length) f h.1.1 n _ _ _ (trailOf_kT _ _ _ _ _ _ _ _ hr)]
    rw [oneofBody_members r h.2.2 n false _ _ _ _ F os _ rest hr]
    simp only [rdItem_field_fst, fieldsOf, List.append_assoc, List.cons_append, List.nil_append, Item.withLead, Item.loc]
  | .rpc _ _ _ _ _ _ :: _, h, _, _, _, _, _, _, _, _, _, _, _ => by simp [SimpleMembers] at h
  | .block _ _ _ _ _ _ _ :: _, h, _, _, _, _, _, _, _, _, _, _, _ => by simp [SimpleMembers] at h

theorem messageBody_oneof_step (F : Nat) (name : String) (s : Nat) (cm : Cm) (r : List PTok) (os : List RawOpt) (ks : List Item) :
    messageBody (F + 1) (⟨.ident "oneof", s, cm⟩ :: T (.ident name) s :: T (.sym '{') s :: r) os ks =
      match oneofBody F r [] [] with
      | some (_, [], _, _) => none
      | some (oos, fs, le, r') =>
        messageBody F r' os (ks ++ [.block "oneof" 0 (mkLoc s le cm (trailOf r)) 0 name (mkOpts s oos) (fs.map .field)])
      | none => none := by
  simp only [T]
  rw [messageBody]
  rfl

theorem enumBody_close (F : Nat) (l : Nat) (more : List PTok) (os : List RawOpt) (vs : List FieldD) :
    enumBody (F + 1) (T (.sym '}') l :: more) os vs = some (os, vs, l, more) := by
  simp [enumBody, T]


mutual
/-- fuel the parser needs below an element -/
def need1 : Item → Nat
  | .block _ _ _ _ _ os ks => ks.length + 1 + needAll ks + (optChunks os).length
  | .rpc _ _ _ _ _ os => (rpcChunks os).length
  | .field _ => 0
def needAll : List Item → Nat
  | [] => 0
  | e :: r => need1 e + needAll r
end

theorem need1_block_nil (kw : String) (t : Nat) (l : Loc) (i : Nat) (name : String) (kids : List Item) :
    need1 (.block kw t l i name [] kids) = kids.length + 1 + needAll kids := by
  simp [need1, optChunks, optToks0_nil, splitOpt]

theorem mkLoc_plain (s e : Nat) : mkLoc s e Cm.none "" = lineLoc s e := rfl

theorem lineToks_T_trail (s : String) (l : Nat) (more : List PTok) (hm : trailOf more = "") :
    trailOf (lineToks s l ++ more) = "" := trailOf_append _ _ (lineToks_cm s l) hm

theorem mkLoc_leadPlain (s e : Nat) (c : String) : mkLoc s e (leadCm c) "" = (lineLoc s e).withLead c := rfl

theorem hd_T (c : String) (t : Grammar.Tok) (l : Nat) (r : List PTok) : hd c (T t l :: r) = ⟨t, l, leadCm c⟩ :: r := rfl

mutual
theorem mb_item : ∀ (e : Item), SimpleItem e → ∀ (n s G : Nat) (c : String) (os : List RawOpt) (ks : List Item) (more : List PTok),
    trailOf more = "" → need1 e ≤ G →
    messageBody (G + 1) (hd c (itemToks n e s) ++ more) os ks = messageBody G more os (ks ++ [(rdItem e s).1.withLead c])
  | .field f, h, n, s, G, c, os, ks, more, hm, _ => by
    simp only [SimpleItem] at h
    rcases h with h | h | h
    · have hleaf : leafLine n f = fieldLine n f := by simp [leafLine, h.1]
      have hpe : f.popts.isEmpty = true := by simp [Leaf.popts (Or.inl h)]
      simp only [itemToks, rdItem, hpe, if_true, hleaf, Item.withLead]
      exact messageBody_field G f h n s c more hm os ks
    · have hleaf : leafLine n f = fieldLine n f := by simp [leafLine, h.1]
      have hpe : f.popts.isEmpty = true := by simp [Leaf.popts (Or.inr (Or.inr h))]
      simp only [itemToks, rdItem, hpe, if_true, hleaf, Item.withLead]
      exact messageBody_mapfield G f h n s c more hm os ks
    · have hpe : f.popts.isEmpty = false := by simpa using h.nonempty
      simp only [itemToks, rdItem, hpe, Bool.false_eq_true, if_false, Item.withLead]
      exact messageBody_optfield G f h s c more hm os ks
  | .rpc _ _ _ _ _ _, h, _, _, _, _, _, _, _, _, _ => h.elim
  | .block kw t l i name opts kids, h, n, s, G, c, os, ks, more, hm, hG => by
    simp only [SimpleItem] at h
    obtain ⟨hl, ho, hname, hcase⟩ := h
    rcases hcase with ⟨hkw, ht, hk⟩ | ⟨hkw, ht, hk⟩ | ⟨hkw, ht, hne0, hk, hon⟩
    rotate_left 2
    · -- a oneof
      subst hkw ht hon
      rw [need1_block_nil] at hG
      have hne : kids.isEmpty = false := by cases kids with | nil => exact (hne0 rfl).elim | cons _ _ => rfl
      simp only [itemToks_block_nil, rdItem_block_nil, hne, Bool.false_eq_true, if_false]
      rw [lineToks_open n "oneof" name s isIdent_oneof hname, lineToks_close]
      simp only [List.cons_append, List.nil_append, List.append_assoc, hd_T]
      rw [messageBody_oneof_step]
      obtain ⟨F', hGe, h1⟩ : ∃ F', G = F' + kids.length ∧ 1 ≤ F' := ⟨G - kids.length, by omega, by omega⟩
      obtain ⟨F'', rfl⟩ : ∃ F'', F' = F'' + 1 := ⟨F' - 1, by omega⟩
      have hmem := oneofBody_members kids hk (n + 1) true 0 0 (s + 1) false (F'' + 1) [] []
        (T (.sym '}') (rdKids kids true 0 0 (s + 1) false).2 :: more) rfl
      rw [hGe, hmem, oneofBody_close]
      obtain ⟨a, b, hab⟩ := List.exists_cons_of_ne_nil (rdKids_members_ne kids hk hne0 true 0 0 (s + 1) false)
      simp only [List.nil_append, hab]
      simp only [mkOpts, groupOpts, unlocateShared, List.map_nil]
      have htr : trailOf (kT (n + 1) kids true 0 0 false (s + 1) ++
          T (.sym '}') (rdKids kids true 0 0 (s + 1) false).2 :: more) = "" := trailOf_kT _ _ _ _ _ _ _ _ rfl
      rw [htr, mkLoc_leadPlain, ← hab, ← rdKids_members kids hk]
      rfl
    · -- a nested message
      subst hkw ht
      simp only [need1] at hG
      by_cases hempty : (kids.isEmpty && opts.isEmpty) = true
      · simp only [Bool.and_eq_true, List.isEmpty_iff] at hempty
        obtain ⟨rfl, rfl⟩ := hempty
        simp only [itemToks, rdItem, List.isEmpty_nil, Bool.and_self, if_true]
        rw [lineToks_empty n "message" name s isIdent_message hname]
        simp only [List.cons_append, List.nil_append, hd_T]
        rw [messageBody_msg_step]
        obtain ⟨G', rfl⟩ : ∃ G', G = G' + 1 := ⟨G - 1, by omega⟩
        rw [messageBody_close]
        simp only [mkOpts, groupOpts, unlocateShared, List.map_nil]
        have : trailOf (T (.sym '}') s :: more) = "" := rfl
        rw [this, mkLoc_leadPlain]
        rfl
      · have hne : (kids.isEmpty && opts.isEmpty) = false := by simpa using hempty
        simp only [itemToks, rdItem, hne, Bool.false_eq_true, if_false]
        rw [lineToks_open n "message" name s isIdent_message hname, lineToks_close]
        simp only [List.cons_append, List.nil_append, List.append_assoc, hd_T]
        rw [messageBody_msg_step]
        obtain ⟨F'', hGe⟩ : ∃ F'', G = ((F'' + 1) + kids.length) + (optChunks opts).length :=
          ⟨G - kids.length - (optChunks opts).length - 1, by omega⟩
        have hopts := mb_opts s (optChunks opts) ho.chunks ((F'' + 1) + kids.length)
          (kT (n + 1) kids true 0 0 (!opts.isEmpty) (s + 1 + optSpan opts) ++
            T (.sym '}') (rdKids kids true 0 0 (s + 1 + optSpan opts) (!opts.isEmpty)).2 :: more) [] []
        rw [ho.whole] at hopts
        have hkids := mb_kids kids hk (n + 1) true 0 0 (s + 1 + optSpan opts) (!opts.isEmpty) (F'' + 1)
          ([] ++ (rawsOf (optChunks opts)).map (RawOpt.shift s)) []
          (T (.sym '}') (rdKids kids true 0 0 (s + 1 + optSpan opts) (!opts.isEmpty)).2 :: more) rfl (by omega)
        rw [hGe, hopts, hkids, messageBody_close]
        simp only [List.nil_append]
        have htr : trailOf (sh s (optToks0 opts) ++ (kT (n + 1) kids true 0 0 (!opts.isEmpty) (s + 1 + optSpan opts) ++
            T (.sym '}') (rdKids kids true 0 0 (s + 1 + optSpan opts) (!opts.isEmpty)).2 :: more)) = "" :=
          trailOf_opts _ _ _ (trailOf_kT _ _ _ _ _ _ _ _ rfl)
        have hmk := mkOpts_block opts s
        unfold optRaws0 at hmk
        rw [htr, mkLoc_leadPlain, hmk]
        rfl
    · -- a nested enum
      subst hkw ht
      simp only [need1] at hG
      by_cases hempty : (kids.isEmpty && opts.isEmpty) = true
      · simp only [Bool.and_eq_true, List.isEmpty_iff] at hempty
        obtain ⟨rfl, rfl⟩ := hempty
        simp only [itemToks, rdItem, List.isEmpty_nil, Bool.and_self, if_true]
        rw [lineToks_empty n "enum" name s isIdent_enum hname]
        simp only [List.cons_append, List.nil_append, hd_T]
        rw [messageBody_enum_step]
        obtain ⟨G', rfl⟩ : ∃ G', G = G' + 1 := ⟨G - 1, by omega⟩
        rw [enumBody_close]
        simp only [mkOpts, groupOpts, unlocateShared, List.map_nil]
        have : trailOf (T (.sym '}') s :: more) = "" := rfl
        rw [this, mkLoc_leadPlain]
        rfl
      · have hne : (kids.isEmpty && opts.isEmpty) = false := by simpa using hempty
        simp only [itemToks, rdItem, hne, Bool.false_eq_true, if_false]
        rw [lineToks_open n "enum" name s isIdent_enum hname, lineToks_close]
        simp only [List.cons_append, List.nil_append, List.append_assoc, hd_T]
        rw [messageBody_enum_step]
        obtain ⟨F'', hGe⟩ : ∃ F'', G = ((F'' + 1) + kids.length) + (optChunks opts).length :=
          ⟨G - kids.length - (optChunks opts).length - 1, by omega⟩
        have hopts := eb_opts s (optChunks opts) ho.chunks ((F'' + 1) + kids.length)
          (kT (n + 1) kids true 0 0 (!opts.isEmpty) (s + 1 + optSpan opts) ++
            T (.sym '}') (rdKids kids true 0 0 (s + 1 + optSpan opts) (!opts.isEmpty)).2 :: more) [] []
        rw [ho.whole] at hopts
        have hvals := enumBody_values kids hk (n + 1) true 0 0 (s + 1 + optSpan opts) (!opts.isEmpty) (F'' + 1)
          ([] ++ (rawsOf (optChunks opts)).map (RawOpt.shift s)) []
          (T (.sym '}') (rdKids kids true 0 0 (s + 1 + optSpan opts) (!opts.isEmpty)).2 :: more) rfl
        rw [hGe, hopts, hvals, enumBody_close]
        simp only [List.nil_append]
        have htr : trailOf (sh s (optToks0 opts) ++ (kT (n + 1) kids true 0 0 (!opts.isEmpty) (s + 1 + optSpan opts) ++
            T (.sym '}') (rdKids kids true 0 0 (s + 1 + optSpan opts) (!opts.isEmpty)).2 :: more)) = "" :=
          trailOf_opts _ _ _ (trailOf_kT _ _ _ _ _ _ _ _ rfl)
        have hmk := mkOpts_block opts s
        unfold optRaws0 at hmk
        rw [htr, mkLoc_leadPlain, hmk, ← rdKids_values kids hk]
        rfl
theorem mb_kids : ∀ (es : List Item), SimpleKids es → ∀ (n : Nat) (first : Bool) (le0 lt L : Nat) (g : Bool) (F : Nat)
    (os : List RawOpt) (ks : List Item) (rest : List PTok), trailOf rest = "" → needAll es ≤ F →
    messageBody (F + es.length) (kT n es first le0 lt g L ++ rest) os ks =
      messageBody F rest os (ks ++ (rdKids es first le0 lt L g).1)
  | [], _, n, first, le0, lt, L, g, F, os, ks, rest, _, _ => by
    simp [kT_nil, rdKids]
  | e :: r, h, n, first, le0, lt, L, g, F, os, ks, rest, hr, hF => by
    simp only [SimpleKids] at h
    simp only [needAll] at hF
    rw [kT_cons, rdKids_cons]
    simp only [List.length_cons, List.append_assoc]
    rw [← Nat.add_assoc, mb_item e h.1 n _ (F + r.length) _ os ks _ (trailOf_kT _ _ _ _ _ _ _ _ hr) (by omega)]
    rw [mb_kids r h.2.2 n false _ _ _ _ F os _ rest hr (by omega)]
    simp only [List.append_assoc, List.cons_append, List.nil_append]
end


/-! ## the reading satisfies `relaidL` -/

theorem optsOk_nil : optsOk [] [] := ⟨rfl, by simp, by simp⟩

theorem fieldOk_rd (f : FieldD) (h : SimpleField f ∨ SimpleValue f ∨ MapField f) (s : Nat) :
    fieldOkL f (({ f with loc := lineLoc s s, index := 0 } : FieldD).withLead f.loc.leading) := by
  have ho : f.opts = [] := by rcases h with h | h | h <;> exact h.2.2.1
  refine ⟨rfl, rfl, rfl, rfl, rfl, rfl, ⟨rfl, rfl, rfl⟩, rfl, ?_, ?_⟩
  · simp only [FieldD.withLead]; rw [ho]; simp
  · intro p _ _ o' ho'
    simp only [FieldD.withLead, ho] at ho'
    simp at ho'

theorem fieldOkL_of_fieldOk {f f' : FieldD} (h : fieldOk f f') : fieldOkL f (f'.withLead f.loc.leading) := by
  obtain ⟨h1, h2, h3, h4, h5, h6, h7, h8, h9, h10⟩ := h
  exact ⟨h1, h2, h3, h4, h5, h6, ⟨h7.1, h7.2.2, rfl⟩, h8, h9, h10⟩

theorem optOk_shO {o o' : SOpt} (k : Nat) (h : optOk o o') : optOk o (shO k o') := by
  obtain ⟨h1, h2, h3⟩ := h
  exact ⟨by rw [shO_name]; exact h1, by rw [shO_stmts]; exact h2, fun v hv hi => by rw [shO_single]; exact h3 v hv hi⟩

theorem fieldOk_shF {f f' : FieldD} (k : Nat) (h : fieldOk f f') : fieldOk f (shF k f') := by
  obtain ⟨h1, h2, h3, h4, h5, h6, h7, h8, h9, h10⟩ := h
  refine ⟨h1, h2, h3, h4, h5, h6, h7, by simp [shF, h8], ?_, ?_⟩
  · intro p hp
    simp only [shF, List.zip_map_right, List.mem_map] at hp
    obtain ⟨q, hq, rfl⟩ := hp
    exact optOk_shO k (h9 q hq)
  · intro p hp hi o' ho'
    simp only [shF, List.mem_map] at ho'
    obtain ⟨o, ho, rfl⟩ := ho'
    rw [shO_inl]
    exact h10 p hp hi o ho

theorem rdField_loc (f : FieldD) (h : OptField f) (s : Nat) :
    (rdField f s).loc.startLine = s ∧ (rdField f s).loc.endLine + 1 = s + (fieldLines 0 f).length := by
  obtain ⟨w, raws, e, c, _, _, _, hbr, he⟩ := h.read
  have hrd : rdRaws f = (raws, e) := by simp only [rdRaws, hbr]
  simp only [rdField, shF, rdField0, mkField, mkLoc, hrd]
  omega

/-! ### … and `relaid` -/

theorem locLess_shO (k : Nat) (a b : SOpt) (ha : a.hasLoc = true → 0 < a.startLine) (hb : b.hasLoc = true → 0 < b.startLine) :
    Order.locLess (shO k a).loc (shO k b).loc = Order.locLess a.loc b.loc := by
  unfold shO
  cases hA : a.hasLoc <;> cases hB : b.hasLoc <;> simp only [hA, hB, Bool.false_eq_true, if_false, if_true]
  · simp [Order.locLess, SOpt.loc, hA, hB, Order.declLess]
  · simp [Order.locLess, SOpt.loc, hA, hB, Order.declLess]
  · have h1 := ha hA
    have h2 := hb hB
    simp only [Order.locLess, SOpt.loc, hA, hB, Bool.not_true, Bool.false_eq_true, or_self, if_false]
    have e1 : ¬ (a.startLine + k = 0 ∨ b.startLine + k = 0) := by omega
    have e2 : ¬ (a.startLine = 0 ∨ b.startLine = 0) := by omega
    simp only [e1, e2, if_false]
    rw [Bool.eq_iff_iff]
    simp

theorem optsOk_shO {os os' : List SOpt} (k : Nat) (h : optsOk os os') (hpos : ∀ o ∈ os', o.hasLoc = true → 0 < o.startLine) :
    optsOk os (os'.map (shO k)) := by
  obtain ⟨h1, h2, h3⟩ := h
  refine ⟨by simp [h1], ?_, ?_⟩
  · intro p hp
    simp only [List.zip_map_right, List.mem_map] at hp
    obtain ⟨q, hq, rfl⟩ := hp
    exact optOk_shO k (h2 q hq)
  · intro p hp q hq
    simp only [List.zip_map_right, List.mem_map] at hp hq
    obtain ⟨p', hp', rfl⟩ := hp
    obtain ⟨q', hq', rfl⟩ := hq
    simp only [Prod.map, id]
    rw [locLess_shO k p'.2 q'.2 (hpos _ (List.of_mem_zip hp').2) (hpos _ (List.of_mem_zip hq').2)]
    exact h3 p' hp' q' hq'

theorem kidStart_ge (c : String) (gb : Bool) (L : Nat) (g : Bool) : L ≤ kidStart c gb L g := by
  unfold kidStart startLine
  split
  · split <;> omega
  · omega

mutual
theorem rdItem_mono : ∀ (e : Item) (s : Nat), Plain e → s < (rdItem e s).2 ∧
    (rdItem e s).1.loc.startLine = s ∧ (rdItem e s).1.loc.endLine + 1 = (rdItem e s).2
  | .field f, s, h => by
    simp only [Plain] at h
    simp only [rdItem]
    split
    · simp [Item.loc, lineLoc]
    · rename_i hp
      have ho : OptField f := by
        rcases h with h | h | h | h
        · exact absurd (by simp [Leaf.popts (Or.inl h)]) hp
        · exact absurd (by simp [Leaf.popts (Or.inr (Or.inl h))]) hp
        · exact absurd (by simp [Leaf.popts (Or.inr (Or.inr h))]) hp
        · exact h
      have := rdField_loc f ho s
      have hne := fieldLines_ne 0 f
      have hlen : 0 < (fieldLines 0 f).length := List.length_pos_iff.mpr hne
      simp only [Item.loc]
      omega
  | .rpc _ _ _ _ _ _, s, _ => by
    simp only [rdItem]
    split
    · simp [Item.loc, lineLoc]
    · simp only [Item.loc, lineLoc]
      refine ⟨by omega, trivial, by omega⟩
  | .block kw t l i name os kids, s, h => by
    simp only [Plain] at h
    simp only [rdItem]
    split
    · simp [Item.loc, lineLoc]
    · have := rdKids_mono kids true 0 0 (s + 1 + optSpan os) (!os.isEmpty) h.2.2
      exact ⟨by omega, rfl, rfl⟩
theorem rdKids_mono : ∀ (es : List Item) (first : Bool) (le0 lt L : Nat) (g : Bool), PlainList es →
    L ≤ (rdKids es first le0 lt L g).2
  | [], _, _, _, _, _, _ => by simp [rdKids]
  | e :: r, first, le0, lt, L, g, h => by
    simp only [PlainList] at h
    rw [rdKids_cons]
    have hst : L ≤ kidS e first le0 lt L g := kidStart_ge _ _ _ _
    generalize kidS e first le0 lt L g = st at hst ⊢
    have h1 := (rdItem_mono e st h.1).1
    have h2 := rdKids_mono r false e.loc.endLine e.typeOrder (rdItem e st).2 e.gapEnder h.2.2
    simp only []
    omega
end

theorem withLead_lines (c : String) (e : Item) :
    (e.withLead c).loc.startLine = e.loc.startLine ∧ (e.withLead c).loc.endLine = e.loc.endLine := by
  rw [Item.withLead_loc]
  exact ⟨rfl, rfl⟩

mutual
theorem relaid_rdItem : ∀ (e : Item) (s : Nat), Plain e → relaidL e ((rdItem e s).1.withLead e.loc.leading)
  | .field f, s, h => by
    simp only [Plain] at h
    simp only [rdItem]
    split
    · rename_i hp
      simp only [relaidL, Item.withLead, Item.loc]
      have hpo : f.popts = [] := by simpa using hp
      refine fieldOk_rd f ?_ s
      rcases h with h | h | h | h
      · exact Or.inl h
      · exact Or.inr (Or.inl h)
      · exact Or.inr (Or.inr h)
      · exact absurd hpo h.nonempty
    · rename_i hp
      simp only [relaidL, Item.withLead, Item.loc]
      have ho : OptField f := by
        rcases h with h | h | h | h
        · exact absurd (by simp [Leaf.popts (Or.inl h)]) hp
        · exact absurd (by simp [Leaf.popts (Or.inr (Or.inl h))]) hp
        · exact absurd (by simp [Leaf.popts (Or.inr (Or.inr h))]) hp
        · exact h
      exact fieldOkL_of_fieldOk (fieldOk_shF s ho.ok)
  | .rpc l i name inT outT os, s, h => by
    simp only [Plain] at h
    obtain ⟨_, ho⟩ := h
    simp only [rdItem]
    split
    · rename_i he
      have : os = [] := by simpa using he
      subst this
      simp only [relaidL, Item.withLead, Item.loc]
      exact ⟨trivial, trivial, trivial, ⟨rfl, rfl, rfl⟩, optsOk_nil⟩
    · simp only [relaidL, Item.withLead, Item.loc]
      exact ⟨trivial, trivial, trivial, ⟨rfl, rfl, rfl⟩, optsOk_shO s ho.ok ho.pos⟩
  | .block kw t l i name os kids, s, h => by
    simp only [Plain] at h
    obtain ⟨_, ho, hk⟩ := h
    simp only [rdItem]
    split
    · rename_i he
      simp only [Bool.and_eq_true, List.isEmpty_iff] at he
      obtain ⟨rfl, rfl⟩ := he
      simp only [relaidL, relaidKidsL, Item.withLead, Item.loc]
      exact ⟨trivial, trivial, trivial, ⟨rfl, rfl, rfl⟩, optsOk_nil, trivial⟩
    · simp only [relaidL, Item.withLead, Item.loc]
      exact ⟨trivial, trivial, trivial, ⟨rfl, rfl, rfl⟩, optsOk_shO s ho.ok ho.pos,
        relaid_rdKids kids true 0 0 (s + 1 + optSpan os) (!os.isEmpty) 0 0 false hk (by omega) (by intro h; cases h)⟩
theorem relaid_rdKids : ∀ (es : List Item) (first : Bool) (le0 lt L : Nat) (g : Bool) (ps le : Nat) (pg : Bool),
    PlainList es → ps < L → (first = false → L = le + 1 ∧ g = pg ∧ 0 < le) →
    relaidKidsL first pg ps le le0 lt es (rdKids es first le0 lt L g).1
  | [], _, _, _, _, _, _, _, _, _, _, _ => by simp [rdKids, relaidKidsL]
  | e :: r, first, le0, lt, L, g, ps, le, pg, h, hps, hinv => by
    simp only [PlainList] at h
    rw [rdKids_cons]
    simp only [relaidKidsL]
    obtain ⟨hm1, hm2, hm3⟩ := rdItem_mono e (kidS e first le0 lt L g) h.1
    obtain ⟨hw1, hw2⟩ := withLead_lines e.loc.leading (rdItem e (kidS e first le0 lt L g)).1
    have hge : L ≤ kidS e first le0 lt L g := kidStart_ge _ _ _ _
    rw [hw1, hw2, hm2]
    refine ⟨relaid_rdItem e _ h.1, by omega, ?_, ?_, ?_⟩
    · -- the reading asks for a gap only where the printer wrote one
      intro hgr
      by_cases hlead' : e.loc.leading ≠ ""
      · exact Or.inr (Or.inr hlead')
      have hlead : e.loc.leading = "" := Classical.not_not.mp hlead'
      have hks : kidS e first le0 lt L g = (if (g || gapCond first le0 e.loc.startLine e.typeOrder lt) = true then L + 1 else L) := by
        simp [kidS, kidStart, hlead, startLine, gapBefore]
      rw [hks] at hgr
      cases first with
      | true => simp [gapCond] at hgr
      | false =>
        obtain ⟨hL, hg, _⟩ := hinv rfl
        by_cases hgo : gapCond false le0 e.loc.startLine e.typeOrder lt = true
        · exact Or.inr (Or.inl hgo)
        · left
          have hgo' : gapCond false le0 e.loc.startLine e.typeOrder lt = false := by simpa using hgo
          have hne : (e.typeOrder != lt) = false := by
            simp only [gapCond, Bool.not_false, Bool.true_and, Bool.or_eq_false_iff] at hgo'
            exact hgo'.2
          rw [hgo', Bool.or_false] at hgr
          cases g with
          | true => exact hg ▸ rfl
          | false =>
            simp only [gapCond, Bool.not_false, Bool.true_and, hne, Bool.or_false, Bool.and_eq_true,
              decide_eq_true_eq, Bool.false_eq_true, if_false] at hgr
            omega
    · -- where the printer wrote a gap the reading asks for one
      intro hgo
      by_cases hlead' : e.loc.leading ≠ ""
      · exact Or.inr (Or.inr hlead')
      have hlead : e.loc.leading = "" := Classical.not_not.mp hlead'
      have hks : kidS e first le0 lt L g = (if (g || gapCond first le0 e.loc.startLine e.typeOrder lt) = true then L + 1 else L) := by
        simp [kidS, kidStart, hlead, startLine, gapBefore]
      cases first with
      | true => simp [gapCond] at hgo
      | false =>
        obtain ⟨hL, hg, hle⟩ := hinv rfl
        right; left
        rw [hks]
        simp only [hgo, Bool.or_true, if_true]
        simp only [gapCond, Bool.not_false, Bool.true_and, Bool.or_eq_true, Bool.and_eq_true, decide_eq_true_eq]
        left
        omega
    · apply relaid_rdKids r false e.loc.endLine e.typeOrder _ e.gapEnder _ _ e.gapEnder h.2.2
      · exact hm1
      · intro _
        exact ⟨by omega, rfl, by omega⟩
end

end J5V.Print.Reparse
