import J5V.Print.ReparseService
/-!
# The printed text of a simple file is read back as that file (core only)

`parse_print`: for a file of messages, nested messages, enums, fields and enum values with a
package and imports (no options, comments, services, extensions), `Grammar.parseFile` reads
`Layout.printText` back as `rdFile`: the same elements in printed order with the source lines of
the text, and `rdFile` satisfies `relaidFile`.
-/
namespace J5V.Print.Reparse
open J5V.Print J5V.Print.Grammar J5V.Print.Layout J5V.Print.OptionText J5V.Print.Scalar

/-! ## the parser has fuel enough: every element costs at least one token -/

theorem lineToks_field_ne (n : Nat) (f : FieldD) (h : SimpleField f) (s : Nat) : 1 ≤ (lineToks (fieldLine n f) s).length := by
  obtain ⟨_, _, _, hlab, hn, _, abs, first, rest, hf, hr, hty, _, hkw⟩ := h
  unfold fieldLine
  rw [hty, lineToks_field n f.label hlab abs first rest f.name f.number s hf hr hn]
  obtain ⟨t, tl, hhead, _⟩ := fieldLineToks_head f.label hlab abs first rest f.name f.number s hkw
  rw [hhead]
  simp

theorem lineToks_map_ne (n : Nat) (f : FieldD) (h : MapField f) (s : Nat) : 1 ≤ (lineToks (fieldLine n f) s).length := by
  obtain ⟨_, _, _, hlab, hn, _, k, abs, first, rest, hk, hf, hr, hty⟩ := h
  unfold fieldLine
  rw [hty, hlab, lineToks_map n k abs first rest f.name f.number s hk hf hr hn]
  simp [mapLineToks]

theorem lineToks_value_ne (n : Nat) (f : FieldD) (h : SimpleValue f) (s : Nat) : 1 ≤ (lineToks (valueLine n f) s).length := by
  unfold valueLine
  rw [lineToks_value n f.name f.number s h.2.2.2.2.2.1]
  simp

theorem count_values : ∀ (es : List Item), SimpleValues es → ∀ (n : Nat) (first : Bool) (le0 lt L : Nat) (g : Bool),
    es.length ≤ (kT n es first le0 lt g L).length ∧ needAll es = 0
  | [], _, _, _, _, _, _, _ => by simp [needAll]
  | .field f :: r, h, n, first, le0, lt, L, g => by
    simp only [SimpleValues] at h
    rw [kT_cons]
    generalize kidS (.field f) first le0 lt L g = st
    have ih := count_values r h.2.2 n false (Item.field f).loc.endLine (Item.field f).typeOrder
      (rdItem (.field f) st).2 (Item.field f).gapEnder
    have h1 := lineToks_value_ne n f h.1 st
    have hpe : f.popts.isEmpty = true := by simp [Leaf.popts (Or.inr (Or.inl h.1))]
    simp only [itemToks, hpe, if_true, leafLine, h.1.1, List.length_append, List.length_cons, needAll, need1, hd_length] at ih h1 ⊢
    omega
  | .rpc _ _ _ _ _ _ :: _, h, _, _, _, _, _, _ => by simp [SimpleValues] at h
  | .block _ _ _ _ _ _ _ :: _, h, _, _, _, _, _, _ => by simp [SimpleValues] at h

theorem memberToks_ne (n : Nat) (f : FieldD) (h : SimpleField f ∨ OptField f) (s : Nat) :
    1 ≤ (itemToks n (.field f) s).length := by
  rcases h with h | h
  · have := lineToks_field_ne n f h s
    have hpe : f.popts.isEmpty = true := by simp [Leaf.popts (Or.inl h)]
    simp only [itemToks, hpe, if_true, leafLine, h.1]
    exact this
  · have hpe : f.popts.isEmpty = false := by simpa using h.nonempty
    obtain ⟨w, raws, e, c, hw, hty, htoks, _, _⟩ := h.read
    obtain ⟨t, tl, hhead, _⟩ := headToks_start f w h.lab hw 0
    simp only [itemToks, hpe, Bool.false_eq_true, if_false, sh_length, htoks, hhead, List.length_append,
      List.length_cons]
    omega

theorem count_members : ∀ (es : List Item), SimpleMembers es → ∀ (n : Nat) (first : Bool) (le0 lt L : Nat) (g : Bool),
    es.length ≤ (kT n es first le0 lt g L).length ∧ needAll es = 0
  | [], _, _, _, _, _, _, _ => by simp [needAll]
  | .field f :: r, h, n, first, le0, lt, L, g => by
    simp only [SimpleMembers] at h
    rw [kT_cons]
    generalize kidS (.field f) first le0 lt L g = st
    have ih := count_members r h.2.2 n false (Item.field f).loc.endLine (Item.field f).typeOrder
      (rdItem (.field f) st).2 (Item.field f).gapEnder
    have h1 := memberToks_ne n f h.1.1 st
    simp only [List.length_append, List.length_cons, needAll, need1, hd_length] at ih h1 ⊢
    omega
  | .rpc _ _ _ _ _ _ :: _, h, _, _, _, _, _, _ => by simp [SimpleMembers] at h
  | .block _ _ _ _ _ _ _ :: _, h, _, _, _, _, _, _ => by simp [SimpleMembers] at h

theorem length_le_flatten {α} : ∀ (l : List (List α)), (∀ c ∈ l, c ≠ []) → l.length ≤ l.flatten.length
  | [], _ => by simp
  | c :: r, h => by
    have hc := h c (by simp)
    have ih := length_le_flatten r (fun x hx => h x (by simp [hx]))
    have : 1 ≤ c.length := by cases c with | nil => exact absurd rfl hc | cons _ _ => simp
    simp only [List.length_cons, List.flatten_cons, List.length_append]
    omega

theorem count_opts (os : List SOpt) (ho : BlockOpts os) : (optChunks os).length ≤ (optToks0 os).length := by
  rw [← ho.whole]
  apply length_le_flatten
  intro c hc he
  obtain ⟨r, hr⟩ := ho.chunks c hc
  rw [he] at hr
  simp [Grammar.optionStmt] at hr

mutual
theorem count_item : ∀ (e : Item), SimpleItem e → ∀ (n s : Nat), 1 + need1 e ≤ (itemToks n e s).length
  | .field f, h, n, s => by
    simp only [SimpleItem] at h
    rcases h with h | h | h
    · have := lineToks_field_ne n f h s
      have hpe : f.popts.isEmpty = true := by simp [Leaf.popts (Or.inl h)]
      simp only [itemToks, hpe, if_true, leafLine, h.1, need1]
      omega
    · have := lineToks_map_ne n f h s
      have hpe : f.popts.isEmpty = true := by simp [Leaf.popts (Or.inr (Or.inr h))]
      simp only [itemToks, hpe, if_true, leafLine, h.1, need1]
      omega
    · have hpe : f.popts.isEmpty = false := by simpa using h.nonempty
      obtain ⟨w, raws, e, c, hw, hty, htoks, _, _⟩ := h.read
      obtain ⟨t, tl, hhead, _⟩ := headToks_start f w h.lab hw 0
      simp only [itemToks, hpe, Bool.false_eq_true, if_false, need1, sh_length, htoks, hhead, List.length_append,
        List.length_cons]
      omega
  | .rpc _ _ _ _ _ _, h, _, _ => h.elim
  | .block kw t l i name opts kids, h, n, s => by
    simp only [SimpleItem] at h
    obtain ⟨hl, ho, hname, hcase⟩ := h
    have hkwI : IsIdent kw := by
      rcases hcase with ⟨h, _⟩ | ⟨h, _⟩ | ⟨h, _⟩ <;> rw [h]
      · exact isIdent_message
      · exact isIdent_enum
      · exact isIdent_oneof
    have hco := count_opts opts ho
    simp only [itemToks, need1]
    split
    · rename_i he
      simp only [Bool.and_eq_true, List.isEmpty_iff] at he
      obtain ⟨rfl, rfl⟩ := he
      rw [lineToks_empty n kw name s hkwI hname]
      simp [needAll, optChunks, optToks0_nil, splitOpt]
    · rw [lineToks_open n kw name s hkwI hname, lineToks_close]
      simp only [List.length_append, List.length_cons, List.length_nil, sh_length]
      rcases hcase with ⟨_, _, hk⟩ | ⟨_, _, hk⟩ | ⟨_, _, _, hk, _⟩
      · have := count_kids kids hk (n + 1) true 0 0 (s + 1 + optSpan opts) (!opts.isEmpty)
        omega
      · have := count_values kids hk (n + 1) true 0 0 (s + 1 + optSpan opts) (!opts.isEmpty)
        omega
      · have := count_members kids hk (n + 1) true 0 0 (s + 1 + optSpan opts) (!opts.isEmpty)
        omega
theorem count_kids : ∀ (es : List Item), SimpleKids es → ∀ (n : Nat) (first : Bool) (le0 lt L : Nat) (g : Bool),
    es.length + needAll es ≤ (kT n es first le0 lt g L).length
  | [], _, _, _, _, _, _, _ => by simp [needAll]
  | e :: r, h, n, first, le0, lt, L, g => by
    simp only [SimpleKids] at h
    rw [kT_cons]
    generalize kidS e first le0 lt L g = st
    have h1 := count_item e h.1 n st
    have h2 := count_kids r h.2.2 n false e.loc.endLine e.typeOrder (rdItem e st).2 e.gapEnder
    simp only [List.length_append, List.length_cons, needAll, hd_length]
    omega
end


theorem count_rpcOpts (os : List SOpt) (ho : RpcOpts os) : (rpcChunks os).length ≤ (rpcToks0 os).length := by
  rw [← ho.whole]
  apply length_le_flatten
  intro c hc he
  obtain ⟨r, hr⟩ := ho.chunks c hc
  rw [he] at hr
  simp [Grammar.optionStmt] at hr

theorem count_rpcs : ∀ (es : List Item), SimpleRpcs es → ∀ (n : Nat) (first : Bool) (le0 lt L : Nat) (g : Bool),
    es.length + needAll es ≤ (kT n es first le0 lt g L).length
  | [], _, _, _, _, _, _, _ => by simp [needAll]
  | .rpc l i name inT outT opts :: r, h, n, first, le0, lt, L, g => by
    obtain ⟨⟨hl, ho, hname, ⟨sI, aI, fI, rI, hfI, hrI, hin, _⟩, ⟨sO, aO, fO, rO, hfO, hrO, hout, _⟩⟩, _, hr⟩ := h
    subst hin hout
    have hco := count_rpcOpts opts ho
    rw [kT_cons]
    generalize kidS (Item.rpc l i name (rpcTyStr sI aI fI rI) (rpcTyStr sO aO fO rO) opts) first le0 lt L g = st
    have ih := count_rpcs r hr n false (Item.rpc l i name (rpcTyStr sI aI fI rI) (rpcTyStr sO aO fO rO) opts).loc.endLine (Item.rpc l i name (rpcTyStr sI aI fI rI) (rpcTyStr sO aO fO rO) opts).typeOrder
      (rdItem (Item.rpc l i name (rpcTyStr sI aI fI rI) (rpcTyStr sO aO fO rO) opts) st).2
      (Item.rpc l i name (rpcTyStr sI aI fI rI) (rpcTyStr sO aO fO rO) opts).gapEnder
    simp only [itemToks]
    split
    · simp only [lineToks_rpc n name sI aI fI rI sO aO fO rO _ hname hfI hrI hfO hrO, rpcToks,
        List.length_append, List.length_cons, needAll, need1, hd_length] at ih ⊢
      rename_i he
      have : opts = [] := by simpa using he
      subst this
      simp only [rpcChunks, rpcToks0_nil, splitOpt, List.length_nil] at ih ⊢
      omega
    · simp only [lineToks_rpcOpen n name sI aI fI rI sO aO fO rO _ hname hfI hrI hfO hrO, rpcOpenToks,
        List.length_append, List.length_cons, needAll, need1, sh_length, hd_length] at ih ⊢
      omega
  | .field _ :: _, h, _, _, _, _, _, _ => h.1.elim
  | .block _ _ _ _ _ _ _ :: _, h, _, _, _, _, _, _ => h.1.elim

theorem count_service : ∀ (e : Item), SimpleService e → ∀ (n s : Nat), 1 + need1 e ≤ (itemToks n e s).length
  | .block kw t l i name opts kids, h, n, s => by
    obtain ⟨hl, ho, hname, hkw, _, hk⟩ := h
    subst hkw
    have hco := count_opts opts ho
    simp only [itemToks, need1]
    split
    · rename_i he
      simp only [Bool.and_eq_true, List.isEmpty_iff] at he
      obtain ⟨rfl, rfl⟩ := he
      rw [lineToks_empty n "service" name s isIdent_service hname]
      simp [needAll, optChunks, optToks0_nil, splitOpt]
    · rw [lineToks_open n "service" name s isIdent_service hname, lineToks_close]
      simp only [List.length_append, List.length_cons, List.length_nil, sh_length]
      have := count_rpcs kids hk (n + 1) true 0 0 (s + 1 + optSpan opts) (!opts.isEmpty)
      omega
  | .field _, h, _, _ => h.elim
  | .rpc _ _ _ _ _ _, h, _, _ => h.elim

theorem count_tops : ∀ (es : List Item), SimpleTops es → ∀ (n : Nat) (first : Bool) (le0 lt L : Nat) (g : Bool),
    es.length + needAll es ≤ (kT n es first le0 lt g L).length
  | [], _, _, _, _, _, _, _ => by simp [needAll]
  | e :: r, h, n, first, le0, lt, L, g => by
    simp only [SimpleTops] at h
    rw [kT_cons]
    generalize kidS e first le0 lt L g = st
    have h1 : 1 + need1 e ≤ (itemToks n e st).length := by
      rcases h.1 with hs | hs
      · exact count_item e hs.1 n _
      · exact count_service e hs n _
    have h2 := count_tops r h.2.2 n false e.loc.endLine e.typeOrder (rdItem e st).2 e.gapEnder
    simp only [List.length_append, List.length_cons, needAll, hd_length]
    omega


/-! ## the header lines -/

theorem isIdent_syntax : IsIdent "syntax" := ⟨'s', ['y', 'n', 't', 'a', 'x'], by decide, by decide, by decide⟩
theorem isIdent_package : IsIdent "package" := ⟨'p', ['a', 'c', 'k', 'a', 'g', 'e'], by decide, by decide, by decide⟩
theorem isIdent_import : IsIdent "import" := ⟨'i', ['m', 'p', 'o', 'r', 't'], by decide, by decide, by decide⟩
theorem isIdent_public : IsIdent "public" := ⟨'p', ['u', 'b', 'l', 'i', 'c'], by decide, by decide, by decide⟩
theorem isIdent_weak : IsIdent "weak" := ⟨'w', ['e', 'a', 'k'], by decide, by decide, by decide⟩

theorem lineToks_syntax (l : Nat) :
    lineToks "syntax = \"proto3\";" l =
      [T (.ident "syntax") l, T (.sym '=') l, T (.str "\"proto3\"") l, T (.sym ';') l] := by
  unfold lineToks
  have h : ("syntax = \"proto3\";".toList : List Char) =
      "syntax".toList ++ ' ' :: '=' :: ' ' :: ('"' :: "proto3".toList ++ '"' :: [';']) := by decide
  rw [h, lexL_ident "syntax" isIdent_syntax _ (stopsI_space _), lexL_space, lexL_sym '=' (by decide), lexL_space,
    lexL_str "proto3".toList [';'] (by intro c hc; revert c; decide), lexL_sym ';' (by decide), lexL_nil]
  simp only [List.filterMap_cons, List.filterMap_nil, toP]
  have : String.ofList ('"' :: "proto3".toList ++ ['"']) = "\"proto3\"" := by decide
  rw [this]

theorem stopsI_semi (cs : List Char) : StopsI (';' :: cs) := by
  intro c r h; simp only [List.cons.injEq] at h; rw [← h.1]; decide

theorem lineToks_package (first : String) (rest : List String) (l : Nat) (hf : IsIdent first) (hr : ∀ r ∈ rest, IsIdent r) :
    lineToks ("package " ++ tyStr false first rest ++ ";") l =
      T (.ident "package") l :: (tyToks false first rest l ++ [T (.sym ';') l]) := by
  unfold lineToks
  simp only [String.toList_append]
  have h1 : ("package ".toList : List Char) = "package".toList ++ [' '] := by decide
  have h2 : (";".toList : List Char) = [';'] := by decide
  rw [h1, h2, List.append_assoc, List.append_assoc]
  simp only [List.cons_append, List.nil_append]
  rw [lexL_ident "package" isIdent_package _ (stopsI_space _), lexL_space]
  simp only [List.filterMap_cons, toP]
  rw [lexL_tyStr false first rest [';'] l hf hr (stopsI_semi []), lexL_sym ';' (by decide), lexL_nil]
  simp [toP]

/-- the line of an import -/
def importLine (d : String × String) : String := "import " ++ d.2 ++ "\"" ++ d.1 ++ "\";"

def modRaws (m : String) (l : Nat) : List Raw :=
  if m = "public " then [.tok (.ident "public") l] else if m = "weak " then [.tok (.ident "weak") l] else []

/-- the raw items of an import line: tokens only, whatever the path holds -/
theorem lexL_importLine (d : String × String) (l : Nat) (hb : PlainBody d.1.toList)
    (hm : d.2 = "" ∨ d.2 = "public " ∨ d.2 = "weak ") :
    lexL (importLine d).toList l =
      .tok (.ident "import") l :: (modRaws d.2 l ++
        [.tok (.str (String.ofList ('"' :: d.1.toList ++ ['"']))) l, .tok (.sym ';') l]) := by
  unfold importLine
  simp only [String.toList_append]
  have h1 : ("import ".toList : List Char) = "import".toList ++ [' '] := by decide
  have h2 : ("\"".toList : List Char) = ['"'] := by decide
  have h3 : ("\";".toList : List Char) = ['"', ';'] := by decide
  rw [h1, h2, h3]
  simp only [List.append_assoc, List.cons_append, List.nil_append]
  rw [lexL_ident "import" isIdent_import _ (stopsI_space _), lexL_space]
  have hstr : lexL ('"' :: (d.1.toList ++ '"' :: [';'])) l =
      [.tok (.str (String.ofList ('"' :: d.1.toList ++ ['"']))) l, .tok (.sym ';') l] := by
    have := lexL_str d.1.toList [';'] hb l
    simp only [List.cons_append] at this
    rw [this, lexL_sym ';' (by decide), lexL_nil]
    rfl
  rcases hm with h | h | h
  · rw [h]
    have : ("".toList : List Char) = [] := by decide
    simp only [this, List.nil_append, modRaws]
    rw [hstr]
    simp
  · rw [h]
    have : ("public ".toList : List Char) = "public".toList ++ [' '] := by decide
    rw [this, List.append_assoc]
    simp only [List.cons_append, List.nil_append]
    rw [lexL_ident "public" isIdent_public _ (stopsI_space _), lexL_space, hstr]
    simp [modRaws]
  · rw [h]
    have : ("weak ".toList : List Char) = "weak".toList ++ [' '] := by decide
    rw [this, List.append_assoc]
    simp only [List.cons_append, List.nil_append]
    rw [lexL_ident "weak" isIdent_weak _ (stopsI_space _), lexL_space, hstr]
    simp [modRaws]


def modToks (m : String) (l : Nat) : List PTok :=
  if m = "public " then [T (.ident "public") l] else if m = "weak " then [T (.ident "weak") l] else []

/-- the tokens of an import line -/
def importToks (d : String × String) (l : Nat) : List PTok :=
  T (.ident "import") l :: (modToks d.2 l ++ [T (.str (String.ofList ('"' :: d.1.toList ++ ['"']))) l, T (.sym ';') l])

theorem lineToks_import (d : String × String) (l : Nat) (hb : PlainBody d.1.toList)
    (hm : d.2 = "" ∨ d.2 = "public " ∨ d.2 = "weak ") : lineToks (importLine d) l = importToks d l := by
  unfold lineToks
  rw [lexL_importLine d l hb hm]
  rcases hm with h | h | h <;> rw [h] <;> simp [modRaws, modToks, importToks, toP, h]

theorem topLevel_syntax (F : Nat) (l : Nat) (c : Cm) (r : List PTok) (a : Acc) :
    topLevel (F + 1) (⟨.ident "syntax", l, c⟩ :: T (.sym '=') l :: T (.str "\"proto3\"") l :: T (.sym ';') l :: r) a =
      topLevel F r { a with syntaxOk := true } := by
  simp only [T]
  rw [topLevel]
  simp

theorem topLevel_package (F : Nat) (first : String) (rest : List String) (l : Nat) (r : List PTok) (a : Acc)
    (hf : IsIdent first) :
    topLevel (F + 1) (T (.ident "package") l :: (tyToks false first rest l ++ T (.sym ';') l :: r)) a =
      topLevel F r { a with pkg := tyStr false first rest } := by
  have hty := typeName_toks false first rest l (T (.sym ';') l :: r) hf.ne_empty
    (by intro t r' h; simp only [List.cons.injEq] at h; rw [← h.1]; simp [T])
  simp only [T] at hty ⊢
  rw [topLevel.eq_5, hty]
  rfl

theorem unquote_lit (body : String) : unquote (String.ofList ('"' :: (body.toList ++ ['"']))) = body := by
  unfold unquote
  rw [String.toList_ofList]
  simp

theorem topLevel_import (F : Nat) (d : String × String) (l : Nat) (r : List PTok) (a : Acc)
    (hm : d.2 = "" ∨ d.2 = "public " ∨ d.2 = "weak ") :
    topLevel (F + 1) (importToks d l ++ r) a = topLevel F r { a with imports := a.imports ++ [d] } := by
  obtain ⟨p, m⟩ := d
  simp only at hm
  unfold importToks
  rcases hm with h | h | h
  · subst h
    simp only [modToks, List.cons_append, List.nil_append, T]
    have hne : ("" = "public ") = False := by decide
    have hne2 : ("" = "weak ") = False := by decide
    simp only [hne, hne2, if_false, List.nil_append, List.cons_append]
    rw [topLevel.eq_6, unquote_lit]
  · subst h
    simp only [modToks, List.cons_append, List.nil_append, T, if_true]
    rw [topLevel, unquote_lit]
  · subst h
    have hne : ("weak " = "public ") = False := by decide
    simp only [modToks, List.cons_append, List.nil_append, T, hne, if_false, if_true]
    rw [topLevel, unquote_lit]


/-! ## the files of the theorem -/

/-- a file of messages, enums and their fields: package, imports, no options, no comments -/
structure SimpleFile (gen : String) (t : FileD) : Prop where
  gen : NoNL gen.toList
  loc : t.loc.noComments
  pkg : ∃ first rest, IsIdent first ∧ (∀ r ∈ rest, IsIdent r) ∧ t.pkg = tyStr false first rest
  imports : ∀ i ∈ t.imports, PlainBody i.1.toList ∧ (i.2 = "" ∨ i.2 = "public " ∨ i.2 = "weak ")
  distinct : t.imports.Pairwise (fun a b => strBytes a.1 ≠ strBytes b.1)
  opts : t.opts = []
  exts : t.exts = []
  items : SimpleTops t.items

/-- the line on which the first element can start -/
def itemsStart (t : FileD) : Nat := if t.imports.isEmpty then 5 else 6 + t.imports.length

/-- the file as a reader of the printed text finds it -/
def rdFile (t : FileD) : FileD :=
  ⟨Loc.none, t.pkg, sortImports t.imports, [], [], (rdKids t.items true 0 0 (itemsStart t) true).1⟩

/-! ### imports -/

theorem sortImports_perm (l : List (String × String)) : (sortImports l).Perm l := Order.isort_perm _ l

theorem top_imports : ∀ (I : List (String × String)) (L F : Nat) (a : Acc) (rest : List PTok),
    (∀ i ∈ I, PlainBody i.1.toList ∧ (i.2 = "" ∨ i.2 = "public " ∨ i.2 = "weak ")) →
    topLevel (F + I.length) (lexLines (I.map importLine) L ++ rest) a =
      topLevel F rest { a with imports := a.imports ++ I }
  | [], L, F, a, rest, _ => by simp [lexLines]
  | d :: r, L, F, a, rest, h => by
    obtain ⟨hb, hm⟩ := h d (by simp)
    simp only [List.map_cons, lexLines, List.length_cons, List.append_assoc]
    rw [lineToks_import d L hb hm, ← Nat.add_assoc, topLevel_import (F + r.length) d L _ a hm,
      top_imports r (L + 1) F _ rest (fun i hi => h i (by simp [hi]))]
    simp



mutual
theorem plain_quiet : ∀ (e : Item), Plain e → e.quietL
  | .field f, h => by
    simp only [Plain] at h
    simp only [Item.quietL, FieldD.quietL]
    rcases h with h | h | h | h
    · exact ⟨h.2.1, by rw [h.2.2.1]; simp⟩
    · exact ⟨h.2.1, by rw [h.2.2.1]; simp⟩
    · exact ⟨h.2.1, by rw [h.2.2.1]; simp⟩
    · exact ⟨h.loc, h.unl⟩
  | .rpc _ _ _ _ _ _, h => by
    simp only [Plain] at h
    simp only [Item.quietL]
    exact ⟨h.1, h.2.unl⟩
  | .block _ _ l _ _ os ks, h => by
    simp only [Plain] at h
    simp only [Item.quietL]
    exact ⟨h.1, h.2.1.unl, plainList_quiet ks h.2.2⟩
theorem plainList_quiet : ∀ (es : List Item), PlainList es → quietListL es
  | [], _ => trivial
  | e :: r, h => by
    simp only [PlainList] at h
    exact ⟨plain_quiet e h.1, plainList_quiet r h.2.2⟩
end

/-! ### the reading satisfies `relaidFile` -/

theorem isort_id_of_sorted {α} (lt : α → α → Bool) : ∀ (l : List α), l.Pairwise (fun a b => lt a b = true) →
    Order.isort lt l = l
  | [], _ => rfl
  | x :: xs, h => by
    have hx := List.pairwise_cons.mp h
    simp only [Order.isort]
    rw [isort_id_of_sorted lt xs hx.2]
    cases xs with
    | nil => rfl
    | cons y ys => simp [Order.insertBy, hx.1 y (by simp)]

theorem sortImports_idem (l : List (String × String)) (hd : l.Pairwise (fun a b => strBytes a.1 ≠ strBytes b.1)) :
    sortImports (sortImports l) = sortImports l := by
  apply isort_id_of_sorted
  unfold sortImports
  apply Order.isort_sorted
  · exact hd.imp (fun hne => Order.nameLess_total _ _ hne)
  · intro a b c _ _ _; exact Order.nameLess_trans _ _ _

theorem itemsStart_pos (t : FileD) : 0 < itemsStart t := by
  unfold itemsStart; split <;> omega

theorem relaid_rdFile (gen : String) (t : FileD) (h : SimpleFile gen t) : relaidFileL t (rdFile t) := by
  refine ⟨rfl, rfl, sortImports_idem t.imports h.distinct, ⟨rfl, rfl, rfl⟩, ?_, ?_, ?_, ?_⟩
  · rw [h.opts]; exact optsOk_nil
  · rw [h.exts]; rfl
  · rw [h.exts]; simp [rdFile]
  · exact relaid_rdKids t.items true 0 0 (itemsStart t) true 0 0 false (SimpleTops.plain _ h.items) (itemsStart_pos t)
      (by intro hf; cases hf)

theorem simple_quiet (gen : String) (t : FileD) (h : SimpleFile gen t) : t.quietL := by
  refine ⟨h.loc, by rw [h.opts]; simp, by rw [h.exts]; simp, ?_⟩
  exact plainList_quiet _ (SimpleTops.plain _ h.items)

end J5V.Print.Reparse
