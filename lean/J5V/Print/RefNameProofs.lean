import J5V.Print.RefName
/-! Lemmas about `J5V.Print.RefName` (core only). -/
namespace J5V.Print.RefName

/-- number of components `stripCommon` removes -/
def commonLen : Path → Path → Nat
  | r :: rs, c :: cs => if rs ≠ [] ∧ r = c then commonLen rs cs + 1 else 0
  | _, _ => 0

theorem stripCommon_eq_drop : ∀ (tgt ctx : Path), stripCommon tgt ctx = tgt.drop (commonLen tgt ctx)
  | [], _ => by simp [stripCommon, commonLen]
  | _ :: _, [] => by simp [stripCommon, commonLen]
  | r :: rs, c :: cs => by
    unfold stripCommon commonLen
    split
    · simp [stripCommon_eq_drop rs cs]
    · simp

theorem commonLen_le_ctx : ∀ (tgt ctx : Path), commonLen tgt ctx ≤ ctx.length
  | [], _ => by simp [commonLen]
  | _ :: _, [] => by simp [commonLen]
  | r :: rs, c :: cs => by
    unfold commonLen
    split
    · have := commonLen_le_ctx rs cs; simp; omega
    · simp

theorem commonLen_lt_tgt : ∀ (tgt ctx : Path), tgt ≠ [] → commonLen tgt ctx < tgt.length
  | [], _, h => absurd rfl h
  | _ :: _, [], _ => by simp [commonLen]
  | r :: rs, c :: cs, _ => by
    unfold commonLen
    split
    · rename_i h
      have := commonLen_lt_tgt rs cs h.1; simp; omega
    · simp

theorem take_commonLen : ∀ (tgt ctx : Path),
    tgt.take (commonLen tgt ctx) = ctx.take (commonLen tgt ctx)
  | [], _ => by simp [commonLen]
  | _ :: _, [] => by simp [commonLen]
  | r :: rs, c :: cs => by
    unfold commonLen
    split
    · rename_i h
      simp [take_commonLen rs cs, h.2]
    · simp

theorem mem_takesDown (l : Path) : ∀ (n k : Nat), 0 < k → k ≤ n → l.take k ∈ takesDown l n
  | 0, k, h1, h2 => by omega
  | n + 1, k, h1, h2 => by
    unfold takesDown
    by_cases hk : k = n + 1
    · subst hk; simp
    · exact List.mem_cons_of_mem _ (mem_takesDown l n k h1 (by omega))

/-- the home scope is one of the scopes searched -/
theorem home_mem_scopes (pkg ctx tgtPkg tgt : Path) :
    home pkg ctx tgtPkg tgt ∈ scopes pkg ctx := by
  unfold home scopes
  split
  · simp
  · rw [stripCommon_eq_drop, List.length_drop]
    have hle := commonLen_le_ctx tgt ctx
    by_cases hne : tgt = []
    · subst hne
      simp only [commonLen, List.length_nil, Nat.sub_self, List.take_nil, List.append_nil]
      by_cases hp : pkg = []
      · subst hp; simp
      · have : pkg.take pkg.length ∈ takesDown pkg pkg.length :=
          mem_takesDown pkg pkg.length pkg.length (List.length_pos_iff.mpr hp) (Nat.le_refl _)
        rw [List.take_length] at this
        simp [this]
    · have hlt := commonLen_lt_tgt tgt ctx hne
      have hk : tgt.length - (tgt.length - commonLen tgt ctx) = commonLen tgt ctx := by omega
      rw [hk, take_commonLen]
      by_cases h0 : commonLen tgt ctx = 0
      · rw [h0]
        simp only [List.take_zero, List.append_nil]
        by_cases hp : pkg = []
        · subst hp; simp
        · have : pkg.take pkg.length ∈ takesDown pkg pkg.length :=
            mem_takesDown pkg pkg.length pkg.length (List.length_pos_iff.mpr hp) (Nat.le_refl _)
          rw [List.take_length] at this
          simp [this]
      · apply List.mem_append_left
        apply List.mem_map.mpr
        exact ⟨_, mem_takesDown ctx ctx.length _ (by omega) hle, rfl⟩

/-- the printed name, read in the home scope, spells the target -/
theorem home_append_shortName (pkg ctx tgtPkg tgt : Path) (hne : tgt ≠ []) :
    home pkg ctx tgtPkg tgt ++ shortName pkg ctx tgtPkg tgt = tgtPkg ++ tgt ∧
    shortName pkg ctx tgtPkg tgt ≠ [] := by
  unfold home shortName
  split
  · simp [hne]
  · rename_i h
    have hp : pkg = tgtPkg := by simpa using h
    subst hp
    rw [stripCommon_eq_drop, List.length_drop]
    have hlt := commonLen_lt_tgt tgt ctx hne
    have hk : tgt.length - (tgt.length - commonLen tgt ctx) = commonLen tgt ctx := by omega
    rw [hk]
    constructor
    · simp [List.append_assoc]
    · intro h0
      have := congrArg List.length h0
      simp at this; omega

theorem split_at_mem {α} [DecidableEq α] (x : α) : ∀ (l : List α), x ∈ l →
    ∃ outer, l = l.takeWhile (· ≠ x) ++ x :: outer
  | [], h => by simp at h
  | y :: ys, h => by
    by_cases hy : y = x
    · subst hy; exact ⟨ys, by simp⟩
    · have hx : x ∈ ys := by
        rcases List.mem_cons.mp h with rfl | h'
        · exact absurd rfl hy
        · exact h'
      obtain ⟨outer, ho⟩ := split_at_mem x ys hx
      refine ⟨outer, ?_⟩
      rw [List.takeWhile_cons]
      simp only [ne_eq, hy, not_false_eq_true, decide_true, if_true, List.cons_append]
      exact congrArg _ ho

/-- scopes that do not capture are passed over -/
theorem resolveIn_skip (t : Tab) (only : Bool) (first : String) (rest : Path) :
    ∀ (inner more : List Path) (best : Option Res),
    (∀ pre ∈ inner, captures t only pre first (rest ≠ []) = false) →
    ∃ best', resolveIn t only first rest (inner ++ more) best = resolveIn t only first rest more best'
  | [], more, best, _ => ⟨best, rfl⟩
  | pre :: inner, more, best, h => by
    have hc := h pre (by simp)
    have hrest : ∀ p ∈ inner, captures t only p first (rest ≠ []) = false :=
      fun p hp => h p (by simp [hp])
    simp only [List.cons_append, resolveIn]
    unfold captures at hc
    unfold resolveRel
    cases hf : t.find (pre ++ [first]) with
    | none =>
      exact resolveIn_skip t only first rest inner more best hrest
    | some k =>
      simp only [hf] at hc
      by_cases hr : rest = []
      · subst hr
        simp only [ne_eq, not_true_eq_false, decide_false, Bool.false_eq_true, if_false, if_true] at hc ⊢
        simp only [Bool.or_false, hc, Bool.false_eq_true, if_false]
        exact resolveIn_skip t only first [] inner more _ hrest
      · simp only [ne_eq, hr, not_false_eq_true, decide_true, if_true] at hc
        simp only [hr, if_false, hc, Bool.not_false, if_true]
        exact resolveIn_skip t only first rest inner more best hrest

theorem takesDown_length (l : Path) : ∀ n, (takesDown l n).length = n
  | 0 => rfl
  | n + 1 => by simp [takesDown, takesDown_length l n]

theorem takesDown_split (l : Path) : ∀ (n k : Nat), 1 ≤ k → k ≤ n →
    takesDown l n = (takesDown l n).take (n - k) ++ l.take k :: takesDown l (k - 1)
  | 0, k, h1, h2 => by omega
  | n + 1, k, h1, h2 => by
    by_cases hk : k = n + 1
    · subst hk
      simp [takesDown]
    · have ih := takesDown_split l n k h1 (by omega)
      have e : n + 1 - k = (n - k) + 1 := by omega
      rw [e]
      simp only [takesDown, List.take_succ_cons, List.cons_append]
      exact congrArg _ ih

/-- in the same package the scopes split at the one the short name is relative to -/
theorem scopes_split_same (pkg ctx : Path) (k : Nat) (hk : k ≤ ctx.length) :
    ∃ outer, scopes pkg ctx = innerScopes pkg ctx k ++ (pkg ++ ctx.take k) :: outer := by
  unfold scopes innerScopes
  by_cases h0 : k = 0
  · subst h0
    have : (takesDown ctx ctx.length).take (ctx.length - 0) = takesDown ctx ctx.length := by
      apply List.take_of_length_le
      rw [takesDown_length]; omega
    rw [this]
    simp only [List.take_zero, List.append_nil]
    cases pkg with
    | nil => exact ⟨[], by simp [takesDown]⟩
    | cons p ps =>
      refine ⟨takesDown (p :: ps) ps.length ++ [[]], ?_⟩
      simp [takesDown]
  · have hs := takesDown_split ctx ctx.length k (by omega) hk
    refine ⟨(takesDown ctx (k - 1)).map (pkg ++ ·) ++ (takesDown pkg pkg.length ++ [[]]), ?_⟩
    conv => lhs; rw [hs]
    simp [List.map_append]

/-- The search finds the target in the scope `hm` if no earlier scope captures the name. -/
theorem resolve_of_split (t : Tab) (only : Bool) (pkg ctx tgtPkg tgt hm : Path)
    (first : String) (rest : Path) (inner outer : List Path)
    (hwf : SymtabWF t only tgtPkg tgt)
    (hsplit : scopes pkg ctx = inner ++ hm :: outer)
    (hinner : ∀ pre ∈ inner, captures t only pre first (rest ≠ []) = false)
    (hfull : hm ++ first :: rest = tgtPkg ++ tgt) :
    resolve t pkg ctx only (first :: rest) = some (tgtPkg ++ tgt) := by
  obtain ⟨hne, ⟨k, hk, hkt⟩, hanc, hpk⟩ := hwf
  unfold resolve
  simp only []
  rw [hsplit]
  obtain ⟨best', hskip⟩ := resolveIn_skip t only first rest inner (hm :: outer) none hinner
  rw [hskip]
  simp only [resolveIn, resolveRel]
  by_cases hr : rest = []
  · subst hr
    have : hm ++ [first] = tgtPkg ++ tgt := hfull
    rw [this, hk]
    simp only [if_true]
    cases only with
    | true =>
      simp only [if_true] at hkt
      simp [hkt]
    | false =>
      simp only [Bool.false_eq_true, if_false] at hkt
      simp [hkt]
  · have hlen : hm.length + 1 < (tgtPkg ++ tgt).length := by
      rw [← hfull]
      have : 0 < rest.length := List.length_pos_iff.mpr hr
      simp; omega
    have hpre : hm ++ [first] = (tgtPkg ++ tgt).take (hm.length + 1) := by
      rw [← hfull]
      have e : hm ++ first :: rest = (hm ++ [first]) ++ rest := by simp
      rw [e, List.take_left' (by simp)]
    have hagg : ∃ k', t.find (hm ++ [first]) = some k' ∧ k'.isAggregate = true := by
      rw [hpre]
      have hmpos : 0 < hm.length + 1 := by omega
      generalize hm.length + 1 = m at hlen hmpos
      by_cases hmp : m ≤ tgtPkg.length
      · refine ⟨.ns, ?_, rfl⟩
        rw [List.take_append_of_le_length hmp]
        exact hpk m hmpos hmp
      · refine ⟨.msg, ?_, rfl⟩
        have hj : (tgtPkg ++ tgt).take m = tgtPkg ++ tgt.take (m - tgtPkg.length) := by
          rw [List.take_append]
          have : tgtPkg.take m = tgtPkg := List.take_of_length_le (by omega)
          rw [this]
        rw [hj]
        apply hanc
        · omega
        · simp at hlen; omega
    obtain ⟨k', hk', hagg'⟩ := hagg
    rw [hk', hfull, hk]
    simp only [hr, if_false, hagg', Bool.not_true, Bool.false_eq_true]
    have hcond : (!only || k.isType || decide (rest ≠ [])) = true := by simp [hr]
    simp only [hcond, if_true]
    cases only with
    | true => simpa using hkt
    | false => simpa using hkt

theorem scopes_eq_below (pkg scope : Path) : scopes pkg scope = scopesBelowRoot pkg scope ++ [[]] := by
  unfold scopes scopesBelowRoot
  simp [List.append_assoc]

/-- A package-qualified name of another package, written without leading dot, is found at the root
when no scope below the root declares its first component. -/
theorem resolve_cross (t : Tab) (only : Bool) (ctxPkg ctx tgtPkg tgt : Path) (first : String) (rest : Path)
    (hwf : SymtabWF t only tgtPkg tgt) (hname : tgtPkg ++ tgt = first :: rest)
    (hnd : ∀ pre ∈ scopesBelowRoot ctxPkg ctx, declares t pre first = false) :
    resolve t ctxPkg ctx only (first :: rest) = some (tgtPkg ++ tgt) := by
  apply resolve_of_split t only ctxPkg ctx tgtPkg tgt [] first rest (scopesBelowRoot ctxPkg ctx) [] hwf
    (scopes_eq_below ctxPkg ctx)
  · intro pre hpre
    have hd := hnd pre hpre
    unfold declares at hd
    unfold captures
    cases hf : t.find (pre ++ [first]) with
    | none => rfl
    | some k => simp [hf] at hd
  · simpa using hname.symm

/-- a fully qualified (leading dot) name of a declared target is read as the target -/
theorem resolveName_abs (t : Tab) (only : Bool) (pkg ctx tgtPkg tgt : Path)
    (hwf : SymtabWF t only tgtPkg tgt) :
    resolveName t pkg ctx only ⟨true, tgtPkg ++ tgt⟩ = some (tgtPkg ++ tgt) := by
  obtain ⟨kk, hk, hkt⟩ := hwf.2.1
  unfold resolveName
  simp only [if_true, hk]
  cases only with
  | true => simp only [if_true] at hkt ⊢; simp [hkt]
  | false => simp only [Bool.false_eq_true, if_false] at hkt ⊢; simp [hkt]

end J5V.Print.RefName
