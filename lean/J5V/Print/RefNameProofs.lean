import J5V.Print.RefName
/-! Lemmas about `J5V.Print.RefName` (core only). -/
namespace J5V.Print.RefName

/-- number of components `stripCommon` removes -/
def commonLen : Path → Path → Nat
  | r :: rs, c :: cs => if rs ≠ [] ∧ r = c then commonLen rs cs + 1 else 0
  | _, _ => 0

theorem stripCommon_eq_drop : ∀ (tgt ctx : Path), stripCommon tgt ctx = tgt.drop (commonLen tgt ctx)
  | [], _ => by simp [stripCommon, commonLen]
  | _ :: _, [] => by simp [stripCommon, commonLen]
  | r :: rs, c :: cs => by
    unfold stripCommon commonLen
    split
    · simp [stripCommon_eq_drop rs cs]
    · simp

theorem commonLen_le_ctx : ∀ (tgt ctx : Path), commonLen tgt ctx ≤ ctx.length
  | [], _ => by simp [commonLen]
  | _ :: _, [] => by simp [commonLen]
  | r :: rs, c :: cs => by
    unfold commonLen
    split
    · have := commonLen_le_ctx rs cs; simp; omega
    · simp

theorem commonLen_lt_tgt : ∀ (tgt ctx : Path), tgt ≠ [] → commonLen tgt ctx < tgt.length
  | [], _, h => absurd rfl h
  | _ :: _, [], _ => by simp [commonLen]
  | r :: rs, c :: cs, _ => by
    unfold commonLen
    split
    · rename_i h
      have := commonLen_lt_tgt rs cs h.1; simp; omega
    · simp

theorem take_commonLen : ∀ (tgt ctx : Path),
    tgt.take (commonLen tgt ctx) = ctx.take (commonLen tgt ctx)
  | [], _ => by simp [commonLen]
  | _ :: _, [] => by simp [commonLen]
  | r :: rs, c :: cs => by
    unfold commonLen
    split
    · rename_i h
      simp [take_commonLen rs cs, h.2]
    · simp

theorem mem_takesDown (l : Path) : ∀ (n k : Nat), 0 < k → k ≤ n → l.take k ∈ takesDown l n
  | 0, k, h1, h2 => by omega
  | n + 1, k, h1, h2 => by
    unfold takesDown
    by_cases hk : k = n + 1
    · subst hk; simp
    · exact List.mem_cons_of_mem _ (mem_takesDown l n k h1 (by omega))

/-- the home scope is one of the scopes searched -/
theorem home_mem_scopes (pkg ctx tgtPkg tgt : Path) :
    home pkg ctx tgtPkg tgt ∈ scopes pkg ctx := by
  unfold home scopes
  split
  · simp
  · rw [stripCommon_eq_drop, List.length_drop]
    have hle := commonLen_le_ctx tgt ctx
    by_cases hne : tgt = []
    · subst hne
      simp only [commonLen, List.length_nil, Nat.sub_self, List.take_nil, List.append_nil]
      by_cases hp : pkg = []
      · subst hp; simp
      · have : pkg.take pkg.length ∈ takesDown pkg pkg.length :=
          mem_takesDown pkg pkg.length pkg.length (List.length_pos_iff.mpr hp) (Nat.le_refl _)
        rw [List.take_length] at this
        simp [this]
    · have hlt := commonLen_lt_tgt tgt ctx hne
      have hk : tgt.length - (tgt.length - commonLen tgt ctx) = commonLen tgt ctx := by omega
      rw [hk, take_commonLen]
      by_cases h0 : commonLen tgt ctx = 0
      · rw [h0]
        simp only [List.take_zero, List.append_nil]
        by_cases hp : pkg = []
        · subst hp; simp
        · have : pkg.take pkg.length ∈ takesDown pkg pkg.length :=
            mem_takesDown pkg pkg.length pkg.length (List.length_pos_iff.mpr hp) (Nat.le_refl _)
          rw [List.take_length] at this
          simp [this]
      · apply List.mem_append_left
        apply List.mem_map.mpr
        exact ⟨_, mem_takesDown ctx ctx.length _ (by omega) hle, rfl⟩

/-- the printed name, read in the home scope, spells the target -/
theorem home_append_refName (pkg ctx tgtPkg tgt : Path) (hne : tgt ≠ []) :
    home pkg ctx tgtPkg tgt ++ refName pkg ctx tgtPkg tgt = tgtPkg ++ tgt ∧
    refName pkg ctx tgtPkg tgt ≠ [] := by
  unfold home refName
  split
  · simp [hne]
  · rename_i h
    have hp : pkg = tgtPkg := by simpa using h
    subst hp
    rw [stripCommon_eq_drop, List.length_drop]
    have hlt := commonLen_lt_tgt tgt ctx hne
    have hk : tgt.length - (tgt.length - commonLen tgt ctx) = commonLen tgt ctx := by omega
    rw [hk]
    constructor
    · simp [List.append_assoc]
    · intro h0
      have := congrArg List.length h0
      simp at this; omega

theorem split_at_mem {α} [DecidableEq α] (x : α) : ∀ (l : List α), x ∈ l →
    ∃ outer, l = l.takeWhile (· ≠ x) ++ x :: outer
  | [], h => by simp at h
  | y :: ys, h => by
    by_cases hy : y = x
    · subst hy; exact ⟨ys, by simp⟩
    · have hx : x ∈ ys := by
        rcases List.mem_cons.mp h with rfl | h'
        · exact absurd rfl hy
        · exact h'
      obtain ⟨outer, ho⟩ := split_at_mem x ys hx
      refine ⟨outer, ?_⟩
      rw [List.takeWhile_cons]
      simp only [ne_eq, hy, not_false_eq_true, decide_true, if_true, List.cons_append]
      exact congrArg _ ho

/-- scopes that do not capture are passed over -/
theorem resolveIn_skip (t : Tab) (only : Bool) (first : String) (rest : Path) :
    ∀ (inner more : List Path) (best : Option Res),
    (∀ pre ∈ inner, captures t only pre first (rest ≠ []) = false) →
    ∃ best', resolveIn t only first rest (inner ++ more) best = resolveIn t only first rest more best'
  | [], more, best, _ => ⟨best, rfl⟩
  | pre :: inner, more, best, h => by
    have hc := h pre (by simp)
    have hrest : ∀ p ∈ inner, captures t only p first (rest ≠ []) = false :=
      fun p hp => h p (by simp [hp])
    simp only [List.cons_append, resolveIn]
    unfold captures at hc
    unfold resolveRel
    cases hf : t.find (pre ++ [first]) with
    | none =>
      exact resolveIn_skip t only first rest inner more best hrest
    | some k =>
      simp only [hf] at hc
      by_cases hr : rest = []
      · subst hr
        simp only [ne_eq, not_true_eq_false, decide_false, Bool.false_eq_true, if_false, if_true] at hc ⊢
        simp only [Bool.or_false, hc, Bool.false_eq_true, if_false]
        exact resolveIn_skip t only first [] inner more _ hrest
      · simp only [ne_eq, hr, not_false_eq_true, decide_true, if_true] at hc
        simp only [hr, if_false, hc, Bool.not_false, if_true]
        exact resolveIn_skip t only first rest inner more best hrest

end J5V.Print.RefName
