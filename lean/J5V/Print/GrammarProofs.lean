import J5V.Print.Grammar
import J5V.Print.ScalarProofs
/-!
# Lemmas about `J5V.Print.Grammar` (core only)

Part 1: the tokeniser. Fuel does not matter once it exceeds the input (`lexAux_fuel`), tokenising
is local to a line (`lexL_line`), and the printed shapes — indentation, identifiers, dotted names,
numbers, punctuation — are read as the intended tokens.
-/
namespace J5V.Print.Grammar
open J5V.Print.Scalar

/-! ## the scanner does not depend on its fuel -/

theorem numRest_length : ∀ (cs : List Char) (prev : Char), (numRest cs prev).2.length ≤ cs.length
  | [], _ => by simp [numRest]
  | c :: cs, prev => by
    unfold numRest
    split
    · have := numRest_length cs c
      simp only [List.length_cons]
      omega
    · simp

theorem strRest_length (cs : List Char) : (strRest cs).2.length ≤ cs.length := by
  fun_induction strRest cs <;> simp_all <;> omega

theorem dropWhile_length_le {α} (p : α → Bool) : ∀ l : List α, (l.dropWhile p).length ≤ l.length
  | [] => by simp
  | x :: xs => by
    simp only [List.dropWhile_cons]
    split
    · have := dropWhile_length_le p xs; simp only [List.length_cons]; omega
    · simp

/-- with more fuel than characters, the amount of fuel does not matter -/
theorem lexAux_fuel : ∀ (f f' : Nat) (cs : List Char) (line : Nat), cs.length < f → cs.length < f' →
    lexAux f cs line = lexAux f' cs line
  | 0, _, _, _, h, _ => by omega
  | _ + 1, 0, _, _, _, h => by omega
  | f + 1, f' + 1, [], _, _, _ => by simp [lexAux]
  | f + 1, f' + 1, c :: cs, line, h, h' => by
    simp only [List.length_cons] at h h'
    have hd := dropWhile_length_le (· != '\n') cs
    have hi := dropWhile_length_le isIdentChar cs
    have hn := numRest_length cs c
    have hs := strRest_length cs
    simp only [lexAux]
    split
    · exact lexAux_fuel f f' cs _ (by omega) (by omega)
    · split
      · exact lexAux_fuel f f' cs _ (by omega) (by omega)
      · split
        · rw [lexAux_fuel f f' _ _ (by omega) (by omega)]
        · split
          · rw [lexAux_fuel f f' _ _ (by omega) (by omega)]
          · split
            · rw [lexAux_fuel f f' _ _ (by omega) (by omega)]
            · split
              · rw [lexAux_fuel f f' _ _ (by omega) (by omega)]
              · rw [lexAux_fuel f f' cs _ (by omega) (by omega)]

/-- the scanner with enough fuel -/
def lexL (cs : List Char) (line : Nat) : List Raw := lexAux (cs.length + 1) cs line

theorem lexAux_eq_lexL (f : Nat) (cs : List Char) (line : Nat) (h : cs.length < f) : lexAux f cs line = lexL cs line :=
  lexAux_fuel f (cs.length + 1) cs line h (by omega)

theorem lexL_nil (line : Nat) : lexL [] line = [] := by simp [lexL, lexAux]

/-- one step of the scanner, without fuel -/
theorem lexL_cons (c : Char) (cs : List Char) (line : Nat) :
    lexL (c :: cs) line =
      if c == '\n' then lexL cs (line + 1)
      else if c == ' ' || c == '\t' || c == '\r' then lexL cs line
      else if c == '/' && cs.head? == some '/' then
        .comment (String.ofList ((cs.drop 1).takeWhile (· != '\n'))) line :: lexL (cs.dropWhile (· != '\n')) line
      else if isLetter c then
        .tok (.ident (String.ofList (c :: cs.takeWhile isIdentChar))) line :: lexL (cs.dropWhile isIdentChar) line
      else if isDigit c then
        .tok (.num (String.ofList (c :: (numRest cs c).1))) line :: lexL (numRest cs c).2 line
      else if c == '"' then
        .tok (.str (String.ofList ('"' :: (strRest cs).1))) line :: lexL (strRest cs).2 line
      else .tok (.sym c) line :: lexL cs line := by
  have hd := dropWhile_length_le (· != '\n') cs
  have hi := dropWhile_length_le isIdentChar cs
  have hn := numRest_length cs c
  have hs := strRest_length cs
  unfold lexL
  simp only [List.length_cons, lexAux]
  split
  · exact lexAux_fuel _ _ cs _ (by omega) (by omega)
  · split
    · exact lexAux_fuel _ _ cs _ (by omega) (by omega)
    · split
      · rw [lexAux_fuel _ ((cs.dropWhile (· != '\n')).length + 1) _ _ (by omega) (by omega)]
      · split
        · rw [lexAux_fuel _ ((cs.dropWhile isIdentChar).length + 1) _ _ (by omega) (by omega)]
        · split
          · rw [lexAux_fuel _ ((numRest cs c).2.length + 1) _ _ (by omega) (by omega)]
          · split
            · rw [lexAux_fuel _ ((strRest cs).2.length + 1) _ _ (by omega) (by omega)]
            · rw [lexAux_fuel _ (cs.length + 1) cs _ (by omega) (by omega)]

/-! ## tokenising is local to a line -/

theorem takeWhile_append_stop {α} (p : α → Bool) (x : α) (hx : p x = false) :
    ∀ (a b : List α), (a ++ x :: b).takeWhile p = a.takeWhile p
  | [], b => by simp [List.takeWhile_cons, hx]
  | y :: ys, b => by
    simp only [List.cons_append, List.takeWhile_cons]
    split
    · rw [takeWhile_append_stop p x hx ys b]
    · rfl

theorem dropWhile_append_stop {α} (p : α → Bool) (x : α) (hx : p x = false) :
    ∀ (a b : List α), (a ++ x :: b).dropWhile p = a.dropWhile p ++ x :: b
  | [], b => by simp [List.dropWhile_cons, hx]
  | y :: ys, b => by
    simp only [List.cons_append, List.dropWhile_cons]
    split
    · rw [dropWhile_append_stop p x hx ys b]
    · rfl

theorem numRest_append_nl (rest : List Char) : ∀ (cs : List Char) (prev : Char),
    numRest (cs ++ '\n' :: rest) prev = ((numRest cs prev).1, (numRest cs prev).2 ++ '\n' :: rest)
  | [], prev => by
    simp only [List.nil_append, numRest]
    have : (isIdentChar '\n' || '\n' == '.' || ('\n' == '+' || '\n' == '-') && (prev == 'e' || prev == 'E')) = false := by
      have h1 : isIdentChar '\n' = false := by decide
      have h2 : ('\n' == '.') = false := by decide
      have h3 : ('\n' == '+') = false := by decide
      have h4 : ('\n' == '-') = false := by decide
      simp only [h1, h2, h3, h4, Bool.false_or, Bool.or_self, Bool.false_and]
    rw [if_neg (by rw [this]; simp)]
  | c :: cs, prev => by
    simp only [List.cons_append, numRest]
    split
    · rw [numRest_append_nl rest cs c]
    · simp

theorem strRest_append_nl (rest : List Char) (cs : List Char) :
    strRest (cs ++ '\n' :: rest) = ((strRest cs).1, (strRest cs).2 ++ '\n' :: rest) := by
  fun_induction strRest cs with
  | case1 => simp [strRest]
  | case2 cs => simp [strRest]
  | case3 c cs hne w r hwr ih =>
    simp only [List.cons_append]
    rw [strRest]
    · rw [ih, hwr]
    · exact hne
  | case4 cs => simp [strRest]
  | case5 cs => simp [strRest]
  | case6 c cs h1 h2 h3 h4 w r hwr ih =>
    simp only [List.cons_append]
    cases cs with
    | nil =>
      simp only [List.nil_append]
      by_cases hb : c = '\\'
      · subst hb
        simp [strRest] at hwr ⊢
        simp [hwr]
      · rw [strRest] <;> try assumption
        · simp [strRest] at hwr ⊢
          simp [hwr]
        all_goals (intros; simp_all)
    | cons d ds =>
      simp only [List.cons_append] at ih ⊢
      rw [strRest]
      · rw [ih, hwr]
      all_goals (intros; simp_all)

def NoNL (l : List Char) : Prop := ∀ c ∈ l, c ≠ '\n'

theorem numRest_subset : ∀ (cs : List Char) (prev : Char) (x : Char), x ∈ (numRest cs prev).2 → x ∈ cs
  | [], _, x, h => by simp [numRest] at h
  | c :: cs, prev, x, h => by
    unfold numRest at h
    split at h
    · exact List.mem_cons_of_mem _ (numRest_subset cs c x h)
    · exact h

theorem strRest_subset (cs : List Char) : ∀ x, x ∈ (strRest cs).2 → x ∈ cs := by
  fun_induction strRest cs <;> simp_all
  all_goals (intro x hx; simp_all)

theorem NoNL.dropWhile {l : List Char} (h : NoNL l) (p : Char → Bool) : NoNL (l.dropWhile p) :=
  fun c hc => h c (List.Sublist.mem hc (List.dropWhile_sublist p))

theorem lexL_line : ∀ (n : Nat) (l : List Char), l.length = n → NoNL l → ∀ (rest : List Char) (line : Nat),
    lexL (l ++ '\n' :: rest) line = lexL l line ++ lexL rest (line + 1) := by
  intro n
  induction n using Nat.strongRecOn with
  | _ n ih =>
    intro l hl hnl rest line
    cases l with
    | nil => simp [lexL_cons, lexL_nil]
    | cons c cs =>
      have hc : c ≠ '\n' := hnl c (by simp)
      have hcs : NoNL cs := fun x hx => hnl x (by simp [hx])
      simp only [List.length_cons] at hl
      have hnl' : (c == '\n') = false := by simp [hc]
      have hhead : ((cs ++ '\n' :: rest).head? == some '/') = (cs.head? == some '/') := by
        cases cs with
        | nil => simp
        | cons d ds => simp
      have hstopN : (fun x : Char => x != '\n') '\n' = false := by simp
      have hstopI : isIdentChar '\n' = false := by decide
      simp only [List.cons_append]
      rw [lexL_cons c (cs ++ '\n' :: rest), lexL_cons c cs]
      simp only [hnl', Bool.false_eq_true, if_false, hhead]
      split
      · exact ih cs.length (by omega) cs rfl hcs rest line
      · split
        · have hdrop : ((cs ++ '\n' :: rest).drop 1).takeWhile (· != '\n') = (cs.drop 1).takeWhile (· != '\n') := by
            cases cs with
            | nil => rename_i h; simp at h
            | cons d ds => simp only [List.cons_append, List.drop_succ_cons, List.drop_zero]; exact takeWhile_append_stop (fun x : Char => x != '\n') '\n' (by simp) ds rest
          rw [hdrop, dropWhile_append_stop (fun x : Char => x != '\n') '\n' (by simp) cs rest]
          have hlen := dropWhile_length_le (· != '\n') cs
          rw [ih _ (by omega) _ rfl (hcs.dropWhile _) rest line]
          rfl
        · split
          · rw [takeWhile_append_stop isIdentChar '\n' hstopI cs rest, dropWhile_append_stop isIdentChar '\n' hstopI cs rest]
            have hlen := dropWhile_length_le isIdentChar cs
            rw [ih _ (by omega) _ rfl (hcs.dropWhile _) rest line]
            rfl
          · split
            · rw [numRest_append_nl rest cs c]
              have hlen := numRest_length cs c
              have hsub : NoNL (numRest cs c).2 := fun x hx => hcs x (numRest_subset cs c x hx)
              simp only []
              rw [ih _ (by omega) _ rfl hsub rest line]
              rfl
            · split
              · rw [strRest_append_nl rest cs]
                have hlen := strRest_length cs
                have hsub : NoNL (strRest cs).2 := fun x hx => hcs x (strRest_subset cs x hx)
                simp only []
                rw [ih _ (by omega) _ rfl hsub rest line]
                rfl
              · rw [ih cs.length (by omega) cs rfl hcs rest line]
                rfl

/-! ## the printed shapes, as the scanner reads them -/

/-- an identifier: a letter or `_`, then letters, digits, `_` -/
def IsIdent (s : String) : Prop :=
  ∃ c cs, s.toList = c :: cs ∧ isLetter c = true ∧ ∀ x ∈ cs, isIdentChar x = true

/-- what follows a number: nothing, or a character that cannot continue it -/
def Stops (rest : List Char) : Prop := ∀ c r, rest = c :: r → isIdentChar c = false ∧ c ≠ '.'

/-- what follows a word: nothing, or a character that cannot continue it -/
def StopsI (rest : List Char) : Prop := ∀ c r, rest = c :: r → isIdentChar c = false

theorem takeWhile_all {α} (p : α → Bool) : ∀ (l rest : List α), (∀ x ∈ l, p x = true) →
    (∀ c r, rest = c :: r → p c = false) → (l ++ rest).takeWhile p = l ∧ (l ++ rest).dropWhile p = rest
  | [], rest, _, hr => by
    cases rest with
    | nil => simp
    | cons c r => simp [List.takeWhile_cons, List.dropWhile_cons, hr c r rfl]
  | x :: xs, rest, hl, hr => by
    have hx := hl x (by simp)
    have := takeWhile_all p xs rest (fun y hy => hl y (by simp [hy])) hr
    simp [List.takeWhile_cons, List.dropWhile_cons, hx, this.1, this.2]

theorem lexL_space (cs : List Char) (line : Nat) : lexL (' ' :: cs) line = lexL cs line := by
  rw [lexL_cons]; simp

theorem lexL_spaces (k : Nat) (cs : List Char) (line : Nat) : lexL (List.replicate k ' ' ++ cs) line = lexL cs line := by
  induction k with
  | zero => simp
  | succ k ih => simp only [List.replicate_succ, List.cons_append, lexL_space, ih]

theorem isLetter_not_special {c : Char} (h : isLetter c = true) :
    (c == '\n') = false ∧ (c == ' ' || c == '\t' || c == '\r') = false ∧ (c == '/') = false := by
  unfold isLetter at h
  refine ⟨?_, ?_, ?_⟩
  · cases hc : (c == '\n') with
    | false => rfl
    | true => rw [beq_iff_eq.mp hc] at h; revert h; decide
  · cases hc : (c == ' ' || c == '\t' || c == '\r') with
    | false => rfl
    | true =>
      simp only [Bool.or_eq_true, beq_iff_eq] at hc
      rcases hc with (hc | hc) | hc <;> (rw [hc] at h; revert h; decide)
  · cases hc : (c == '/') with
    | false => rfl
    | true => rw [beq_iff_eq.mp hc] at h; revert h; decide

/-- a word followed by something that ends it is one `ident` token -/
theorem lexL_ident (s : String) (hs : IsIdent s) (rest : List Char) (hr : StopsI rest) (line : Nat) :
    lexL (s.toList ++ rest) line = .tok (.ident s) line :: lexL rest line := by
  obtain ⟨c, cs, hcs, hc, hall⟩ := hs
  obtain ⟨h1, h2, h3⟩ := isLetter_not_special hc
  rw [hcs, List.cons_append, lexL_cons]
  have ht := takeWhile_all isIdentChar cs rest hall hr
  simp only [h1, h2, h3, Bool.false_eq_true, if_false, Bool.false_and, hc, if_true, ht.1, ht.2]
  rw [← hcs, String.ofList_toList]

/-- punctuation of the printed subset -/
def isSym (c : Char) : Bool :=
  c == '=' || c == ';' || c == '{' || c == '}' || c == '.' || c == '<' || c == '>' || c == ',' || c == '-' ||
  c == '(' || c == ')' || c == '[' || c == ']' || c == ':'

theorem lexL_sym (c : Char) (h : isSym c = true) (cs : List Char) (line : Nat) :
    lexL (c :: cs) line = .tok (.sym c) line :: lexL cs line := by
  unfold isSym at h
  simp only [Bool.or_eq_true, beq_iff_eq] at h
  rw [lexL_cons]
  rcases h with ((((((((((((h | h) | h) | h) | h) | h) | h) | h) | h) | h) | h) | h) | h) | h <;>
    subst h <;> simp [isLetter, isDigit] <;> decide

theorem isDigit_digitChar : ∀ d, d < 10 → isDigit (digitChar d) = true := by decide

theorem natDigits_all_digits (n : Nat) : ∀ x ∈ natDigits n, isDigit x = true := by
  induction n using Nat.strongRecOn with
  | _ n ih =>
    unfold natDigits
    split
    · rename_i h
      intro x hx
      simp only [List.mem_singleton] at hx
      subst hx
      exact isDigit_digitChar n h
    · rename_i h
      intro x hx
      rcases List.mem_append.mp hx with hx | hx
      · exact ih (n / 10) (by omega) x hx
      · simp only [List.mem_singleton] at hx
        subst hx
        exact isDigit_digitChar _ (by omega)

theorem isDigit_facts {c : Char} (h : isDigit c = true) :
    isIdentChar c = true ∧ (c == 'e' || c == 'E') = false ∧ isLetter c = false ∧
    (c == '\n') = false ∧ (c == ' ' || c == '\t' || c == '\r') = false ∧ (c == '/') = false := by
  have hne : ∀ x : Char, isDigit x = false → (c == x) = false := by
    intro x hx
    cases hc : (c == x) with
    | false => rfl
    | true => rw [beq_iff_eq.mp hc] at h; rw [h] at hx; exact absurd hx (by simp)
  refine ⟨by simp [isIdentChar, h], ?_, ?_, hne _ (by decide), ?_, hne _ (by decide)⟩
  · simp [hne 'e' (by decide), hne 'E' (by decide)]
  · -- a digit is not a letter
    unfold isDigit at h
    unfold isLetter
    simp only [Bool.and_eq_true, decide_eq_true_eq] at h
    have e : ∀ a b : Char, a ≤ b ↔ a.toNat ≤ b.toNat := by
      intro a b; rw [Char.le_def, UInt32.le_iff_toNat_le]; rfl
    have h0 := (e _ _).mp h.1
    have h1 := (e _ _).mp h.2
    have n0 : ('0' : Char).toNat = 48 := by decide
    have n9 : ('9' : Char).toNat = 57 := by decide
    have na : ('a' : Char).toNat = 97 := by decide
    have nA : ('A' : Char).toNat = 65 := by decide
    have nZ : ('Z' : Char).toNat = 90 := by decide
    have a1 : ¬ ('a' ≤ c) := by rw [e]; omega
    have a2 : ¬ ('A' ≤ c ∧ c ≤ 'Z') := by rw [e, e]; omega
    have a2' : ('A' ≤ c) → ¬ (c ≤ 'Z') := fun x y => a2 ⟨x, y⟩
    simp only [a1, decide_false, Bool.false_and, Bool.false_or, hne '_' (by decide), Bool.or_false,
      Bool.and_eq_false_iff, decide_eq_false_iff_not]
    by_cases hA : 'A' ≤ c
    · exact Or.inr (a2' hA)
    · exact Or.inl hA
  · simp [hne ' ' (by decide), hne '\t' (by decide), hne '\r' (by decide)]

theorem numRest_digits : ∀ (ds rest : List Char) (prev : Char), (∀ x ∈ ds, isDigit x = true) → isDigit prev = true →
    Stops rest → numRest (ds ++ rest) prev = (ds, rest)
  | [], rest, prev, _, hp, hr => by
    cases rest with
    | nil => simp [numRest]
    | cons c r =>
      obtain ⟨h1, h2⟩ := hr c r rfl
      have h3 := (isDigit_facts hp).2.1
      simp only [List.nil_append, numRest]
      have : (c == '.') = false := by simp [h2]
      simp [h1, this, h3]
  | d :: ds, rest, prev, hd, _, hr => by
    have hdd := hd d (by simp)
    have := numRest_digits ds rest d (fun x hx => hd x (by simp [hx])) hdd hr
    simp only [List.cons_append, numRest, (isDigit_facts hdd).1, Bool.true_or, if_true, this]

/-- a decimal number followed by something that ends it is one `num` token -/
theorem lexL_natDigits (n : Nat) (rest : List Char) (hr : Stops rest) (line : Nat) :
    lexL (natDigits n ++ rest) line = .tok (.num (String.ofList (natDigits n))) line :: lexL rest line := by
  obtain ⟨d, tl, hd, hlt⟩ := natDigits_head_digit n
  have hall := natDigits_all_digits n
  rw [hd] at hall ⊢
  have hdig := hall (digitChar d) (by simp)
  obtain ⟨_, _, h3, h4, h5, h6⟩ := isDigit_facts hdig
  rw [List.cons_append, lexL_cons]
  have hn := numRest_digits tl rest (digitChar d) (fun x hx => hall x (by simp [hx])) hdig hr
  simp only [h3, h4, h5, h6, Bool.false_eq_true, if_false, Bool.false_and, hdig, if_true, hn]

/-- the body of a string literal the printer writes without escaping (`syntax`, import paths) -/
def PlainBody (body : List Char) : Prop := ∀ c ∈ body, c ≠ '"' ∧ c ≠ '\\' ∧ c ≠ '\n'

theorem strRest_plain : ∀ (body rest : List Char), PlainBody body → strRest (body ++ '"' :: rest) = (body ++ ['"'], rest)
  | [], rest, _ => by simp [strRest]
  | c :: cs, rest, h => by
    obtain ⟨h1, h2, h3⟩ := h c (by simp)
    have ih := strRest_plain cs rest (fun x hx => h x (by simp [hx]))
    simp only [List.cons_append]
    rw [strRest]
    · rw [ih]
    · intro cs' hc; exact absurd hc h2
    · intro c' cs' hc; exact absurd hc h2
    · exact h1
    · exact h3

theorem lexL_str (body rest : List Char) (h : PlainBody body) (line : Nat) :
    lexL ('"' :: body ++ '"' :: rest) line =
      .tok (.str (String.ofList ('"' :: body ++ ['"']))) line :: lexL rest line := by
  rw [List.cons_append, lexL_cons, strRest_plain body rest h]
  simp [isLetter, isDigit]

/-- a comment line -/
theorem lexL_comment (text : List Char) (h : NoNL text) (line : Nat) :
    lexL ('/' :: '/' :: text) line = [.comment (String.ofList text) line] := by
  rw [lexL_cons]
  have ht := takeWhile_all (fun x : Char => x != '\n') text [] (fun x hx => by simp [h x hx]) (by simp)
  simp only [List.append_nil] at ht
  have hd : ('/' :: text).dropWhile (fun x : Char => x != '\n') = [] := by
    simp only [List.dropWhile_cons]
    simp [ht.2]
  simp only [List.head?_cons, List.drop_succ_cons, List.drop_zero, ht.1, hd, lexL_nil]
  simp

/-! ## Part 2: the parser on the token shapes of fields -/

/-- a token without comments around it -/
def T (t : Tok) (l : Nat) : PTok := ⟨t, l, Cm.none⟩

/-- `first.r₁.r₂…` as `typeNameAux` assembles it -/
def dotted (first : String) (rest : List String) : String := rest.foldl (fun acc s => acc ++ "." ++ s) first

/-- the tokens of `.r₁.r₂…` -/
def dotToks (rest : List String) (l : Nat) : List PTok :=
  (rest.map fun r => [T (.sym '.') l, T (.ident r) l]).flatten

/-- the next token is not a dot: the type name ends here -/
def NoDot (more : List PTok) : Prop := ∀ t r, more = t :: r → t.tok ≠ .sym '.'

theorem append_ne_empty (a b : String) (h : a ≠ "") : a ++ b ≠ "" := by
  intro he
  apply h
  have := congrArg String.toList he
  simp only [String.toList_append] at this
  have h2 : a.toList = [] := by
    cases hl : a.toList with
    | nil => rfl
    | cons x xs => rw [hl] at this; simp at this
  rw [← String.ofList_toList (s := a), h2]

theorem typeNameAux_dots (l : Nat) : ∀ (rest : List String) (acc : String) (more : List PTok) (fuel : Nat),
    rest.length < fuel → acc ≠ "" → NoDot more →
    typeNameAux fuel (dotToks rest l ++ more) acc = some (dotted acc rest, more)
  | [], acc, more, fuel + 1, _, hacc, hm => by
    simp only [dotToks, List.map_nil, List.flatten_nil, List.nil_append, dotted, List.foldl_nil]
    unfold typeNameAux
    split
    · exact absurd rfl (hm _ _ rfl)
    · simp [hacc]
  | r :: rs, acc, more, fuel + 1, hf, hacc, hm => by
    simp only [List.length_cons] at hf
    have ih := typeNameAux_dots l rs (acc ++ "." ++ r) more fuel (by omega) (by
      rw [String.append_assoc]; exact append_ne_empty _ _ hacc) hm
    simp only [dotToks, List.map_cons, List.flatten_cons, List.cons_append, List.nil_append, T] at ih ⊢
    unfold typeNameAux
    simp only [dotted, List.foldl_cons]
    exact ih
  | _, _, _, 0, hf, _, _ => by omega

/-- the tokens of a type name `[.]first.r₁.r₂…` -/
def tyToks (abs : Bool) (first : String) (rest : List String) (l : Nat) : List PTok :=
  (if abs then [T (.sym '.') l] else []) ++ T (.ident first) l :: dotToks rest l

/-- … and the name as `typeName` returns it -/
def tyStr (abs : Bool) (first : String) (rest : List String) : String :=
  dotted ((if abs then "." else "") ++ first) rest

theorem IsIdent.ne_empty {s : String} (h : IsIdent s) : s ≠ "" := by
  obtain ⟨c, cs, hcs, _, _⟩ := h
  intro he
  rw [he] at hcs
  simp at hcs

theorem typeName_toks (abs : Bool) (first : String) (rest : List String) (l : Nat) (more : List PTok)
    (hf : first ≠ "") (hm : NoDot more) :
    typeName (tyToks abs first rest l ++ more) = some (tyStr abs first rest, more) := by
  have hlen : ∀ pre : List PTok, rest.length < (pre ++ (dotToks rest l ++ more)).length + 1 := by
    intro pre
    simp only [List.length_append]
    have : (dotToks rest l).length = 2 * rest.length := by
      unfold dotToks
      induction rest with
      | nil => rfl
      | cons r rs ih => simp [List.flatten_cons, ih]; omega
    omega
  cases abs with
  | false =>
    simp only [tyToks, Bool.false_eq_true, if_false, List.nil_append, List.cons_append, tyStr, T]
    unfold typeName
    simp only []
    rw [String.empty_append]
    exact typeNameAux_dots l rest first more _ (hlen [_]) hf hm
  | true =>
    simp only [tyToks, if_true, List.cons_append, List.nil_append, tyStr, T]
    unfold typeName
    simp only []
    exact typeNameAux_dots l rest ("." ++ first) more _ (hlen [_, _]) (append_ne_empty _ _ (by decide)) hm

/-- the tokens of a number as the printer writes it -/
def numToks (n : Int) (l : Nat) : List PTok :=
  if n < 0 then [T (.sym '-') l, T (.num (String.ofList (natDigits n.natAbs))) l]
  else [T (.num (String.ofList (natDigits n.natAbs))) l]

/-- `= number ;` -/
def tailToks (n : Int) (l : Nat) : List PTok := T (.sym '=') l :: numToks n l ++ [T (.sym ';') l]

theorem intOf_natDigits (neg : Bool) (k : Nat) :
    intOf neg (String.ofList (natDigits k)) = some (if neg then -(k : Int) else (k : Int)) := by
  unfold intOf
  rw [String.toList_ofList, readNatLit_natDigits]
  rfl

theorem fieldTail_toks (n : Int) (l : Nat) (more : List PTok) :
    fieldTail (tailToks n l ++ more) = some (n, [], l, more) := by
  unfold fieldTail tailToks numToks
  by_cases hn : n < 0
  · simp only [hn, if_true, List.cons_append, List.nil_append, T, intOf_natDigits, Option.map_some]
    have : -(n.natAbs : Int) = n := by omega
    simp [this]
  · simp only [hn, if_false, List.cons_append, List.nil_append, T, intOf_natDigits, Option.map_some]
    have : (n.natAbs : Int) = n := by omega
    simp [this]

/-- the field as the reader finds it on line `l` -/
def locField (label ty name : String) (num : Int) (l : Nat) (trail : String) : Layout.FieldD :=
  ⟨.field, ⟨l, l, [], "", trail⟩, 0, label, ty, name, num,
    some (String.ofList (OptionText.defaultJSONName name.toList)), []⟩

theorem mkField_plain (l : Nat) (label ty name : String) (num : Int) (r : List PTok) :
    mkField .field l Cm.none label ty name (num, [], l, r) = (locField label ty name num l (trailOf r), r) := by
  simp [mkField, locField, mkLoc, Cm.none, jsonOf, mkOpts, groupOpts, unlocateShared]

/-- `type name = number;` after the label -/
theorem fieldAfterLabel_plain (t0 : PTok) (ht0 : t0.cm = Cm.none) (label : String) (abs : Bool) (first : String)
    (rest : List String) (name : String) (num : Int) (l : Nat) (hl : t0.line = l)
    (more : List PTok) (hf : IsIdent first) (hkw : abs = false → first ≠ "map") :
    fieldAfterLabel t0 label (tyToks abs first rest l ++ T (.ident name) l :: (tailToks num l ++ more)) =
      some (locField label (tyStr abs first rest) name num l (trailOf more), more) := by
  have hty := typeName_toks abs first rest l (T (.ident name) l :: (tailToks num l ++ more)) hf.ne_empty
    (by intro t r h; simp only [List.cons.injEq] at h; rw [← h.1]; simp [T])
  cases abs with
  | true =>
    simp only [tyToks, if_true, List.cons_append, List.nil_append, T] at hty ⊢
    simp only [fieldAfterLabel, plainField]
    rw [hty]
    simp only [fieldTail_toks, Option.map_some, hl, ht0, mkField_plain]
  | false =>
    have h3 := hkw rfl
    simp only [tyToks, Bool.false_eq_true, if_false, List.cons_append, List.nil_append, T] at hty ⊢
    simp only [fieldAfterLabel, plainField]
    split
    · rename_i s l1 c1 c l2 c2 r heq
      have hs : s = first := by
        simp only [List.cons.injEq, PTok.mk.injEq, Tok.ident.injEq] at heq
        exact heq.1.1.symm
      subst hs
      have hm : (s == "map" && c == '<') = false := by simp [h3]
      rw [hm, ← heq, hty]
      simp only [Bool.false_eq_true, if_false, fieldTail_toks, Option.map_some, hl, ht0, mkField_plain]
    · rw [hty]
      simp only [fieldTail_toks, Option.map_some, hl, ht0, mkField_plain]

/-- the tokens of a label -/
def labelToks (label : String) (l : Nat) : List PTok :=
  if label = "repeated " then [T (.ident "repeated") l]
  else if label = "optional " then [T (.ident "optional") l] else []

/-- a whole field line -/
def fieldLineToks (label : String) (abs : Bool) (first : String) (rest : List String) (name : String) (num : Int)
    (l : Nat) : List PTok :=
  labelToks label l ++ tyToks abs first rest l ++ T (.ident name) l :: tailToks num l

theorem parseField_toks (label : String) (hlab : label = "" ∨ label = "repeated " ∨ label = "optional ")
    (abs : Bool) (first : String) (rest : List String) (name : String) (num : Int) (l : Nat) (more : List PTok)
    (hf : IsIdent first) (hkw : abs = false → first ≠ "map")
    (hkw2 : label = "" → abs = false → first ≠ "repeated" ∧ first ≠ "optional") :
    parseField (fieldLineToks label abs first rest name num l ++ more) =
      some (locField label (tyStr abs first rest) name num l (trailOf more), more) := by
  unfold fieldLineToks
  rcases hlab with h | h | h
  · subst h
    have e : labelToks "" l = [] := by simp [labelToks]
    rw [e, List.nil_append]
    cases abs with
    | true =>
      have := fieldAfterLabel_plain (T (.sym '.') l) rfl "" true first rest name num l rfl more hf hkw
      simp only [tyToks, if_true, List.cons_append, List.nil_append, List.append_assoc] at this ⊢
      simp only [parseField, splitLabel, T] at this ⊢
      exact this
    | false =>
      obtain ⟨h1, h2⟩ := hkw2 rfl rfl
      have := fieldAfterLabel_plain (T (.ident first) l) rfl "" false first rest name num l rfl more hf hkw
      simp only [tyToks, Bool.false_eq_true, if_false, List.cons_append, List.nil_append, List.append_assoc] at this ⊢
      simp only [parseField, splitLabel, T, beq_iff_eq, h1, h2, if_false] at this ⊢
      exact this
  · subst h
    have e : labelToks "repeated " l = [T (.ident "repeated") l] := by simp [labelToks]
    rw [e]
    have := fieldAfterLabel_plain (T (.ident "repeated") l) rfl "repeated " abs first rest name num l rfl more hf hkw
    simp only [List.cons_append, List.nil_append, List.append_assoc, parseField, splitLabel, T, beq_self_eq_true, if_true] at this ⊢
    exact this
  · subst h
    have e : labelToks "optional " l = [T (.ident "optional") l] := by simp [labelToks]
    rw [e]
    have := fieldAfterLabel_plain (T (.ident "optional") l) rfl "optional " abs first rest name num l rfl more hf hkw
    have hne : ("optional" == "repeated") = false := by decide
    simp only [List.cons_append, List.nil_append, List.append_assoc, parseField, splitLabel, T, hne, beq_self_eq_true,
      Bool.false_eq_true, if_false, if_true] at this ⊢
    exact this

/-! ## Part 3: the printed lines, as tokens -/

def toP : Raw → Option PTok
  | .tok t l => some (T t l)
  | .comment _ _ => none

/-- the tokens on a line of text -/
def lineToks (s : String) (l : Nat) : List PTok := (lexL s.toList l).filterMap toP

theorem dotted_toList : ∀ (rest : List String) (acc : String),
    (dotted acc rest).toList = acc.toList ++ (rest.map fun r => '.' :: r.toList).flatten
  | [], acc => by simp [dotted]
  | r :: rs, acc => by
    have ih := dotted_toList rs (acc ++ "." ++ r)
    simp only [dotted, List.foldl_cons] at ih ⊢
    rw [ih]
    simp [String.toList_append]

theorem stopsI_dot (cs : List Char) : StopsI ('.' :: cs) := by
  intro c r h; simp only [List.cons.injEq] at h; rw [← h.1]; decide
theorem stopsI_space (cs : List Char) : StopsI (' ' :: cs) := by
  intro c r h; simp only [List.cons.injEq] at h; rw [← h.1]; decide
theorem stops_semi (cs : List Char) : Stops (';' :: cs) := by
  intro c r h; simp only [List.cons.injEq] at h; rw [← h.1]; decide
theorem stopsI_nil : StopsI [] := by intro c r h; simp at h

/-- `.r₁.r₂…` followed by something that ends the last word -/
theorem lexL_dots (l : Nat) : ∀ (rest : List String) (more : List Char), (∀ r ∈ rest, IsIdent r) → StopsI more →
    (lexL ((rest.map fun r => '.' :: r.toList).flatten ++ more) l).filterMap toP =
      dotToks rest l ++ (lexL more l).filterMap toP
  | [], more, _, _ => by simp [dotToks]
  | r :: rs, more, hr, hm => by
    have hstop : StopsI ((rs.map fun r => '.' :: r.toList).flatten ++ more) := by
      cases rs with
      | nil => simpa using hm
      | cons x xs => simp only [List.map_cons, List.flatten_cons, List.cons_append]; exact stopsI_dot _
    have ih := lexL_dots l rs more (fun x hx => hr x (by simp [hx])) hm
    simp only [List.map_cons, List.flatten_cons, List.cons_append, List.append_assoc]
    rw [lexL_sym '.' (by decide), lexL_ident r (hr r (by simp)) _ hstop]
    simp only [List.filterMap_cons, toP, ih, dotToks, List.map_cons, List.flatten_cons, List.cons_append,
      List.nil_append]

/-- a type name followed by something that ends its last word -/
theorem lexL_tyStr (abs : Bool) (first : String) (rest : List String) (more : List Char) (l : Nat)
    (hf : IsIdent first) (hr : ∀ r ∈ rest, IsIdent r) (hm : StopsI more) :
    (lexL ((tyStr abs first rest).toList ++ more) l).filterMap toP =
      tyToks abs first rest l ++ (lexL more l).filterMap toP := by
  have hstop : StopsI ((rest.map fun r => '.' :: r.toList).flatten ++ more) := by
    cases rest with
    | nil => simpa using hm
    | cons x xs => simp only [List.map_cons, List.flatten_cons, List.cons_append]; exact stopsI_dot _
  unfold tyStr
  rw [dotted_toList]
  cases abs with
  | false =>
    simp only [Bool.false_eq_true, if_false, String.empty_append, List.append_assoc]
    rw [lexL_ident first hf _ hstop]
    simp only [List.filterMap_cons, toP, lexL_dots l rest more hr hm, tyToks, Bool.false_eq_true, if_false,
      List.nil_append, List.cons_append]
  | true =>
    simp only [if_true, String.toList_append, List.append_assoc]
    have hd : (".".toList : List Char) = ['.'] := by decide
    rw [hd, List.cons_append, List.nil_append, lexL_sym '.' (by decide), lexL_ident first hf _ hstop]
    simp only [List.filterMap_cons, toP, lexL_dots l rest more hr hm, tyToks, if_true, List.cons_append,
      List.nil_append]

theorem isIdent_repeated : IsIdent "repeated" :=
  ⟨'r', ['e', 'p', 'e', 'a', 't', 'e', 'd'], by decide, by decide, by decide⟩
theorem isIdent_optional : IsIdent "optional" :=
  ⟨'o', ['p', 't', 'i', 'o', 'n', 'a', 'l'], by decide, by decide, by decide⟩

/-- `= number;` at the end of a line -/
theorem lexL_tail (num : Int) (l : Nat) :
    (lexL (' ' :: '=' :: ' ' :: ((formatInt num).toList ++ [';'])) l).filterMap toP = tailToks num l := by
  rw [lexL_space, lexL_sym '=' (by decide), lexL_space]
  unfold formatInt intDigits tailToks numToks
  rw [String.toList_ofList]
  by_cases hn : num < 0
  · simp only [hn, if_true, List.cons_append]
    rw [lexL_sym '-' (by decide), lexL_natDigits _ _ (stops_semi []), lexL_sym ';' (by decide), lexL_nil]
    simp [toP]
  · simp only [hn, if_false]
    rw [lexL_natDigits _ _ (stops_semi []), lexL_sym ';' (by decide), lexL_nil]
    simp [toP]

/-- the line of a field without options and comments, as tokens -/
theorem lineToks_field (n : Nat) (label : String) (hlab : label = "" ∨ label = "repeated " ∨ label = "optional ")
    (abs : Bool) (first : String) (rest : List String) (name : String) (num : Int) (l : Nat)
    (hf : IsIdent first) (hr : ∀ r ∈ rest, IsIdent r) (hn : IsIdent name) :
    lineToks (OptionText.ind n (label ++ tyStr abs first rest ++ " " ++ name ++ " = " ++ formatInt num ++ ";" ++ "")) l =
      fieldLineToks label abs first rest name num l := by
  unfold lineToks OptionText.ind fieldLineToks
  simp only [String.toList_append, String.toList_ofList, List.append_assoc]
  rw [lexL_spaces]
  have hsp : (" ".toList : List Char) = [' '] := by decide
  have heq : (" = ".toList : List Char) = [' ', '=', ' '] := by decide
  have hsemi : (";".toList : List Char) = [';'] := by decide
  have hempty : ("".toList : List Char) = [] := by decide
  rw [hsp, heq, hsemi, hempty]
  simp only [List.append_nil, List.cons_append, List.nil_append]
  -- after the label
  have hbody : ∀ pre : List PTok,
      pre ++ (lexL ((tyStr abs first rest).toList ++ ' ' :: (name.toList ++ ' ' :: '=' :: ' ' :: ((formatInt num).toList ++ [';']))) l).filterMap toP =
        pre ++ (tyToks abs first rest l ++ T (.ident name) l :: tailToks num l) := by
    intro pre
    rw [lexL_tyStr abs first rest _ l hf hr (stopsI_space _), lexL_space, lexL_ident name hn _ (stopsI_space _)]
    simp only [List.filterMap_cons, toP, lexL_tail]
  rcases hlab with h | h | h
  · subst h
    have e : labelToks "" l = [] := by simp [labelToks]
    rw [hempty, e]
    simpa using hbody []
  · subst h
    have e : labelToks "repeated " l = [T (.ident "repeated") l] := by simp [labelToks]
    have hl : ("repeated ".toList : List Char) = "repeated".toList ++ [' '] := by decide
    rw [e, hl, List.append_assoc]
    simp only [List.cons_append, List.nil_append]
    rw [lexL_ident "repeated" isIdent_repeated _ (stopsI_space _)]
    simp only [List.cons_append, List.nil_append, lexL_space, List.filterMap_cons, toP]
    simpa using hbody [T (.ident "repeated") l]
  · subst h
    have e : labelToks "optional " l = [T (.ident "optional") l] := by simp [labelToks]
    have hl : ("optional ".toList : List Char) = "optional".toList ++ [' '] := by decide
    rw [e, hl, List.append_assoc]
    simp only [List.cons_append, List.nil_append]
    rw [lexL_ident "optional" isIdent_optional _ (stopsI_space _)]
    simp only [List.cons_append, List.nil_append, lexL_space, List.filterMap_cons, toP]
    simpa using hbody [T (.ident "optional") l]

/-! ## map fields: `map<k, v> name = number;` -/

theorem isIdent_map : IsIdent "map" := ⟨'m', ['a', 'p'], by decide, by decide, by decide⟩

/-- the printed type of a map field -/
def mapTy (k : String) (abs : Bool) (first : String) (rest : List String) : String :=
  "map<" ++ tyStr false k [] ++ ", " ++ tyStr abs first rest ++ ">"

def mapLineToks (k : String) (abs : Bool) (first : String) (rest : List String) (name : String) (num : Int)
    (l : Nat) : List PTok :=
  T (.ident "map") l :: T (.sym '<') l :: (tyToks false k [] l ++ T (.sym ',') l ::
    (tyToks abs first rest l ++ T (.sym '>') l :: T (.ident name) l :: tailToks num l))

theorem stopsI_sym (c : Char) (h : isIdentChar c = false) (cs : List Char) : StopsI (c :: cs) := by
  intro d r hd; simp only [List.cons.injEq] at hd; rw [← hd.1]; exact h

theorem lineToks_map (n : Nat) (k : String) (abs : Bool) (first : String) (rest : List String) (name : String)
    (num : Int) (l : Nat) (hk : IsIdent k) (hf : IsIdent first) (hr : ∀ r ∈ rest, IsIdent r) (hn : IsIdent name) :
    lineToks (OptionText.ind n ("" ++ mapTy k abs first rest ++ " " ++ name ++ " = " ++ formatInt num ++ ";" ++ "")) l =
      mapLineToks k abs first rest name num l := by
  unfold lineToks OptionText.ind mapLineToks mapTy
  simp only [String.toList_append, String.toList_ofList, List.append_assoc]
  rw [lexL_spaces]
  have hsp : (" ".toList : List Char) = [' '] := by decide
  have heq : (" = ".toList : List Char) = [' ', '=', ' '] := by decide
  have hsemi : (";".toList : List Char) = [';'] := by decide
  have hempty : ("".toList : List Char) = [] := by decide
  have hmap : ("map<".toList : List Char) = "map".toList ++ ['<'] := by decide
  have hcomma : (", ".toList : List Char) = [',', ' '] := by decide
  have hgt : (">".toList : List Char) = ['>'] := by decide
  rw [hsp, heq, hsemi, hempty, hmap, hcomma, hgt]
  simp only [List.append_nil, List.cons_append, List.nil_append, List.append_assoc]
  rw [lexL_ident "map" isIdent_map _ (stopsI_sym '<' (by decide) _), lexL_sym '<' (by decide)]
  simp only [List.filterMap_cons, toP]
  rw [lexL_tyStr false k [] _ l hk (by simp) (stopsI_sym ',' (by decide) _), lexL_sym ',' (by decide), lexL_space]
  simp only [List.filterMap_cons, toP]
  rw [lexL_tyStr abs first rest _ l hf hr (stopsI_sym '>' (by decide) _), lexL_sym '>' (by decide), lexL_space,
    lexL_ident name hn _ (stopsI_space _)]
  simp only [List.filterMap_cons, toP, lexL_tail, List.append_assoc, List.cons_append]

theorem parseField_map (k : String) (abs : Bool) (first : String) (rest : List String) (name : String) (num : Int)
    (l : Nat) (more : List PTok) (hk : IsIdent k) (hf : IsIdent first) :
    parseField (mapLineToks k abs first rest name num l ++ more) =
      some (locField "" (mapTy k abs first rest) name num l (trailOf more), more) := by
  have hty1 := typeName_toks false k [] l (T (.sym ',') l ::
    (tyToks abs first rest l ++ T (.sym '>') l :: T (.ident name) l :: (tailToks num l ++ more))) hk.ne_empty
    (by intro t r h; simp only [List.cons.injEq] at h; rw [← h.1]; simp [T])
  have hty2 := typeName_toks abs first rest l (T (.sym '>') l :: T (.ident name) l :: (tailToks num l ++ more)) hf.ne_empty
    (by intro t r h; simp only [List.cons.injEq] at h; rw [← h.1]; simp [T])
  unfold mapLineToks
  simp only [List.cons_append, List.append_assoc, T] at hty1 hty2 ⊢
  have hne1 : ("map" == "repeated") = false := by decide
  have hne2 : ("map" == "optional") = false := by decide
  simp only [parseField, splitLabel, hne1, hne2, Bool.false_eq_true, if_false, fieldAfterLabel, beq_self_eq_true,
    Bool.and_self, if_true, mapField]
  rw [hty1]
  simp only []
  rw [hty2]
  simp only [fieldTail_toks, Option.map_some, mkField_plain, mapTy]

/-! ## the same with any tail (`= number [options];`) -/

theorem fieldAfterLabel_gen (t0 : PTok) (ht0 : t0.cm = Cm.none) (label : String) (abs : Bool) (first : String)
    (rest : List String) (name : String) (l : Nat) (hl : t0.line = l)
    (tl : List PTok) (hf : IsIdent first) (hkw : abs = false → first ≠ "map") :
    fieldAfterLabel t0 label (tyToks abs first rest l ++ T (.ident name) l :: tl) =
      (fieldTail tl).map (mkField .field l Cm.none label (tyStr abs first rest) name) := by
  have hty := typeName_toks abs first rest l (T (.ident name) l :: tl) hf.ne_empty
    (by intro t r h; simp only [List.cons.injEq] at h; rw [← h.1]; simp [T])
  cases abs with
  | true =>
    simp only [tyToks, if_true, List.cons_append, List.nil_append, T] at hty ⊢
    simp only [fieldAfterLabel, plainField]
    rw [hty]
    simp only [hl, ht0]
  | false =>
    have h3 := hkw rfl
    simp only [tyToks, Bool.false_eq_true, if_false, List.cons_append, List.nil_append, T] at hty ⊢
    simp only [fieldAfterLabel, plainField]
    split
    · rename_i s l1 c1 c l2 c2 r heq
      have hs : s = first := by
        simp only [List.cons.injEq, PTok.mk.injEq, Tok.ident.injEq] at heq
        exact heq.1.1.symm
      subst hs
      have hm : (s == "map" && c == '<') = false := by simp [h3]
      rw [hm, ← heq, hty]
      simp only [Bool.false_eq_true, if_false, hl, ht0]
    · rw [hty]
      simp only [hl, ht0]

theorem parseField_gen (label : String) (hlab : label = "" ∨ label = "repeated " ∨ label = "optional ")
    (abs : Bool) (first : String) (rest : List String) (name : String) (l : Nat) (tl : List PTok)
    (hf : IsIdent first) (hkw : abs = false → first ≠ "map")
    (hkw2 : label = "" → abs = false → first ≠ "repeated" ∧ first ≠ "optional") :
    parseField (labelToks label l ++ tyToks abs first rest l ++ T (.ident name) l :: tl) =
      (fieldTail tl).map (mkField .field l Cm.none label (tyStr abs first rest) name) := by
  rcases hlab with h | h | h
  · subst h
    have e : labelToks "" l = [] := by simp [labelToks]
    rw [e, List.nil_append]
    cases abs with
    | true =>
      have := fieldAfterLabel_gen (T (.sym '.') l) rfl "" true first rest name l rfl tl hf hkw
      simp only [tyToks, if_true, List.cons_append, List.nil_append, List.append_assoc] at this ⊢
      simp only [parseField, splitLabel, T] at this ⊢
      exact this
    | false =>
      obtain ⟨h1, h2⟩ := hkw2 rfl rfl
      have := fieldAfterLabel_gen (T (.ident first) l) rfl "" false first rest name l rfl tl hf hkw
      simp only [tyToks, Bool.false_eq_true, if_false, List.cons_append, List.nil_append, List.append_assoc] at this ⊢
      simp only [parseField, splitLabel, T, beq_iff_eq, h1, h2, if_false] at this ⊢
      exact this
  · subst h
    have e : labelToks "repeated " l = [T (.ident "repeated") l] := by simp [labelToks]
    rw [e]
    have := fieldAfterLabel_gen (T (.ident "repeated") l) rfl "repeated " abs first rest name l rfl tl hf hkw
    simp only [List.cons_append, List.nil_append, List.append_assoc, parseField, splitLabel, T, beq_self_eq_true, if_true] at this ⊢
    exact this
  · subst h
    have e : labelToks "optional " l = [T (.ident "optional") l] := by simp [labelToks]
    rw [e]
    have := fieldAfterLabel_gen (T (.ident "optional") l) rfl "optional " abs first rest name l rfl tl hf hkw
    have hne : ("optional" == "repeated") = false := by decide
    simp only [List.cons_append, List.nil_append, List.append_assoc, parseField, splitLabel, T, hne, beq_self_eq_true,
      Bool.false_eq_true, if_false, if_true] at this ⊢
    exact this

theorem parseField_map_gen (k : String) (abs : Bool) (first : String) (rest : List String) (name : String)
    (l : Nat) (tl : List PTok) (hk : IsIdent k) (hf : IsIdent first) :
    parseField (T (.ident "map") l :: T (.sym '<') l :: (tyToks false k [] l ++ T (.sym ',') l ::
      (tyToks abs first rest l ++ T (.sym '>') l :: T (.ident name) l :: tl))) =
      (fieldTail tl).map (mkField .field l Cm.none "" (mapTy k abs first rest) name) := by
  have hty1 := typeName_toks false k [] l (T (.sym ',') l ::
    (tyToks abs first rest l ++ T (.sym '>') l :: T (.ident name) l :: tl)) hk.ne_empty
    (by intro t r h; simp only [List.cons.injEq] at h; rw [← h.1]; simp [T])
  have hty2 := typeName_toks abs first rest l (T (.sym '>') l :: T (.ident name) l :: tl) hf.ne_empty
    (by intro t r h; simp only [List.cons.injEq] at h; rw [← h.1]; simp [T])
  simp only [List.cons_append, List.append_assoc, T] at hty1 hty2 ⊢
  have hne1 : ("map" == "repeated") = false := by decide
  have hne2 : ("map" == "optional") = false := by decide
  simp only [parseField, splitLabel, hne1, hne2, Bool.false_eq_true, if_false, fieldAfterLabel, beq_self_eq_true,
    Bool.and_self, if_true, mapField]
  rw [hty1]
  simp only []
  rw [hty2]
  simp only [mapTy]

end J5V.Print.Grammar
