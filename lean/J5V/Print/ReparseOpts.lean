import J5V.Print.GrammarProofs
/-!
# Options read back (core only): line shift and framing

The checker evaluates the scanner and the option parser on the printed option lines *at line 0 and
with nothing after them*. These lemmas carry such an evaluation to any line and any continuation:
the scanner's lines are relative (`lexAux_shift`), and `optNameAux` / `takeValue` / `rawOption` /
`bracketOpts` never look past what they consume (`*_frame`).
-/
namespace J5V.Print.Grammar
open J5V.Print J5V.Print.Layout J5V.Print.OptionText

/-! ## the scanner's lines are relative -/

def Raw.shift (k : Nat) : Raw → Raw
  | .tok t l => .tok t (l + k)
  | .comment s l => .comment s (l + k)

theorem lexAux_shift (k : Nat) : ∀ (f : Nat) (cs : List Char) (line : Nat),
    lexAux f cs (line + k) = (lexAux f cs line).map (Raw.shift k)
  | 0, _, _ => by simp [lexAux]
  | _ + 1, [], _ => by simp [lexAux]
  | f + 1, c :: cs, line => by
    simp only [lexAux]
    split
    · rw [show line + k + 1 = (line + 1) + k by omega]; exact lexAux_shift k f cs (line + 1)
    · split
      · exact lexAux_shift k f cs line
      · split
        · simp only [List.map_cons, Raw.shift, lexAux_shift k f _ line]
        · split
          · simp only [List.map_cons, Raw.shift, lexAux_shift k f _ line]
          · split
            · simp only [List.map_cons, Raw.shift, lexAux_shift k f _ line]
            · split
              · simp only [List.map_cons, Raw.shift, lexAux_shift k f _ line]
              · simp only [List.map_cons, Raw.shift, lexAux_shift k f _ line]

def PTok.shift (k : Nat) (t : PTok) : PTok := { t with line := t.line + k }

/-- a list of tokens moved down by `k` lines -/
def sh (k : Nat) (ts : List PTok) : List PTok := ts.map (PTok.shift k)

theorem lineToks_shift (s : String) (l k : Nat) : lineToks s (l + k) = sh k (lineToks s l) := by
  unfold lineToks lexL sh
  rw [lexAux_shift, List.filterMap_map, List.map_filterMap]
  congr 1
  funext r
  cases r <;> simp [toP, Raw.shift, T, PTok.shift, Function.comp]

@[simp] theorem sh_nil (k : Nat) : sh k [] = [] := rfl
@[simp] theorem sh_cons (k : Nat) (t : PTok) (r : List PTok) : sh k (t :: r) = PTok.shift k t :: sh k r := rfl
theorem sh_append (k : Nat) (a b : List PTok) : sh k (a ++ b) = sh k a ++ sh k b := by simp [sh]
@[simp] theorem sh_length (k : Nat) (a : List PTok) : (sh k a).length = a.length := by simp [sh]

/-! ## the option parser never looks past what it takes, and its lines are relative -/

theorem optNameAux_frame (k : Nat) (more : List PTok) : ∀ (f : Nat) (ts : List PTok) (acc : String) (nm : String) (r : List PTok),
    optNameAux f ts acc = some (nm, r) → ∀ f', f ≤ f' → optNameAux f' (sh k ts ++ more) acc = some (nm, sh k r ++ more) := by
  intro f ts acc
  fun_induction optNameAux f ts acc <;> intro nm r' h f' hf
  all_goals try (simp at h; done)
  all_goals (obtain ⟨g, rfl⟩ : ∃ g, f' = g + 1 := ⟨f' - 1, by omega⟩)
  all_goals simp only [sh_cons, PTok.shift, List.cons_append, optNameAux]
  all_goals first
    | (rename_i ih; exact ih nm r' h g (by omega))
    | simp_all

theorem takeValue_frame (stop : Char → Bool) (k : Nat) (more : List PTok) : ∀ (ts : List PTok) (d : Nat) (v : List PTok) (t : PTok) (r : List PTok),
    takeValue stop ts d = (v, t :: r) → takeValue stop (sh k ts ++ more) d = (sh k v, sh k (t :: r) ++ more) := by
  intro ts d
  fun_induction takeValue stop ts d <;> intro v t r h
  all_goals simp only [sh_cons, List.cons_append, takeValue, PTok.shift] at h ⊢
  all_goals first
    | (simp at h; done)
    | (rename_i hx ih
       simp only [Prod.mk.injEq] at h
       obtain ⟨rfl, rfl⟩ := h
       have := ih _ _ _ hx
       simp_all [PTok.shift])
    | (simp_all [PTok.shift]; done)
    | (simp_all [PTok.shift]
       obtain ⟨rfl, _⟩ := h
       rfl)

def RawOpt.shift (k : Nat) (o : RawOpt) : RawOpt := { o with startLine := o.startLine + k, endLine := o.endLine + k }

theorem valueToks_sh (k : Nat) (v : List PTok) : valueToks (sh k v) = valueToks v := by
  unfold valueToks sh
  rw [List.map_map]
  rfl

theorem rawOption_frame (stop : Char → Bool) (k : Nat) (more : List PTok) (ts : List PTok) (o : RawOpt) (t : PTok) (r : List PTok)
    (h : rawOption stop ts = some (o, t :: r)) :
    rawOption stop (sh k ts ++ more) = some (o.shift k, sh k (t :: r) ++ more) := by
  unfold rawOption at h
  cases ts with
  | nil => simp at h
  | cons t0 tl =>
    simp only [] at h
    split at h
    · rename_i name r1 hname
      have hn := optNameAux_frame k more _ _ _ _ _ hname ((sh k (t0 :: tl) ++ more).length + 1)
        (by simp only [List.length_append, sh_length]; omega)
      generalize hv : takeValue stop r1 0 = vr at h
      obtain ⟨v, r'⟩ := vr
      simp only [] at h
      split at h
      · rename_i last vt hlast hvt
        cases hp : pValue (vt.length + 1) vt with
        | none => simp [hp] at h
        | some ov =>
          simp only [hp, Option.map_some, Option.some.injEq, Prod.mk.injEq] at h
          obtain ⟨rfl, rfl⟩ := h
          have htv := takeValue_frame stop k more r1 0 v t r hv
          have hl : (sh k v).getLast? = some (PTok.shift k last) := by
            unfold sh; rw [List.getLast?_map, hlast]; rfl
          unfold rawOption
          simp only [sh_cons, List.cons_append] at hn ⊢
          rw [hn]
          simp only [htv, hl, valueToks_sh, hvt, hp, Option.map_some, RawOpt.shift, PTok.shift, sh_cons, List.cons_append]
      · simp at h
    · simp at h

theorem bracketOpts_frame (k : Nat) (more : List PTok) : ∀ (f : Nat) (ts : List PTok) (os : List RawOpt) (r : List PTok),
    bracketOpts f ts = some (os, r) → ∀ f', f ≤ f' →
    bracketOpts f' (sh k ts ++ more) = some (os.map (RawOpt.shift k), sh k r ++ more)
  | 0, _, _, _, h, _, _ => by simp [bracketOpts] at h
  | f + 1, ts, os, r, h, f', hf => by
    obtain ⟨g, rfl⟩ : ∃ g, f' = g + 1 := ⟨f' - 1, by omega⟩
    unfold bracketOpts at h ⊢
    split at h
    · rename_i o l1 c1 r1 heq
      have := rawOption_frame _ k more ts o _ r1 heq
      cases hb : bracketOpts f r1 with
      | none => simp [hb] at h
      | some p =>
        obtain ⟨os1, r2⟩ := p
        simp only [hb, Option.map_some, Option.some.injEq, Prod.mk.injEq] at h
        obtain ⟨rfl, rfl⟩ := h
        have ih := bracketOpts_frame k more f r1 os1 r2 hb g (by omega)
        rw [this]
        simp only [sh_cons, PTok.shift, List.cons_append, ih, Option.map_some, List.map_cons]
    · rename_i o l1 c1 r1 heq
      have := rawOption_frame _ k more ts o _ r1 heq
      simp only [Option.some.injEq, Prod.mk.injEq] at h
      obtain ⟨rfl, rfl⟩ := h
      rw [this]
      simp only [sh_cons, PTok.shift, List.cons_append, List.map_cons, List.map_nil]
    · simp at h

/-! ## `= number [ … ];` -/

theorem fieldTail_bracket (n : Int) (l : Nat) (bm : List PTok) (os : List RawOpt) (l' : Nat) (c : Cm) (r' : List PTok)
    (h : bracketOpts (bm.length + 1) bm = some (os, ⟨.sym ';', l', c⟩ :: r')) :
    fieldTail (T (.sym '=') l :: (numToks n l ++ T (.sym '[') l :: bm)) = some (n, os, l', r') := by
  unfold fieldTail numToks
  by_cases hn : n < 0
  · simp only [hn, if_true, List.cons_append, List.nil_append, T, intOf_natDigits, Option.map_some]
    have : -(n.natAbs : Int) = n := by omega
    simp only [this, if_true, h]
  · simp only [hn, if_false, List.cons_append, List.nil_append, T, intOf_natDigits, Option.map_some]
    have : (n.natAbs : Int) = n := by omega
    simp only [this, Bool.false_eq_true, if_false, h]

/-! ## the options of an element, moved down by `k` lines -/

/-- an option with a location moves with the text; one without has no line -/
def shO (k : Nat) (o : SOpt) : SOpt := if o.hasLoc then { o with startLine := o.startLine + k } else o

theorem rawSOpt_shift (p k : Nat) (r : RawOpt) : rawSOpt (p + k) (r.shift k) = shO k (rawSOpt p r) := by
  simp only [rawSOpt, RawOpt.shift, shO, if_true]
  have h1 : (r.startLine + k == r.endLine + k) = (r.startLine == r.endLine) := by
    rw [Bool.eq_iff_iff]; simp
  have h2 : (p + k == r.startLine + k) = (p == r.startLine) := by
    rw [Bool.eq_iff_iff]; simp
  rw [h1, h2]

theorem unlocated_shO (k : Nat) (o : SOpt) : unlocated (shO k o) = unlocated o := by
  unfold shO unlocated
  split <;> rfl

theorem shO_unlocated (k : Nat) (o : SOpt) : shO k (unlocated o) = unlocated o := by
  simp [shO, unlocated]

theorem shO_name (k : Nat) (o : SOpt) : (shO k o).name = o.name := by unfold shO; split <;> rfl
theorem shO_stmts (k : Nat) (o : SOpt) : (shO k o).stmts = o.stmts := by unfold shO; split <;> rfl
theorem shO_hasLoc (k : Nat) (o : SOpt) : (shO k o).hasLoc = o.hasLoc := by unfold shO; split <;> rfl
theorem shO_single (k : Nat) (o : SOpt) : (shO k o).single = o.single := by unfold shO SOpt.single; split <;> rfl
theorem shO_inl (k : Nat) (o : SOpt) : (shO k o).inl = o.inl := by unfold shO SOpt.inl; split <;> rfl
theorem shO_index (k : Nat) (o : SOpt) : (shO k o).index = o.index := by unfold shO; split <;> rfl
theorem shO_full (k : Nat) (o : SOpt) : (shO k o).full = o.full := by unfold shO; split <;> rfl

theorem groupOpts_shift (p k : Nat) : ∀ (raws : List RawOpt) (acc : List SOpt),
    groupOpts (p + k) (raws.map (RawOpt.shift k)) (acc.map (shO k)) = (groupOpts p raws acc).map (shO k)
  | [], acc => by simp [groupOpts]
  | r :: rest, acc => by
    simp only [List.map_cons, groupOpts]
    have hany : (acc.map (shO k)).any (fun o => o.name == (r.shift k).name) = acc.any (fun o => o.name == r.name) := by
      simp only [List.any_map, RawOpt.shift]
      congr 1
      funext o
      simp [shO_name]
    rw [hany]
    split
    · have hm : (acc.map (shO k)).map (fun o => if o.name == (r.shift k).name then
            unlocated { o with stmts := o.stmts ++ [(r.shift k).value] } else o) =
          (acc.map (fun o => if o.name == r.name then unlocated { o with stmts := o.stmts ++ [r.value] } else o)).map (shO k) := by
        simp only [List.map_map]
        apply List.map_congr_left
        intro o _
        simp only [Function.comp, shO_name, RawOpt.shift]
        split
        · rw [shO_unlocated]
          unfold shO unlocated
          split <;> rfl
        · rfl
      rw [hm]
      exact groupOpts_shift p k rest _
    · have hm : acc.map (shO k) ++ [{ rawSOpt (p + k) (r.shift k) with index := (acc.map (shO k)).length }] =
          (acc ++ [{ rawSOpt p r with index := acc.length }]).map (shO k) := by
        simp only [List.map_append, List.map_cons, List.map_nil, List.length_map]
        congr 2
        rw [rawSOpt_shift]
        simp [shO, rawSOpt]
      rw [hm]
      exact groupOpts_shift p k rest _

theorem nameRoot_shO (k : Nat) (o : SOpt) : nameRoot (shO k o).name = nameRoot o.name := by rw [shO_name]

theorem unlocateShared_shift (k : Nat) (os : List SOpt) : unlocateShared (os.map (shO k)) = (unlocateShared os).map (shO k) := by
  unfold unlocateShared
  simp only [List.map_map]
  apply List.map_congr_left
  intro o _
  have hf : (os.filter ((fun p => nameRoot p.name == nameRoot (shO k o).name) ∘ shO k)) =
      os.filter (fun p => nameRoot p.name == nameRoot o.name) := by
    congr 1
    funext p
    simp [shO_name]
  simp only [Function.comp, List.filter_map, List.length_map, hf]
  split
  · rw [shO_unlocated, unlocated_shO]
  · rfl

theorem mkOpts_shift (p k : Nat) (raws : List RawOpt) :
    mkOpts (p + k) (raws.map (RawOpt.shift k)) = (mkOpts p raws).map (shO k) := by
  unfold mkOpts
  have := groupOpts_shift p k raws []
  simp only [List.map_nil] at this
  rw [this, unlocateShared_shift]

theorem jsonOf_shift (k : Nat) (raws : List RawOpt) : jsonOf (raws.map (RawOpt.shift k)) = jsonOf raws := by
  unfold jsonOf
  rw [List.find?_map]
  have : ((fun x : RawOpt => x.name == "json_name") ∘ RawOpt.shift k) = (fun x : RawOpt => x.name == "json_name") := by
    funext x; rfl
  rw [this]
  cases raws.find? (fun x => x.name == "json_name") with
  | none => rfl
  | some r =>
    obtain ⟨nm, v, a, b⟩ := r
    cases v <;> rfl

theorem filter_shift (k : Nat) (raws : List RawOpt) :
    (raws.map (RawOpt.shift k)).filter (fun r => r.name != "json_name") =
      (raws.filter (fun r => r.name != "json_name")).map (RawOpt.shift k) := by
  rw [List.filter_map]
  rfl

/-- a field moved down by `k` lines -/
def shF (k : Nat) (f : FieldD) : FieldD :=
  { f with loc := { f.loc with startLine := f.loc.startLine + k, endLine := f.loc.endLine + k }, opts := f.opts.map (shO k) }

theorem mkField_shift (p k e : Nat) (label ty name : String) (num : Int) (raws : List RawOpt) (r r' : List PTok)
    (hr : trailOf r = "") (hr' : trailOf r' = "") :
    (mkField .field (p + k) Cm.none label ty name (num, raws.map (RawOpt.shift k), e + k, r)).1 =
      shF k (mkField .field p Cm.none label ty name (num, raws, e, r')).1 := by
  simp only [mkField, shF, mkLoc, hr, hr', jsonOf_shift, filter_shift, mkOpts_shift]

theorem optionStmt_frame (k : Nat) (more : List PTok) (ts : List PTok) (o : RawOpt) (r : List PTok)
    (h : optionStmt ts = some (o, r)) :
    optionStmt (sh k ts ++ more) = some (o.shift k, sh k r ++ more) := by
  unfold optionStmt at h
  split at h
  · rename_i l c tl
    split at h
    · rename_i o1 l1 c1 r1 heq
      simp only [Option.some.injEq, Prod.mk.injEq] at h
      obtain ⟨rfl, rfl⟩ := h
      have := rawOption_frame _ k more tl o1 _ r1 heq
      unfold optionStmt
      simp only [sh_cons, PTok.shift, List.cons_append, this, RawOpt.shift]
    · simp at h
  · simp at h

end J5V.Print.Grammar
