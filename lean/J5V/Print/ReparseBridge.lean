import J5V.Print.ReparseTheorem
/-!
# From the printed lines to the tokens, with leading comments (core only)

`attach` (the model of protocompile's comment attribution) over the raw items of the printed lines gives the token
list `kT` the parser lemmas are stated for: the `//` lines of a leading comment become the leading comment of the first
token of the element below them (`ReparseComments.attach_leading`: a blank line above, the element directly below),
every other line holds tokens only.
-/
namespace J5V.Print.Reparse
open J5V.Print J5V.Print.Grammar J5V.Print.Layout J5V.Print.OptionText J5V.Print.Scalar

/-! ## the scanner stays on the line -/

def Raw.lineOf : Raw → Nat
  | .tok _ l => l
  | .comment _ l => l

theorem noNL_sub {a b : List Char} (h : NoNL b) (hs : ∀ x ∈ a, x ∈ b) : NoNL a := fun c hc => h c (hs c hc)

theorem lexAux_sameLine : ∀ (f : Nat) (cs : List Char) (line : Nat), NoNL cs → ∀ r ∈ lexAux f cs line, Raw.lineOf r = line
  | 0, _, _, _, r, hr => by simp [lexAux] at hr
  | _ + 1, [], _, _, r, hr => by simp [lexAux] at hr
  | f + 1, c :: cs, line, h, r, hr => by
    have hc : (c == '\n') = false := by
      have := h c (by simp)
      simp [this]
    have hcs : NoNL cs := fun y hy => h y (by simp [hy])
    simp only [lexAux, hc, Bool.false_eq_true, if_false] at hr
    split at hr
    · exact lexAux_sameLine f cs line hcs r hr
    · split at hr
      · rcases List.mem_cons.mp hr with h1 | h1
        · rw [h1]; rfl
        · exact lexAux_sameLine f _ line (noNL_sub hcs (fun y hy => List.Sublist.mem hy (List.dropWhile_sublist _))) r h1
      · split at hr
        · rcases List.mem_cons.mp hr with h1 | h1
          · rw [h1]; rfl
          · exact lexAux_sameLine f _ line (noNL_sub hcs (fun y hy => List.Sublist.mem hy (List.dropWhile_sublist _))) r h1
        · split at hr
          · rcases List.mem_cons.mp hr with h1 | h1
            · rw [h1]; rfl
            · exact lexAux_sameLine f _ line (noNL_sub hcs (numRest_subset cs c)) r h1
          · split at hr
            · rcases List.mem_cons.mp hr with h1 | h1
              · rw [h1]; rfl
              · exact lexAux_sameLine f _ line (noNL_sub hcs (strRest_subset cs)) r h1
            · rcases List.mem_cons.mp hr with h1 | h1
              · rw [h1]; rfl
              · exact lexAux_sameLine f cs line hcs r h1

/-- the raw items of a line of tokens: tokens, all on that line -/
theorem lexL_tokLine (s : String) (L : Nat) (ht : TokLine s) (hn : NoNL s.toList) :
    ∀ r ∈ lexL s.toList L, ∃ t, r = Raw.tok t L := by
  intro r hr
  obtain ⟨t, ln, rfl⟩ := ht L r hr
  have := lexAux_sameLine _ _ L hn _ hr
  simp only [Raw.lineOf] at this
  exact ⟨t, by rw [this]⟩

/-! ## `attach` over tokens -/

theorem attach_sameLine : ∀ (R : List Raw) (L pl ll : Nat) (more : List Raw), (∀ r ∈ R, ∃ t, r = Raw.tok t L) →
    attach (R ++ more) (some pl) [] ll =
      R.filterMap toP ++ attach more (some (if R.isEmpty then pl else L)) [] (if R.isEmpty then ll else L)
  | [], L, pl, ll, more, _ => by simp
  | r :: R, L, pl, ll, more, h => by
    obtain ⟨t, rfl⟩ := h r (by simp)
    have ih := attach_sameLine R L L L more (fun x hx => h x (by simp [hx]))
    simp only [ite_self] at ih
    simp only [List.cons_append, attach, attributeCm_nil, List.filterMap_cons, toP, T, List.isEmpty_cons,
      Bool.false_eq_true, if_false]
    rw [ih]

/-- the lines of a comment-free piece: `attach` gives their tokens and ends on one of them -/
theorem attach_lines : ∀ (ls : List String) (L pl ll : Nat) (more : List Raw), (∀ s ∈ ls, TokLine s ∧ NoNL s.toList) → pl < L →
    ∃ pl' ll', pl' < L + ls.length ∧
      attach (rawLines ls L ++ more) (some pl) [] ll = lexLines ls L ++ attach more (some pl') [] ll'
  | [], L, pl, ll, more, _, hpl => ⟨pl, ll, by simpa using hpl, by simp [rawLines, lexLines]⟩
  | s :: r, L, pl, ll, more, h, hpl => by
    obtain ⟨ht, hn⟩ := h s (by simp)
    have h1 := attach_sameLine (lexL s.toList L) L pl ll (rawLines r (L + 1) ++ more) (lexL_tokLine s L ht hn)
    have hpl1 : (if (lexL s.toList L).isEmpty then pl else L) < L + 1 := by split <;> omega
    obtain ⟨pl', ll', hb, heq⟩ := attach_lines r (L + 1) _ (if (lexL s.toList L).isEmpty then ll else L) more
      (fun x hx => h x (by simp [hx])) hpl1
    refine ⟨pl', ll', by simp only [List.length_cons]; omega, ?_⟩
    simp only [rawLines, lexLines, List.append_assoc]
    rw [h1, heq]
    rfl

/-! ## the raw items a command list writes -/

def rawsC (cmds : List Cmd) (g : Bool) (L : Nat) : List Raw := rawLines (exec cmds g).1 L

theorem rawLines_append : ∀ (a b : List String) (L : Nat), rawLines (a ++ b) L = rawLines a L ++ rawLines b (L + a.length)
  | [], b, L => by simp [rawLines]
  | s :: r, b, L => by
    simp only [List.cons_append, rawLines, rawLines_append r b (L + 1), List.length_cons, List.append_assoc]
    congr 3
    omega

theorem rawsOf_append (a b : List Cmd) (g : Bool) (L : Nat) :
    rawsC (a ++ b) g L = rawsC a g L ++ rawsC b (exec a g).2 (L + nLines a g) := by
  unfold rawsC nLines
  rw [exec_append, rawLines_append]

/-- token-only command lists -/
def TokCmds (cmds : List Cmd) : Prop :=
  ∀ c ∈ cmds, match c with
    | .line s => TokLine s ∧ NoNL s.toList
    | .endl s => TokLine s ∧ NoNL s.toList
    | .gap => True

theorem tokLine_of_noSlash (s : String) (h : NoCh '/' s.toList) : TokLine s :=
  fun L r hr => lexL_tokens _ s.toList rfl h L r hr

theorem tokLine_blank : TokLine "" := tokLine_of_noSlash "" (by intro c hc; simp at hc)

theorem tokCmds_of_noCh {cmds : List Cmd} (h1 : CmdsNoCh '/' cmds) (h2 : CmdsNoCh '\n' cmds) : TokCmds cmds := by
  intro c hc
  have a := h1 c hc
  have b := h2 c hc
  cases c with
  | line s => exact ⟨a.elim (tokLine_of_noSlash s) (fun h => h.2), b.elim id (fun h => absurd h.1 (by decide))⟩
  | endl s => exact ⟨a.elim (tokLine_of_noSlash s) (fun h => h.2), b.elim id (fun h => absurd h.1 (by decide))⟩
  | gap => trivial

theorem TokCmds.append {a b : List Cmd} (ha : TokCmds a) (hb : TokCmds b) : TokCmds (a ++ b) := by
  intro c hc
  rcases List.mem_append.mp hc with h | h
  · exact ha c h
  · exact hb c h

theorem TokCmds.sub {a b : List Cmd} (hb : TokCmds b) (h : ∀ c ∈ a, c ∈ b) : TokCmds a := fun c hc => hb c (h c hc)

/-- a comment-free piece: `attach` gives its tokens -/
theorem attach_piece (cmds : List Cmd) (h : TokCmds cmds) (g : Bool) (L pl ll : Nat) (more : List Raw) (hpl : pl < L) :
    ∃ pl' ll', pl' < L + nLines cmds g ∧
      attach (rawsC cmds g L ++ more) (some pl) [] ll = toksOf cmds g L ++ attach more (some pl') [] ll' := by
  unfold rawsC toksOf nLines
  apply attach_lines _ L pl ll more _ hpl
  apply exec_lines cmds g (fun s => TokLine s ∧ NoNL s.toList) ⟨tokLine_blank, by intro c hc; simp at hc⟩
  intro c hc
  have := h c hc
  cases c with
  | line s => exact this
  | endl s => exact this
  | gap => trivial

/-! ## a leading comment and the first line of the element below it -/

/-- the raw items of the `//` lines of the comment `c`, the first on line `p` -/
def leadRaws (c : String) (p : Nat) : List Raw := (runFrom (commentBody c) p).map (fun x => Raw.comment x.1 x.2)

theorem rawLines_lead (n : Nat) : ∀ (xs : List String) (p : Nat), (∀ x ∈ xs, NoNL x.toList) →
    rawLines (xs.map (fun x => ind n ("//" ++ x))) p = (runFrom xs p).map (fun x => Raw.comment x.1 x.2)
  | [], _, _ => rfl
  | x :: r, p, h => by
    simp only [List.map_cons, rawLines, runFrom]
    rw [lexL_commentLine n x (h x (by simp)) p, rawLines_lead n r (p + 1) (fun y hy => h y (by simp [hy]))]
    rfl

theorem tokens_head {R : List Raw} {L : Nat} (h : ∀ r ∈ R, ∃ t, r = Raw.tok t L) {t : Grammar.Tok} {tl : List PTok}
    (hf : R.filterMap toP = T t L :: tl) : ∃ R1, R = Raw.tok t L :: R1 ∧ R1.filterMap toP = tl := by
  cases R with
  | nil => simp at hf
  | cons r R1 =>
    obtain ⟨t', rfl⟩ := h r (by simp)
    simp only [List.filterMap_cons, toP, List.cons.injEq, T, PTok.mk.injEq, and_true] at hf
    exact ⟨R1, by rw [hf.1], hf.2⟩

theorem attach_firstLine (c : String) (hc : CommentOk c) (p s pl ll : Nat) (s0 : String) (t : Grammar.Tok) (tl0 : List PTok)
    (more : List Raw) (hs : p + (commentBody c).length = s) (hpl : if c = "" then pl < s else pl + 1 < p)
    (htok : TokLine s0) (hnl : NoNL s0.toList) (hhead : lineToks s0 s = T t s :: tl0) :
    attach (leadRaws c p ++ (lexL s0.toList s ++ more)) (some pl) [] ll = hd c (lineToks s0 s) ++ attach more (some s) [] s := by
  have hall := lexL_tokLine s0 s htok hnl
  obtain ⟨R1, hR, hR1⟩ := tokens_head hall (by unfold lineToks at hhead; exact hhead)
  have hall1 : ∀ r ∈ R1, ∃ t, r = Raw.tok t s := fun r hr => hall r (by rw [hR]; simp [hr])
  have hrest := attach_sameLine R1 s s s more hall1
  simp only [ite_self] at hrest
  rw [hhead, hR]
  rcases hc with hc | hc
  · -- no comment
    subst hc
    have : commentBody "" = [] := by simp [commentBody]
    simp only [leadRaws, this, runFrom, List.map_nil, List.nil_append, List.cons_append, attach, attributeCm_nil]
    rw [hrest, hR1]
    rfl
  · obtain ⟨hne, hnoNL, hjoin⟩ := hc
    have hcne : c ≠ "" := by
      intro h0; subst h0; exact hne (by simp [commentBody])
    simp only [hcne, if_false] at hpl
    obtain ⟨x, xs, hxs⟩ := List.exists_cons_of_ne_nil hne
    have hs' : s = p + xs.length + 1 := by rw [← hs, hxs]; simp; omega
    subst hs'
    unfold leadRaws
    rw [hxs, List.cons_append, attach_leading pl p x xs t _ ll hpl, hrest, hR1, combine_run, ← hxs, hjoin]
    rfl

/-! ## what the generic lemmas need of an element: its own lines hold tokens only, its first line starts with one -/

/-- the first line of an element (below its leading comment) -/
def firstLine (n : Nat) : Item → String
  | .field f => if f.popts.isEmpty then leafLine n f else ind n ((fieldLines 0 f).headD "")
  | .rpc _ _ name inT outT os => if os.isEmpty then rpcLine n name inT outT else rpcOpenLine n name inT outT
  | .block kw _ _ _ name os kids =>
    if kids.isEmpty && os.isEmpty then ind n (kw ++ " " ++ name ++ " {}") else ind n (kw ++ " " ++ name ++ " {" ++ "")

def OwnOk (e : Item) : Prop :=
  (∀ n, TokCmds (ownCmds n e)) ∧ (∀ n s, ∃ t tl, lineToks (firstLine n e) s = T t s :: tl)

mutual
def Own : Item → Prop
  | .block kw t l i nm os ks => OwnOk (.block kw t l i nm os ks) ∧ OwnList ks
  | .field f => OwnOk (.field f)
  | .rpc l i a b c os => OwnOk (.rpc l i a b c os)
def OwnList : List Item → Prop
  | [] => True
  | e :: r => Own e ∧ OwnList r
end

theorem Own.ok : ∀ e, Own e → OwnOk e
  | .block _ _ _ _ _ _ _, h => by simp only [Own] at h; exact h.1
  | .field _, h => by simp only [Own] at h; exact h
  | .rpc _ _ _ _ _ _, h => by simp only [Own] at h; exact h

theorem lexAux_ge : ∀ (f : Nat) (cs : List Char) (line : Nat), ∀ r ∈ lexAux f cs line, line ≤ Raw.lineOf r
  | 0, _, _, r, hr => by simp [lexAux] at hr
  | _ + 1, [], _, r, hr => by simp [lexAux] at hr
  | f + 1, c :: cs, line, r, hr => by
    simp only [lexAux] at hr
    split at hr
    · have := lexAux_ge f cs (line + 1) r hr; omega
    · split at hr
      · exact lexAux_ge f cs line r hr
      · split at hr
        · rcases List.mem_cons.mp hr with h1 | h1
          · rw [h1]; exact Nat.le_refl _
          · exact lexAux_ge f _ line r h1
        · split at hr
          · rcases List.mem_cons.mp hr with h1 | h1
            · rw [h1]; exact Nat.le_refl _
            · exact lexAux_ge f _ line r h1
          · split at hr
            · rcases List.mem_cons.mp hr with h1 | h1
              · rw [h1]; exact Nat.le_refl _
              · exact lexAux_ge f _ line r h1
            · split at hr
              · rcases List.mem_cons.mp hr with h1 | h1
                · rw [h1]; exact Nat.le_refl _
                · exact lexAux_ge f _ line r h1
              · rcases List.mem_cons.mp hr with h1 | h1
                · rw [h1]; exact Nat.le_refl _
                · exact lexAux_ge f cs line r h1

theorem lineToks_ge (s : String) (L : Nat) : ∀ t ∈ lineToks s L, L ≤ t.line := by
  intro t ht
  unfold lineToks at ht
  simp only [List.mem_filterMap] at ht
  obtain ⟨r, hr, hrt⟩ := ht
  have := lexAux_ge _ _ L r hr
  cases r with
  | tok tk ln => simp only [toP, Option.some.injEq] at hrt; rw [← hrt]; exact this
  | comment _ _ => simp [toP] at hrt

theorem lexLines_ge : ∀ (ls : List String) (L : Nat), ∀ t ∈ lexLines ls L, L ≤ t.line
  | [], _, t, h => by simp [lexLines] at h
  | s :: r, L, t, h => by
    simp only [lexLines, List.mem_append] at h
    rcases h with h | h
    · exact lineToks_ge s L t h
    · have := lexLines_ge r (L + 1) t h; omega

/-- the first line of a field with options starts with the first token of the field -/
theorem optField_first (f : FieldD) (h : OptField f) (n s : Nat) :
    ∃ t tl, lineToks (ind n ((fieldLines 0 f).headD "")) s = T t s :: tl := by
  obtain ⟨w, raws, e, c, hw, hty, htoks, _, _⟩ := h.read
  obtain ⟨t, tl, hhead, _⟩ := headToks_start f w h.lab hw 0
  obtain ⟨l0, ls, hls⟩ := List.exists_cons_of_ne_nil (fieldLines_ne 0 f)
  rw [hls, List.headD_cons, lineToks_ind]
  have h0 : lineToks l0 0 ++ lexLines ls 1 = ⟨t, 0, Cm.none⟩ :: (tl ++ rdBody f) := by
    have : fieldToks0 f = lineToks l0 0 ++ lexLines ls 1 := by unfold fieldToks0; rw [hls]; rfl
    rw [← this, htoks, hhead]; rfl
  have hne : ∃ tl0, lineToks l0 0 = T t 0 :: tl0 := by
    cases hl : lineToks l0 0 with
    | nil =>
      rw [hl, List.nil_append] at h0
      have := lexLines_ge ls 1 ⟨t, 0, Cm.none⟩ (by rw [h0]; simp)
      simp at this
    | cons a b =>
      rw [hl, List.cons_append] at h0
      simp only [List.cons.injEq] at h0
      exact ⟨b, by rw [h0.1]; rfl⟩
  obtain ⟨tl0, htl0⟩ := hne
  have := lineToks_shift l0 0 s
  rw [Nat.zero_add] at this
  rw [this, htl0]
  exact ⟨t, sh s tl0, by simp [sh, PTok.shift, T]⟩

theorem leaf_ownOk (f : FieldD) (h : SimpleField f ∨ SimpleValue f ∨ MapField f ∨ OptField f) : OwnOk (.field f) := by
  refine ⟨fun n => tokCmds_of_noCh (leaf_own safe_slash n f h) (leaf_own safe_nl n f h), fun n s => ?_⟩
  simp only [firstLine]
  rcases h with h | h | h | h
  · have hpe : f.popts.isEmpty = true := by simp [Leaf.popts (Or.inl h)]
    simp only [hpe, if_true, leafLine, h.1]
    obtain ⟨_, _, _, hlab, hn, _, abs, first, rest, hf, hr, hty, _, hkw⟩ := h
    unfold fieldLine
    rw [hty, lineToks_field n f.label hlab abs first rest f.name f.number s hf hr hn]
    obtain ⟨t, tl, hhead, _⟩ := fieldLineToks_head f.label hlab abs first rest f.name f.number s hkw
    exact ⟨t, tl, hhead⟩
  · have hpe : f.popts.isEmpty = true := by simp [Leaf.popts (Or.inr (Or.inl h))]
    simp only [hpe, if_true, leafLine, h.1]
    unfold valueLine
    rw [lineToks_value n f.name f.number s h.2.2.2.2.2.1]
    exact ⟨_, _, rfl⟩
  · have hpe : f.popts.isEmpty = true := by simp [Leaf.popts (Or.inr (Or.inr h))]
    simp only [hpe, if_true, leafLine, h.1]
    obtain ⟨_, _, _, hlab, hn, _, k, abs, first, rest, hk, hf, hr, hty⟩ := h
    unfold fieldLine
    rw [hty, hlab, lineToks_map n k abs first rest f.name f.number s hk hf hr hn]
    exact ⟨_, _, rfl⟩
  · have hpe : f.popts.isEmpty = false := by simpa using h.nonempty
    simp only [hpe, Bool.false_eq_true, if_false]
    exact optField_first f h n s

theorem block_first (n : Nat) (kw : String) (t : Nat) (l : Loc) (i : Nat) (name : String) (os : List SOpt) (kids : List Item)
    (hkw : IsIdent kw) (hname : IsIdent name) (s : Nat) :
    ∃ tk tl, lineToks (firstLine n (.block kw t l i name os kids)) s = T tk s :: tl := by
  simp only [firstLine]
  split
  · rw [lineToks_empty n kw name s hkw hname]; exact ⟨_, _, rfl⟩
  · rw [lineToks_open n kw name s hkw hname]; exact ⟨_, _, rfl⟩

mutual
theorem SimpleItem.own : ∀ e, SimpleItem e → Own e
  | .field f, h => by
    simp only [SimpleItem] at h
    simp only [Own]
    apply leaf_ownOk
    rcases h with h | h | h
    · exact Or.inl h
    · exact Or.inr (Or.inr (Or.inl h))
    · exact Or.inr (Or.inr (Or.inr h))
  | .rpc _ _ _ _ _ _, h => h.elim
  | .block kw t l i name os ks, h => by
    have h0 := h
    simp only [SimpleItem] at h
    obtain ⟨hl, ho, hname, hcase⟩ := h
    simp only [Own]
    have hkw : IsIdent kw := by
      rcases hcase with ⟨h, _⟩ | ⟨h, _⟩ | ⟨h, _⟩ <;> rw [h]
      · exact isIdent_message
      · exact isIdent_enum
      · exact isIdent_oneof
    refine ⟨⟨fun n => tokCmds_of_noCh (simpleItem_own safe_slash _ n h0) (simpleItem_own safe_nl _ n h0),
      fun n s => block_first n kw t l i name os ks hkw hname s⟩, ?_⟩
    rcases hcase with hm | he | ho'
    · exact SimpleKids.own ks hm.2.2
    · exact SimpleValues.own ks he.2.2
    · exact SimpleMembers.own ks ho'.2.2.2.1
theorem SimpleKids.own : ∀ es, SimpleKids es → OwnList es
  | [], _ => trivial
  | e :: r, h => by
    simp only [SimpleKids] at h
    exact ⟨SimpleItem.own e h.1, SimpleKids.own r h.2.2⟩
theorem SimpleValues.own : ∀ es, SimpleValues es → OwnList es
  | [], _ => trivial
  | .field f :: r, h => by
    simp only [SimpleValues] at h
    refine ⟨?_, SimpleValues.own r h.2.2⟩
    simp only [Own]
    exact leaf_ownOk f (Or.inr (Or.inl h.1))
  | .rpc _ _ _ _ _ _ :: _, h => by simp [SimpleValues] at h
  | .block _ _ _ _ _ _ _ :: _, h => by simp [SimpleValues] at h
theorem SimpleMembers.own : ∀ es, SimpleMembers es → OwnList es
  | [], _ => trivial
  | .field f :: r, h => by
    simp only [SimpleMembers] at h
    refine ⟨?_, SimpleMembers.own r h.2.2⟩
    simp only [Own]
    apply leaf_ownOk
    rcases h.1.1 with h1 | h1
    · exact Or.inl h1
    · exact Or.inr (Or.inr (Or.inr h1))
  | .rpc _ _ _ _ _ _ :: _, h => by simp [SimpleMembers] at h
  | .block _ _ _ _ _ _ _ :: _, h => by simp [SimpleMembers] at h
end

theorem SimpleRpc.own : ∀ e, SimpleRpc e → Own e
  | .rpc l i name inT outT os, h => by
    have h0 := h
    obtain ⟨hl, ho, hname, ⟨sI, aI, fI, rI, hfI, hrI, hin, _⟩, ⟨sO, aO, fO, rO, hfO, hrO, hout, _⟩⟩ := h
    simp only [Own]
    refine ⟨fun n => tokCmds_of_noCh (simpleRpc_own safe_slash _ n h0) (simpleRpc_own safe_nl _ n h0), fun n s => ?_⟩
    subst hin hout
    simp only [firstLine]
    split
    · rw [lineToks_rpc n name sI aI fI rI sO aO fO rO s hname hfI hrI hfO hrO]; exact ⟨_, _, rfl⟩
    · rw [lineToks_rpcOpen n name sI aI fI rI sO aO fO rO s hname hfI hrI hfO hrO]; exact ⟨_, _, rfl⟩
  | .field _, h => h.elim
  | .block _ _ _ _ _ _ _, h => h.elim

theorem SimpleRpcs.own : ∀ es, SimpleRpcs es → OwnList es
  | [], _ => trivial
  | e :: r, h => ⟨SimpleRpc.own e h.1, SimpleRpcs.own r h.2.2⟩

theorem SimpleService.own : ∀ e, SimpleService e → Own e
  | .block kw t l i name os ks, h => by
    have h0 := h
    obtain ⟨hl, ho, hname, hkw, _, hk⟩ := h
    simp only [Own]
    subst hkw
    exact ⟨⟨fun n => tokCmds_of_noCh (simpleService_own safe_slash _ n h0) (simpleService_own safe_nl _ n h0),
      fun n s => block_first n "service" t l i name os ks isIdent_service hname s⟩, SimpleRpcs.own ks hk⟩
  | .field _, h => h.elim
  | .rpc _ _ _ _ _ _, h => h.elim

theorem SimpleTops.own : ∀ es, SimpleTops es → OwnList es
  | [], _ => trivial
  | e :: r, h => by
    simp only [SimpleTops] at h
    refine ⟨?_, SimpleTops.own r h.2.2⟩
    rcases h.1 with hs | hs
    · exact SimpleItem.own e hs.1
    · exact SimpleService.own e hs

/-! ## no printed line holds a line break -/

def CmdsNoNL (cmds : List Cmd) : Prop :=
  ∀ c ∈ cmds, match c with
    | .line s => NoNL s.toList
    | .endl s => NoNL s.toList
    | .gap => True

theorem CmdsNoNL.append {a b : List Cmd} (ha : CmdsNoNL a) (hb : CmdsNoNL b) : CmdsNoNL (a ++ b) := by
  intro c hc
  rcases List.mem_append.mp hc with h | h
  · exact ha c h
  · exact hb c h

theorem TokCmds.noNL {a : List Cmd} (h : TokCmds a) : CmdsNoNL a := by
  intro c hc
  have := h c hc
  cases c with
  | line s => exact this.2
  | endl s => exact this.2
  | gap => trivial

theorem cmdsNoNL_gapIf (c : Bool) : CmdsNoNL (if c then [Cmd.gap] else []) := by
  intro x hx
  cases c
  · simp at hx
  · simp only [if_true, List.mem_singleton] at hx; subst hx; trivial

theorem noNL_ind (n : Nat) (s : String) (h : NoNL s.toList) : NoNL (ind n s).toList := noCh_ind safe_nl n s h

theorem lead_noNL (n : Nat) {l : Loc} (hl : l.leadOnly) (hc : CommentOk l.leading) : CmdsNoNL (leadingCmds n l) := by
  rw [leadingCmds_lead n hl]
  split
  · intro c hc'; simp at hc'
  · rename_i hne
    rcases hc with hc | hc
    · exact absurd hc hne
    · intro c hc'
      simp only [List.mem_cons, List.mem_map, leadLines] at hc'
      rcases hc' with rfl | ⟨s, ⟨x, hx, rfl⟩, rfl⟩
      · trivial
      · simp only []
        apply noNL_ind
        simp only [String.toList_append]
        intro ch hch
        rcases List.mem_append.mp hch with h1 | h1
        · have : ("//".toList : List Char) = ['/', '/'] := by decide
          rw [this] at h1
          simp only [List.mem_cons, List.not_mem_nil, or_false, or_self] at h1
          rw [h1]; decide
        · exact hc.2.1 x hx ch h1

theorem own_sub_block (n : Nat) (kw : String) (t : Nat) (l : Loc) (i : Nat) (name : String) (os : List SOpt) (kids : List Item) :
    ∀ c ∈ [Cmd.line (ind n (kw ++ " " ++ name ++ " {}")), Cmd.line (ind n (kw ++ " " ++ name ++ " {" ++ "")),
        Cmd.endl (ind n "}")] ++ ((sortOpts os).map (fun o => optionCmds (n + 1) o ++ [Cmd.gap])).flatten,
      c ∈ ownCmds n (.block kw t l i name os kids) := by
  intro c hc
  simp only [ownCmds]
  simpa using hc

mutual
theorem body_noNL : ∀ (e : Item), Plain e → Own e → ∀ n, CmdsNoNL (bodyCmds n e)
  | .field f, _, ho, n => by
    simp only [Own] at ho
    exact (ho.1 n).noNL
  | .rpc _ _ _ _ _ _, _, ho, n => by
    simp only [Own] at ho
    exact (ho.1 n).noNL
  | .block kw t l i name os kids, hp, ho, n => by
    simp only [Plain] at hp
    simp only [Own] at ho
    have hown := (ho.1.1 n).noNL
    have hsub := own_sub_block n kw t l i name os kids
    rw [blockCmds_opts n kw t l i name os kids hp.1]
    have hk := elems_noNL kids hp.2.2 ho.2 (n + 1) true 0 0
    intro c hc
    rcases List.mem_append.mp hc with h1 | h1
    · split at h1
      · exact hown c (hsub c (by simp only [List.mem_singleton] at h1; simp [h1]))
      · rcases List.mem_append.mp h1 with h2 | h2
        · exact hown c (hsub c (by simp only [List.mem_singleton] at h2; simp [h2]))
        · rcases List.mem_append.mp h2 with h3 | h3
          · exact hown c (hsub c (List.mem_append_right _ h3))
          · rcases List.mem_append.mp h3 with h4 | h4
            · exact hk c h4
            · exact hown c (hsub c (by simp only [List.mem_singleton] at h4; simp [h4]))
    · simp only [List.mem_singleton] at h1; subst h1; trivial
theorem elems_noNL : ∀ (es : List Item), PlainList es → OwnList es → ∀ (n : Nat) (first : Bool) (le0 lt : Nat),
    CmdsNoNL (elemsCmds n es first le0 lt)
  | [], _, _, _, _, _, _ => by intro c hc; simp [elemsCmds] at hc
  | e :: r, hp, ho, n, first, le0, lt => by
    simp only [PlainList] at hp
    simp only [OwnList] at ho
    rw [elemsCmds_cons_unloc]
    exact CmdsNoNL.append (CmdsNoNL.append (CmdsNoNL.append (cmdsNoNL_gapIf _)
      (lead_noNL n (Plain.loc e hp.1) hp.2.1)) (body_noNL e hp.1 ho.1 n)) (elems_noNL r hp.2.2 ho.2 n false _ _)
end

end J5V.Print.Reparse
