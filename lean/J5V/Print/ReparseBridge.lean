import J5V.Print.ReparseTheorem
/-!
# From the printed lines to the tokens, with leading comments (core only)

`attach` (the model of protocompile's comment attribution) over the raw items of the printed lines gives the token
list `kT` the parser lemmas are stated for: the `//` lines of a leading comment become the leading comment of the first
token of the element below them (`ReparseComments.attach_leading`: a blank line above, the element directly below),
every other line holds tokens only.
-/
namespace J5V.Print.Reparse
open J5V.Print J5V.Print.Grammar J5V.Print.Layout J5V.Print.OptionText J5V.Print.Scalar

/-! ## the scanner stays on the line -/

def Raw.lineOf : Raw → Nat
  | .tok _ l => l
  | .comment _ l => l

theorem noNL_sub {a b : List Char} (h : NoNL b) (hs : ∀ x ∈ a, x ∈ b) : NoNL a := fun c hc => h c (hs c hc)

theorem lexAux_sameLine : ∀ (f : Nat) (cs : List Char) (line : Nat), NoNL cs → ∀ r ∈ lexAux f cs line, Raw.lineOf r = line
  | 0, _, _, _, r, hr => by simp [lexAux] at hr
  | _ + 1, [], _, _, r, hr => by simp [lexAux] at hr
  | f + 1, c :: cs, line, h, r, hr => by
    have hc : (c == '\n') = false := by
      have := h c (by simp)
      simp [this]
    have hcs : NoNL cs := fun y hy => h y (by simp [hy])
    simp only [lexAux, hc, Bool.false_eq_true, if_false] at hr
    split at hr
    · exact lexAux_sameLine f cs line hcs r hr
    · split at hr
      · rcases List.mem_cons.mp hr with h1 | h1
        · rw [h1]; rfl
        · exact lexAux_sameLine f _ line (noNL_sub hcs (fun y hy => List.Sublist.mem hy (List.dropWhile_sublist _))) r h1
      · split at hr
        · rcases List.mem_cons.mp hr with h1 | h1
          · rw [h1]; rfl
          · exact lexAux_sameLine f _ line (noNL_sub hcs (fun y hy => List.Sublist.mem hy (List.dropWhile_sublist _))) r h1
        · split at hr
          · rcases List.mem_cons.mp hr with h1 | h1
            · rw [h1]; rfl
            · exact lexAux_sameLine f _ line (noNL_sub hcs (numRest_subset cs c)) r h1
          · split at hr
            · rcases List.mem_cons.mp hr with h1 | h1
              · rw [h1]; rfl
              · exact lexAux_sameLine f _ line (noNL_sub hcs (strRest_subset cs)) r h1
            · rcases List.mem_cons.mp hr with h1 | h1
              · rw [h1]; rfl
              · exact lexAux_sameLine f cs line hcs r h1

/-- the raw items of a line of tokens: tokens, all on that line -/
theorem lexL_tokLine (s : String) (L : Nat) (ht : TokLine s) (hn : NoNL s.toList) :
    ∀ r ∈ lexL s.toList L, ∃ t, r = Raw.tok t L := by
  intro r hr
  obtain ⟨t, ln, rfl⟩ := ht L r hr
  have := lexAux_sameLine _ _ L hn _ hr
  simp only [Raw.lineOf] at this
  exact ⟨t, by rw [this]⟩

/-! ## `attach` over tokens -/

theorem attach_sameLine : ∀ (R : List Raw) (L pl ll : Nat) (more : List Raw), (∀ r ∈ R, ∃ t, r = Raw.tok t L) →
    attach (R ++ more) (some pl) [] ll =
      R.filterMap toP ++ attach more (some (if R.isEmpty then pl else L)) [] (if R.isEmpty then ll else L)
  | [], L, pl, ll, more, _ => by simp
  | r :: R, L, pl, ll, more, h => by
    obtain ⟨t, rfl⟩ := h r (by simp)
    have ih := attach_sameLine R L L L more (fun x hx => h x (by simp [hx]))
    simp only [ite_self] at ih
    simp only [List.cons_append, attach, attributeCm_nil, List.filterMap_cons, toP, T, List.isEmpty_cons,
      Bool.false_eq_true, if_false]
    rw [ih]

/-- the lines of a comment-free piece: `attach` gives their tokens and ends on one of them -/
theorem attach_lines : ∀ (ls : List String) (L pl ll : Nat) (more : List Raw), (∀ s ∈ ls, TokLine s ∧ NoNL s.toList) → pl < L →
    ∃ pl' ll', pl' < L + ls.length ∧
      attach (rawLines ls L ++ more) (some pl) [] ll = lexLines ls L ++ attach more (some pl') [] ll'
  | [], L, pl, ll, more, _, hpl => ⟨pl, ll, by simpa using hpl, by simp [rawLines, lexLines]⟩
  | s :: r, L, pl, ll, more, h, hpl => by
    obtain ⟨ht, hn⟩ := h s (by simp)
    have h1 := attach_sameLine (lexL s.toList L) L pl ll (rawLines r (L + 1) ++ more) (lexL_tokLine s L ht hn)
    have hpl1 : (if (lexL s.toList L).isEmpty then pl else L) < L + 1 := by split <;> omega
    obtain ⟨pl', ll', hb, heq⟩ := attach_lines r (L + 1) _ (if (lexL s.toList L).isEmpty then ll else L) more
      (fun x hx => h x (by simp [hx])) hpl1
    refine ⟨pl', ll', by simp only [List.length_cons]; omega, ?_⟩
    simp only [rawLines, lexLines, List.append_assoc]
    rw [h1, heq]
    rfl

/-! ## the raw items a command list writes -/

def rawsC (cmds : List Cmd) (g : Bool) (L : Nat) : List Raw := rawLines (exec cmds g).1 L

theorem rawLines_append : ∀ (a b : List String) (L : Nat), rawLines (a ++ b) L = rawLines a L ++ rawLines b (L + a.length)
  | [], b, L => by simp [rawLines]
  | s :: r, b, L => by
    simp only [List.cons_append, rawLines, rawLines_append r b (L + 1), List.length_cons, List.append_assoc]
    congr 3
    omega

theorem rawsC_append (a b : List Cmd) (g : Bool) (L : Nat) :
    rawsC (a ++ b) g L = rawsC a g L ++ rawsC b (exec a g).2 (L + nLines a g) := by
  unfold rawsC nLines
  rw [exec_append, rawLines_append]

/-- token-only command lists -/
def TokCmds (cmds : List Cmd) : Prop :=
  ∀ c ∈ cmds, match c with
    | .line s => TokLine s ∧ NoNL s.toList
    | .endl s => TokLine s ∧ NoNL s.toList
    | .gap => True

theorem tokLine_of_noSlash (s : String) (h : NoCh '/' s.toList) : TokLine s :=
  fun L r hr => lexL_tokens _ s.toList rfl h L r hr

theorem tokLine_blank : TokLine "" := tokLine_of_noSlash "" (by intro c hc; simp at hc)

theorem tokCmds_of_noCh {cmds : List Cmd} (h1 : CmdsNoCh '/' cmds) (h2 : CmdsNoCh '\n' cmds) : TokCmds cmds := by
  intro c hc
  have a := h1 c hc
  have b := h2 c hc
  cases c with
  | line s => exact ⟨a.elim (tokLine_of_noSlash s) (fun h => h.2), b.elim id (fun h => absurd h.1 (by decide))⟩
  | endl s => exact ⟨a.elim (tokLine_of_noSlash s) (fun h => h.2), b.elim id (fun h => absurd h.1 (by decide))⟩
  | gap => trivial

theorem TokCmds.append {a b : List Cmd} (ha : TokCmds a) (hb : TokCmds b) : TokCmds (a ++ b) := by
  intro c hc
  rcases List.mem_append.mp hc with h | h
  · exact ha c h
  · exact hb c h

theorem TokCmds.sub {a b : List Cmd} (hb : TokCmds b) (h : ∀ c ∈ a, c ∈ b) : TokCmds a := fun c hc => hb c (h c hc)

/-- a comment-free piece: `attach` gives its tokens -/
theorem attach_piece (cmds : List Cmd) (h : TokCmds cmds) (g : Bool) (L pl ll : Nat) (more : List Raw) (hpl : pl < L) :
    ∃ pl' ll', pl' < L + nLines cmds g ∧
      attach (rawsC cmds g L ++ more) (some pl) [] ll = toksOf cmds g L ++ attach more (some pl') [] ll' := by
  unfold rawsC toksOf nLines
  apply attach_lines _ L pl ll more _ hpl
  apply exec_lines cmds g (fun s => TokLine s ∧ NoNL s.toList) ⟨tokLine_blank, by intro c hc; simp at hc⟩
  intro c hc
  have := h c hc
  cases c with
  | line s => exact this
  | endl s => exact this
  | gap => trivial

/-! ## a leading comment and the first line of the element below it -/

/-- the raw items of the `//` lines of the comment `c`, the first on line `p` -/
def leadRaws (c : String) (p : Nat) : List Raw := (runFrom (commentBody c) p).map (fun x => Raw.comment x.1 x.2)

theorem rawLines_lead (n : Nat) : ∀ (xs : List String) (p : Nat), (∀ x ∈ xs, NoNL x.toList) →
    rawLines (xs.map (fun x => ind n ("//" ++ x))) p = (runFrom xs p).map (fun x => Raw.comment x.1 x.2)
  | [], _, _ => rfl
  | x :: r, p, h => by
    simp only [List.map_cons, rawLines, runFrom]
    rw [lexL_commentLine n x (h x (by simp)) p, rawLines_lead n r (p + 1) (fun y hy => h y (by simp [hy]))]
    rfl

theorem tokens_head {R : List Raw} {L : Nat} (h : ∀ r ∈ R, ∃ t, r = Raw.tok t L) {t : Grammar.Tok} {tl : List PTok}
    (hf : R.filterMap toP = T t L :: tl) : ∃ R1, R = Raw.tok t L :: R1 ∧ R1.filterMap toP = tl := by
  cases R with
  | nil => simp at hf
  | cons r R1 =>
    obtain ⟨t', rfl⟩ := h r (by simp)
    simp only [List.filterMap_cons, toP, List.cons.injEq, T, PTok.mk.injEq, and_true] at hf
    exact ⟨R1, by rw [hf.1], hf.2⟩

theorem attach_firstLine (c : String) (hc : CommentOk c) (p s pl ll : Nat) (s0 : String) (t : Grammar.Tok) (tl0 : List PTok)
    (more : List Raw) (hs : p + (commentBody c).length = s) (hpl : if c = "" then pl < s else pl + 1 < p)
    (htok : TokLine s0) (hnl : NoNL s0.toList) (hhead : lineToks s0 s = T t s :: tl0) :
    attach (leadRaws c p ++ (lexL s0.toList s ++ more)) (some pl) [] ll = hd c (lineToks s0 s) ++ attach more (some s) [] s := by
  have hall := lexL_tokLine s0 s htok hnl
  obtain ⟨R1, hR, hR1⟩ := tokens_head hall (by unfold lineToks at hhead; exact hhead)
  have hall1 : ∀ r ∈ R1, ∃ t, r = Raw.tok t s := fun r hr => hall r (by rw [hR]; simp [hr])
  have hrest := attach_sameLine R1 s s s more hall1
  simp only [ite_self] at hrest
  rw [hhead, hR]
  rcases hc with hc | hc
  · -- no comment
    subst hc
    have : commentBody "" = [] := by simp [commentBody]
    simp only [leadRaws, this, runFrom, List.map_nil, List.nil_append, List.cons_append, attach, attributeCm_nil]
    rw [hrest, hR1]
    rfl
  · obtain ⟨hne, hnoNL, hjoin⟩ := hc
    have hcne : c ≠ "" := by
      intro h0; subst h0; exact hne (by simp [commentBody])
    simp only [hcne, if_false] at hpl
    obtain ⟨x, xs, hxs⟩ := List.exists_cons_of_ne_nil hne
    have hs' : s = p + xs.length + 1 := by rw [← hs, hxs]; simp; omega
    subst hs'
    unfold leadRaws
    rw [hxs, List.cons_append, attach_leading pl p x xs t _ ll hpl, hrest, hR1, combine_run, ← hxs, hjoin]
    rfl

/-! ## what the generic lemmas need of an element: its own lines hold tokens only, its first line starts with one -/

/-- the first line of an element (below its leading comment) -/
def firstLine (n : Nat) : Item → String
  | .field f => if f.popts.isEmpty then leafLine n f else ind n ((fieldLines 0 f).headD "")
  | .rpc _ _ name inT outT os => if os.isEmpty then rpcLine n name inT outT else rpcOpenLine n name inT outT
  | .block kw _ _ _ name os kids =>
    if kids.isEmpty && os.isEmpty then ind n (kw ++ " " ++ name ++ " {}") else ind n (kw ++ " " ++ name ++ " {" ++ "")

def OwnOk (e : Item) : Prop :=
  (∀ n, TokCmds (ownCmds n e)) ∧ (∀ n s, ∃ t tl, lineToks (firstLine n e) s = T t s :: tl)

mutual
def Own : Item → Prop
  | .block kw t l i nm os ks => OwnOk (.block kw t l i nm os ks) ∧ OwnList ks
  | .field f => OwnOk (.field f)
  | .rpc l i a b c os => OwnOk (.rpc l i a b c os)
def OwnList : List Item → Prop
  | [] => True
  | e :: r => Own e ∧ OwnList r
end

theorem Own.ok : ∀ e, Own e → OwnOk e
  | .block _ _ _ _ _ _ _, h => by simp only [Own] at h; exact h.1
  | .field _, h => by simp only [Own] at h; exact h
  | .rpc _ _ _ _ _ _, h => by simp only [Own] at h; exact h

theorem lexAux_ge : ∀ (f : Nat) (cs : List Char) (line : Nat), ∀ r ∈ lexAux f cs line, line ≤ Raw.lineOf r
  | 0, _, _, r, hr => by simp [lexAux] at hr
  | _ + 1, [], _, r, hr => by simp [lexAux] at hr
  | f + 1, c :: cs, line, r, hr => by
    simp only [lexAux] at hr
    split at hr
    · have := lexAux_ge f cs (line + 1) r hr; omega
    · split at hr
      · exact lexAux_ge f cs line r hr
      · split at hr
        · rcases List.mem_cons.mp hr with h1 | h1
          · rw [h1]; exact Nat.le_refl _
          · exact lexAux_ge f _ line r h1
        · split at hr
          · rcases List.mem_cons.mp hr with h1 | h1
            · rw [h1]; exact Nat.le_refl _
            · exact lexAux_ge f _ line r h1
          · split at hr
            · rcases List.mem_cons.mp hr with h1 | h1
              · rw [h1]; exact Nat.le_refl _
              · exact lexAux_ge f _ line r h1
            · split at hr
              · rcases List.mem_cons.mp hr with h1 | h1
                · rw [h1]; exact Nat.le_refl _
                · exact lexAux_ge f _ line r h1
              · rcases List.mem_cons.mp hr with h1 | h1
                · rw [h1]; exact Nat.le_refl _
                · exact lexAux_ge f cs line r h1

theorem lineToks_ge (s : String) (L : Nat) : ∀ t ∈ lineToks s L, L ≤ t.line := by
  intro t ht
  unfold lineToks at ht
  simp only [List.mem_filterMap] at ht
  obtain ⟨r, hr, hrt⟩ := ht
  have := lexAux_ge _ _ L r hr
  cases r with
  | tok tk ln => simp only [toP, Option.some.injEq] at hrt; rw [← hrt]; exact this
  | comment _ _ => simp [toP] at hrt

theorem lexLines_ge : ∀ (ls : List String) (L : Nat), ∀ t ∈ lexLines ls L, L ≤ t.line
  | [], _, t, h => by simp [lexLines] at h
  | s :: r, L, t, h => by
    simp only [lexLines, List.mem_append] at h
    rcases h with h | h
    · exact lineToks_ge s L t h
    · have := lexLines_ge r (L + 1) t h; omega

/-- the first line of a field with options starts with the first token of the field -/
theorem optField_first (f : FieldD) (h : OptField f) (n s : Nat) :
    ∃ t tl, lineToks (ind n ((fieldLines 0 f).headD "")) s = T t s :: tl := by
  obtain ⟨w, raws, e, c, hw, hty, htoks, _, _⟩ := h.read
  obtain ⟨t, tl, hhead, _⟩ := headToks_start f w h.lab hw 0
  obtain ⟨l0, ls, hls⟩ := List.exists_cons_of_ne_nil (fieldLines_ne 0 f)
  rw [hls, List.headD_cons, lineToks_ind]
  have h0 : lineToks l0 0 ++ lexLines ls 1 = ⟨t, 0, Cm.none⟩ :: (tl ++ rdBody f) := by
    have : fieldToks0 f = lineToks l0 0 ++ lexLines ls 1 := by unfold fieldToks0; rw [hls]; rfl
    rw [← this, htoks, hhead]; rfl
  have hne : ∃ tl0, lineToks l0 0 = T t 0 :: tl0 := by
    cases hl : lineToks l0 0 with
    | nil =>
      rw [hl, List.nil_append] at h0
      have := lexLines_ge ls 1 ⟨t, 0, Cm.none⟩ (by rw [h0]; simp)
      simp at this
    | cons a b =>
      rw [hl, List.cons_append] at h0
      simp only [List.cons.injEq] at h0
      exact ⟨b, by rw [h0.1]; rfl⟩
  obtain ⟨tl0, htl0⟩ := hne
  have := lineToks_shift l0 0 s
  rw [Nat.zero_add] at this
  rw [this, htl0]
  exact ⟨t, sh s tl0, by simp [sh, PTok.shift, T]⟩

theorem leaf_ownOk (f : FieldD) (h : SimpleField f ∨ SimpleValue f ∨ MapField f ∨ OptField f) : OwnOk (.field f) := by
  refine ⟨fun n => tokCmds_of_noCh (leaf_own safe_slash n f h) (leaf_own safe_nl n f h), fun n s => ?_⟩
  simp only [firstLine]
  rcases h with h | h | h | h
  · have hpe : f.popts.isEmpty = true := by simp [Leaf.popts (Or.inl h)]
    simp only [hpe, if_true, leafLine, h.1]
    obtain ⟨_, _, _, hlab, hn, _, abs, first, rest, hf, hr, hty, _, hkw⟩ := h
    unfold fieldLine
    rw [hty, lineToks_field n f.label hlab abs first rest f.name f.number s hf hr hn]
    obtain ⟨t, tl, hhead, _⟩ := fieldLineToks_head f.label hlab abs first rest f.name f.number s hkw
    exact ⟨t, tl, hhead⟩
  · have hpe : f.popts.isEmpty = true := by simp [Leaf.popts (Or.inr (Or.inl h))]
    simp only [hpe, if_true, leafLine, h.1]
    unfold valueLine
    rw [lineToks_value n f.name f.number s h.2.2.2.2.2.1]
    exact ⟨_, _, rfl⟩
  · have hpe : f.popts.isEmpty = true := by simp [Leaf.popts (Or.inr (Or.inr h))]
    simp only [hpe, if_true, leafLine, h.1]
    obtain ⟨_, _, _, hlab, hn, _, k, abs, first, rest, hk, hf, hr, hty⟩ := h
    unfold fieldLine
    rw [hty, hlab, lineToks_map n k abs first rest f.name f.number s hk hf hr hn]
    exact ⟨_, _, rfl⟩
  · have hpe : f.popts.isEmpty = false := by simpa using h.nonempty
    simp only [hpe, Bool.false_eq_true, if_false]
    exact optField_first f h n s

theorem block_first (n : Nat) (kw : String) (t : Nat) (l : Loc) (i : Nat) (name : String) (os : List SOpt) (kids : List Item)
    (hkw : IsIdent kw) (hname : IsIdent name) (s : Nat) :
    ∃ tk tl, lineToks (firstLine n (.block kw t l i name os kids)) s = T tk s :: tl := by
  simp only [firstLine]
  split
  · rw [lineToks_empty n kw name s hkw hname]; exact ⟨_, _, rfl⟩
  · rw [lineToks_open n kw name s hkw hname]; exact ⟨_, _, rfl⟩

mutual
theorem SimpleItem.own : ∀ e, SimpleItem e → Own e
  | .field f, h => by
    simp only [SimpleItem] at h
    simp only [Own]
    apply leaf_ownOk
    rcases h with h | h | h
    · exact Or.inl h
    · exact Or.inr (Or.inr (Or.inl h))
    · exact Or.inr (Or.inr (Or.inr h))
  | .rpc _ _ _ _ _ _, h => h.elim
  | .block kw t l i name os ks, h => by
    have h0 := h
    simp only [SimpleItem] at h
    obtain ⟨hl, ho, hname, hcase⟩ := h
    simp only [Own]
    have hkw : IsIdent kw := by
      rcases hcase with ⟨h, _⟩ | ⟨h, _⟩ | ⟨h, _⟩ <;> rw [h]
      · exact isIdent_message
      · exact isIdent_enum
      · exact isIdent_oneof
    refine ⟨⟨fun n => tokCmds_of_noCh (simpleItem_own safe_slash _ n h0) (simpleItem_own safe_nl _ n h0),
      fun n s => block_first n kw t l i name os ks hkw hname s⟩, ?_⟩
    rcases hcase with hm | he | ho'
    · exact SimpleKids.own ks hm.2.2
    · exact SimpleValues.own ks he.2.2
    · exact SimpleMembers.own ks ho'.2.2.2.1
theorem SimpleKids.own : ∀ es, SimpleKids es → OwnList es
  | [], _ => trivial
  | e :: r, h => by
    simp only [SimpleKids] at h
    exact ⟨SimpleItem.own e h.1, SimpleKids.own r h.2.2⟩
theorem SimpleValues.own : ∀ es, SimpleValues es → OwnList es
  | [], _ => trivial
  | .field f :: r, h => by
    simp only [SimpleValues] at h
    refine ⟨?_, SimpleValues.own r h.2.2⟩
    simp only [Own]
    exact leaf_ownOk f (Or.inr (Or.inl h.1))
  | .rpc _ _ _ _ _ _ :: _, h => by simp [SimpleValues] at h
  | .block _ _ _ _ _ _ _ :: _, h => by simp [SimpleValues] at h
theorem SimpleMembers.own : ∀ es, SimpleMembers es → OwnList es
  | [], _ => trivial
  | .field f :: r, h => by
    simp only [SimpleMembers] at h
    refine ⟨?_, SimpleMembers.own r h.2.2⟩
    simp only [Own]
    apply leaf_ownOk
    rcases h.1.1 with h1 | h1
    · exact Or.inl h1
    · exact Or.inr (Or.inr (Or.inr h1))
  | .rpc _ _ _ _ _ _ :: _, h => by simp [SimpleMembers] at h
  | .block _ _ _ _ _ _ _ :: _, h => by simp [SimpleMembers] at h
end

theorem SimpleRpc.own : ∀ e, SimpleRpc e → Own e
  | .rpc l i name inT outT os, h => by
    have h0 := h
    obtain ⟨hl, ho, hname, ⟨sI, aI, fI, rI, hfI, hrI, hin, _⟩, ⟨sO, aO, fO, rO, hfO, hrO, hout, _⟩⟩ := h
    simp only [Own]
    refine ⟨fun n => tokCmds_of_noCh (simpleRpc_own safe_slash _ n h0) (simpleRpc_own safe_nl _ n h0), fun n s => ?_⟩
    subst hin hout
    simp only [firstLine]
    split
    · rw [lineToks_rpc n name sI aI fI rI sO aO fO rO s hname hfI hrI hfO hrO]; exact ⟨_, _, rfl⟩
    · rw [lineToks_rpcOpen n name sI aI fI rI sO aO fO rO s hname hfI hrI hfO hrO]; exact ⟨_, _, rfl⟩
  | .field _, h => h.elim
  | .block _ _ _ _ _ _ _, h => h.elim

theorem SimpleRpcs.own : ∀ es, SimpleRpcs es → OwnList es
  | [], _ => trivial
  | e :: r, h => ⟨SimpleRpc.own e h.1, SimpleRpcs.own r h.2.2⟩

theorem SimpleService.own : ∀ e, SimpleService e → Own e
  | .block kw t l i name os ks, h => by
    have h0 := h
    obtain ⟨hl, ho, hname, hkw, _, hk⟩ := h
    simp only [Own]
    subst hkw
    exact ⟨⟨fun n => tokCmds_of_noCh (simpleService_own safe_slash _ n h0) (simpleService_own safe_nl _ n h0),
      fun n s => block_first n "service" t l i name os ks isIdent_service hname s⟩, SimpleRpcs.own ks hk⟩
  | .field _, h => h.elim
  | .rpc _ _ _ _ _ _, h => h.elim

theorem SimpleTops.own : ∀ es, SimpleTops es → OwnList es
  | [], _ => trivial
  | e :: r, h => by
    simp only [SimpleTops] at h
    refine ⟨?_, SimpleTops.own r h.2.2⟩
    rcases h.1 with hs | hs
    · exact SimpleItem.own e hs.1
    · exact SimpleService.own e hs

/-! ## no printed line holds a line break -/

def CmdsNoNL (cmds : List Cmd) : Prop :=
  ∀ c ∈ cmds, match c with
    | .line s => NoNL s.toList
    | .endl s => NoNL s.toList
    | .gap => True

theorem CmdsNoNL.append {a b : List Cmd} (ha : CmdsNoNL a) (hb : CmdsNoNL b) : CmdsNoNL (a ++ b) := by
  intro c hc
  rcases List.mem_append.mp hc with h | h
  · exact ha c h
  · exact hb c h

theorem TokCmds.noNL {a : List Cmd} (h : TokCmds a) : CmdsNoNL a := by
  intro c hc
  have := h c hc
  cases c with
  | line s => exact this.2
  | endl s => exact this.2
  | gap => trivial

theorem cmdsNoNL_gapIf (c : Bool) : CmdsNoNL (if c then [Cmd.gap] else []) := by
  intro x hx
  cases c
  · simp at hx
  · simp only [if_true, List.mem_singleton] at hx; subst hx; trivial

theorem noNL_ind (n : Nat) (s : String) (h : NoNL s.toList) : NoNL (ind n s).toList := noCh_ind safe_nl n s h

theorem lead_noNL (n : Nat) {l : Loc} (hl : l.leadOnly) (hc : CommentOk l.leading) : CmdsNoNL (leadingCmds n l) := by
  rw [leadingCmds_lead n hl]
  split
  · intro c hc'; simp at hc'
  · rename_i hne
    rcases hc with hc | hc
    · exact absurd hc hne
    · intro c hc'
      simp only [List.mem_cons, List.mem_map, leadLines] at hc'
      rcases hc' with rfl | ⟨s, ⟨x, hx, rfl⟩, rfl⟩
      · trivial
      · simp only []
        apply noNL_ind
        simp only [String.toList_append]
        intro ch hch
        rcases List.mem_append.mp hch with h1 | h1
        · have : ("//".toList : List Char) = ['/', '/'] := by decide
          rw [this] at h1
          simp only [List.mem_cons, List.not_mem_nil, or_false, or_self] at h1
          rw [h1]; decide
        · exact hc.2.1 x hx ch h1

theorem own_sub_block (n : Nat) (kw : String) (t : Nat) (l : Loc) (i : Nat) (name : String) (os : List SOpt) (kids : List Item) :
    ∀ c ∈ [Cmd.line (ind n (kw ++ " " ++ name ++ " {}")), Cmd.line (ind n (kw ++ " " ++ name ++ " {" ++ "")),
        Cmd.endl (ind n "}")] ++ ((sortOpts os).map (fun o => optionCmds (n + 1) o ++ [Cmd.gap])).flatten,
      c ∈ ownCmds n (.block kw t l i name os kids) := by
  intro c hc
  simp only [ownCmds]
  simpa using hc

mutual
theorem body_noNL : ∀ (e : Item), Plain e → Own e → ∀ n, CmdsNoNL (bodyCmds n e)
  | .field f, _, ho, n => by
    simp only [Own] at ho
    exact (ho.1 n).noNL
  | .rpc _ _ _ _ _ _, _, ho, n => by
    simp only [Own] at ho
    exact (ho.1 n).noNL
  | .block kw t l i name os kids, hp, ho, n => by
    simp only [Plain] at hp
    simp only [Own] at ho
    have hown := (ho.1.1 n).noNL
    have hsub := own_sub_block n kw t l i name os kids
    rw [blockCmds_opts n kw t l i name os kids hp.1]
    have hk := elems_noNL kids hp.2.2 ho.2 (n + 1) true 0 0
    intro c hc
    rcases List.mem_append.mp hc with h1 | h1
    · split at h1
      · exact hown c (hsub c (by simp only [List.mem_singleton] at h1; simp [h1]))
      · rcases List.mem_append.mp h1 with h2 | h2
        · exact hown c (hsub c (by simp only [List.mem_singleton] at h2; simp [h2]))
        · rcases List.mem_append.mp h2 with h3 | h3
          · exact hown c (hsub c (List.mem_append_right _ h3))
          · rcases List.mem_append.mp h3 with h4 | h4
            · exact hk c h4
            · exact hown c (hsub c (by simp only [List.mem_singleton] at h4; simp [h4]))
    · simp only [List.mem_singleton] at h1; subst h1; trivial
theorem elems_noNL : ∀ (es : List Item), PlainList es → OwnList es → ∀ (n : Nat) (first : Bool) (le0 lt : Nat),
    CmdsNoNL (elemsCmds n es first le0 lt)
  | [], _, _, _, _, _, _ => by intro c hc; simp [elemsCmds] at hc
  | e :: r, hp, ho, n, first, le0, lt => by
    simp only [PlainList] at hp
    simp only [OwnList] at ho
    rw [elemsCmds_cons_unloc]
    exact CmdsNoNL.append (CmdsNoNL.append (CmdsNoNL.append (cmdsNoNL_gapIf _)
      (lead_noNL n (Plain.loc e hp.1) hp.2.1)) (body_noNL e hp.1 ho.1 n)) (elems_noNL r hp.2.2 ho.2 n false _ _)
end

/-! ## the bridge: `attach` over the raw items of the printed elements gives `kT` -/

theorem rawsC_line (s0 : String) (B' : List Cmd) (s : Nat) :
    rawsC (Cmd.line s0 :: B') false s = lexL s0.toList s ++ rawsC B' false (s + 1) := by
  simp [rawsC, exec, rawLines]

theorem toksOf_lineCons (s0 : String) (B' : List Cmd) (s : Nat) :
    toksOf (Cmd.line s0 :: B') false s = lineToks s0 s ++ toksOf B' false (s + 1) := by
  simp [toksOf, exec, lexLines]

theorem nLines_lineCons (s0 : String) (B' : List Cmd) : nLines (Cmd.line s0 :: B') false = 1 + nLines B' false := by
  simp [nLines, exec]; omega

/-- a command list that starts with a line: a pending gap only moves it down one line -/
theorem rawsC_start (s0 : String) (X : List Cmd) (g : Bool) (L : Nat) :
    rawsC (Cmd.line s0 :: X) g L = rawsC (Cmd.line s0 :: X) false (startLine g L) := by
  cases g
  · rfl
  · have h0 : lexL "".toList L = [] := by
      have : ("".toList : List Char) = [] := by decide
      rw [this, lexL_nil]
    simp [rawsC, exec, rawLines, startLine, lexL_nil]

theorem hd_append_T (c : String) (t : Grammar.Tok) (l : Nat) (tl b : List PTok) :
    hd c ((T t l :: tl) ++ b) = hd c (T t l :: tl) ++ b := rfl

/-- a comment-free element below its leading comment -/
theorem bridge_tok (c : String) (hc : CommentOk c) (p s pl ll : Nat) (s0 : String) (B' : List Cmd) (more : List Raw)
    (hs : p + (commentBody c).length = s) (hpl : if c = "" then pl < s else pl + 1 < p)
    (htk : TokCmds (Cmd.line s0 :: B')) (hhead : ∃ t tl, lineToks s0 s = T t s :: tl) :
    ∃ pl' ll', pl' < s + nLines (Cmd.line s0 :: B') false ∧
      attach (leadRaws c p ++ (rawsC (Cmd.line s0 :: B') false s ++ more)) (some pl) [] ll =
        hd c (toksOf (Cmd.line s0 :: B') false s) ++ attach more (some pl') [] ll' := by
  obtain ⟨t, tl, hh⟩ := hhead
  have h0 := htk (Cmd.line s0) (by simp)
  have hB' : TokCmds B' := fun x hx => htk x (by simp [hx])
  obtain ⟨pl', ll', hb, heq⟩ := attach_piece B' hB' false (s + 1) s s more (by omega)
  refine ⟨pl', ll', by rw [nLines_lineCons]; omega, ?_⟩
  rw [rawsC_line, toksOf_lineCons, List.append_assoc, attach_firstLine c hc p s pl ll s0 t tl _ hs hpl h0.1 h0.2 hh, heq, hh,
    hd_append_T, List.append_assoc]

theorem body_first : ∀ (e : Item), Plain e → ∀ n, ∃ B', bodyCmds n e = Cmd.line (firstLine n e) :: B'
  | .field f, h, n => by
    simp only [Plain] at h
    by_cases hp : f.popts = []
    · have hleaf : Leaf f := by
        rcases h with h | h | h | h
        · exact Or.inl h
        · exact Or.inr (Or.inl h)
        · exact Or.inr (Or.inr h)
        · exact absurd hp h.nonempty
      have hpe : f.popts.isEmpty = true := by simp [hp]
      exact ⟨[], by simp only [firstLine, hpe, if_true]; exact fieldCmds_leaf n f hleaf⟩
    · have ho : OptField f := by
        rcases h with h | h | h | h
        · exact absurd (Leaf.popts (Or.inl h)) hp
        · exact absurd (Leaf.popts (Or.inr (Or.inl h))) hp
        · exact absurd (Leaf.popts (Or.inr (Or.inr h))) hp
        · exact h
      have hpe : f.popts.isEmpty = false := by simpa using hp
      obtain ⟨l0, ls, hls⟩ := List.exists_cons_of_ne_nil (fieldLines_ne 0 f)
      refine ⟨(ls.map (ind n)).map Cmd.line, ?_⟩
      rw [fieldCmds_lines n f ho.loc, fieldLines_ind n f, hls]
      simp [firstLine, hpe, hls]
  | .rpc l i name inT outT os, h, n => by
    simp only [Plain] at h
    by_cases hemp : os.isEmpty = true
    · have : os = [] := by simpa using hemp
      subst this
      exact ⟨[Cmd.gap], by rw [rpcCmds_plain n l i name inT outT h.1]; simp [firstLine]⟩
    · have hne : os.isEmpty = false := by simpa using hemp
      refine ⟨((sortOpts os).map (optionCmds (n + 1))).flatten ++ ([Cmd.endl (ind n "}")] ++ [Cmd.gap]), ?_⟩
      rw [rpcCmds_opts n l i name inT outT os h.1 hne]
      simp only [firstLine, hne, Bool.false_eq_true, if_false]
      rfl
  | .block kw t l i name os kids, h, n => by
    simp only [Plain] at h
    rw [blockCmds_opts n kw t l i name os kids h.1]
    simp only [firstLine]
    split
    · exact ⟨[Cmd.gap], rfl⟩
    · exact ⟨_, rfl⟩

/-- what the gap of `printElements` and a leading comment write before an element -/
theorem lead_raws (n : Nat) (e : Item) (hl : e.loc.leadOnly) (hc : CommentOk e.loc.leading) (first : Bool) (le0 lt : Nat)
    (g : Bool) (L : Nat) :
    ∃ p, rawsC ((if gapBefore first le0 lt e = true then [Cmd.gap] else []) ++ leadingCmds n e.loc) g L =
        leadRaws e.loc.leading p ∧
      p + (commentBody e.loc.leading).length = kidS e first le0 lt L g ∧
      (if e.loc.leading = "" then L ≤ p else p = L + 1) := by
  rw [leadingCmds_lead n hl]
  by_cases hlead : e.loc.leading = ""
  · refine ⟨kidS e first le0 lt L g, ?_, ?_, ?_⟩
    · have : commentBody "" = [] := by simp [commentBody]
      simp [hlead, rawsC, exec_gapIf, rawLines, leadRaws, this, runFrom]
    · have : commentBody "" = [] := by simp [commentBody]
      simp [hlead, this]
    · simp only [hlead, if_true]
      exact kidStart_ge _ _ _ _
  · refine ⟨L + 1, ?_, ?_, by simp [hlead]⟩
    · rcases hc with hc | hc
      · exact absurd hc hlead
      · have hne : leadLines n e.loc.leading ≠ [] := by
          unfold leadLines
          intro h0
          exact hc.1 (List.map_eq_nil_iff.mp h0)
        obtain ⟨e1, e2⟩ := exec_lines_map (leadLines n e.loc.leading) true hne
        have hx : exec ((if gapBefore first le0 lt e = true then [Cmd.gap] else []) ++
            Cmd.gap :: (leadLines n e.loc.leading).map Cmd.line) g = ("" :: leadLines n e.loc.leading, false) := by
          rw [exec_append, exec_gapIf]
          simp only [exec, e1, e2, if_true, List.nil_append, List.cons_append]
        have h0 : lexL "".toList L = [] := by
          have : ("".toList : List Char) = [] := by decide
          rw [this, lexL_nil]
        simp only [hlead, if_false, rawsC, hx, rawLines, h0, List.nil_append]
        unfold leadLines leadRaws
        exact rawLines_lead n _ _ hc.2.1
    · simp [kidS, kidStart, hlead]

mutual
theorem bridge_item : ∀ (e : Item), Plain e → Own e → ∀ (n : Nat) (c : String), CommentOk c →
    ∀ (p s pl ll : Nat) (more : List Raw),
    p + (commentBody c).length = s → (if c = "" then pl < s else pl + 1 < p) →
    ∃ pl' ll', pl' < s + nLines (bodyCmds n e) false ∧
      attach (leadRaws c p ++ (rawsC (bodyCmds n e) false s ++ more)) (some pl) [] ll =
        hd c (itemToks n e s) ++ attach more (some pl') [] ll'
  | .field f, hp, ho, n, c, hc, p, s, pl, ll, more, hs, hpl => by
    obtain ⟨B', hB⟩ := body_first (.field f) hp n
    have hok := Own.ok _ ho
    have htk : TokCmds (bodyCmds n (.field f)) := hok.1 n
    have htoks : toksOf (bodyCmds n (.field f)) false s = itemToks n (.field f) s := (lay_item (.field f) hp n false s).1
    rw [← htoks, hB]
    rw [hB] at htk
    exact bridge_tok c hc p s pl ll _ B' more hs hpl htk (hok.2 n s)
  | .rpc l i name inT outT os, hp, ho, n, c, hc, p, s, pl, ll, more, hs, hpl => by
    obtain ⟨B', hB⟩ := body_first (.rpc l i name inT outT os) hp n
    have hok := Own.ok _ ho
    have htk : TokCmds (bodyCmds n (.rpc l i name inT outT os)) := hok.1 n
    have htoks : toksOf (bodyCmds n (.rpc l i name inT outT os)) false s = itemToks n (.rpc l i name inT outT os) s :=
      (lay_item (.rpc l i name inT outT os) hp n false s).1
    rw [← htoks, hB]
    rw [hB] at htk
    exact bridge_tok c hc p s pl ll _ B' more hs hpl htk (hok.2 n s)
  | .block kw t l i name os kids, hp, ho, n, c, hc, p, s, pl, ll, more, hs, hpl => by
    have hp0 := hp
    simp only [Plain] at hp
    obtain ⟨hl, hbo, hk⟩ := hp
    simp only [Own] at ho
    obtain ⟨⟨htk, hfirst⟩, hok⟩ := ho
    have hsub := own_sub_block n kw t l i name os kids
    have hown := htk n
    obtain ⟨t0, tl0, hh⟩ := hfirst n s
    have i2 := (lay_item (.block kw t l i name os kids) hp0 n false s).2.1
    rw [blockCmds_opts n kw t l i name os kids hl] at i2 ⊢
    by_cases hempty : (kids.isEmpty && os.isEmpty) = true
    · -- `kw name {}`
      simp only [hempty, if_true, itemToks, firstLine] at hh i2 ⊢
      have htk1 : TokCmds (Cmd.line (ind n (kw ++ " " ++ name ++ " {}")) :: [Cmd.gap]) := by
        intro x hx
        simp only [List.mem_cons, List.not_mem_nil, or_false] at hx
        rcases hx with rfl | rfl
        · exact hown (Cmd.line (ind n (kw ++ " " ++ name ++ " {}"))) (hsub _ (by simp))
        · trivial
      obtain ⟨pl', ll', hb, heq⟩ := bridge_tok c hc p s pl ll _ [Cmd.gap] more hs hpl htk1 ⟨t0, tl0, hh⟩
      refine ⟨pl', ll', hb, ?_⟩
      have e1 : ([Cmd.line (ind n (kw ++ " " ++ name ++ " {}"))] ++ [Cmd.gap]) =
          Cmd.line (ind n (kw ++ " " ++ name ++ " {}")) :: [Cmd.gap] := rfl
      rw [e1, heq, toksOf_lineCons]
      simp [toksOf_gap]
    · have hne : (kids.isEmpty && os.isEmpty) = false := by simpa using hempty
      simp only [hne, Bool.false_eq_true, if_false, itemToks, firstLine] at hh i2 ⊢
      obtain ⟨o1, o2, o3⟩ := lay_opts n os s
      obtain ⟨_, k2, k3⟩ := lay_kids kids hk (n + 1) true 0 0 (!os.isEmpty) (s + 1 + optSpan os)
      -- the pieces
      have hhdr := hown (Cmd.line (ind n (kw ++ " " ++ name ++ " {" ++ ""))) (hsub _ (by simp))
      have hO : TokCmds ((sortOpts os).map (fun o => optionCmds (n + 1) o ++ [Cmd.gap])).flatten :=
        fun x hx => hown x (hsub x (List.mem_append_right _ hx))
      have hC : TokCmds [Cmd.endl (ind n "}"), Cmd.gap] := by
        intro x hx
        simp only [List.mem_cons, List.not_mem_nil, or_false] at hx
        rcases hx with rfl | rfl
        · exact hown (Cmd.endl (ind n "}")) (hsub _ (by simp))
        · trivial
      -- the raw items, piece by piece
      have hassoc : ([Cmd.line (ind n (kw ++ " " ++ name ++ " {" ++ ""))] ++
            (((sortOpts os).map (fun o => optionCmds (n + 1) o ++ [Cmd.gap])).flatten ++
              (elemsCmds (n + 1) kids true 0 0 ++ [Cmd.endl (ind n "}")])) ++ [Cmd.gap]) =
          Cmd.line (ind n (kw ++ " " ++ name ++ " {" ++ "")) ::
            (((sortOpts os).map (fun o => optionCmds (n + 1) o ++ [Cmd.gap])).flatten ++
              (elemsCmds (n + 1) kids true 0 0 ++ [Cmd.endl (ind n "}"), Cmd.gap])) := by
        simp [List.append_assoc]
      rw [hassoc] at i2 ⊢
      rw [rawsC_line, rawsC_append, rawsC_append, o2, o3, k3]
      have hL : s + 1 + optSpan os + nLines (elemsCmds (n + 1) kids true 0 0) (!os.isEmpty) =
          (rdKids kids true 0 0 (s + 1 + optSpan os) (!os.isEmpty)).2 := k2
      rw [hL]
      simp only [List.append_assoc]
      rw [attach_firstLine c hc p s pl ll _ t0 tl0 _ hs hpl hhdr.1 hhdr.2 hh]
      obtain ⟨pl1, ll1, hb1, heq1⟩ := attach_piece _ hO false (s + 1) s s
        (rawsC (elemsCmds (n + 1) kids true 0 0) (!os.isEmpty) (s + 1 + optSpan os) ++
          (rawsC [Cmd.endl (ind n "}"), Cmd.gap] (endFlag kids (!os.isEmpty))
            (rdKids kids true 0 0 (s + 1 + optSpan os) (!os.isEmpty)).2 ++ more)) (by omega)
      rw [heq1, o1]
      rw [o2] at hb1
      obtain ⟨pl2, ll2, hb2, heq2⟩ := bridge_kids kids hk hok (n + 1) true 0 0 (!os.isEmpty) (s + 1 + optSpan os) pl1 ll1
        (rawsC [Cmd.endl (ind n "}"), Cmd.gap] (endFlag kids (!os.isEmpty))
            (rdKids kids true 0 0 (s + 1 + optSpan os) (!os.isEmpty)).2 ++ more) hb1
      rw [heq2]
      rw [hL] at hb2
      obtain ⟨pl3, ll3, hb3, heq3⟩ := attach_piece _ hC (endFlag kids (!os.isEmpty))
        (rdKids kids true 0 0 (s + 1 + optSpan os) (!os.isEmpty)).2 pl2 ll2 more hb2
      rw [heq3]
      have htc : toksOf [Cmd.endl (ind n "}"), Cmd.gap] (endFlag kids (!os.isEmpty))
          (rdKids kids true 0 0 (s + 1 + optSpan os) (!os.isEmpty)).2 =
          lineToks (ind n "}") (rdKids kids true 0 0 (s + 1 + optSpan os) (!os.isEmpty)).2 := by
        simp [toksOf, exec, lexLines]
      have hnc : nLines [Cmd.endl (ind n "}"), Cmd.gap] (endFlag kids (!os.isEmpty)) = 1 := by simp [nLines, exec]
      rw [hnc] at hb3
      refine ⟨pl3, ll3, ?_, ?_⟩
      · simp only [rdItem, hne, Bool.false_eq_true, if_false, startLine] at i2
        omega
      · rw [htc, hh, hd_append_T]
        simp only [List.append_assoc, List.cons_append]
theorem bridge_kids : ∀ (es : List Item), PlainList es → OwnList es → ∀ (n : Nat) (first : Bool) (le0 lt : Nat) (g : Bool)
    (L pl ll : Nat) (more : List Raw), pl < L →
    ∃ pl' ll', pl' < L + nLines (elemsCmds n es first le0 lt) g ∧
      attach (rawsC (elemsCmds n es first le0 lt) g L ++ more) (some pl) [] ll =
        kT n es first le0 lt g L ++ attach more (some pl') [] ll'
  | [], _, _, n, first, le0, lt, g, L, pl, ll, more, hpl =>
    ⟨pl, ll, by simpa [elemsCmds, nLines, exec] using hpl, by simp [elemsCmds, rawsC, exec, rawLines, kT_nil]⟩
  | e :: r, hp, ho, n, first, le0, lt, g, L, pl, ll, more, hpl => by
    simp only [PlainList] at hp
    obtain ⟨he, hc, hr⟩ := hp
    simp only [OwnList] at ho
    have hP := lead_exec n e (Plain.loc e he) hc first le0 lt g L
    obtain ⟨p, hraw, hps, hpp⟩ := lead_raws n e (Plain.loc e he) hc first le0 lt g L
    obtain ⟨B', hB⟩ := body_first e he n
    rw [elemsCmds_cons_unloc, kT_cons]
    generalize hPd : (if gapBefore first le0 lt e = true then [Cmd.gap] else []) ++ leadingCmds n e.loc = P at hP hraw ⊢
    obtain ⟨_, i2, i3⟩ := lay_item e he n (exec P g).2 (L + nLines P g)
    obtain ⟨_, j2, j3⟩ := lay_item e he n false (kidS e first le0 lt L g)
    rw [hP] at i2
    simp only [startLine, Bool.false_eq_true, if_false] at j2
    have hsplit : rawsC (P ++ bodyCmds n e ++ elemsCmds n r false e.loc.endLine e.typeOrder) g L =
        leadRaws e.loc.leading p ++ (rawsC (bodyCmds n e) false (kidS e first le0 lt L g) ++
          rawsC (elemsCmds n r false e.loc.endLine e.typeOrder) e.gapEnder (rdItem e (kidS e first le0 lt L g)).2) := by
      rw [List.append_assoc, rawsC_append, hraw]
      congr 1
      rw [hB, List.cons_append, rawsC_start, hP, ← List.cons_append, ← hB, rawsC_append, j3, j2]
    rw [hsplit]
    simp only [List.append_assoc]
    have hpl' : if e.loc.leading = "" then pl < kidS e first le0 lt L g else pl + 1 < p := by
      split
      · rename_i h0
        simp only [h0, if_true] at hpp
        have : commentBody "" = [] := by simp [commentBody]
        rw [h0, this] at hps
        simp only [List.length_nil, Nat.add_zero] at hps
        omega
      · rename_i h0
        simp only [h0, if_false] at hpp
        omega
    obtain ⟨pl1, ll1, hb1, heq1⟩ := bridge_item e he ho.1 n e.loc.leading hc p (kidS e first le0 lt L g) pl ll
      (rawsC (elemsCmds n r false e.loc.endLine e.typeOrder) e.gapEnder (rdItem e (kidS e first le0 lt L g)).2 ++ more) hps hpl'
    rw [heq1]
    rw [j2] at hb1
    obtain ⟨pl2, ll2, hb2, heq2⟩ := bridge_kids r hr ho.2 n false e.loc.endLine e.typeOrder e.gapEnder
      (rdItem e (kidS e first le0 lt L g)).2 pl1 ll1 more hb1
    rw [heq2]
    refine ⟨pl2, ll2, ?_, by simp only [List.append_assoc]⟩
    simp only [nLines_append, exec_append_snd, i3]
    omega
end

end J5V.Print.Reparse
