import J5V.Print.Scalar
/-! Lemmas about `J5V.Print.Scalar` (core only): the integer reader undoes the integer writer. -/
namespace J5V.Print.Scalar

theorem digitChar_toNat : ∀ d, d < 10 → (digitChar d).toNat = 48 + d := by decide

theorem digitVal_digitChar (d : Nat) (h : d < 10) : digitVal 10 (digitChar d) = some d := by
  have := digitChar_toNat d h
  unfold digitVal
  simp only [this]
  have h1 : 48 ≤ 48 + d ∧ 48 + d ≤ 57 := by omega
  simp only [h1, and_self, if_true]
  have : 48 + d - 48 = d := by omega
  simp [this, h]

theorem readDigits_append (b : Nat) : ∀ (l₁ l₂ : List Char) (acc : Nat),
    readDigits b (l₁ ++ l₂) acc = (readDigits b l₁ acc).bind (readDigits b l₂ ·)
  | [], _, _ => rfl
  | c :: cs, l₂, acc => by
    simp only [List.cons_append, readDigits]
    cases digitVal b c with
    | none => rfl
    | some d => exact readDigits_append b cs l₂ _

theorem readDigits_natDigits (n : Nat) : readDigits 10 (natDigits n) 0 = some n := by
  induction n using Nat.strongRecOn with
  | _ n ih =>
    unfold natDigits
    split
    · rename_i h
      simp [readDigits, digitVal_digitChar n h]
    · rename_i h
      rw [readDigits_append, ih (n / 10) (by omega)]
      simp only [Option.bind_some, readDigits, digitVal_digitChar (n % 10) (by omega)]
      congr 1
      omega

/-- the first digit of a positive number is not zero -/
theorem natDigits_head (n : Nat) (h : 1 ≤ n) : ∃ d rest, natDigits n = digitChar d :: rest ∧ 1 ≤ d ∧ d < 10 := by
  induction n using Nat.strongRecOn with
  | _ n ih =>
    unfold natDigits
    split
    · rename_i hlt
      exact ⟨n, [], rfl, h, hlt⟩
    · rename_i hge
      obtain ⟨d, rest, hd, h1, h2⟩ := ih (n / 10) (by omega) (by omega)
      exact ⟨d, rest ++ [digitChar (n % 10)], by rw [hd]; rfl, h1, h2⟩

theorem digitChar_ne_zero (d : Nat) (h1 : 1 ≤ d) (h2 : d < 10) : digitChar d ≠ '0' := by
  intro h
  have := congrArg Char.toNat h
  rw [digitChar_toNat d h2] at this
  have h0 : ('0' : Char).toNat = 48 := by decide
  omega

theorem digitChar_ne_minus (d : Nat) (h2 : d < 10) : digitChar d ≠ '-' := by
  intro h
  have := congrArg Char.toNat h
  rw [digitChar_toNat d h2] at this
  have h0 : ('-' : Char).toNat = 45 := by decide
  omega

theorem readNatLit_natDigits (n : Nat) : readNatLit (natDigits n) = some n := by
  by_cases h0 : n = 0
  · subst h0
    unfold natDigits
    simp [readNatLit, digitChar]
  · obtain ⟨d, rest, hd, h1, h2⟩ := natDigits_head n (by omega)
    have := readDigits_natDigits n
    rw [hd] at this ⊢
    unfold readNatLit
    simp only [digitChar_ne_zero d h1 h2, if_false]
    exact this

theorem natDigits_ne_nil (n : Nat) : natDigits n ≠ [] := by
  unfold natDigits
  split <;> simp

theorem natDigits_head_digit (n : Nat) : ∃ d rest, natDigits n = digitChar d :: rest ∧ d < 10 := by
  by_cases h0 : n = 0
  · subst h0
    exact ⟨0, [], by unfold natDigits; simp, by omega⟩
  · obtain ⟨d, rest, hd, _, h2⟩ := natDigits_head n (by omega)
    exact ⟨d, rest, hd, h2⟩

theorem readIntLit_intDigits (n : Int) : readIntLit (intDigits n) = some n := by
  unfold intDigits
  split
  · rename_i hneg
    simp only [readIntLit, if_true, readNatLit_natDigits]
    have : -(n.natAbs : Int) = n := by omega
    simp [this]
  · rename_i hpos
    obtain ⟨d, rest, hd, h2⟩ := natDigits_head_digit n.natAbs
    have := readNatLit_natDigits n.natAbs
    rw [hd] at this ⊢
    simp only [readIntLit, digitChar_ne_minus d h2, if_false, this]
    have : (n.natAbs : Int) = n := by omega
    simp [this]

end J5V.Print.Scalar
