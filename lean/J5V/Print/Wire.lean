import J5V.Go.Hex
import J5V.Print.Layout
import J5V.Print.Grammar
/-!
# Wire format of descriptor summaries (stream `print.file`; core only)

Decoder (tokens → `Layout.FileD`) and encoder for the second summary. See
`/verif/harness/PROTOCOL-print.md`.
-/
namespace J5V.Print.Wire
open J5V.Go J5V.Print J5V.Print.OptionText J5V.Print.Layout

/-- bytes → `String` (UTF-8; ill-formed input falls back to one character per byte) -/
def bytesToStr (bs : List Nat) : String :=
  match String.fromUTF8? (ByteArray.mk (bs.map (·.toUInt8)).toArray) with
  | some s => s
  | none => String.ofList (bs.map Char.ofNat)

def strToBytes (s : String) : List Nat := s.toUTF8.toList.map (·.toNat)

def hexS (s : String) : Option String := (fromHex s).map bytesToStr
def encS (s : String) : String := toHexW (strToBytes s)

abbrev P (α : Type) := List String → Option (α × List String)

def pHex : P String
  | t :: r => (hexS t).map (·, r)
  | [] => none

def pNat : P Nat
  | t :: r => t.toNat?.map (·, r)
  | [] => none

def pInt : P Int
  | t :: r => t.toInt?.map (·, r)
  | [] => none

def pFlag : P Bool
  | "0" :: r => some (false, r)
  | "1" :: r => some (true, r)
  | _ => none

/-- `n` repetitions of `p` -/
def pMany {α} (p : P α) : Nat → P (List α)
  | 0, ts => some ([], ts)
  | n + 1, ts => do
    let (a, r) ← p ts
    let (as, r') ← pMany p n r
    pure (a :: as, r')

mutual
/-- option value trees in prefix notation: `S key val` | `M key n kids…` | `A key n kids…` -/
def pTree : Nat → P Opt
  | 0, _ => none
  | f + 1, ts =>
    match ts with
    | "S" :: k :: v :: r => do
      let k ← hexS k; let v ← hexS v
      pure (.scalar k v, r)
    | "M" :: k :: n :: r => do
      let k ← hexS k; let n ← n.toNat?
      let (ks, r') ← pTrees f n r
      pure (.msg k ks, r')
    | "A" :: k :: n :: r => do
      let k ← hexS k; let n ← n.toNat?
      let (ks, r') ← pTrees f n r
      pure (.arr k ks, r')
    | _ => none
def pTrees : Nat → Nat → P (List Opt)
  | 0, _, _ => none
  | _ + 1, 0, ts => some ([], ts)
  | f + 1, n + 1, ts => do
    let (a, r) ← pTree f ts
    let (as, r') ← pTrees f n r
    pure (a :: as, r')
end

def pLoc : P Loc
  | "L" :: ts => do
    let (s, r) ← pNat ts
    let (e, r) ← pNat r
    let (n, r) ← pNat r
    let (det, r) ← pMany pHex n r
    let (lead, r) ← pHex r
    let (trail, r) ← pHex r
    pure (⟨s, e, det, lead, trail⟩, r)
  | _ => none

def pOpt (fuel : Nat) : P OptD
  | "O" :: ts => do
    let (full, r) ← pHex ts
    let (isExt, r) ← pFlag r
    let (rel, r) ← pHex r
    let (hasLoc, r) ← pFlag r
    let (single, r) ← pFlag r
    let (inl, r) ← pFlag r
    let (start, r) ← pNat r
    let (idx, r) ← pNat r
    let (tree, r) ← pTree fuel r
    pure (⟨full, isExt, rel, tree, hasLoc, single, inl, start, idx⟩, r)
  | _ => none

def pOpts (fuel : Nat) : P (List SOpt) := fun ts => do
  let (n, r) ← pNat ts
  let (os, r) ← pMany (pOpt fuel) n r
  pure (os.map OptD.toS, r)

def pField (fuel : Nat) : P FieldD
  | "F" :: k :: ts => do
    let kind ← (match k with | "f" => some FieldKind.field | "v" => some FieldKind.value | _ => none)
    let (loc, r) ← pLoc ts
    let (idx, r) ← pNat r
    let (label, r) ← pHex r
    let (type, r) ← pHex r
    let (name, r) ← pHex r
    let (num, r) ← pInt r
    let (json, r) ← (match r with
      | "N" :: r' => some (none, r')
      | j :: r' => if j.startsWith "J" then (hexS (j.drop 1).toString).map (fun s => (some s, r')) else none
      | [] => none)
    let (opts, r) ← pOpts fuel r
    pure (⟨kind, loc, idx, label, type, name, num, json, opts⟩, r)
  | _ => none

mutual
def pItem : Nat → P Item
  | 0, _ => none
  | f + 1, ts =>
    match ts with
    | "F" :: _ => (pField f ts).map fun (x, r) => (.field x, r)
    | "R" :: r => do
      let (loc, r) ← pLoc r
      let (idx, r) ← pNat r
      let (name, r) ← pHex r
      let (inT, r) ← pHex r
      let (outT, r) ← pHex r
      let (opts, r) ← pOpts f r
      pure (.rpc loc idx name inT outT opts, r)
    | "B" :: r => do
      let (kw, r) ← pHex r
      let (t, r) ← pNat r
      let (loc, r) ← pLoc r
      let (idx, r) ← pNat r
      let (name, r) ← pHex r
      let (opts, r) ← pOpts f r
      let (n, r) ← pNat r
      let (kids, r) ← pItems f n r
      pure (.block kw t loc idx name opts kids, r)
    | _ => none
def pItems : Nat → Nat → P (List Item)
  | 0, _, _ => none
  | _ + 1, 0, ts => some ([], ts)
  | f + 1, n + 1, ts => do
    let (a, r) ← pItem f ts
    let (as, r') ← pItems f n r
    pure (a :: as, r')
end

def pExt (fuel : Nat) : P (String × FieldD) := fun ts => do
  let (e, r) ← pHex ts
  let (f, r) ← pField fuel r
  pure ((e, f), r)

/-- `<gen> LOC <pkg> <nimports> imp* <nopts> OPT* <nexts> (<extendee> FIELD)* <nitems> ITEM*` -/
def pFile (ts : List String) : Option (String × FileD) := do
  let fuel := ts.length + 1
  let (gen, r) ← pHex ts
  let (loc, r) ← pLoc r
  let (pkg, r) ← pHex r
  let (n, r) ← pNat r
  let (imps, r) ← pMany (fun ts => do let (a, r) ← pHex ts; let (b, r) ← pHex r; pure ((a, b), r)) n r
  let (opts, r) ← pOpts fuel r
  let (n, r) ← pNat r
  let (exts, r) ← pMany (pExt fuel) n r
  let (n, r) ← pNat r
  let (items, r) ← pItems fuel n r
  if r.isEmpty then pure (gen, ⟨loc, pkg, imps, opts, exts, items⟩) else none

/-! ## encoder: the summary of a file as a reader of the text sees it (`summarize2`) -/

mutual
/-- the fields of a message literal in the order of their names (occurrences of one name stay in
order): the canonical form of the wire, the order carries no meaning -/
def canonTree : Opt → Opt
  | .scalar k v => .scalar k v
  | .msg k ks => .msg k (stableSort (fun a b => Order.nameLess (strToBytes a.key) (strToBytes b.key)) (canonTrees ks))
  | .arr k ks => .arr k (canonTrees ks)
def canonTrees : List Opt → List Opt
  | [] => []
  | o :: r => canonTree o :: canonTrees r
end

mutual
def encTree : Opt → List String
  | .scalar k v => ["S", encS k, encS v]
  | .msg k ks => ["M", encS k, toString ks.length] ++ encTrees ks
  | .arr k ks => ["A", encS k, toString ks.length] ++ encTrees ks
def encTrees : List Opt → List String
  | [] => []
  | o :: r => encTree o ++ encTrees r
end

def encFlag (b : Bool) : String := if b then "1" else "0"

def encLoc2 (l : Loc) : List String :=
  ["L", toString l.startLine, toString l.endLine, toString l.detached.length] ++ l.detached.map encS ++
  [encS l.leading, encS l.trailing]

def encOpt2 (o : SOpt) : List String :=
  ["O", encS o.name, encFlag o.hasLoc, encFlag o.singleLine, encFlag o.inlineParent, toString o.startLine,
    toString o.stmts.length] ++ (o.stmts.map fun v => encTree (canonTree (eraseKeys v))).flatten

/-- options in the order of their printed names (the canonical order of the wire) -/
def encOpts2 (os : List SOpt) : List String :=
  toString os.length ::
    ((Order.isort (fun a b => Order.nameLess (strToBytes a.name) (strToBytes b.name)) os).map encOpt2).flatten

def encField2 (f : FieldD) : List String :=
  ["F", (match f.kind with | .field => "f" | .value => "v")] ++ encLoc2 f.loc ++
  [encS f.label, encS f.type, encS f.name, toString f.number,
    (match f.json with | none => "N" | some j => "J" ++ encS j)] ++ encOpts2 f.opts

def isBlock (kw : String) : Item → Bool
  | .block k _ _ _ _ _ _ => k == kw
  | _ => false

def isField : Item → Bool
  | .field _ => true
  | _ => false

mutual
def encItem2 : Item → List String
  | .field f => encField2 f
  | .rpc l _ nm a b os => ["R"] ++ encLoc2 l ++ [encS nm, encS a, encS b] ++ encOpts2 os
  | .block kw t l _ nm os ks =>
    ["B", encS kw, toString t] ++ encLoc2 l ++ [encS nm] ++ encOpts2 os ++ [toString ks.length] ++
    -- the order in which a descriptor lists them: fields, oneofs, nested messages, enums (methods, values)
    encItems2 isField ks ++ encItems2 (isBlock "oneof") ks ++ encItems2 (isBlock "message") ks ++
    encItems2 (isBlock "enum") ks ++ encItems2 (fun i => match i with | .rpc _ _ _ _ _ _ => true | _ => false) ks
def encItems2 (p : Item → Bool) : List Item → List String
  | [] => []
  | x :: r => (if p x then encItem2 x else []) ++ encItems2 p r
end

/-- `<pkg> <nimports> imp* <nopts> OPT* <nexts> (<extendee> FIELD)* <nitems> ITEM*` (messages,
services, enums) -/
def encFile2 (f : FileD) : String :=
  " ".intercalate (
    [encS f.pkg, toString f.imports.length] ++ (f.imports.map fun i => [encS i.1, encS i.2]).flatten ++ encOpts2 f.opts ++
    [toString f.exts.length] ++ (f.exts.map fun e => encS e.1 :: encField2 e.2).flatten ++
    [toString f.items.length] ++ encItems2 (isBlock "message") f.items ++ encItems2 (isBlock "service") f.items ++
    encItems2 (isBlock "enum") f.items)

end J5V.Print.Wire
