/-!
# C05 kernel 2 — relative type names (core only)

`refName` mirrors `contextRefName` / `pathToPackage` / `declaresName` of
`/repo/internal/j5s/protoprint/protoprint.go` (after the fixes b1156d6: the last path element is
never stripped, and the two shadowing fixes: a name that an enclosing scope — or, for a type of
another package, the own package or one of its parents — would capture is printed fully qualified
with a leading dot).

`resolve` is the reader side: protobuf's relative-name resolution (innermost scope outward, the
first component decides, C++ style) over a symbol table, written from the language
specification as implemented by protocompile's linker (`linker/resolve.go`: `resolve`,
`fileScope`, `messageScope`, `resolveElementRelative`; third party, **not** under test).
Both are compared with the Go code by the `print.ref` correspondence stream.
-/
namespace J5V.Print.RefName

abbrev Path := List String

/-- what a fully-qualified name denotes -/
inductive Kind where
  | msg    -- message
  | enum   -- enum
  | svc    -- service
  | leaf   -- field, oneof, enum value, method, extension
  | ns     -- a package name or a prefix of one
  deriving DecidableEq, Repr

def Kind.isType : Kind → Bool
  | .msg | .enum => true
  | _ => false

/-- `isAggregateDescriptor`: something that can contain further names -/
def Kind.isAggregate : Kind → Bool
  | .msg | .enum | .svc | .ns => true
  | .leaf => false

structure Sym where
  path : Path   -- fully qualified, package components included
  kind : Kind
  deriving DecidableEq, Repr

/-- Everything the file under compilation can see: its own declarations, those of its imports,
and the packages of all these files. -/
structure Tab where
  syms : List Sym
  pkgs : List Path
  deriving Repr

/-- `resolveElementInFile` over the file and its imports: a declaration, else a package
namespace (`matchesPkgNamespace`: equal to a package or a dotted prefix of one). -/
def Tab.find (t : Tab) (p : Path) : Option Kind :=
  match t.syms.find? (fun s => s.path == p) with
  | some s => some s.kind
  | none => if p ≠ [] ∧ t.pkgs.any (fun q => p.isPrefixOf q) then some .ns else none

/-! ## the printer side -/

/-- the loop of `contextRefName` (ref path first, context path second) -/
def stripCommon : Path → Path → Path
  | r :: rs, c :: cs => if rs ≠ [] ∧ r = c then stripCommon rs cs else r :: rs
  | r, _ => r

/-- the shortened (or, across packages, package-qualified) relative name: `ctx` / `tgt` are the
paths of the context element and of the referenced type below their packages (`pathToPackage`),
`ctxPkg` / `tgtPkg` the packages. -/
def shortName (ctxPkg ctx tgtPkg tgt : Path) : Path :=
  if ctxPkg ≠ tgtPkg then tgtPkg ++ tgt else stripCommon tgt ctx

/-- a printed type name: `abs` = written with a leading dot (fully qualified) -/
structure Name where
  abs : Bool
  parts : Path
  deriving DecidableEq, Repr

/-- prefixes `l.take n, …, l.take 1` -/
def takesDown (l : Path) : Nat → List Path
  | 0 => []
  | n + 1 => l.take (n + 1) :: takesDown l n

/-- `declaresName`: the scope with full path `scope` declares something called `first` -/
def declares (t : Tab) (scope : Path) (first : String) : Bool := (t.find (scope ++ [first])).isSome

/-- the scopes from the context up to (not including) the one the short name is relative to:
`ctx` itself, its parent, …, depth `k + 1` -/
def innerScopes (pkg ctx : Path) (k : Nat) : List Path :=
  ((takesDown ctx ctx.length).take (ctx.length - k)).map (pkg ++ ·)

/-- every scope a relative name is looked up in before the root namespace: the enclosing
messages (or the service), then the package of the file and its parent packages
(`capturedBeforeRoot`: the `Parent()` chain, then `visibleFrom` per package prefix) -/
def scopesBelowRoot (pkg scope : Path) : List Path :=
  (takesDown scope scope.length).map (pkg ++ ·) ++ takesDown pkg pkg.length

/-- `contextRefName` -/
def refName (t : Tab) (ctxPkg ctx tgtPkg tgt : Path) : Name :=
  if ctxPkg ≠ tgtPkg then
    -- another package: the full name, with a leading dot when a scope below the root declares
    -- its first component (fix: cross-package shadowing)
    match tgtPkg ++ tgt with
    | [] => ⟨false, []⟩
    | first :: rest =>
      if (scopesBelowRoot ctxPkg ctx).any (fun pre => declares t pre first)
      then ⟨true, first :: rest⟩
      else ⟨false, first :: rest⟩
  else
    match stripCommon tgt ctx with
    | [] => ⟨false, []⟩
    | first :: rest =>
      if (innerScopes ctxPkg ctx (tgt.length - (first :: rest).length)).any (fun pre => declares t pre first)
      then ⟨true, tgtPkg ++ tgt⟩
      else ⟨false, first :: rest⟩

/-! ## the reader side -/

inductive Res where
  | found (p : Path) (k : Kind)
  | sentinel   -- first component matched an aggregate, the rest does not exist: hard error
  | nothing
  deriving DecidableEq, Repr

/-- `resolveElementRelative` in the scope with prefix `pre` -/
def resolveRel (t : Tab) (pre : Path) (first : String) (rest : Path) : Res :=
  match t.find (pre ++ [first]) with
  | none => .nothing
  | some k =>
    if rest = [] then .found (pre ++ [first]) k
    else if !k.isAggregate then .nothing
    else match t.find (pre ++ first :: rest) with
      | none => .sentinel
      | some k' => .found (pre ++ first :: rest) k'

/-- the lexical scopes of an element with path `scope` in package `pkg`, innermost first:
the enclosing messages (or the service), then the package and its parents, then the root. -/
def scopes (pkg scope : Path) : List Path :=
  (takesDown scope scope.length).map (pkg ++ ·) ++ (takesDown pkg pkg.length ++ [[]])

/-- the loop of `result.resolve`; `best` is `bestGuess` -/
def resolveIn (t : Tab) (onlyTypes : Bool) (first : String) (rest : Path) :
    List Path → Option Res → Res
  | [], best => best.getD .nothing
  | pre :: more, best =>
    match resolveRel t pre first rest with
    | .nothing => resolveIn t onlyTypes first rest more best
    | .sentinel => .sentinel
    | .found p k =>
      if !onlyTypes || k.isType || rest ≠ [] then .found p k
      else resolveIn t onlyTypes first rest more (best.orElse fun _ => some (.found p k))

/-- What the (not fully qualified) name `name`, written in an element with path `scope` of
package `pkg`, denotes. Field types: `onlyTypes = true`, result must be a message or an enum.
Method request / response types: `onlyTypes = false`, result must be a message. -/
def resolve (t : Tab) (pkg scope : Path) (onlyTypes : Bool) (name : Path) : Option Path :=
  match name with
  | [] => none
  | first :: rest =>
    match resolveIn t onlyTypes first rest (scopes pkg scope) none with
    | .found p k => if (if onlyTypes then k.isType else k == .msg) then some p else none
    | _ => none

/-- a printed name, relative or fully qualified (`result.resolve` with a leading dot looks the
name up directly) -/
def resolveName (t : Tab) (pkg scope : Path) (onlyTypes : Bool) (n : Name) : Option Path :=
  if n.abs then
    match t.find n.parts with
    | some k => if (if onlyTypes then k.isType else k == .msg) then some n.parts else none
    | none => none
  else resolve t pkg scope onlyTypes n.parts

/-! ## capture, home scope, well-formed symbol tables -/

/-- a declaration at `pre.first` stops the search there -/
def captures (t : Tab) (onlyTypes : Bool) (pre : Path) (first : String) (qualified : Bool) : Bool :=
  match t.find (pre ++ [first]) with
  | none => false
  | some k => if qualified then k.isAggregate else (!onlyTypes || k.isType)

/-- the scope in which the printed name is meant to be looked up -/
def home (ctxPkg ctx tgtPkg tgt : Path) : Path :=
  if ctxPkg ≠ tgtPkg then []
  else ctxPkg ++ tgt.take (tgt.length - (stripCommon tgt ctx).length)

/-- The target is declared (with all its ancestors) and its package is known. -/
def SymtabWF (t : Tab) (onlyTypes : Bool) (tgtPkg tgt : Path) : Prop :=
  tgt ≠ [] ∧
  (∃ k, t.find (tgtPkg ++ tgt) = some k ∧ (if onlyTypes then k.isType else k == .msg) = true) ∧
  (∀ j, 0 < j → j < tgt.length → t.find (tgtPkg ++ tgt.take j) = some .msg) ∧
  (∀ i, 0 < i → i ≤ tgtPkg.length → t.find (tgtPkg.take i) = some .ns)

end J5V.Print.RefName
