import J5V.Print.Layout
import J5V.Print.Scalar
/-!
# C05 kernel 6 — the proto3 grammar subset the printer emits (core only)

A tokeniser (`lex`) and a recursive-descent parser (`parseFile`) for the text `protoprint`
writes: `syntax`, `package`, `import`, `option` statements, `message` / `enum` / `service` / `rpc` /
`oneof` / `extend` declarations, fields (labels, map types, dotted and fully-qualified type names),
enum values, field options in brackets, option values (scalars, message literals, lists inside
message literals — through the token parser of `OptionText`, the subject of `C05_option_inv`),
line comments. The result is the same abstract element tree the printer model prints from
(`Layout.FileD`), with the source lines of every element and option as the reader finds them.

Written from the protobuf language definition; **validated against bufbuild/protocompile** on
every op of the `print.file` stream: the harness summarises the descriptor protocompile makes of the
printed text (`summarize2`), the driver parses the model's text with this grammar and prints the
same summary (`Wire.encFile2`).
-/
namespace J5V.Print.Grammar
open J5V.Print.OptionText J5V.Print.Layout

/-! ## tokens -/

inductive Tok where
  | ident (s : String)     -- identifier or keyword
  | num (s : String)       -- numeric literal, as written
  | str (s : String)       -- string literal, as written (quotes and escapes included)
  | sym (c : Char)         -- punctuation
  | eof
  deriving Repr, DecidableEq, Inhabited

/-- the comments between a token and its predecessor, as protocompile attributes them
(`sourceinfo.attributeComments`, with `SourceInfoExtraComments`) -/
structure Cm where
  trail : String            -- trailing comment of whatever ends with the predecessor
  detached : List String    -- detached leading comments of whatever starts with this token
  lead : String             -- its leading comment
  deriving Repr, DecidableEq, Inhabited

def Cm.none : Cm := ⟨"", [], ""⟩

/-- a token, the (0-based) line it is on, the comments before it -/
structure PTok where
  tok : Tok
  line : Nat
  cm : Cm
  deriving Repr, DecidableEq, Inhabited

def isLetter (c : Char) : Bool := ('a' ≤ c && c ≤ 'z') || ('A' ≤ c && c ≤ 'Z') || c == '_'
def isDigit (c : Char) : Bool := '0' ≤ c && c ≤ '9'
def isIdentChar (c : Char) : Bool := isLetter c || isDigit c

/-- the rest of a numeric literal: letters, digits, dots, and a sign directly after an exponent mark -/
def numRest : List Char → Char → List Char × List Char
  | [], _ => ([], [])
  | c :: cs, prev =>
    if isIdentChar c || c == '.' || ((c == '+' || c == '-') && (prev == 'e' || prev == 'E')) then
      let (w, r) := numRest cs c
      (c :: w, r)
    else ([], c :: cs)

/-- the rest of a string literal after the opening quote: up to and including the closing quote -/
def strRest : List Char → List Char × List Char
  | [] => ([], [])
  | '\\' :: '\n' :: cs => (['\\'], '\n' :: cs)     -- unterminated
  | '\\' :: c :: cs => let (w, r) := strRest cs; ('\\' :: c :: w, r)
  | '"' :: cs => (['"'], cs)
  | '\n' :: cs => ([], '\n' :: cs)     -- unterminated
  | c :: cs => let (w, r) := strRest cs; (c :: w, r)

/-- what the scanner finds: tokens and line comments (text after `//`), with their lines -/
inductive Raw where
  | tok (t : Tok) (line : Nat)
  | comment (text : String) (line : Nat)
  deriving Repr, Inhabited

/-- `fuel` = length of the input suffices -/
def lexAux : Nat → List Char → Nat → List Raw
  | 0, _, _ => []
  | _ + 1, [], _ => []
  | f + 1, c :: cs, line =>
    if c == '\n' then lexAux f cs (line + 1)
    else if c == ' ' || c == '\t' || c == '\r' then lexAux f cs line
    else if c == '/' && cs.head? == some '/' then
      .comment (String.ofList ((cs.drop 1).takeWhile (· != '\n'))) line :: lexAux f (cs.dropWhile (· != '\n')) line
    else if isLetter c then
      .tok (.ident (String.ofList (c :: cs.takeWhile isIdentChar))) line :: lexAux f (cs.dropWhile isIdentChar) line
    else if isDigit c then
      let (w, r) := numRest cs c
      .tok (.num (String.ofList (c :: w))) line :: lexAux f r line
    else if c == '"' then
      let (w, r) := strRest cs
      .tok (.str (String.ofList ('"' :: w))) line :: lexAux f r line
    else .tok (.sym c) line :: lexAux f cs line

/-! ### comments: which element they belong to -/

abbrev Cmt := String × Nat

/-- `groupComments`: runs of line comments on consecutive lines -/
def groupComments : List Cmt → List Cmt → List (List Cmt)
  | [], [] => []
  | [], cur => [cur.reverse]
  | c :: r, [] => groupComments r [c]
  | c :: r, p :: cur => if c.2 > p.2 + 1 then (p :: cur).reverse :: groupComments r [c] else groupComments r (c :: p :: cur)

/-- `combineComments` -/
def combine (g : List Cmt) : String := String.join (g.map fun c => c.1 ++ "\n")

def firstLine (g : List Cmt) : Nat := (g.head?.map (·.2)).getD 0
def lastLine (g : List Cmt) : Nat := (g.getLast?.map (·.2)).getD 0

/-- a symbol that ends a scope, or the end of the file: it needs no leading comment -/
def isCloser : Tok → Bool
  | .eof => true
  | .sym c => c == '}' || c == ']' || c == ')' || c == ',' || c == ';'
  | _ => false

/-- the lexer (`setPrevAndAddComments`) and `attributeComments` / `maybeDonate` / `maybeAttach`:
`prev` is the line of the previous token (none at the start of the file), `cs` the comments
between it and the token `t` on line `line`. -/
def attributeCm (prev : Option Nat) (cs : List Cmt) (t : Tok) (line : Nat) : Cm :=
  -- the lexer gives a comment that starts on the line of the previous token to that token
  let (tlex, rest) : List Cmt × List Cmt :=
    match prev, cs with
    | some pl, c :: r => if line > pl && c.2 == pl then ([c], r) else ([], cs)
    | _, _ => ([], cs)
  let groups := groupComments rest []
  -- maybeDonate
  let (trail, groups) : List Cmt × List (List Cmt) :=
    match prev with
    | none => ([], groups)
    | some pl =>
      if !tlex.isEmpty then (tlex, groups) else
      match groups with
      | [] => ([], [])
      | g :: more =>
        if firstLine g > pl + 1 then ([], groups)
        else if !more.isEmpty then (g, more)
        else if lastLine g + 1 < line then (g, [])
        else if isCloser t then (g, [])
        else ([], groups)
  -- maybeAttach
  let (detached, lead) : List (List Cmt) × List Cmt :=
    match groups.getLast? with
    | none => ([], [])
    | some last =>
      let ambiguous : Bool :=
        match prev with
        | some pl => groups.length == 1 && trail.isEmpty && firstLine last == pl && lastLine last == line
        | none => false
      if ambiguous then (groups, [])
      else if lastLine last + 1 ≥ line then (groups.dropLast, last)
      else (groups, [])
  ⟨combine trail, detached.map combine, combine lead⟩

/-- tokens with the comments before them; the end of the file is a token of its own -/
def attach : List Raw → Option Nat → List Cmt → Nat → List PTok
  | [], prev, cs, lastLine => [⟨.eof, lastLine + 1, attributeCm prev cs .eof (lastLine + 1)⟩]
  | .comment text l :: r, prev, cs, _ => attach r prev (cs ++ [(text, l)]) l
  | .tok t l :: r, prev, cs, _ => ⟨t, l, attributeCm prev cs t l⟩ :: attach r (some l) [] l

def lex (s : String) : List PTok := attach (lexAux (s.toList.length + 1) s.toList 0) none [] 0

/-! ## option values: hand over to the token parser of `OptionText` -/

/-- the tokens of a value in the vocabulary of `OptionText`: a word before `:` is a field name,
every other word, number or string a scalar; a sign joins the scalar that follows -/
def valueToksK : List Tok → Option (List OptionText.Tok)
  | [] => some []
  | .sym '{' :: r => (valueToksK r).map (.lbrace :: ·)
  | .sym '}' :: r => (valueToksK r).map (.rbrace :: ·)
  | .sym '[' :: r => (valueToksK r).map (.lbrack :: ·)
  | .sym ']' :: r => (valueToksK r).map (.rbrack :: ·)
  | .sym ',' :: r => (valueToksK r).map (.comma :: ·)
  | .sym ':' :: r => (valueToksK r).map (.colon :: ·)
  | .ident k :: .sym ':' :: r => (valueToksK r).map (.ident k :: .colon :: ·)
  | .sym '-' :: .ident s :: r => (valueToksK r).map (.scalar ("-" ++ s) :: ·)
  | .sym '-' :: .num s :: r => (valueToksK r).map (.scalar ("-" ++ s) :: ·)
  | .ident s :: r => (valueToksK r).map (.scalar s :: ·)
  | .num s :: r => (valueToksK r).map (.scalar s :: ·)
  | .str s :: r => (valueToksK r).map (.scalar s :: ·)
  | .sym _ :: _ => none
  | .eof :: _ => none

/-- … of located tokens: lines and comments play no part -/
def valueToks (ts : List PTok) : Option (List OptionText.Tok) := valueToksK (ts.map (·.tok))

/-- the tokens of a value: up to the first `stop` outside all brackets -/
def takeValue (stop : Char → Bool) : List PTok → Nat → List PTok × List PTok
  | [], _ => ([], [])
  | t :: r, depth =>
    match t.tok with
    | .sym c =>
      if depth = 0 && stop c then ([], t :: r)
      else if c == '{' || c == '[' then let (v, r') := takeValue stop r (depth + 1); (t :: v, r')
      else if c == '}' || c == ']' then
        if depth = 0 then ([], t :: r) else let (v, r') := takeValue stop r (depth - 1); (t :: v, r')
      else let (v, r') := takeValue stop r depth; (t :: v, r')
    | _ => let (v, r') := takeValue stop r depth; (t :: v, r')

/-- one option as written: name, value, first and last line -/
structure RawOpt where
  name : String
  value : Opt
  startLine : Nat
  endLine : Nat
  deriving Repr, Inhabited

/-- an option name: `ident(.ident)*` or `(` `[.]ident(.ident)*` `)` `(.ident)*`, as text -/
def optNameAux : Nat → List PTok → String → Option (String × List PTok)
  | 0, _, _ => none
  | f + 1, ts, acc =>
    match ts with
    | ⟨.sym '=', _, _⟩ :: r => if acc = "" then none else some (acc, r)
    | ⟨.ident s, _, _⟩ :: r => optNameAux f r (acc ++ s)
    | ⟨.sym '.', _, _⟩ :: r => optNameAux f r (acc ++ ".")
    | ⟨.sym '(', _, _⟩ :: r => optNameAux f r (acc ++ "(")
    | ⟨.sym ')', _, _⟩ :: r => optNameAux f r (acc ++ ")")
    | _ => none

/-- `name = value` up to (not including) the terminator -/
def rawOption (stop : Char → Bool) (ts : List PTok) : Option (RawOpt × List PTok) :=
  match ts with
  | [] => none
  | t :: _ =>
    match optNameAux (ts.length + 1) ts "" with
    | some (name, r) =>
      let (v, r') := takeValue stop r 0
      match v.getLast?, valueToks v with
      | some last, some vt =>
        (pValue (vt.length + 1) vt).map fun o => (⟨name, o, t.line, last.line⟩, r')
      | _, _ => none
    | _ => none

/-! ## from the options as written to the options of the element -/

def rawSOpt (parentStart : Nat) (r : RawOpt) : SOpt :=
  ⟨r.name, [r.value], true, r.startLine == r.endLine, r.startLine == r.endLine && parentStart == r.startLine,
    r.startLine, 0, ""⟩

/-- the extension (or built-in option) a name begins with: `(a.b)` of `(a.b).c.d`, `a` of `a.b` -/
def nameRoot (name : String) : String :=
  match name.toList with
  | '(' :: cs => String.ofList ('(' :: cs.takeWhile (· != ')'))
  | cs => String.ofList (cs.takeWhile (· != '.'))

/-- without a (unique) source location -/
def unlocated (o : SOpt) : SOpt :=
  { o with hasLoc := false, singleLine := false, inlineParent := false, startLine := 0 }

/-- Statements with the same name are the elements of one repeated option (in a descriptor they
are one field; its source location is then not unique and the printer sees none). Options that
share only their extension keep their statements but lose their location all the same
(`buildSourceLocation`: `len(srcLoc) != 1`). `index` numbers the options in text order. -/
def groupOpts (parentStart : Nat) : List RawOpt → List SOpt → List SOpt
  | [], acc => acc
  | r :: rest, acc =>
    if acc.any (·.name == r.name) then
      groupOpts parentStart rest (acc.map fun o =>
        if o.name == r.name then unlocated { o with stmts := o.stmts ++ [r.value] } else o)
    else groupOpts parentStart rest (acc ++ [{ rawSOpt parentStart r with index := acc.length }])

def unlocateShared (os : List SOpt) : List SOpt :=
  os.map fun o =>
    if (os.filter fun p => nameRoot p.name == nameRoot o.name).length > 1 then unlocated o else o

def mkOpts (parentStart : Nat) (raws : List RawOpt) : List SOpt :=
  unlocateShared (groupOpts parentStart raws [])

/-! ## declarations -/

/-- `[ name = value , … ]` after a field or an enum value; the tokens start after `[` -/
def bracketOpts : Nat → List PTok → Option (List RawOpt × List PTok)
  | 0, _ => none
  | f + 1, ts =>
    match rawOption (fun c => c == ',' || c == ']') ts with
    | some (o, ⟨.sym ',', _, _⟩ :: r) => (bracketOpts f r).map fun (os, r') => (o :: os, r')
    | some (o, ⟨.sym ']', _, _⟩ :: r) => some ([o], r)
    | _ => none

/-- a type name: `[.]ident(.ident)*` -/
def typeNameAux : Nat → List PTok → String → Option (String × List PTok)
  | 0, _, _ => none
  | f + 1, ts, acc =>
    match ts with
    | ⟨.sym '.', _, _⟩ :: ⟨.ident s, _, _⟩ :: r => typeNameAux f r (acc ++ "." ++ s)
    | r => if acc = "" then none else some (acc, r)

def typeName (ts : List PTok) : Option (String × List PTok) :=
  match ts with
  | ⟨.ident s, _, _⟩ :: r => typeNameAux (ts.length + 1) r s
  | ⟨.sym '.', _, _⟩ :: ⟨.ident s, _, _⟩ :: r => typeNameAux (ts.length + 1) r ("." ++ s)
  | _ => none

/-- a field / enum value number: an integer literal (decimal, octal or hexadecimal) -/
def intOf (neg : Bool) (s : String) : Option Int :=
  (Scalar.readNatLit s.toList).map fun (n : Nat) => if neg then -(n : Int) else (n : Int)

/-- `= number [ [options] ] ;` — the tail of a field or an enum value -/
def fieldTail (ts : List PTok) : Option (Int × List RawOpt × Nat × List PTok) :=
  let numAnd (ts : List PTok) : Option (Int × List PTok) :=
    match ts with
    | ⟨.sym '=', _, _⟩ :: ⟨.num n, _, _⟩ :: r => (intOf false n).map (·, r)
    | ⟨.sym '=', _, _⟩ :: ⟨.sym '-', _, _⟩ :: ⟨.num n, _, _⟩ :: r => (intOf true n).map (·, r)
    | _ => none
  match numAnd ts with
  | some (n, ⟨.sym ';', l, _⟩ :: r) => some (n, [], l, r)
  | some (n, ⟨.sym '[', _, _⟩ :: r) =>
    match bracketOpts (r.length + 1) r with
    | some (os, ⟨.sym ';', l, _⟩ :: r') => some (n, os, l, r')
    | _ => none
  | _ => none

/-- the trailing comment of what ends just before these tokens -/
def trailOf (ts : List PTok) : String := (ts.head?.map (·.cm.trail)).getD ""

/-- the location of an element: first and last line, the comments before its first token, the
comment after its last token (after the opening brace for a block) -/
def mkLoc (s e : Nat) (cm : Cm) (trail : String) : Loc := ⟨s, e, cm.detached, cm.lead, trail⟩

/-- the value of the `json_name` pseudo-option (a string literal) -/
def jsonOf (raws : List RawOpt) : Option String :=
  match raws.find? (·.name == "json_name") with
  | some ⟨_, .scalar _ lit, _, _⟩ =>
    (TextString.unescape (strBytes lit)).map fun bs =>
      match String.fromUTF8? (ByteArray.mk (bs.map (·.toUInt8)).toArray) with
      | some s => s
      | none => bytesStr bs
  | _ => none

def mkField (kind : FieldKind) (start : Nat) (cm : Cm) (label type name : String) (tail : Int × List RawOpt × Nat × List PTok) :
    FieldD × List PTok :=
  let (num, raws, endLine, r) := tail
  let json : Option String :=
    match kind with
    | .value => none
    | .field => some ((jsonOf raws).getD (String.ofList (defaultJSONName name.toList)))
  (⟨kind, mkLoc start endLine cm (trailOf r), 0, label, type, name, num, json,
    mkOpts start (raws.filter (·.name != "json_name"))⟩, r)

/-- the label of a field, if it has one -/
def splitLabel (ts : List PTok) : String × List PTok :=
  match ts with
  | ⟨.ident s, _, _⟩ :: r =>
    if s == "repeated" then ("repeated ", r) else if s == "optional" then ("optional ", r) else ("", ts)
  | _ => ("", ts)

/-- `type name = n […];` -/
def plainField (first : PTok) (label : String) (ts : List PTok) : Option (FieldD × List PTok) :=
  match typeName ts with
  | some (ty, ⟨.ident name, _, _⟩ :: r) => (fieldTail r).map (mkField .field first.line first.cm label ty name)
  | _ => none

/-- `k, v> name = n […];` (after `map<`) -/
def mapField (first : PTok) (label : String) (r : List PTok) : Option (FieldD × List PTok) :=
  match typeName r with
  | some (k, ⟨.sym ',', _, _⟩ :: r2) =>
    (match typeName r2 with
     | some (v, ⟨.sym '>', _, _⟩ :: ⟨.ident name, _, _⟩ :: r3) =>
       (fieldTail r3).map (mkField .field first.line first.cm label ("map<" ++ k ++ ", " ++ v ++ ">") name)
     | _ => none)
  | _ => none

/-- the field after its label: a map field or a plain one -/
def fieldAfterLabel (first : PTok) (label : String) (ts : List PTok) : Option (FieldD × List PTok) :=
  match ts with
  | ⟨.ident s, l1, c1⟩ :: ⟨.sym c, l2, c2⟩ :: r =>
    if s == "map" && c == '<' then mapField first label r
    else plainField first label (⟨.ident s, l1, c1⟩ :: ⟨.sym c, l2, c2⟩ :: r)
  | ts' => plainField first label ts'

/-- a message field: `[repeated|optional] type name = n […];` or `map<k, v> name = n […];` -/
def parseField (ts : List PTok) : Option (FieldD × List PTok) :=
  match ts with
  | [] => none
  | t :: _ => fieldAfterLabel t (splitLabel ts).1 (splitLabel ts).2

/-- `option name = value ;` statements at the head of a body (the printer writes them first; a
body may hold them anywhere, the caller loops) -/
def optionStmt (ts : List PTok) : Option (RawOpt × List PTok) :=
  match ts with
  | ⟨.ident "option", l, _⟩ :: r =>
    match rawOption (fun c => c == ';') r with
    | some (o, ⟨.sym ';', _, _⟩ :: r') => some ({ o with startLine := l }, r')
    | _ => none
  | _ => none

/-- the body of a `oneof`: options and fields, up to `}` -/
def oneofBody : Nat → List PTok → List RawOpt → List FieldD → Option (List RawOpt × List FieldD × Nat × List PTok)
  | 0, _, _, _ => none
  | f + 1, ts, os, fs =>
    match ts with
    | ⟨.sym '}', l, _⟩ :: r => some (os, fs, l, r)
    | ⟨.ident "option", _, _⟩ :: _ =>
      (match optionStmt ts with
       | some (o, r) => oneofBody f r (os ++ [o]) fs
       | none => none)
    | _ =>
      match parseField ts with
      | some (fd, r) => oneofBody f r os (fs ++ [fd])
      | none => none

/-- the body of an `enum`: options and values, up to `}` -/
def enumBody : Nat → List PTok → List RawOpt → List FieldD → Option (List RawOpt × List FieldD × Nat × List PTok)
  | 0, _, _, _ => none
  | f + 1, ts, os, vs =>
    match ts with
    | ⟨.sym '}', l, _⟩ :: r => some (os, vs, l, r)
    | ⟨.ident "option", _, _⟩ :: _ =>
      (match optionStmt ts with
       | some (o, r) => enumBody f r (os ++ [o]) vs
       | none => none)
    | ⟨.ident name, l, cm⟩ :: r =>
      (match fieldTail r with
       | some tail => let (v, r') := mkField .value l cm "" "" name tail; enumBody f r' os (vs ++ [v])
       | none => none)
    | _ => none

/-- `( [stream] type )` -/
def rpcType (ts : List PTok) : Option (String × List PTok) :=
  match ts with
  | ⟨.sym '(', _, _⟩ :: ⟨.ident "stream", _, _⟩ :: r =>
    (match typeName r with
     | some (t, ⟨.sym ')', _, _⟩ :: r') =>
       -- `stream` is a keyword only when a type follows; `(stream)` is a type called stream
       some ("stream " ++ t, r')
     | _ => (match typeName (ts.drop 1) with
             | some (t, ⟨.sym ')', _, _⟩ :: r') => some (t, r')
             | _ => none))
  | ⟨.sym '(', _, _⟩ :: r =>
    (match typeName r with
     | some (t, ⟨.sym ')', _, _⟩ :: r') => some (t, r')
     | _ => none)
  | _ => none

/-- the options in the body of an `rpc`, up to `}` -/
def rpcBody : Nat → List PTok → List RawOpt → Option (List RawOpt × Nat × List PTok)
  | 0, _, _ => none
  | f + 1, ts, os =>
    match ts with
    | ⟨.sym '}', l, _⟩ :: r => some (os, l, r)
    | _ =>
      match optionStmt ts with
      | some (o, r) => rpcBody f r (os ++ [o])
      | none => none

/-- the body of a `service`: options and methods, up to `}` -/
def serviceBody : Nat → List PTok → List RawOpt → List Item → Option (List RawOpt × List Item × Nat × List PTok)
  | 0, _, _, _ => none
  | f + 1, ts, os, ms =>
    match ts with
    | ⟨.sym '}', l, _⟩ :: r => some (os, ms, l, r)
    | ⟨.ident "option", _, _⟩ :: _ =>
      (match optionStmt ts with
       | some (o, r) => serviceBody f r (os ++ [o]) ms
       | none => none)
    | ⟨.ident "rpc", l, cm⟩ :: ⟨.ident name, _, _⟩ :: r =>
      (match rpcType r with
       | some (inT, ⟨.ident "returns", _, _⟩ :: r2) =>
         (match rpcType r2 with
          | some (outT, ⟨.sym ';', le, _⟩ :: r3) =>
            serviceBody f r3 os (ms ++ [.rpc (mkLoc l le cm (trailOf r3)) 0 name inT outT []])
          | some (outT, ⟨.sym '{', _, _⟩ :: r3) =>
            (match rpcBody f r3 [] with
             | some (ros, le, r4) =>
               serviceBody f r4 os (ms ++ [.rpc (mkLoc l le cm (trailOf r3)) 0 name inT outT (mkOpts l ros)])
             | none => none)
          | _ => none)
       | _ => none)
    | _ => none

/-- the body of a `message`: options, fields, oneofs, nested messages and enums, up to `}` -/
def messageBody : Nat → List PTok → List RawOpt → List Item → Option (List RawOpt × List Item × Nat × List PTok)
  | 0, _, _, _ => none
  | f + 1, ts, os, ks =>
    match ts with
    | ⟨.sym '}', l, _⟩ :: r => some (os, ks, l, r)
    | ⟨.ident "option", _, _⟩ :: _ =>
      (match optionStmt ts with
       | some (o, r) => messageBody f r (os ++ [o]) ks
       | none => none)
    | ⟨.ident "message", l, cm⟩ :: ⟨.ident name, _, _⟩ :: ⟨.sym '{', _, _⟩ :: r =>
      (match messageBody f r [] [] with
       | some (mos, mks, le, r') => messageBody f r' os (ks ++ [.block "message" 1 (mkLoc l le cm (trailOf r)) 0 name (mkOpts l mos) mks])
       | none => none)
    | ⟨.ident "enum", l, cm⟩ :: ⟨.ident name, _, _⟩ :: ⟨.sym '{', _, _⟩ :: r =>
      (match enumBody f r [] [] with
       | some (eos, vs, le, r') =>
         messageBody f r' os (ks ++ [.block "enum" 2 (mkLoc l le cm (trailOf r)) 0 name (mkOpts l eos) (vs.map .field)])
       | none => none)
    | ⟨.ident "oneof", l, cm⟩ :: ⟨.ident name, _, _⟩ :: ⟨.sym '{', _, _⟩ :: r =>
      (match oneofBody f r [] [] with
       | some (_, [], _, _) => none     -- "oneof must contain at least one field"
       | some (oos, fs, le, r') =>
         messageBody f r' os (ks ++ [.block "oneof" 0 (mkLoc l le cm (trailOf r)) 0 name (mkOpts l oos) (fs.map .field)])
       | none => none)
    | _ =>
      match parseField ts with
      | some (fd, r) => messageBody f r os (ks ++ [.field fd])
      | none => none

/-- the fields of an `extend` block, up to `}` -/
def extendBody : Nat → List PTok → List FieldD → Option (List FieldD × List PTok)
  | 0, _, _ => none
  | f + 1, ts, fs =>
    match ts with
    | ⟨.sym '}', _, _⟩ :: r => some (fs, r)
    | _ =>
      match parseField ts with
      | some (fd, r) => extendBody f r (fs ++ [{ fd with json := none }])
      | none => none

/-- what the top level of a file holds -/
structure Acc where
  syntaxOk : Bool := false
  pkg : String := ""
  imports : List (String × String) := []
  opts : List RawOpt := []
  exts : List (String × FieldD) := []
  items : List Item := []

/-- an import path: the string literal without its quotes (the printer does not escape it) -/
def unquote (lit : String) : String := String.ofList ((lit.toList.drop 1).dropLast)

def topLevel : Nat → List PTok → Acc → Option Acc
  | 0, _, _ => none
  | f + 1, ts, a =>
    match ts with
    | [] => some a
    | ⟨.eof, _, _⟩ :: _ => some a
    | ⟨.ident "syntax", _, _⟩ :: ⟨.sym '=', _, _⟩ :: ⟨.str s, _, _⟩ :: ⟨.sym ';', _, _⟩ :: r =>
      if s == "\"proto3\"" then topLevel f r { a with syntaxOk := true } else none
    | ⟨.ident "package", _, _⟩ :: r =>
      (match typeName r with
       | some (p, ⟨.sym ';', _, _⟩ :: r') => topLevel f r' { a with pkg := p }
       | _ => none)
    | ⟨.ident "import", _, _⟩ :: ⟨.str s, _, _⟩ :: ⟨.sym ';', _, _⟩ :: r =>
      topLevel f r { a with imports := a.imports ++ [(unquote s, "")] }
    | ⟨.ident "import", _, _⟩ :: ⟨.ident "public", _, _⟩ :: ⟨.str s, _, _⟩ :: ⟨.sym ';', _, _⟩ :: r =>
      topLevel f r { a with imports := a.imports ++ [(unquote s, "public ")] }
    | ⟨.ident "import", _, _⟩ :: ⟨.ident "weak", _, _⟩ :: ⟨.str s, _, _⟩ :: ⟨.sym ';', _, _⟩ :: r =>
      topLevel f r { a with imports := a.imports ++ [(unquote s, "weak ")] }
    | ⟨.ident "option", _, _⟩ :: _ =>
      (match optionStmt ts with
       | some (o, r) => topLevel f r { a with opts := a.opts ++ [o] }
       | none => none)
    | ⟨.ident "message", l, cm⟩ :: ⟨.ident name, _, _⟩ :: ⟨.sym '{', _, _⟩ :: r =>
      (match messageBody f r [] [] with
       | some (mos, mks, le, r') =>
         topLevel f r' { a with items := a.items ++ [.block "message" 1 (mkLoc l le cm (trailOf r)) 0 name (mkOpts l mos) mks] }
       | none => none)
    | ⟨.ident "enum", l, cm⟩ :: ⟨.ident name, _, _⟩ :: ⟨.sym '{', _, _⟩ :: r =>
      (match enumBody f r [] [] with
       | some (eos, vs, le, r') =>
         topLevel f r' { a with items := a.items ++ [.block "enum" 2 (mkLoc l le cm (trailOf r)) 0 name (mkOpts l eos) (vs.map .field)] }
       | none => none)
    | ⟨.ident "service", l, cm⟩ :: ⟨.ident name, _, _⟩ :: ⟨.sym '{', _, _⟩ :: r =>
      (match serviceBody f r [] [] with
       | some (sos, ms, le, r') =>
         topLevel f r' { a with items := a.items ++ [.block "service" 0 (mkLoc l le cm (trailOf r)) 0 name (mkOpts l sos) ms] }
       | none => none)
    | ⟨.ident "extend", _, _⟩ :: r =>
      (match typeName r with
       | some (e, ⟨.sym '{', _, _⟩ :: r') =>
         (match extendBody f r' [] with
          | some (fs, r'') => topLevel f r'' { a with exts := a.exts ++ fs.map (fun x => (e, x)) }
          | none => none)
       | _ => none)
    | _ => none

/-- the file a text declares -/
def parseFile (text : String) : Option FileD :=
  let ts := lex text
  match topLevel (ts.length + 1) ts {} with
  | some a =>
    if a.syntaxOk then
      some ⟨Loc.none, a.pkg, a.imports, mkOpts 0 a.opts, a.exts, a.items⟩
    else none
  | none => none

end J5V.Print.Grammar
