/-!
# C05 kernel 7 — numeric and symbolic scalars in option values (core only)

`marshalSingular` (`/repo/internal/j5s/protoprint/optionreflect/walk.go`) writes integers with
`strconv.FormatInt` / `FormatUint` (base 10), booleans as `true` / `false`, enum values by name (or
number when the enum has no value for it). Floats go through `strconv.FormatFloat(…, 'g', -1, …)`:
their text is taken from the Go side as an oracle and only its token shape is modelled.

Reader side: the integer literal syntax of the protobuf language (decimal, octal with a leading `0`,
hexadecimal with `0x`), written from the language specification and validated against protocompile by
the `numlit` ops of the `print.str` stream.
-/
namespace J5V.Print.Scalar

def digitChar (d : Nat) : Char := Char.ofNat (48 + d)

/-- `strconv.FormatUint(n, 10)` -/
def natDigits (n : Nat) : List Char :=
  if h : n < 10 then [digitChar n] else natDigits (n / 10) ++ [digitChar (n % 10)]
termination_by n
decreasing_by omega

/-- `strconv.FormatInt(n, 10)` -/
def intDigits (n : Int) : List Char :=
  if n < 0 then '-' :: natDigits n.natAbs else natDigits n.natAbs

def formatInt (n : Int) : String := String.ofList (intDigits n)
def formatUint (n : Nat) : String := String.ofList (natDigits n)

/-- `marshalSingular` for `bool` -/
def formatBool (b : Bool) : String := if b then "true" else "false"

/-- `marshalSingular` for enums: the name of the first value with that number, else the number -/
def formatEnum (values : List (String × Int)) (n : Int) : String :=
  match values.find? (·.2 == n) with
  | some v => v.1
  | none => formatInt n

/-! ## the reader -/

def digitVal (base : Nat) (c : Char) : Option Nat :=
  let n := c.toNat
  let v : Option Nat :=
    if 48 ≤ n ∧ n ≤ 57 then some (n - 48)
    else if 97 ≤ n ∧ n ≤ 102 then some (n - 87)
    else if 65 ≤ n ∧ n ≤ 70 then some (n - 55)
    else none
  match v with
  | some d => if d < base then some d else none
  | none => none

/-- digits in a base, most significant first -/
def readDigits (base : Nat) : List Char → Nat → Option Nat
  | [], acc => some acc
  | c :: cs, acc =>
    match digitVal base c with
    | some d => readDigits base cs (acc * base + d)
    | none => none

/-- an unsigned integer literal: `0x…` hexadecimal, `0…` octal, otherwise decimal -/
def readNatLit (cs : List Char) : Option Nat :=
  match cs with
  | [] => none
  | c :: rest =>
    if c = '0' then
      match rest with
      | [] => some 0
      | x :: ds =>
        if x = 'x' ∨ x = 'X' then (if ds = [] then none else readDigits 16 ds 0)
        else readDigits 8 rest 0
    else readDigits 10 cs 0

/-- a (possibly negative) integer as an option value: `-` is a token of its own in front of the literal -/
def readIntLit (cs : List Char) : Option Int :=
  match cs with
  | [] => none
  | c :: rest =>
    if c = '-' then (readNatLit rest).map fun (n : Nat) => -(n : Int)
    else (readNatLit cs).map fun (n : Nat) => (n : Int)

end J5V.Print.Scalar
