import J5V.Print.Order
/-! Lemmas about `J5V.Print.Order` (core only). -/
namespace J5V.Print.Order

theorem less_irrefl (a : Elem) : less a a = false := by
  unfold less; simp

theorem less_asymm (a b : Elem) (h : less a b = true) : less b a = false := by
  unfold less at *
  by_cases h0 : a.startLine = 0 ∨ b.startLine = 0
  · have h0' : b.startLine = 0 ∨ a.startLine = 0 := h0.symm
    simp only [h0, h0', if_true] at *
    by_cases ht : a.typeOrder = b.typeOrder
    · simp [ht] at *; omega
    · have ht' : ¬ b.typeOrder = a.typeOrder := fun e => ht e.symm
      simp [ht, ht'] at *; omega
  · have h0' : ¬ (b.startLine = 0 ∨ a.startLine = 0) := fun e => h0 e.symm
    simp only [h0, h0', if_false] at *
    simp at *; omega

/-- transitivity holds when the three elements all have a source line or all lack one -/
theorem less_trans (a b c : Elem)
    (hu : (a.startLine ≠ 0 ∧ b.startLine ≠ 0 ∧ c.startLine ≠ 0) ∨
          (a.startLine = 0 ∧ b.startLine = 0 ∧ c.startLine = 0))
    (hab : less a b = true) (hbc : less b c = true) : less a c = true := by
  obtain ⟨ta, la, ia⟩ := a; obtain ⟨tb, lb, ib⟩ := b; obtain ⟨tc, lc, ic⟩ := c
  simp only [less] at *
  rcases hu with ⟨ha, hb, hc⟩ | ⟨ha, hb, hc⟩
  · simp only [ha, hb, hc, or_self, if_false, decide_eq_true_eq] at *
    omega
  · subst ha hb hc
    simp only [true_or, if_true] at *
    split at hab <;> split at hbc <;> split <;> simp only [decide_eq_true_eq] at * <;> omega

/-- … and so does transitivity of "neither is less" (strict weak order) -/
theorem incomp_trans (a b c : Elem)
    (hu : (a.startLine ≠ 0 ∧ b.startLine ≠ 0 ∧ c.startLine ≠ 0) ∨
          (a.startLine = 0 ∧ b.startLine = 0 ∧ c.startLine = 0))
    (hab : less a b = false ∧ less b a = false) (hbc : less b c = false ∧ less c b = false) :
    less a c = false ∧ less c a = false := by
  obtain ⟨ta, la, ia⟩ := a; obtain ⟨tb, lb, ib⟩ := b; obtain ⟨tc, lc, ic⟩ := c
  obtain ⟨h1, h2⟩ := hab; obtain ⟨h3, h4⟩ := hbc
  simp only [less] at *
  rcases hu with ⟨ha, hb, hc⟩ | ⟨ha, hb, hc⟩
  · simp only [ha, hb, hc, or_self, if_false, decide_eq_false_iff_not] at *
    omega
  · subst ha hb hc
    simp only [true_or, if_true] at *
    constructor <;>
    (split at h1 <;> split at h2 <;> split at h3 <;> split at h4 <;> split <;>
      simp only [decide_eq_false_iff_not] at * <;> omega)


/-! ## sorting with an arbitrary comparison -/

section sort
variable {α : Type} (lt : α → α → Bool)

theorem insertBy_perm (x : α) (l : List α) : (insertBy lt x l).Perm (x :: l) := by
  induction l with
  | nil => simp [insertBy]
  | cons y ys ih =>
    unfold insertBy
    split
    · exact List.Perm.refl _
    · exact (List.Perm.cons y ih).trans (List.Perm.swap x y ys)

theorem isort_perm (l : List α) : (isort lt l).Perm l := by
  induction l with
  | nil => simp [isort]
  | cons x xs ih =>
    unfold isort
    exact (insertBy_perm lt x _).trans (List.Perm.cons x ih)

theorem insertBy_sorted (x : α) (l : List α)
    (htot : ∀ y ∈ l, lt x y = true ∨ lt y x = true)
    (htr : ∀ a b c, a ∈ x :: l → b ∈ x :: l → c ∈ x :: l → lt a b = true → lt b c = true → lt a c = true)
    (hs : l.Pairwise (fun a b => lt a b = true)) :
    (insertBy lt x l).Pairwise (fun a b => lt a b = true) := by
  induction l with
  | nil => simp [insertBy]
  | cons y ys ih =>
    unfold insertBy
    have hy := List.pairwise_cons.mp hs
    split
    · rename_i hxy
      refine List.pairwise_cons.mpr ⟨?_, hs⟩
      intro z hz
      rcases List.mem_cons.mp hz with rfl | hz
      · exact hxy
      · exact htr x y z (by simp) (by simp) (by simp [hz]) hxy (hy.1 z hz)
    · rename_i hxy
      have hyx : lt y x = true := by
        rcases htot y (by simp) with h | h
        · exact absurd h hxy
        · exact h
      refine List.pairwise_cons.mpr ⟨?_, ?_⟩
      · intro z hz
        have := (insertBy_perm lt x ys).subset hz
        rcases List.mem_cons.mp this with rfl | hz'
        · exact hyx
        · exact hy.1 z hz'
      · apply ih
        · intro z hz; exact htot z (by simp [hz])
        · intro a b c ha hb hc
          apply htr a b c
          · rcases List.mem_cons.mp ha with rfl | h <;> simp [*]
          · rcases List.mem_cons.mp hb with rfl | h <;> simp [*]
          · rcases List.mem_cons.mp hc with rfl | h <;> simp [*]
        · exact hy.2

theorem noTies_total : ∀ (l : List α), noTies lt l = true →
    l.Pairwise (fun a b => lt a b = true ∨ lt b a = true)
  | [], _ => List.Pairwise.nil
  | x :: xs, h => by
    unfold noTies at h
    simp only [Bool.and_eq_true, List.all_eq_true, Bool.or_eq_true] at h
    exact List.pairwise_cons.mpr ⟨fun y hy => h.1 y hy, noTies_total xs h.2⟩

theorem isort_sorted (l : List α)
    (htot : l.Pairwise (fun a b => lt a b = true ∨ lt b a = true))
    (htr : ∀ a b c, a ∈ l → b ∈ l → c ∈ l → lt a b = true → lt b c = true → lt a c = true) :
    (isort lt l).Pairwise (fun a b => lt a b = true) := by
  induction l with
  | nil => simp [isort]
  | cons x xs ih =>
    unfold isort
    have hx := List.pairwise_cons.mp htot
    have hmem : ∀ z, z ∈ isort lt xs ↔ z ∈ xs := fun z => (isort_perm lt xs).mem_iff
    apply insertBy_sorted
    · intro y hy; exact hx.1 y ((hmem y).mp hy)
    · intro a b c ha hb hc
      apply htr a b c
      · rcases List.mem_cons.mp ha with rfl | h
        · simp
        · simp [(hmem a).mp h]
      · rcases List.mem_cons.mp hb with rfl | h
        · simp
        · simp [(hmem b).mp h]
      · rcases List.mem_cons.mp hc with rfl | h
        · simp
        · simp [(hmem c).mp h]
    · apply ih hx.2
      intro a b c ha hb hc
      exact htr a b c (by simp [ha]) (by simp [hb]) (by simp [hc])

end sort

theorem nameLess_irrefl : ∀ a : List Nat, nameLess a a = false
  | [] => rfl
  | a :: as => by simp [nameLess, nameLess_irrefl as]

theorem nameLess_asymm : ∀ a b : List Nat, nameLess a b = true → nameLess b a = false
  | [], [], h => by simp [nameLess] at h
  | [], _ :: _, _ => by simp [nameLess]
  | _ :: _, [], h => by simp [nameLess] at h
  | a :: as, b :: bs, h => by
    unfold nameLess at *
    by_cases h1 : a < b
    · have : ¬ b < a := by omega
      simp [this, h1]
    · by_cases h2 : b < a
      · simp [h1, h2] at h
      · simp [h1, h2] at *
        exact nameLess_asymm as bs h

theorem nameLess_total : ∀ a b : List Nat, a ≠ b → nameLess a b = true ∨ nameLess b a = true
  | [], [], h => absurd rfl h
  | [], _ :: _, _ => by simp [nameLess]
  | _ :: _, [], _ => by simp [nameLess]
  | a :: as, b :: bs, h => by
    unfold nameLess
    by_cases h1 : a < b
    · simp [h1]
    · by_cases h2 : b < a
      · simp [h1, h2]
      · have : a = b := by omega
        subst this
        have hne : as ≠ bs := fun e => h (by rw [e])
        simp [h1]
        exact nameLess_total as bs hne

theorem nameLess_trans : ∀ a b c : List Nat, nameLess a b = true → nameLess b c = true → nameLess a c = true
  | [], _, [], _, h2 => by cases ‹List Nat› <;> simp [nameLess] at h2
  | [], _, _ :: _, _, _ => by simp [nameLess]
  | _ :: _, [], _, h1, _ => by simp [nameLess] at h1
  | _ :: _, _ :: _, [], _, h2 => by simp [nameLess] at h2
  | a :: as, b :: bs, c :: cs, h1, h2 => by
    unfold nameLess at *
    by_cases hab : a < b
    · by_cases hbc : b < c
      · have : a < c := by omega
        simp [this]
      · by_cases hcb : c < b
        · simp [hbc, hcb] at h2
        · have : a < c := by omega
          simp [this]
    · by_cases hba : b < a
      · simp [hab, hba] at h1
      · simp [hab, hba] at h1
        have : a = b := by omega
        subst this
        by_cases hbc : a < c
        · simp [hbc]
        · by_cases hcb : c < a
          · simp [hbc, hcb] at h2
          · simp [hbc, hcb] at h2 ⊢
            exact nameLess_trans as bs cs h1 h2

theorem locLess_irrefl (a : OptLoc) : locLess a a = false := by
  unfold locLess declLess
  cases a.hasLoc <;> simp [nameLess_irrefl]

/-- without source locations the order of two different options is always decided (no ties):
the property the nondeterminism fix 3895d68 restores -/
theorem declLess_total (a b : OptLoc) (h : a.index ≠ b.index ∨ a.name ≠ b.name) :
    declLess a b = true ∨ declLess b a = true := by
  unfold declLess
  by_cases hi : a.index = b.index
  · have hn : a.name ≠ b.name := by
      rcases h with h | h
      · exact absurd hi h
      · exact h
    simp only [hi, ne_eq, not_true_eq_false, if_false]
    exact nameLess_total _ _ hn
  · have hi' : ¬ b.index = a.index := fun e => hi e.symm
    simp only [ne_eq, hi, hi', not_false_eq_true, if_true, decide_eq_true_eq]
    omega

end J5V.Print.Order
