import J5V.Print.Cover
import J5V.Print.LayoutComments
/-!
# Decidable hypotheses of `C05_reprint_fixed_leading` (core only)

`quietLFileB t` and `relaidFileLB t d'` are Boolean tests, proved sound for `FileD.quietL t` and
`relaidFileL t d'`. The driver evaluates them on every `print.file` op with `t` = the arranged summary of the
descriptor and `d'` = what the grammar model reads from the model's text: where both say `true`, the theorem
(not the test) says that the second print is the first. Evidence: `coverage.reprint_theorem_*`.
-/
namespace J5V.Print.Cover
open J5V.Print J5V.Print.Layout J5V.Print.OptionText

def sameLeadB (l l' : Loc) : Bool := l'.detached.isEmpty && l'.trailing == "" && l'.leading == l.leading

theorem sameLeadB_sound {l l' : Loc} (h : sameLeadB l l' = true) : Loc.sameLead l l' := by
  simp only [sameLeadB, Bool.and_eq_true, beq_iff_eq, List.isEmpty_iff] at h
  exact ⟨h.1.1, h.1.2, h.2⟩

def unlocB (os : List SOpt) : Bool := os.all (fun o => !o.hasLoc)

theorem unlocB_sound {os : List SOpt} (h : unlocB os = true) : ∀ o ∈ os, o.hasLoc = false := by
  simp only [unlocB, List.all_eq_true, Bool.not_eq_true'] at h
  exact h

def quietLFieldB (f : FieldD) : Bool := leadOnlyB f.loc && unlocB f.opts

theorem quietLFieldB_sound {f : FieldD} (h : quietLFieldB f = true) : f.quietL := by
  simp only [quietLFieldB, Bool.and_eq_true] at h
  exact ⟨leadOnlyB_sound h.1, unlocB_sound h.2⟩

mutual
def quietLB : Item → Bool
  | .field f => quietLFieldB f
  | .rpc l _ _ _ _ os => leadOnlyB l && unlocB os
  | .block _ _ l _ _ os ks => leadOnlyB l && unlocB os && quietLListB ks
def quietLListB : List Item → Bool
  | [] => true
  | x :: r => quietLB x && quietLListB r
end

mutual
theorem quietLB_sound : ∀ e, quietLB e = true → e.quietL
  | .field f, h => by
    simp only [quietLB] at h
    exact quietLFieldB_sound h
  | .rpc l _ _ _ _ os, h => by
    simp only [quietLB, Bool.and_eq_true] at h
    exact ⟨leadOnlyB_sound h.1, unlocB_sound h.2⟩
  | .block _ _ l _ _ os ks, h => by
    simp only [quietLB, Bool.and_eq_true] at h
    exact ⟨leadOnlyB_sound h.1.1, unlocB_sound h.1.2, quietLListB_sound ks h.2⟩
theorem quietLListB_sound : ∀ es, quietLListB es = true → quietListL es
  | [], _ => trivial
  | x :: r, h => by
    simp only [quietLListB, Bool.and_eq_true] at h
    exact ⟨quietLB_sound x h.1, quietLListB_sound r h.2⟩
end

def quietLFileB (t : FileD) : Bool :=
  locNoneB t.loc && unlocB t.opts && t.exts.all (fun e => quietLFieldB e.2) && quietLListB t.items

theorem quietLFileB_sound {t : FileD} (h : quietLFileB t = true) : t.quietL := by
  simp only [quietLFileB, Bool.and_eq_true, List.all_eq_true] at h
  exact ⟨locNoneB_sound h.1.1.1, unlocB_sound h.1.1.2, fun e he => quietLFieldB_sound (h.1.2 e he),
    quietLListB_sound _ h.2⟩

def fieldOkLB (f f' : FieldD) : Bool :=
  decide (f'.kind = f.kind) && f'.label == f.label && f'.type == f.type && f'.name == f.name && f'.number == f.number &&
  f'.json == f.json && sameLeadB f.loc f'.loc && f.opts.length == f'.opts.length &&
  (f.opts.zip f'.opts).all (fun p => optOkB p.1 p.2) &&
  (match f.popts with
   | [p] => p.inl.isNone || f'.opts.all (·.inl)
   | _ => true)

theorem fieldOkLB_sound {f f' : FieldD} (h : fieldOkLB f f' = true) : fieldOkL f f' := by
  simp only [fieldOkLB, Bool.and_eq_true, beq_iff_eq, decide_eq_true_eq, List.all_eq_true] at h
  obtain ⟨⟨⟨⟨⟨⟨⟨⟨⟨h1, h2⟩, h3⟩, h4⟩, h5⟩, h6⟩, h7⟩, h8⟩, h9⟩, h10⟩ := h
  refine ⟨h1, h2, h3, h4, h5, h6, sameLeadB_sound h7, h8, fun p hp => optOkB_sound (h9 p hp), ?_⟩
  intro p hp hne o' ho'
  rw [hp] at h10
  simp only [Bool.or_eq_true, List.all_eq_true] at h10
  rcases h10 with h | h
  · cases hi : p.inl with
    | none => exact absurd hi hne
    | some x => simp [hi] at h
  · exact h o' ho'

/-- `a → pg ∨ b ∨ lead` as a Boolean -/
def gapOkB (pg a b lead : Bool) : Bool := !a || pg || b || lead

mutual
def relaidLB : Item → Item → Bool
  | .field f, .field f' => fieldOkLB f f'
  | .rpc l _ nm a b os, .rpc l' _ nm' a' b' os' => nm' == nm && a' == a && b' == b && sameLeadB l l' && optsOkB os os'
  | .block kw t l _ nm os ks, .block kw' t' l' _ nm' os' ks' =>
    kw' == kw && t' == t && nm' == nm && sameLeadB l l' && optsOkB os os' && relaidKidsLB true false 0 0 0 0 ks ks'
  | _, _ => false
def relaidKidsLB (first pg : Bool) (prevStart lastEnd lastEnd0 lastType : Nat) : List Item → List Item → Bool
  | [], [] => true
  | e :: r, e' :: r' =>
    relaidLB e e' && decide (prevStart < e'.loc.startLine) &&
    gapOkB pg (gapCond first lastEnd e'.loc.startLine e.typeOrder lastType)
      (gapCond first lastEnd0 e.loc.startLine e.typeOrder lastType) (e.loc.leading != "") &&
    gapOkB pg (gapCond first lastEnd0 e.loc.startLine e.typeOrder lastType)
      (gapCond first lastEnd e'.loc.startLine e.typeOrder lastType) (e.loc.leading != "") &&
    relaidKidsLB false e.gapEnder e'.loc.startLine e'.loc.endLine e.loc.endLine e.typeOrder r r'
  | _, _ => false
end

theorem gapOkB_sound {pg a b : Bool} {s : String} (h : gapOkB pg a b (s != "") = true) :
    a = true → pg = true ∨ b = true ∨ s ≠ "" := by
  intro ha
  subst ha
  simp only [gapOkB, Bool.not_true, Bool.false_or, Bool.or_eq_true, bne_iff_ne, ne_eq] at h
  rcases h with (h | h) | h
  · exact Or.inl h
  · exact Or.inr (Or.inl h)
  · exact Or.inr (Or.inr h)

mutual
theorem relaidLB_sound : ∀ (e e' : Item), relaidLB e e' = true → relaidL e e'
  | .field f, .field f', h => by
    simp only [relaidLB] at h
    simp only [relaidL]
    exact fieldOkLB_sound h
  | .rpc l _ nm a b os, .rpc l' _ nm' a' b' os', h => by
    simp only [relaidLB, Bool.and_eq_true, beq_iff_eq] at h
    simp only [relaidL]
    exact ⟨h.1.1.1.1, h.1.1.1.2, h.1.1.2, sameLeadB_sound h.1.2, optsOkB_sound h.2⟩
  | .block kw t l _ nm os ks, .block kw' t' l' _ nm' os' ks', h => by
    simp only [relaidLB, Bool.and_eq_true, beq_iff_eq] at h
    simp only [relaidL]
    exact ⟨h.1.1.1.1.1, h.1.1.1.1.2, h.1.1.1.2, sameLeadB_sound h.1.1.2, optsOkB_sound h.1.2,
      relaidKidsLB_sound _ _ _ _ _ _ ks ks' h.2⟩
  | .field _, .rpc _ _ _ _ _ _, h => by simp [relaidLB] at h
  | .field _, .block _ _ _ _ _ _ _, h => by simp [relaidLB] at h
  | .rpc _ _ _ _ _ _, .field _, h => by simp [relaidLB] at h
  | .rpc _ _ _ _ _ _, .block _ _ _ _ _ _ _, h => by simp [relaidLB] at h
  | .block _ _ _ _ _ _ _, .field _, h => by simp [relaidLB] at h
  | .block _ _ _ _ _ _ _, .rpc _ _ _ _ _ _, h => by simp [relaidLB] at h
theorem relaidKidsLB_sound : ∀ (first pg : Bool) (ps le le0 lt : Nat) (es es' : List Item),
    relaidKidsLB first pg ps le le0 lt es es' = true → relaidKidsL first pg ps le le0 lt es es'
  | _, _, _, _, _, _, [], [], _ => by simp [relaidKidsL]
  | _, _, _, _, _, _, [], _ :: _, h => by simp [relaidKidsLB] at h
  | _, _, _, _, _, _, _ :: _, [], h => by simp [relaidKidsLB] at h
  | first, pg, ps, le, le0, lt, e :: r, e' :: r', h => by
    simp only [relaidKidsLB, Bool.and_eq_true, decide_eq_true_eq] at h
    simp only [relaidKidsL]
    exact ⟨relaidLB_sound e e' h.1.1.1.1, h.1.1.1.2, gapOkB_sound h.1.1.2, gapOkB_sound h.1.2,
      relaidKidsLB_sound _ _ _ _ _ _ r r' h.2⟩
end

def relaidFileLB (t d' : FileD) : Bool :=
  d'.pkg == t.pkg && d'.imports == sortImports t.imports && sortImports d'.imports == d'.imports && locNoneB d'.loc &&
  optsOkB t.opts d'.opts && t.exts.length == d'.exts.length &&
  (t.exts.zip d'.exts).all (fun p => p.2.1 == p.1.1 && fieldOkLB p.1.2 p.2.2) &&
  relaidKidsLB true false 0 0 0 0 t.items d'.items

theorem relaidFileLB_sound {t d' : FileD} (h : relaidFileLB t d' = true) : relaidFileL t d' := by
  simp only [relaidFileLB, Bool.and_eq_true, beq_iff_eq, List.all_eq_true] at h
  obtain ⟨⟨⟨⟨⟨⟨⟨h1, h2⟩, h3⟩, h4⟩, h5⟩, h6⟩, h7⟩, h8⟩ := h
  exact ⟨h1, h2, h3, locNoneB_sound h4, optsOkB_sound h5, h6,
    fun p hp => ⟨(h7 p hp).1, fieldOkLB_sound (h7 p hp).2⟩, relaidKidsLB_sound _ _ _ _ _ _ _ _ h8⟩

mutual
/-- no comment at all (informative: which covered files have a leading comment somewhere) -/
def locNoneItemB : Item → Bool
  | .field f => locNoneB f.loc
  | .rpc l _ _ _ _ _ => locNoneB l
  | .block _ _ l _ _ _ ks => locNoneB l && locNoneItemsB ks
def locNoneItemsB : List Item → Bool
  | [] => true
  | x :: r => locNoneItemB x && locNoneItemsB r
end

def locNoneAllB (t : FileD) : Bool := t.exts.all (fun e => locNoneB e.2.loc) && locNoneItemsB t.items

/-- why the reprint theorem does not apply (informative) -/
def whyNotReprint (t : FileD) (d' : Option FileD) : String :=
  if !quietLFileB t then
    (if !locNoneB t.loc then "file-comment"
     else if !(unlocB t.opts && t.exts.all (fun e => unlocB e.2.opts)) then "located-option"
     else "detached-or-trailing-or-located-option")
  else match d' with
    | none => "unread"
    | some d' =>
      if !(d'.pkg == t.pkg && d'.imports == sortImports t.imports && sortImports d'.imports == d'.imports) then "header"
      else if !locNoneB d'.loc then "file-comment-read"
      else if !optsOkB t.opts d'.opts then "file-options"
      else if !(t.exts.length == d'.exts.length &&
          (t.exts.zip d'.exts).all (fun p => p.2.1 == p.1.1 && fieldOkLB p.1.2 p.2.2)) then "extend"
      else "elements"

end J5V.Print.Cover
