import J5V.Print.ReparseProofs
/-!
# Reading back a whole printed file (core only)

The text of a file is its lines; no printed line holds a line break, so the tokens of the text are
the tokens of its lines (`lex_text`); `topLevel` reads header, imports and elements.
-/
namespace J5V.Print.Reparse
open J5V.Print J5V.Print.Grammar J5V.Print.Layout J5V.Print.OptionText J5V.Print.Scalar

/-! ## no printed line holds a line break or a slash -/

/-- the character does not occur -/
def NoCh (x : Char) (l : List Char) : Prop := ∀ c ∈ l, c ≠ x

theorem noNL_iff (l : List Char) : NoNL l ↔ NoCh '\n' l := Iff.rfl

/-- a character that is not part of a word or a number, and of none of the fixed pieces of a line -/
structure Safe (x : Char) : Prop where
  notIdent : isIdentChar x = false
  notMinus : x ≠ '-'
  lits : ∀ s ∈ [" ", " = ", ";", "", ".", "repeated ", "optional ", "message", "enum", "oneof", "map<", ", ", ">", " {", " {}", "}", "rpc ", "(", ") returns (", ")", "stream ", "service"],
    (String.toList s).all (· != x) = true
  only : x = '\n' ∨ x = '/'

theorem safe_nl : Safe '\n' := ⟨by decide, by decide, by decide, Or.inl rfl⟩
theorem safe_slash : Safe '/' := ⟨by decide, by decide, by decide, Or.inr rfl⟩

section
variable {x : Char} (hx : Safe x)
include hx

theorem NoCh.append {a b : List Char} (ha : NoCh x a) (hb : NoCh x b) : NoCh x (a ++ b) := by
  intro c hc
  rcases List.mem_append.mp hc with h | h
  · exact ha c h
  · exact hb c h

theorem noCh_lit (s : String)
    (h : s ∈ [" ", " = ", ";", "", ".", "repeated ", "optional ", "message", "enum", "oneof", "map<", ", ", ">", " {", " {}", "}", "rpc ", "(", ") returns (", ")", "stream ", "service"]) :
    NoCh x s.toList := by
  intro c hc he
  have := hx.lits s h
  simp only [List.all_eq_true] at this
  have := this c hc
  simp [he] at this

theorem noCh_identChars {l : List Char} (h : ∀ c ∈ l, isIdentChar c = true) : NoCh x l := by
  intro c hc he
  subst he
  have := h _ hc
  rw [hx.notIdent] at this
  exact absurd this (by simp)

theorem noCh_ident {s : String} (h : IsIdent s) : NoCh x s.toList := by
  obtain ⟨c, cs, hcs, hc, hall⟩ := h
  rw [hcs]
  apply noCh_identChars hx
  intro y hy
  rcases List.mem_cons.mp hy with h1 | h1
  · rw [h1]; simp [isIdentChar, hc]
  · exact hall y h1

theorem noCh_natDigits (n : Nat) : NoCh x (natDigits n) :=
  noCh_identChars hx (fun c hc => (isDigit_facts (natDigits_all_digits n c hc)).1)

theorem noCh_formatInt (n : Int) : NoCh x (formatInt n).toList := by
  unfold formatInt intDigits
  rw [String.toList_ofList]
  split
  · intro c hc he
    subst he
    rcases List.mem_cons.mp hc with h | h
    · exact hx.notMinus h
    · exact noCh_natDigits hx _ _ h rfl
  · exact noCh_natDigits hx _

theorem noCh_dotted : ∀ (rest : List String) (acc : String), NoCh x acc.toList → (∀ r ∈ rest, IsIdent r) →
    NoCh x (dotted acc rest).toList
  | [], acc, ha, _ => by simpa [dotted] using ha
  | r :: rs, acc, ha, hr => by
    simp only [dotted, List.foldl_cons]
    apply noCh_dotted rs
    · simp only [String.toList_append]
      exact NoCh.append hx (NoCh.append hx ha (noCh_lit hx "." (by simp))) (noCh_ident hx (hr r (by simp)))
    · intro y hy; exact hr y (by simp [hy])

theorem noCh_tyStr (abs : Bool) (first : String) (rest : List String) (hf : IsIdent first)
    (hr : ∀ r ∈ rest, IsIdent r) : NoCh x (tyStr abs first rest).toList := by
  unfold tyStr
  apply noCh_dotted hx rest _ _ hr
  simp only [String.toList_append]
  refine NoCh.append hx ?_ (noCh_ident hx hf)
  cases abs
  · exact noCh_lit hx "" (by simp)
  · exact noCh_lit hx "." (by simp)

theorem noCh_ind (n : Nat) (s : String) (h : NoCh x s.toList) : NoCh x (ind n s).toList := by
  unfold ind
  simp only [String.toList_append, String.toList_ofList]
  refine NoCh.append hx ?_ h
  intro c hc he
  subst he
  simp only [List.mem_replicate] at hc
  have := noCh_lit hx " " (by simp) ' ' (by decide)
  exact this hc.2.symm

theorem noCh_fieldLine (n : Nat) (f : FieldD) (h : SimpleField f) : NoCh x (fieldLine n f).toList := by
  obtain ⟨_, _, _, hlab, hn, _, abs, first, rest, hf, hr, hty, _, _⟩ := h
  unfold fieldLine
  apply noCh_ind hx
  simp only [String.toList_append]
  have hl : NoCh x f.label.toList := by
    rcases hlab with h | h | h <;> rw [h] <;> exact noCh_lit hx _ (by simp)
  rw [hty]
  exact NoCh.append hx (NoCh.append hx (NoCh.append hx (NoCh.append hx (NoCh.append hx (NoCh.append hx (NoCh.append hx hl
    (noCh_tyStr hx abs first rest hf hr)) (noCh_lit hx " " (by simp))) (noCh_ident hx hn)) (noCh_lit hx " = " (by simp)))
    (noCh_formatInt hx _)) (noCh_lit hx ";" (by simp))) (noCh_lit hx "" (by simp))

theorem noCh_mapLine (n : Nat) (f : FieldD) (h : MapField f) : NoCh x (fieldLine n f).toList := by
  obtain ⟨_, _, _, hlab, hn, _, k, abs, first, rest, hk, hf, hr, hty⟩ := h
  unfold fieldLine
  apply noCh_ind hx
  simp only [String.toList_append]
  have hl : NoCh x f.label.toList := by rw [hlab]; exact noCh_lit hx _ (by simp)
  have hT : NoCh x f.type.toList := by
    rw [hty]
    unfold mapTy
    simp only [String.toList_append]
    exact NoCh.append hx (NoCh.append hx (NoCh.append hx (NoCh.append hx (noCh_lit hx "map<" (by simp))
      (noCh_tyStr hx false k [] hk (by simp))) (noCh_lit hx ", " (by simp))) (noCh_tyStr hx abs first rest hf hr))
      (noCh_lit hx ">" (by simp))
  exact NoCh.append hx (NoCh.append hx (NoCh.append hx (NoCh.append hx (NoCh.append hx (NoCh.append hx (NoCh.append hx hl
    hT) (noCh_lit hx " " (by simp))) (noCh_ident hx hn)) (noCh_lit hx " = " (by simp)))
    (noCh_formatInt hx _)) (noCh_lit hx ";" (by simp))) (noCh_lit hx "" (by simp))

theorem noCh_valueLine (n : Nat) (f : FieldD) (h : SimpleValue f) : NoCh x (valueLine n f).toList := by
  obtain ⟨_, _, _, _, _, hn, _, _⟩ := h
  unfold valueLine
  apply noCh_ind hx
  simp only [String.toList_append]
  exact NoCh.append hx (NoCh.append hx (NoCh.append hx (NoCh.append hx (noCh_ident hx hn) (noCh_lit hx " = " (by simp)))
    (noCh_formatInt hx _)) (noCh_lit hx ";" (by simp))) (noCh_lit hx "" (by simp))

end

/-- a line that holds only tokens -/
def TokLine (s : String) : Prop := ∀ (L : Nat), ∀ r ∈ lexL s.toList L, ∃ t ln, r = Raw.tok t ln

/-- the character does not occur in the line — or it is a slash and the line holds only tokens all the same (a
slash inside a string literal) -/
def LineOk (x : Char) (s : String) : Prop := NoCh x s.toList ∨ (x = '/' ∧ TokLine s)

theorem tokLine_ind_of_ok (n : Nat) (l : String) (h : TokOk l) : TokLine (ind n l) := by
  intro L r hr
  unfold ind at hr
  rw [String.toList_append, String.toList_ofList, lexL_spaces] at hr
  have hs : lexL l.toList L = (lexL l.toList 0).map (Raw.shift L) := by
    unfold lexL
    have := lexAux_shift L (l.toList.length + 1) l.toList 0
    rw [Nat.zero_add] at this
    exact this
  rw [hs, List.mem_map] at hr
  obtain ⟨r0, hr0, rfl⟩ := hr
  obtain ⟨t, ln, rfl⟩ := h r0 hr0
  exact ⟨t, ln + L, rfl⟩

/-- the texts a command list can write -/
def CmdsNoCh (x : Char) (cmds : List Cmd) : Prop :=
  ∀ c ∈ cmds, match c with
    | .line s => LineOk x s
    | .endl s => LineOk x s
    | .gap => True

theorem CmdsNoCh.append {x : Char} {a b : List Cmd} (ha : CmdsNoCh x a) (hb : CmdsNoCh x b) : CmdsNoCh x (a ++ b) := by
  intro c hc
  rcases List.mem_append.mp hc with h | h
  · exact ha c h
  · exact hb c h

theorem cmdsNoCh_line (x : Char) (str : String) (h : NoCh x str.toList) : CmdsNoCh x [Cmd.line str] := by
  intro c hc
  simp only [List.mem_singleton] at hc
  subst hc
  exact Or.inl h

theorem cmdsNoCh_endl (x : Char) (str : String) (h : NoCh x str.toList) : CmdsNoCh x [Cmd.endl str] := by
  intro c hc
  simp only [List.mem_singleton] at hc
  subst hc
  exact Or.inl h

theorem cmdsNoCh_gap (x : Char) : CmdsNoCh x [Cmd.gap] := by
  intro c hc
  simp only [List.mem_singleton] at hc
  subst hc
  trivial

theorem cmdsNoCh_gapIf (x : Char) (c : Bool) : CmdsNoCh x (if c then [Cmd.gap] else []) := by
  cases c
  · intro y hy; simp at hy
  · exact cmdsNoCh_gap x

/-- every line written is one of the texts, or empty -/
theorem exec_lines : ∀ (cmds : List Cmd) (g : Bool) (P : String → Prop), P "" →
    (∀ c ∈ cmds, match c with | .line s => P s | .endl s => P s | .gap => True) → ∀ s ∈ (exec cmds g).1, P s
  | [], _, _, _, _, s, hs => by simp [exec] at hs
  | .gap :: r, g, P, h0, h, s, hs => by
    simp only [exec] at hs
    exact exec_lines r true P h0 (fun c hc => h c (by simp [hc])) s hs
  | .line str :: r, g, P, h0, h, s, hs => by
    have hx : P str := h (.line str) (by simp)
    have ih := exec_lines r false P h0 (fun c hc => h c (by simp [hc]))
    simp only [exec] at hs
    rcases List.mem_append.mp hs with h1 | h1
    · cases g
      · simp only [Bool.false_eq_true, if_false, List.mem_singleton] at h1
        rw [h1]; exact hx
      · simp only [if_true, List.mem_cons, List.not_mem_nil, or_false] at h1
        rcases h1 with h1 | h1
        · rw [h1]; exact h0
        · rw [h1]; exact hx
    · exact ih s h1
  | .endl str :: r, g, P, h0, h, s, hs => by
    have hx : P str := h (.endl str) (by simp)
    have ih := exec_lines r false P h0 (fun c hc => h c (by simp [hc]))
    simp only [exec, List.mem_cons] at hs
    rcases hs with h1 | h1
    · rw [h1]; exact hx
    · exact ih s h1

section
variable {x : Char} (hx : Safe x)
include hx

theorem optCmds_noCh (n : Nat) (os : List SOpt) (ho : BlockOpts os) :
    CmdsNoCh x ((sortOpts os).map (fun o => optionCmds (n + 1) o ++ [Cmd.gap])).flatten := by
  rw [optCmds_indent]
  intro c hc
  simp only [List.mem_map] at hc
  obtain ⟨c0, hc0, rfl⟩ := hc
  simp only [optCmds0, List.mem_flatten, List.mem_map] at hc0
  obtain ⟨cs, ⟨o, ho', rfl⟩, hmem⟩ := hc0
  rcases List.mem_append.mp hmem with h1 | h1
  · simp only [optionCmds, List.mem_map] at h1
    obtain ⟨l, hl, rfl⟩ := h1
    simp only [Cmd.indent]
    have hl' : l ∈ optLines0 os := by
      simp only [optLines0, List.mem_flatten, List.mem_map]
      exact ⟨_, ⟨o, ho', rfl⟩, hl⟩
    have := ho.noch l hl'
    rcases hx.only with h2 | h2
    · left
      apply noCh_ind hx
      intro ch hch hcx
      exact this.1 ch hch (hcx.trans h2)
    · exact Or.inr ⟨h2, tokLine_ind_of_ok _ l this.2⟩
  · simp only [List.mem_singleton] at h1
    subst h1
    trivial

/-- the commands of an element itself: without its leading comment and without its children (for a block: both
forms of the opening line, the closing line, the option statements) -/
def ownCmds (n : Nat) : Item → List Cmd
  | .block kw _ _ _ name os _ =>
    Cmd.line (ind n (kw ++ " " ++ name ++ " {}")) :: Cmd.line (ind n (kw ++ " " ++ name ++ " {" ++ "")) ::
      Cmd.endl (ind n "}") :: ((sortOpts os).map (fun o => optionCmds (n + 1) o ++ [Cmd.gap])).flatten
  | e => bodyCmds n e

theorem leaf_own (n : Nat) (f : FieldD) (h : SimpleField f ∨ SimpleValue f ∨ MapField f ∨ OptField f) :
    CmdsNoCh x (ownCmds n (.field f)) := by
  simp only [ownCmds]
  rcases h with h | h | h | h
  · rw [fieldCmds_simple n f h]
    exact cmdsNoCh_line x _ (noCh_fieldLine hx n f h)
  · rw [fieldCmds_value n f h]
    exact cmdsNoCh_line x _ (noCh_valueLine hx n f h)
  · rw [fieldCmds_map n f h]
    exact cmdsNoCh_line x _ (noCh_mapLine hx n f h)
  · rw [fieldCmds_lines n f h.loc, fieldLines_ind n f]
    intro c hc
    simp only [List.map_map, List.mem_map, Function.comp] at hc
    obtain ⟨l, hl, rfl⟩ := hc
    simp only []
    have := h.noch l hl
    rcases hx.only with h1 | h1
    · left
      apply noCh_ind hx
      intro ch hch hcx
      exact this.1 ch hch (hcx.trans h1)
    · exact Or.inr ⟨h1, tokLine_ind_of_ok _ l this.2⟩

theorem block_own (n : Nat) (kw : String) (t : Nat) (l : Loc) (i : Nat) (name : String) (os : List SOpt) (kids : List Item)
    (hkw : NoCh x kw.toList) (hname : IsIdent name) (ho : BlockOpts os) :
    CmdsNoCh x (ownCmds n (.block kw t l i name os kids)) := by
  simp only [ownCmds]
  intro c hc
  simp only [List.mem_cons] at hc
  rcases hc with rfl | rfl | rfl | hc
  · left
    apply noCh_ind hx
    simp only [String.toList_append]
    exact NoCh.append hx (NoCh.append hx (NoCh.append hx hkw (noCh_lit hx " " (by simp))) (noCh_ident hx hname))
      (noCh_lit hx " {}" (by simp))
  · left
    apply noCh_ind hx
    simp only [String.toList_append]
    exact NoCh.append hx (NoCh.append hx (NoCh.append hx (NoCh.append hx hkw (noCh_lit hx " " (by simp)))
      (noCh_ident hx hname)) (noCh_lit hx " {" (by simp))) (noCh_lit hx "" (by simp))
  · exact Or.inl (noCh_ind hx n "}" (noCh_lit hx "}" (by simp)))
  · exact optCmds_noCh hx n os ho c hc

theorem simpleItem_own : ∀ (e : Item) (n : Nat), SimpleItem e → CmdsNoCh x (ownCmds n e)
  | .field f, n, h => by
    simp only [SimpleItem] at h
    apply leaf_own hx n f
    rcases h with h | h | h
    · exact Or.inl h
    · exact Or.inr (Or.inr (Or.inl h))
    · exact Or.inr (Or.inr (Or.inr h))
  | .rpc _ _ _ _ _ _, _, h => h.elim
  | .block kw t l i name os kids, n, h => by
    simp only [SimpleItem] at h
    obtain ⟨hl, ho, hname, hcase⟩ := h
    have hkw : NoCh x kw.toList := by
      rcases hcase with ⟨h, _⟩ | ⟨h, _⟩ | ⟨h, _⟩ <;> rw [h] <;> exact noCh_lit hx _ (by simp)
    exact block_own hx n kw t l i name os kids hkw hname ho

end

/-! ## from the text to the tokens of its lines -/

theorem foldl_append_toList : ∀ (l : List String) (acc : String),
    (l.foldl (· ++ ·) acc).toList = acc.toList ++ (l.map String.toList).flatten
  | [], acc => by simp
  | x :: xs, acc => by
    simp only [List.foldl_cons, List.map_cons, List.flatten_cons]
    rw [foldl_append_toList xs (acc ++ x), String.toList_append, List.append_assoc]

theorem join_toList (l : List String) : (String.join l).toList = (l.map String.toList).flatten := by
  unfold String.join
  rw [foldl_append_toList]
  simp

theorem text_toList (lines : List String) :
    (String.join (lines.map (· ++ "\n"))).toList = (lines.map fun s => s.toList ++ ['\n']).flatten := by
  rw [join_toList, List.map_map]
  congr 1
  apply List.map_congr_left
  intro s _
  simp only [Function.comp, String.toList_append]
  congr 1

/-- the raw items of consecutive lines -/
def rawLines : List String → Nat → List Raw
  | [], _ => []
  | s :: r, l => lexL s.toList l ++ rawLines r (l + 1)

theorem lexL_text : ∀ (lines : List String) (L : Nat), (∀ s ∈ lines, NoNL s.toList) →
    lexL ((lines.map fun s => s.toList ++ ['\n']).flatten) L = rawLines lines L
  | [], L, _ => by simp [rawLines, lexL_nil]
  | s :: r, L, h => by
    simp only [List.map_cons, List.flatten_cons, List.append_assoc, List.cons_append, List.nil_append, rawLines]
    rw [lexL_line s.toList.length s.toList rfl (h s (by simp)), lexL_text r (L + 1) (fun x hx => h x (by simp [hx]))]

theorem rawLines_toP : ∀ (lines : List String) (L : Nat), (rawLines lines L).filterMap toP = lexLines lines L
  | [], _ => rfl
  | s :: r, L => by
    simp only [rawLines, lexLines, List.filterMap_append, rawLines_toP r (L + 1)]
    rfl

/-- a line without a slash holds no comment -/
theorem lexL_tokens : ∀ (n : Nat) (l : List Char), l.length = n → NoCh '/' l → ∀ (L : Nat),
    ∀ r ∈ lexL l L, ∃ t ln, r = Raw.tok t ln := by
  intro n
  induction n using Nat.strongRecOn with
  | _ n ih =>
    intro l hl hns L r hr
    cases l with
    | nil => simp [lexL_nil] at hr
    | cons c cs =>
      have hc : c ≠ '/' := hns c (by simp)
      have hcs : NoCh '/' cs := fun y hy => hns y (by simp [hy])
      simp only [List.length_cons] at hl
      have hsl : (c == '/') = false := by simp [hc]
      rw [lexL_cons] at hr
      simp only [hsl, Bool.false_and, Bool.false_eq_true, if_false] at hr
      have hsub : ∀ (m : List Char), m.length ≤ cs.length → (∀ y ∈ m, y ∈ cs) → ∀ L', ∀ r' ∈ lexL m L', ∃ t ln, r' = Raw.tok t ln :=
        fun m hm hmem L' r' hr' => ih m.length (by omega) m rfl (fun y hy => hcs y (hmem y hy)) L' r' hr'
      split at hr
      · exact hsub cs (Nat.le_refl _) (fun y hy => hy) _ r hr
      · split at hr
        · exact hsub cs (Nat.le_refl _) (fun y hy => hy) _ r hr
        · split at hr
          · rcases List.mem_cons.mp hr with h | h
            · exact ⟨_, _, h⟩
            · exact hsub _ (dropWhile_length_le _ cs) (fun y hy => List.Sublist.mem hy (List.dropWhile_sublist _)) _ r h
          · split at hr
            · rcases List.mem_cons.mp hr with h | h
              · exact ⟨_, _, h⟩
              · exact hsub _ (numRest_length cs c) (numRest_subset cs c) _ r h
            · split at hr
              · rcases List.mem_cons.mp hr with h | h
                · exact ⟨_, _, h⟩
                · exact hsub _ (strRest_length cs) (strRest_subset cs) _ r h
              · rcases List.mem_cons.mp hr with h | h
                · exact ⟨_, _, h⟩
                · exact hsub cs (Nat.le_refl _) (fun y hy => hy) _ r h

/-! ## `attach`: tokens without comments between them carry none -/

theorem attributeCm_nil (pl : Nat) (t : Grammar.Tok) (l : Nat) : attributeCm (some pl) [] t l = Cm.none := by
  simp [attributeCm, groupComments, combine, Cm.none, String.join]

/-- the line of the last item -/
def lastLineOf : List Raw → Nat → Nat
  | [], ll => ll
  | .tok _ l :: r, _ => lastLineOf r l
  | .comment _ l :: r, _ => lastLineOf r l

theorem attach_tokens : ∀ (raws : List Raw) (pl ll : Nat), (∀ r ∈ raws, ∃ t ln, r = Raw.tok t ln) →
    attach raws (some pl) [] ll = raws.filterMap toP ++ [T .eof (lastLineOf raws ll + 1)]
  | [], pl, ll, _ => by simp [attach, attributeCm_nil, T, lastLineOf]
  | .tok t l :: r, pl, ll, h => by
    simp only [attach, attributeCm_nil, List.filterMap_cons, toP, T, lastLineOf, List.cons_append]
    rw [attach_tokens r l l (fun x hx => h x (by simp [hx]))]
    rfl
  | .comment c l :: r, pl, ll, h => by
    obtain ⟨t, ln, he⟩ := h (.comment c l) (by simp)
    cases he


/-! ## the top level of a file -/

theorem topLevel_msg_step (F : Nat) (name : String) (s : Nat) (cm : Cm) (r : List PTok) (a : Acc) :
    topLevel (F + 1) (⟨.ident "message", s, cm⟩ :: T (.ident name) s :: T (.sym '{') s :: r) a =
      match messageBody F r [] [] with
      | some (mos, mks, le, r') =>
        topLevel F r' { a with items := a.items ++ [.block "message" 1 (mkLoc s le cm (trailOf r)) 0 name (mkOpts s mos) mks] }
      | none => none := by
  simp only [T]
  rw [topLevel]
  rfl

theorem topLevel_enum_step (F : Nat) (name : String) (s : Nat) (cm : Cm) (r : List PTok) (a : Acc) :
    topLevel (F + 1) (⟨.ident "enum", s, cm⟩ :: T (.ident name) s :: T (.sym '{') s :: r) a =
      match enumBody F r [] [] with
      | some (eos, vs, le, r') =>
        topLevel F r' { a with items := a.items ++ [.block "enum" 2 (mkLoc s le cm (trailOf r)) 0 name (mkOpts s eos) (vs.map .field)] }
      | none => none := by
  simp only [T]
  rw [topLevel]
  rfl

theorem topLevel_eof (F : Nat) (l : Nat) (more : List PTok) (a : Acc) :
    topLevel (F + 1) (T .eof l :: more) a = some a := by
  simp [topLevel, T]


/-- the inside of a message (options, elements), up to and including its closing brace -/
theorem inner_message (opts : List SOpt) (ho : BlockOpts opts) (kids : List Item) (hk : SimpleKids kids) (n s G : Nat)
    (more : List PTok) (hG : kids.length + 1 + needAll kids + (optChunks opts).length ≤ G) :
    messageBody G (sh s (optToks0 opts) ++ (kT (n + 1) kids true 0 0 (!opts.isEmpty) (s + 1 + optSpan opts) ++
        T (.sym '}') (rdKids kids true 0 0 (s + 1 + optSpan opts) (!opts.isEmpty)).2 :: more)) [] [] =
      some ((optRaws0 opts).map (RawOpt.shift s), (rdKids kids true 0 0 (s + 1 + optSpan opts) (!opts.isEmpty)).1,
        (rdKids kids true 0 0 (s + 1 + optSpan opts) (!opts.isEmpty)).2, more) := by
  obtain ⟨F'', hGe⟩ : ∃ F'', G = ((F'' + 1) + kids.length) + (optChunks opts).length :=
    ⟨G - kids.length - (optChunks opts).length - 1, by omega⟩
  have hopts := mb_opts s (optChunks opts) ho.chunks ((F'' + 1) + kids.length)
    (kT (n + 1) kids true 0 0 (!opts.isEmpty) (s + 1 + optSpan opts) ++
      T (.sym '}') (rdKids kids true 0 0 (s + 1 + optSpan opts) (!opts.isEmpty)).2 :: more) [] []
  rw [ho.whole] at hopts
  have hkids := mb_kids kids hk (n + 1) true 0 0 (s + 1 + optSpan opts) (!opts.isEmpty) (F'' + 1)
    ([] ++ (rawsOf (optChunks opts)).map (RawOpt.shift s)) []
    (T (.sym '}') (rdKids kids true 0 0 (s + 1 + optSpan opts) (!opts.isEmpty)).2 :: more) rfl (by omega)
  rw [hGe, hopts, hkids, messageBody_close]
  simp [optRaws0]

/-- the inside of an enum (options, values) -/
theorem inner_enum (opts : List SOpt) (ho : BlockOpts opts) (kids : List Item) (hk : SimpleValues kids) (n s G : Nat)
    (more : List PTok) (hG : kids.length + 1 + (optChunks opts).length ≤ G) :
    enumBody G (sh s (optToks0 opts) ++ (kT (n + 1) kids true 0 0 (!opts.isEmpty) (s + 1 + optSpan opts) ++
        T (.sym '}') (rdKids kids true 0 0 (s + 1 + optSpan opts) (!opts.isEmpty)).2 :: more)) [] [] =
      some ((optRaws0 opts).map (RawOpt.shift s), fieldsOf (rdKids kids true 0 0 (s + 1 + optSpan opts) (!opts.isEmpty)).1,
        (rdKids kids true 0 0 (s + 1 + optSpan opts) (!opts.isEmpty)).2, more) := by
  obtain ⟨F'', hGe⟩ : ∃ F'', G = ((F'' + 1) + kids.length) + (optChunks opts).length :=
    ⟨G - kids.length - (optChunks opts).length - 1, by omega⟩
  have hopts := eb_opts s (optChunks opts) ho.chunks ((F'' + 1) + kids.length)
    (kT (n + 1) kids true 0 0 (!opts.isEmpty) (s + 1 + optSpan opts) ++
      T (.sym '}') (rdKids kids true 0 0 (s + 1 + optSpan opts) (!opts.isEmpty)).2 :: more) [] []
  rw [ho.whole] at hopts
  have hvals := enumBody_values kids hk (n + 1) true 0 0 (s + 1 + optSpan opts) (!opts.isEmpty) (F'' + 1)
    ([] ++ (rawsOf (optChunks opts)).map (RawOpt.shift s)) []
    (T (.sym '}') (rdKids kids true 0 0 (s + 1 + optSpan opts) (!opts.isEmpty)).2 :: more) rfl
  rw [hGe, hopts, hvals, enumBody_close]
  simp [optRaws0]

/-- a message or an enum, not a field or a oneof -/
def IsBlock : Item → Prop
  | .block _ t _ _ _ _ _ => t ≠ 0
  | _ => False

theorem top_item : ∀ (e : Item), SimpleItem e → IsBlock e → ∀ (s G : Nat) (c : String) (a : Acc) (more : List PTok),
    trailOf more = "" → need1 e ≤ G →
    topLevel (G + 1) (hd c (itemToks 0 e s) ++ more) a =
      topLevel G more { a with items := a.items ++ [(rdItem e s).1.withLead c] }
  | .field _, _, hb, _, _, _, _, _, _, _ => hb.elim
  | .rpc _ _ _ _ _ _, h, _, _, _, _, _, _, _, _ => h.elim
  | .block kw t l i name opts kids, h, hb, s, G, c, a, more, hm, hG => by
    simp only [SimpleItem] at h
    obtain ⟨hl, ho, hname, hcase⟩ := h
    simp only [need1] at hG
    have hcase : (kw = "message" ∧ t = 1 ∧ SimpleKids kids) ∨ (kw = "enum" ∧ t = 2 ∧ SimpleValues kids) := by
      rcases hcase with h | h | h
      · exact Or.inl h
      · exact Or.inr h
      · exact (hb h.2.1).elim
    have htr : trailOf (sh s (optToks0 opts) ++ (kT (0 + 1) kids true 0 0 (!opts.isEmpty) (s + 1 + optSpan opts) ++
        T (.sym '}') (rdKids kids true 0 0 (s + 1 + optSpan opts) (!opts.isEmpty)).2 :: more)) = "" :=
      trailOf_opts _ _ _ (trailOf_kT _ _ _ _ _ _ _ _ rfl)
    have htr0 : trailOf (T (.sym '}') s :: more) = "" := rfl
    rcases hcase with ⟨hkw, ht, hk⟩ | ⟨hkw, ht, hk⟩
    · subst hkw ht
      by_cases hempty : (kids.isEmpty && opts.isEmpty) = true
      · simp only [Bool.and_eq_true, List.isEmpty_iff] at hempty
        obtain ⟨rfl, rfl⟩ := hempty
        simp only [itemToks, rdItem, List.isEmpty_nil, Bool.and_self, if_true]
        rw [lineToks_empty 0 "message" name s isIdent_message hname]
        simp only [List.cons_append, List.nil_append, hd_T]
        rw [topLevel_msg_step]
        obtain ⟨G', rfl⟩ : ∃ G', G = G' + 1 := ⟨G - 1, by omega⟩
        rw [messageBody_close]
        simp only [mkOpts, groupOpts, unlocateShared, List.map_nil, htr0, mkLoc_leadPlain]
        rfl
      · have hne : (kids.isEmpty && opts.isEmpty) = false := by simpa using hempty
        simp only [itemToks, rdItem, hne, Bool.false_eq_true, if_false]
        rw [lineToks_open 0 "message" name s isIdent_message hname, lineToks_close]
        simp only [List.cons_append, List.nil_append, List.append_assoc, hd_T]
        rw [topLevel_msg_step, inner_message opts ho kids hk 0 s G more (by omega)]
        simp only [htr, mkLoc_leadPlain, mkOpts_block]
        rfl
    · subst hkw ht
      by_cases hempty : (kids.isEmpty && opts.isEmpty) = true
      · simp only [Bool.and_eq_true, List.isEmpty_iff] at hempty
        obtain ⟨rfl, rfl⟩ := hempty
        simp only [itemToks, rdItem, List.isEmpty_nil, Bool.and_self, if_true]
        rw [lineToks_empty 0 "enum" name s isIdent_enum hname]
        simp only [List.cons_append, List.nil_append, hd_T]
        rw [topLevel_enum_step]
        obtain ⟨G', rfl⟩ : ∃ G', G = G' + 1 := ⟨G - 1, by omega⟩
        rw [enumBody_close]
        simp only [mkOpts, groupOpts, unlocateShared, List.map_nil, htr0, mkLoc_leadPlain]
        rfl
      · have hne : (kids.isEmpty && opts.isEmpty) = false := by simpa using hempty
        simp only [itemToks, rdItem, hne, Bool.false_eq_true, if_false]
        rw [lineToks_open 0 "enum" name s isIdent_enum hname, lineToks_close]
        simp only [List.cons_append, List.nil_append, List.append_assoc, hd_T]
        rw [topLevel_enum_step, inner_enum opts ho kids hk 0 s G more (by omega)]
        simp only [htr, mkLoc_leadPlain, mkOpts_block]
        rw [← rdKids_values kids hk]
        rfl

/-- the elements of a file are blocks -/
def AllBlocks : List Item → Prop
  | [] => True
  | e :: r => IsBlock e ∧ AllBlocks r

theorem top_items : ∀ (es : List Item), SimpleKids es → AllBlocks es →
    ∀ (first : Bool) (le0 lt L : Nat) (g : Bool) (F : Nat) (a : Acc) (rest : List PTok), trailOf rest = "" → needAll es ≤ F →
    topLevel (F + es.length) (kT 0 es first le0 lt g L ++ rest) a =
      topLevel F rest { a with items := a.items ++ (rdKids es first le0 lt L g).1 }
  | [], _, _, first, le0, lt, L, g, F, a, rest, _, _ => by
    simp [kT_nil, rdKids]
  | e :: r, h, hb, first, le0, lt, L, g, F, a, rest, hr, hF => by
    simp only [SimpleKids] at h
    simp only [AllBlocks] at hb
    simp only [needAll] at hF
    rw [kT_cons, rdKids_cons]
    simp only [List.length_cons, List.append_assoc]
    rw [← Nat.add_assoc, top_item e h.1 hb.1 _ (F + r.length) _ a _ (trailOf_kT _ _ _ _ _ _ _ _ hr) (by omega)]
    rw [top_items r h.2.2 hb.2 false _ _ _ _ F _ rest hr (by omega)]
    simp only [List.append_assoc, List.cons_append, List.nil_append]

end J5V.Print.Reparse
