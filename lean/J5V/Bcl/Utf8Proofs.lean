import J5V.Bcl.Utf8
import J5V.Bcl.PosLines
/-!
# `[]rune(string)` keeps line structure: the number of `\n` runes equals the number of `0x0a` bytes,
so `strings.Split(src, "\n")` has as many lines as the lexer sees.
-/
namespace J5V.Bcl

theorem countNL_take_drop (bs : List Nat) (n : Nat) :
    countNL (bs.take n) + countNL (bs.drop n) = countNL bs := by
  rw [← countNL_append, List.take_append_drop]

/-- a non-ASCII lead byte: the decoded rune is ≥ 0x80 and all the bytes it occupies are ≥ 0x80 -/
theorem decodeOne_hi (b : Nat) (rest : List Nat) (h : ¬ b < 0x80) :
    0x80 ≤ (decodeOne (b :: rest)).1 ∧ 1 ≤ (decodeOne (b :: rest)).2 ∧
    ∀ x ∈ (b :: rest).take (decodeOne (b :: rest)).2, 0x80 ≤ x := by
  unfold decodeOne
  simp only [h, if_false]
  repeat' split
  all_goals simp_all [isCont, runeError]
  all_goals omega

theorem countNL_zero_of_hi (l : List Nat) (h : ∀ x ∈ l, 0x80 ≤ x) : countNL l = 0 := by
  induction l with
  | nil => rfl
  | cons x xs ih =>
    have hx : x ≠ cNL := by have := h x (by simp); simp [cNL]; omega
    simp only [countNL, hx, if_false, Nat.zero_add]
    exact ih (fun y hy => h y (by simp [hy]))

/-- the rune decoded at the head occupies `1 ≤ n` bytes, and is a newline exactly when those bytes
contain one -/
theorem decodeOne_nl (b : Nat) (rest : List Nat) :
    1 ≤ (decodeOne (b :: rest)).2 ∧
    countNL ((b :: rest).take (decodeOne (b :: rest)).2) =
      (if (decodeOne (b :: rest)).1 = cNL then 1 else 0) := by
  by_cases h : b < 0x80
  · have : decodeOne (b :: rest) = (b, 1) := by unfold decodeOne; simp [h]
    rw [this]
    simp [countNL]
  · obtain ⟨h1, h2, h3⟩ := decodeOne_hi b rest h
    refine ⟨h2, ?_⟩
    rw [countNL_zero_of_hi _ h3]
    have : (decodeOne (b :: rest)).1 ≠ cNL := by simp [cNL]; omega
    simp [this]

theorem countNL_decodeFuel (f : Nat) : ∀ bs : List Nat, bs.length ≤ f →
    countNL (decodeRunesFuel f bs) = countNL bs := by
  induction f with
  | zero =>
    intro bs h
    have : bs = [] := List.eq_nil_of_length_eq_zero (Nat.le_zero.mp h)
    subst this; rfl
  | succ f ih =>
    intro bs h
    cases bs with
    | nil => rfl
    | cons b rest =>
      unfold decodeRunesFuel
      obtain ⟨h1, h2⟩ := decodeOne_nl b rest
      generalize decodeOne (b :: rest) = d at h1 h2
      obtain ⟨r, n⟩ := d
      simp only at h1 h2 ⊢
      have hlen : ((b :: rest).drop n).length ≤ f := by
        simp at h ⊢; omega
      show countNL (r :: decodeRunesFuel f ((b :: rest).drop n)) = _
      rw [← countNL_take_drop (b :: rest) n, h2]
      simp only [countNL, ih _ hlen]

theorem countNL_decodeRunes (bs : List Nat) : countNL (decodeRunes bs) = countNL bs :=
  countNL_decodeFuel bs.length bs (Nat.le_refl _)

/-- the lexer's view and `strings.Split` agree on the number of lines -/
theorem lineCount_decodeRunes (bs : List Nat) :
    (splitLines (decodeRunes bs)).length = (splitLines bs).length := by
  rw [splitLines_length, splitLines_length, countNL_decodeRunes]

end J5V.Bcl
