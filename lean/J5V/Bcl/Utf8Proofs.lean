import J5V.Bcl.Utf8
import J5V.Bcl.PosLines
import J5V.Bcl.ApplyProofs
/-!
# `[]rune(string)` keeps line structure: the number of `\n` runes equals the number of `0x0a` bytes,
so `strings.Split(src, "\n")` has as many lines as the lexer sees.
-/
namespace J5V.Bcl

theorem countNL_take_drop (bs : List Nat) (n : Nat) :
    countNL (bs.take n) + countNL (bs.drop n) = countNL bs := by
  rw [← countNL_append, List.take_append_drop]

/-- a non-ASCII lead byte: the decoded rune is ≥ 0x80 and all the bytes it occupies are ≥ 0x80 -/
theorem decodeOne_hi (b : Nat) (rest : List Nat) (h : ¬ b < 0x80) :
    0x80 ≤ (decodeOne (b :: rest)).1 ∧ 1 ≤ (decodeOne (b :: rest)).2 ∧
    ∀ x ∈ (b :: rest).take (decodeOne (b :: rest)).2, 0x80 ≤ x := by
  unfold decodeOne
  simp only [h, if_false]
  repeat' split
  all_goals simp_all [isCont, runeError]
  all_goals omega

theorem countNL_zero_of_hi (l : List Nat) (h : ∀ x ∈ l, 0x80 ≤ x) : countNL l = 0 := by
  induction l with
  | nil => rfl
  | cons x xs ih =>
    have hx : x ≠ cNL := by have := h x (by simp); simp [cNL]; omega
    simp only [countNL, hx, if_false, Nat.zero_add]
    exact ih (fun y hy => h y (by simp [hy]))

/-- the rune decoded at the head occupies `1 ≤ n` bytes, and is a newline exactly when those bytes
contain one -/
theorem decodeOne_nl (b : Nat) (rest : List Nat) :
    1 ≤ (decodeOne (b :: rest)).2 ∧
    countNL ((b :: rest).take (decodeOne (b :: rest)).2) =
      (if (decodeOne (b :: rest)).1 = cNL then 1 else 0) := by
  by_cases h : b < 0x80
  · have : decodeOne (b :: rest) = (b, 1) := by unfold decodeOne; simp [h]
    rw [this]
    simp [countNL]
  · obtain ⟨h1, h2, h3⟩ := decodeOne_hi b rest h
    refine ⟨h2, ?_⟩
    rw [countNL_zero_of_hi _ h3]
    have : (decodeOne (b :: rest)).1 ≠ cNL := by simp [cNL]; omega
    simp [this]

theorem countNL_decodeFuel (f : Nat) : ∀ bs : List Nat, bs.length ≤ f →
    countNL (decodeRunesFuel f bs) = countNL bs := by
  induction f with
  | zero =>
    intro bs h
    have : bs = [] := List.eq_nil_of_length_eq_zero (Nat.le_zero.mp h)
    subst this; rfl
  | succ f ih =>
    intro bs h
    cases bs with
    | nil => rfl
    | cons b rest =>
      unfold decodeRunesFuel
      obtain ⟨h1, h2⟩ := decodeOne_nl b rest
      generalize decodeOne (b :: rest) = d at h1 h2
      obtain ⟨r, n⟩ := d
      simp only at h1 h2 ⊢
      have hlen : ((b :: rest).drop n).length ≤ f := by
        simp at h ⊢; omega
      show countNL (r :: decodeRunesFuel f ((b :: rest).drop n)) = _
      rw [← countNL_take_drop (b :: rest) n, h2]
      simp only [countNL, ih _ hlen]

theorem countNL_decodeRunes (bs : List Nat) : countNL (decodeRunes bs) = countNL bs :=
  countNL_decodeFuel bs.length bs (Nat.le_refl _)

/-- the lexer's view and `strings.Split` agree on the number of lines -/
theorem lineCount_decodeRunes (bs : List Nat) :
    (splitLines (decodeRunes bs)).length = (splitLines bs).length := by
  rw [splitLines_length, splitLines_length, countNL_decodeRunes]


/-- decoding the head does not look past a newline byte -/
theorem decodeOne_before_nl (x : Nat) (a b : List Nat) :
    decodeOne (x :: a ++ cNL :: b) = decodeOne (x :: a) ∧ (decodeOne (x :: a)).2 ≤ (x :: a).length := by
  match a with
  | [] =>
    show decodeOne (x :: cNL :: b) = decodeOne [x] ∧ _
    unfold decodeOne; simp only []; repeat' split
    all_goals simp_all [isCont, runeError, cNL]
    all_goals omega
  | [y] =>
    show decodeOne (x :: y :: cNL :: b) = decodeOne [x, y] ∧ _
    unfold decodeOne; simp only []; repeat' split
    all_goals simp_all [isCont, runeError, cNL]
    all_goals omega
  | [y, z] =>
    show decodeOne (x :: y :: z :: cNL :: b) = decodeOne [x, y, z] ∧ _
    unfold decodeOne; simp only []; repeat' split
    all_goals simp_all [isCont, runeError, cNL]
    all_goals omega
  | y :: z :: u :: rest =>
    show decodeOne (x :: y :: z :: u :: (rest ++ cNL :: b)) = decodeOne (x :: y :: z :: u :: rest) ∧ _
    unfold decodeOne; simp only []; repeat' split
    all_goals simp_all [isCont, runeError, cNL]
    all_goals omega

/-- any two fuels ≥ the number of bytes give the same decoding -/
theorem decodeRunesFuel_irrel (f : Nat) : ∀ (g : Nat) (bs : List Nat), bs.length ≤ f → bs.length ≤ g →
    decodeRunesFuel f bs = decodeRunesFuel g bs := by
  induction f with
  | zero =>
    intro g bs h _
    have : bs = [] := List.eq_nil_of_length_eq_zero (Nat.le_zero.mp h)
    subst this
    cases g <;> rfl
  | succ f ih =>
    intro g bs h hg
    cases bs with
    | nil => cases g <;> rfl
    | cons b rest =>
      cases g with
      | zero => simp at hg
      | succ g =>
        unfold decodeRunesFuel
        obtain ⟨h1, _⟩ := decodeOne_nl b rest
        generalize decodeOne (b :: rest) = d at h1
        obtain ⟨r, n⟩ := d
        simp only at h1 ⊢
        have hl1 : ((b :: rest).drop n).length ≤ f := by simp at h ⊢; omega
        have hl2 : ((b :: rest).drop n).length ≤ g := by simp at hg ⊢; omega
        rw [ih g _ hl1 hl2]

theorem decodeRunes_cons (b : Nat) (rest : List Nat) :
    decodeRunes (b :: rest) =
      (decodeOne (b :: rest)).1 :: decodeRunes ((b :: rest).drop (decodeOne (b :: rest)).2) := by
  have e : decodeRunes (b :: rest) = decodeRunesFuel (rest.length + 1) (b :: rest) := rfl
  rw [e]
  conv => lhs; unfold decodeRunesFuel
  obtain ⟨h1, _⟩ := decodeOne_nl b rest
  generalize decodeOne (b :: rest) = d at h1
  obtain ⟨r, n⟩ := d
  simp only at h1 ⊢
  congr 1
  exact decodeRunesFuel_irrel _ _ _ (by simp; omega) (Nat.le_refl _)

/-- decoding distributes over a newline byte -/
theorem decodeRunes_nl (n : Nat) : ∀ (a b : List Nat), a.length ≤ n →
    decodeRunes (a ++ cNL :: b) = decodeRunes a ++ cNL :: decodeRunes b := by
  induction n with
  | zero =>
    intro a b h
    have : a = [] := List.eq_nil_of_length_eq_zero (Nat.le_zero.mp h)
    subst this
    show decodeRunes (cNL :: b) = _
    rw [decodeRunes_cons]
    have : decodeOne (cNL :: b) = (cNL, 1) := by unfold decodeOne; simp [cNL]
    rw [this]
    rfl
  | succ n ih =>
    intro a b h
    cases a with
    | nil =>
      show decodeRunes (cNL :: b) = _
      rw [decodeRunes_cons]
      have : decodeOne (cNL :: b) = (cNL, 1) := by unfold decodeOne; simp [cNL]
      rw [this]
      rfl
    | cons x a' =>
      obtain ⟨e1, e2⟩ := decodeOne_before_nl x a' b
      obtain ⟨h1, _⟩ := decodeOne_nl x a'
      show decodeRunes (x :: (a' ++ cNL :: b)) = _
      rw [decodeRunes_cons, decodeRunes_cons x a']
      have e1' : decodeOne (x :: (a' ++ cNL :: b)) = decodeOne (x :: a') := e1
      rw [e1']
      generalize decodeOne (x :: a') = d at e2 h1
      obtain ⟨r, k⟩ := d
      simp only at e2 h1 ⊢
      have hdrop : (x :: (a' ++ cNL :: b)).drop k = (x :: a').drop k ++ cNL :: b := by
        have : x :: (a' ++ cNL :: b) = (x :: a') ++ cNL :: b := rfl
        rw [this, List.drop_append_of_le_length e2]
      rw [hdrop, ih _ b (by simp at h ⊢; omega)]
      rfl

theorem countNL_eq_zero_iff (l : List Nat) : countNL l = 0 ↔ cNL ∉ l := by
  induction l with
  | nil => simp [countNL]
  | cons x xs ih =>
    simp only [countNL, List.mem_cons, not_or]
    by_cases hx : x = cNL
    · simp [hx]
    · simp only [hx, if_false, Nat.zero_add, ih]
      constructor
      · intro h; exact ⟨fun e => hx e.symm, h⟩
      · intro h; exact h.2

/-- without a newline byte there is no newline rune -/
theorem decodeRunes_no_nl (bs : List Nat) (h : cNL ∉ bs) : cNL ∉ decodeRunes bs := by
  rw [← countNL_eq_zero_iff, countNL_decodeRunes, countNL_eq_zero_iff]
  exact h

/-- `strings.Split` on newlines and `[]rune` commute -/
theorem splitLines_decodeRunes (n : Nat) : ∀ bs : List Nat, bs.length ≤ n →
    splitLines (decodeRunes bs) = (splitLines bs).map decodeRunes := by
  induction n with
  | zero =>
    intro bs h
    have : bs = [] := List.eq_nil_of_length_eq_zero (Nat.le_zero.mp h)
    subst this; rfl
  | succ n ih =>
    intro bs h
    by_cases hnl : cNL ∈ bs
    · have hex : ∃ a b, bs = a ++ cNL :: b ∧ cNL ∉ a := by
        clear ih h
        induction bs with
        | nil => cases hnl
        | cons x xs ihx =>
          by_cases hx : x = cNL
          · exact ⟨[], xs, by rw [hx]; rfl, by simp⟩
          · have : cNL ∈ xs := by
              rcases List.mem_cons.mp hnl with e | e
              · exact absurd e.symm hx
              · exact e
            obtain ⟨a, b, e1, e2⟩ := ihx this
            exact ⟨x :: a, b, by rw [e1]; rfl, by
              intro hm
              rcases List.mem_cons.mp hm with e | e
              · exact hx e.symm
              · exact e2 e⟩
      obtain ⟨a', b', e', ha'⟩ := hex
      subst e'
      have hb : b'.length ≤ n := by simp at h; omega
      rw [decodeRunes_nl a'.length a' b' (Nat.le_refl _), splitLines_append_nl, splitLines_append_nl,
        ih b' hb, splitLines_no_nl a' ha', splitLines_no_nl _ (decodeRunes_no_nl a' ha')]
      simp
    · rw [splitLines_no_nl bs hnl, splitLines_no_nl _ (decodeRunes_no_nl bs hnl)]
      rfl

end J5V.Bcl
