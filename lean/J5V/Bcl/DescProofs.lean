import J5V.Bcl.Fmt
import J5V.Bcl.ApplyProofs
/-!
# `reformatDescription`: words and paragraph breaks are preserved, and re-flowing is stable
(lemmas for C09).  A description is seen as a list of *items*: words, and blank-line markers.
-/
namespace J5V.Bcl

inductive Item where
  | word (w : List Rune)
  | blank
  deriving DecidableEq, Repr

/-- items of one line: a blank-line marker, or its words (`strings.Fields`) -/
def itemsOfLine (cls : Cls) (line : List Rune) : List Item :=
  if line.all cls.isSpace then [.blank] else (fields cls line).map .word

def itemsOf (cls : Cls) (lines : List (List Rune)) : List Item := lines.flatMap (itemsOfLine cls)

/-- one step of `reformatDescription` on an item -/
def stepItem (maxWidth : Int) (st : RDState) : Item → RDState
  | .blank =>
    let out1 := if st.pend ≠ [] then st.out ++ [st.pend] else st.out
    let out2 := if !st.lastWasEmpty ∧ out1 ≠ [] then out1 ++ [[]] else out1
    ⟨out2, [], true⟩
  | .word wd =>
    if st.pend = [] then ⟨st.out, wd, false⟩
    else if ((byteLen st.pend + byteLen wd : Nat) : Int) > maxWidth then ⟨st.out ++ [st.pend], wd, false⟩
    else ⟨st.out, st.pend ++ [cSP] ++ wd, false⟩

theorem rdWords_fold (maxWidth : Int) (ws : List (List Rune)) (st : RDState) (hne : ws ≠ []) :
    (⟨(rdWords maxWidth ws st.out st.pend).1, (rdWords maxWidth ws st.out st.pend).2, false⟩ : RDState)
      = (ws.map Item.word).foldl (stepItem maxWidth) st := by
  induction ws generalizing st with
  | nil => exact absurd rfl hne
  | cons w ws ih =>
    simp only [List.map_cons, List.foldl_cons]
    unfold rdWords
    by_cases hp : st.pend = []
    · rw [if_pos hp]
      cases ws with
      | nil => simp [rdWords, stepItem, hp]
      | cons w2 ws2 =>
        have := ih ⟨st.out, w, false⟩ (by simp)
        simp only [stepItem, hp, if_true] at this ⊢
        exact this
    · rw [if_neg hp]
      by_cases hw : ((byteLen st.pend + byteLen w : Nat) : Int) > maxWidth
      · rw [if_pos hw]
        cases ws with
        | nil => simp only [rdWords, List.map_nil, List.foldl_nil, stepItem, if_neg hp, if_pos hw]
        | cons w2 ws2 =>
          have := ih ⟨st.out ++ [st.pend], w, false⟩ (by simp)
          simp only [stepItem, hp, hw, if_true, if_false] at this ⊢
          exact this
      · rw [if_neg hw]
        cases ws with
        | nil => simp only [rdWords, List.map_nil, List.foldl_nil, stepItem, if_neg hp, if_neg hw]
        | cons w2 ws2 =>
          have := ih ⟨st.out, st.pend ++ [cSP] ++ w, false⟩ (by simp)
          simp only [stepItem, hp, hw, if_false] at this ⊢
          exact this

/-- a line that is not all white space has at least one field -/
theorem fieldsAux_ne_nil (cls : Cls) (line cur : List Rune)
    (h : cur ≠ [] ∨ ¬ line.all cls.isSpace = true) : fieldsAux cls line cur ≠ [] := by
  induction line generalizing cur with
  | nil =>
    rcases h with h | h
    · simp [fieldsAux, h]
    · simp at h
  | cons r rs ih =>
    unfold fieldsAux
    by_cases hs : cls.isSpace r = true
    · rw [if_pos hs]
      by_cases hc : cur = []
      · rw [if_pos hc]
        apply ih
        rcases h with h | h
        · exact absurd hc h
        · right; simpa [hs] using h
      · rw [if_neg hc]; simp
    · rw [if_neg hs]
      apply ih
      left; simp

theorem fields_ne_nil (cls : Cls) (line : List Rune) (h : ¬ line.all cls.isSpace = true) :
    fields cls line ≠ [] := fieldsAux_ne_nil cls line [] (Or.inr h)

theorem rdLines_fold (cls : Cls) (maxWidth : Int) (lines : List (List Rune)) (st : RDState) :
    rdLines cls maxWidth lines st = (itemsOf cls lines).foldl (stepItem maxWidth) st := by
  induction lines generalizing st with
  | nil => rfl
  | cons line ls ih =>
    unfold rdLines
    simp only [itemsOf, List.flatMap_cons, List.foldl_append]
    by_cases hb : line.all cls.isSpace = true
    · rw [if_pos hb]
      simp only [itemsOfLine, hb, if_true, List.foldl_cons, List.foldl_nil]
      rw [ih]
      rfl
    · rw [if_neg hb]
      simp only [itemsOfLine, hb, Bool.false_eq_true, if_false]
      have := rdWords_fold maxWidth (fields cls line) st (fields_ne_nil cls line hb)
      rw [← this, ih]
      rfl


/-! ## Canonical items: leading and repeated blank-line markers removed -/

def canonStep (s : List Item × Bool) : Item → List Item × Bool
  | .word w => (s.1 ++ [.word w], false)
  | .blank => (if !s.2 ∧ s.1 ≠ [] then s.1 ++ [.blank] else s.1, true)

def canonFrom (s : List Item × Bool) (items : List Item) : List Item × Bool := items.foldl canonStep s

/-- the words and paragraph breaks of a description -/
def canon (items : List Item) : List Item := (canonFrom ([], false) items).1

def rdInit : RDState := ⟨[], [], false⟩
def rdFinish (st : RDState) : List (List Rune) := if st.pend ≠ [] then st.out ++ [st.pend] else st.out

/-- `reformatDescription` as a function of the items -/
def layout (maxWidth : Int) (items : List Item) : List (List Rune) :=
  rdFinish (items.foldl (stepItem maxWidth) rdInit)

theorem reformat_eq_layout (cls : Cls) (v : List Rune) (maxWidth : Int) :
    reformatDescription cls v maxWidth = layout maxWidth (itemsOf cls (splitOn cNL v)) := by
  unfold reformatDescription layout rdFinish
  rw [rdLines_fold]
  rfl

/-- simulation between running on `I` and running on the canonical prefix `acc` -/
structure Sim (L R : RDState) (acc : List Item) (lwe : Bool) : Prop where
  out : L.out = R.out
  pend : L.pend = R.pend
  lweL : L.lastWasEmpty = lwe
  lweR : R.lastWasEmpty = L.lastWasEmpty ∨ (acc = [] ∧ L.out = [] ∧ L.pend = [])
  pendNil : L.lastWasEmpty = true → L.pend = []
  ne : acc ≠ [] ↔ (L.out ≠ [] ∨ L.pend ≠ [])

theorem stepItem_word_congr (maxWidth : Int) (L R : RDState) (w : List Rune) (h1 : L.out = R.out)
    (h2 : L.pend = R.pend) :
    (stepItem maxWidth L (.word w)).out = (stepItem maxWidth R (.word w)).out ∧
    (stepItem maxWidth L (.word w)).pend = (stepItem maxWidth R (.word w)).pend ∧
    (stepItem maxWidth L (.word w)).lastWasEmpty = false ∧
    (stepItem maxWidth R (.word w)).lastWasEmpty = false := by
  simp only [stepItem, h1, h2]
  split
  · simp
  · split <;> simp

theorem stepItem_word_ne (maxWidth : Int) (L : RDState) (w : List Rune) (hw : w ≠ []) :
    (stepItem maxWidth L (.word w)).out ≠ [] ∨ (stepItem maxWidth L (.word w)).pend ≠ [] := by
  simp only [stepItem]
  split
  · exact Or.inr hw
  · split
    · exact Or.inr hw
    · right; simp

theorem sim_fold (maxWidth : Int) (items : List Item) (hw : ∀ w, Item.word w ∈ items → w ≠ []) :
    ∀ (L : RDState) (acc : List Item) (lwe : Bool),
      Sim L (acc.foldl (stepItem maxWidth) rdInit) acc lwe →
      Sim (items.foldl (stepItem maxWidth) L)
        ((canonFrom (acc, lwe) items).1.foldl (stepItem maxWidth) rdInit)
        (canonFrom (acc, lwe) items).1 (canonFrom (acc, lwe) items).2 := by
  induction items with
  | nil => intro L acc lwe h; exact h
  | cons x xs ih =>
    intro L acc lwe h
    have hxs : ∀ w, Item.word w ∈ xs → w ≠ [] := fun w hm => hw w (by simp [hm])
    simp only [List.foldl_cons, canonFrom]
    cases x with
    | word w =>
      have hwne : w ≠ [] := hw w (by simp)
      apply ih hxs
      simp only [canonStep, List.foldl_append, List.foldl_cons, List.foldl_nil]
      obtain ⟨c1, c2, c3, c4⟩ := stepItem_word_congr maxWidth L (acc.foldl (stepItem maxWidth) rdInit) w
        h.out h.pend
      exact ⟨c1, c2, c3, Or.inl (by rw [c3, c4]), (fun hc => by rw [c3] at hc; cases hc),
        ⟨fun _ => stepItem_word_ne maxWidth L w hwne, fun _ => by simp⟩⟩
    | blank =>
      apply ih hxs
      simp only [canonStep]
      by_cases hk : (!lwe) = true ∧ acc ≠ []
      · -- kept
        rw [if_pos hk]
        simp only [List.foldl_append, List.foldl_cons, List.foldl_nil]
        have hlf : L.lastWasEmpty = false := by rw [h.lweL]; simpa using hk.1
        have hRl : (acc.foldl (stepItem maxWidth) rdInit).lastWasEmpty = false := by
          rcases h.lweR with e | ⟨e, _, _⟩
          · rw [e, hlf]
          · exact absurd e hk.2
        have hne := h.ne.mp hk.2
        simp only [stepItem, ← h.out, ← h.pend, hlf, hRl]
        refine ⟨rfl, rfl, rfl, Or.inl rfl, fun _ => rfl, ⟨fun _ => ?_, fun _ => by simp⟩⟩
        left
        by_cases hp : L.pend ≠ []
        · simp [hp]
        · have hp' : L.pend = [] := by simpa using hp
          have ho : L.out ≠ [] := by
            rcases hne with h1 | h1
            · exact h1
            · exact absurd hp' h1
          simp [hp', ho]
      · -- skipped
        rw [if_neg hk]
        have hcase : L.lastWasEmpty = true ∨ acc = [] := by
          by_cases hl : lwe = true
          · left; rw [h.lweL, hl]
          · right
            by_cases ha : acc = []
            · exact ha
            · exact absurd ⟨by simpa using hl, ha⟩ hk
        rcases hcase with hl | ha
        · have hp := h.pendNil hl
          have hstep : stepItem maxWidth L .blank = ⟨L.out, [], true⟩ := by
            simp [stepItem, hp, hl]
          rw [hstep]
          refine ⟨h.out, by rw [← h.pend, hp], rfl, ?_, fun _ => rfl, ?_⟩
          · rcases h.lweR with e | e
            · left; rw [e, hl]
            · right; exact ⟨e.1, e.2.1, rfl⟩
          · rw [h.ne, hp]
        · have hno : ¬ (L.out ≠ [] ∨ L.pend ≠ []) := fun hh => (h.ne.mpr hh) ha
          have ho : L.out = [] := by
            by_cases e : L.out = []
            · exact e
            · exact absurd (Or.inl e) hno
          have hp : L.pend = [] := by
            by_cases e : L.pend = []
            · exact e
            · exact absurd (Or.inr e) hno
          have hstep : stepItem maxWidth L .blank = ⟨[], [], true⟩ := by
            simp [stepItem, hp, ho]
          rw [hstep]
          refine ⟨by rw [← h.out, ho], by rw [← h.pend, hp], rfl, Or.inr ⟨ha, rfl, rfl⟩,
            fun _ => rfl, ?_⟩
          simp [ha]

/-- the layout only depends on the canonical items -/
theorem layout_canon (maxWidth : Int) (items : List Item) (hw : ∀ w, Item.word w ∈ items → w ≠ []) :
    layout maxWidth items = layout maxWidth (canon items) := by
  have h0 : Sim rdInit (([] : List Item).foldl (stepItem maxWidth) rdInit) [] false :=
    ⟨rfl, rfl, rfl, Or.inl rfl, (fun h => by cases h), by simp [rdInit]⟩
  have := sim_fold maxWidth items hw rdInit [] false h0
  unfold layout rdFinish canon
  rw [this.out, this.pend]


/-! ## The output lines, read back as items, are the canonical items of the input -/

def renderLine (ws : List (List Rune)) : List Rune := joinWith [cSP] ws
def lineItems (ws : List (List Rune)) : List Item := if ws = [] then [.blank] else ws.map .word

theorem joinWith_snoc (sep : List Rune) (ws : List (List Rune)) (w : List Rune) (h : ws ≠ []) :
    joinWith sep (ws ++ [w]) = joinWith sep ws ++ sep ++ w := by
  induction ws with
  | nil => exact absurd rfl h
  | cons a as ih =>
    cases as with
    | nil => simp [joinWith]
    | cons b bs =>
      have := ih (by simp)
      simp only [List.cons_append, joinWith] at this ⊢
      rw [this]; simp

theorem renderLine_eq_nil (ws : List (List Rune)) (hw : ∀ w ∈ ws, w ≠ []) :
    renderLine ws = [] ↔ ws = [] := by
  cases ws with
  | nil => simp [renderLine, joinWith]
  | cons a as =>
    have ha := hw a (by simp)
    cases as with
    | nil => simp [renderLine, joinWith, ha]
    | cons b bs => simp [renderLine, joinWith, ha]

theorem lineItems_ne_nil (ws : List (List Rune)) : lineItems ws ≠ [] := by
  unfold lineItems; split <;> simp_all

theorem flatMap_lineItems_eq_nil (ls : List (List (List Rune))) :
    ls.flatMap lineItems = [] ↔ ls = [] := by
  cases ls with
  | nil => simp
  | cons a as => simp [lineItems_ne_nil]

/-- the state is the rendering of structured lines whose items are `acc` -/
def Rep (P : List Rune → Prop) (st : RDState) (acc : List Item) : Prop :=
  ∃ (linesW : List (List (List Rune))) (pw : List (List Rune)),
    st.out = linesW.map renderLine ∧ st.pend = renderLine pw ∧ (∀ w ∈ pw, w ≠ [] ∧ P w) ∧
    (∀ ws ∈ linesW, ∀ w ∈ ws, w ≠ [] ∧ P w) ∧ acc = linesW.flatMap lineItems ++ pw.map Item.word

theorem rep_fold (P : List Rune → Prop) (maxWidth : Int) (items : List Item)
    (hw : ∀ w, Item.word w ∈ items → w ≠ [] ∧ P w) :
    ∀ (L : RDState) (acc : List Item), Rep P L acc →
      Rep P (items.foldl (stepItem maxWidth) L) (canonFrom (acc, L.lastWasEmpty) items).1 ∧
      (items.foldl (stepItem maxWidth) L).lastWasEmpty = (canonFrom (acc, L.lastWasEmpty) items).2 := by
  induction items with
  | nil => intro L acc h; exact ⟨h, rfl⟩
  | cons x xs ih =>
    intro L acc h
    have hxs : ∀ w, Item.word w ∈ xs → w ≠ [] ∧ P w := fun w hm => hw w (by simp [hm])
    obtain ⟨linesW, pw, h1, h2, h3, h4, h5⟩ := h
    simp only [List.foldl_cons, canonFrom]
    cases x with
    | word w =>
      have hwne : w ≠ [] ∧ P w := hw w (by simp)
      have key : Rep P (stepItem maxWidth L (.word w)) (acc ++ [.word w]) ∧
          (stepItem maxWidth L (.word w)).lastWasEmpty = false := by
        simp only [stepItem]
        by_cases hp : L.pend = []
        · rw [if_pos hp]
          have hpw : pw = [] := (renderLine_eq_nil pw (fun w h => (h3 w h).1)).mp (by rw [← h2, hp])
          refine ⟨⟨linesW, [w], h1, by simp [renderLine, joinWith], ?_, h4, ?_⟩, rfl⟩
          · intro x hx; simp at hx; subst hx; exact hwne
          · rw [h5, hpw]; simp
        · rw [if_neg hp]
          have hpw : pw ≠ [] := fun e => hp (by rw [h2, e]; rfl)
          by_cases hlen : ((byteLen L.pend + byteLen w : Nat) : Int) > maxWidth
          · rw [if_pos hlen]
            refine ⟨⟨linesW ++ [pw], [w], by simp [h1, h2], by simp [renderLine, joinWith], ?_, ?_, ?_⟩,
              rfl⟩
            · intro x hx; simp at hx; subst hx; exact hwne
            · intro ws hws
              rcases List.mem_append.mp hws with hh | hh
              · exact h4 ws hh
              · simp at hh; subst hh; exact h3
            · rw [h5]; simp [lineItems, hpw]
          · rw [if_neg hlen]
            refine ⟨⟨linesW, pw ++ [w], h1, ?_, ?_, h4, ?_⟩, rfl⟩
            · show L.pend ++ [cSP] ++ w = renderLine (pw ++ [w])
              unfold renderLine
              rw [joinWith_snoc _ _ _ hpw, h2]; rfl
            · intro x hx
              rcases List.mem_append.mp hx with hh | hh
              · exact h3 x hh
              · simp at hh; subst hh; exact hwne
            · rw [h5]; simp
      have := ih hxs (stepItem maxWidth L (.word w)) (acc ++ [.word w]) key.1
      simp only [canonStep]
      rw [key.2] at this
      exact this
    | blank =>
      -- the lines after flushing `pend`
      have hflush : ∃ linesW1 : List (List (List Rune)), (if L.pend ≠ [] then L.out ++ [L.pend] else L.out) = linesW1.map renderLine ∧
          (∀ ws ∈ linesW1, ∀ w ∈ ws, w ≠ [] ∧ P w) ∧ acc = linesW1.flatMap lineItems := by
        by_cases hp : L.pend = []
        · have hpw : pw = [] := (renderLine_eq_nil pw (fun w h => (h3 w h).1)).mp (by rw [← h2, hp])
          refine ⟨linesW, by simp [hp, h1], h4, by rw [h5, hpw]; simp⟩
        · have hpw : pw ≠ [] := fun e => hp (by rw [h2, e]; rfl)
          have hp2 : ¬ renderLine pw = [] := by rw [← h2]; exact hp
          refine ⟨linesW ++ [pw], by simp [hp2, h1, h2], ?_, by rw [h5]; simp [lineItems, hpw]⟩
          intro ws hws
          rcases List.mem_append.mp hws with hh | hh
          · exact h4 ws hh
          · simp at hh; subst hh; exact h3
      obtain ⟨linesW1, f1, f2, f3⟩ := hflush
      have hne : (if L.pend ≠ [] then L.out ++ [L.pend] else L.out) ≠ [] ↔ acc ≠ [] := by
        rw [f1, f3]
        constructor
        · intro hh e
          apply hh
          rw [(flatMap_lineItems_eq_nil linesW1).mp e]; rfl
        · intro hh e
          apply hh
          have : linesW1 = [] := by simpa using e
          rw [this]; rfl
      have key : Rep P (stepItem maxWidth L .blank)
          (if (!L.lastWasEmpty) = true ∧ acc ≠ [] then acc ++ [.blank] else acc) ∧
          (stepItem maxWidth L .blank).lastWasEmpty = true := by
        simp only [stepItem]
        by_cases hc : (!L.lastWasEmpty) = true ∧ acc ≠ []
        · rw [if_pos hc]
          have hc' : (!L.lastWasEmpty) = true ∧
              (if L.pend ≠ [] then L.out ++ [L.pend] else L.out) ≠ [] := ⟨hc.1, hne.mpr hc.2⟩
          rw [if_pos hc']
          refine ⟨⟨linesW1 ++ [[]], [], by rw [f1]; simp [renderLine, joinWith], rfl,
            (fun w h => by cases h), ?_, ?_⟩, trivial⟩
          · intro ws hws
            rcases List.mem_append.mp hws with hh | hh
            · exact f2 ws hh
            · simp at hh; subst hh; intro w h; cases h
          · rw [f3]; simp [lineItems]
        · rw [if_neg hc]
          have hc' : ¬ ((!L.lastWasEmpty) = true ∧
              (if L.pend ≠ [] then L.out ++ [L.pend] else L.out) ≠ []) :=
            fun hh => hc ⟨hh.1, hne.mp hh.2⟩
          rw [if_neg hc']
          exact ⟨⟨linesW1, [], f1, rfl, (fun w h => by cases h), f2, by rw [f3]; simp⟩, trivial⟩
      have := ih hxs (stepItem maxWidth L .blank) _ key.1
      simp only [canonStep]
      rw [key.2] at this
      exact this


/-! ## `strings.Fields` -/

/-- a word: non-empty, no white space -/
def WordWF (cls : Cls) (w : List Rune) : Prop := w ≠ [] ∧ ∀ r ∈ w, cls.isSpace r = false

theorem fieldsAux_words (cls : Cls) (line : List Rune) : ∀ (cur : List Rune),
    (∀ r ∈ cur, cls.isSpace r = false) →
    ∀ w ∈ fieldsAux cls line cur, WordWF cls w ∧ ∀ r ∈ w, r ∈ cur ∨ r ∈ line := by
  induction line with
  | nil =>
    intro cur hc w hw
    unfold fieldsAux at hw
    split at hw
    · cases hw
    · rename_i hne
      simp at hw; subst hw
      exact ⟨⟨hne, hc⟩, fun r hr => Or.inl hr⟩
  | cons x xs ih =>
    intro cur hc w hw
    unfold fieldsAux at hw
    by_cases hs : cls.isSpace x = true
    · rw [if_pos hs] at hw
      by_cases hcur : cur = []
      · rw [if_pos hcur] at hw
        obtain ⟨h1, h2⟩ := ih [] (fun r h => by cases h) w hw
        exact ⟨h1, fun r hr => by
          rcases h2 r hr with h | h
          · cases h
          · exact Or.inr (by simp [h])⟩
      · rw [if_neg hcur] at hw
        rcases List.mem_cons.mp hw with rfl | hw
        · exact ⟨⟨hcur, hc⟩, fun r hr => Or.inl hr⟩
        · obtain ⟨h1, h2⟩ := ih [] (fun r h => by cases h) w hw
          exact ⟨h1, fun r hr => by
            rcases h2 r hr with h | h
            · cases h
            · exact Or.inr (by simp [h])⟩
    · rw [if_neg hs] at hw
      have hs' : cls.isSpace x = false := by simpa using hs
      obtain ⟨h1, h2⟩ := ih (cur ++ [x]) (by
        intro r hr
        rcases List.mem_append.mp hr with h | h
        · exact hc r h
        · simp at h; subst h; exact hs') w hw
      exact ⟨h1, fun r hr => by
        rcases h2 r hr with h | h
        · rcases List.mem_append.mp h with h | h
          · exact Or.inl h
          · simp at h; subst h; exact Or.inr (by simp)
        · exact Or.inr (by simp [h])⟩

theorem fields_words (cls : Cls) (line : List Rune) :
    ∀ w ∈ fields cls line, WordWF cls w ∧ ∀ r ∈ w, r ∈ line := by
  intro w hw
  obtain ⟨h1, h2⟩ := fieldsAux_words cls line [] (fun r h => by cases h) w hw
  exact ⟨h1, fun r hr => by
    rcases h2 r hr with h | h
    · cases h
    · exact h⟩

theorem fieldsAux_word (cls : Cls) (w : List Rune) (hw : ∀ r ∈ w, cls.isSpace r = false)
    (rest cur : List Rune) : fieldsAux cls (w ++ rest) cur = fieldsAux cls rest (cur ++ w) := by
  induction w generalizing cur with
  | nil => simp
  | cons x xs ih =>
    have hx : ¬ cls.isSpace x = true := by simp [hw x (by simp)]
    simp only [List.cons_append]
    conv => lhs; unfold fieldsAux
    rw [if_neg hx, ih (fun r hr => hw r (by simp [hr]))]
    simp

theorem fields_renderLine (cls : Cls) (hsp : cls.isSpace cSP = true) (ws : List (List Rune))
    (hw : ∀ w ∈ ws, WordWF cls w) : fields cls (renderLine ws) = ws := by
  unfold fields renderLine
  induction ws with
  | nil => rfl
  | cons a as ih =>
    have ha := hw a (by simp)
    cases as with
    | nil =>
      simp only [joinWith]
      have := fieldsAux_word cls a ha.2 [] []
      simp only [List.append_nil, List.nil_append] at this
      rw [this]
      simp [fieldsAux, ha.1]
    | cons b bs =>
      have ih' := ih (fun w h => hw w (by simp [h]))
      simp only [joinWith]
      have := fieldsAux_word cls a ha.2 ([cSP] ++ joinWith [cSP] (b :: bs)) []
      simp only [List.nil_append, List.append_assoc] at this ⊢
      rw [this]
      show fieldsAux cls (cSP :: joinWith [cSP] (b :: bs)) a = _
      conv => lhs; unfold fieldsAux
      rw [if_pos hsp, if_neg ha.1, ih']

theorem itemsOfLine_renderLine (cls : Cls) (hsp : cls.isSpace cSP = true) (ws : List (List Rune))
    (hw : ∀ w ∈ ws, WordWF cls w) : itemsOfLine cls (renderLine ws) = lineItems ws := by
  unfold itemsOfLine lineItems
  cases ws with
  | nil => simp [renderLine, joinWith]
  | cons a as =>
    have ha := hw a (by simp)
    have hnot : ¬ (renderLine (a :: as)).all cls.isSpace = true := by
      obtain ⟨x, xs, hx⟩ := List.exists_cons_of_ne_nil ha.1
      have hxs : cls.isSpace x = false := ha.2 x (by rw [hx]; simp)
      have : ∃ t, renderLine (a :: as) = x :: t := by
        cases as with
        | nil => exact ⟨xs, by simp [renderLine, joinWith, hx]⟩
        | cons b bs => exact ⟨xs ++ [cSP] ++ joinWith [cSP] (b :: bs), by simp [renderLine, joinWith, hx]⟩
      obtain ⟨t, ht⟩ := this
      rw [ht]; simp [hxs]
    rw [if_neg hnot, fields_renderLine cls hsp _ hw]
    simp

theorem itemsOf_words (cls : Cls) (lines : List (List Rune)) :
    ∀ w, Item.word w ∈ itemsOf cls lines → WordWF cls w ∧ ∃ l ∈ lines, ∀ r ∈ w, r ∈ l := by
  intro w hw
  unfold itemsOf at hw
  obtain ⟨l, hl, hm⟩ := List.mem_flatMap.mp hw
  unfold itemsOfLine at hm
  split at hm
  · simp at hm
  · obtain ⟨w', hw', he⟩ := List.mem_map.mp hm
    cases he
    obtain ⟨h1, h2⟩ := fields_words cls l w hw'
    exact ⟨h1, l, hl, h2⟩

theorem splitOn_eq_splitLines (s : List Rune) : splitOn cNL s = splitLines s := by
  induction s with
  | nil => rfl
  | cons r rs ih =>
    unfold splitOn
    rw [ih, splitLines_cons]
    cases splitLines rs <;> rfl

theorem splitLines_joinWith : ∀ (O : List (List Nat)), O ≠ [] → (∀ l ∈ O, cNL ∉ l) →
    splitLines (joinWith [cNL] O) = O
  | [], h, _ => absurd rfl h
  | [a], _, h => by simp [joinWith, splitLines_no_nl a (h a (by simp))]
  | a :: b :: rest, _, h => by
    have ih := splitLines_joinWith (b :: rest) (by simp) (fun l hl => h l (by simp [hl]))
    simp only [joinWith, List.append_assoc, List.singleton_append]
    rw [splitLines_append_nl, splitLines_no_nl a (h a (by simp)), ih]
    rfl


/-! ## The two description theorems -/

/-- a word of a description: non-empty, no white space, no newline -/
def DescWord (cls : Cls) (w : List Rune) : Prop := (∀ r ∈ w, cls.isSpace r = false) ∧ cNL ∉ w

theorem renderLine_no_nl (ws : List (List Rune)) (h : ∀ w ∈ ws, cNL ∉ w) : cNL ∉ renderLine ws := by
  unfold renderLine
  induction ws with
  | nil => simp [joinWith]
  | cons a as ih =>
    cases as with
    | nil => simpa [joinWith] using h a (by simp)
    | cons b bs =>
      have := ih (fun w hw => h w (by simp [hw]))
      have ha := h a (by simp)
      simp only [joinWith, List.mem_append, not_or]
      exact ⟨⟨ha, by decide⟩, this⟩

/-- structure of the output of `layout`: rendered word lines whose items are the canonical input -/
theorem layout_rep (cls : Cls) (maxWidth : Int) (items : List Item)
    (hw : ∀ w, Item.word w ∈ items → w ≠ [] ∧ DescWord cls w) :
    ∃ linesW : List (List (List Rune)), layout maxWidth items = linesW.map renderLine ∧
      (∀ ws ∈ linesW, ∀ w ∈ ws, w ≠ [] ∧ DescWord cls w) ∧ canon items = linesW.flatMap lineItems := by
  have h0 : Rep (DescWord cls) rdInit [] :=
    ⟨[], [], rfl, rfl, (fun w h => by cases h), (fun ws h => by cases h), rfl⟩
  obtain ⟨⟨linesW, pw, h1, h2, h3, h4, h5⟩, _⟩ := rep_fold (DescWord cls) maxWidth items hw rdInit [] h0
  unfold layout rdFinish
  unfold canon
  have hc : (canonFrom ([], rdInit.lastWasEmpty) items).1 = (canonFrom ([], false) items).1 := rfl
  rw [hc] at h5
  by_cases hp : (items.foldl (stepItem maxWidth) rdInit).pend = []
  · have hpw : pw = [] := (renderLine_eq_nil pw (fun w h => (h3 w h).1)).mp (by rw [← h2, hp])
    rw [if_neg (by simpa using hp)]
    exact ⟨linesW, h1, h4, by rw [h5, hpw]; simp⟩
  · have hpw : pw ≠ [] := fun e => hp (by rw [h2, e]; rfl)
    rw [if_pos hp]
    refine ⟨linesW ++ [pw], by simp [h1, h2], ?_, by rw [h5]; simp [lineItems, hpw]⟩
    intro ws hws
    rcases List.mem_append.mp hws with hh | hh
    · exact h4 ws hh
    · simp at hh; subst hh; exact h3

theorem itemsOf_map_renderLine (cls : Cls) (hsp : cls.isSpace cSP = true)
    (linesW : List (List (List Rune))) (h : ∀ ws ∈ linesW, ∀ w ∈ ws, w ≠ [] ∧ DescWord cls w) :
    itemsOf cls (linesW.map renderLine) = linesW.flatMap lineItems := by
  induction linesW with
  | nil => rfl
  | cons ws rest ih =>
    simp only [itemsOf, List.map_cons, List.flatMap_cons]
    rw [itemsOfLine_renderLine cls hsp ws (fun w hw => ⟨(h ws (by simp) w hw).1, (h ws (by simp) w hw).2.1⟩)]
    congr 1
    exact ih (fun ws' hws' => h ws' (by simp [hws']))

/-- words of the items of a description value are description words -/
theorem items_desc_words (cls : Cls) (v : List Rune) :
    ∀ w, Item.word w ∈ itemsOf cls (splitOn cNL v) → w ≠ [] ∧ DescWord cls w := by
  intro w hw
  obtain ⟨⟨h1, h2⟩, l, hl, h3⟩ := itemsOf_words cls _ w hw
  refine ⟨h1, h2, ?_⟩
  intro hnl
  rw [splitOn_eq_splitLines] at hl
  exact splitLines_no_nl_mem v l hl (h3 _ hnl)

/-- `canon` is idempotent -/
theorem canon_idem_aux (items : List Item) : ∀ (acc : List Item) (lwe b : Bool),
    canonFrom ([], false) acc = (acc, b) → (b = true → lwe = true) →
    ∃ b', canonFrom ([], false) (canonFrom (acc, lwe) items).1 = ((canonFrom (acc, lwe) items).1, b') := by
  induction items with
  | nil => intro acc lwe b h _; exact ⟨b, h⟩
  | cons x xs ih =>
    intro acc lwe b h hb
    have hstep : canonFrom (acc, lwe) (x :: xs) = canonFrom (canonStep (acc, lwe) x) xs := rfl
    rw [hstep]
    cases x with
    | word w =>
      have e : canonStep (acc, lwe) (.word w) = (acc ++ [.word w], false) := rfl
      rw [e]
      refine ih (acc ++ [.word w]) false false ?_ (fun e => by cases e)
      unfold canonFrom at h ⊢
      rw [List.foldl_append, h]
      rfl
    | blank =>
      by_cases hk : (!lwe) = true ∧ acc ≠ []
      · have e : canonStep (acc, lwe) .blank = (acc ++ [.blank], true) := by
          simp only [canonStep]; rw [if_pos hk]
        rw [e]
        have hbf : b = false := by
          cases hb' : b with
          | false => rfl
          | true => have := hb hb'; simp [this] at hk
        refine ih (acc ++ [.blank]) true true ?_ (fun _ => rfl)
        unfold canonFrom at h ⊢
        rw [List.foldl_append, h, hbf]
        simp [canonStep, hk.2]
      · have e : canonStep (acc, lwe) .blank = (acc, true) := by
          simp only [canonStep]; rw [if_neg hk]
        rw [e]
        exact ih acc true b h (fun _ => rfl)

theorem canon_idem (items : List Item) : canon (canon items) = canon items := by
  obtain ⟨b', h⟩ := canon_idem_aux items [] false false rfl (fun e => by cases e)
  unfold canon
  rw [h]

/-- canonical items of the re-read output (`strings.Join(lines, "\n")`, split again) -/
theorem canon_reread (cls : Cls) (hsp : cls.isSpace cSP = true) (maxWidth : Int) (items : List Item)
    (hw : ∀ w, Item.word w ∈ items → w ≠ [] ∧ DescWord cls w) :
    canon (itemsOf cls (splitOn cNL (joinWith [cNL] (layout maxWidth items)))) = canon items := by
  obtain ⟨linesW, h1, h2, h3⟩ := layout_rep cls maxWidth items hw
  rw [splitOn_eq_splitLines]
  by_cases he : linesW = []
  · subst he
    rw [h1, h3]
    simp [joinWith, splitLines, itemsOf, itemsOfLine, canon, canonFrom, canonStep]
  · have hne : layout maxWidth items ≠ [] := by rw [h1]; simpa using he
    have hnl : ∀ l ∈ layout maxWidth items, cNL ∉ l := by
      rw [h1]
      intro l hl
      obtain ⟨ws, hws, rfl⟩ := List.mem_map.mp hl
      exact renderLine_no_nl ws (fun w hw' => (h2 ws hws w hw').2.2)
    rw [splitLines_joinWith _ hne hnl, h1, itemsOf_map_renderLine cls hsp linesW h2, ← h3]
    exact canon_idem items


/-- **Words and paragraph breaks are preserved**: reading the re-flowed lines back gives the same
canonical items (words in order, paragraph breaks) as the original description value. -/
theorem reformat_preserves_words (cls : Cls) (hsp : cls.isSpace cSP = true) (v : List Rune)
    (maxWidth : Int) :
    canon (itemsOf cls (splitOn cNL (joinWith [cNL] (reformatDescription cls v maxWidth)))) =
      canon (itemsOf cls (splitOn cNL v)) := by
  rw [reformat_eq_layout]
  exact canon_reread cls hsp maxWidth _ (items_desc_words cls v)

/-- **Re-flowing is stable**: re-flowing the joined output at the same width changes nothing. -/
theorem reformat_stable (cls : Cls) (hsp : cls.isSpace cSP = true) (v : List Rune) (maxWidth : Int) :
    reformatDescription cls (joinWith [cNL] (reformatDescription cls v maxWidth)) maxWidth =
      reformatDescription cls v maxWidth := by
  rw [reformat_eq_layout cls (joinWith [cNL] (reformatDescription cls v maxWidth))]
  rw [layout_canon maxWidth _ (fun w hw => (items_desc_words cls _ w hw).1)]
  rw [reformat_preserves_words cls hsp v maxWidth]
  rw [← layout_canon maxWidth _ (fun w hw => (items_desc_words cls v w hw).1)]
  rw [← reformat_eq_layout]

end J5V.Bcl
