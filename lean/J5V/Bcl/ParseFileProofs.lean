import J5V.Bcl.ParserProofs
import J5V.Bcl.Fmt
/-!
# `fragmentsToFile`, `Walk`, `ParseFile`: totality and positions (lemmas for C11)
-/
namespace J5V.Bcl

variable (Q : Pos → Prop)

theorem Statement.okList_append (a b : List Statement) (ha : Statement.okList Q a)
    (hb : Statement.okList Q b) : Statement.okList Q (a ++ b) := by
  induction a with
  | nil => exact hb
  | cons v vs ih =>
    unfold Statement.okList at ha
    show Statement.okList Q (v :: (vs ++ b))
    unfold Statement.okList
    exact ⟨ha.1, ih ha.2⟩

theorem Statement.okList_snoc (a : List Statement) (s : Statement) (ha : Statement.okList Q a)
    (hs : Statement.ok Q s) : Statement.okList Q (a ++ [s]) :=
  Statement.okList_append Q a [s] ha (by unfold Statement.okList; exact ⟨hs, trivial⟩)

def OpenBlock.ok (b : OpenBlock) : Prop := BlockHeader.ok Q b.hdr ∧ Statement.okList Q b.stmts

theorem block_ok {h : BlockHeader} {body : List Statement} (hh : BlockHeader.ok Q h)
    (hb : Statement.okList Q body) : Statement.ok Q (.block h body) := by
  unfold Statement.ok; exact ⟨hh, hb⟩

theorem Fragment.src_ok {f : Fragment} (h : Fragment.ok Q f) : PosPairOK Q f.src.start f.src.end_ := by
  cases f with
  | header hd => exact h.2.2.2.2.1
  | assign a => exact h.2.2.1
  | desc d => exact h.2
  | comment c => exact h.2
  | close c => exact h.2

theorem closeInto_ok (root : List Statement) (hroot : Statement.okList Q root) :
    ∀ (stack : List OpenBlock) (blk : Statement), Statement.ok Q blk →
      (∀ b ∈ stack, OpenBlock.ok Q b) → Statement.okList Q (closeInto root blk stack) := by
  intro stack
  induction stack with
  | nil => intro blk hb _; exact Statement.okList_snoc Q root blk hroot hb
  | cons p rest ih =>
    intro blk hb hs
    unfold closeInto
    have hp := hs p (by simp)
    exact ih _ (block_ok Q hp.1 (Statement.okList_snoc Q _ _ hp.2 hb))
      (fun b hbm => hs b (by simp [hbm]))

theorem closeAll_ok (root : List Statement) (hroot : Statement.okList Q root)
    (stack : List OpenBlock) (hs : ∀ b ∈ stack, OpenBlock.ok Q b) :
    Statement.okList Q (closeAll root stack) := by
  cases stack with
  | nil => exact hroot
  | cons b rest =>
    unfold closeAll
    have hb := hs b (by simp)
    exact closeInto_ok Q root hroot rest _ (block_ok Q hb.1 hb.2) (fun x hx => hs x (by simp [hx]))

theorem fragsLoop_ok : ∀ (frags : List Fragment) (root : List Statement) (stack : List OpenBlock)
    (errs : List Diag), (∀ f ∈ frags, Fragment.ok Q f) → Statement.okList Q root →
    (∀ b ∈ stack, OpenBlock.ok Q b) → (∀ d ∈ errs, Diag.ok Q d) →
    Statement.okList Q (fragsLoop frags root stack errs).1 ∧
      (∀ b ∈ (fragsLoop frags root stack errs).2.1, OpenBlock.ok Q b) ∧
      (∀ d ∈ (fragsLoop frags root stack errs).2.2, Diag.ok Q d) := by
  intro frags
  induction frags with
  | nil => intro root stack errs _ h1 h2 h3; exact ⟨h1, h2, h3⟩
  | cons f fs ih =>
    intro root stack errs hf hroot hstack herrs
    have hfs : ∀ f ∈ fs, Fragment.ok Q f := fun x hx => hf x (by simp [hx])
    have hf0 := hf f (by simp)
    -- adding a finished statement to the innermost open block (or the root)
    have hadd : ∀ s, Statement.ok Q s →
        Statement.okList Q (match stack with
          | [] => (root ++ [s], ([] : List OpenBlock))
          | b :: rest => (root, ⟨b.hdr, b.stmts ++ [s]⟩ :: rest)).1 ∧
        ∀ b ∈ (match stack with
          | [] => (root ++ [s], ([] : List OpenBlock))
          | b :: rest => (root, ⟨b.hdr, b.stmts ++ [s]⟩ :: rest)).2, OpenBlock.ok Q b := by
      intro s hs
      cases stack with
      | nil => exact ⟨Statement.okList_snoc Q _ _ hroot hs, fun b hb => by cases hb⟩
      | cons b rest =>
        refine ⟨hroot, ?_⟩
        intro x hx
        rcases List.mem_cons.mp hx with rfl | hx
        · have hb := hstack b (by simp)
          exact ⟨hb.1, Statement.okList_snoc Q _ _ hb.2 hs⟩
        · exact hstack x (by simp [hx])
    unfold fragsLoop
    cases f with
    | header h =>
      simp only []
      split
      · apply ih _ _ _ hfs hroot _ herrs
        intro b hb
        rcases List.mem_cons.mp hb with rfl | hb
        · exact ⟨hf0, trivial⟩
        · exact hstack b hb
      · have := hadd (.block h []) (block_ok Q hf0 trivial)
        exact ih _ _ _ hfs this.1 this.2 herrs
    | assign a =>
      simp only []
      have := hadd (.assign a) (by unfold Statement.ok; exact hf0)
      exact ih _ _ _ hfs this.1 this.2 herrs
    | desc d =>
      simp only []
      have := hadd (.desc d) (by unfold Statement.ok; exact hf0)
      exact ih _ _ _ hfs this.1 this.2 herrs
    | comment c => exact ih _ _ _ hfs hroot hstack herrs
    | close c =>
      simp only []
      cases stack with
      | nil =>
        simp only []
        apply ih _ _ _ hfs hroot hstack
        intro d hd
        rcases List.mem_append.mp hd with h | h
        · exact herrs d h
        · simp at h; subst h; exact hf0.2
      | cons b rest =>
        simp only []
        have hb := hstack b (by simp)
        cases rest with
        | nil =>
          simp only []
          exact ih _ _ _ hfs (Statement.okList_snoc Q _ _ hroot (block_ok Q hb.1 hb.2))
            (fun x hx => by cases hx) herrs
        | cons p rest' =>
          simp only []
          have hp := hstack p (by simp)
          apply ih _ _ _ hfs hroot _ herrs
          intro x hx
          rcases List.mem_cons.mp hx with rfl | hx
          · exact ⟨hp.1, Statement.okList_snoc Q _ _ hp.2 (block_ok Q hb.1 hb.2)⟩
          · exact hstack x (by simp [hx])

theorem fragmentsToFile_ok (frags : List Fragment) (hf : ∀ f ∈ frags, Fragment.ok Q f) :
    Statement.okList Q (fragmentsToFile frags).body ∧
      ∀ d ∈ (fragmentsToFile frags).errors, Diag.ok Q d := by
  have := fragsLoop_ok Q frags [] [] [] hf trivial (fun b hb => by cases hb) (fun d hd => by cases hd)
  unfold fragmentsToFile
  generalize fragsLoop frags [] [] [] = res at this ⊢
  obtain ⟨root, stack, errs⟩ := res
  simp only at this ⊢
  obtain ⟨h1, h2, h3⟩ := this
  refine ⟨closeAll_ok Q root h1 stack h2, ?_⟩
  split
  · rename_i last hlast
    intro d hd
    rcases List.mem_append.mp hd with h | h
    · exact h3 d h
    · simp at h; subst h
      have : last ∈ frags := List.mem_of_getLast? hlast
      exact Fragment.src_ok Q (hf last this)
  · exact h3


/-- what the walker needs from the lexer: tokens in order, well placed, no EOF token -/
structure TokensOK (tokens : List Token) : Prop where
  ordered : tokens.Pairwise (fun t u => t.end_ ≤ u.start)
  each : ∀ t ∈ tokens, t.start ≤ t.end_ ∧ Q t.start ∧ Q t.end_ ∧ t.ty ≠ .eof

theorem WInv.init (hQ0 : Q ⟨0, 0⟩) {tokens : List Token} (h : TokensOK Q tokens) (hne : tokens ≠ []) :
    WInv Q ⟨none, tokens⟩ where
  nonempty := Or.inr hne
  ordered := h.ordered
  spans := fun t ht => (h.each t ht).1
  after := fun t _ => Pos.zero_le _
  noEof := fun t ht => (h.each t ht).2.2.2
  prevNoEof := fun l hl => by cases hl
  qCur := hQ0
  qRest := fun t ht => ⟨(h.each t ht).2.1, (h.each t ht).2.2.1⟩

theorem FragChain.all_ok {lo : Pos} {fs : List Fragment} (h : FragChain Q lo fs) :
    ∀ f ∈ fs, Fragment.ok Q f := by
  induction fs generalizing lo with
  | nil => intro f hf; cases hf
  | cons f fs ih =>
    intro x hx
    rcases List.mem_cons.mp hx with rfl | hx
    · exact h.2.2.1
    · exact ih h.2.2.2 x hx

theorem walkFragments_spec (hQ0 : Q ⟨0, 0⟩) (ff : Bool) (tokens : List Token)
    (h : TokensOK Q tokens) :
    match walkFragments ff tokens with
    | .done frags errs => FragChain Q ⟨0, 0⟩ frags ∧ (∀ d ∈ errs, Diag.ok Q d) ∧ (ff = true → errs = [])
    | .hadErrors errs => ff = true ∧ ∃ d, errs = [d] ∧ Diag.ok Q d
    | .panic _ => False := by
  unfold walkFragments
  have hw : (⟨none, tokens⟩ : W).rest = [] ∨ WInv Q ⟨none, tokens⟩ := by
    cases tokens with
    | nil => exact Or.inl rfl
    | cons t ts => exact Or.inr (WInv.init Q hQ0 h (by simp))
  have := walkFragmentsLoop_spec Q hQ0 ff (2 * tokens.length + 2) (tokens.length + 1)
    ⟨none, tokens⟩ [] [] hw (by simp) (by simp; omega) (by simp)
  generalize walkFragmentsLoop ff (2 * tokens.length + 2) (tokens.length + 1) ⟨none, tokens⟩ [] [] = res
    at this ⊢
  cases res with
  | done f e =>
    obtain ⟨⟨new, h1, h2⟩, ⟨newe, h3, h4, h5⟩⟩ := this
    simp at h1 h3; subst h1; subst h3
    exact ⟨h2, h4, h5⟩
  | hadErrors e =>
    obtain ⟨h1, d, h2, h3⟩ := this
    exact ⟨h1, d, by simpa using h2, h3⟩
  | panic s => exact this

/-- `Walk` + the error wrapping of `ParseFile`: a tree with well-placed nodes, or a non-empty list of
well-placed diagnostics; never a panic -/
theorem walk_spec (hQ0 : Q ⟨0, 0⟩) (ff : Bool) (tokens : List Token) (h : TokensOK Q tokens) :
    match walk ff tokens with
    | .tree f => Statement.okList Q f.body
    | .errors es => es ≠ [] ∧ ∀ d ∈ es, Diag.ok Q d
    | .panic _ => False := by
  unfold walk
  have := walkFragments_spec Q hQ0 ff tokens h
  generalize walkFragments ff tokens = res at this ⊢
  cases res with
  | panic s => exact this
  | hadErrors es =>
    obtain ⟨_, d, h1, h2⟩ := this
    subst h1
    exact ⟨by simp, fun x hx => by simp at hx; subst hx; exact h2⟩
  | done frags es =>
    obtain ⟨h1, h2, _⟩ := this
    simp only []
    by_cases hne : es ≠ []
    · rw [if_pos hne]; exact ⟨hne, h2⟩
    · rw [if_neg hne]
      have hf := fragmentsToFile_ok Q frags (FragChain.all_ok Q h1)
      by_cases hne2 : (fragmentsToFile frags).errors ≠ []
      · rw [if_pos hne2]; exact ⟨hne2, hf.2⟩
      · rw [if_neg hne2]; exact hf.1

theorem tokensOK_of_chain {src : List Rune} {ts : List Token} (hQ : ∀ p, InFile src p → Q p)
    (h : TokChain src [] ts) : TokensOK Q ts := by
  obtain ⟨h1, h2⟩ := h.props
  exact ⟨h1, fun t ht => ⟨(h2 t ht).2.1, hQ _ (h2 t ht).2.2.1, hQ _ (h2 t ht).2.2.2.1,
    (h2 t ht).2.2.2.2⟩⟩

theorem inFile_zero (src : List Rune) : InFile src ⟨0, 0⟩ := ⟨[], List.nil_prefix, rfl⟩

/-- `ParseFile`: total, positions inside the file (`Q` = any consequence of `InFile src`) -/
theorem parseFile_spec (cls : Cls) (src : List Rune) (ff : Bool) (hQ : ∀ p, InFile src p → Q p) :
    match parseFile cls src ff with
    | .tree f => Statement.okList Q f.body
    | .errors es => es ≠ [] ∧ ∀ d ∈ es, Diag.ok Q d
    | .panic _ => False := by
  unfold parseFile
  have hl := allTokens_spec cls ff src
  cases hres : allTokens cls ff src with
  | nofuel => rw [hres] at hl; exact hl
  | errs es =>
    rw [hres] at hl
    simp only []
    refine ⟨?_, ?_⟩
    · have := allTokensLoop_errs_ne_nil cls ff _ _ _ _ _ _ hres
      simpa using this
    · intro d hd
      obtain ⟨e, he, rfl⟩ := List.mem_map.mp hd
      exact ⟨Pos.le_refl _, hQ _ (hl e he), hQ _ (hl e he)⟩
  | toks ts =>
    rw [hres] at hl
    exact walk_spec Q (hQ _ (inFile_zero src)) ff ts (tokensOK_of_chain Q hQ hl)

/-- the fragment list the formatter works on: in source order, every node well placed -/
theorem collectFragments_spec (cls : Cls) (src : List Rune) (hQ : ∀ p, InFile src p → Q p) :
    match collectFragments cls src with
    | .ok frags => FragChain Q ⟨0, 0⟩ frags
    | .err => True
    | .panic _ => False := by
  unfold collectFragments
  have hl := allTokens_spec cls true src
  cases hres : allTokens cls true src with
  | nofuel => rw [hres] at hl; exact hl
  | errs es => trivial
  | toks ts =>
    rw [hres] at hl
    simp only []
    have := walkFragments_spec Q (hQ _ (inFile_zero src)) true ts (tokensOK_of_chain Q hQ hl)
    generalize walkFragments true ts = res at this ⊢
    cases res with
    | panic s => exact this
    | hadErrors es => trivial
    | done frags es => exact this.1

end J5V.Bcl
