import J5V.Bcl.Lexer
/-!
# BCL parser model (core only) — mirrors `/repo/internal/bcl/internal/parser/`
`parser.go` (ParseFile, Walk, Walker, fragmentsToFile), `statements.go`, `expressions.go`,
`value.go` (shapes only), `errors.go` (unexpectedTokenError positions).

The Go `Walker` indexes `tokens[offset]`.  Here the walker state `W` is `rest = tokens[offset:]`
plus `prev = tokens[offset-1]` (none at offset 0): this is all `popToken`, `peekType` and
`currentPos` read (`tokens[len-1]` is read only when `offset = len`, where it *is* `prev`).

Go's partial operations are explicit `.panic` results:
* `popToken` past the end of an empty token slice (`tokens[len(tokens)-1]` with `len = 0`);
* `NewReference(idents)` with no idents (`idents[0]`).
Loops whose continuation is the state returned by a callee take `fuel` (`.panic "fuel"` when
exhausted); `ParserProofs` shows the fuel given by `walkFragments` (`2·len(tokens)+2` for the
value recursion — each array level uses two calls —, `len(tokens)+1` for the fragment loop) is always
enough.
-/
namespace J5V.Bcl

structure Span where
  start : Pos
  end_ : Pos
  deriving DecidableEq, Repr, Inhabited

/-- a `*Comment` attached to a `SourceNode` by `endStatement` (its `Token` is the zero token) -/
structure CommentNode where
  value : List Rune
  span : Span
  deriving DecidableEq, Repr, Inhabited

/-- `SourceNode` -/
structure SourceNode where
  start : Pos
  end_ : Pos
  comment : Option CommentNode := none
  deriving DecidableEq, Repr, Inhabited

structure Ident where
  token : Token
  value : List Rune
  span : Span
  deriving DecidableEq, Repr, Inhabited

structure Reference where
  idents : List Ident
  span : Span
  deriving DecidableEq, Repr, Inhabited

/-- `Reference.String()` -/
def Reference.string (r : Reference) : List Rune := joinWith [cDOT] (r.idents.map (·.value))

/-- `Value`: a token, or a (non-nil) array -/
inductive Value where
  | scalar (tok : Token) (span : Span)
  | array (vs : List Value) (span : Span)
  deriving Repr, Inhabited

def Value.span : Value → Span
  | .scalar _ s => s
  | .array _ s => s

inductive TagMark where
  | none | bang | question
  deriving DecidableEq, Repr, Inhabited

structure TagValue where
  mark : TagMark
  markToken : Token
  reference : Option Reference
  value : Option Value
  span : Span
  deriving Repr, Inhabited

structure Description where
  tokens : List Token
  value : List Rune
  span : Span
  deriving DecidableEq, Repr, Inhabited

structure BlockHeader where
  type : Reference
  tags : List TagValue
  qualifiers : List TagValue
  description : Option Description
  isOpen : Bool
  src : SourceNode
  deriving Repr, Inhabited

structure Assignment where
  key : Reference
  value : Value
  append : Bool
  src : SourceNode
  deriving Repr, Inhabited

structure CloseBlock where
  token : Token
  span : Span
  deriving DecidableEq, Repr, Inhabited

structure Comment where
  token : Token
  value : List Rune
  span : Span
  deriving DecidableEq, Repr, Inhabited

inductive Fragment where
  | header (h : BlockHeader)
  | assign (a : Assignment)
  | desc (d : Description)
  | comment (c : Comment)
  | close (c : CloseBlock)
  deriving Repr, Inhabited

/-- `Fragment.Source()` -/
def Fragment.src : Fragment → SourceNode
  | .header h => h.src
  | .assign a => a.src
  | .desc d => ⟨d.span.start, d.span.end_, none⟩
  | .comment c => ⟨c.span.start, c.span.end_, none⟩
  | .close c => ⟨c.span.start, c.span.end_, none⟩

/-- `Statement` of a `Body` -/
inductive Statement where
  | block (h : BlockHeader) (body : List Statement)
  | assign (a : Assignment)
  | desc (d : Description)
  deriving Repr, Inhabited

/-- a positioned diagnostic (`errpos.Err` with `Pos.Start/End`); `kind` classifies the message -/
inductive DiagKind where
  | lex (k : LexErrKind)
  | unexpectedToken (got : TokenType) (want : List TokenType)
  | unexpectedClose
  | unclosedBlock
  deriving DecidableEq, Repr, Inhabited

structure Diag where
  start : Pos
  end_ : Pos
  kind : DiagKind
  deriving DecidableEq, Repr, Inhabited

structure File where
  body : List Statement
  errors : List Diag
  deriving Repr, Inhabited

/-! ## Walker -/

structure W where
  prev : Option Token
  rest : List Token
  deriving Repr, Inhabited

/-- `unexpectedTokenError` -/
structure UnexpErr where
  tok : Token
  expected : List TokenType
  deriving Repr, Inhabited

/-- `ErrorPosition()` + `msg()` class -/
def UnexpErr.diag (e : UnexpErr) : Diag := ⟨e.tok.start, e.tok.end_, .unexpectedToken e.tok.ty e.expected⟩

/-- result of a walker method returning `(T, *unexpectedTokenError)` -/
inductive WR (α : Type) where
  | ok (a : α) (w : W)
  | fail (e : UnexpErr) (w : W)
  | panic (why : String)
  deriving Repr

def WM (α : Type) := W → WR α

def WM.pure {α} (a : α) : WM α := fun w => .ok a w
def WM.bind {α β} (m : WM α) (f : α → WM β) : WM β := fun w =>
  match m w with
  | .ok a w1 => f a w1
  | .fail e w1 => .fail e w1
  | .panic s => .panic s

instance : Monad WM where
  pure := WM.pure
  bind := WM.bind

def WM.fail {α} (e : UnexpErr) : WM α := fun w => .fail e w
def WM.panic {α} (s : String) : WM α := fun _ => .panic s

/-- `currentPos()` -/
def W.currentPos (w : W) : Pos :=
  match w.prev with
  | none => ⟨0, 0⟩
  | some t => t.end_

/-- `peekType(0)` -/
def W.nextType (w : W) : TokenType :=
  match w.rest with
  | [] => .eof
  | t :: _ => t.ty

/-- `peekType(1)` -/
def W.peekType1 (w : W) : TokenType :=
  match w.rest with
  | _ :: t :: _ => t.ty
  | _ => .eof

/-- `popToken()` -/
def popToken : WM Token := fun w =>
  match w.rest with
  | t :: rs => .ok t ⟨some t, rs⟩
  | [] =>
    match w.prev with
    | none => .panic "index out of range [-1]"     -- tokens[len(tokens)-1] with len = 0
    | some l =>
      if l.ty = .eof then .ok l w
      else .ok ⟨.eof, [], l.end_, l.end_⟩ w

def getW : WM W := fun w => .ok w w

/-- `unexpectedToken(ww.popToken(), expected...)` -/
def failUnexpected {α} (expected : List TokenType) : WM α := do
  let tok ← popToken
  WM.fail ⟨tok, expected⟩

/-- `popType(tt)` -/
def popType (tt : TokenType) : WM Token := do
  let tok ← popToken
  if tok.ty ≠ tt then WM.fail ⟨tok, [tt]⟩ else pure tok

/-- `Token.AsIdent()` -/
def Token.asIdent (t : Token) : Option Token :=
  match t.ty with
  | .ident => some t
  | .bool => some { t with ty := .ident }
  | _ => none

/-- `popIdent()` -/
def popIdent : WM Ident := do
  let tok ← popToken
  match tok.asIdent with
  | none => WM.fail ⟨tok, [.ident]⟩
  | some t => pure ⟨t, t.lit, ⟨t.start, t.end_⟩⟩

/-- `NewReference(idents)`: `idents[0]` and `idents[len-1]` (`none` = index out of range) -/
def newReference (idents : List Ident) : Option Reference :=
  match idents.head?, idents.getLast? with
  | some f, some l => some ⟨idents, ⟨f.span.start, l.span.end_⟩⟩
  | _, _ => none

/-- the loop of `popReference()`; structural over the token list: each round reads an ident and,
if a `.` follows, the dot.  `w` is threaded by hand because the recursion is on `w.rest`. -/
def popReferenceLoop (acc : List Ident) (prev : Option Token) : List Token → WR Reference
  | [] =>
    -- popIdent → popToken past the end (synthesised EOF) → not an ident → NewReference(acc)
    match popToken ⟨prev, []⟩ with
    | .ok tok w1 =>
      match newReference acc with
      | none => .panic "index out of range [0]"
      | some _ => .fail ⟨tok, [.ident]⟩ w1
    | .fail e w1 => .fail e w1
    | .panic s => .panic s
  | t :: rs =>
    match t.asIdent with
    | none =>
      match newReference acc with
      | none => .panic "index out of range [0]"
      | some _ => .fail ⟨t, [.ident]⟩ ⟨some t, rs⟩
    | some it =>
      let acc' := acc ++ [(⟨it, it.lit, ⟨it.start, it.end_⟩⟩ : Ident)]
      match rs with
      | d :: rs2 =>
        if d.ty = .dot then popReferenceLoop acc' (some d) rs2
        else
          match newReference acc' with
          | none => .panic "index out of range [0]"
          | some r => .ok r ⟨some t, d :: rs2⟩
      | [] =>
        match newReference acc' with
        | none => .panic "index out of range [0]"
        | some r => .ok r ⟨some t, []⟩

/-- `popReference()` -/
def popReference : WM Reference := fun w => popReferenceLoop [] w.prev w.rest

/-- the loop of `popDescription()`: `first` has been popped; while `EOL DESCRIPTION` follows, pop
both. -/
def popDescLoop (toks : List Token) (last : Token) : List Token → List Token × Token × W
  | e :: d :: rs =>
    if e.ty = .eol ∧ d.ty = .description then popDescLoop (toks ++ [d]) d rs
    else (toks, last, ⟨some last, e :: d :: rs⟩)
  | rs => (toks, last, ⟨some last, rs⟩)

def mkDescription (toks : List Token) (first last : Token) : Description :=
  ⟨toks, joinWith [cNL] (toks.map (·.lit)), ⟨first.start, last.end_⟩⟩

/-- `popDescription()` (never fails; `tokens[0]` / `tokens[len-1]` are safe: one token is always
popped) -/
def popDescription : WM Description := do
  let first ← popToken
  fun w =>
    let (toks, last, w1) := popDescLoop [first] first w.rest
    .ok (mkDescription toks first last) w1

mutual
/-- `popValue()` -/
def popValue : Nat → WM Value
  | 0 => WM.panic "fuel"
  | fuel + 1 => fun w =>
    if w.nextType = .ident then
      (do
        let ref ← popReference
        pure (Value.scalar ⟨.string, ref.string, ref.span.start, ref.span.end_⟩ ref.span)) w
    else if w.nextType.isLiteral then
      (do
        let token ← popToken
        pure (Value.scalar token ⟨token.start, token.end_⟩)) w
    else if w.nextType = .lbrack then
      (do
        let opener ← popToken
        let w1 ← getW
        if w1.nextType = TokenType.rbrack then
          let _ ← popToken
          let w2 ← getW
          pure (Value.array [] ⟨opener.start, w2.currentPos⟩)
        else popValueElems fuel opener []) w
    else failUnexpected [.anyLiteral, .lbrack] w
/-- the `for` loop reading array elements -/
def popValueElems : Nat → Token → List Value → WM Value
  | 0, _, _ => WM.panic "fuel"
  | fuel + 1, opener, acc => do
    let value ← popValue fuel
    let acc' := acc ++ [value]
    let w1 ← getW
    if w1.nextType = .comma then
      let _ ← popToken
      popValueElems fuel opener acc'
    else if w1.nextType = .rbrack then
      let _ ← popToken
      let w2 ← getW
      pure (Value.array acc' ⟨opener.start, w2.currentPos⟩)
    else failUnexpected [.comma, .rbrack]
end

/-- `popTag()` -/
def popTag (fuel : Nat) : WM TagValue := do
  let w0 ← getW
  let (mark, markToken) ←
    (match w0.nextType with
     | .bang => do let tok ← popToken; pure (TagMark.bang, tok)
     | .question => do let tok ← popToken; pure (TagMark.question, tok)
     | _ => pure (TagMark.none, Token.zero) : WM (TagMark × Token))
  let w1 ← getW
  match w1.nextType with
  | .ident | .bool =>
    let ref ← popReference
    pure ⟨mark, markToken, some ref, none, ref.span⟩
  | .string =>
    let v ← popValue fuel
    pure ⟨mark, markToken, none, some v, v.span⟩
  | _ => failUnexpected [.ident, .bool, .string]

/-- `endStatement()` -/
def endStatement : WM (Option CommentNode) := do
  let tok ← popToken
  if tok.ty = .comment then
    let c : CommentNode := ⟨tok.lit, ⟨tok.start, tok.end_⟩⟩
    let tok2 ← popToken
    if tok2.ty = .eol ∨ tok2.ty = .eof then pure (some c)
    else WM.fail ⟨tok2, [.comment, .eol]⟩
  else if tok.ty = .eol ∨ tok.ty = .eof then pure none
  else WM.fail ⟨tok, [.comment, .eol]⟩

/-- `walkValueAssign(ref)` -/
def walkValueAssign (fuel : Nat) (ref : Reference) (append : Bool) : WM Assignment := do
  let _ ← popType .assign
  let value ← popValue fuel
  let comment ← endStatement
  pure ⟨ref, value, append, ⟨ref.span.start, value.span.end_, comment⟩⟩

/-- `for ww.nextType().CanStartTag() { popTag }` -/
def tagsLoop (pfuel : Nat) : Nat → List TagValue → WM (List TagValue)
  | 0, _ => WM.panic "fuel"
  | fuel + 1, acc => do
    let w ← getW
    if w.nextType.canStartTag then
      let tag ← popTag pfuel
      tagsLoop pfuel fuel (acc ++ [tag])
    else pure acc

/-- `for ww.nextType() == COLON { pop; popTag }` -/
def qualsLoop (pfuel : Nat) : Nat → List TagValue → WM (List TagValue)
  | 0, _ => WM.panic "fuel"
  | fuel + 1, acc => do
    let w ← getW
    if w.nextType = .colon then
      let _ ← popToken
      let q ← popTag pfuel
      qualsLoop pfuel fuel (acc ++ [q])
    else pure acc

/-- `walkStatement()` -/
def walkStatement (fuel : Nat) : WM Fragment := do
  let ref ← popReference
  let start := ref.span.start
  let w ← getW
  if w.nextType = .assign then
    let a ← walkValueAssign fuel ref false
    pure (.assign a)
  else if w.nextType = .plus then
    let _ ← popToken
    let w1 ← getW
    if w1.nextType ≠ .assign then failUnexpected [.assign]
    else
      let a ← walkValueAssign fuel ref true
      pure (.assign a)
  else
    let tags ← tagsLoop fuel fuel []
    let quals ← qualsLoop fuel fuel []
    let w2 ← getW
    match w2.nextType with
    | .lbrace =>
      let _ ← popToken
      let w3 ← getW
      let comment ← endStatement
      pure (.header ⟨ref, tags, quals, none, true, ⟨start, w3.currentPos, comment⟩⟩)
    | .description =>
      let tok ← popToken
      let desc : Description := ⟨[tok], tok.lit, ⟨tok.start, tok.end_⟩⟩
      let w3 ← getW
      pure (.header ⟨ref, tags, quals, some desc, false, ⟨start, w3.currentPos, none⟩⟩)
    | .comment =>
      -- `hdr.End = ww.currentPos()` (fix 11ea558), then the trailing comment
      let comment ← endStatement
      pure (.header ⟨ref, tags, quals, none, false, ⟨start, w2.currentPos, comment⟩⟩)
    | .eol | .eof =>
      pure (.header ⟨ref, tags, quals, none, false, ⟨start, w2.currentPos, none⟩⟩)
    | _ => failUnexpected [.lbrace, .eol, .description, .ident]

/-- `nextFragment()`; `none` = no fragment (blank line) -/
def nextFragment (fuel : Nat) : WM (Option Fragment) := do
  let w ← getW
  match w.nextType with
  | .eof => let _ ← popToken; pure none
  | .eol => let _ ← popToken; pure none
  | .rbrace =>
    let tok ← popToken
    pure (some (.close ⟨tok, ⟨tok.start, tok.end_⟩⟩))
  | .comment | .blockComment =>
    let tok ← popToken
    pure (some (.comment ⟨tok, tok.lit, ⟨tok.start, tok.end_⟩⟩))
  | .description =>
    let d ← popDescription
    pure (some (.desc d))
  | .ident | .bool =>
    let f ← walkStatement fuel
    pure (some f)
  | _ => failUnexpected [.ident, .comment, .description, .rbrace, .eol]

/-- the skip loop of `recoverError`: pop up to and including the next EOL (or one synthesised
EOF).  Structural over the token list. -/
def skipToEOL (prev : Option Token) : List Token → WR Unit
  | [] =>
    match popToken ⟨prev, []⟩ with
    | .ok _ w1 => .ok () w1
    | .fail e w1 => .fail e w1
    | .panic s => .panic s
  | t :: rs => if t.ty = .eol ∨ t.ty = .eof then .ok () ⟨some t, rs⟩ else skipToEOL (some t) rs

/-- outcome of `walkFragments()`: fragments, accumulated errors, and whether `HadErrors` was
returned (fail-fast) -/
inductive WalkOut where
  | done (frags : List Fragment) (errors : List Diag)
  | hadErrors (errors : List Diag)
  | panic (why : String)
  deriving Repr

/-- `walkFragments()` with `recoverError` inlined -/
def walkFragmentsLoop (failFast : Bool) (pfuel : Nat) :
    Nat → W → List Fragment → List Diag → WalkOut
  | 0, _, _, _ => .panic "fuel"
  | fuel + 1, w, frags, errs =>
    if w.nextType = .eof then .done frags errs
    else
      match nextFragment pfuel w with
      | .panic s => .panic s
      | .ok none w1 => walkFragmentsLoop failFast pfuel fuel w1 frags errs
      | .ok (some f) w1 => walkFragmentsLoop failFast pfuel fuel w1 (frags ++ [f]) errs
      | .fail e w1 =>
        let errs' := errs ++ [e.diag]
        if failFast then .hadErrors errs'
        else
          match skipToEOL w1.prev w1.rest with
          | .panic s => .panic s
          | .fail _ _ => .panic "unreachable"
          | .ok _ w2 => walkFragmentsLoop failFast pfuel fuel w2 frags errs'

def walkFragments (failFast : Bool) (tokens : List Token) : WalkOut :=
  walkFragmentsLoop failFast (2 * tokens.length + 2) (tokens.length + 1) ⟨none, tokens⟩ [] []

/-! ## fragmentsToFile

Go keeps a chain of `walkingBlock`s pointing into the tree under construction.  The model keeps
the open blocks as a stack (innermost first) of `(header, statements so far)`; closing a block
appends the finished `Block` to its parent — the same statement order, because a parent receives
no statement while a child is open. -/

structure OpenBlock where
  hdr : BlockHeader
  stmts : List Statement

/-- append a finished block to the innermost open parent, closing outwards -/
def closeInto (root : List Statement) (blk : Statement) : List OpenBlock → List Statement
  | [] => root ++ [blk]
  | p :: rest => closeInto root (.block p.hdr (p.stmts ++ [blk])) rest

/-- close every block still open (EOF inside a block: Go leaves the partial tree in place) -/
def closeAll (root : List Statement) : List OpenBlock → List Statement
  | [] => root
  | b :: rest => closeInto root (.block b.hdr b.stmts) rest

def fragsLoop : List Fragment → List Statement → List OpenBlock → List Diag →
    List Statement × List OpenBlock × List Diag
  | [], root, stack, errs => (root, stack, errs)
  | f :: fs, root, stack, errs =>
    let add (s : Statement) : List Statement × List OpenBlock :=
      match stack with
      | [] => (root ++ [s], [])
      | b :: rest => (root, ⟨b.hdr, b.stmts ++ [s]⟩ :: rest)
    match f with
    | .header h =>
      if h.isOpen then fragsLoop fs root (⟨h, []⟩ :: stack) errs
      else let (r, s) := add (.block h []); fragsLoop fs r s errs
    | .assign a => let (r, s) := add (.assign a); fragsLoop fs r s errs
    | .desc d => let (r, s) := add (.desc d); fragsLoop fs r s errs
    | .comment _ => fragsLoop fs root stack errs
    | .close c =>
      match stack with
      | [] => fragsLoop fs root stack (errs ++ [⟨c.span.start, c.span.end_, .unexpectedClose⟩])
      | b :: rest =>
        let blk := Statement.block b.hdr b.stmts
        match rest with
        | [] => fragsLoop fs (root ++ [blk]) [] errs
        | p :: rest' => fragsLoop fs root (⟨p.hdr, p.stmts ++ [blk]⟩ :: rest') errs

/-- `fragmentsToFile(fragments)`: the file, with `Errors` non-empty iff `HadErrors` -/
def fragmentsToFile (fragments : List Fragment) : File :=
  let (root, stack, errs) := fragsLoop fragments [] [] []
  let errs' :=
    match stack, fragments.getLast? with
    | _ :: _, some last => errs ++ [⟨last.src.start, last.src.end_, .unclosedBlock⟩]
    | _, _ => errs
  ⟨closeAll root stack, errs'⟩

/-- what `ParseFile` returns: a tree with `err == nil`, or positioned diagnostics (non-`nil`
error wrapping `Errors`), or a panic. -/
inductive ParseOut where
  | tree (f : File)
  | errors (es : List Diag)
  | panic (why : String)
  deriving Repr

def LexErr.diag (e : LexErr) : Diag := ⟨e.pos, e.pos, .lex e.kind⟩

/-- `Walk(tokens, failFast)` followed by the error wrapping of `ParseFile` -/
def walk (failFast : Bool) (tokens : List Token) : ParseOut :=
  match walkFragments failFast tokens with
  | .panic s => .panic s
  | .hadErrors es => .errors es
  | .done frags es =>
    if es ≠ [] then .errors es
    else
      let f := fragmentsToFile frags
      if f.errors ≠ [] then .errors f.errors else .tree f

/-- `ParseFile(input, failFast)` -/
def parseFile (cls : Cls) (src : List Rune) (failFast : Bool) : ParseOut :=
  match allTokens cls failFast src with
  | .nofuel => .panic "lexer fuel"
  | .errs es => .errors (es.map LexErr.diag)
  | .toks ts => walk failFast ts

end J5V.Bcl
