import J5V.Bcl.Basic
/-!
# Go string ⇄ rune conversions (core only)

`decodeRunes` = `[]rune(string(bytes))`: a valid UTF-8 sequence (RFC 3629, shortest form, no
surrogates, ≤ U+10FFFF) is one rune; otherwise U+FFFD and exactly one byte is consumed.
`encodeRune` = `string(rune)` (invalid code points encode as U+FFFD).
-/
namespace J5V.Bcl

def isCont (b : Nat) : Bool := 0x80 ≤ b && b ≤ 0xBF

abbrev runeError : Nat := 0xFFFD

/-- `utf8.DecodeRune`: the rune at the head of `bs` and the number of bytes it occupies -/
def decodeOne : List Nat → Nat × Nat
  | [] => (runeError, 0)
  | b0 :: rest =>
    if b0 < 0x80 then (b0, 1)
    else if b0 < 0xC2 then (runeError, 1)
    else if b0 < 0xE0 then
      match rest with
      | b1 :: _ => if isCont b1 then ((b0 - 0xC0) * 64 + (b1 - 0x80), 2) else (runeError, 1)
      | _ => (runeError, 1)
    else if b0 < 0xF0 then
      let lo := if b0 = 0xE0 then 0xA0 else 0x80
      let hi := if b0 = 0xED then 0x9F else 0xBF
      match rest with
      | b1 :: b2 :: _ =>
        if lo ≤ b1 ∧ b1 ≤ hi ∧ isCont b2 then
          ((b0 - 0xE0) * 4096 + (b1 - 0x80) * 64 + (b2 - 0x80), 3)
        else (runeError, 1)
      | _ => (runeError, 1)
    else if b0 < 0xF5 then
      let lo := if b0 = 0xF0 then 0x90 else 0x80
      let hi := if b0 = 0xF4 then 0x8F else 0xBF
      match rest with
      | b1 :: b2 :: b3 :: _ =>
        if lo ≤ b1 ∧ b1 ≤ hi ∧ isCont b2 ∧ isCont b3 then
          ((b0 - 0xF0) * 262144 + (b1 - 0x80) * 4096 + (b2 - 0x80) * 64 + (b3 - 0x80), 4)
        else (runeError, 1)
      | _ => (runeError, 1)
    else (runeError, 1)

def decodeRunesFuel : Nat → List Nat → List Rune
  | 0, _ => []
  | _ + 1, [] => []
  | f + 1, b :: bs =>
    let (r, n) := decodeOne (b :: bs)
    r :: decodeRunesFuel f ((b :: bs).drop n)

/-- `[]rune(string(bytes))`; every rune consumes ≥ 1 byte, so `length` fuel suffices -/
def decodeRunes (bs : List Nat) : List Rune := decodeRunesFuel bs.length bs

/-- `utf8.ValidRune` -/
def validRune (r : Rune) : Bool := (r < 0xD800) || (0xE000 ≤ r && r < 0x110000)

def encodeRune (r : Rune) : List Nat :=
  if r < 0x80 then [r]
  else if r < 0x800 then [0xC0 + r / 64, 0x80 + r % 64]
  else if !validRune r then [0xEF, 0xBF, 0xBD]
  else if r < 0x10000 then [0xE0 + r / 4096, 0x80 + r / 64 % 64, 0x80 + r % 64]
  else [0xF0 + r / 262144, 0x80 + r / 4096 % 64, 0x80 + r / 64 % 64, 0x80 + r % 64]

def encodeRunes (rs : List Rune) : List Nat := rs.flatMap encodeRune

end J5V.Bcl
