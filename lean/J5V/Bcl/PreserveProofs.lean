import J5V.Bcl.LexSegProofs
import J5V.Bcl.PartsOKProofs
import J5V.Bcl.FragWFProofs
import J5V.Bcl.WalkInvProofs
import J5V.Bcl.TreeEquivProofs
import J5V.Bcl.FirstErrorProofs
/-!
# Formatting, then lexing and walking the output, gives the same fragments (lemmas for C09)

* `lexSeg_fragment`: the text printed for one fragment lexes to its canonical tokens;
* `lexAll_fmtJoin`: the whole output of `Fmt` lexes to `fileToks`;
* `fmt_roundtrip`: `Fmt`'s output lexes without error and the walker returns fragments whose
  erasure is `normFrags` of the original fragments;
* `normFrags_equiv`: such fragments denote the same document (`Fragment.equivList`).
-/
namespace J5V.Bcl

theorem ClsOK.clsNL {cls : Cls} (h : ClsOK cls) : ClsNL cls :=
  h.sep cNL (by simp [sepRunes])

/-- the text `fmtFragment` prints for a well-formed fragment, at any indent and in front of any text,
lexes to the canonical tokens of the fragment -/
theorem lexSeg_fragment (cls : Cls) (hcls : ClsOK cls) (indent : Nat) (f : Fragment)
    (hwf : FragWF cls f) (c : Cur) (tail : List Rune) :
    ∃ new c', new.map Token.erase = fragToks cls indent f ∧
      LexSeg cls c (fmtFragment cls indent f).1.newText tail new c' := by
  cases f with
  | header h =>
    have hwf' : HeaderWF cls h := hwf
    exact LexSeg.singleLine hcls indent h.src (headerTokens h) c tail hwf'.2.2.2.1
      (headerTokens_partsOK cls hcls h hwf' tail)
  | assign a =>
    have hwf' : AssignWF cls a := hwf
    exact LexSeg.singleLine hcls indent a.src (assignTokens a) c tail hwf'.2.2
      (assignTokens_partsOK cls hcls a hwf' tail)
  | close cl =>
    have hwf' : CloseWF cls cl := hwf
    exact LexSeg.singleLine hcls (indent - 1) ⟨cl.span.start, cl.span.end_, none⟩ [cl.token] c tail
      (fun cn h => by cases h) (by simpa [inlineComment] using closeToken_partsOK cls cl hwf' tail)
  | comment cm =>
    have hwf' : CommentWF cls cm := hwf
    exact LexSeg.singleLine hcls indent ⟨cm.span.start, cm.span.end_, none⟩ [cm.token] c tail
      (fun cn h => by cases h) (by simpa [inlineComment] using commentToken_partsOK cls cm hwf' tail)
  | desc d => exact LexSeg.descFrag hcls indent d d.span c tail

theorem diffFile_cons (cls : Cls) (indent : Nat) (f : Fragment) (fs : List Fragment) :
    diffFile cls indent (f :: fs) =
      (fmtFragment cls indent f).1 :: diffFile cls (fmtFragment cls indent f).2 fs := by
  simp [diffFile]

theorem fmtJoin_cons (d : FmtFrag) (ds : List FmtFrag) (lastEnd : Option Nat) :
    fmtJoin (d :: ds) lastEnd =
      (if gapBefore lastEnd d.fromLine then [cNL] else []) ++
        (d.newText ++ fmtJoin ds (some d.toLine)) := by
  cases lastEnd with
  | none => simp [fmtJoin, gapBefore]
  | some e =>
    by_cases h : d.fromLine > e <;> simp [fmtJoin, gapBefore, h]

/-- the whole output of `Fmt` lexes, without error, to the canonical tokens of the file -/
theorem lexAll_fmtJoin (cls : Cls) (hcls : ClsOK cls) : ∀ (frags : List Fragment) (indent : Nat)
    (lastEnd : Option Nat) (c : Cur), (∀ f ∈ frags, FragWF cls f) →
    ∃ toks, LexAll cls c (fmtJoin (diffFile cls indent frags) lastEnd) toks ∧
      toks.map Token.erase = fileToks cls indent lastEnd frags := by
  intro frags
  induction frags with
  | nil =>
    intro indent lastEnd c _
    refine ⟨[], ?_, rfl⟩
    have := nextToken_nil cls c
    exact LexAll.eof this.1 this.2
  | cons f fs ih =>
    intro indent lastEnd c hwf
    rw [diffFile_cons, fmtJoin_cons, fileToks_cons]
    have hwf_f := hwf f (by simp)
    have hwf_fs : ∀ g ∈ fs, FragWF cls g := fun g hg => hwf g (by simp [hg])
    -- from any state in front of the fragment's text
    have main : ∀ c1 : Cur, ∃ toks, LexAll cls c1 ((fmtFragment cls indent f).1.newText ++
          fmtJoin (diffFile cls (fmtFragment cls indent f).2 fs) (some (fmtFragment cls indent f).1.toLine))
          toks ∧ toks.map Token.erase = fragToks cls indent f ++
            fileToks cls (fmtFragment cls indent f).2 (some (fmtFragment cls indent f).1.toLine) fs := by
      intro c1
      obtain ⟨new, c2, e1, s1⟩ := lexSeg_fragment cls hcls indent f hwf_f c1
        (fmtJoin (diffFile cls (fmtFragment cls indent f).2 fs) (some (fmtFragment cls indent f).1.toLine))
      obtain ⟨toks, l1, e2⟩ := ih (fmtFragment cls indent f).2 (some (fmtFragment cls indent f).1.toLine)
        c2 hwf_fs
      exact ⟨new ++ toks, s1 toks l1, by rw [List.map_append, e1, e2]⟩
    cases hg : gapBefore lastEnd (fmtFragment cls indent f).1.fromLine with
    | false =>
      simp only [Bool.false_eq_true, if_false, List.nil_append]
      exact main c
    | true =>
      simp only [if_true]
      obtain ⟨tok, c1, e0, s0⟩ := LexSeg.eol (cls := cls) c ((fmtFragment cls indent f).1.newText ++
        fmtJoin (diffFile cls (fmtFragment cls indent f).2 fs) (some (fmtFragment cls indent f).1.toLine))
      obtain ⟨toks, l1, e1⟩ := main c1
      exact ⟨[tok] ++ toks, s0 toks l1, by simp [e0, e1]⟩

theorem List.map_eq_nil_of {α β : Type} {f : α → β} {l : List α} (h : l.map f = []) : l = [] := by
  cases l with
  | nil => rfl
  | cons a as => simp at h

/-- **round trip at the fragment level**: the formatter's output lexes without error and the walker
reads it back to fragments whose erasure is the normal form of the original fragments -/
theorem fmt_roundtrip (cls : Cls) (hcls : ClsOK cls) (src : List Rune) (frags : List Fragment)
    (h : collectFragments cls src = .ok frags) :
    fmt cls src = .ok (fmtJoin (diffFile cls 0 frags) none) ∧
    ∃ ts' frags', allTokens cls true (fmtJoin (diffFile cls 0 frags) none) = .toks ts' ∧
      ts'.map Token.erase = fileToks cls 0 none frags ∧
      walkFragments true ts' = .done frags' [] ∧
      frags'.map Fragment.erase = normFrags cls 0 frags := by
  have hwf := collectFragments_fragWF cls src frags h
  have hgaps := collectFragments_descGaps cls hcls.clsNL src frags h
  refine ⟨by simp [fmt, h], ?_⟩
  obtain ⟨ts', hlex, hts⟩ := lexAll_fmtJoin cls hcls frags 0 none Cur.init hwf
  have hwalk := walkFragments_erase true ts'
  rw [hts, walkFragments_fileToks cls frags hwf hgaps] at hwalk
  cases hw : walkFragments true ts' with
  | done fr es =>
    rw [hw] at hwalk
    simp only [WalkOut.erase, WalkOut.done.injEq] at hwalk
    have hes : es = [] := List.map_eq_nil_of hwalk.2.symm
    subst hes
    exact ⟨ts', fr, LexAll.allTokens true hlex, hts, hw, hwalk.1.symm⟩
  | hadErrors es => rw [hw] at hwalk; simp [WalkOut.erase] at hwalk
  | panic s => rw [hw] at hwalk; simp [WalkOut.erase] at hwalk

/-! ## the normal form denotes the same document -/

theorem joinWith_descLines (cls : Cls) (indent : Nat) (d : Description) :
    joinWith [cNL] (descLines cls indent d) =
      joinWith [cNL] (reformatDescription cls d.value (80 - (indent : Int) * 4)) := by
  unfold descLines
  simp only []
  split
  · rename_i h; rw [h]; rfl
  · rfl

/-- a fragment whose erasure is the normal form of `f` denotes the same thing as `f` -/
theorem equiv_of_normFrag (cls : Cls) (hsp : cls.isSpace cSP = true) (indent : Nat) (f' f : Fragment)
    (h : f'.erase = normFrag cls indent f) : Fragment.equiv cls f' f := by
  cases f with
  | desc d =>
    cases f' with
    | desc d' =>
      simp only [normFrag, Fragment.erase, Fragment.desc.injEq, Description.erase] at h
      have hv : d'.value = joinWith [cNL] (descLines cls indent d) := by
        have := congrArg Description.value h
        simpa using this
      show DescEquiv cls d' d
      unfold DescEquiv
      rw [hv, joinWith_descLines]
      exact reformat_preserves_words cls hsp d.value _
    | header _ => simp [normFrag, Fragment.erase] at h
    | assign _ => simp [normFrag, Fragment.erase] at h
    | comment _ => simp [normFrag, Fragment.erase] at h
    | close _ => simp [normFrag, Fragment.erase] at h
  | header k =>
    cases f' <;> simp only [normFrag, Fragment.erase] at h <;> first | cases h | skip
    rename_i h'
    exact Fragment.header.inj h
  | assign b =>
    cases f' <;> simp only [normFrag, Fragment.erase] at h <;> first | cases h | skip
    exact Fragment.assign.inj h
  | comment c =>
    cases f' <;> simp only [normFrag, Fragment.erase] at h <;> first | cases h | skip
    exact Fragment.comment.inj h
  | close c =>
    cases f' <;> simp only [normFrag, Fragment.erase] at h <;> first | cases h | skip
    exact Fragment.close.inj h

theorem normFrags_equiv (cls : Cls) (hsp : cls.isSpace cSP = true) : ∀ (frags frags' : List Fragment)
    (indent : Nat), frags'.map Fragment.erase = normFrags cls indent frags →
    Fragment.equivList cls frags' frags := by
  intro frags
  induction frags with
  | nil =>
    intro frags' indent h
    cases frags' with
    | nil => trivial
    | cons a as => simp [normFrags] at h
  | cons f fs ih =>
    intro frags' indent h
    cases frags' with
    | nil => simp [normFrags] at h
    | cons f' fs' =>
      simp only [normFrags, List.map_cons, List.cons.injEq] at h
      exact ⟨equiv_of_normFrag cls hsp indent f' f h.1, ih fs' _ h.2⟩

/-! ## one fragment, on the real tokens -/

theorem PZ_erase (prev : Option Token) : PZ (prev.map Token.erase) := by
  intro p hp
  cases prev with
  | none => cases hp
  | some q => simp at hp; subst hp; rfl

/-- mirror of a walker step: what `nextFragment` does on the erased state determines what it does on
the real state -/
theorem nextFragment_mirror (fuel : Nat) (w : W) (x : Option Fragment) (we : W)
    (h : nextFragment fuel w.erase = .ok x we) :
    ∃ x' w', nextFragment fuel w = .ok x' w' ∧ x'.map Fragment.erase = x ∧ w'.erase = we := by
  have hm := nextFragment_erase fuel w
  rw [h] at hm
  cases hr : nextFragment fuel w with
  | ok a w1 =>
    rw [hr] at hm
    simp only [WR.erase, WR.ok.injEq] at hm
    exact ⟨a, w1, rfl, hm.1.symm, hm.2.symm⟩
  | fail e w1 => rw [hr] at hm; simp [WR.erase] at hm
  | panic s => rw [hr] at hm; simp [WR.erase] at hm

/-- **one fragment**: the text printed for a well-formed fragment (any indent, any lexer state, any
following text) lexes to tokens from which `nextFragment` reads a fragment denoting the same thing.
(`rest` = the tokens that follow; after a description they must not start with a description.) -/
theorem fragment_roundtrip (cls : Cls) (hcls : ClsOK cls) (indent : Nat) (f : Fragment)
    (hwf : FragWF cls f) (c : Cur) (tail : List Rune) :
    ∃ new c', LexSeg cls c (fmtFragment cls indent f).1.newText tail new c' ∧
      ∀ (prev : Option Token) (rest : List Token) (pfuel : Nat),
        (∀ d, f = .desc d → headTy rest ≠ some .description) → 2 * new.length ≤ pfuel →
        ∃ f' w', nextFragment pfuel ⟨prev, new ++ rest⟩ = .ok (some f') w' ∧
          Fragment.equiv cls f' f := by
  obtain ⟨new, c', hnew, hseg⟩ := lexSeg_fragment cls hcls indent f hwf c tail
  refine ⟨new, c', hseg, ?_⟩
  intro prev rest pfuel hdesc hfuel
  have hlen : new.length = (fragToks cls indent f).length := by rw [← hnew]; simp
  obtain ⟨prev', rest', hn, _, _⟩ := nextFragment_frag cls pfuel indent f hwf (prev.map Token.erase)
    (PZ_erase prev) (rest.map Token.erase)
    (fun d hd => by
      have := hdesc d hd
      cases rest with
      | nil => simp
      | cons x xs => simpa [headTy, Token.erase] using this)
    (by rw [← hlen]; exact hfuel)
  have he : (⟨prev, new ++ rest⟩ : W).erase =
      ⟨prev.map Token.erase, fragToks cls indent f ++ rest.map Token.erase⟩ := by
    simp [W.erase, hnew]
  rw [← he] at hn
  obtain ⟨x', w', hx, hxe, _⟩ := nextFragment_mirror pfuel _ _ _ hn
  cases x' with
  | none => simp at hxe
  | some f' =>
    simp only [Option.map_some, Option.some.injEq] at hxe
    exact ⟨f', w', hx, equiv_of_normFrag cls hcls.spSpace indent f' f hxe⟩

/-! ## the tree level -/

/-- a tree in either mode is the tree of the fail-fast mode -/
theorem parseFile_tree_true (cls : Cls) (src : List Rune) (ff : Bool) (f : File)
    (h : parseFile cls src ff = .tree f) :
    ∃ f1, parseFile cls src true = .tree f1 ∧ f1.body = f.body := by
  cases ff with
  | true => exact ⟨f, h, rfl⟩
  | false =>
    have := parseFile_agree cls src
    rw [h] at this
    cases h1 : parseFile cls src true with
    | tree f1 => rw [h1] at this; exact ⟨f1, rfl, this.1⟩
    | errors es => rw [h1] at this; exact this.elim
    | panic s => rw [h1] at this; exact this.elim

theorem parseFile_tree_false (cls : Cls) (src : List Rune) (ff : Bool) (f1 : File)
    (h : parseFile cls src true = .tree f1) :
    ∃ f, parseFile cls src ff = .tree f ∧ f.body = f1.body := by
  cases ff with
  | true => exact ⟨f1, h, rfl⟩
  | false =>
    have := parseFile_agree cls src
    rw [h] at this
    cases h0 : parseFile cls src false with
    | tree f0 => rw [h0] at this; exact ⟨f0, rfl, this.1.symm⟩
    | errors es => rw [h0] at this; exact this.elim
    | panic s => rw [h0] at this; exact this.elim

/-- what a fail-fast tree result says about the lexer and the walker -/
theorem parseFile_true_inv (cls : Cls) (src : List Rune) (f1 : File)
    (h : parseFile cls src true = .tree f1) :
    ∃ ts frags, allTokens cls true src = .toks ts ∧ walkFragments true ts = .done frags [] ∧
      f1 = fragmentsToFile frags ∧ (fragmentsToFile frags).errors = [] := by
  unfold parseFile at h
  cases hts : allTokens cls true src with
  | nofuel => rw [hts] at h; cases h
  | errs es => rw [hts] at h; cases h
  | toks ts =>
    rw [hts] at h
    simp only [] at h
    unfold walk at h
    cases hw : walkFragments true ts with
    | panic s => rw [hw] at h; cases h
    | hadErrors es => rw [hw] at h; cases h
    | done frags es =>
      rw [hw] at h
      simp only [] at h
      by_cases hes : es ≠ []
      · rw [if_pos hes] at h; cases h
      · rw [if_neg hes] at h
        have hes' : es = [] := by simpa using hes
        subst hes'
        by_cases hfe : (fragmentsToFile frags).errors ≠ []
        · rw [if_pos hfe] at h; cases h
        · rw [if_neg hfe] at h
          cases h
          exact ⟨ts, frags, rfl, hw, rfl, by simpa using hfe⟩

/-- the converse: an error-free lex and walk with an error-free block structure is a tree -/
theorem parseFile_true_of (cls : Cls) (src : List Rune) (ts : List Token) (frags : List Fragment)
    (h1 : allTokens cls true src = .toks ts) (h2 : walkFragments true ts = .done frags [])
    (h3 : (fragmentsToFile frags).errors = []) :
    parseFile cls src true = .tree (fragmentsToFile frags) := by
  unfold parseFile
  rw [h1]
  simp only []
  unfold walk
  rw [h2]
  simp [h3]

theorem collectFragments_of (cls : Cls) (src : List Rune) (ts : List Token) (frags : List Fragment)
    (es : List Diag) (h1 : allTokens cls true src = .toks ts) (h2 : walkFragments true ts = .done frags es) :
    collectFragments cls src = .ok frags := by
  unfold collectFragments
  rw [h1]
  simp only []
  rw [h2]

/-- **whole-file round trip**: if the parser accepts `src` (tree `f`), then `Fmt` succeeds and its
output is accepted with a tree denoting the same document -/
theorem parse_roundtrip (cls : Cls) (hcls : ClsOK cls) (src : List Rune) (ff : Bool) (f : File)
    (h : parseFile cls src ff = .tree f) :
    ∃ out, fmt cls src = .ok out ∧ ∃ f', parseFile cls out ff = .tree f' ∧ File.equiv cls f' f := by
  obtain ⟨f1, h1, hb1⟩ := parseFile_tree_true cls src ff f h
  obtain ⟨ts, frags, hts, hwk, hf1, herr⟩ := parseFile_true_inv cls src f1 h1
  have hcf := collectFragments_of cls src ts frags [] hts hwk
  obtain ⟨hfmt, ts', frags', hts', _, hwk', hnorm⟩ := fmt_roundtrip cls hcls src frags hcf
  have heq := normFrags_equiv cls hcls.spSpace frags frags' 0 hnorm
  obtain ⟨hfe, herr'⟩ := fragmentsToFile_equiv cls frags' frags heq
  have hp' := parseFile_true_of cls _ ts' frags' hts' hwk' (herr'.mpr herr)
  obtain ⟨f0, hp0, hb0⟩ := parseFile_tree_false cls _ ff _ hp'
  refine ⟨_, hfmt, f0, hp0, ?_⟩
  unfold File.equiv at hfe ⊢
  rw [hb0, ← hb1, hf1]
  exact hfe

end J5V.Bcl
