import J5V.Bcl.Lexer
/-!
# Lexer lemmas for C11: progress (fuel), positions inside the input, token order.
-/
namespace J5V.Bcl

theorem Pos.le_def (p q : Pos) : p ≤ q ↔ p.line < q.line ∨ (p.line = q.line ∧ p.col ≤ q.col) :=
  Iff.rfl
theorem Pos.lt_def (p q : Pos) : p < q ↔ p.line < q.line ∨ (p.line = q.line ∧ p.col < q.col) :=
  Iff.rfl

theorem Pos.le_refl (p : Pos) : p ≤ p := by rw [Pos.le_def]; omega
theorem Pos.le_trans {p q r : Pos} (h1 : p ≤ q) (h2 : q ≤ r) : p ≤ r := by
  rw [Pos.le_def] at *; omega
theorem Pos.le_of_lt {p q : Pos} (h : p < q) : p ≤ q := by
  rw [Pos.lt_def] at h; rw [Pos.le_def]; omega
theorem Pos.lt_of_lt_of_le {p q r : Pos} (h1 : p < q) (h2 : q ≤ r) : p < r := by
  rw [Pos.lt_def] at *; rw [Pos.le_def] at h2; omega
theorem Pos.lt_of_le_of_lt {p q r : Pos} (h1 : p ≤ q) (h2 : q < r) : p < r := by
  rw [Pos.lt_def] at *; rw [Pos.le_def] at h1; omega
theorem Pos.zero_le (p : Pos) : (⟨0, 0⟩ : Pos) ≤ p := by
  exact if h : p.line = 0 then Or.inr ⟨h.symm, Nat.zero_le _⟩ else Or.inl (Nat.pos_of_ne_zero h)

/-- the position the rune after `r` gets, if `r` sits at `p` -/
def stepPos (p : Pos) (r : Rune) : Pos := if r = cNL then ⟨p.line + 1, 0⟩ else ⟨p.line, p.col + 1⟩

theorem stepPos_gt (p : Pos) (r : Rune) : p < stepPos p r := by
  unfold stepPos; rw [Pos.lt_def]; split
  · exact Or.inl (Nat.lt_succ_self _)
  · exact Or.inr ⟨rfl, Nat.lt_succ_self _⟩

/-- position after reading `pre` starting at `p` -/
def advPos (p : Pos) (pre : List Rune) : Pos := pre.foldl stepPos p

@[simp] theorem advPos_nil (p : Pos) : advPos p [] = p := rfl
@[simp] theorem advPos_cons (p : Pos) (r : Rune) (rs : List Rune) :
    advPos p (r :: rs) = advPos (stepPos p r) rs := rfl
theorem advPos_append (p : Pos) (a b : List Rune) : advPos p (a ++ b) = advPos (advPos p a) b := by
  simp [advPos, List.foldl_append]

theorem advPos_ge (p : Pos) (pre : List Rune) : p ≤ advPos p pre := by
  induction pre generalizing p with
  | nil => exact Pos.le_refl p
  | cons r rs ih => exact Pos.le_trans (Pos.le_of_lt (stepPos_gt p r)) (ih _)

theorem advPos_gt (p : Pos) (pre : List Rune) (h : pre ≠ []) : p < advPos p pre := by
  cases pre with
  | nil => exact absurd rfl h
  | cons r rs => exact Pos.lt_of_lt_of_le (stepPos_gt p r) (advPos_ge _ rs)

/-- position after the prefix `a` of the input, counted from the start of the file -/
def posAfter (a : List Rune) : Pos := advPos ⟨0, 0⟩ a

theorem posAfter_mono {a b : List Rune} (h : a <+: b) : posAfter a ≤ posAfter b := by
  obtain ⟨t, rfl⟩ := h
  unfold posAfter
  rw [advPos_append]
  exact advPos_ge _ _

/-- `p` is the position of a rune of `src`, or the end-of-input position -/
def InFile (src : List Rune) (p : Pos) : Prop := ∃ a, a <+: src ∧ p = posAfter a

/-! ## `Cur` after consuming a run of runes -/

def advs (c : Cur) (pre : List Rune) : Cur := pre.foldl Cur.adv c

@[simp] theorem advs_nil (c : Cur) : advs c [] = c := rfl
@[simp] theorem advs_cons (c : Cur) (r : Rune) (rs : List Rune) :
    advs c (r :: rs) = advs (c.adv r) rs := rfl
theorem advs_append (c : Cur) (a b : List Rune) : advs c (a ++ b) = advs (advs c a) b := by
  simp [advs, List.foldl_append]
theorem advs_snoc (c : Cur) (a : List Rune) (r : Rune) : advs c (a ++ [r]) = (advs c a).adv r := by
  rw [advs_append]; rfl

theorem adv_nxt (c : Cur) (r : Rune) : (c.adv r).nxt = stepPos c.nxt r := by
  unfold Cur.adv stepPos; split <;> rfl
@[simp] theorem adv_pos (c : Cur) (r : Rune) : (c.adv r).pos = c.nxt := rfl
@[simp] theorem advEOF_pos (c : Cur) : c.advEOF.pos = c.nxt := rfl

theorem advs_nxt (c : Cur) (pre : List Rune) : (advs c pre).nxt = advPos c.nxt pre := by
  induction pre generalizing c with
  | nil => rfl
  | cons r rs ih => rw [advs_cons, ih, adv_nxt, advPos_cons]

/-- after at least one rune, `pos` is the `nxt` before the last rune -/
theorem advs_snoc_pos (c : Cur) (a : List Rune) (r : Rune) :
    (advs c (a ++ [r])).pos = advPos c.nxt a := by
  rw [advs_snoc, adv_pos, advs_nxt]

end J5V.Bcl
