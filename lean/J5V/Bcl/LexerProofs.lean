import J5V.Bcl.Lexer
/-!
# Lexer lemmas for C11: progress (fuel), positions inside the input, token order.
-/
namespace J5V.Bcl

theorem Pos.le_def (p q : Pos) : p ≤ q ↔ p.line < q.line ∨ (p.line = q.line ∧ p.col ≤ q.col) :=
  Iff.rfl
theorem Pos.lt_def (p q : Pos) : p < q ↔ p.line < q.line ∨ (p.line = q.line ∧ p.col < q.col) :=
  Iff.rfl

theorem Pos.le_refl (p : Pos) : p ≤ p := by rw [Pos.le_def]; omega
theorem Pos.le_trans {p q r : Pos} (h1 : p ≤ q) (h2 : q ≤ r) : p ≤ r := by
  rw [Pos.le_def] at *; omega
theorem Pos.le_of_lt {p q : Pos} (h : p < q) : p ≤ q := by
  rw [Pos.lt_def] at h; rw [Pos.le_def]; omega
theorem Pos.lt_of_lt_of_le {p q r : Pos} (h1 : p < q) (h2 : q ≤ r) : p < r := by
  rw [Pos.lt_def] at *; rw [Pos.le_def] at h2; omega
theorem Pos.lt_of_le_of_lt {p q r : Pos} (h1 : p ≤ q) (h2 : q < r) : p < r := by
  rw [Pos.lt_def] at *; rw [Pos.le_def] at h1; omega
theorem Pos.zero_le (p : Pos) : (⟨0, 0⟩ : Pos) ≤ p := by
  exact if h : p.line = 0 then Or.inr ⟨h.symm, Nat.zero_le _⟩ else Or.inl (Nat.pos_of_ne_zero h)

/-- the position the rune after `r` gets, if `r` sits at `p` -/
def stepPos (p : Pos) (r : Rune) : Pos := if r = cNL then ⟨p.line + 1, 0⟩ else ⟨p.line, p.col + 1⟩

theorem stepPos_gt (p : Pos) (r : Rune) : p < stepPos p r := by
  unfold stepPos; rw [Pos.lt_def]; split
  · exact Or.inl (Nat.lt_succ_self _)
  · exact Or.inr ⟨rfl, Nat.lt_succ_self _⟩

/-- position after reading `pre` starting at `p` -/
def advPos (p : Pos) (pre : List Rune) : Pos := pre.foldl stepPos p

@[simp] theorem advPos_nil (p : Pos) : advPos p [] = p := rfl
@[simp] theorem advPos_cons (p : Pos) (r : Rune) (rs : List Rune) :
    advPos p (r :: rs) = advPos (stepPos p r) rs := rfl
theorem advPos_append (p : Pos) (a b : List Rune) : advPos p (a ++ b) = advPos (advPos p a) b := by
  simp [advPos, List.foldl_append]

theorem advPos_ge (p : Pos) (pre : List Rune) : p ≤ advPos p pre := by
  induction pre generalizing p with
  | nil => exact Pos.le_refl p
  | cons r rs ih => exact Pos.le_trans (Pos.le_of_lt (stepPos_gt p r)) (ih _)

theorem advPos_gt (p : Pos) (pre : List Rune) (h : pre ≠ []) : p < advPos p pre := by
  cases pre with
  | nil => exact absurd rfl h
  | cons r rs => exact Pos.lt_of_lt_of_le (stepPos_gt p r) (advPos_ge _ rs)

/-- position after the prefix `a` of the input, counted from the start of the file -/
def posAfter (a : List Rune) : Pos := advPos ⟨0, 0⟩ a

theorem posAfter_mono {a b : List Rune} (h : a <+: b) : posAfter a ≤ posAfter b := by
  obtain ⟨t, rfl⟩ := h
  unfold posAfter
  rw [advPos_append]
  exact advPos_ge _ _

/-- `p` is the position of a rune of `src`, or the end-of-input position -/
def InFile (src : List Rune) (p : Pos) : Prop := ∃ a, a <+: src ∧ p = posAfter a

/-! ## `Cur` after consuming a run of runes -/

def advs (c : Cur) (pre : List Rune) : Cur := pre.foldl Cur.adv c

@[simp] theorem advs_nil (c : Cur) : advs c [] = c := rfl
@[simp] theorem advs_cons (c : Cur) (r : Rune) (rs : List Rune) :
    advs c (r :: rs) = advs (c.adv r) rs := rfl
theorem advs_append (c : Cur) (a b : List Rune) : advs c (a ++ b) = advs (advs c a) b := by
  simp [advs, List.foldl_append]
theorem advs_snoc (c : Cur) (a : List Rune) (r : Rune) : advs c (a ++ [r]) = (advs c a).adv r := by
  rw [advs_append]; rfl

theorem adv_nxt (c : Cur) (r : Rune) : (c.adv r).nxt = stepPos c.nxt r := by
  unfold Cur.adv stepPos; split <;> rfl
@[simp] theorem adv_pos (c : Cur) (r : Rune) : (c.adv r).pos = c.nxt := rfl
@[simp] theorem advEOF_pos (c : Cur) : c.advEOF.pos = c.nxt := rfl

theorem advs_nxt (c : Cur) (pre : List Rune) : (advs c pre).nxt = advPos c.nxt pre := by
  induction pre generalizing c with
  | nil => rfl
  | cons r rs ih => rw [advs_cons, ih, adv_nxt, advPos_cons]

/-- after at least one rune, `pos` is the `nxt` before the last rune -/
theorem advs_snoc_pos (c : Cur) (a : List Rune) (r : Rune) :
    (advs c (a ++ [r])).pos = advPos c.nxt a := by
  rw [advs_snoc, adv_pos, advs_nxt]

/-! ## What each lexing loop consumes -/

/-- the routine consumed exactly `pre` and stopped before `rest'` -/
def CleanRun (c : Cur) (rest : List Rune) (c' : Cur) (rest' : List Rune) : Prop :=
  ∃ pre, rest = pre ++ rest' ∧ c' = advs c pre

/-- the routine consumed everything and called `next()` once more at end of input -/
def EofRun (c : Cur) (rest : List Rune) (c' : Cur) (rest' : List Rune) : Prop :=
  rest' = [] ∧ c' = (advs c rest).advEOF

theorem CleanRun.refl (c : Cur) (rest : List Rune) : CleanRun c rest c rest := ⟨[], rfl, rfl⟩

theorem CleanRun.cons {c : Cur} {r : Rune} {rs : List Rune} {c' : Cur} {rest' : List Rune}
    (h : CleanRun (c.adv r) rs c' rest') : CleanRun c (r :: rs) c' rest' := by
  obtain ⟨pre, h1, h2⟩ := h
  exact ⟨r :: pre, by simp [h1], by simp [h2]⟩

theorem EofRun.cons {c : Cur} {r : Rune} {rs : List Rune} {c' : Cur} {rest' : List Rune}
    (h : EofRun (c.adv r) rs c' rest') : EofRun c (r :: rs) c' rest' := by
  obtain ⟨h1, h2⟩ := h
  exact ⟨h1, by simp [h2]⟩

theorem lexLineLoop_run (c : Cur) (lit rest : List Rune) :
    CleanRun c rest (lexLineLoop c lit rest).cur (lexLineLoop c lit rest).rest ∧
      (lexLineLoop c lit rest).err = none := by
  induction rest generalizing c lit with
  | nil => exact ⟨CleanRun.refl _ _, rfl⟩
  | cons r rs ih =>
    unfold lexLineLoop
    split
    · exact ⟨CleanRun.refl _ _, rfl⟩
    · exact ⟨(ih _ _).1.cons, (ih _ _).2⟩

theorem lexBlockLoop_run (c : Cur) (txt rest : List Rune) :
    (CleanRun c rest (lexBlockLoop c txt rest).cur (lexBlockLoop c txt rest).rest ∨
      EofRun c rest (lexBlockLoop c txt rest).cur (lexBlockLoop c txt rest).rest) ∧
      (lexBlockLoop c txt rest).err = none := by
  induction rest generalizing c txt with
  | nil => exact ⟨Or.inr ⟨rfl, rfl⟩, rfl⟩
  | cons r rs ih =>
    unfold lexBlockLoop
    split
    · rename_i h
      refine ⟨Or.inl ?_, rfl⟩
      cases rs with
      | nil => simp at h
      | cons r2 rs2 =>
        have : r2 = cSLASH := by simpa using h.2
        subst this
        exact ⟨[r, cSLASH], by simp, by simp⟩
    · rcases (ih (c.adv r) (txt ++ [r])).1 with h | h
      · exact ⟨Or.inl h.cons, (ih _ _).2⟩
      · exact ⟨Or.inr h.cons, (ih _ _).2⟩

/-- error positions of the literal routines are the lexer's current position -/
theorem lexStringLoop_run_aux (n : Nat) : ∀ (c : Cur) (lit rest : List Rune), rest.length ≤ n →
    (CleanRun c rest (lexStringLoop c lit rest).cur (lexStringLoop c lit rest).rest ∨
      EofRun c rest (lexStringLoop c lit rest).cur (lexStringLoop c lit rest).rest) ∧
      (∀ e, (lexStringLoop c lit rest).err = some e → e.pos = (lexStringLoop c lit rest).cur.pos) := by
  induction n with
  | zero =>
    intro c lit rest h
    have : rest = [] := List.eq_nil_of_length_eq_zero (Nat.le_zero.mp h)
    subst this
    unfold lexStringLoop
    exact ⟨Or.inr ⟨rfl, rfl⟩, fun e he => by cases he; rfl⟩
  | succ n ih =>
    intro c lit rest h
    cases rest with
    | nil =>
      unfold lexStringLoop
      exact ⟨Or.inr ⟨rfl, rfl⟩, fun e he => by cases he; rfl⟩
    | cons r rs =>
      have hrs : rs.length ≤ n := by simpa using h
      unfold lexStringLoop
      simp only []
      split
      · exact ⟨Or.inl ⟨[r], by simp, by simp⟩, fun e he => by cases he⟩
      · split
        · exact ⟨Or.inl ⟨[r], by simp, by simp⟩, fun e he => by cases he; rfl⟩
        · split
          · split
            · exact ⟨Or.inl ⟨[r], by simp, by simp⟩, fun e he => by cases he; rfl⟩
            · rename_i e rs2
              have hrs2 : rs2.length ≤ n := by simp at hrs; omega
              split
              · obtain ⟨h1, h2⟩ := ih ((c.adv r).adv e) (lit ++ [e]) rs2 hrs2
                refine ⟨?_, h2⟩
                rcases h1 with h1 | h1
                · exact Or.inl h1.cons.cons
                · exact Or.inr h1.cons.cons
              · exact ⟨Or.inl ⟨[r], by simp, by simp⟩, fun e he => by cases he; rfl⟩
          · obtain ⟨h1, h2⟩ := ih (c.adv r) (lit ++ [r]) rs hrs
            refine ⟨?_, h2⟩
            rcases h1 with h1 | h1
            · exact Or.inl h1.cons
            · exact Or.inr h1.cons

theorem lexStringLoop_run (c : Cur) (lit rest : List Rune) :
    (CleanRun c rest (lexStringLoop c lit rest).cur (lexStringLoop c lit rest).rest ∨
      EofRun c rest (lexStringLoop c lit rest).cur (lexStringLoop c lit rest).rest) ∧
      (∀ e, (lexStringLoop c lit rest).err = some e → e.pos = (lexStringLoop c lit rest).cur.pos) :=
  lexStringLoop_run_aux rest.length c lit rest (Nat.le_refl _)

theorem lexRegexLoop_run_aux (n : Nat) : ∀ (c : Cur) (lit rest : List Rune), rest.length ≤ n →
    (CleanRun c rest (lexRegexLoop c lit rest).cur (lexRegexLoop c lit rest).rest ∨
      EofRun c rest (lexRegexLoop c lit rest).cur (lexRegexLoop c lit rest).rest) ∧
      (∀ e, (lexRegexLoop c lit rest).err = some e → e.pos = (lexRegexLoop c lit rest).cur.pos) := by
  induction n with
  | zero =>
    intro c lit rest h
    have : rest = [] := List.eq_nil_of_length_eq_zero (Nat.le_zero.mp h)
    subst this
    unfold lexRegexLoop
    exact ⟨Or.inr ⟨rfl, rfl⟩, fun e he => by cases he; rfl⟩
  | succ n ih =>
    intro c lit rest h
    cases rest with
    | nil =>
      unfold lexRegexLoop
      exact ⟨Or.inr ⟨rfl, rfl⟩, fun e he => by cases he; rfl⟩
    | cons r rs =>
      have hrs : rs.length ≤ n := by simpa using h
      unfold lexRegexLoop
      simp only []
      split
      · exact ⟨Or.inl ⟨[r], by simp, by simp⟩, fun e he => by cases he; rfl⟩
      · split
        · split
          · exact ⟨Or.inl ⟨[r], by simp, by simp⟩, fun e he => by cases he⟩
          · rename_i e rs2
            have hrs2 : rs2.length ≤ n := by simp at hrs; omega
            split
            · obtain ⟨h1, h2⟩ := ih ((c.adv r).adv e) (lit ++ [cSLASH]) rs2 hrs2
              refine ⟨?_, h2⟩
              rcases h1 with h1 | h1
              · exact Or.inl h1.cons.cons
              · exact Or.inr h1.cons.cons
            · exact ⟨Or.inl ⟨[r], by simp, by simp⟩, fun e he => by cases he⟩
        · obtain ⟨h1, h2⟩ := ih (c.adv r) (lit ++ [r]) rs hrs
          refine ⟨?_, h2⟩
          rcases h1 with h1 | h1
          · exact Or.inl h1.cons
          · exact Or.inr h1.cons

theorem lexRegexLoop_run (c : Cur) (lit rest : List Rune) :
    (CleanRun c rest (lexRegexLoop c lit rest).cur (lexRegexLoop c lit rest).rest ∨
      EofRun c rest (lexRegexLoop c lit rest).cur (lexRegexLoop c lit rest).rest) ∧
      (∀ e, (lexRegexLoop c lit rest).err = some e → e.pos = (lexRegexLoop c lit rest).cur.pos) :=
  lexRegexLoop_run_aux rest.length c lit rest (Nat.le_refl _)

theorem skipWhitespace_run (cls : Cls) (c : Cur) (rest : List Rune) :
    CleanRun c rest (skipWhitespace cls c rest).1 (skipWhitespace cls c rest).2 := by
  induction rest generalizing c with
  | nil => exact CleanRun.refl _ _
  | cons r rs ih =>
    unfold skipWhitespace
    split
    · exact (ih _).cons
    · exact CleanRun.refl _ _

theorem lexIdentLoop_run (cls : Cls) (c : Cur) (lit rest : List Rune) :
    CleanRun c rest (lexIdentLoop cls c lit rest).cur (lexIdentLoop cls c lit rest).rest ∧
      (lexIdentLoop cls c lit rest).err = none := by
  induction rest generalizing c lit with
  | nil => exact ⟨CleanRun.refl _ _, rfl⟩
  | cons r rs ih =>
    unfold lexIdentLoop
    split
    · exact ⟨(ih _ _).1.cons, (ih _ _).2⟩
    · exact ⟨CleanRun.refl _ _, rfl⟩

theorem lexNumberLoop_run (cls : Cls) (c : Cur) (ty : TokenType) (lit : List Rune) (sd : Bool)
    (rest : List Rune) :
    CleanRun c rest (lexNumberLoop cls c ty lit sd rest).cur (lexNumberLoop cls c ty lit sd rest).rest ∧
      (∀ e, (lexNumberLoop cls c ty lit sd rest).err = some e →
        e.pos = (lexNumberLoop cls c ty lit sd rest).cur.pos) := by
  induction rest generalizing c ty lit sd with
  | nil => exact ⟨CleanRun.refl _ _, fun e he => by cases he⟩
  | cons r rs ih =>
    unfold lexNumberLoop
    split
    · exact ⟨(ih _ _ _ _).1.cons, (ih _ _ _ _).2⟩
    · split
      · split
        · exact ⟨CleanRun.refl _ _, fun e he => by cases he; rfl⟩
        · exact ⟨(ih _ _ _ _).1.cons, (ih _ _ _ _).2⟩
      · exact ⟨CleanRun.refl _ _, fun e he => by cases he⟩


theorem CleanRun.trans {c : Cur} {rest : List Rune} {c1 : Cur} {rest1 : List Rune} {c2 : Cur}
    {rest2 : List Rune} (h1 : CleanRun c rest c1 rest1) (h2 : CleanRun c1 rest1 c2 rest2) :
    CleanRun c rest c2 rest2 := by
  obtain ⟨p1, e1, f1⟩ := h1
  obtain ⟨p2, e2, f2⟩ := h2
  exact ⟨p1 ++ p2, by simp [e1, e2], by rw [advs_append, ← f1, f2]⟩

theorem advs_pos_prefix (c : Cur) (pre : List Rune) (h : pre ≠ []) :
    ∃ b, b <+: pre ∧ b.length + 1 = pre.length ∧ (advs c pre).pos = advPos c.nxt b := by
  refine ⟨pre.dropLast, List.dropLast_prefix pre, ?_, ?_⟩
  · have := List.length_dropLast (xs := pre)
    have : pre.length ≠ 0 := fun e => h (List.eq_nil_of_length_eq_zero e)
    omega
  · conv => lhs; rw [← List.dropLast_concat_getLast h]
    exact advs_snoc_pos c _ _

/-! ## Specification of `NextToken` -/

/-- what one call of `nextToken` from `(c, rest)` does: it consumes a prefix `pre` (and then, at end of
input only, possibly calls `next()` once more), the token spans `a … b` (relative to `c.nxt`), where
`a ≤ b` are prefixes of `pre`, `b` a proper one unless the end of input was hit; an error sits at `b`. -/
def StepSpec (cls : Cls) (c : Cur) (rest : List Rune) (s : LexStep) : Prop :=
  ∃ pre a b, rest = pre ++ s.rest ∧ a <+: b ∧ b <+: pre ∧
    (∀ r ∈ a, cls.isSpace r = true ∧ r ≠ cNL) ∧
    ((pre ≠ [] ∧ b.length + 1 = pre.length ∧ s.cur = advs c pre) ∨
      (s.rest = [] ∧ s.cur = (advs c pre).advEOF ∧ b = pre)) ∧
    (s.err = none → s.tok.start = advPos c.nxt a ∧ s.tok.end_ = advPos c.nxt b) ∧
    (∀ e, s.err = some e → e.pos = advPos c.nxt b)

theorem stepSpec_of_run (cls : Cls) (c : Cur) (r : Rune) (rs : List Rune) (s : LexStep)
    (hrun : CleanRun (c.adv r) rs s.cur s.rest ∨ EofRun (c.adv r) rs s.cur s.rest)
    (htok : s.err = none → s.tok.start = c.nxt ∧ s.tok.end_ = s.cur.pos)
    (herr : ∀ e, s.err = some e → e.pos = s.cur.pos) : StepSpec cls c (r :: rs) s := by
  rcases hrun with ⟨pre', h1, h2⟩ | ⟨h1, h2⟩
  · obtain ⟨b, hb1, hb2, hb3⟩ := advs_pos_prefix c (r :: pre') (by simp)
    have hcur : s.cur = advs c (r :: pre') := by rw [h2]; rfl
    refine ⟨r :: pre', [], b, by simp [h1], List.nil_prefix, hb1, (fun x hx => by cases hx),
      Or.inl ⟨by simp, hb2, hcur⟩, ?_, ?_⟩
    · intro he
      obtain ⟨t1, t2⟩ := htok he
      exact ⟨by simpa using t1, by rw [t2, hcur, hb3]⟩
    · intro e he
      rw [herr e he, hcur, hb3]
  · have hcur : s.cur = (advs c (r :: rs)).advEOF := by rw [h2]; rfl
    refine ⟨r :: rs, [], r :: rs, by simp [h1], List.nil_prefix, List.prefix_refl _,
      (fun x hx => by cases hx), Or.inr ⟨h1, hcur, rfl⟩, ?_, ?_⟩
    · intro he
      obtain ⟨t1, t2⟩ := htok he
      exact ⟨by simpa using t1, by rw [t2, hcur, advEOF_pos, advs_nxt]⟩
    · intro e he
      rw [herr e he, hcur, advEOF_pos, advs_nxt]

theorem StepSpec.cons {cls : Cls} {c : Cur} {r : Rune} {rs : List Rune} {s : LexStep}
    (hr : cls.isSpace r = true ∧ r ≠ cNL) (h : StepSpec cls (c.adv r) rs s) :
    StepSpec cls c (r :: rs) s := by
  obtain ⟨pre, a, b, h1, h2, h3, ha, h4, h5, h6⟩ := h
  refine ⟨r :: pre, r :: a, r :: b, by simp [h1], ?_, ?_, ?_, ?_, ?_, ?_⟩
  · exact (List.prefix_cons_inj r).mpr h2
  · exact (List.prefix_cons_inj r).mpr h3
  · intro x hx
    rcases List.mem_cons.mp hx with rfl | hx
    · exact hr
    · exact ha x hx
  · rcases h4 with ⟨g1, g2, g3⟩ | ⟨g1, g2, g3⟩
    · exact Or.inl ⟨by simp, by simpa using g2, by simp [g3]⟩
    · exact Or.inr ⟨g1, by simp [g2], by rw [g3]⟩
  · intro he
    obtain ⟨t1, t2⟩ := h5 he
    rw [adv_nxt] at t1 t2
    exact ⟨by simpa using t1, by simpa using t2⟩
  · intro e he
    have := h6 e he
    rw [adv_nxt] at this
    simpa using this

theorem litStep_fields (ty : TokenType) (p : Pos) (lr : LitRes) :
    (litStep ty p lr).cur = lr.cur ∧ (litStep ty p lr).rest = lr.rest ∧
      (litStep ty p lr).err = lr.err ∧
      (lr.err = none → (litStep ty p lr).tok.start = p ∧ (litStep ty p lr).tok.end_ = lr.cur.pos ∧
        (litStep ty p lr).tok.ty = ty ∧ (litStep ty p lr).tok.lit = lr.lit) := by
  unfold litStep
  cases h : lr.err with
  | none => simp [mkTok]
  | some e => simp

theorem stepSpec_litStep (cls : Cls) (c : Cur) (r : Rune) (rs : List Rune) (ty : TokenType) (lr : LitRes)
    (hrun : CleanRun (c.adv r) rs lr.cur lr.rest ∨ EofRun (c.adv r) rs lr.cur lr.rest)
    (herr : ∀ e, lr.err = some e → e.pos = lr.cur.pos) :
    StepSpec cls c (r :: rs) (litStep ty (c.adv r).pos lr) := by
  obtain ⟨f1, f2, f3, f4⟩ := litStep_fields ty (c.adv r).pos lr
  apply stepSpec_of_run
  · rw [f1, f2]; exact hrun
  · intro he
    rw [f3] at he
    obtain ⟨g1, g2, _⟩ := f4 he
    exact ⟨by rw [g1]; rfl, by rw [g2, f1]⟩
  · intro e he
    rw [f3] at he
    rw [f1]; exact herr e he

theorem lexLineComment_run (c : Cur) (rest : List Rune) :
    (CleanRun c rest (lexLineComment c rest).cur (lexLineComment c rest).rest ∨
      EofRun c rest (lexLineComment c rest).cur (lexLineComment c rest).rest) ∧
      (lexLineComment c rest).err = none := by
  cases rest with
  | nil => exact ⟨Or.inr ⟨rfl, rfl⟩, rfl⟩
  | cons r rs =>
    unfold lexLineComment
    exact ⟨Or.inl (lexLineLoop_run _ _ _).1.cons, (lexLineLoop_run _ _ _).2⟩

theorem lexBlockComment_run (c : Cur) (r : Rune) (rs : List Rune) :
    (CleanRun c (r :: rs) (lexBlockComment c (r :: rs)).cur (lexBlockComment c (r :: rs)).rest ∨
      EofRun c (r :: rs) (lexBlockComment c (r :: rs)).cur (lexBlockComment c (r :: rs)).rest) ∧
      (lexBlockComment c (r :: rs)).err = none := by
  unfold lexBlockComment
  rcases (lexBlockLoop_run (c.adv r) [] rs).1 with h | h
  · exact ⟨Or.inl h.cons, (lexBlockLoop_run _ _ _).2⟩
  · exact ⟨Or.inr h.cons, (lexBlockLoop_run _ _ _).2⟩

theorem lexDescriptionLine_run (cls : Cls) (c : Cur) (rest : List Rune) :
    CleanRun c rest (lexDescriptionLine cls c rest).cur (lexDescriptionLine cls c rest).rest ∧
      (lexDescriptionLine cls c rest).err = none := by
  unfold lexDescriptionLine
  have h1 := skipWhitespace_run cls c rest
  generalize skipWhitespace cls c rest = sw at h1
  obtain ⟨c1, rest1⟩ := sw
  exact ⟨h1.trans (lexLineLoop_run _ _ _).1, (lexLineLoop_run _ _ _).2⟩

theorem nextToken_spec (cls : Cls) (c : Cur) (rest : List Rune) :
    StepSpec cls c rest (nextToken cls c rest) := by
  induction rest generalizing c with
  | nil =>
    unfold nextToken
    exact ⟨[], [], [], rfl, List.prefix_refl _, List.prefix_refl _, (fun x hx => by cases hx),
      Or.inr ⟨rfl, rfl, rfl⟩, fun _ => ⟨rfl, rfl⟩, fun e he => by cases he⟩
  | cons r rs ih =>
    unfold nextToken
    simp only []
    split
    · -- operator
      exact stepSpec_of_run cls c r rs _ (Or.inl (CleanRun.refl _ _)) (fun _ => ⟨rfl, rfl⟩)
        (fun e he => by cases he)
    · split
      · split
        · exact stepSpec_litStep cls c r rs _ _ (lexLineComment_run _ _).1
            (fun e he => by rw [(lexLineComment_run _ _).2] at he; cases he)
        · split
          · rename_i hstar
            cases rs with
            | nil => simp at hstar
            | cons r2 rs2 =>
              exact stepSpec_litStep cls c r (r2 :: rs2) _ _ (lexBlockComment_run _ _ _).1
                (fun e he => by rw [(lexBlockComment_run _ _ _).2] at he; cases he)
          · exact stepSpec_litStep cls c r rs _ _ (lexRegexLoop_run _ _ _).1 (lexRegexLoop_run _ _ _).2
      · split
        · exact stepSpec_litStep cls c r rs _ _ (lexStringLoop_run _ _ _).1 (lexStringLoop_run _ _ _).2
        · split
          · exact stepSpec_litStep cls c r rs _ _ (Or.inl (lexDescriptionLine_run _ _ _).1)
              (fun e he => by rw [(lexDescriptionLine_run _ _ _).2] at he; cases he)
          · split
            · exact stepSpec_of_run cls c r rs _ (Or.inl (CleanRun.refl _ _)) (fun _ => ⟨rfl, rfl⟩)
                (fun e he => by cases he)
            · split
              · rename_i hnl hsp
                exact StepSpec.cons ⟨hsp, hnl⟩ (ih _)
              · split
                · -- number
                  have hn := lexNumberLoop_run cls (c.adv r) .int [r] false rs
                  split
                  · rename_i e he
                    exact stepSpec_of_run cls c r rs _ (Or.inl hn.1) (fun h => by cases h)
                      (fun e' he' => by cases he'; exact hn.2 e he)
                  · exact stepSpec_of_run cls c r rs _ (Or.inl hn.1) (fun _ => ⟨rfl, rfl⟩)
                      (fun e he => by cases he)
                · split
                  · -- identifier
                    have hi := lexIdentLoop_run cls (c.adv r) [r] rs
                    split
                    · exact stepSpec_of_run cls c r rs _ (Or.inl hi.1) (fun _ => ⟨rfl, rfl⟩)
                        (fun e he => by cases he)
                    · split
                      · exact stepSpec_of_run cls c r rs _ (Or.inl hi.1) (fun _ => ⟨rfl, rfl⟩)
                          (fun e he => by cases he)
                      · exact stepSpec_of_run cls c r rs _ (Or.inl hi.1) (fun _ => ⟨rfl, rfl⟩)
                          (fun e he => by cases he)
                  · exact stepSpec_of_run cls c r rs _ (Or.inl (CleanRun.refl _ _)) (fun h => by cases h)
                      (fun e he => by cases he; rfl)


/-! ## `AllTokens`: termination, token chain, error positions -/

/-- tokens in source order: each spans `posAfter a … posAfter b` for prefixes `lo ≤ a ≤ b` of `src`,
and the next token starts at or after `b` -/
def TokChain (src : List Rune) : List Rune → List Token → Prop
  | _, [] => True
  | lo, t :: ts => ∃ a b, lo <+: a ∧ a <+: b ∧ b <+: src ∧ t.start = posAfter a ∧
      t.end_ = posAfter b ∧ t.ty ≠ .eof ∧ TokChain src b ts

theorem TokChain.mono {src lo lo' : List Rune} {ts : List Token} (h : TokChain src lo ts)
    (hl : lo' <+: lo) : TokChain src lo' ts := by
  cases ts with
  | nil => trivial
  | cons t ts =>
    obtain ⟨a, b, h1, h2⟩ := h
    exact ⟨a, b, hl.trans h1, h2⟩

theorem posAfter_append (p0 a : List Rune) : advPos (posAfter p0) a = posAfter (p0 ++ a) := by
  unfold posAfter; rw [advPos_append]

theorem nextToken_nil (cls : Cls) (c : Cur) :
    (nextToken cls c []).err = none ∧ (nextToken cls c []).tok.ty = .eof := by
  unfold nextToken; exact ⟨rfl, rfl⟩

theorem allTokensLoop_spec (cls : Cls) (ff : Bool) (src : List Rune) :
    ∀ (fuel : Nat) (c : Cur) (rest : List Rune) (toks : List Token) (errs : List LexErr)
      (p0 : List Rune), rest.length < fuel →
      (rest ≠ [] → src = p0 ++ rest ∧ c.nxt = posAfter p0) →
      match allTokensLoop cls ff fuel c rest toks errs with
      | .toks out => errs = [] ∧ ∃ new, out = toks ++ new ∧ TokChain src p0 new
      | .errs out => ∃ new, out = errs ++ new ∧ ∀ e ∈ new, InFile src e.pos
      | .nofuel => False := by
  intro fuel
  induction fuel with
  | zero => intro c rest toks errs p0 h; omega
  | succ fuel ih =>
    intro c rest toks errs p0 hfuel hclean
    unfold allTokensLoop
    simp only []
    cases rest with
    | nil =>
      obtain ⟨h1, h2⟩ := nextToken_nil cls c
      simp only [h1, h2, if_true]
      cases he : errs.isEmpty with
      | true =>
        simp only [if_true]
        exact ⟨by simpa using he, [], by simp, trivial⟩
      | false =>
        simp only [Bool.false_eq_true, if_false]
        exact ⟨[], by simp, fun e h => by cases h⟩
    | cons r rs =>
      obtain ⟨hsrc, hnxt⟩ := hclean (by simp)
      obtain ⟨pre, a, b, e1, ab, bpre, _, hcur, htok, herr⟩ := nextToken_spec cls c (r :: rs)
      generalize nextToken cls c (r :: rs) = s at *
      -- facts about the state after the step
      have hlen : s.rest.length < fuel := by
        rcases hcur with ⟨g1, _, _⟩ | ⟨g1, _⟩
        · have : (r :: rs).length = pre.length + s.rest.length := by rw [e1]; simp
          have : pre.length ≠ 0 := fun e => g1 (List.eq_nil_of_length_eq_zero e)
          simp at hfuel; simp at *; omega
        · rw [g1]; simp at hfuel ⊢; omega
      have hclean' : s.rest ≠ [] → src = (p0 ++ pre) ++ s.rest ∧ s.cur.nxt = posAfter (p0 ++ pre) := by
        intro hne
        rcases hcur with ⟨_, _, g3⟩ | ⟨g1, _⟩
        · refine ⟨by rw [hsrc, e1]; simp, ?_⟩
          rw [g3, advs_nxt, hnxt, posAfter_append]
        · exact absurd g1 hne
      have hbsrc : p0 ++ b <+: src := by
        rw [hsrc, e1]
        obtain ⟨t, rfl⟩ := bpre
        exact ⟨t ++ s.rest, by simp⟩
      have hbpre : p0 ++ b <+: p0 ++ pre := by
        obtain ⟨t, rfl⟩ := bpre
        exact ⟨t, by simp⟩
      cases hse : s.err with
      | some e =>
        have hepos : InFile src e.pos := ⟨p0 ++ b, hbsrc, by rw [herr e hse, hnxt, posAfter_append]⟩
        simp only []
        cases ff with
        | true =>
          simp only [if_true]
          exact ⟨[e], rfl, fun e' h => by simp at h; subst h; exact hepos⟩
        | false =>
          simp only [Bool.false_eq_true, if_false]
          by_cases hty : s.tok.ty = .eof
          · simp only [hty, if_true]
            exact ⟨[e], rfl, fun e' h => by simp at h; subst h; exact hepos⟩
          · simp only [hty, if_false]
            have := ih s.cur s.rest (toks ++ [s.tok]) (errs ++ [e]) (p0 ++ pre) hlen hclean'
            generalize allTokensLoop cls false fuel s.cur s.rest (toks ++ [s.tok]) (errs ++ [e]) = res
              at this ⊢
            cases res with
            | toks out => exact absurd this.1 (by simp)
            | errs out =>
              obtain ⟨new, hn1, hn2⟩ := this
              refine ⟨e :: new, by simp [hn1], ?_⟩
              intro e' he'
              rcases List.mem_cons.mp he' with h | h
              · subst h; exact hepos
              · exact hn2 e' h
            | nofuel => exact this
      | none =>
        simp only []
        obtain ⟨ts, te⟩ := htok hse
        by_cases hty : s.tok.ty = .eof
        · simp only [hty, if_true]
          cases he : errs.isEmpty with
          | true =>
            simp only [if_true]
            exact ⟨by simpa using he, [], by simp, trivial⟩
          | false =>
            simp only [Bool.false_eq_true, if_false]
            exact ⟨[], by simp, fun e h => by cases h⟩
        · simp only [hty, if_false]
          have := ih s.cur s.rest (toks ++ [s.tok]) errs (p0 ++ pre) hlen hclean'
          generalize allTokensLoop cls ff fuel s.cur s.rest (toks ++ [s.tok]) errs = res at this ⊢
          cases res with
          | toks out =>
            obtain ⟨h0, new, hn1, hn2⟩ := this
            refine ⟨h0, s.tok :: new, by simp [hn1], ?_⟩
            refine ⟨p0 ++ a, p0 ++ b, List.prefix_append _ _, ?_, hbsrc, ?_, ?_, hty, hn2.mono hbpre⟩
            · obtain ⟨t, rfl⟩ := ab
              exact ⟨t, by simp⟩
            · rw [ts, hnxt, posAfter_append]
            · rw [te, hnxt, posAfter_append]
          | errs out => exact this
          | nofuel => exact this


/-- `AllTokens` terminates (the fuel is never exhausted); its tokens form a chain in the source and
its errors are positioned inside the source; an error result is never empty. -/
theorem allTokens_spec (cls : Cls) (ff : Bool) (src : List Rune) :
    match allTokens cls ff src with
    | .toks ts => TokChain src [] ts
    | .errs es => ∀ e ∈ es, InFile src e.pos
    | .nofuel => False := by
  unfold allTokens
  have := allTokensLoop_spec cls ff src (src.length + 2) Cur.init src [] [] [] (by omega)
    (fun _ => ⟨rfl, rfl⟩)
  generalize allTokensLoop cls ff (src.length + 2) Cur.init src [] [] = res at this ⊢
  cases res with
  | toks out =>
    obtain ⟨_, new, h1, h2⟩ := this
    simp at h1; subst h1; exact h2
  | errs out =>
    obtain ⟨new, h1, h2⟩ := this
    simp at h1; subst h1; exact h2
  | nofuel => exact this

theorem allTokensLoop_errs_ne_nil (cls : Cls) (ff : Bool) :
    ∀ (fuel : Nat) (c : Cur) (rest : List Rune) (toks : List Token) (errs out : List LexErr),
      allTokensLoop cls ff fuel c rest toks errs = .errs out → out ≠ [] := by
  intro fuel
  induction fuel with
  | zero => intro c rest toks errs out h; unfold allTokensLoop at h; cases h
  | succ fuel ih =>
    intro c rest toks errs out h
    unfold allTokensLoop at h
    simp only [] at h
    split at h
    · split at h
      · cases h; simp
      · split at h
        · cases h; simp
        · exact ih _ _ _ _ _ h
    · split at h
      · split at h
        · cases h
        · rename_i hne
          cases h
          intro he; apply hne; simp [he]
      · exact ih _ _ _ _ _ h

/-- consequences of a token chain: order and placement -/
theorem TokChain.props {src lo : List Rune} {ts : List Token} (h : TokChain src lo ts) :
    ts.Pairwise (fun t u => t.end_ ≤ u.start) ∧
    (∀ t ∈ ts, posAfter lo ≤ t.start ∧ t.start ≤ t.end_ ∧ InFile src t.start ∧ InFile src t.end_ ∧
      t.ty ≠ .eof) := by
  induction ts generalizing lo with
  | nil => exact ⟨List.Pairwise.nil, fun t h => by cases h⟩
  | cons t ts ih =>
    obtain ⟨a, b, h1, h2, h3, h4, h5, h6, h7⟩ := h
    obtain ⟨p1, p2⟩ := ih h7
    refine ⟨List.pairwise_cons.mpr ⟨?_, p1⟩, ?_⟩
    · intro u hu
      rw [h5]; exact (p2 u hu).1
    · intro u hu
      rcases List.mem_cons.mp hu with rfl | hu
      · refine ⟨by rw [h4]; exact posAfter_mono h1, by rw [h4, h5]; exact posAfter_mono h2,
          ⟨a, h2.trans h3, h4⟩, ⟨b, h3, h5⟩, h6⟩
      · obtain ⟨q1, q2⟩ := p2 u hu
        exact ⟨Pos.le_trans (posAfter_mono (h1.trans h2)) q1, q2⟩


/-- every `NextToken` call on non-empty input consumes at least one rune -/
theorem nextToken_progress (cls : Cls) (c : Cur) (r : Rune) (rs : List Rune) :
    (nextToken cls c (r :: rs)).rest.length < (r :: rs).length := by
  obtain ⟨pre, a, b, e1, _, _, _, hcur, _, _⟩ := nextToken_spec cls c (r :: rs)
  generalize nextToken cls c (r :: rs) = s at *
  rcases hcur with ⟨g1, _, _⟩ | ⟨g1, _⟩
  · have : (r :: rs).length = pre.length + s.rest.length := by rw [e1]; simp
    have : pre.length ≠ 0 := fun e => g1 (List.eq_nil_of_length_eq_zero e)
    omega
  · rw [g1]; simp

end J5V.Bcl
