import J5V.Bcl.FmtInv
import J5V.Bcl.EraseProofs
/-!
# The walker reads the canonical tokens of a formatted file back to the same fragments
(lemmas for C09: `walkFragments_fileToks`).  All tokens here carry position `0:0`.
-/
namespace J5V.Bcl

/-! ## canonical parts -/

theorem canonParts_nil : canonParts [] = [] := rfl

theorem canonParts_append (a b : List Token) : canonParts (a ++ b) = canonParts a ++ canonParts b := by
  simp [canonParts, List.filter_append]

theorem cparts_cons_space (lit : List Rune) (ps : List Token) :
    canonParts (newToken .space lit :: ps) = canonParts ps := by
  simp [canonParts, newToken, List.filter_cons]

theorem cparts_cons (t : Token) (ps : List Token) (h : t.ty ≠ .space) :
    canonParts (t :: ps) = canonTok t :: canonParts ps := by
  have : (t.ty != TokenType.space) = true := by simpa using h
  simp [canonParts, List.filter_cons, this]

theorem canonParts_flatMap {α : Type} (f : α → List Token) (l : List α) :
    canonParts (l.flatMap f) = l.flatMap (fun x => canonParts (f x)) := by
  induction l with
  | nil => rfl
  | cons x xs ih => simp [List.flatMap_cons, canonParts_append, ih]

/-- the canonical token of an operator token made by the formatter -/
theorem canonTok_newToken (ty : TokenType) (lit : List Rune) (h1 : ty ≠ .ident) (h2 : ty ≠ .bool) :
    canonTok (newToken ty lit) = ⟨ty, lit, ⟨0, 0⟩, ⟨0, 0⟩⟩ := by
  simp [canonTok, lexTy, newToken, h1, h2]

theorem canonTok_ty_ne {t : Token} (h1 : t.ty ≠ .ident) (h2 : t.ty ≠ .bool) : canonTok t = t.erase := by
  simp [canonTok, lexTy, h1, h2, Token.erase]

/-- an identifier token, as the lexer types it, is an identifier again after `AsIdent` -/
theorem canonTok_asIdent {t : Token} (h : t.ty = .ident) : (canonTok t).asIdent = some t.erase := by
  unfold canonTok lexTy Token.asIdent Token.erase
  simp only [h, true_or, if_true]
  by_cases hb : t.lit = litTrue ∨ t.lit = litFalse
  · simp only [hb, if_true]
  · simp only [hb, if_false]

theorem canonTok_ident_ty {t : Token} (h : t.ty = .ident) :
    (canonTok t).ty = .ident ∨ (canonTok t).ty = .bool := by
  unfold canonTok lexTy
  simp only [h, true_or, if_true]
  split <;> simp

/-! ## `popToken` -/

theorem popToken_cons' (prev : Option Token) (t : Token) (rs : List Token) :
    popToken ⟨prev, t :: rs⟩ = .ok t ⟨some t, rs⟩ := rfl

/-- the type of the first token of a list, `none` at the end -/
def headTy (ts : List Token) : Option TokenType := ts.head?.map (·.ty)

@[simp] theorem headTy_nil : headTy [] = none := rfl
@[simp] theorem headTy_cons (t : Token) (ts : List Token) : headTy (t :: ts) = some t.ty := rfl

theorem nextType_eq (prev : Option Token) (ts : List Token) :
    (⟨prev, ts⟩ : W).nextType = (headTy ts).getD .eof := by
  cases ts <;> rfl

/-! ## references -/

def dotTok : Token := ⟨.dot, [cDOT], ⟨0, 0⟩, ⟨0, 0⟩⟩

/-- canonical tokens of the identifiers after the first one -/
def refTailToks (is : List Ident) : List Token := is.flatMap fun p => [dotTok, canonTok p.token]

theorem canonParts_refTail (is : List Ident) (h : ∀ j ∈ is, j.token.ty = .ident) :
    canonParts (is.flatMap fun p => [newToken .dot [cDOT], p.token]) = refTailToks is := by
  induction is with
  | nil => rfl
  | cons p ps ih =>
    have hpt : p.token.ty ≠ .space := by rw [h p (by simp)]; decide
    simp only [List.flatMap_cons, refTailToks, List.cons_append, List.nil_append]
    rw [cparts_cons _ _ (by simp [newToken]), cparts_cons _ _ hpt,
      canonTok_newToken _ _ (by decide) (by decide), ih (fun j hj => h j (by simp [hj]))]
    rfl

theorem canonParts_referenceTokens (i : Ident) (is : List Ident) (sp : Span)
    (h : ∀ j ∈ i :: is, j.token.ty = .ident) :
    canonParts (referenceTokens ⟨i :: is, sp⟩) = canonTok i.token :: refTailToks is := by
  have hi : i.token.ty ≠ .space := by rw [h i (by simp)]; decide
  simp only [referenceTokens]
  rw [cparts_cons _ _ hi, canonParts_refTail is (fun j hj => h j (by simp [hj]))]

theorem newReference_erased (l : List Ident) (h : l ≠ []) :
    newReference (l.map Ident.erase) = some ⟨l.map Ident.erase, Span.zero⟩ := by
  unfold newReference
  have h1 : (l.map Ident.erase).head? = some (l.head h).erase := by
    cases l with
    | nil => exact absurd rfl h
    | cons a as => rfl
  have h2 : (l.map Ident.erase).getLast? = some (l.getLast h).erase := by
    rw [List.getLast?_map, List.getLast?_eq_some_getLast h]; rfl
  rw [h1, h2]
  rfl

theorem ident_erase_of_wf {cls : Cls} {i : Ident} (h : IdentWF cls i) :
    (⟨i.token.erase, i.token.erase.lit, ⟨i.token.erase.start, i.token.erase.end_⟩⟩ : Ident) = i.erase := by
  unfold Ident.erase Span.zero
  rw [h.2.2]
  rfl

/-- reading the canonical tokens of a reference gives the erased reference -/
theorem popReferenceLoop_canon (cls : Cls) : ∀ (is : List Ident) (i : Ident) (acc : List Ident)
    (prev : Option Token) (rest : List Token), (∀ j ∈ i :: is, IdentWF cls j) →
    headTy rest ≠ some .dot →
    ∃ p, popReferenceLoop (acc.map Ident.erase) prev (canonTok i.token :: refTailToks is ++ rest) =
        .ok ⟨(acc ++ i :: is).map Ident.erase, Span.zero⟩ ⟨some p, rest⟩ ∧ p.end_ = ⟨0, 0⟩ := by
  intro is
  induction is with
  | nil =>
    intro i acc prev rest hwf hrest
    have hi := hwf i (by simp)
    refine ⟨canonTok i.token, ?_, rfl⟩
    simp only [refTailToks, List.flatMap_nil, List.cons_append, List.nil_append]
    unfold popReferenceLoop
    rw [canonTok_asIdent hi.1]
    simp only []
    have hacc : acc.map Ident.erase ++
        [(⟨i.token.erase, i.token.erase.lit, ⟨i.token.erase.start, i.token.erase.end_⟩⟩ : Ident)] =
        (acc ++ [i]).map Ident.erase := by
      rw [ident_erase_of_wf hi]; simp
    rw [hacc]
    cases rest with
    | nil =>
      simp only []
      rw [newReference_erased _ (by simp)]
    | cons d rs2 =>
      have hd : ¬ d.ty = .dot := by
        intro e; apply hrest; simp [e]
      simp only [hd, if_false]
      rw [newReference_erased _ (by simp)]
  | cons p ps ih =>
    intro i acc prev rest hwf hrest
    have hi := hwf i (by simp)
    obtain ⟨q, hq, hqe⟩ := ih p (acc ++ [i]) (some dotTok) rest
      (fun j hj => hwf j (by simp at hj ⊢; right; exact hj)) hrest
    refine ⟨q, ?_, hqe⟩
    simp only [refTailToks, List.flatMap_cons, List.cons_append, List.nil_append]
    unfold popReferenceLoop
    rw [canonTok_asIdent hi.1]
    simp only []
    have hacc : acc.map Ident.erase ++
        [(⟨i.token.erase, i.token.erase.lit, ⟨i.token.erase.start, i.token.erase.end_⟩⟩ : Ident)] =
        (acc ++ [i]).map Ident.erase := by
      rw [ident_erase_of_wf hi]; simp
    rw [hacc]
    have hd : dotTok.ty = .dot := rfl
    simp only [hd, if_true]
    have := hq
    simp only [refTailToks, List.cons_append] at this
    rw [this]
    simp

/-- reading the canonical tokens of a well-formed reference gives the erased reference -/
theorem popReference_canon (cls : Cls) (r : Reference) (hwf : RefWF cls r) (prev : Option Token)
    (rest : List Token) (hrest : headTy rest ≠ some .dot) :
    ∃ p, popReference ⟨prev, canonParts (referenceTokens r) ++ rest⟩ = .ok r.erase ⟨some p, rest⟩ ∧
      p.end_ = ⟨0, 0⟩ := by
  obtain ⟨ids, sp⟩ := r
  obtain ⟨hne, hall⟩ := hwf
  cases ids with
  | nil => exact absurd rfl hne
  | cons i is =>
    rw [canonParts_referenceTokens i is sp (fun j hj => (hall j hj).1)]
    obtain ⟨p, hp, hpe⟩ := popReferenceLoop_canon cls is i [] prev rest hall hrest
    exact ⟨p, by simpa [popReference, Reference.erase] using hp, hpe⟩

/-- the first canonical token of a reference is identifier-like -/
theorem referenceToks_head (cls : Cls) (r : Reference) (hwf : RefWF cls r) :
    ∃ t ts, canonParts (referenceTokens r) = t :: ts ∧ (t.ty = .ident ∨ t.ty = .bool) := by
  obtain ⟨ids, sp⟩ := r
  obtain ⟨hne, hall⟩ := hwf
  cases ids with
  | nil => exact absurd rfl hne
  | cons i is =>
    rw [canonParts_referenceTokens i is sp (fun j hj => (hall j hj).1)]
    exact ⟨_, _, rfl, canonTok_ident_ty (hall i (by simp)).1⟩

/-! ## values -/

def lbrackTok : Token := ⟨.lbrack, [91], ⟨0, 0⟩, ⟨0, 0⟩⟩
def rbrackTok : Token := ⟨.rbrack, [93], ⟨0, 0⟩, ⟨0, 0⟩⟩
def commaTok : Token := ⟨.comma, [44], ⟨0, 0⟩, ⟨0, 0⟩⟩

mutual
/-- canonical tokens of a value -/
def valToks : Value → List Token
  | .scalar tok _ => [tok.erase]
  | .array vs _ => lbrackTok :: elemsToks vs
/-- canonical tokens of the elements of an array, with the commas and the closing bracket -/
def elemsToks : List Value → List Token
  | [] => [rbrackTok]
  | v :: vs => valToks v ++ ((match vs with | [] => [] | _ :: _ => [commaTok]) ++ elemsToks vs)
end

/-- the hypothesis under which a value is read back: scalars are literal tokens, arrays contain no
line-ending tokens -/
def VOK (cls : Cls) : Value → Prop
  | .scalar t _ => ScalarWF cls t
  | .array vs _ => ValueListWF cls vs

theorem VOK_of_ValueWF {cls : Cls} {v : Value} (h : ValueWF cls v) : VOK cls v := by
  cases v with
  | scalar t sp => unfold ValueWF at h; exact h.1
  | array vs sp => unfold ValueWF at h; exact h

theorem canonTok_scalar {cls : Cls} {t : Token} (h : ScalarWF cls t) : canonTok t = t.erase := by
  obtain ⟨h1, h2, h3⟩ := h
  by_cases hb : t.ty = .bool
  · unfold TokLitWF at h3
    rw [hb] at h3
    simp only [] at h3
    unfold canonTok lexTy Token.erase
    simp [hb, h3.2]
  · exact canonTok_ty_ne h1 hb

theorem scalar_ne_space {cls : Cls} {t : Token} (h : ScalarWF cls t) : t.ty ≠ .space := by
  intro e
  have := h.2.1
  rw [e] at this
  simp [TokenType.isLiteral] at this

mutual
theorem canonParts_valueTokens (cls : Cls) : (v : Value) → VOK cls v →
    canonParts (valueTokens v) = valToks v
  | .scalar t sp, h => by
    unfold valueTokens valToks
    rw [cparts_cons _ _ (scalar_ne_space h), canonTok_scalar h]
    rfl
  | .array vs sp, h => by
    unfold valueTokens valToks
    rw [canonParts_append, canonParts_append, cparts_cons _ _ (by simp [newToken]),
      canonTok_newToken _ _ (by decide) (by decide), canonParts_nil]
    have := canonParts_valueListTokens cls vs true h
    simp only [List.cons_append, List.nil_append]
    rw [canonParts_append] at this
    simp only [if_true, List.nil_append] at this
    exact congrArg (List.cons lbrackTok) this
theorem canonParts_valueListTokens (cls : Cls) : (vs : List Value) → (first : Bool) →
    ValueListWF cls vs →
    canonParts (valueListTokens first vs ++ [newToken .rbrack [93]]) =
      (if first = true ∨ vs = [] then [] else [commaTok]) ++ elemsToks vs
  | [], first, _ => by
    unfold valueListTokens elemsToks
    simp only [List.nil_append, or_true, if_true]
    rw [cparts_cons _ _ (by simp [newToken]), canonTok_newToken _ _ (by decide) (by decide)]
    rfl
  | v :: vs, first, h => by
    unfold ValueListWF at h
    unfold valueListTokens elemsToks
    have hv := canonParts_valueTokens cls v (VOK_of_ValueWF h.1)
    have hvs := canonParts_valueListTokens cls vs false h.2
    rw [List.append_assoc, List.append_assoc, canonParts_append, canonParts_append, hv, hvs]
    congr 1
    · cases first with
      | true => simp [canonParts_nil]
      | false =>
        simp only [Bool.false_eq_true, if_false, false_or, List.cons_ne_nil]
        rw [cparts_cons _ _ (by simp [newToken]), cparts_cons_space,
          canonTok_newToken _ _ (by decide) (by decide)]
        rfl
    · congr 1
      cases vs <;> simp
end

/-! ## monad plumbing -/

theorem bind_eq_of_ok {α β : Type} {m : WM α} {k : α → WM β} {w w1 : W} {a : α}
    (h : m w = .ok a w1) : (m >>= k) w = k a w1 := by
  show WM.bind m k w = _
  unfold WM.bind
  rw [h]

theorem getW_bind' {β : Type} (k : W → WM β) (w : W) : (getW >>= k) w = k w w := rfl

theorem pure_apply {α : Type} (a : α) (w : W) : (pure a : WM α) w = .ok a w := rfl

/-- the first canonical token of a value is a literal or `[` -/
theorem valToks_head (cls : Cls) (v : Value) (h : VOK cls v) :
    ∃ t ts, valToks v = t :: ts ∧ t.ty ≠ .ident ∧ (t.ty.isLiteral = true ∨ t.ty = .lbrack) := by
  cases v with
  | scalar t sp =>
    unfold VOK at h
    exact ⟨t.erase, [], by simp [valToks], h.1, Or.inl h.2.1⟩
  | array vs sp => exact ⟨lbrackTok, elemsToks vs, by simp [valToks], by decide, Or.inr rfl⟩

theorem popValue_canon_aux (cls : Cls) (fuel : Nat) :
    (∀ (v : Value) (prev : Option Token) (rest : List Token), VOK cls v →
      2 * (valToks v).length ≤ fuel →
      ∃ p, popValue fuel ⟨prev, valToks v ++ rest⟩ = .ok v.erase ⟨some p, rest⟩ ∧ p.end_ = ⟨0, 0⟩) ∧
    (∀ (v : Value) (vs : List Value) (opener : Token) (acc : List Value) (prev : Option Token)
      (rest : List Token), ValueListWF cls (v :: vs) → 2 * (elemsToks (v :: vs)).length ≤ fuel →
      ∃ p, popValueElems fuel opener acc ⟨prev, elemsToks (v :: vs) ++ rest⟩ =
        .ok (.array (acc ++ (v :: vs).map Value.erase) ⟨opener.start, ⟨0, 0⟩⟩) ⟨some p, rest⟩ ∧
        p.end_ = ⟨0, 0⟩) := by
  induction fuel with
  | zero =>
    constructor
    · intro v prev rest hv hf
      obtain ⟨t, ts, e, _⟩ := valToks_head cls v hv
      rw [e] at hf; simp at hf
    · intro v vs opener acc prev rest hv hf
      unfold ValueListWF at hv
      obtain ⟨t, ts, e, _⟩ := valToks_head cls v (VOK_of_ValueWF hv.1)
      unfold elemsToks at hf
      rw [e] at hf; simp at hf
  | succ fuel ih =>
    obtain ⟨ih1, ih2⟩ := ih
    constructor
    · intro v prev rest hv hf
      cases v with
      | scalar t sp =>
        unfold VOK at hv
        refine ⟨t.erase, ?_, rfl⟩
        unfold popValue
        have hnt : (⟨prev, valToks (.scalar t sp) ++ rest⟩ : W).nextType = t.ty := by
          simp [valToks, W.nextType, Token.erase]
        simp only [hnt, hv.1, if_false, hv.2.1, if_true]
        rw [bind_eq_of_ok (by simp only [valToks, List.cons_append, List.nil_append]; exact popToken_cons' _ _ _)]
        simp [pure_apply, Value.erase, Token.erase, Span.zero]
      | array vs sp =>
        unfold VOK at hv
        unfold popValue
        have hnt : (⟨prev, valToks (.array vs sp) ++ rest⟩ : W).nextType = .lbrack := by
          simp [valToks, W.nextType, lbrackTok]
        simp only [hnt]
        rw [if_neg (by decide), if_neg (by decide)]
        simp only [if_true]
        rw [bind_eq_of_ok (by simp only [valToks, List.cons_append]; exact popToken_cons' _ _ _)]
        rw [getW_bind']
        cases vs with
        | nil =>
          have hn2 : (⟨some lbrackTok, elemsToks [] ++ rest⟩ : W).nextType = .rbrack := by
            simp [elemsToks, W.nextType, rbrackTok]
          rw [if_pos hn2]
          rw [bind_eq_of_ok (by simp only [elemsToks, List.cons_append, List.nil_append]; exact popToken_cons' _ _ _)]
          rw [getW_bind']
          exact ⟨rbrackTok, by simp [pure_apply, Value.erase, Value.eraseList, W.currentPos, lbrackTok, rbrackTok, Span.zero], rfl⟩
        | cons v vs =>
          have hvv := hv
          unfold ValueListWF at hvv
          obtain ⟨t, ts, e, hti, htl⟩ := valToks_head cls v (VOK_of_ValueWF hvv.1)
          have hn2 : ¬ ((⟨some lbrackTok, elemsToks (v :: vs) ++ rest⟩ : W).nextType = .rbrack) := by
            unfold elemsToks
            rw [e]
            simp only [List.cons_append, W.nextType]
            intro hc
            rcases htl with h | h
            · rw [hc] at h; simp [TokenType.isLiteral] at h
            · rw [hc] at h; cases h
          rw [if_neg hn2]
          have hlen : 2 * (elemsToks (v :: vs)).length ≤ fuel := by
            simp only [valToks, List.length_cons] at hf; omega
          obtain ⟨p, hp, hpe⟩ := ih2 v vs lbrackTok [] (some lbrackTok) rest hv hlen
          refine ⟨p, ?_, hpe⟩
          rw [hp]
          simp [Value.erase, Value.eraseList_eq_map, lbrackTok, Span.zero]
    · intro v vs opener acc prev rest hv hf
      have hvv := hv
      unfold ValueListWF at hvv
      have hvok := VOK_of_ValueWF hvv.1
      unfold popValueElems
      have hlen1 : 2 * (valToks v).length ≤ fuel := by
        unfold elemsToks at hf
        cases vs with
        | nil => simp [elemsToks] at hf; omega
        | cons v' vs' => simp at hf; omega
      cases vs with
      | nil =>
        obtain ⟨p, hp, hpe⟩ := ih1 v prev (rbrackTok :: rest) hvok hlen1
        have e : elemsToks [v] ++ rest = valToks v ++ rbrackTok :: rest := by
          simp [elemsToks]
        rw [e, bind_eq_of_ok hp, getW_bind']
        have hn1 : ¬ ((⟨some p, rbrackTok :: rest⟩ : W).nextType = .comma) := by
          simp [W.nextType, rbrackTok]
        have hn2 : (⟨some p, rbrackTok :: rest⟩ : W).nextType = .rbrack := by
          simp [W.nextType, rbrackTok]
        rw [if_neg hn1, if_pos hn2]
        rw [bind_eq_of_ok (popToken_cons' _ _ _), getW_bind']
        exact ⟨rbrackTok, by simp [pure_apply, W.currentPos, rbrackTok], rfl⟩
      | cons v' vs' =>
        obtain ⟨p, hp, hpe⟩ := ih1 v prev (commaTok :: (elemsToks (v' :: vs') ++ rest)) hvok hlen1
        have e : elemsToks (v :: v' :: vs') ++ rest =
            valToks v ++ commaTok :: (elemsToks (v' :: vs') ++ rest) := by
          conv => lhs; unfold elemsToks
          simp
        rw [e, bind_eq_of_ok hp, getW_bind']
        have hn1 : (⟨some p, commaTok :: (elemsToks (v' :: vs') ++ rest)⟩ : W).nextType = .comma := by
          simp [W.nextType, commaTok]
        rw [if_pos hn1]
        rw [bind_eq_of_ok (popToken_cons' _ _ _)]
        have hlen2 : 2 * (elemsToks (v' :: vs')).length ≤ fuel := by
          have : (elemsToks (v :: v' :: vs')).length =
              (valToks v).length + 1 + (elemsToks (v' :: vs')).length := by
            conv => lhs; unfold elemsToks
            simp; omega
          omega
        obtain ⟨q, hq, hqe⟩ := ih2 v' vs' opener (acc ++ [v.erase]) (some commaTok) rest hvv.2 hlen2
        refine ⟨q, ?_, hqe⟩
        rw [hq]
        simp

theorem popValue_canon (cls : Cls) (fuel : Nat) (v : Value) (prev : Option Token) (rest : List Token)
    (hv : VOK cls v) (hf : 2 * (valToks v).length ≤ fuel) :
    ∃ p, popValue fuel ⟨prev, valToks v ++ rest⟩ = .ok v.erase ⟨some p, rest⟩ ∧ p.end_ = ⟨0, 0⟩ :=
  (popValue_canon_aux cls fuel).1 v prev rest hv hf

/-! ## tags -/

/-- the token read last (if any) ends at `0:0` -/
def PZ (o : Option Token) : Prop := ∀ p, o = some p → p.end_ = ⟨0, 0⟩

theorem PZ_some {p : Token} (h : p.end_ = ⟨0, 0⟩) : PZ (some p) := fun q hq => by cases hq; exact h
theorem PZ_none : PZ none := fun q hq => by cases hq

theorem currentPos_of_PZ {prev : Option Token} (h : PZ prev) (rest : List Token) :
    (⟨prev, rest⟩ : W).currentPos = ⟨0, 0⟩ := by
  unfold W.currentPos
  cases prev with
  | none => rfl
  | some p => exact h p rfl

/-- canonical tokens of a tag -/
def tagToks (t : TagValue) : List Token := canonParts (tagTokens t)

/-- canonical tokens of a tag after its mark: a string or a reference -/
def tagBodyToks (t : TagValue) : List Token :=
  (match t.value with | some (.scalar tok _) => [tok.erase] | _ => []) ++
    (match t.reference with | some r => canonParts (referenceTokens r) | none => [])

/-- the tokens of a well-formed tag: the optional mark, then a string or a reference -/
theorem tagToks_eq (cls : Cls) (t : TagValue) (h : TagWF cls t) :
    tagToks t = (if t.mark ≠ .none then [t.markToken.erase] else []) ++ tagBodyToks t := by
  obtain ⟨hm, hv⟩ := h
  unfold tagToks tagTokens tagBodyToks
  rw [List.append_assoc, canonParts_append, canonParts_append]
  congr 1
  · unfold MarkWF at hm
    cases hmk : t.mark with
    | none => simp [canonParts_nil]
    | bang =>
      rw [hmk] at hm
      simp only [] at hm
      have : t.markToken.ty ≠ .space := by rw [hm.1]; decide
      simp only [ne_eq, reduceCtorEq, not_false_eq_true, if_true]
      rw [cparts_cons _ _ this, cparts_cons_space, canonParts_nil,
        canonTok_ty_ne (by rw [hm.1]; decide) (by rw [hm.1]; decide)]
    | question =>
      rw [hmk] at hm
      simp only [] at hm
      have : t.markToken.ty ≠ .space := by rw [hm.1]; decide
      simp only [ne_eq, reduceCtorEq, not_false_eq_true, if_true]
      rw [cparts_cons _ _ this, cparts_cons_space, canonParts_nil,
        canonTok_ty_ne (by rw [hm.1]; decide) (by rw [hm.1]; decide)]
  · congr 1
    · rcases hv with ⟨r, h1, h2, _⟩ | ⟨tok, sp, h1, h2, h3⟩
      · rw [h2]; rfl
      · rw [h2]
        simp only []
        rw [cparts_cons _ _ (by rw [h3]; decide), canonParts_nil,
          canonTok_ty_ne (by rw [h3]; decide) (by rw [h3]; decide)]
    · rcases hv with ⟨r, h1, h2, _⟩ | ⟨tok, sp, h1, h2, h3⟩
      · rw [h1]
      · rw [h1]; rfl

/-- the second half of `popTag` -/
def popTagBody (fuel : Nat) (mark : TagMark) (markToken : Token) : WM TagValue := do
  let w1 ← getW
  match w1.nextType with
  | .ident | .bool =>
    let ref ← popReference
    pure ⟨mark, markToken, some ref, none, ref.span⟩
  | .string =>
    let v ← popValue fuel
    pure ⟨mark, markToken, none, some v, v.span⟩
  | _ => failUnexpected [.ident, .bool, .string]

/-- the first half of `popTag` -/
def popTagMark : WM (TagMark × Token) := do
  let w0 ← getW
  (match w0.nextType with
     | .bang => do let tok ← popToken; pure (TagMark.bang, tok)
     | .question => do let tok ← popToken; pure (TagMark.question, tok)
     | _ => pure (TagMark.none, Token.zero) : WM (TagMark × Token))

theorem popTag_split (fuel : Nat) : popTag fuel = (do
    let (mark, markToken) ← popTagMark
    popTagBody fuel mark markToken) := rfl

theorem popTagBody_ref (cls : Cls) (fuel : Nat) (mark : TagMark) (mt : Token) (r : Reference)
    (hwf : RefWF cls r) (prev : Option Token) (rest : List Token) (hrest : headTy rest ≠ some .dot) :
    ∃ p, popTagBody fuel mark mt ⟨prev, canonParts (referenceTokens r) ++ rest⟩ =
      .ok ⟨mark, mt, some r.erase, none, Span.zero⟩ ⟨some p, rest⟩ ∧ p.end_ = ⟨0, 0⟩ := by
  obtain ⟨p, hp, hpe⟩ := popReference_canon cls r hwf prev rest hrest
  obtain ⟨t, ts, e, hty⟩ := referenceToks_head cls r hwf
  refine ⟨p, ?_, hpe⟩
  unfold popTagBody
  rw [getW_bind']
  have hnt : (⟨prev, canonParts (referenceTokens r) ++ rest⟩ : W).nextType = t.ty := by
    rw [e]; rfl
  rcases hty with h | h
  · simp only [hnt, h]
    rw [bind_eq_of_ok hp]
    simp [pure_apply, Reference.erase]
  · simp only [hnt, h]
    rw [bind_eq_of_ok hp]
    simp [pure_apply, Reference.erase]

theorem popTagBody_string (fuel : Nat) (mark : TagMark) (mt : Token) (tok : Token) (sp : Span)
    (hty : tok.ty = .string) (prev : Option Token) (rest : List Token) (hf : 1 ≤ fuel) :
    popTagBody fuel mark mt ⟨prev, tok.erase :: rest⟩ =
      .ok ⟨mark, mt, none, some (Value.scalar tok sp).erase, Span.zero⟩ ⟨some tok.erase, rest⟩ := by
  unfold popTagBody
  rw [getW_bind']
  have hnt : (⟨prev, tok.erase :: rest⟩ : W).nextType = .string := by
    simp [W.nextType, Token.erase, hty]
  simp only [hnt]
  obtain ⟨f, rfl⟩ : ∃ f, fuel = f + 1 := ⟨fuel - 1, by omega⟩
  have hv : popValue (f + 1) ⟨prev, tok.erase :: rest⟩ =
      .ok (Value.scalar tok sp).erase ⟨some tok.erase, rest⟩ := by
    unfold popValue
    simp only [hnt]
    rw [if_neg (by decide), if_pos (by decide)]
    rw [bind_eq_of_ok (popToken_cons' _ _ _)]
    simp [pure_apply, Value.erase, Token.erase, Span.zero]
  rw [bind_eq_of_ok hv]
  simp [pure_apply, Value.erase, Value.span]

/-- reading the canonical tokens of a well-formed tag gives the erased tag -/
theorem popTag_canon (cls : Cls) (fuel : Nat) (t : TagValue) (hwf : TagWF cls t)
    (prev : Option Token) (rest : List Token) (hrest : headTy rest ≠ some .dot) (hf : 1 ≤ fuel) :
    ∃ p, popTag fuel ⟨prev, tagToks t ++ rest⟩ = .ok t.erase ⟨some p, rest⟩ ∧ p.end_ = ⟨0, 0⟩ := by
  rw [tagToks_eq cls t hwf, popTag_split]
  obtain ⟨hm, hv⟩ := hwf
  -- the body, for any mark read
  have body : ∀ (mt : Token) (prev' : Option Token),
      ∃ p, popTagBody fuel t.mark mt ⟨prev', tagBodyToks t ++ rest⟩ =
        .ok ⟨t.mark, mt, t.reference.map Reference.erase, t.value.map Value.erase, Span.zero⟩
          ⟨some p, rest⟩ ∧ p.end_ = ⟨0, 0⟩ := by
    intro mt prev'
    unfold tagBodyToks
    rcases hv with ⟨r, h1, h2, h3⟩ | ⟨tok, sp, h1, h2, h3⟩
    · rw [h1, h2]
      simp only [List.nil_append, Option.map_some, Option.map_none]
      exact popTagBody_ref cls fuel t.mark mt r h3 prev' rest hrest
    · rw [h1, h2]
      simp only [List.append_nil, List.cons_append, List.nil_append, Option.map_some, Option.map_none]
      exact ⟨tok.erase, popTagBody_string fuel t.mark mt tok sp h3 prev' rest hf, rfl⟩
  -- the first token of the body is not a mark
  have bodyHead : ∃ x xs, tagBodyToks t = x :: xs ∧ x.ty ≠ .bang ∧ x.ty ≠ .question := by
    unfold tagBodyToks
    rcases hv with ⟨r, h1, h2, h3⟩ | ⟨tok, sp, h1, h2, h3⟩
    · rw [h1, h2]
      obtain ⟨x, xs, e, hx⟩ := referenceToks_head cls r h3
      refine ⟨x, xs, by simpa using e, ?_, ?_⟩ <;> rcases hx with h | h <;> rw [h] <;> decide
    · rw [h1, h2]
      exact ⟨tok.erase, [], rfl, by simp [Token.erase, h3], by simp [Token.erase, h3]⟩
  generalize tagBodyToks t = B at body bodyHead ⊢
  unfold MarkWF at hm
  cases hmk : t.mark with
  | none =>
    rw [hmk] at hm body
    simp only [] at hm
    simp only [ne_eq, not_true_eq_false, if_false, List.nil_append]
    obtain ⟨x, xs, e, hx1, hx2⟩ := bodyHead
    have hmark : popTagMark ⟨prev, B ++ rest⟩ = .ok (TagMark.none, Token.zero) ⟨prev, B ++ rest⟩ := by
      unfold popTagMark
      rw [getW_bind']
      have hnt : (⟨prev, B ++ rest⟩ : W).nextType = x.ty := by rw [e]; rfl
      rw [hnt]
      cases hxt : x.ty <;> first | rfl | exact absurd hxt hx1 | exact absurd hxt hx2
    rw [bind_eq_of_ok hmark]
    obtain ⟨p, hp, hpe⟩ := body Token.zero prev
    refine ⟨p, ?_, hpe⟩
    simp only [] at hp ⊢
    rw [hp]
    simp [TagValue.erase, hmk, hm, Token.erase, Token.zero]
  | bang =>
    rw [hmk] at hm body
    simp only [] at hm
    simp only [ne_eq, reduceCtorEq, not_false_eq_true, if_true, List.cons_append, List.nil_append]
    have hmark : popTagMark ⟨prev, t.markToken.erase :: (B ++ rest)⟩ =
        .ok (TagMark.bang, t.markToken.erase) ⟨some t.markToken.erase, B ++ rest⟩ := by
      unfold popTagMark
      rw [getW_bind']
      have hnt : (⟨prev, t.markToken.erase :: (B ++ rest)⟩ : W).nextType = .bang := by
        simp [W.nextType, Token.erase, hm.1]
      rw [hnt]
      simp only []
      rw [bind_eq_of_ok (popToken_cons' _ _ _)]
      rfl
    rw [bind_eq_of_ok hmark]
    obtain ⟨p, hp, hpe⟩ := body t.markToken.erase (some t.markToken.erase)
    refine ⟨p, ?_, hpe⟩
    simp only [] at hp ⊢
    rw [hp]
    simp [TagValue.erase, hmk]
  | question =>
    rw [hmk] at hm body
    simp only [] at hm
    simp only [ne_eq, reduceCtorEq, not_false_eq_true, if_true, List.cons_append, List.nil_append]
    have hmark : popTagMark ⟨prev, t.markToken.erase :: (B ++ rest)⟩ =
        .ok (TagMark.question, t.markToken.erase) ⟨some t.markToken.erase, B ++ rest⟩ := by
      unfold popTagMark
      rw [getW_bind']
      have hnt : (⟨prev, t.markToken.erase :: (B ++ rest)⟩ : W).nextType = .question := by
        simp [W.nextType, Token.erase, hm.1]
      rw [hnt]
      simp only []
      rw [bind_eq_of_ok (popToken_cons' _ _ _)]
      rfl
    rw [bind_eq_of_ok hmark]
    obtain ⟨p, hp, hpe⟩ := body t.markToken.erase (some t.markToken.erase)
    refine ⟨p, ?_, hpe⟩
    simp only [] at hp ⊢
    rw [hp]
    simp [TagValue.erase, hmk]

/-- the first canonical token of a tag can start a tag -/
theorem tagToks_head (cls : Cls) (t : TagValue) (hwf : TagWF cls t) :
    ∃ x xs, tagToks t = x :: xs ∧ x.ty.canStartTag = true := by
  rw [tagToks_eq cls t hwf]
  obtain ⟨hm, hv⟩ := hwf
  have bodyHead : ∃ x xs, tagBodyToks t = x :: xs ∧ x.ty.canStartTag = true := by
    unfold tagBodyToks
    rcases hv with ⟨r, h1, h2, h3⟩ | ⟨tok, sp, h1, h2, h3⟩
    · rw [h1, h2]
      obtain ⟨x, xs, e, hx⟩ := referenceToks_head cls r h3
      refine ⟨x, xs, by simpa using e, ?_⟩
      rcases hx with h | h <;> rw [h] <;> rfl
    · rw [h1, h2]
      exact ⟨tok.erase, [], rfl, by simp [Token.erase, h3, TokenType.canStartTag]⟩
  unfold MarkWF at hm
  cases hmk : t.mark with
  | none => simpa using bodyHead
  | bang =>
    rw [hmk] at hm
    exact ⟨t.markToken.erase, tagBodyToks t, by simp, by simp [Token.erase, hm.1, TokenType.canStartTag]⟩
  | question =>
    rw [hmk] at hm
    exact ⟨t.markToken.erase, tagBodyToks t, by simp, by simp [Token.erase, hm.1, TokenType.canStartTag]⟩

theorem headTy_append_of_cons {a : List Token} {x : Token} {xs : List Token} (h : a = x :: xs)
    (b : List Token) : headTy (a ++ b) = some x.ty := by
  rw [h]; rfl

theorem tagsToks_head_ne (cls : Cls) (ts : List TagValue) (hwf : ∀ t ∈ ts, TagWF cls t)
    (rest : List Token) (ty : TokenType) (hty : ty.canStartTag = false) (hrest : headTy rest ≠ some ty) :
    headTy (ts.flatMap tagToks ++ rest) ≠ some ty := by
  cases ts with
  | nil => simpa using hrest
  | cons t ts' =>
    obtain ⟨x, xs, e, hx⟩ := tagToks_head cls t (hwf t (by simp))
    simp only [List.flatMap_cons, List.append_assoc]
    rw [headTy_append_of_cons e]
    intro h
    cases h
    rw [hty] at hx
    cases hx

/-- `tagsLoop` reads the canonical tokens of a tag list -/
theorem tagsLoop_canon (cls : Cls) (pfuel : Nat) (hpf : 1 ≤ pfuel) : ∀ (tags : List TagValue) (fuel : Nat)
    (acc : List TagValue) (prev : Option Token) (rest : List Token), (∀ t ∈ tags, TagWF cls t) →
    tags.length < fuel → PZ prev → (∀ ty, headTy rest = some ty → ty.canStartTag = false) →
    headTy rest ≠ some .dot →
    ∃ prev', tagsLoop pfuel fuel acc ⟨prev, tags.flatMap tagToks ++ rest⟩ =
      .ok (acc ++ tags.map TagValue.erase) ⟨prev', rest⟩ ∧ PZ prev' := by
  intro tags
  induction tags with
  | nil =>
    intro fuel acc prev rest _ hf hpz hrest _
    obtain ⟨f, rfl⟩ : ∃ f, fuel = f + 1 := ⟨fuel - 1, by omega⟩
    refine ⟨prev, ?_, hpz⟩
    unfold tagsLoop
    rw [getW_bind']
    have : ¬ ((⟨prev, ([] : List TagValue).flatMap tagToks ++ rest⟩ : W).nextType.canStartTag = true) := by
      simp only [List.flatMap_nil, List.nil_append]
      cases rest with
      | nil => simp [W.nextType, TokenType.canStartTag]
      | cons x xs =>
        have := hrest x.ty rfl
        simp [W.nextType, this]
    rw [if_neg this]
    simp [pure_apply]
  | cons t ts ih =>
    intro fuel acc prev rest hwf hf hpz hrest hdot
    obtain ⟨f, rfl⟩ : ∃ f, fuel = f + 1 := ⟨fuel - 1, by omega⟩
    obtain ⟨x, xs, e, hx⟩ := tagToks_head cls t (hwf t (by simp))
    have hdot' : headTy (ts.flatMap tagToks ++ rest) ≠ some .dot :=
      tagsToks_head_ne cls ts (fun u hu => hwf u (by simp [hu])) rest .dot rfl hdot
    obtain ⟨p, hp, hpe⟩ := popTag_canon cls pfuel t (hwf t (by simp)) prev
      (ts.flatMap tagToks ++ rest) hdot' hpf
    obtain ⟨prev', h', hpz'⟩ := ih f (acc ++ [t.erase]) (some p) rest
      (fun u hu => hwf u (by simp [hu])) (by simp at hf; omega) (PZ_some hpe) hrest hdot
    refine ⟨prev', ?_, hpz'⟩
    unfold tagsLoop
    rw [getW_bind']
    simp only [List.flatMap_cons, List.append_assoc]
    have hnt : (⟨prev, tagToks t ++ (ts.flatMap tagToks ++ rest)⟩ : W).nextType.canStartTag = true := by
      rw [e]; exact hx
    rw [if_pos hnt, bind_eq_of_ok hp, h']
    simp

def colonTok : Token := ⟨.colon, [58], ⟨0, 0⟩, ⟨0, 0⟩⟩

/-- canonical tokens of the qualifiers -/
def qualsToks (qs : List TagValue) : List Token := qs.flatMap fun q => colonTok :: tagToks q

/-- `qualsLoop` reads the canonical tokens of a qualifier list -/
theorem qualsLoop_canon (cls : Cls) (pfuel : Nat) (hpf : 1 ≤ pfuel) : ∀ (quals : List TagValue) (fuel : Nat)
    (acc : List TagValue) (prev : Option Token) (rest : List Token), (∀ t ∈ quals, TagWF cls t) →
    quals.length < fuel → PZ prev → headTy rest ≠ some .colon → headTy rest ≠ some .dot →
    ∃ prev', qualsLoop pfuel fuel acc ⟨prev, qualsToks quals ++ rest⟩ =
      .ok (acc ++ quals.map TagValue.erase) ⟨prev', rest⟩ ∧ PZ prev' := by
  intro quals
  induction quals with
  | nil =>
    intro fuel acc prev rest _ hf hpz hrest _
    obtain ⟨f, rfl⟩ : ∃ f, fuel = f + 1 := ⟨fuel - 1, by omega⟩
    refine ⟨prev, ?_, hpz⟩
    unfold qualsLoop
    rw [getW_bind']
    have : ¬ ((⟨prev, qualsToks [] ++ rest⟩ : W).nextType = .colon) := by
      simp only [qualsToks, List.flatMap_nil, List.nil_append]
      cases rest with
      | nil => simp [W.nextType]
      | cons x xs =>
        intro h
        apply hrest
        simpa [W.nextType] using h
    rw [if_neg this]
    simp [pure_apply, qualsToks]
  | cons t ts ih =>
    intro fuel acc prev rest hwf hf hpz hrest hdot
    obtain ⟨f, rfl⟩ : ∃ f, fuel = f + 1 := ⟨fuel - 1, by omega⟩
    have hdot' : headTy (qualsToks ts ++ rest) ≠ some .dot := by
      cases ts with
      | nil => simpa [qualsToks] using hdot
      | cons u us => simp [qualsToks, colonTok]
    obtain ⟨p, hp, hpe⟩ := popTag_canon cls pfuel t (hwf t (by simp)) (some colonTok)
      (qualsToks ts ++ rest) hdot' hpf
    obtain ⟨prev', h', hpz'⟩ := ih f (acc ++ [t.erase]) (some p) rest
      (fun u hu => hwf u (by simp [hu])) (by simp at hf; omega) (PZ_some hpe) hrest hdot
    refine ⟨prev', ?_, hpz'⟩
    unfold qualsLoop
    rw [getW_bind']
    have e : qualsToks (t :: ts) ++ rest = colonTok :: (tagToks t ++ (qualsToks ts ++ rest)) := by
      simp [qualsToks]
    rw [e]
    have hnt : (⟨prev, colonTok :: (tagToks t ++ (qualsToks ts ++ rest))⟩ : W).nextType = .colon := rfl
    rw [if_pos hnt, bind_eq_of_ok (popToken_cons' _ _ _), bind_eq_of_ok hp, h']
    simp

/-! ## end of statement -/

theorem endStatement_canon (cm : Option CommentNode) (prev : Option Token) (rest : List Token) :
    endStatement ⟨prev, commentToks cm ++ eolTok :: rest⟩ =
      .ok (cm.map CommentNode.erase) ⟨some eolTok, rest⟩ := by
  unfold endStatement
  cases cm with
  | none =>
    simp only [commentToks, List.nil_append]
    rw [bind_eq_of_ok (popToken_cons' _ _ _)]
    have h1 : ¬ (eolTok.ty = .comment) := by decide
    have h2 : eolTok.ty = .eol ∨ eolTok.ty = .eof := Or.inl rfl
    rw [if_neg h1, if_pos h2]
    rfl
  | some c =>
    simp only [commentToks, List.cons_append, List.nil_append]
    rw [bind_eq_of_ok (popToken_cons' _ _ _)]
    rw [if_pos rfl]
    rw [bind_eq_of_ok (popToken_cons' _ _ _)]
    have h2 : eolTok.ty = .eol ∨ eolTok.ty = .eof := Or.inl rfl
    rw [if_pos h2]
    rfl

/-! ## statements -/

/-- the end of `walkStatement` for a block header -/
def hdrFinish (ref : Reference) (tags quals : List TagValue) : WM Fragment := do
  let w2 ← getW
  match w2.nextType with
  | .lbrace =>
    let _ ← popToken
    let w3 ← getW
    let comment ← endStatement
    pure (.header ⟨ref, tags, quals, none, true, ⟨ref.span.start, w3.currentPos, comment⟩⟩)
  | .description =>
    let tok ← popToken
    let desc : Description := ⟨[tok], tok.lit, ⟨tok.start, tok.end_⟩⟩
    let w3 ← getW
    pure (.header ⟨ref, tags, quals, some desc, false, ⟨ref.span.start, w3.currentPos, none⟩⟩)
  | .comment =>
    let comment ← endStatement
    pure (.header ⟨ref, tags, quals, none, false, ⟨ref.span.start, w2.currentPos, comment⟩⟩)
  | .eol | .eof =>
    pure (.header ⟨ref, tags, quals, none, false, ⟨ref.span.start, w2.currentPos, none⟩⟩)
  | _ => failUnexpected [.lbrace, .eol, .description, .ident]

theorem walkStatement_split (fuel : Nat) : walkStatement fuel = (do
    let ref ← popReference
    let w ← getW
    if w.nextType = .assign then
      let a ← walkValueAssign fuel ref false
      pure (.assign a)
    else if w.nextType = .plus then
      let _ ← popToken
      let w1 ← getW
      if w1.nextType ≠ .assign then failUnexpected [.assign]
      else
        let a ← walkValueAssign fuel ref true
        pure (.assign a)
    else
      let tags ← tagsLoop fuel fuel []
      let quals ← qualsLoop fuel fuel []
      hdrFinish ref tags quals) := rfl

def lbraceTok : Token := ⟨.lbrace, [123], ⟨0, 0⟩, ⟨0, 0⟩⟩

/-- canonical tokens of the end of a header: the optional `{`, the optional description -/
def hdrEndToks (h : BlockHeader) : List Token :=
  (if h.isOpen then [lbraceTok] else []) ++
    (match h.description with | some d => d.tokens.map Token.erase | none => [])

theorem canonParts_headerTokens (cls : Cls) (h : BlockHeader) (hwf : HeaderWF cls h) :
    canonParts (headerTokens h) = canonParts (referenceTokens h.type) ++
      (h.tags.flatMap tagToks ++ (qualsToks h.qualifiers ++ hdrEndToks h)) := by
  unfold headerTokens hdrEndToks
  simp only [canonParts_append, List.append_assoc]
  congr 1
  congr 1
  · rw [canonParts_flatMap]
    rfl
  congr 1
  · rw [canonParts_flatMap]
    rfl
  congr 1
  · cases h.isOpen with
    | true =>
      simp only [if_true]
      rw [cparts_cons_space, cparts_cons _ _ (by simp [newToken]),
        canonTok_newToken _ _ (by decide) (by decide), canonParts_nil]
      rfl
    | false => simp [canonParts_nil]
  · cases hd : h.description with
    | none => simp [canonParts_nil]
    | some d =>
      obtain ⟨_, _, tok, h1, h2, _, _⟩ := hwf.2.2.2.2 d hd
      simp only []
      rw [cparts_cons_space, h1, cparts_cons _ _ (by rw [h2]; decide), canonParts_nil,
        canonTok_ty_ne (by rw [h2]; decide) (by rw [h2]; decide)]
      rfl

theorem hdrFinish_canon (cls : Cls) (h : BlockHeader) (hwf : HeaderWF cls h) (ref : Reference)
    (tags quals : List TagValue) (prev : Option Token) (hpz : PZ prev) (rest : List Token) :
    ∃ prev' rest', hdrFinish ref tags quals
        ⟨prev, hdrEndToks h ++ (commentToks h.src.comment ++ eolTok :: rest)⟩ =
      .ok (.header ⟨ref, tags, quals, h.description.map Description.erase, h.isOpen,
        ⟨ref.span.start, ⟨0, 0⟩, h.src.comment.map CommentNode.erase⟩⟩) ⟨prev', rest'⟩ ∧
      PZ prev' ∧ ((rest' = rest ∧ prev' = some eolTok) ∨
        (rest' = eolTok :: rest ∧ h.isOpen = false ∧ h.src.comment = none)) := by
  unfold hdrFinish hdrEndToks
  rw [getW_bind']
  cases hd : h.description with
  | some d =>
    obtain ⟨ho, hc, tok, h1, h2, _, h4⟩ := hwf.2.2.2.2 d hd
    rw [ho, hc]
    simp only [h1, Bool.false_eq_true, if_false, List.nil_append, List.map_cons, List.map_nil,
      List.cons_append, commentToks]
    have hnt : (⟨prev, tok.erase :: eolTok :: rest⟩ : W).nextType = .description := by
      simp [W.nextType, Token.erase, h2]
    rw [hnt]
    simp only []
    rw [bind_eq_of_ok (popToken_cons' _ _ _), getW_bind']
    refine ⟨some tok.erase, eolTok :: rest, ?_, PZ_some rfl, Or.inr ⟨rfl, by simp, by simp⟩⟩
    simp [pure_apply, Description.erase, h1, h4, Token.erase, W.currentPos, Span.zero]
  | none =>
    simp only [List.append_nil, Option.map_none]
    cases ho : h.isOpen with
    | true =>
      simp only [if_true, List.cons_append, List.nil_append]
      have hnt : (⟨prev, lbraceTok :: (commentToks h.src.comment ++ eolTok :: rest)⟩ : W).nextType
          = .lbrace := rfl
      rw [hnt]
      simp only []
      rw [bind_eq_of_ok (popToken_cons' _ _ _), getW_bind',
        bind_eq_of_ok (endStatement_canon h.src.comment _ rest)]
      exact ⟨some eolTok, rest, by simp [pure_apply, W.currentPos, lbraceTok], PZ_some rfl, Or.inl ⟨rfl, rfl⟩⟩
    | false =>
      simp only [Bool.false_eq_true, if_false, List.nil_append]
      cases hc : h.src.comment with
      | some c =>
        have hnt : (⟨prev, commentToks (some c) ++ eolTok :: rest⟩ : W).nextType = .comment := rfl
        rw [hnt]
        simp only []
        rw [bind_eq_of_ok (endStatement_canon (some c) _ rest)]
        exact ⟨some eolTok, rest, by simp [pure_apply, currentPos_of_PZ hpz], PZ_some rfl, Or.inl ⟨rfl, rfl⟩⟩
      | none =>
        have hnt : (⟨prev, commentToks none ++ eolTok :: rest⟩ : W).nextType = .eol := rfl
        rw [hnt]
        simp only []
        exact ⟨prev, eolTok :: rest,
          by simp [pure_apply, currentPos_of_PZ hpz, commentToks], hpz, Or.inr ⟨rfl, by simp, by simp⟩⟩

/-- kinds of the token after the tags and qualifiers of a header -/
def EndTy (ty : TokenType) : Prop := ty = .lbrace ∨ ty = .description ∨ ty = .comment ∨ ty = .eol

theorem hdrEnd_head (cls : Cls) (h : BlockHeader) (hwf : HeaderWF cls h) (rest : List Token) :
    ∃ ty, headTy (hdrEndToks h ++ (commentToks h.src.comment ++ eolTok :: rest)) = some ty ∧ EndTy ty := by
  unfold hdrEndToks
  cases ho : h.isOpen with
  | true => exact ⟨.lbrace, rfl, Or.inl rfl⟩
  | false =>
    simp only [Bool.false_eq_true, if_false, List.nil_append]
    cases hd : h.description with
    | some d =>
      obtain ⟨_, _, tok, h1, h2, _, _⟩ := hwf.2.2.2.2 d hd
      simp only [h1, List.map_cons, List.map_nil, List.cons_append]
      exact ⟨.description, by simp [Token.erase, h2], Or.inr (Or.inl rfl)⟩
    | none =>
      simp only [List.nil_append]
      cases h.src.comment with
      | none => exact ⟨.eol, rfl, Or.inr (Or.inr (Or.inr rfl))⟩
      | some c => exact ⟨.comment, rfl, Or.inr (Or.inr (Or.inl rfl))⟩

theorem quals_head (qs : List TagValue) (E : List Token) (ty : TokenType) (hE : headTy E = some ty) :
    headTy (qualsToks qs ++ E) = some ty ∨ headTy (qualsToks qs ++ E) = some .colon := by
  cases qs with
  | nil => left; simpa [qualsToks] using hE
  | cons q qs => right; simp [qualsToks, colonTok]

theorem nextType_ne_of_headTy {prev : Option Token} {ts : List Token} {ty : TokenType}
    (h : headTy ts ≠ some ty) (hne : ty ≠ .eof) : (⟨prev, ts⟩ : W).nextType ≠ ty := by
  cases ts with
  | nil => intro e; exact hne (by simpa [W.nextType] using e.symm)
  | cons x xs =>
    intro e
    apply h
    simpa [W.nextType] using e

/-- `walkStatement` reads the canonical tokens of a header line -/
theorem walkStatement_header (cls : Cls) (fuel : Nat) (h : BlockHeader) (hwf : HeaderWF cls h)
    (prev : Option Token) (rest : List Token) (hf1 : h.tags.length < fuel)
    (hf2 : h.qualifiers.length < fuel) :
    ∃ prev' rest', walkStatement fuel
        ⟨prev, canonParts (headerTokens h) ++ (commentToks h.src.comment ++ eolTok :: rest)⟩ =
      .ok (.header h.erase) ⟨prev', rest'⟩ ∧ PZ prev' ∧ ((rest' = rest ∧ prev' = some eolTok) ∨
        (rest' = eolTok :: rest ∧ h.isOpen = false ∧ h.src.comment = none)) := by
  rw [canonParts_headerTokens cls h hwf, walkStatement_split]
  simp only [List.append_assoc]
  obtain ⟨ety, hE, hEty⟩ := hdrEnd_head cls h hwf rest
  generalize hEdef : hdrEndToks h ++ (commentToks h.src.comment ++ eolTok :: rest) = E at hE
  -- the token after the qualifiers
  have hQ : ∀ ty, ty ≠ .colon → ¬ EndTy ty → headTy (qualsToks h.qualifiers ++ E) ≠ some ty := by
    intro ty h1 h2 e
    rcases quals_head h.qualifiers E ety hE with q | q
    · rw [q] at e; cases e; exact h2 hEty
    · rw [q] at e; cases e; exact h1 rfl
  have hQtag : ∀ ty, headTy (qualsToks h.qualifiers ++ E) = some ty → ty.canStartTag = false := by
    intro ty e
    rcases quals_head h.qualifiers E ety hE with q | q
    · rw [q] at e; cases e
      rcases hEty with r | r | r | r <;> rw [r] <;> rfl
    · rw [q] at e; cases e; rfl
  have hT : ∀ ty, ty.canStartTag = false → ty ≠ .colon → ¬ EndTy ty →
      headTy (h.tags.flatMap tagToks ++ (qualsToks h.qualifiers ++ E)) ≠ some ty := by
    intro ty h0 h1 h2
    exact tagsToks_head_ne cls h.tags hwf.2.1 _ ty h0 (hQ ty h1 h2)
  have hnE : ∀ ty, ty = .dot ∨ ty = .assign ∨ ty = .plus → ¬ EndTy ty := by
    intro ty h1 h2
    rcases h1 with r | r | r <;> subst r <;> rcases h2 with q | q | q | q <;> cases q
  obtain ⟨p, hp, hpe⟩ := popReference_canon cls h.type hwf.1 prev
    (h.tags.flatMap tagToks ++ (qualsToks h.qualifiers ++ E))
    (hT .dot rfl (by decide) (hnE _ (Or.inl rfl)))
  rw [bind_eq_of_ok hp, getW_bind']
  rw [if_neg (nextType_ne_of_headTy (hT .assign rfl (by decide) (hnE _ (Or.inr (Or.inl rfl)))) (by decide)),
    if_neg (nextType_ne_of_headTy (hT .plus rfl (by decide) (hnE _ (Or.inr (Or.inr rfl)))) (by decide))]
  obtain ⟨p1, hp1, hpz1⟩ := tagsLoop_canon cls fuel (by omega) h.tags fuel [] (some p)
    (qualsToks h.qualifiers ++ E) hwf.2.1 hf1 (PZ_some hpe) hQtag (hQ .dot (by decide) (hnE _ (Or.inl rfl)))
  rw [bind_eq_of_ok hp1]
  obtain ⟨p2, hp2, hpz2⟩ := qualsLoop_canon cls fuel (by omega) h.qualifiers fuel [] p1 E hwf.2.2.1 hf2
    hpz1 (by rw [hE]; intro e; cases e; rcases hEty with q | q | q | q <;> cases q)
    (by rw [hE]; intro e; cases e; rcases hEty with q | q | q | q <;> cases q)
  rw [bind_eq_of_ok hp2]
  subst hEdef
  obtain ⟨prev', rest', h3, hpz3, hr⟩ := hdrFinish_canon cls h hwf h.type.erase
    ([] ++ h.tags.map TagValue.erase) ([] ++ h.qualifiers.map TagValue.erase) p2 hpz2 rest
  refine ⟨prev', rest', ?_, hpz3, hr⟩
  rw [h3]
  simp [BlockHeader.erase, SourceNode.erase, Reference.erase, Span.zero]

def assignTok : Token := ⟨.assign, [61], ⟨0, 0⟩, ⟨0, 0⟩⟩
def plusTok : Token := ⟨.plus, [43], ⟨0, 0⟩, ⟨0, 0⟩⟩

theorem VOK_of_TopValueWF {cls : Cls} {v : Value} {cm : Option CommentNode}
    (h : TopValueWF cls v cm) : VOK cls v := by
  cases v with
  | scalar t sp => exact h.1
  | array vs sp => exact h

theorem canonParts_assignTokens (cls : Cls) (a : Assignment) (hwf : AssignWF cls a) :
    canonParts (assignTokens a) = canonParts (referenceTokens a.key) ++
      ((if a.append then [plusTok, assignTok] else [assignTok]) ++ valToks a.value) := by
  unfold assignTokens
  rw [canonParts_append, canonParts_append, List.append_assoc,
    canonParts_valueTokens cls a.value (VOK_of_TopValueWF hwf.2.1)]
  congr 2
  cases a.append with
  | true =>
    simp only [if_true]
    rw [cparts_cons_space, cparts_cons _ _ (by simp [newToken]), cparts_cons _ _ (by simp [newToken]),
      cparts_cons_space, canonParts_nil, canonTok_newToken _ _ (by decide) (by decide),
      canonTok_newToken _ _ (by decide) (by decide)]
    rfl
  | false =>
    simp only [Bool.false_eq_true, if_false]
    rw [cparts_cons_space, cparts_cons _ _ (by simp [newToken]),
      cparts_cons_space, canonParts_nil, canonTok_newToken _ _ (by decide) (by decide)]
    rfl

theorem walkValueAssign_canon (cls : Cls) (fuel : Nat) (ref : Reference) (app : Bool) (v : Value)
    (hv : VOK cls v) (cm : Option CommentNode) (prev : Option Token) (rest : List Token)
    (hf : 2 * (valToks v).length ≤ fuel) :
    walkValueAssign fuel ref app
        ⟨prev, assignTok :: (valToks v ++ (commentToks cm ++ eolTok :: rest))⟩ =
      .ok ⟨ref, v.erase, app, ⟨ref.span.start, ⟨0, 0⟩, cm.map CommentNode.erase⟩⟩
        ⟨some eolTok, rest⟩ := by
  unfold walkValueAssign
  have hpt : popType .assign ⟨prev, assignTok :: (valToks v ++ (commentToks cm ++ eolTok :: rest))⟩ =
      .ok assignTok ⟨some assignTok, valToks v ++ (commentToks cm ++ eolTok :: rest)⟩ := by
    unfold popType
    rw [bind_eq_of_ok (popToken_cons' _ _ _)]
    rw [if_neg (by simp [assignTok])]
    rfl
  rw [bind_eq_of_ok hpt]
  obtain ⟨p, hp, hpe⟩ := popValue_canon cls fuel v (some assignTok)
    (commentToks cm ++ eolTok :: rest) hv hf
  rw [bind_eq_of_ok hp, bind_eq_of_ok (endStatement_canon cm _ rest)]
  simp [pure_apply, Value.erase_span, Span.zero]

/-- `walkStatement` reads the canonical tokens of an assignment line -/
theorem walkStatement_assign (cls : Cls) (fuel : Nat) (a : Assignment) (hwf : AssignWF cls a)
    (prev : Option Token) (rest : List Token) (hf : 2 * (valToks a.value).length ≤ fuel) :
    walkStatement fuel
        ⟨prev, canonParts (assignTokens a) ++ (commentToks a.src.comment ++ eolTok :: rest)⟩ =
      .ok (.assign a.erase) ⟨some eolTok, rest⟩ := by
  rw [canonParts_assignTokens cls a hwf, walkStatement_split]
  simp only [List.append_assoc]
  have hv := VOK_of_TopValueWF hwf.2.1
  cases happ : a.append with
  | false =>
    simp only [Bool.false_eq_true, if_false, List.cons_append, List.nil_append]
    obtain ⟨p, hp, hpe⟩ := popReference_canon cls a.key hwf.1 prev
      (assignTok :: (valToks a.value ++ (commentToks a.src.comment ++ eolTok :: rest)))
      (by simp [assignTok])
    rw [bind_eq_of_ok hp, getW_bind']
    have hnt : (⟨some p, assignTok :: (valToks a.value ++ (commentToks a.src.comment ++ eolTok :: rest))⟩ : W).nextType
        = .assign := rfl
    rw [if_pos hnt, bind_eq_of_ok (walkValueAssign_canon cls fuel _ false a.value hv _ _ rest hf)]
    simp [pure_apply, Assignment.erase, SourceNode.erase, Reference.erase, Span.zero, happ]
  | true =>
    simp only [if_true, List.cons_append, List.nil_append]
    obtain ⟨p, hp, hpe⟩ := popReference_canon cls a.key hwf.1 prev
      (plusTok :: assignTok :: (valToks a.value ++ (commentToks a.src.comment ++ eolTok :: rest)))
      (by simp [plusTok])
    rw [bind_eq_of_ok hp, getW_bind']
    have hnt1 : ¬ ((⟨some p, plusTok :: assignTok :: (valToks a.value ++ (commentToks a.src.comment ++ eolTok :: rest))⟩ : W).nextType
        = .assign) := by simp [W.nextType, plusTok]
    have hnt2 : (⟨some p, plusTok :: assignTok :: (valToks a.value ++ (commentToks a.src.comment ++ eolTok :: rest))⟩ : W).nextType
        = .plus := rfl
    rw [if_neg hnt1, if_pos hnt2, bind_eq_of_ok (popToken_cons' _ _ _), getW_bind']
    have hnt3 : ¬ ((⟨some plusTok, assignTok :: (valToks a.value ++ (commentToks a.src.comment ++ eolTok :: rest))⟩ : W).nextType
        ≠ .assign) := by simp [W.nextType, assignTok]
    rw [if_neg hnt3, bind_eq_of_ok (walkValueAssign_canon cls fuel _ true a.value hv _ _ rest hf)]
    simp [pure_apply, Assignment.erase, SourceNode.erase, Reference.erase, Span.zero, happ]

/-! ## fragments -/

theorem nextFragment_eol (fuel : Nat) (prev : Option Token) (rest : List Token) :
    nextFragment fuel ⟨prev, eolTok :: rest⟩ = .ok none ⟨some eolTok, rest⟩ := by
  unfold nextFragment
  rw [getW_bind']
  have hnt : (⟨prev, eolTok :: rest⟩ : W).nextType = .eol := rfl
  rw [hnt]
  simp only []
  rw [bind_eq_of_ok (popToken_cons' _ _ _)]
  rfl

/-- `nextFragment` on a statement line -/
theorem nextFragment_stmt (fuel : Nat) (prev : Option Token) (t : Token) (ts : List Token)
    (h : t.ty = .ident ∨ t.ty = .bool) :
    nextFragment fuel ⟨prev, t :: ts⟩ =
      (walkStatement fuel >>= fun f => pure (some f)) ⟨prev, t :: ts⟩ := by
  unfold nextFragment
  rw [getW_bind']
  have hnt : (⟨prev, t :: ts⟩ : W).nextType = t.ty := rfl
  rw [hnt]
  rcases h with h | h <;> rw [h]

/-- the lines after the first one of a description: `EOL DESCRIPTION` pairs -/
def descRestToks (ls : List (List Rune)) : List Token := ls.flatMap fun l => [eolTok, descTok l]

theorem descLineToks_cons (l : List Rune) (ls : List (List Rune)) :
    descLineToks (l :: ls) = descTok l :: (descRestToks ls ++ [eolTok]) := by
  induction ls generalizing l with
  | nil => rfl
  | cons l' ls ih =>
    have := ih l'
    simp only [descLineToks, List.flatMap_cons, List.cons_append, List.nil_append, descRestToks] at this ⊢
    rw [this]

theorem popDescLoop_canon : ∀ (ls : List (List Rune)) (toks : List Token) (last : Token)
    (rest : List Token), headTy rest ≠ some .description →
    popDescLoop toks last (descRestToks ls ++ eolTok :: rest) =
      (toks ++ ls.map descTok, ((last :: ls.map descTok).getLast (by simp)),
        ⟨some ((last :: ls.map descTok).getLast (by simp)), eolTok :: rest⟩) := by
  intro ls
  induction ls with
  | nil =>
    intro toks last rest hrest
    simp only [descRestToks, List.flatMap_nil, List.nil_append, List.map_nil, List.append_nil,
      List.getLast_singleton]
    cases rest with
    | nil => rfl
    | cons d rs =>
      unfold popDescLoop
      have : ¬ (eolTok.ty = .eol ∧ d.ty = .description) := by
        intro ⟨_, h⟩; apply hrest; simp [h]
      rw [if_neg this]
  | cons l ls ih =>
    intro toks last rest hrest
    have e : descRestToks (l :: ls) ++ eolTok :: rest =
        eolTok :: descTok l :: (descRestToks ls ++ eolTok :: rest) := by
      simp [descRestToks]
    rw [e]
    unfold popDescLoop
    rw [if_pos ⟨rfl, rfl⟩, ih (toks ++ [descTok l]) (descTok l) rest hrest]
    simp [List.getLast_cons]

theorem descToks_getLast_end (last : Token) (ls : List (List Rune)) (h : last.end_ = ⟨0, 0⟩) :
    ((last :: ls.map descTok).getLast (by simp)).end_ = ⟨0, 0⟩ := by
  induction ls generalizing last with
  | nil => simpa using h
  | cons l ls ih =>
    simp only [List.map_cons]
    rw [List.getLast_cons (by simp)]
    exact ih (descTok l) rfl

/-- `nextFragment` reads the canonical tokens of a re-flowed description -/
theorem nextFragment_descToks (fuel : Nat) (l : List Rune) (ls : List (List Rune)) (prev : Option Token)
    (rest : List Token) (hrest : headTy rest ≠ some .description) :
    ∃ p, nextFragment fuel ⟨prev, descLineToks (l :: ls) ++ rest⟩ =
      .ok (some (.desc ⟨(l :: ls).map descTok, joinWith [cNL] (l :: ls), Span.zero⟩))
        ⟨some p, eolTok :: rest⟩ ∧ p.end_ = ⟨0, 0⟩ := by
  refine ⟨(descTok l :: ls.map descTok).getLast (by simp), ?_, descToks_getLast_end _ _ rfl⟩
  rw [descLineToks_cons]
  simp only [List.cons_append, List.append_assoc, List.nil_append]
  unfold nextFragment
  rw [getW_bind']
  have hnt : (⟨prev, descTok l :: (descRestToks ls ++ eolTok :: rest)⟩ : W).nextType = .description := rfl
  rw [hnt]
  simp only []
  have hd : popDescription ⟨prev, descTok l :: (descRestToks ls ++ eolTok :: rest)⟩ =
      .ok ⟨(l :: ls).map descTok, joinWith [cNL] (l :: ls), Span.zero⟩
        ⟨some ((descTok l :: ls.map descTok).getLast (by simp)), eolTok :: rest⟩ := by
    unfold popDescription
    show WM.bind popToken _ _ = _
    unfold WM.bind
    rw [popToken_cons']
    simp only []
    rw [popDescLoop_canon ls [descTok l] (descTok l) rest hrest]
    simp only [mkDescription]
    have h1 : ([descTok l] ++ ls.map descTok).map (·.lit) = l :: ls := by
      simp [descTok, Function.comp_def]
    have h2 := descToks_getLast_end (descTok l) ls rfl
    rw [h1, h2]
    rfl
  rw [bind_eq_of_ok hd]
  rfl

theorem length_le_flatMap {α β : Type} (f : α → List β) (l : List α) (h : ∀ x ∈ l, f x ≠ []) :
    l.length ≤ (l.flatMap f).length := by
  induction l with
  | nil => simp
  | cons x xs ih =>
    have hx : 1 ≤ (f x).length := by
      have := h x (by simp)
      cases hfx : f x with
      | nil => exact absurd hfx this
      | cons a as => simp
    have := ih (fun y hy => h y (by simp [hy]))
    simp only [List.flatMap_cons, List.length_append, List.length_cons]
    omega

theorem tagToks_ne_nil (cls : Cls) (t : TagValue) (h : TagWF cls t) : tagToks t ≠ [] := by
  obtain ⟨x, xs, e, _⟩ := tagToks_head cls t h
  rw [e]; simp

theorem lineToks_append (parts : List Token) (cm : Option CommentNode) (rest : List Token) :
    lineToks parts cm ++ rest = canonParts parts ++ (commentToks cm ++ eolTok :: rest) := by
  simp [lineToks]

/-- the fragment's own EOL is left for the loop: not an assignment, not an open header, no trailing
comment -/
def NoEnd (f : Fragment) : Prop :=
  (∀ a, f ≠ .assign a) ∧ ∀ h, f = .header h → h.isOpen = false ∧ h.src.comment = none

theorem NoEnd.close (c : CloseBlock) : NoEnd (.close c) :=
  ⟨(fun a ha => by cases ha), (fun h hh => by cases hh)⟩
theorem NoEnd.comment (c : Comment) : NoEnd (.comment c) :=
  ⟨(fun a ha => by cases ha), (fun h hh => by cases hh)⟩
theorem NoEnd.desc (d : Description) : NoEnd (.desc d) :=
  ⟨(fun a ha => by cases ha), (fun h hh => by cases hh)⟩
theorem NoEnd.header {h : BlockHeader} (h1 : h.isOpen = false) (h2 : h.src.comment = none) :
    NoEnd (.header h) :=
  ⟨(fun a ha => by cases ha), (fun h' hh => by cases hh; exact ⟨h1, h2⟩)⟩

/-- `nextFragment` reads the canonical tokens of a well-formed fragment back to the normalised fragment;
the fragment's final EOL is consumed or is the next token -/
theorem nextFragment_frag (cls : Cls) (pfuel : Nat) (indent : Nat) (f : Fragment) (hwf : FragWF cls f)
    (prev : Option Token) (hpz : PZ prev) (rest : List Token)
    (hdesc : ∀ d, f = .desc d → headTy rest ≠ some .description)
    (hfuel : 2 * (fragToks cls indent f).length ≤ pfuel) :
    ∃ prev' rest', nextFragment pfuel ⟨prev, fragToks cls indent f ++ rest⟩ =
        .ok (some (normFrag cls indent f)) ⟨prev', rest'⟩ ∧ PZ prev' ∧
      ((rest' = rest ∧ prev' = some eolTok) ∨ (rest' = eolTok :: rest ∧ NoEnd f)) := by
  cases f with
  | header h =>
    have hwf' : HeaderWF cls h := hwf
    simp only [fragToks] at hfuel ⊢
    rw [lineToks_append]
    have hlen : (lineToks (headerTokens h) h.src.comment).length =
        (canonParts (referenceTokens h.type)).length + ((h.tags.flatMap tagToks).length +
          ((qualsToks h.qualifiers).length + (hdrEndToks h).length)) +
          (commentToks h.src.comment).length + 1 := by
      simp only [lineToks, canonParts_headerTokens cls h hwf', List.length_append, List.length_cons,
        List.length_nil]
    have h1 := length_le_flatMap tagToks h.tags (fun t ht => tagToks_ne_nil cls t (hwf'.2.1 t ht))
    have h2 : h.qualifiers.length ≤ (qualsToks h.qualifiers).length :=
      length_le_flatMap _ h.qualifiers (fun t _ => by simp)
    obtain ⟨t, ts, e, hty⟩ := referenceToks_head cls h.type hwf'.1
    have e' : canonParts (headerTokens h) = t :: (ts ++ (h.tags.flatMap tagToks ++
        (qualsToks h.qualifiers ++ hdrEndToks h))) := by
      rw [canonParts_headerTokens cls h hwf', e]; rfl
    obtain ⟨prev', rest', hw, hpz', hr⟩ := walkStatement_header cls pfuel h hwf' prev rest
      (by omega) (by omega)
    have hr' : (rest' = rest ∧ prev' = some eolTok) ∨ (rest' = eolTok :: rest ∧ NoEnd (.header h)) := by
      rcases hr with hr | ⟨hr1, hr2, hr3⟩
      · exact Or.inl hr
      · exact Or.inr ⟨hr1, NoEnd.header hr2 hr3⟩
    refine ⟨prev', rest', ?_, hpz', hr'⟩
    have hn := nextFragment_stmt pfuel prev t (ts ++ (h.tags.flatMap tagToks ++
        (qualsToks h.qualifiers ++ hdrEndToks h)) ++ (commentToks h.src.comment ++ eolTok :: rest)) hty
    rw [e'] at hw ⊢
    simp only [List.cons_append] at hw hn ⊢
    rw [hn, bind_eq_of_ok hw]
    rfl
  | assign a =>
    have hwf' : AssignWF cls a := hwf
    simp only [fragToks] at hfuel ⊢
    rw [lineToks_append]
    have hlen : (valToks a.value).length ≤ (lineToks (assignTokens a) a.src.comment).length := by
      simp only [lineToks, canonParts_assignTokens cls a hwf', List.length_append]
      omega
    obtain ⟨t, ts, e, hty⟩ := referenceToks_head cls a.key hwf'.1
    have e' : canonParts (assignTokens a) = t :: (ts ++
        ((if a.append then [plusTok, assignTok] else [assignTok]) ++ valToks a.value)) := by
      rw [canonParts_assignTokens cls a hwf', e]; rfl
    have hw := walkStatement_assign cls pfuel a hwf' prev rest (by omega)
    refine ⟨some eolTok, rest, ?_, PZ_some rfl, Or.inl ⟨rfl, rfl⟩⟩
    have hn := nextFragment_stmt pfuel prev t (ts ++
        ((if a.append then [plusTok, assignTok] else [assignTok]) ++ valToks a.value) ++
        (commentToks a.src.comment ++ eolTok :: rest)) hty
    rw [e'] at hw ⊢
    simp only [List.cons_append] at hw hn ⊢
    rw [hn, bind_eq_of_ok hw]
    rfl
  | close c =>
    have hwf' : CloseWF cls c := hwf
    refine ⟨some c.token.erase, eolTok :: rest, ?_, PZ_some rfl, Or.inr ⟨rfl, NoEnd.close c⟩⟩
    have e : fragToks cls indent (.close c) ++ rest = c.token.erase :: eolTok :: rest := by
      simp only [fragToks, lineToks]
      rw [cparts_cons _ _ (by rw [hwf'.1]; decide), canonParts_nil,
        canonTok_ty_ne (by rw [hwf'.1]; decide) (by rw [hwf'.1]; decide)]
      rfl
    rw [e]
    unfold nextFragment
    rw [getW_bind']
    have hnt : (⟨prev, c.token.erase :: eolTok :: rest⟩ : W).nextType = .rbrace := by
      simp [W.nextType, Token.erase, hwf'.1]
    rw [hnt]
    simp only []
    rw [bind_eq_of_ok (popToken_cons' _ _ _)]
    rfl
  | comment c =>
    have hwf' : CommentWF cls c := hwf
    have hns : c.token.ty ≠ .space := by rcases hwf'.1 with h | h <;> rw [h] <;> decide
    have hni : c.token.ty ≠ .ident := by rcases hwf'.1 with h | h <;> rw [h] <;> decide
    have hnb : c.token.ty ≠ .bool := by rcases hwf'.1 with h | h <;> rw [h] <;> decide
    refine ⟨some c.token.erase, eolTok :: rest, ?_, PZ_some rfl, Or.inr ⟨rfl, NoEnd.comment c⟩⟩
    have e : fragToks cls indent (.comment c) ++ rest = c.token.erase :: eolTok :: rest := by
      simp only [fragToks, lineToks]
      rw [cparts_cons _ _ hns, canonParts_nil, canonTok_ty_ne hni hnb]
      rfl
    rw [e]
    unfold nextFragment
    rw [getW_bind']
    have hnt : (⟨prev, c.token.erase :: eolTok :: rest⟩ : W).nextType = c.token.ty := by
      simp [W.nextType, Token.erase]
    rw [hnt]
    have hres : (Fragment.comment ⟨c.token.erase, c.token.erase.lit,
        ⟨c.token.erase.start, c.token.erase.end_⟩⟩) = normFrag cls indent (.comment c) := by
      simp [normFrag, Fragment.erase, Comment.erase, hwf'.2.2, Token.erase, Span.zero]
    rcases hwf'.1 with h | h
    · rw [h]
      simp only []
      rw [bind_eq_of_ok (popToken_cons' _ _ _), pure_apply, hres]
    · rw [h]
      simp only []
      rw [bind_eq_of_ok (popToken_cons' _ _ _), pure_apply, hres]
  | desc d =>
    simp only [fragToks, normFrag]
    have hne : descLines cls indent d ≠ [] := by
      unfold descLines
      simp only []
      split
      · simp
      · assumption
    cases hl : descLines cls indent d with
    | nil => exact absurd hl hne
    | cons l ls =>
      obtain ⟨p, hp, hpe⟩ := nextFragment_descToks pfuel l ls prev rest (hdesc d rfl)
      exact ⟨some p, eolTok :: rest, hp, PZ_some hpe, Or.inr ⟨rfl, NoEnd.desc d⟩⟩

/-! ## the fragment loop over a whole file -/

theorem loop_ok_some {ff : Bool} {pf fuel : Nat} {w w1 : W} {frags : List Fragment} {errs : List Diag}
    {f : Fragment} (hne : w.nextType ≠ .eof) (h : nextFragment pf w = .ok (some f) w1) :
    walkFragmentsLoop ff pf (fuel + 1) w frags errs =
      walkFragmentsLoop ff pf fuel w1 (frags ++ [f]) errs := by
  conv => lhs; unfold walkFragmentsLoop
  rw [if_neg hne, h]

theorem loop_ok_none {ff : Bool} {pf fuel : Nat} {w w1 : W} {frags : List Fragment} {errs : List Diag}
    (hne : w.nextType ≠ .eof) (h : nextFragment pf w = .ok none w1) :
    walkFragmentsLoop ff pf (fuel + 1) w frags errs = walkFragmentsLoop ff pf fuel w1 frags errs := by
  conv => lhs; unfold walkFragmentsLoop
  rw [if_neg hne, h]

theorem loop_eof {ff : Bool} {pf fuel : Nat} {w : W} {frags : List Fragment} {errs : List Diag}
    (h : w.nextType = .eof) : walkFragmentsLoop ff pf (fuel + 1) w frags errs = .done frags errs := by
  unfold walkFragmentsLoop
  rw [if_pos h]

theorem nextFragment_some_ne_eof {pf : Nat} {w w1 : W} {f : Fragment}
    (h : nextFragment pf w = .ok (some f) w1) : w.nextType ≠ .eof := by
  intro e
  unfold nextFragment at h
  rw [getW_bind', e] at h
  simp only [] at h
  cases hp : popToken w with
  | ok a w2 => rw [bind_eq_of_ok hp] at h; cases h
  | fail e2 w2 =>
    have : (popToken >>= fun _ => (pure none : WM (Option Fragment))) w = .fail e2 w2 := by
      show WM.bind popToken _ w = _
      unfold WM.bind; rw [hp]
    rw [this] at h; cases h
  | panic s2 =>
    have : (popToken >>= fun _ => (pure none : WM (Option Fragment))) w = .panic s2 := by
      show WM.bind popToken _ w = _
      unfold WM.bind; rw [hp]
    rw [this] at h; cases h

/-- the first canonical token of a fragment; it is a DESCRIPTION token only for a description -/
theorem fragToks_head (cls : Cls) (indent : Nat) (f : Fragment) (hwf : FragWF cls f) :
    ∃ x xs, fragToks cls indent f = x :: xs ∧ xs ≠ [] ∧ ((∃ d, f = .desc d) ∨ x.ty ≠ .description) := by
  cases f with
  | header h =>
    have hwf' : HeaderWF cls h := hwf
    obtain ⟨t, ts, e, hty⟩ := referenceToks_head cls h.type hwf'.1
    refine ⟨t, ts ++ (h.tags.flatMap tagToks ++ (qualsToks h.qualifiers ++ hdrEndToks h)) ++
      (commentToks h.src.comment ++ [eolTok]), ?_, by simp, Or.inr ?_⟩
    · simp only [fragToks, lineToks, canonParts_headerTokens cls h hwf', e]
      simp
    · rcases hty with q | q <;> rw [q] <;> decide
  | assign a =>
    have hwf' : AssignWF cls a := hwf
    obtain ⟨t, ts, e, hty⟩ := referenceToks_head cls a.key hwf'.1
    refine ⟨t, ts ++ ((if a.append then [plusTok, assignTok] else [assignTok]) ++ valToks a.value) ++
      (commentToks a.src.comment ++ [eolTok]), ?_, by simp, Or.inr ?_⟩
    · simp only [fragToks, lineToks, canonParts_assignTokens cls a hwf', e]
      simp
    · rcases hty with q | q <;> rw [q] <;> decide
  | close c =>
    have hwf' : CloseWF cls c := hwf
    refine ⟨c.token.erase, [eolTok], ?_, by simp, Or.inr (by simp [Token.erase, hwf'.1])⟩
    simp only [fragToks, lineToks]
    rw [cparts_cons _ _ (by rw [hwf'.1]; decide), canonParts_nil,
      canonTok_ty_ne (by rw [hwf'.1]; decide) (by rw [hwf'.1]; decide)]
    rfl
  | comment c =>
    have hwf' : CommentWF cls c := hwf
    have hns : c.token.ty ≠ .space := by rcases hwf'.1 with h | h <;> rw [h] <;> decide
    have hni : c.token.ty ≠ .ident := by rcases hwf'.1 with h | h <;> rw [h] <;> decide
    have hnb : c.token.ty ≠ .bool := by rcases hwf'.1 with h | h <;> rw [h] <;> decide
    refine ⟨c.token.erase, [eolTok], ?_, by simp, Or.inr ?_⟩
    · simp only [fragToks, lineToks]
      rw [cparts_cons _ _ hns, canonParts_nil, canonTok_ty_ne hni hnb]
      rfl
    · rcases hwf'.1 with h | h <;> simp [Token.erase, h]
  | desc d =>
    have hne : descLines cls indent d ≠ [] := by
      unfold descLines
      simp only []
      split
      · simp
      · assumption
    cases hl : descLines cls indent d with
    | nil => exact absurd hl hne
    | cons l ls =>
      refine ⟨descTok l, descRestToks ls ++ [eolTok], ?_, by simp, Or.inl ⟨d, rfl⟩⟩
      simp only [fragToks, hl, descLineToks_cons]

theorem fileToks_cons (cls : Cls) (indent : Nat) (lastEnd : Option Nat) (f : Fragment)
    (fs : List Fragment) :
    fileToks cls indent lastEnd (f :: fs) =
      (if gapBefore lastEnd (fmtFragment cls indent f).1.fromLine then [eolTok] else []) ++
        (fragToks cls indent f ++ fileToks cls (fmtFragment cls indent f).2
          (some (fmtFragment cls indent f).1.toLine) fs) := by
  simp [fileToks]

/-- after a description, the next canonical token of the file is not a DESCRIPTION token -/
theorem fileToks_after_desc (cls : Cls) (indent : Nat) (d : Description) (fs : List Fragment)
    (hwf : ∀ f ∈ fs, FragWF cls f) (hg : DescGaps (.desc d :: fs)) :
    headTy (fileToks cls (fmtFragment cls indent (.desc d)).2
      (some (fmtFragment cls indent (.desc d)).1.toLine) fs) ≠ some .description := by
  cases fs with
  | nil => simp [fileToks]
  | cons g gs =>
    rw [fileToks_cons]
    obtain ⟨x, xs, e, _, hx⟩ := fragToks_head cls (fmtFragment cls indent (.desc d)).2 g (hwf g (by simp))
    rcases hx with ⟨e', rfl⟩ | hx
    · have hgap := hg.1 d e' rfl rfl
      have : gapBefore (some (fmtFragment cls indent (.desc d)).1.toLine)
          (fmtFragment cls (fmtFragment cls indent (.desc d)).2 (.desc e')).1.fromLine = true := by
        simp only [fmtFragment, multiLineFrag, gapBefore]
        simpa using hgap
      rw [this]
      simp [eolTok]
    · cases hgp : gapBefore (some (fmtFragment cls indent (.desc d)).1.toLine)
          (fmtFragment cls (fmtFragment cls indent (.desc d)).2 g).1.fromLine with
      | true => simp [eolTok]
      | false =>
        simp only [Bool.false_eq_true, if_false, List.nil_append]
        rw [e]
        simpa using hx

theorem loop_fileToks (cls : Cls) (pf : Nat) : ∀ (frags : List Fragment) (indent : Nat)
    (lastEnd : Option Nat) (prev : Option Token) (acc : List Fragment) (fuel : Nat),
    (∀ f ∈ frags, FragWF cls f) → DescGaps frags → PZ prev →
    2 * (fileToks cls indent lastEnd frags).length ≤ pf →
    (fileToks cls indent lastEnd frags).length < fuel →
    walkFragmentsLoop true pf fuel ⟨prev, fileToks cls indent lastEnd frags⟩ acc [] =
      .done (acc ++ normFrags cls indent frags) [] := by
  intro frags
  induction frags with
  | nil =>
    intro indent lastEnd prev acc fuel _ _ _ _ hf
    obtain ⟨f', rfl⟩ : ∃ f', fuel = f' + 1 := ⟨fuel - 1, by omega⟩
    rw [loop_eof (by simp [fileToks, W.nextType])]
    simp [normFrags]
  | cons f fs ih =>
    intro indent lastEnd prev acc fuel hwf hg hpz hpf hf
    have hwf_f := hwf f (by simp)
    have hwf_fs : ∀ g ∈ fs, FragWF cls g := fun g hg' => hwf g (by simp [hg'])
    have hg_fs : DescGaps fs := by
      cases fs with
      | nil => trivial
      | cons g gs => exact hg.2
    rw [fileToks_cons] at hpf hf ⊢
    generalize hR : fileToks cls (fmtFragment cls indent f).2
      (some (fmtFragment cls indent f).1.toLine) fs = R at hpf hf ⊢
    obtain ⟨x, xs, ex, hxs, _⟩ := fragToks_head cls indent f hwf_f
    have hT2 : 2 ≤ (fragToks cls indent f).length := by
      rw [ex]
      cases xs with
      | nil => exact absurd rfl hxs
      | cons y ys => simp
    have hdesc : ∀ d, f = .desc d → headTy R ≠ some .description := by
      intro d hd
      subst hd
      rw [← hR]
      exact fileToks_after_desc cls indent d fs hwf_fs hg
    -- the common part: from the state in front of the fragment's tokens
    have main : ∀ (prev1 : Option Token) (fuel1 : Nat), PZ prev1 →
        (fragToks cls indent f).length + R.length < fuel1 →
        walkFragmentsLoop true pf fuel1 ⟨prev1, fragToks cls indent f ++ R⟩ acc [] =
          .done (acc ++ normFrags cls indent (f :: fs)) [] := by
      intro prev1 fuel1 hpz1 hf1
      obtain ⟨prev', rest', hn, hpz', hr⟩ := nextFragment_frag cls pf indent f hwf_f prev1 hpz1 R hdesc
        (by simp only [List.length_append] at hpf; omega)
      obtain ⟨f1, rfl⟩ : ∃ f1, fuel1 = f1 + 1 := ⟨fuel1 - 1, by omega⟩
      rw [loop_ok_some (nextFragment_some_ne_eof hn) hn]
      have hRlen : 2 * R.length ≤ pf := by simp only [List.length_append] at hpf; omega
      rcases hr with ⟨rfl, _⟩ | ⟨rfl, _⟩
      · rw [← hR]
        rw [ih _ _ prev' (acc ++ [normFrag cls indent f]) f1 hwf_fs hg_fs hpz'
          (by rw [hR]; exact hRlen) (by rw [hR]; omega)]
        simp [normFrags]
      · obtain ⟨f2, rfl⟩ : ∃ f2, f1 = f2 + 1 := ⟨f1 - 1, by omega⟩
        rw [loop_ok_none (by simp [W.nextType, eolTok]) (nextFragment_eol pf prev' R)]
        rw [← hR]
        rw [ih _ _ (some eolTok) (acc ++ [normFrag cls indent f]) f2 hwf_fs hg_fs (PZ_some rfl)
          (by rw [hR]; exact hRlen) (by rw [hR]; omega)]
        simp [normFrags]
    cases hgp : gapBefore lastEnd (fmtFragment cls indent f).1.fromLine with
    | false =>
      rw [hgp] at hf
      simp only [Bool.false_eq_true, if_false, List.nil_append, List.length_append] at hf ⊢
      exact main prev fuel hpz hf
    | true =>
      rw [hgp] at hf
      simp only [if_true, List.cons_append, List.nil_append, List.length_cons, List.length_append] at hf ⊢
      obtain ⟨f1, rfl⟩ : ∃ f1, fuel = f1 + 1 := ⟨fuel - 1, by omega⟩
      rw [loop_ok_none (by simp [W.nextType, eolTok]) (nextFragment_eol pf prev _)]
      exact main (some eolTok) f1 (PZ_some rfl) (by omega)

/-- **the walker reads the canonical tokens of a formatted file back to the normalised fragments** -/
theorem walkFragments_fileToks (cls : Cls) (frags : List Fragment) (hwf : ∀ f ∈ frags, FragWF cls f)
    (hg : DescGaps frags) :
    walkFragments true (fileToks cls 0 none frags) = .done (normFrags cls 0 frags) [] := by
  unfold walkFragments
  have := loop_fileToks cls (2 * (fileToks cls 0 none frags).length + 2) frags 0 none none []
    ((fileToks cls 0 none frags).length + 1) hwf hg PZ_none (by omega) (by omega)
  simpa using this

end J5V.Bcl
