import J5V.Bcl.FmtInv
/-!
# The part lists the formatter prints for a well-formed fragment satisfy `PartsOK`

`headerTokens_partsOK`, `assignTokens_partsOK`, `closeToken_partsOK`, `commentToken_partsOK`:
adjacent rendered tokens of one formatted line do not run into each other.
-/
namespace J5V.Bcl

/-! ## text that starts with a separator -/

/-- the text is empty, or starts with a rune that stops identifiers, numbers and regexes -/
structure Stop (cls : Cls) (s : List Rune) : Prop where
  ident : IdentStop cls s
  number : NumberStop cls s
  regex : s.head? ≠ some cSLASH

theorem identStop_cons (cls : Cls) (hcls : ClsOK cls) (r : Rune) (hr : r ∈ sepRunes)
    (s : List Rune) : IdentStop cls (r :: s) := by
  intro x hx
  simp only [List.head?_cons, Option.some.injEq] at hx
  subst hx
  have h := hcls.sep r hr
  intro hc
  rcases hc with hc | hc | hc
  · rw [h.1] at hc; cases hc
  · rw [h.2] at hc; cases hc
  · subst hc; revert hr; decide

/-- space, newline, `,`, `]`, `:` in front: everything stops -/
theorem stop_cons (cls : Cls) (hcls : ClsOK cls) (r : Rune)
    (hr : r = cSP ∨ r = cNL ∨ r = 44 ∨ r = 93 ∨ r = 58) (s : List Rune) : Stop cls (r :: s) := by
  have hmem : r ∈ sepRunes := by
    rcases hr with h | h | h | h | h <;> subst h <;> decide
  refine ⟨identStop_cons cls hcls r hmem s, ?_, ?_⟩
  · intro x hx
    simp only [List.head?_cons, Option.some.injEq] at hx
    subst hx
    refine ⟨(hcls.sep r hmem).2, ?_⟩
    rcases hr with h | h | h | h | h <;> subst h <;> decide
  · simp only [List.head?_cons, ne_eq, Option.some.injEq]
    rcases hr with h | h | h | h | h <;> subst h <;> decide

/-- what follows the parts of a line: the trailing comment (after a space) or the newline -/
theorem stop_lineTail (cls : Cls) (hcls : ClsOK cls) (cm : Option CommentNode) (tail : List Rune) :
    Stop cls (inlineComment cm ++ cNL :: tail) := by
  cases cm with
  | none => exact stop_cons cls hcls cNL (Or.inr (Or.inl rfl)) tail
  | some c => exact stop_cons cls hcls cSP (Or.inl rfl) _

/-! ## `FollowOK` -/

theorem followOK_identlike (cls : Cls) (t : Token) (h : t.ty = .ident ∨ t.ty = .bool)
    (s : List Rune) (hs : IdentStop cls s) : FollowOK cls (lexTy t) s := by
  unfold lexTy
  rw [if_pos h]
  split <;> exact hs

theorem followOK_of_stop (cls : Cls) (ty : TokenType) (s : List Rune) (hs : Stop cls s)
    (h1 : ty ≠ .comment) (h2 : ty ≠ .description) : FollowOK cls ty s := by
  cases ty <;> first
    | exact hs.ident | exact hs.number | exact hs.regex | exact absurd rfl h1
    | exact absurd rfl h2 | trivial

theorem lexTy_of_not_identlike (t : Token) (h1 : t.ty ≠ .ident) (h2 : t.ty ≠ .bool) :
    lexTy t = t.ty := by
  unfold lexTy
  rw [if_neg (by rintro (h | h) <;> contradiction)]

/-! ## `PartsOK` algebra -/

theorem partsOK_append (cls : Cls) (a b : List Token) (tail : List Rune) :
    PartsOK cls (a ++ b) tail ↔
      PartsOK cls a (b.flatMap tokenSource ++ tail) ∧ PartsOK cls b tail := by
  induction a with
  | nil => simp [PartsOK]
  | cons t a ih =>
    simp only [List.cons_append, PartsOK, ih, List.flatMap_append, List.append_assoc]
    constructor
    · rintro ⟨h1, h2, h3⟩; exact ⟨⟨h1, h2⟩, h3⟩
    · rintro ⟨⟨h1, h2⟩, h3⟩; exact ⟨h1, h2, h3⟩

theorem partsOK_space_cons (cls : Cls) (ps : List Token) (tail : List Rune)
    (h : PartsOK cls ps tail) : PartsOK cls (newToken .space [cSP] :: ps) tail :=
  ⟨Or.inl ⟨rfl, rfl⟩, h⟩

theorem partWF_op (cls : Cls) (ty : TokenType) (r : Rune) (hop : ty.isOperator = true)
    (hr : operatorOf r = some ty) : PartWF cls (newToken ty [r]) := by
  cases ty <;> first
    | exact absurd hop (by decide)
    | exact Or.inr ⟨fun h => TokenType.noConfusion h, fun h => TokenType.noConfusion h, Or.inr rfl, ⟨r, hr, rfl⟩⟩

theorem followOK_op (cls : Cls) (ty : TokenType) (hop : ty.isOperator = true) (s : List Rune) :
    FollowOK cls ty s := by
  cases ty <;> first
    | exact absurd hop (by decide)
    | trivial

/-- an operator token made by the formatter -/
theorem partsOK_op_cons (cls : Cls) (ty : TokenType) (r : Rune) (hop : ty.isOperator = true)
    (hr : operatorOf r = some ty) (ps : List Token) (tail : List Rune) (h : PartsOK cls ps tail) :
    PartsOK cls (newToken ty [r] :: ps) tail := by
  refine ⟨Or.inr ⟨partWF_op cls ty r hop hr, ?_⟩, h⟩
  rw [lexTy_of_not_identlike]
  · exact followOK_op cls ty hop _
  · show ty ≠ .ident
    rintro rfl; exact absurd hop (by decide)
  · show ty ≠ .bool
    rintro rfl; exact absurd hop (by decide)

theorem partsOK_cons (cls : Cls) (t : Token) (ps : List Token) (tail : List Rune)
    (hwf : PartWF cls t) (hf : FollowOK cls (lexTy t) (ps.flatMap tokenSource ++ tail))
    (h : PartsOK cls ps tail) : PartsOK cls (t :: ps) tail :=
  ⟨Or.inr ⟨hwf, hf⟩, h⟩

theorem partsOK_nil (cls : Cls) (tail : List Rune) : PartsOK cls [] tail := trivial

/-! ## references -/

theorem tokenSource_dot : tokenSource (newToken .dot [cDOT]) = [cDOT] := rfl

theorem identStop_dotted (cls : Cls) (hcls : ClsOK cls) (is : List Ident) (tail : List Rune)
    (ht : IdentStop cls tail) :
    IdentStop cls
      ((is.flatMap fun p => [newToken .dot [cDOT], p.token]).flatMap tokenSource ++ tail) := by
  cases is with
  | nil => simpa using ht
  | cons p is =>
    simp only [List.flatMap_cons, List.cons_append, List.nil_append, tokenSource_dot]
    exact identStop_cons cls hcls cDOT (by decide) _

theorem dotted_partsOK (cls : Cls) (hcls : ClsOK cls) (is : List Ident)
    (h : ∀ i ∈ is, IdentWF cls i) (tail : List Rune) (ht : IdentStop cls tail) :
    PartsOK cls (is.flatMap fun p => [newToken .dot [cDOT], p.token]) tail := by
  induction is with
  | nil => exact trivial
  | cons p is ih =>
    have hp := h p (by simp)
    simp only [List.flatMap_cons, List.cons_append, List.nil_append]
    refine partsOK_op_cons cls .dot cDOT rfl (by decide) _ _ ?_
    refine partsOK_cons cls _ _ _ (Or.inl ⟨Or.inl hp.1, hp.2.1⟩) ?_
      (ih fun i hi => h i (by simp [hi]))
    exact followOK_identlike cls _ (Or.inl hp.1) _ (identStop_dotted cls hcls is tail ht)

theorem referenceTokens_partsOK (cls : Cls) (hcls : ClsOK cls) (r : Reference)
    (hwf : RefWF cls r) (tail : List Rune) (ht : IdentStop cls tail) :
    PartsOK cls (referenceTokens r) tail := by
  unfold referenceTokens
  obtain ⟨_, hall⟩ := hwf
  cases hi : r.idents with
  | nil => exact trivial
  | cons i is =>
    rw [hi] at hall
    have hp := hall i (by simp)
    show PartsOK cls (i.token :: _) tail
    refine partsOK_cons cls _ _ _ (Or.inl ⟨Or.inl hp.1, hp.2.1⟩) ?_
      (dotted_partsOK cls hcls is (fun j hj => hall j (by simp [hj])) tail ht)
    exact followOK_identlike cls _ (Or.inl hp.1) _ (identStop_dotted cls hcls is tail ht)

/-! ## values -/

theorem identLitWF_of_bool (cls : Cls) (t : Token) (hty : t.ty = .bool) (h : TokLitWF cls t) :
    IdentLitWF cls t.lit ∧ (t.lit = litTrue ∨ t.lit = litFalse) := by
  unfold TokLitWF at h
  rw [hty] at h
  exact h

theorem partWF_scalar (cls : Cls) (t : Token) (h : ScalarWF cls t) : PartWF cls t := by
  by_cases hb : t.ty = .bool
  · exact Or.inl ⟨Or.inr hb, (identLitWF_of_bool cls t hb h.2.2).1⟩
  · exact Or.inr ⟨h.1, hb, Or.inl h.2.1, h.2.2⟩

theorem lexTy_scalar (cls : Cls) (t : Token) (h : ScalarWF cls t) : lexTy t = t.ty := by
  by_cases hb : t.ty = .bool
  · unfold lexTy
    rw [if_pos (Or.inr hb), if_pos (identLitWF_of_bool cls t hb h.2.2).2, hb]
  · exact lexTy_of_not_identlike t h.1 hb

theorem scalar_partsOK (cls : Cls) (t : Token) (h : ScalarWF cls t) (tail : List Rune)
    (hf : FollowOK cls t.ty tail) : PartsOK cls [t] tail := by
  refine partsOK_cons cls t [] tail (partWF_scalar cls t h) ?_ trivial
  rw [lexTy_scalar cls t h]
  simpa using hf

theorem stop_valueList (cls : Cls) (hcls : ClsOK cls) (vs : List Value) (tail : List Rune)
    (ht : Stop cls tail) : Stop cls ((valueListTokens false vs).flatMap tokenSource ++ tail) := by
  cases vs with
  | nil => simpa [valueListTokens] using ht
  | cons v vs =>
    have : tokenSource (newToken .comma [44]) = [44] := rfl
    simp only [valueListTokens, Bool.false_eq_true, if_false, List.cons_append, List.nil_append,
      List.flatMap_cons, this]
    exact stop_cons cls hcls 44 (by decide) _

/-- `[` elements `]` once the elements are fine in front of a separator -/
theorem array_partsOK (cls : Cls) (hcls : ClsOK cls) (vs : List Value)
    (hl : ∀ tail, Stop cls tail → PartsOK cls (valueListTokens true vs) tail) (tail : List Rune) :
    PartsOK cls ([newToken .lbrack [91]] ++ valueListTokens true vs ++ [newToken .rbrack [93]])
      tail := by
  rw [List.append_assoc, partsOK_append, partsOK_append]
  have h93 : tokenSource (newToken .rbrack [93]) = [93] := rfl
  refine ⟨partsOK_op_cons cls .lbrack 91 rfl (by decide) _ _ trivial, ?_,
    partsOK_op_cons cls .rbrack 93 rfl (by decide) _ _ trivial⟩
  apply hl
  simp only [List.flatMap_cons, List.flatMap_nil, List.append_nil, h93, List.cons_append,
    List.nil_append]
  exact stop_cons cls hcls 93 (by decide) _

mutual
theorem valueTokens_partsOK (cls : Cls) (hcls : ClsOK cls) :
    (v : Value) → ValueWF cls v → (tail : List Rune) → Stop cls tail →
      PartsOK cls (valueTokens v) tail
  | .scalar t _, hwf, tail, ht => by
    simp only [ValueWF] at hwf
    simp only [valueTokens]
    exact scalar_partsOK cls t hwf.1 tail (followOK_of_stop cls _ _ ht hwf.2.1 hwf.2.2)
  | .array vs _, hwf, tail, _ => by
    simp only [ValueWF] at hwf
    simp only [valueTokens]
    exact array_partsOK cls hcls vs
      (fun tl htl => valueListTokens_partsOK cls hcls true vs hwf tl htl) tail
theorem valueListTokens_partsOK (cls : Cls) (hcls : ClsOK cls) (first : Bool) :
    (vs : List Value) → ValueListWF cls vs → (tail : List Rune) → Stop cls tail →
      PartsOK cls (valueListTokens first vs) tail
  | [], _, _, _ => by simp only [valueListTokens]; exact trivial
  | v :: vs, hwf, tail, ht => by
    simp only [ValueListWF] at hwf
    simp only [valueListTokens]
    rw [partsOK_append, partsOK_append]
    refine ⟨⟨?_, valueTokens_partsOK cls hcls v hwf.1 _ (stop_valueList cls hcls vs tail ht)⟩,
      valueListTokens_partsOK cls hcls false vs hwf.2 tail ht⟩
    cases first with
    | true => exact partsOK_nil cls _
    | false =>
      exact partsOK_op_cons cls .comma 44 rfl (by decide) _ _
        (partsOK_space_cons cls _ _ (partsOK_nil cls _))
end

theorem topValue_partsOK (cls : Cls) (hcls : ClsOK cls) (v : Value) (cm : Option CommentNode)
    (hwf : TopValueWF cls v cm) (tail : List Rune) :
    PartsOK cls (valueTokens v) (inlineComment cm ++ cNL :: tail) := by
  cases v with
  | scalar t sp =>
    simp only [TopValueWF] at hwf
    simp only [valueTokens]
    refine scalar_partsOK cls t hwf.1 _ ?_
    by_cases hc : t.ty = .comment ∨ t.ty = .description
    · rw [hwf.2 hc]
      have : LineEnd (inlineComment none ++ cNL :: tail) := Or.inr rfl
      rcases hc with hc | hc <;> rw [hc] <;> exact this
    · exact followOK_of_stop cls _ _ (stop_lineTail cls hcls cm tail)
        (fun h => hc (Or.inl h)) (fun h => hc (Or.inr h))
  | array vs sp =>
    simp only [TopValueWF] at hwf
    simp only [valueTokens]
    exact array_partsOK cls hcls vs
      (fun tl htl => valueListTokens_partsOK cls hcls true vs hwf tl htl) _

/-! ## stored non-identifier tokens -/

theorem partsOK_lit_cons (cls : Cls) (t : Token) (h1 : t.ty ≠ .ident) (h2 : t.ty ≠ .bool)
    (hl : t.ty.isLiteral = true ∨ t.ty.isOperator = true) (hwf : TokLitWF cls t)
    (ps : List Token) (tail : List Rune) (hf : FollowOK cls t.ty (ps.flatMap tokenSource ++ tail))
    (h : PartsOK cls ps tail) : PartsOK cls (t :: ps) tail := by
  refine partsOK_cons cls t ps tail (Or.inr ⟨h1, h2, hl, hwf⟩) ?_ h
  rw [lexTy_of_not_identlike t h1 h2]
  exact hf

/-- a stored operator token (tag mark, `}`) -/
theorem partsOK_storedOp_cons (cls : Cls) (t : Token) (hop : t.ty.isOperator = true)
    (hwf : TokLitWF cls t) (ps : List Token) (tail : List Rune) (h : PartsOK cls ps tail) :
    PartsOK cls (t :: ps) tail := by
  refine partsOK_lit_cons cls t ?_ ?_ (Or.inr hop) hwf ps tail (followOK_op cls _ hop _) h
  · intro e; rw [e] at hop; exact absurd hop (by decide)
  · intro e; rw [e] at hop; exact absurd hop (by decide)

/-! ## tags -/

theorem tagTokens_partsOK (cls : Cls) (hcls : ClsOK cls) (t : TagValue) (hwf : TagWF cls t)
    (tail : List Rune) (ht : IdentStop cls tail) : PartsOK cls (tagTokens t) tail := by
  obtain ⟨hmark, hval⟩ := hwf
  unfold tagTokens
  rw [partsOK_append, partsOK_append]
  refine ⟨⟨?_, ?_⟩, ?_⟩
  · unfold MarkWF at hmark
    cases hm : t.mark with
    | none => exact partsOK_nil cls _
    | bang =>
      rw [hm] at hmark
      rw [if_pos (by decide)]
      exact partsOK_storedOp_cons cls _ (by rw [hmark.1]; rfl) hmark.2 _ _
        (partsOK_space_cons cls _ _ (partsOK_nil cls _))
    | question =>
      rw [hm] at hmark
      rw [if_pos (by decide)]
      exact partsOK_storedOp_cons cls _ (by rw [hmark.1]; rfl) hmark.2 _ _
        (partsOK_space_cons cls _ _ (partsOK_nil cls _))
  · rcases hval with ⟨r, _, hv, _⟩ | ⟨tok, sp, _, hv, hty⟩
    · rw [hv]; exact partsOK_nil cls _
    · rw [hv]
      have hwf : TokLitWF cls tok := by unfold TokLitWF; rw [hty]; trivial
      refine partsOK_lit_cons cls tok (by rw [hty]; decide) (by rw [hty]; decide)
        (Or.inl (by rw [hty]; rfl)) hwf _ _ ?_ (partsOK_nil cls _)
      rw [hty]; trivial
  · rcases hval with ⟨r, hr, _, hrwf⟩ | ⟨tok, sp, hr, _, _⟩
    · rw [hr]; exact referenceTokens_partsOK cls hcls r hrwf tail ht
    · rw [hr]; exact partsOK_nil cls _

theorem identStop_nil (cls : Cls) : IdentStop cls [] := by
  intro r hr; cases hr

theorem identStop_append (cls : Cls) (a b : List Rune) (ha : IdentStop cls a)
    (hb : IdentStop cls b) : IdentStop cls (a ++ b) := by
  cases a with
  | nil => exact hb
  | cons x a => intro r hr; exact ha r hr

/-- the source of a list of tags, each after the separator token `s` -/
theorem identStop_tagListSrc (cls : Cls) (hcls : ClsOK cls) (s : Token) (r : Rune)
    (hr : r ∈ sepRunes) (hsrc : tokenSource s = [r]) (ts : List TagValue) :
    IdentStop cls ((ts.flatMap fun t => s :: tagTokens t).flatMap tokenSource) := by
  cases ts with
  | nil => exact identStop_nil cls
  | cons t ts =>
    simp only [List.flatMap_cons, List.cons_append, List.flatMap_append, hsrc, List.nil_append]
    exact identStop_cons cls hcls r hr _

theorem tagList_partsOK (cls : Cls) (hcls : ClsOK cls) (s : Token) (r : Rune)
    (hr : r ∈ sepRunes) (hsrc : tokenSource s = [r])
    (hs : ∀ ps tail, PartsOK cls ps tail → PartsOK cls (s :: ps) tail) (ts : List TagValue)
    (hwf : ∀ t ∈ ts, TagWF cls t) (tail : List Rune) (ht : IdentStop cls tail) :
    PartsOK cls (ts.flatMap fun t => s :: tagTokens t) tail := by
  induction ts with
  | nil => exact partsOK_nil cls _
  | cons t ts ih =>
    simp only [List.flatMap_cons]
    rw [partsOK_append]
    refine ⟨hs _ _ (tagTokens_partsOK cls hcls t (hwf t (by simp)) _ ?_),
      ih fun x hx => hwf x (by simp [hx])⟩
    exact identStop_append cls _ _ (identStop_tagListSrc cls hcls s r hr hsrc ts) ht

/-! ## block headers -/

theorem header_core (cls : Cls) (hcls : ClsOK cls) (h : BlockHeader) (hty : RefWF cls h.type)
    (htags : ∀ t ∈ h.tags, TagWF cls t) (hquals : ∀ t ∈ h.qualifiers, TagWF cls t)
    (dp : List Token) (T : List Rune) (hS : IdentStop cls (dp.flatMap tokenSource ++ T))
    (hdp : PartsOK cls dp T) :
    PartsOK cls
      (referenceTokens h.type ++
        h.tags.flatMap (fun t => newToken .space [cSP] :: tagTokens t) ++
        h.qualifiers.flatMap (fun t => newToken .colon [58] :: tagTokens t) ++
        (if h.isOpen then [newToken .space [cSP], newToken .lbrace [123]] else []) ++ dp) T := by
  rw [partsOK_append, partsOK_append, partsOK_append, partsOK_append]
  have hOpen : IdentStop cls
      ((if h.isOpen then [newToken .space [cSP], newToken .lbrace [123]] else []).flatMap
          tokenSource ++ (dp.flatMap tokenSource ++ T)) := by
    cases h.isOpen with
    | false => simpa using hS
    | true =>
      have : tokenSource (newToken .space [cSP]) = [cSP] := rfl
      simp only [if_true, List.flatMap_cons, this, List.cons_append, List.nil_append]
      exact identStop_cons cls hcls cSP (by decide) _
  have hQ := identStop_append cls _ _
    (identStop_tagListSrc cls hcls (newToken .colon [58]) 58 (by decide) rfl h.qualifiers) hOpen
  have hTg := identStop_append cls _ _
    (identStop_tagListSrc cls hcls (newToken .space [cSP]) cSP (by decide) rfl h.tags) hQ
  refine ⟨⟨⟨⟨?_, ?_⟩, ?_⟩, ?_⟩, hdp⟩
  · exact referenceTokens_partsOK cls hcls h.type hty _ hTg
  · exact tagList_partsOK cls hcls _ cSP (by decide) rfl
      (fun ps tl hp => partsOK_space_cons cls ps tl hp) h.tags htags _ hQ
  · exact tagList_partsOK cls hcls _ 58 (by decide) rfl
      (fun ps tl hp => partsOK_op_cons cls .colon 58 rfl (by decide) ps tl hp) h.qualifiers
      hquals _ hOpen
  · cases h.isOpen with
    | false => exact partsOK_nil cls _
    | true =>
      exact partsOK_space_cons cls _ _
        (partsOK_op_cons cls .lbrace 123 rfl (by decide) _ _ (partsOK_nil cls _))

theorem headerTokens_partsOK (cls : Cls) (hcls : ClsOK cls) (h : BlockHeader)
    (hwf : HeaderWF cls h) (tail : List Rune) :
    PartsOK cls (headerTokens h) (inlineComment h.src.comment ++ cNL :: tail) := by
  obtain ⟨hty, htags, hquals, _, hdesc⟩ := hwf
  have hT := stop_lineTail cls hcls h.src.comment tail
  unfold headerTokens
  refine header_core cls hcls h hty htags hquals _ _ ?_ ?_
  · cases hd : h.description with
    | none => simpa using hT.ident
    | some d =>
      have : tokenSource (newToken .space [cSP]) = [cSP] := rfl
      simp only [List.flatMap_cons, this, List.cons_append, List.nil_append]
      exact identStop_cons cls hcls cSP (by decide) _
  · cases hd : h.description with
    | none => exact partsOK_nil cls _
    | some d =>
      obtain ⟨_, hcm, tok, htoks, htokty, htokwf, _⟩ := hdesc d hd
      simp only [htoks, hcm]
      refine partsOK_space_cons cls _ _ (partsOK_lit_cons cls tok (by rw [htokty]; decide)
        (by rw [htokty]; decide) (Or.inl (by rw [htokty]; rfl)) htokwf _ _ ?_ (partsOK_nil cls _))
      rw [htokty]
      exact Or.inr rfl

/-! ## assignments, `}` and comment lines -/

theorem assignTokens_partsOK (cls : Cls) (hcls : ClsOK cls) (a : Assignment)
    (hwf : AssignWF cls a) (tail : List Rune) :
    PartsOK cls (assignTokens a) (inlineComment a.src.comment ++ cNL :: tail) := by
  obtain ⟨hkey, hval, _⟩ := hwf
  unfold assignTokens
  rw [partsOK_append, partsOK_append]
  refine ⟨⟨referenceTokens_partsOK cls hcls a.key hkey _ ?_, ?_⟩,
    topValue_partsOK cls hcls a.value a.src.comment hval tail⟩
  · have : tokenSource (newToken .space [cSP]) = [cSP] := rfl
    cases a.append <;>
      simp only [if_true, Bool.false_eq_true, if_false, List.flatMap_cons, this, List.cons_append,
        List.nil_append] <;>
      exact identStop_cons cls hcls cSP (by decide) _
  · cases a.append with
    | false =>
      exact partsOK_space_cons cls _ _ (partsOK_op_cons cls .assign 61 rfl (by decide) _ _
        (partsOK_space_cons cls _ _ (partsOK_nil cls _)))
    | true =>
      exact partsOK_space_cons cls _ _ (partsOK_op_cons cls .plus 43 rfl (by decide) _ _
        (partsOK_op_cons cls .assign 61 rfl (by decide) _ _
          (partsOK_space_cons cls _ _ (partsOK_nil cls _))))

theorem closeToken_partsOK (cls : Cls) (c : CloseBlock) (hwf : CloseWF cls c)
    (tail : List Rune) : PartsOK cls [c.token] (cNL :: tail) :=
  partsOK_storedOp_cons cls c.token (by rw [hwf.1]; rfl) hwf.2 [] _ (partsOK_nil cls _)

theorem commentToken_partsOK (cls : Cls) (c : Comment) (hwf : CommentWF cls c)
    (tail : List Rune) : PartsOK cls [c.token] (cNL :: tail) := by
  obtain ⟨hty, htok, _⟩ := hwf
  rcases hty with hty | hty
  · refine partsOK_lit_cons cls c.token (by rw [hty]; decide) (by rw [hty]; decide)
      (Or.inl (by rw [hty]; rfl)) htok [] _ ?_ (partsOK_nil cls _)
    rw [hty]
    exact Or.inr rfl
  · refine partsOK_lit_cons cls c.token (by rw [hty]; decide) (by rw [hty]; decide)
      (Or.inl (by rw [hty]; rfl)) htok [] _ ?_ (partsOK_nil cls _)
    rw [hty]
    trivial

end J5V.Bcl
