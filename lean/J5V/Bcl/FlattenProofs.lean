import J5V.Bcl.TreeText
/-!
# `fragmentsToFile` rebuilds the tree from its flattening (core only)

`flatBody gap none none body` is the fragment list of a statement list; `fragmentsToFile` reads it back to
exactly `body` with no diagnostics, provided a block whose header has no `{` has no body (`BodyShapeOK`).
-/
namespace J5V.Bcl

mutual
/-- a block whose header has no `{` has no body -/
def StmtShapeOK : Statement → Prop
  | .block h body => (h.isOpen = false → body = []) ∧ BodyShapeOK body
  | .assign _ => True
  | .desc _ => True
def BodyShapeOK : List Statement → Prop
  | [] => True
  | s :: rest => StmtShapeOK s ∧ BodyShapeOK rest
end

/-- add a finished statement to the innermost open block (or to the root) -/
def addTo (s : Statement) (root : List Statement) : List OpenBlock → List Statement × List OpenBlock
  | [] => (root ++ [s], [])
  | b :: rest => (root, ⟨b.hdr, b.stmts ++ [s]⟩ :: rest)

/-- add statements one after the other -/
def addAll : List Statement → List Statement → List OpenBlock → List Statement × List OpenBlock
  | [], root, stack => (root, stack)
  | s :: ss, root, stack => addAll ss (addTo s root stack).1 (addTo s root stack).2

theorem addAll_nil_stack (ss root : List Statement) : addAll ss root [] = (root ++ ss, []) := by
  induction ss generalizing root with
  | nil => simp [addAll]
  | cons s ss ih => simp [addAll, addTo, ih]

theorem addAll_cons_stack (ss root : List Statement) (b : OpenBlock) (bs : List OpenBlock) :
    addAll ss root (b :: bs) = (root, ⟨b.hdr, b.stmts ++ ss⟩ :: bs) := by
  induction ss generalizing b with
  | nil => simp [addAll]
  | cons s ss ih => simp [addAll, addTo, ih]

/-! ## single steps of `fragsLoop` -/

theorem fragsLoop_header_open (h : BlockHeader) (ho : h.isOpen = true) (fs : List Fragment)
    (root : List Statement) (stack : List OpenBlock) (errs : List Diag) :
    fragsLoop (.header h :: fs) root stack errs = fragsLoop fs root (⟨h, []⟩ :: stack) errs := by
  simp [fragsLoop, ho]

theorem fragsLoop_header_closed (h : BlockHeader) (ho : h.isOpen = false) (fs : List Fragment)
    (root : List Statement) (stack : List OpenBlock) (errs : List Diag) :
    fragsLoop (.header h :: fs) root stack errs =
      fragsLoop fs (addTo (.block h []) root stack).1 (addTo (.block h []) root stack).2 errs := by
  cases stack <;> simp [fragsLoop, ho, addTo]

theorem fragsLoop_assign (a : Assignment) (fs : List Fragment)
    (root : List Statement) (stack : List OpenBlock) (errs : List Diag) :
    fragsLoop (.assign a :: fs) root stack errs =
      fragsLoop fs (addTo (.assign a) root stack).1 (addTo (.assign a) root stack).2 errs := by
  cases stack <;> simp [fragsLoop, addTo]

theorem fragsLoop_desc (d : Description) (fs : List Fragment)
    (root : List Statement) (stack : List OpenBlock) (errs : List Diag) :
    fragsLoop (.desc d :: fs) root stack errs =
      fragsLoop fs (addTo (.desc d) root stack).1 (addTo (.desc d) root stack).2 errs := by
  cases stack <;> simp [fragsLoop, addTo]

theorem fragsLoop_close (c : CloseBlock) (fs : List Fragment) (b : OpenBlock)
    (root : List Statement) (stack : List OpenBlock) (errs : List Diag) :
    fragsLoop (.close c :: fs) root (b :: stack) errs =
      fragsLoop fs (addTo (.block b.hdr b.stmts) root stack).1
        (addTo (.block b.hdr b.stmts) root stack).2 errs := by
  cases stack <;> simp [fragsLoop, addTo]

/-! ## the invariant -/

mutual
theorem fragsLoop_flatStmt (gap : GapRule) (g : Bool) :
    (s : Statement) → StmtShapeOK s → ∀ (rest : List Fragment) (root : List Statement)
      (stack : List OpenBlock) (errs : List Diag),
      fragsLoop ((flatStmt gap g s).map (·.2) ++ rest) root stack errs =
        fragsLoop rest (addTo s root stack).1 (addTo s root stack).2 errs
  | .block h body, hs, rest, root, stack, errs => by
    simp only [StmtShapeOK] at hs
    obtain ⟨hnb, hb⟩ := hs
    cases ho : h.isOpen with
    | true =>
      have ih := fragsLoop_flatBody gap (some h) none body hb
        (Fragment.close closeFrag :: rest) root (⟨h, []⟩ :: stack) errs
      simp only [flatStmt, ho, if_true, List.map_cons, List.map_append, List.map_nil,
        List.cons_append, List.append_assoc, List.nil_append]
      rw [fragsLoop_header_open h ho, ih, addAll_cons_stack]
      simp only [List.nil_append]
      rw [fragsLoop_close]
    | false =>
      have hbody : body = [] := hnb ho
      subst hbody
      simp only [flatStmt, flatBody, ho, List.map_cons, List.map_nil, List.cons_append,
        List.nil_append, Bool.false_eq_true, if_false, List.append_nil]
      rw [fragsLoop_header_closed h ho]
  | .assign a, _, rest, root, stack, errs => by
    simp only [flatStmt, List.map_cons, List.map_nil, List.cons_append, List.nil_append]
    rw [fragsLoop_assign]
  | .desc d, _, rest, root, stack, errs => by
    simp only [flatStmt, List.map_cons, List.map_nil, List.cons_append, List.nil_append]
    rw [fragsLoop_desc]
theorem fragsLoop_flatBody (gap : GapRule) (parent : Option BlockHeader) (prev : Option Statement) :
    (body : List Statement) → BodyShapeOK body → ∀ (rest : List Fragment) (root : List Statement)
      (stack : List OpenBlock) (errs : List Diag),
      fragsLoop ((flatBody gap parent prev body).map (·.2) ++ rest) root stack errs =
        fragsLoop rest (addAll body root stack).1 (addAll body root stack).2 errs
  | [], _, rest, root, stack, errs => by
    simp [flatBody, addAll]
  | s :: ss, hb, rest, root, stack, errs => by
    simp only [BodyShapeOK] at hb
    obtain ⟨hs, hss⟩ := hb
    simp only [flatBody, List.map_append, List.append_assoc, addAll]
    rw [fragsLoop_flatStmt gap (gap parent prev s) s hs,
      fragsLoop_flatBody gap parent (some s) ss hss]
end

theorem fragsLoop_flatBody_root (gap : GapRule) (body : List Statement) (h : BodyShapeOK body) :
    fragsLoop ((flatBody gap none none body).map (·.2)) [] [] [] = (body, [], []) := by
  have := fragsLoop_flatBody gap none none body h [] [] [] []
  simp only [List.append_nil, addAll_nil_stack, List.nil_append] at this
  rw [this]
  simp [fragsLoop]

theorem fragmentsToFile_flatBody (gap : GapRule) (body : List Statement) (h : BodyShapeOK body) :
    fragmentsToFile ((flatBody gap none none body).map (·.2)) = ⟨body, []⟩ := by
  simp [fragmentsToFile, fragsLoop_flatBody_root gap body h, closeAll]

mutual
theorem StmtTextOK.shapeOK {cls : Cls} : {s : Statement} → StmtTextOK cls s → StmtShapeOK s
  | .block _ body, h => by
    simp only [StmtTextOK] at h
    simp only [StmtShapeOK]
    exact ⟨h.2.1, BodyTextOK.shapeOK (body := body) h.2.2⟩
  | .assign _, _ => by simp [StmtShapeOK]
  | .desc _, _ => by simp [StmtShapeOK]
theorem BodyTextOK.shapeOK {cls : Cls} : {body : List Statement} → BodyTextOK cls body → BodyShapeOK body
  | [], _ => by simp [BodyShapeOK]
  | s :: rest, h => by
    simp only [BodyTextOK] at h
    simp only [BodyShapeOK]
    exact ⟨StmtTextOK.shapeOK (s := s) h.1, BodyTextOK.shapeOK (body := rest) h.2⟩
end

end J5V.Bcl
