import J5V.Bcl.LexerProofs
/-!
# Positions of prefixes are (line, column) pairs inside `strings.Split(src, "\n")`

`InFile src p` (a prefix-based notion used by the lexer proofs) implies the line/column bound the
property speaks about: `p.line < lineCount` and `p.col ≤ length of that line` (the EOL / EOF column
is allowed).
-/
namespace J5V.Bcl

def countNL : List Rune → Nat
  | [] => 0
  | r :: rs => (if r = cNL then 1 else 0) + countNL rs

/-- length of the part after the last newline -/
def lastSeg : List Rune → Nat
  | [] => 0
  | r :: rs => if r = cNL then lastSeg rs else if countNL rs = 0 then lastSeg rs + 1 else lastSeg rs

theorem advPos_eq (a : List Rune) : ∀ (l c : Nat),
    advPos ⟨l, c⟩ a = ⟨l + countNL a, if countNL a = 0 then c + lastSeg a else lastSeg a⟩ := by
  induction a with
  | nil => intro l c; simp [countNL, lastSeg]
  | cons r rs ih =>
    intro l c
    rw [advPos_cons]
    unfold stepPos
    by_cases h : r = cNL
    · simp only [h, if_true]
      rw [ih]
      simp only [countNL, lastSeg, if_true]
      by_cases h0 : countNL rs = 0
      · simp [h0]
      · simp [h0]; omega
    · simp only [h, if_false]
      rw [ih]
      simp only [countNL, lastSeg, h, if_false]
      by_cases h0 : countNL rs = 0
      · simp [h0]; omega
      · simp [h0]

theorem posAfter_eq (a : List Rune) : posAfter a = ⟨countNL a, lastSeg a⟩ := by
  unfold posAfter
  rw [advPos_eq]
  by_cases h0 : countNL a = 0 <;> simp [h0]

theorem splitLines_ne_nil (s : List Rune) : splitLines s ≠ [] := by
  cases s with
  | nil => simp [splitLines]
  | cons r rs =>
    unfold splitLines
    split
    · simp
    · split <;> simp

theorem splitLines_length (s : List Rune) : (splitLines s).length = countNL s + 1 := by
  induction s with
  | nil => simp [splitLines, countNL]
  | cons r rs ih =>
    unfold splitLines
    split
    · rename_i h; exact absurd h (splitLines_ne_nil rs)
    · rename_i l ls h
      rw [h] at ih
      simp only [countNL]
      split <;> simp at ih ⊢ <;> omega

/-- length of line `i` (0 when out of range) -/
def lineLen (L : List (List Rune)) (i : Nat) : Nat := (L.getD i []).length

theorem lineLen_prefix (a t : List Rune) :
    lineLen (splitLines (a ++ t)) (countNL a) = lastSeg a + lineLen (splitLines t) 0 := by
  induction a with
  | nil => simp [countNL, lastSeg]
  | cons r rs ih =>
    show lineLen (splitLines (r :: (rs ++ t))) _ = _
    generalize lineLen (splitLines t) 0 = k at ih ⊢
    unfold splitLines
    split
    · rename_i h; exact absurd h (splitLines_ne_nil _)
    · rename_i l ls h
      rw [h] at ih
      simp only [countNL, lastSeg]
      by_cases hr : r = cNL
      · simp only [hr, if_true]
        rw [← ih]
        simp [lineLen, Nat.add_comm 1]
      · simp only [hr, if_false, Nat.zero_add]
        by_cases h0 : countNL rs = 0
        · simp only [h0, if_true]
          rw [h0] at ih
          simp [lineLen] at ih ⊢
          omega
        · simp only [h0, if_false]
          rw [← ih]
          obtain ⟨j, hj⟩ := Nat.exists_eq_succ_of_ne_zero h0
          rw [hj]
          simp [lineLen]

/-- `0 ≤ line < lineCount` and `0 ≤ col ≤ runeLen(line)` -/
def InFileLC (src : List Rune) (p : Pos) : Prop :=
  p.line < (splitLines src).length ∧ p.col ≤ lineLen (splitLines src) p.line

instance (src : List Rune) (p : Pos) : Decidable (InFileLC src p) := by
  unfold InFileLC; exact inferInstance

theorem countNL_append (a t : List Rune) : countNL (a ++ t) = countNL a + countNL t := by
  induction a with
  | nil => simp [countNL]
  | cons r rs ih => simp only [List.cons_append, countNL, ih]; omega

theorem InFile.toLC {src : List Rune} {p : Pos} (h : InFile src p) : InFileLC src p := by
  obtain ⟨a, ⟨t, rfl⟩, rfl⟩ := h
  rw [posAfter_eq]
  refine ⟨?_, ?_⟩
  · rw [splitLines_length, countNL_append]; simp only; omega
  · simp only
    rw [lineLen_prefix]; omega

/-- `p ≤ q` implies `p.line ≤ q.line` -/
theorem Pos.line_le_of_le {p q : Pos} (h : p ≤ q) : p.line ≤ q.line := by
  rw [Pos.le_def] at h; omega

end J5V.Bcl
