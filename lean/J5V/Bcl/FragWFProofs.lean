import J5V.Bcl.FmtInv
import J5V.Bcl.TrailingProofs
/-!
# The fragments the walker produces from lexed tokens are well shaped (`FragWF`), and two
stand-alone descriptions never follow each other without a blank line (`DescGaps`)

* lexer: a `//` comment or description token is followed by an EOL token or by nothing
  (`allTokens_eolAfter`); the token after an EOL token starts one line later (`allTokens_eolNext`);
* walker: a partial-correctness triple `WP`, a state invariant `WI P R` (every remaining token
  satisfies `P`, consecutive tokens are related by `R`), one specification per walker function.
-/
namespace J5V.Bcl

/-! ## chains of consecutive tokens -/

/-- consecutive tokens (starting with the one read last, if any) are related by `R` -/
def AdjChain (R : Token → Token → Prop) : Option Token → List Token → Prop
  | _, [] => True
  | p, u :: us => (∀ t, p = some t → R t u) ∧ AdjChain R (some u) us

/-- the tokens that end a line: `//` comments and descriptions -/
def IsLineTok (t : Token) : Prop := t.ty = .comment ∨ t.ty = .description

/-- a line token is followed by an EOL -/
def EolRel (t u : Token) : Prop := IsLineTok t → u.ty = .eol

/-- "a token of kind COMMENT or DESCRIPTION is followed by an EOL token or by nothing" -/
abbrev EolAfter : Option Token → List Token → Prop := AdjChain EolRel

theorem AdjChain.mono {R S : Token → Token → Prop} (h : ∀ t u, R t u → S t u) :
    ∀ (l : List Token) (p : Option Token), AdjChain R p l → AdjChain S p l := by
  intro l
  induction l with
  | nil => intro p _; trivial
  | cons u us ih => intro p hc; exact ⟨fun t ht => h t u (hc.1 t ht), ih _ hc.2⟩

theorem AdjChain.and {R S : Token → Token → Prop} :
    ∀ (l : List Token) (p : Option Token), AdjChain R p l → AdjChain S p l →
      AdjChain (fun t u => R t u ∧ S t u) p l := by
  intro l
  induction l with
  | nil => intro p _ _; trivial
  | cons u us ih => intro p h1 h2; exact ⟨fun t ht => ⟨h1.1 t ht, h2.1 t ht⟩, ih _ h1.2 h2.2⟩

/-! ## lexer: what follows a line token -/

theorem lexLineLoop_rest (c : Cur) (acc rest : List Rune) : LineEnd (lexLineLoop c acc rest).rest := by
  induction rest generalizing c acc with
  | nil => unfold lexLineLoop; exact Or.inl rfl
  | cons r rs ih =>
    unfold lexLineLoop
    split
    · rename_i h; exact Or.inr (by simp [h])
    · exact ih _ _

theorem operatorOf_ne_line {r : Rune} {op : TokenType} (h : operatorOf r = some op) :
    op ≠ .comment ∧ op ≠ .description := by
  unfold operatorOf at h
  repeat' split at h
  all_goals first | (cases h; exact ⟨by decide, by decide⟩) | (cases h)

/-- after a `//` comment or a description token the input is at the end of the line -/
theorem nextToken_lineEnd (cls : Cls) (c : Cur) (rest : List Rune)
    (he : (nextToken cls c rest).err = none) :
    ((nextToken cls c rest).tok.ty = .comment ∨ (nextToken cls c rest).tok.ty = .description) →
      LineEnd (nextToken cls c rest).rest := by
  induction rest generalizing c with
  | nil =>
    unfold nextToken
    intro h; simp [mkTok] at h
  | cons r rs ih =>
    unfold nextToken at he ⊢
    simp only [] at he ⊢
    split
    · rename_i op hop
      obtain ⟨o1, o2⟩ := operatorOf_ne_line hop
      intro h
      rcases h with h | h
      · exact absurd h o1
      · exact absurd h o2
    · rename_i hop
      simp only [hop] at he
      by_cases h1 : r = cSLASH
      · rw [if_pos h1] at he ⊢
        by_cases h2 : rs.head? = some cSLASH
        · rw [if_pos h2] at he ⊢
          intro _
          rw [(litStep_fields _ _ _).2.1]
          cases rs with
          | nil => simp at h2
          | cons r2 rs2 =>
            unfold lexLineComment
            exact lexLineLoop_rest _ _ _
        · rw [if_neg h2] at he ⊢
          by_cases h3 : rs.head? = some cSTAR
          · rw [if_pos h3] at he ⊢
            rw [litStep_ty _ _ _ he]
            intro h; rcases h with h | h <;> cases h
          · rw [if_neg h3] at he ⊢
            rw [litStep_ty _ _ _ he]
            intro h; rcases h with h | h <;> cases h
      · rw [if_neg h1] at he ⊢
        by_cases h2 : r = cQUOTE
        · rw [if_pos h2] at he ⊢
          rw [litStep_ty _ _ _ he]
          intro h; rcases h with h | h <;> cases h
        · rw [if_neg h2] at he ⊢
          by_cases h3 : r = cPIPE
          · rw [if_pos h3] at he ⊢
            intro _
            rw [(litStep_fields _ _ _).2.1]
            unfold lexDescriptionLine
            generalize skipWhitespace cls (c.adv r) rs = sw
            obtain ⟨c1, rest1⟩ := sw
            exact lexLineLoop_rest _ _ _
          · rw [if_neg h3] at he ⊢
            by_cases h4 : r = cNL
            · rw [if_pos h4] at he ⊢
              intro h; simp [mkTok] at h
            · rw [if_neg h4] at he ⊢
              by_cases h5 : cls.isSpace r = true
              · rw [if_pos h5] at he ⊢
                exact ih _ he
              · rw [if_neg h5] at he ⊢
                by_cases h6 : cls.isDigit r = true
                · rw [if_pos h6] at he ⊢
                  cases hne : (lexNumberLoop cls (c.adv r) TokenType.int [r] false rs).err with
                  | some e => rw [hne] at he; simp at he
                  | none =>
                    simp only []
                    have := (lexNumberLoop_lit cls (c.adv r) [r] rs false .int hne).1 rfl
                    rcases this with ⟨_, e1, _⟩ | ⟨_, _, e1, _⟩ <;>
                      exact (fun h => by simp [mkTok, e1] at h)
                · rw [if_neg h6] at he ⊢
                  by_cases h7 : cls.isLetter r = true
                  · rw [if_pos h7] at he ⊢
                    simp only [asKeyword]
                    split <;> exact (fun h => by simp [mkTok] at h)
                  · rw [if_neg h7] at he
                    simp at he

/-- at the end of a line the next token is an EOL or EOF -/
theorem nextToken_at_lineEnd (cls : Cls) (c : Cur) (rest : List Rune) (h : LineEnd rest) :
    (nextToken cls c rest).tok.ty = .eof ∨ (nextToken cls c rest).tok.ty = .eol := by
  cases rest with
  | nil => exact Or.inl (nextToken_nil cls c).2
  | cons r rs =>
    have hr : r = cNL := by
      rcases h with h | h
      · cases h
      · simpa using h
    subst hr
    right
    unfold nextToken
    have h0 : operatorOf cNL = none := by decide
    simp only [h0]
    rw [if_neg (by decide), if_neg (by decide), if_neg (by decide), if_pos trivial]
    rfl

theorem allTokensLoop_eolAfter (cls : Cls) (ff : Bool) :
    ∀ (fuel : Nat) (c : Cur) (rest : List Rune) (toks : List Token) (errs : List LexErr)
      (out : List Token) (pt : Option Token),
      (∀ t, pt = some t → IsLineTok t → LineEnd rest) →
      allTokensLoop cls ff fuel c rest toks errs = .toks out →
      ∃ new, out = toks ++ new ∧ EolAfter pt new := by
  intro fuel
  induction fuel with
  | zero => intro c rest toks errs out pt _ h; unfold allTokensLoop at h; cases h
  | succ fuel ih =>
    intro c rest toks errs out pt hpt h
    unfold allTokensLoop at h
    simp only [] at h
    cases hse : (nextToken cls c rest).err with
    | some e =>
      rw [hse] at h
      simp only [] at h
      split at h
      · cases h
      · split at h
        · cases h
        · exact (allTokensLoop_toks_no_errs cls ff _ _ _ _ _ _ h (by simp)).elim
    | none =>
      rw [hse] at h
      simp only [] at h
      split at h
      · split at h
        · cases h; exact ⟨[], by simp, trivial⟩
        · cases h
      · rename_i hty
        obtain ⟨new, h1, h2⟩ := ih _ _ _ _ _ (some (nextToken cls c rest).tok)
          (fun t ht hl => by cases ht; exact nextToken_lineEnd cls c rest hse hl) h
        refine ⟨(nextToken cls c rest).tok :: new, by rw [h1]; simp, ⟨?_, h2⟩⟩
        intro t ht hl
        rcases nextToken_at_lineEnd cls c rest (hpt t ht hl) with h3 | h3
        · exact absurd h3 hty
        · exact h3

/-- in an error-free lex every `//` comment and every description token is followed by an EOL token
(or by nothing) -/
theorem allTokens_eolAfter (cls : Cls) (ff : Bool) (src : List Rune) (ts : List Token)
    (h : allTokens cls ff src = .toks ts) : EolAfter none ts := by
  obtain ⟨new, h1, h2⟩ := allTokensLoop_eolAfter cls ff _ _ _ _ _ _ none
    (fun t ht => by cases ht) h
  simp at h1; subst h1
  exact h2

/-! ## walker: partial-correctness triples -/

/-- if `m` succeeds from `w` then `post` holds of the result and the new state -/
def WP {α : Type} (m : WM α) (w : W) (post : α → W → Prop) : Prop :=
  ∀ a w', m w = .ok a w' → post a w'

theorem WP.pure {α : Type} {a : α} {w : W} {post : α → W → Prop} (h : post a w) :
    WP (Pure.pure a : WM α) w post := by
  intro a' w' e
  have e' : WR.ok a w = WR.ok a' w' := e
  cases e'; exact h

theorem WP.bind {α β : Type} {m : WM α} {f : α → WM β} {w : W} {P : α → W → Prop}
    {R : β → W → Prop} (h1 : WP m w P) (h2 : ∀ a w1, P a w1 → WP (f a) w1 R) :
    WP (m >>= f) w R := by
  intro b w' e
  have e' : WM.bind m f w = .ok b w' := e
  unfold WM.bind at e'
  cases hm : m w with
  | ok a w1 => rw [hm] at e'; exact h2 a w1 (h1 a w1 hm) b w' e'
  | fail e w1 => rw [hm] at e'; cases e'
  | panic s => rw [hm] at e'; cases e'

theorem WP.weaken {α : Type} {m : WM α} {w : W} {P R : α → W → Prop} (h : WP m w P)
    (hpr : ∀ a w', P a w' → R a w') : WP m w R := fun a w' e => hpr a w' (h a w' e)

theorem WP.getW_bind {β : Type} {f : W → WM β} {w : W} {R : β → W → Prop}
    (h : WP (f w) w R) : WP (J5V.Bcl.getW >>= f) w R := fun a w' e => h a w' e

theorem WP.fail {α : Type} {e : UnexpErr} {w : W} {post : α → W → Prop} :
    WP (WM.fail e : WM α) w post := by
  intro a w' h
  have h' : (WR.fail e w : WR α) = WR.ok a w' := h
  cases h'

theorem WP.panic {α : Type} {s : String} {w : W} {post : α → W → Prop} :
    WP (WM.panic s : WM α) w post := by
  intro a w' h
  have h' : (WR.panic s : WR α) = WR.ok a w' := h
  cases h'

theorem WP.true {α : Type} {m : WM α} {w : W} : WP m w (fun _ _ => True) := fun _ _ _ => trivial

theorem failUnexpected_wp {α : Type} (expected : List TokenType) (w : W) (post : α → W → Prop) :
    WP (failUnexpected expected : WM α) w post := by
  unfold failUnexpected
  exact WP.bind (P := fun _ _ => True) WP.true (fun _ _ _ => WP.fail)

/-! ## the state invariant -/

/-- what the proofs need from the invariant's parameters: the remaining tokens have well shaped
literals, and a line token is followed by an EOL -/
structure Hyp (cls : Cls) (P : Token → Prop) (R : Token → Token → Prop) : Prop where
  lit : ∀ t, P t → TokLitWF cls t
  eol : ∀ t u, R t u → IsLineTok t → u.ty = .eol

/-- every remaining token satisfies `P`; consecutive tokens (from the one read last) satisfy `R` -/
def WI (P : Token → Prop) (R : Token → Token → Prop) (w : W) : Prop :=
  (∀ t ∈ w.rest, P t) ∧ AdjChain R w.prev w.rest

/-- the walker stands at the end of a line -/
def LineEndW (w : W) : Prop := w.rest = [] ∨ w.nextType = .eol

theorem WI.tail {P : Token → Prop} {R : Token → Token → Prop} {p : Option Token} {t : Token}
    {rs : List Token} (h : WI P R ⟨p, t :: rs⟩) : WI P R ⟨some t, rs⟩ :=
  ⟨fun x hx => h.1 x (List.mem_cons_of_mem _ hx), h.2.2⟩

theorem WI.nil {P : Token → Prop} {R : Token → Token → Prop} (p : Option Token) : WI P R ⟨p, []⟩ :=
  ⟨fun x hx => (by cases hx), trivial⟩

theorem tokLitWF_eof {cls : Cls} {t : Token} (h : t.ty = .eof) : TokLitWF cls t := by
  unfold TokLitWF; rw [h]; trivial

theorem nextType_cons (p : Option Token) (t : Token) (rs : List Token) :
    (⟨p, t :: rs⟩ : W).nextType = t.ty := rfl

theorem nextType_nil (p : Option Token) : (⟨p, []⟩ : W).nextType = .eof := rfl

/-- what a successful `popToken` does -/
theorem popToken_ok {w : W} {t : Token} {w' : W} (h : popToken w = .ok t w') :
    (∃ rs, w.rest = t :: rs ∧ w' = ⟨some t, rs⟩) ∨ (w.rest = [] ∧ w' = w ∧ t.ty = .eof) := by
  unfold popToken at h
  cases hr : w.rest with
  | cons u rs =>
    rw [hr] at h; simp only [] at h
    cases h; exact Or.inl ⟨rs, rfl, rfl⟩
  | nil =>
    rw [hr] at h; simp only [] at h
    cases hp : w.prev with
    | none => rw [hp] at h; cases h
    | some l =>
      rw [hp] at h; simp only [] at h
      by_cases he : l.ty = .eof
      · rw [if_pos he] at h; cases h; exact Or.inr ⟨rfl, rfl, he⟩
      · rw [if_neg he] at h; cases h; exact Or.inr ⟨rfl, rfl, rfl⟩

section Walker
variable {cls : Cls} {P : Token → Prop} {R : Token → Token → Prop}

theorem lineEndW_of_lineTok (H : Hyp cls P R) {t : Token} {rs : List Token}
    (hw : WI P R ⟨some t, rs⟩) (hl : IsLineTok t) : LineEndW ⟨some t, rs⟩ := by
  cases rs with
  | nil => exact Or.inl rfl
  | cons u us => exact Or.inr (H.eol t u (hw.2.1 t rfl) hl)

theorem popToken_wp (H : Hyp cls P R) {w : W} (hw : WI P R w) :
    WP popToken w (fun t w' => WI P R w' ∧ TokLitWF cls t ∧ t.ty = w.nextType ∧
      (IsLineTok t → LineEndW w') ∧ WI P R ⟨some t, w'.rest⟩) := by
  intro t w' h
  obtain ⟨p, rest⟩ := w
  rcases popToken_ok h with ⟨rs, h1, h2⟩ | ⟨h1, h2, h3⟩
  · simp only at h1
    subst h1; subst h2
    exact ⟨hw.tail, H.lit t (hw.1 t (by simp)), rfl, lineEndW_of_lineTok H hw.tail, hw.tail⟩
  · simp only at h1
    subst h1; subst h2
    refine ⟨hw, tokLitWF_eof h3, h3, ?_, WI.nil _⟩
    intro hl
    rcases hl with hl | hl <;> rw [h3] at hl <;> cases hl

/-! ### references -/

theorem identWF_of_asIdent (H : Hyp cls P R) {t it : Token} (hp : P t) (h : t.asIdent = some it) :
    IdentWF cls ⟨it, it.lit, ⟨it.start, it.end_⟩⟩ := by
  have hl := H.lit t hp
  unfold Token.asIdent at h
  split at h
  · rename_i hty
    cases h
    unfold TokLitWF at hl; rw [hty] at hl
    exact ⟨hty, hl.1, rfl⟩
  · rename_i hty
    cases h
    unfold TokLitWF at hl; rw [hty] at hl
    exact ⟨rfl, hl.1, rfl⟩
  · cases h

theorem newReference_idents {acc : List Ident} {r : Reference} (h : newReference acc = some r) :
    r.idents = acc := by
  unfold newReference at h
  split at h
  · cases h; rfl
  · cases h

theorem popReferenceLoop_wf (H : Hyp cls P R) (n : Nat) :
    ∀ (rest : List Token) (acc : List Ident) (prev : Option Token),
    rest.length ≤ n → (∀ i ∈ acc, IdentWF cls i) → WI P R ⟨prev, rest⟩ →
    ∀ r w', popReferenceLoop acc prev rest = .ok r w' → WI P R w' ∧ RefWF cls r := by
  induction n with
  | zero =>
    intro rest acc prev hn _ _ r w' h
    have : rest = [] := List.eq_nil_of_length_eq_zero (Nat.le_zero.mp hn)
    subst this
    unfold popReferenceLoop at h
    split at h
    · split at h <;> cases h
    · cases h
    · cases h
  | succ n ih =>
    intro rest acc prev hn hacc hw r w' h
    cases rest with
    | nil =>
      unfold popReferenceLoop at h
      split at h
      · split at h <;> cases h
      · cases h
      · cases h
    | cons t rs =>
      unfold popReferenceLoop at h
      cases hai : t.asIdent with
      | none =>
        rw [hai] at h
        simp only [] at h
        split at h <;> cases h
      | some it =>
        rw [hai] at h
        simp only [] at h
        have hid := identWF_of_asIdent H (hw.1 t (by simp)) hai
        have hacc' : ∀ i ∈ acc ++ [(⟨it, it.lit, ⟨it.start, it.end_⟩⟩ : Ident)], IdentWF cls i := by
          intro i hi
          rcases List.mem_append.mp hi with h1 | h1
          · exact hacc i h1
          · simp at h1; subst h1; exact hid
        have hfin : ∀ (rest' : List Token), WI P R ⟨some t, rest'⟩ →
            (match newReference (acc ++ [(⟨it, it.lit, ⟨it.start, it.end_⟩⟩ : Ident)]) with
              | none => (WR.panic "index out of range [0]" : WR Reference)
              | some r => .ok r ⟨some t, rest'⟩) = .ok r w' →
            WI P R w' ∧ RefWF cls r := by
          intro rest' hw' hh
          cases hnr : newReference (acc ++ [(⟨it, it.lit, ⟨it.start, it.end_⟩⟩ : Ident)]) with
          | none => rw [hnr] at hh; cases hh
          | some r0 =>
            rw [hnr] at hh
            cases hh
            have hi := newReference_idents hnr
            refine ⟨hw', ?_, ?_⟩
            · rw [hi]; simp
            · rw [hi]; exact hacc'
        cases rs with
        | nil => exact hfin [] hw.tail h
        | cons d rs2 =>
          simp only [] at h
          split at h
          · exact ih rs2 _ (some d) (by simp at hn ⊢; omega) hacc' hw.tail.tail r w' h
          · exact hfin (d :: rs2) hw.tail h

theorem popReference_wp (H : Hyp cls P R) {w : W} (hw : WI P R w) :
    WP popReference w (fun r w' => WI P R w' ∧ RefWF cls r) := by
  intro r w' h
  exact popReferenceLoop_wf H w.rest.length w.rest [] w.prev (Nat.le_refl _)
    (fun i hi => by cases hi) hw r w' h

/-! ### descriptions -/

theorem popDescLoop_wi (n : Nat) : ∀ (rest toks : List Token) (last : Token), rest.length ≤ n →
    WI P R ⟨some last, rest⟩ → WI P R (popDescLoop toks last rest).2.2 := by
  induction n with
  | zero =>
    intro rest toks last h hw
    have : rest = [] := List.eq_nil_of_length_eq_zero (Nat.le_zero.mp h)
    subst this
    exact hw
  | succ n ih =>
    intro rest toks last h hw
    match rest with
    | [] => exact hw
    | [x] => exact hw
    | e :: d :: rs =>
      unfold popDescLoop
      split
      · exact ih rs _ d (by simp at h ⊢; omega) hw.tail.tail
      · exact hw

theorem popDescription_wp (H : Hyp cls P R) {w : W} (hw : WI P R w) :
    WP popDescription w (fun _ w' => WI P R w') := by
  unfold popDescription
  refine WP.bind (popToken_wp H hw) ?_
  intro first w1 h1 d w' hm
  have hm' : (match popDescLoop [first] first w1.rest with
    | (toks, last, w2) => WR.ok (mkDescription toks first last) w2) = WR.ok d w' := hm
  have := popDescLoop_wi (P := P) (R := R) w1.rest.length w1.rest [first] first (Nat.le_refl _)
    h1.2.2.2.2
  generalize popDescLoop [first] first w1.rest = res at hm' this
  obtain ⟨toks, last, w2⟩ := res
  simp only [] at hm' this
  cases hm'
  exact this

/-! ### values -/

/-- shape of the result of `popValue`, with what is known of the state after a line token -/
def VShape (cls : Cls) (v : Value) (w' : W) : Prop :=
  match v with
  | .scalar t _ => ScalarWF cls t ∧ (IsLineTok t → LineEndW w')
  | .array vs _ => ValueListWF cls vs

theorem valueListWF_append (cls : Cls) : ∀ (a : List Value) (v : Value), ValueListWF cls a →
    ValueWF cls v → ValueListWF cls (a ++ [v])
  | [], v, _, hv => by
    show ValueListWF cls [v]
    unfold ValueListWF
    exact ⟨hv, by unfold ValueListWF; trivial⟩
  | x :: xs, v, ha, hv => by
    unfold ValueListWF at ha
    show ValueListWF cls (x :: (xs ++ [v]))
    unfold ValueListWF
    exact ⟨ha.1, valueListWF_append cls xs v ha.2 hv⟩

theorem lineEndW_nextType {w : W} (h : LineEndW w) : w.nextType = .eof ∨ w.nextType = .eol := by
  obtain ⟨p, rest⟩ := w
  rcases h with h | h
  · simp only at h; subst h; exact Or.inl rfl
  · exact Or.inr h

/-- an array element is followed by `,` or `]`, so it is not a line token -/
theorem valueWF_of_shape {v : Value} {w1 : W} (h : VShape cls v w1)
    (hn : w1.nextType = .comma ∨ w1.nextType = .rbrack) : ValueWF cls v := by
  cases v with
  | scalar t sp =>
    unfold VShape at h
    simp only [] at h
    have hnl : ¬ IsLineTok t := by
      intro hl
      rcases lineEndW_nextType (h.2 hl) with e | e <;> rcases hn with e' | e' <;>
        rw [e] at e' <;> cases e'
    unfold ValueWF
    exact ⟨h.1, fun e => hnl (Or.inl e), fun e => hnl (Or.inr e)⟩
  | array vs sp =>
    unfold ValueWF
    exact h

theorem popValue_wf_aux (H : Hyp cls P R) (fuel : Nat) :
    (∀ w : W, WI P R w → WP (popValue fuel) w (fun v w' => WI P R w' ∧ VShape cls v w')) ∧
    (∀ (w : W) (opener : Token) (acc : List Value), WI P R w → ValueListWF cls acc →
      WP (popValueElems fuel opener acc) w (fun v w' => WI P R w' ∧
        ∃ vs sp, v = .array vs sp ∧ ValueListWF cls vs)) := by
  induction fuel with
  | zero =>
    constructor
    · intro w _; unfold popValue; exact WP.panic
    · intro w o a _ _; unfold popValueElems; exact WP.panic
  | succ fuel ih =>
    obtain ⟨ihV, ihE⟩ := ih
    constructor
    · intro w hw
      unfold popValue
      intro v w' e
      simp only [] at e
      by_cases h1 : w.nextType = .ident
      · rw [if_pos h1] at e
        revert v w'
        refine WP.bind (popReference_wp H hw) ?_
        intro ref w1 hr
        apply WP.pure
        refine ⟨hr.1, ⟨(by show TokenType.string ≠ TokenType.ident; decide), rfl, trivial⟩, ?_⟩
        intro hl
        rcases hl with hl | hl <;> cases hl
      · rw [if_neg h1] at e
        by_cases h2 : w.nextType.isLiteral = true
        · rw [if_pos h2] at e
          revert v w'
          refine WP.bind (popToken_wp H hw) ?_
          intro tok w1 hp
          apply WP.pure
          obtain ⟨hw1, hlit, hty, hle, _⟩ := hp
          exact ⟨hw1, ⟨by rw [hty]; exact h1, by rw [hty]; exact h2, hlit⟩, hle⟩
        · rw [if_neg h2] at e
          by_cases h3 : w.nextType = .lbrack
          · rw [if_pos h3] at e
            revert v w'
            refine WP.bind (popToken_wp H hw) ?_
            intro opener w1 hp
            apply WP.getW_bind
            by_cases h4 : w1.nextType = TokenType.rbrack
            · simp only [h4, if_true]
              refine WP.bind (popToken_wp H hp.1) ?_
              intro _ w2 hp2
              apply WP.getW_bind
              apply WP.pure
              refine ⟨hp2.1, ?_⟩
              show ValueListWF cls []
              unfold ValueListWF; trivial
            · simp only [h4, if_false]
              refine WP.weaken (ihE w1 opener [] hp.1 (by unfold ValueListWF; trivial)) ?_
              intro v w' hv
              obtain ⟨hw', vs, sp, e1, e2⟩ := hv
              subst e1
              exact ⟨hw', e2⟩
          · rw [if_neg h3] at e
            revert v w'
            exact failUnexpected_wp _ w _
    · intro w opener acc hw hacc
      unfold popValueElems
      refine WP.bind (ihV w hw) ?_
      intro value w1 hv
      obtain ⟨hw1, hshape⟩ := hv
      simp only []
      apply WP.getW_bind
      by_cases h1 : w1.nextType = .comma
      · have hval : ValueWF cls value := valueWF_of_shape hshape (Or.inl h1)
        simp only [h1, if_true]
        refine WP.bind (popToken_wp H hw1) ?_
        intro _ w2 hp
        exact ihE w2 opener (acc ++ [value]) hp.1 (valueListWF_append cls _ _ hacc hval)
      · simp only [h1, if_false]
        by_cases h2 : w1.nextType = .rbrack
        · have hval : ValueWF cls value := valueWF_of_shape hshape (Or.inr h2)
          simp only [h2, if_true]
          refine WP.bind (popToken_wp H hw1) ?_
          intro _ w2 hp
          apply WP.getW_bind
          apply WP.pure
          exact ⟨hp.1, _, _, rfl, valueListWF_append cls _ _ hacc hval⟩
        · simp only [h2, if_false]
          exact failUnexpected_wp _ _ _

theorem popValue_wp (H : Hyp cls P R) (fuel : Nat) {w : W} (hw : WI P R w) :
    WP (popValue fuel) w (fun v w' => WI P R w' ∧ VShape cls v w') :=
  (popValue_wf_aux H fuel).1 w hw

/-- a value read at a STRING token is that token -/
theorem popValue_string (fuel : Nat) {w : W} (hs : w.nextType = .string) :
    WP (popValue fuel) w (fun v _ => ∃ tok sp, v = .scalar tok sp ∧ tok.ty = .string) := by
  cases fuel with
  | zero => unfold popValue; exact WP.panic
  | succ fuel =>
    unfold popValue
    intro v w' e
    simp only [] at e
    rw [if_neg (by rw [hs]; decide), if_pos (by rw [hs]; rfl)] at e
    have hp : WP popToken w (fun t _ => t.ty = .string) := by
      intro t w1 ht
      rcases popToken_ok ht with ⟨rs, h1, _⟩ | ⟨h1, _, _⟩
      · obtain ⟨p, rest⟩ := w
        simp only at h1; subst h1
        exact hs
      · obtain ⟨p, rest⟩ := w
        simp only at h1; subst h1
        cases hs
    revert v w'
    refine WP.bind hp ?_
    intro tok w1 ht
    exact WP.pure ⟨_, _, rfl, ht⟩

theorem WP.and {α : Type} {m : WM α} {w : W} {A B : α → W → Prop} (h1 : WP m w A)
    (h2 : WP m w B) : WP m w (fun a w' => A a w' ∧ B a w') :=
  fun a w' e => ⟨h1 a w' e, h2 a w' e⟩

theorem forall_mem_append_single {α : Type} {Q : α → Prop} {l : List α} {a : α}
    (hl : ∀ x ∈ l, Q x) (ha : Q a) : ∀ x ∈ l ++ [a], Q x := by
  intro x hx
  rcases List.mem_append.mp hx with h | h
  · exact hl x h
  · simp at h; subst h; exact ha

/-! ### tags -/

def MarkOK (cls : Cls) (mark : TagMark) (tok : Token) : Prop :=
  match mark with
  | .none => tok = Token.zero
  | .bang => tok.ty = .bang ∧ TokLitWF cls tok
  | .question => tok.ty = .question ∧ TokLitWF cls tok

theorem popTag_wp (H : Hyp cls P R) (fuel : Nat) {w : W} (hw : WI P R w) :
    WP (popTag fuel) w (fun t w' => WI P R w' ∧ TagWF cls t) := by
  unfold popTag
  apply WP.getW_bind
  have hmark : WP (match w.nextType with
      | .bang => do let tok ← popToken; pure (TagMark.bang, tok)
      | .question => do let tok ← popToken; pure (TagMark.question, tok)
      | _ => pure (TagMark.none, Token.zero) : WM (TagMark × Token)) w
      (fun p w' => WI P R w' ∧ MarkOK cls p.1 p.2) := by
    split
    · rename_i hty
      refine WP.bind (popToken_wp H hw) ?_
      intro tok w1 hp
      exact WP.pure ⟨hp.1, by rw [hp.2.2.1]; exact hty, hp.2.1⟩
    · rename_i hty
      refine WP.bind (popToken_wp H hw) ?_
      intro tok w1 hp
      exact WP.pure ⟨hp.1, by rw [hp.2.2.1]; exact hty, hp.2.1⟩
    · exact WP.pure ⟨hw, rfl⟩
  refine WP.bind hmark ?_
  intro p w1 hm
  obtain ⟨mark, markToken⟩ := p
  obtain ⟨hw1, hmk⟩ := hm
  simp only []
  apply WP.getW_bind
  split
  · refine WP.bind (popReference_wp H hw1) ?_
    intro ref w2 hr
    exact WP.pure ⟨hr.1, hmk, Or.inl ⟨ref, rfl, rfl, hr.2⟩⟩
  · refine WP.bind (popReference_wp H hw1) ?_
    intro ref w2 hr
    exact WP.pure ⟨hr.1, hmk, Or.inl ⟨ref, rfl, rfl, hr.2⟩⟩
  · rename_i hty
    refine WP.bind ((popValue_wp H fuel hw1).and (popValue_string fuel hty)) ?_
    intro v w2 hv
    obtain ⟨⟨hw2, _⟩, tok, sp, e1, e2⟩ := hv
    subst e1
    exact WP.pure ⟨hw2, hmk, Or.inr ⟨tok, sp, rfl, rfl, e2⟩⟩
  · exact failUnexpected_wp _ _ _

/-! ### statements -/

theorem endStatement_wp (H : Hyp cls P R) {w : W} (hw : WI P R w) :
    WP endStatement w (fun c w' => WI P R w' ∧ CommentNodeWF c ∧ (LineEndW w → c = none)) := by
  unfold endStatement
  refine WP.bind (popToken_wp H hw) ?_
  intro tok w1 hp
  obtain ⟨hw1, hlit, hty, _, _⟩ := hp
  split
  · rename_i hc
    refine WP.bind (popToken_wp H hw1) ?_
    intro tok2 w2 hp2
    split
    · apply WP.pure
      refine ⟨hp2.1, ?_, ?_⟩
      · intro cn hcn
        cases hcn
        unfold TokLitWF at hlit
        rw [hc] at hlit
        exact hlit
      · intro hle
        rcases lineEndW_nextType hle with e | e <;> rw [← hty, hc] at e <;> cases e
    · exact WP.fail
  · split
    · exact WP.pure ⟨hw1, (fun cn h => by cases h), fun _ => rfl⟩
    · exact WP.fail

theorem popType_wp (H : Hyp cls P R) (tt : TokenType) {w : W} (hw : WI P R w) :
    WP (popType tt) w (fun _ w' => WI P R w') := by
  unfold popType
  refine WP.bind (popToken_wp H hw) ?_
  intro tok w1 hp
  split
  · exact WP.fail
  · exact WP.pure hp.1

theorem walkValueAssign_wp (H : Hyp cls P R) (fuel : Nat) (ref : Reference) (app : Bool) {w : W}
    (hw : WI P R w) (href : RefWF cls ref) :
    WP (walkValueAssign fuel ref app) w (fun a w' => WI P R w' ∧ AssignWF cls a) := by
  unfold walkValueAssign
  refine WP.bind (popType_wp H .assign hw) ?_
  intro _ w1 hw1
  refine WP.bind (popValue_wp H fuel hw1) ?_
  intro value w2 hv
  refine WP.bind (endStatement_wp H hv.1) ?_
  intro comment w3 hc
  apply WP.pure
  refine ⟨hc.1, href, ?_, hc.2.1⟩
  cases value with
  | scalar t sp =>
    have hs : ScalarWF cls t ∧ (IsLineTok t → LineEndW w2) := hv.2
    show ScalarWF cls t ∧ ((t.ty = .comment ∨ t.ty = .description) → comment = none)
    exact ⟨hs.1, fun hl => hc.2.2 (hs.2 hl)⟩
  | array vs sp => exact hv.2

theorem tagsLoop_wp (H : Hyp cls P R) (pfuel : Nat) (fuel : Nat) :
    ∀ (w : W) (acc : List TagValue), WI P R w → (∀ t ∈ acc, TagWF cls t) →
    WP (tagsLoop pfuel fuel acc) w (fun ts w' => WI P R w' ∧ ∀ t ∈ ts, TagWF cls t) := by
  induction fuel with
  | zero => intro w acc _ _; unfold tagsLoop; exact WP.panic
  | succ fuel ih =>
    intro w acc hw hacc
    unfold tagsLoop
    apply WP.getW_bind
    split
    · refine WP.bind (popTag_wp H pfuel hw) ?_
      intro tag w1 ht
      exact ih w1 _ ht.1 (forall_mem_append_single hacc ht.2)
    · exact WP.pure ⟨hw, hacc⟩

theorem qualsLoop_wp (H : Hyp cls P R) (pfuel : Nat) (fuel : Nat) :
    ∀ (w : W) (acc : List TagValue), WI P R w → (∀ t ∈ acc, TagWF cls t) →
    WP (qualsLoop pfuel fuel acc) w (fun ts w' => WI P R w' ∧ ∀ t ∈ ts, TagWF cls t) := by
  induction fuel with
  | zero => intro w acc _ _; unfold qualsLoop; exact WP.panic
  | succ fuel ih =>
    intro w acc hw hacc
    unfold qualsLoop
    apply WP.getW_bind
    split
    · refine WP.bind (popToken_wp H hw) ?_
      intro _ w1 hp
      refine WP.bind (popTag_wp H pfuel hp.1) ?_
      intro tag w2 ht
      exact ih w2 _ ht.1 (forall_mem_append_single hacc ht.2)
    · exact WP.pure ⟨hw, hacc⟩

theorem walkStatement_wp (H : Hyp cls P R) (fuel : Nat) {w : W} (hw : WI P R w) :
    WP (walkStatement fuel) w (fun f w' => WI P R w' ∧ FragWF cls f ∧ ∀ d, f ≠ .desc d) := by
  unfold walkStatement
  refine WP.bind (popReference_wp H hw) ?_
  intro ref w1 hr
  obtain ⟨hw1, href⟩ := hr
  simp only []
  apply WP.getW_bind
  by_cases h1 : w1.nextType = .assign
  · simp only [h1, if_true]
    refine WP.bind (walkValueAssign_wp H fuel ref false hw1 href) ?_
    intro a w2 ha
    exact WP.pure ⟨ha.1, ha.2, fun d h => by cases h⟩
  · simp only [h1, if_false]
    by_cases h2 : w1.nextType = .plus
    · simp only [h2, if_true]
      refine WP.bind (popToken_wp H hw1) ?_
      intro _ w2 hp
      apply WP.getW_bind
      split
      · exact failUnexpected_wp _ _ _
      · refine WP.bind (walkValueAssign_wp H fuel ref true hp.1 href) ?_
        intro a w3 ha
        exact WP.pure ⟨ha.1, ha.2, fun d h => by cases h⟩
    · simp only [h2, if_false]
      refine WP.bind (tagsLoop_wp H fuel fuel w1 [] hw1 (fun t ht => by cases ht)) ?_
      intro tags w2 ht
      refine WP.bind (qualsLoop_wp H fuel fuel w2 [] ht.1 (fun t ht => by cases ht)) ?_
      intro quals w3 hq
      apply WP.getW_bind
      split
      · refine WP.bind (popToken_wp H hq.1) ?_
        intro _ w4 hp
        apply WP.getW_bind
        refine WP.bind (endStatement_wp H hp.1) ?_
        intro comment w5 hc
        apply WP.pure
        refine ⟨hc.1, ?_, fun d h => by cases h⟩
        show HeaderWF cls _
        unfold HeaderWF
        exact ⟨href, ht.2, hq.2, hc.2.1, fun d h => by cases h⟩
      · rename_i hty
        refine WP.bind (popToken_wp H hq.1) ?_
        intro tok w4 hp
        apply WP.getW_bind
        apply WP.pure
        refine ⟨hp.1, ?_, fun d h => by cases h⟩
        show HeaderWF cls _
        unfold HeaderWF
        refine ⟨href, ht.2, hq.2, (fun cn h => by cases h), ?_⟩
        intro d hd
        cases hd
        exact ⟨rfl, rfl, tok, rfl, by rw [hp.2.2.1]; exact hty, hp.2.1, rfl⟩
      · refine WP.bind (endStatement_wp H hq.1) ?_
        intro comment w4 hc
        apply WP.pure
        refine ⟨hc.1, ?_, fun d h => by cases h⟩
        show HeaderWF cls _
        unfold HeaderWF
        exact ⟨href, ht.2, hq.2, hc.2.1, fun d h => by cases h⟩
      · apply WP.pure
        refine ⟨hq.1, ?_, fun d h => by cases h⟩
        show HeaderWF cls _
        unfold HeaderWF
        exact ⟨href, ht.2, hq.2, (fun cn h => by cases h), fun d h => by cases h⟩
      · apply WP.pure
        refine ⟨hq.1, ?_, fun d h => by cases h⟩
        show HeaderWF cls _
        unfold HeaderWF
        exact ⟨href, ht.2, hq.2, (fun cn h => by cases h), fun d h => by cases h⟩
      · exact failUnexpected_wp _ _ _

theorem nextFragment_wp (H : Hyp cls P R) (fuel : Nat) {w : W} (hw : WI P R w) :
    WP (nextFragment fuel) w (fun r w' => WI P R w' ∧ ∀ f, r = some f → FragWF cls f) := by
  unfold nextFragment
  apply WP.getW_bind
  split
  · refine WP.bind (popToken_wp H hw) ?_
    intro _ w1 hp
    exact WP.pure ⟨hp.1, fun f h => by cases h⟩
  · refine WP.bind (popToken_wp H hw) ?_
    intro _ w1 hp
    exact WP.pure ⟨hp.1, fun f h => by cases h⟩
  · rename_i hty
    refine WP.bind (popToken_wp H hw) ?_
    intro tok w1 hp
    apply WP.pure
    refine ⟨hp.1, ?_⟩
    intro f h; cases h
    exact ⟨by rw [hp.2.2.1]; exact hty, hp.2.1⟩
  · rename_i hty
    refine WP.bind (popToken_wp H hw) ?_
    intro tok w1 hp
    apply WP.pure
    refine ⟨hp.1, ?_⟩
    intro f h; cases h
    exact ⟨Or.inl (by rw [hp.2.2.1]; exact hty), hp.2.1, rfl⟩
  · rename_i hty
    refine WP.bind (popToken_wp H hw) ?_
    intro tok w1 hp
    apply WP.pure
    refine ⟨hp.1, ?_⟩
    intro f h; cases h
    exact ⟨Or.inr (by rw [hp.2.2.1]; exact hty), hp.2.1, rfl⟩
  · refine WP.bind (popDescription_wp H hw) ?_
    intro d w1 hd
    apply WP.pure
    refine ⟨hd, ?_⟩
    intro f h; cases h
    trivial
  · refine WP.bind (walkStatement_wp H fuel hw) ?_
    intro f w1 hf
    apply WP.pure
    refine ⟨hf.1, ?_⟩
    intro f' h; cases h
    exact hf.2.1
  · refine WP.bind (walkStatement_wp H fuel hw) ?_
    intro f w1 hf
    apply WP.pure
    refine ⟨hf.1, ?_⟩
    intro f' h; cases h
    exact hf.2.1
  · exact failUnexpected_wp _ _ _

theorem walkFragmentsLoop_fragWF (H : Hyp cls P R) (pfuel : Nat) (fuel : Nat) :
    ∀ (w : W) (frags : List Fragment) (errs : List Diag), WI P R w →
    (∀ f ∈ frags, FragWF cls f) → ∀ out errs',
    walkFragmentsLoop true pfuel fuel w frags errs = .done out errs' → ∀ f ∈ out, FragWF cls f := by
  induction fuel with
  | zero => intro w frags errs _ _ out errs' h; unfold walkFragmentsLoop at h; cases h
  | succ fuel ih =>
    intro w frags errs hw hfr out errs' h
    unfold walkFragmentsLoop at h
    split at h
    · cases h; exact hfr
    · cases hnf : nextFragment pfuel w with
      | panic s => rw [hnf] at h; cases h
      | fail e w1 => rw [hnf] at h; simp at h
      | ok r w1 =>
        rw [hnf] at h
        have hn := nextFragment_wp H pfuel hw r w1 hnf
        cases r with
        | none => exact ih w1 frags errs hn.1 hfr out errs' h
        | some f =>
          exact ih w1 (frags ++ [f]) errs hn.1 (forall_mem_append_single hfr (hn.2 f rfl)) out errs' h

end Walker

theorem hyp_lexed (cls : Cls) : Hyp cls (TokLitWF cls) EolRel := ⟨fun _ h => h, fun _ _ h => h⟩

/-- **Part 1**: every fragment `collectFragments` returns is well shaped -/
theorem collectFragments_fragWF (cls : Cls) (src : List Rune) (frags : List Fragment)
    (h : collectFragments cls src = .ok frags) : ∀ f ∈ frags, FragWF cls f := by
  unfold collectFragments at h
  cases hts : allTokens cls true src with
  | nofuel => rw [hts] at h; cases h
  | errs es => rw [hts] at h; cases h
  | toks ts =>
    rw [hts] at h
    simp only [] at h
    cases hwf : walkFragments true ts with
    | panic s => rw [hwf] at h; cases h
    | hadErrors es => rw [hwf] at h; cases h
    | done out es =>
      rw [hwf] at h
      cases h
      unfold walkFragments at hwf
      exact walkFragmentsLoop_fragWF (hyp_lexed cls) _ _ ⟨none, ts⟩ [] []
        ⟨allTokens_tokwf cls true src ts hts, allTokens_eolAfter cls true src ts hts⟩
        (fun f hf => by cases hf) _ _ hwf

/-! ## Part 2: two stand-alone descriptions are separated by a blank line -/

/-! ### lexer: the token after an EOL token starts on the next line -/

/-- after an EOL token the lexer stands on the next line -/
theorem nextToken_eol_nxt (cls : Cls) (c : Cur) (rest : List Rune)
    (he : (nextToken cls c rest).err = none) :
    (nextToken cls c rest).tok.ty = .eol →
      (nextToken cls c rest).cur.nxt.line = (nextToken cls c rest).tok.end_.line + 1 := by
  induction rest generalizing c with
  | nil =>
    unfold nextToken
    intro h; simp [mkTok] at h
  | cons r rs ih =>
    unfold nextToken at he ⊢
    simp only [] at he ⊢
    split
    · rename_i op hop
      intro h
      exact absurd h (operatorOf_ne_eol hop).1
    · rename_i hop
      simp only [hop] at he
      by_cases h1 : r = cSLASH
      · rw [if_pos h1] at he ⊢
        by_cases h2 : rs.head? = some cSLASH
        · rw [if_pos h2] at he ⊢
          rw [litStep_ty _ _ _ he]
          intro h; cases h
        · rw [if_neg h2] at he ⊢
          by_cases h3 : rs.head? = some cSTAR
          · rw [if_pos h3] at he ⊢
            rw [litStep_ty _ _ _ he]
            intro h; cases h
          · rw [if_neg h3] at he ⊢
            rw [litStep_ty _ _ _ he]
            intro h; cases h
      · rw [if_neg h1] at he ⊢
        by_cases h2 : r = cQUOTE
        · rw [if_pos h2] at he ⊢
          rw [litStep_ty _ _ _ he]
          intro h; cases h
        · rw [if_neg h2] at he ⊢
          by_cases h3 : r = cPIPE
          · rw [if_pos h3] at he ⊢
            rw [litStep_ty _ _ _ he]
            intro h; cases h
          · rw [if_neg h3] at he ⊢
            by_cases h4 : r = cNL
            · rw [if_pos h4] at he ⊢
              intro _
              show (c.adv r).nxt.line = (c.adv r).pos.line + 1
              unfold Cur.adv
              rw [if_pos h4]
            · rw [if_neg h4] at he ⊢
              by_cases h5 : cls.isSpace r = true
              · rw [if_pos h5] at he ⊢
                exact ih _ he
              · rw [if_neg h5] at he ⊢
                by_cases h6 : cls.isDigit r = true
                · rw [if_pos h6] at he ⊢
                  cases hne : (lexNumberLoop cls (c.adv r) TokenType.int [r] false rs).err with
                  | some e => rw [hne] at he; simp at he
                  | none =>
                    simp only []
                    have := (lexNumberLoop_lit cls (c.adv r) [r] rs false .int hne).1 rfl
                    rcases this with ⟨_, e1, _⟩ | ⟨_, _, e1, _⟩ <;>
                      exact (fun h => by simp [mkTok, e1] at h)
                · rw [if_neg h6] at he ⊢
                  by_cases h7 : cls.isLetter r = true
                  · rw [if_pos h7] at he ⊢
                    simp only [asKeyword]
                    split <;> exact (fun h => by simp [mkTok] at h)
                  · rw [if_neg h7] at he
                    simp at he

/-- the token after an EOL token starts one line below it -/
def EolNextRel (t u : Token) : Prop := t.ty = .eol → u.start.line = t.end_.line + 1

theorem allTokensLoop_eolNext (cls : Cls) (hcls : ClsNL cls) (ff : Bool) :
    ∀ (fuel : Nat) (c : Cur) (rest : List Rune) (toks : List Token) (errs : List LexErr)
      (out : List Token) (pt : Option Token),
      (∀ t, pt = some t → t.ty = .eol → c.nxt.line = t.end_.line + 1) →
      allTokensLoop cls ff fuel c rest toks errs = .toks out →
      ∃ new, out = toks ++ new ∧ AdjChain EolNextRel pt new := by
  intro fuel
  induction fuel with
  | zero => intro c rest toks errs out pt _ h; unfold allTokensLoop at h; cases h
  | succ fuel ih =>
    intro c rest toks errs out pt hpt h
    unfold allTokensLoop at h
    simp only [] at h
    cases hse : (nextToken cls c rest).err with
    | some e =>
      rw [hse] at h
      simp only [] at h
      split at h
      · cases h
      · split at h
        · cases h
        · exact (allTokensLoop_toks_no_errs cls ff _ _ _ _ _ _ h (by simp)).elim
    | none =>
      rw [hse] at h
      simp only [] at h
      have hl := nextToken_lines cls hcls c rest hse
      split at h
      · split at h
        · cases h; exact ⟨[], by simp, trivial⟩
        · cases h
      · obtain ⟨new, h1, h2⟩ := ih _ _ _ _ _ (some (nextToken cls c rest).tok)
          (fun t ht hty => by cases ht; exact nextToken_eol_nxt cls c rest hse hty) h
        refine ⟨(nextToken cls c rest).tok :: new, by rw [h1]; simp, ⟨?_, h2⟩⟩
        intro t ht hty
        rw [hl.start, hpt t ht hty]

theorem allTokens_eolNext (cls : Cls) (hcls : ClsNL cls) (ff : Bool) (src : List Rune)
    (ts : List Token) (h : allTokens cls ff src = .toks ts) : AdjChain EolNextRel none ts := by
  obtain ⟨new, h1, h2⟩ := allTokensLoop_eolNext cls hcls ff _ _ _ _ _ _ none
    (fun t ht => by cases ht) h
  simp at h1; subst h1
  exact h2

/-- after a token that is not an EOL the next token starts on its last line -/
def LineAdjRel (t u : Token) : Prop := t.ty ≠ .eol → u.start.line = t.end_.line

theorem adjChain_of_lineAdj : ∀ (l : List Token) (p : Option Token), LineAdj p l →
    AdjChain LineAdjRel p l := by
  intro l
  induction l with
  | nil => intro p _; trivial
  | cons u us ih => intro p h; exact ⟨h.1, ih _ h.2⟩

/-! ### the invariant with line facts -/

def LineP (cls : Cls) (t : Token) : Prop :=
  TokLitWF cls t ∧ ((t.ty = .comment ∨ t.ty = .eol) → t.end_.line = t.start.line)

def LineR (t u : Token) : Prop := EolRel t u ∧ LineAdjRel t u ∧ EolNextRel t u

theorem hyp_lines (cls : Cls) : Hyp cls (LineP cls) LineR := ⟨fun _ h => h.1, fun _ _ h => h.1⟩

/-- `EOL DESCRIPTION` follows: `popDescLoop` goes on -/
def DescCont (rest : List Token) : Prop :=
  ∃ e d rs, rest = e :: d :: rs ∧ e.ty = .eol ∧ d.ty = .description

theorem popDescLoop_end (n : Nat) : ∀ (rest toks : List Token) (last : Token), rest.length ≤ n →
    last.ty = .description →
    (popDescLoop toks last rest).2.2.prev = some (popDescLoop toks last rest).2.1 ∧
      (popDescLoop toks last rest).2.1.ty = .description ∧
      ¬ DescCont (popDescLoop toks last rest).2.2.rest := by
  induction n with
  | zero =>
    intro rest toks last h hl
    have : rest = [] := List.eq_nil_of_length_eq_zero (Nat.le_zero.mp h)
    subst this
    refine ⟨rfl, hl, ?_⟩
    rintro ⟨e, d, rs, h1, _⟩
    cases h1
  | succ n ih =>
    intro rest toks last h hl
    match rest with
    | [] =>
      refine ⟨rfl, hl, ?_⟩
      rintro ⟨e, d, rs, h1, _⟩
      cases h1
    | [x] =>
      refine ⟨rfl, hl, ?_⟩
      rintro ⟨e, d, rs, h1, _⟩
      cases h1
    | e :: d :: rs =>
      unfold popDescLoop
      split
      · rename_i hc
        exact ih rs _ d (by simp at h ⊢; omega) hc.2
      · rename_i hc
        refine ⟨rfl, hl, ?_⟩
        rintro ⟨e', d', rs', h1, h2, h3⟩
        cases h1
        exact hc ⟨h2, h3⟩

/-- what reading the stand-alone description `e` from `w` (arriving at `w'`) means -/
def DescRead (w : W) (e : Description) (w' : W) : Prop :=
  ∃ first rs, w.rest = first :: rs ∧ first.ty = .description ∧ e.span.start = first.start ∧
    ∃ tl, w'.prev = some tl ∧ tl.ty = .description ∧ e.span.end_ = tl.end_ ∧ ¬ DescCont w'.rest

theorem popDescription_exact {w : W} {d : Description} {w' : W} (h : popDescription w = .ok d w')
    (hty : w.nextType = .description) : DescRead w d w' := by
  have h' : WM.bind popToken (fun first w =>
      let (toks, last, w1) := popDescLoop [first] first w.rest
      WR.ok (mkDescription toks first last) w1) w = .ok d w' := h
  unfold WM.bind at h'
  cases hp : popToken w with
  | fail e w1 => rw [hp] at h'; cases h'
  | panic s => rw [hp] at h'; cases h'
  | ok first w1 =>
    rw [hp] at h'
    simp only [] at h'
    obtain ⟨p, rest⟩ := w
    rcases popToken_ok hp with ⟨rs, h1, h2⟩ | ⟨h1, _, _⟩
    · simp only at h1
      subst h1; subst h2
      have hfd : first.ty = .description := hty
      have := popDescLoop_end rs.length rs [first] first (Nat.le_refl _) hfd
      simp only at h'
      generalize popDescLoop [first] first rs = res at h' this
      obtain ⟨toks, last, w2⟩ := res
      simp only [] at h' this
      cases h'
      exact ⟨first, rs, rfl, hfd, rfl, last, this.1, this.2.1, rfl, this.2.2⟩
    · simp only at h1
      subst h1
      cases hty

section Walker2
variable {cls : Cls} {P : Token → Prop} {R : Token → Token → Prop}

/-- a `none` round of the fragment loop reads exactly one EOL token -/
theorem nextFragment_none_eol (fuel : Nat) (w : W) :
    WP (nextFragment fuel) w (fun r w' => r = none → w.nextType ≠ .eof →
      ∃ e rs, w.rest = e :: rs ∧ e.ty = .eol ∧ w' = ⟨some e, rs⟩) := by
  unfold nextFragment
  apply WP.getW_bind
  split
  · rename_i hty
    refine WP.bind (P := fun _ _ => True) WP.true ?_
    intro _ w1 _
    exact WP.pure (fun _ hne => absurd hty hne)
  · rename_i hty
    refine WP.bind (P := fun t w' => (∃ rs, w.rest = t :: rs ∧ w' = ⟨some t, rs⟩) ∨
      (w.rest = [] ∧ w' = w ∧ t.ty = .eof)) (fun t w' h => popToken_ok h) ?_
    intro tok w1 hp
    apply WP.pure
    intro _ _
    rcases hp with ⟨rs, h1, h2⟩ | ⟨h1, _, _⟩
    · refine ⟨tok, rs, h1, ?_, h2⟩
      obtain ⟨p, rest⟩ := w
      simp only at h1; subst h1
      exact hty
    · obtain ⟨p, rest⟩ := w
      simp only at h1; subst h1
      cases hty
  · refine WP.bind (P := fun _ _ => True) WP.true ?_
    intro _ w1 _
    exact WP.pure (fun h => by cases h)
  · refine WP.bind (P := fun _ _ => True) WP.true ?_
    intro _ w1 _
    exact WP.pure (fun h => by cases h)
  · refine WP.bind (P := fun _ _ => True) WP.true ?_
    intro _ w1 _
    exact WP.pure (fun h => by cases h)
  · refine WP.bind (P := fun _ _ => True) WP.true ?_
    intro _ w1 _
    exact WP.pure (fun h => by cases h)
  · refine WP.bind (P := fun _ _ => True) WP.true ?_
    intro _ w1 _
    exact WP.pure (fun h => by cases h)
  · refine WP.bind (P := fun _ _ => True) WP.true ?_
    intro _ w1 _
    exact WP.pure (fun h => by cases h)
  · exact failUnexpected_wp _ _ _

/-- a stand-alone description fragment was read by `popDescription` at a DESCRIPTION token -/
theorem nextFragment_desc (H : Hyp cls P R) (fuel : Nat) {w : W} (hw : WI P R w) :
    WP (nextFragment fuel) w (fun r w' => ∀ e, r = some (.desc e) → DescRead w e w') := by
  unfold nextFragment
  apply WP.getW_bind
  split
  · refine WP.bind (P := fun _ _ => True) WP.true ?_
    intro _ w1 _
    exact WP.pure (fun e h => by cases h)
  · refine WP.bind (P := fun _ _ => True) WP.true ?_
    intro _ w1 _
    exact WP.pure (fun e h => by cases h)
  · refine WP.bind (P := fun _ _ => True) WP.true ?_
    intro _ w1 _
    exact WP.pure (fun e h => by cases h)
  · refine WP.bind (P := fun _ _ => True) WP.true ?_
    intro _ w1 _
    exact WP.pure (fun e h => by cases h)
  · refine WP.bind (P := fun _ _ => True) WP.true ?_
    intro _ w1 _
    exact WP.pure (fun e h => by cases h)
  · rename_i hty
    refine WP.bind (P := fun d w1 => DescRead w d w1) (fun d w1 h => popDescription_exact h hty) ?_
    intro d w1 hd
    apply WP.pure
    intro e he
    cases he
    exact hd
  · refine WP.bind (walkStatement_wp H fuel hw) ?_
    intro f w1 hf
    apply WP.pure
    intro e he
    cases he
    exact absurd rfl (hf.2.2 e)
  · refine WP.bind (walkStatement_wp H fuel hw) ?_
    intro f w1 hf
    apply WP.pure
    intro e he
    cases he
    exact absurd rfl (hf.2.2 e)
  · exact failUnexpected_wp _ _ _

end Walker2

/-! ### the fragment loop -/

/-- where the walker stands after a stand-alone description that ended on line `L`:
just behind it; one EOL later (and no description follows); at least two EOLs later -/
def Phase (L : Nat) (w : W) : Prop :=
  (∃ tl, w.prev = some tl ∧ tl.ty = .description ∧ tl.end_.line = L ∧ ¬ DescCont w.rest) ∨
  (∃ e, w.prev = some e ∧ e.ty = .eol ∧ e.end_.line = L ∧ w.nextType ≠ .description) ∨
  (∃ e, w.prev = some e ∧ e.ty = .eol ∧ L + 1 ≤ e.end_.line)

theorem phase_step {cls : Cls} {L : Nat} {p : Option Token} {e : Token} {rs : List Token}
    (hw : WI (LineP cls) LineR ⟨p, e :: rs⟩) (he : e.ty = .eol) (hph : Phase L ⟨p, e :: rs⟩) :
    Phase L ⟨some e, rs⟩ := by
  have hsingle : e.end_.line = e.start.line := (hw.1 e (by simp)).2 (Or.inr he)
  rcases hph with ⟨tl, h1, h2, h3, h4⟩ | ⟨e0, h1, h2, h3, _⟩ | ⟨e0, h1, h2, h3⟩
  · have hst : e.start.line = tl.end_.line := (hw.2.1 tl h1).2.1 (by rw [h2]; decide)
    refine Or.inr (Or.inl ⟨e, rfl, he, by rw [hsingle, hst, h3], ?_⟩)
    cases rs with
    | nil => intro h; cases h
    | cons d rs' =>
      intro (hd : d.ty = .description)
      exact h4 ⟨e, d, rs', rfl, he, hd⟩
  · have hst : e.start.line = e0.end_.line + 1 := (hw.2.1 e0 h1).2.2 h2
    exact Or.inr (Or.inr ⟨e, rfl, he, by rw [hsingle, hst, h3]; exact Nat.le_refl _⟩)
  · have hst : e.start.line = e0.end_.line + 1 := (hw.2.1 e0 h1).2.2 h2
    exact Or.inr (Or.inr ⟨e, rfl, he, by rw [hsingle, hst]; omega⟩)

theorem phase_desc {cls : Cls} {L : Nat} {p : Option Token} {first : Token} {rs : List Token}
    (hw : WI (LineP cls) LineR ⟨p, first :: rs⟩) (hf : first.ty = .description)
    (hph : Phase L ⟨p, first :: rs⟩) : first.start.line > L + 1 := by
  rcases hph with ⟨tl, h1, h2, _, _⟩ | ⟨e0, _, _, _, h4⟩ | ⟨e0, h1, h2, h3⟩
  · have : first.ty = .eol := (hw.2.1 tl h1).1 (Or.inr h2)
    rw [hf] at this; cases this
  · exact absurd hf h4
  · have hst : first.start.line = e0.end_.line + 1 := (hw.2.1 e0 h1).2.2 h2
    omega

theorem descGaps_cons2 (f g : Fragment) (rest : List Fragment) :
    DescGaps (f :: g :: rest) ↔
      ((∀ d e, f = .desc d → g = .desc e → e.span.start.line > d.span.end_.line + 1) ∧
        DescGaps (g :: rest)) := Iff.rfl

theorem descGaps_snoc : ∀ (frags : List Fragment) (f : Fragment), DescGaps frags →
    (∀ d e, frags.getLast? = some (.desc d) → f = .desc e →
      e.span.start.line > d.span.end_.line + 1) → DescGaps (frags ++ [f])
  | [], _, _, _ => trivial
  | [g], f, _, h => (descGaps_cons2 g f []).mpr ⟨fun d e hd he => h d e (by rw [hd]; rfl) he, trivial⟩
  | g :: g' :: rest, f, hg, h =>
    (descGaps_cons2 g g' (rest ++ [f])).mpr ⟨((descGaps_cons2 g g' rest).mp hg).1,
      descGaps_snoc (g' :: rest) f ((descGaps_cons2 g g' rest).mp hg).2
        (fun d e hd he => h d e (by rw [List.getLast?_cons_cons]; exact hd) he)⟩

theorem walkFragmentsLoop_descGaps (cls : Cls) (pfuel : Nat) (fuel : Nat) :
    ∀ (w : W) (frags : List Fragment) (errs : List Diag), WI (LineP cls) LineR w →
    DescGaps frags → (∀ d, frags.getLast? = some (.desc d) → Phase d.span.end_.line w) →
    ∀ out errs', walkFragmentsLoop true pfuel fuel w frags errs = .done out errs' →
      DescGaps out := by
  induction fuel with
  | zero => intro w frags errs _ _ _ out errs' h; unfold walkFragmentsLoop at h; cases h
  | succ fuel ih =>
    intro w frags errs hw hdg hph out errs' h
    unfold walkFragmentsLoop at h
    split at h
    · cases h; exact hdg
    · rename_i hne
      cases hnf : nextFragment pfuel w with
      | panic s => rw [hnf] at h; cases h
      | fail e w1 => rw [hnf] at h; simp at h
      | ok r w1 =>
        rw [hnf] at h
        have hn := nextFragment_wp (hyp_lines cls) pfuel hw r w1 hnf
        cases r with
        | none =>
          obtain ⟨e, rs, h1, h2, h3⟩ := nextFragment_none_eol pfuel w none w1 hnf rfl hne
          obtain ⟨p, rest⟩ := w
          simp only at h1; subst h1; subst h3
          exact ih _ frags errs hn.1 hdg (fun d hd => phase_step hw h2 (hph d hd)) out errs' h
        | some f =>
          have hd := nextFragment_desc (hyp_lines cls) pfuel hw (some f) w1 hnf
          refine ih w1 (frags ++ [f]) errs hn.1 (descGaps_snoc frags f hdg ?_) ?_ out errs' h
          · intro d e hlast hfe
            obtain ⟨first, rs, h1, h2, h3, _⟩ := hd e (by rw [hfe])
            obtain ⟨p, rest⟩ := w
            simp only at h1; subst h1
            rw [h3]
            exact phase_desc hw h2 (hph d hlast)
          · intro d hlast
            have hfd : f = .desc d := by simpa using hlast
            obtain ⟨_, _, _, _, _, tl, t1, t2, t3, t4⟩ := hd d (by rw [hfd])
            exact Or.inl ⟨tl, t1, t2, by rw [t3], t4⟩

/-- **Part 2**: a stand-alone description directly after another one starts at least two lines
below the end of the first -/
theorem collectFragments_descGaps (cls : Cls) (hcls : ClsNL cls) (src : List Rune)
    (frags : List Fragment) (h : collectFragments cls src = .ok frags) : DescGaps frags := by
  unfold collectFragments at h
  cases hts : allTokens cls true src with
  | nofuel => rw [hts] at h; cases h
  | errs es => rw [hts] at h; cases h
  | toks ts =>
    rw [hts] at h
    simp only [] at h
    cases hwf : walkFragments true ts with
    | panic s => rw [hwf] at h; cases h
    | hadErrors es => rw [hwf] at h; cases h
    | done out es =>
      rw [hwf] at h
      cases h
      unfold walkFragments at hwf
      obtain ⟨hadj, hsingle⟩ := allTokens_lines cls hcls true src ts hts
      have hw : WI (LineP cls) LineR ⟨none, ts⟩ :=
        ⟨fun t ht => ⟨allTokens_tokwf cls true src ts hts t ht, hsingle t ht⟩,
          AdjChain.and _ _ (allTokens_eolAfter cls true src ts hts)
            (AdjChain.and _ _ (adjChain_of_lineAdj _ _ hadj)
              (allTokens_eolNext cls hcls true src ts hts))⟩
      exact walkFragmentsLoop_descGaps cls _ _ ⟨none, ts⟩ [] [] hw trivial
        (fun d hd => by cases hd) _ _ hwf

end J5V.Bcl
